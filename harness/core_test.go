// Package harness drives the real provenance code (linked from /repo through a module
// replace) with seeded operation streams and records, per line, the operation and the
// implementation's canonical output: "<op line>\t<impl output>".  The Lean driver
// (`pvmodel <model>`) replays the same lines against the model.  See DESIGN §2.3.
package harness

import (
	"bufio"
	"encoding/json"
	"flag"
	"fmt"
	"math/big"
	"os"
	"path/filepath"
	"sort"
	"strings"
	"testing"
)

var (
	flagModel = flag.String("model", "", "model/driver to run")
	flagSeed  = flag.Uint64("seed", 1, "PRNG seed (VERIF_SEED)")
	flagN     = flag.Int("n", 1000, "number of cases / histories")
	flagOut   = flag.String("out", "", "output file for op lines")
	flagOps   = flag.String("ops", "", "replay: file of op lines to execute instead of generating")
	flagTier  = flag.String("tier", "quick", "quick|thorough")
)

// RNG is splitmix64; every random choice in a run derives from one state.
type RNG struct{ s uint64 }

func NewRNG(seed uint64) *RNG {
	// scramble the seed so that consecutive seeds do not yield shifted copies of one stream
	z := (seed + 0x1234567) * 0xD6E8FEB86659FD93
	z = (z ^ (z >> 32)) * 0xD6E8FEB86659FD93
	z ^= z >> 32
	return &RNG{s: z}
}
func (r *RNG) U64() uint64 {
	r.s += 0x9E3779B97F4A7C15
	z := r.s
	z = (z ^ (z >> 30)) * 0xBF58476D1CE4E5B9
	z = (z ^ (z >> 27)) * 0x94D049BB133111EB
	return z ^ (z >> 31)
}
func (r *RNG) Intn(n int) int {
	if n <= 0 {
		return 0
	}
	return int(r.U64() % uint64(n))
}
func (r *RNG) Bool() bool         { return r.U64()&1 == 1 }
func (r *RNG) Chance(pct int) bool { return r.Intn(100) < pct }
func Pick[T any](r *RNG, xs []T) T { return xs[r.Intn(len(xs))] }

// BigBoundary returns a non-negative big integer drawn from the boundary set named in the
// properties: 0,1, small, powers of ten, 2^63±1, 2^64±1, 2^128, 2^255, 2^256-1, random widths.
func (r *RNG) BigBoundary() *big.Int {
	one := big.NewInt(1)
	pow2 := func(k uint) *big.Int { return new(big.Int).Lsh(one, k) }
	switch r.Intn(16) {
	case 0:
		return big.NewInt(int64(r.Intn(3)))
	case 1, 2, 3:
		return big.NewInt(int64(r.Intn(200)))
	case 4, 5:
		return big.NewInt(int64(r.Intn(2000000)))
	case 6:
		return new(big.Int).Exp(big.NewInt(10), big.NewInt(int64(r.Intn(40))), nil)
	case 7:
		k := []uint{63, 64, 128, 255}[r.Intn(4)]
		d := int64(r.Intn(3) - 1)
		return new(big.Int).Add(pow2(k), big.NewInt(d))
	case 8:
		return new(big.Int).Sub(pow2(256), big.NewInt(int64(1+r.Intn(2))))
	case 9, 10:
		// random width up to 256 bits
		w := uint(1 + r.Intn(256))
		x := new(big.Int)
		for i := uint(0); i < w; i += 64 {
			x.Lsh(x, 64)
			x.Or(x, new(big.Int).SetUint64(r.U64()))
		}
		return x.Rsh(x, uint(x.BitLen())-minU(uint(x.BitLen()), w))
	case 11, 12:
		return new(big.Int).SetUint64(r.U64() >> uint(r.Intn(64)))
	default:
		return big.NewInt(int64(1 + r.Intn(100000)))
	}
}

func minU(a, b uint) uint {
	if a < b {
		return a
	}
	return b
}

// Out collects the op lines and simple distribution counters for the evidence file.
type Out struct {
	w      *bufio.Writer
	f      *os.File
	Counts map[string]int
	Lines  int
}

func NewOut(path string) (*Out, error) {
	if err := os.MkdirAll(filepath.Dir(path), 0o755); err != nil {
		return nil, err
	}
	f, err := os.Create(path)
	if err != nil {
		return nil, err
	}
	return &Out{w: bufio.NewWriterSize(f, 1<<20), f: f, Counts: map[string]int{}}, nil
}

// Emit writes one "<op>\t<impl>" line. Tabs/newlines inside fields are replaced.
func (o *Out) Emit(op, impl string) {
	op = strings.NewReplacer("\t", " ", "\n", " ").Replace(op)
	impl = strings.NewReplacer("\t", " ", "\n", " ").Replace(impl)
	fmt.Fprintf(o.w, "%s\t%s\n", op, impl)
	o.Lines++
}

// Comment writes a line both sides ignore (history separators etc.).
func (o *Out) Comment(s string) { fmt.Fprintf(o.w, "# %s\n", strings.ReplaceAll(s, "\n", " ")) }
func (o *Out) Count(tag string) { o.Counts[tag]++ }
func (o *Out) Close(path string) error {
	if err := o.w.Flush(); err != nil {
		return err
	}
	if err := o.f.Close(); err != nil {
		return err
	}
	keys := make([]string, 0, len(o.Counts))
	for k := range o.Counts {
		keys = append(keys, k)
	}
	sort.Strings(keys)
	ordered := make([][2]any, 0, len(keys))
	for _, k := range keys {
		ordered = append(ordered, [2]any{k, o.Counts[k]})
	}
	bz, _ := json.Marshal(map[string]any{"lines": o.Lines, "counts": o.Counts})
	return os.WriteFile(path+".stats.json", bz, 0o644)
}

// Guard runs f and maps a panic to "panic:<class>".
func Guard(f func() string) (res string) {
	defer func() {
		if r := recover(); r != nil {
			res = "panic:" + panicClass(fmt.Sprint(r))
		}
	}()
	return f()
}

func panicClass(msg string) string {
	m := strings.ToLower(msg)
	switch {
	case strings.Contains(m, "overflow"), strings.Contains(m, "out of bound"):
		return "overflow"
	case strings.Contains(m, "division by zero"):
		return "divzero"
	case strings.Contains(m, "negative coin amount"):
		return "negcoin"
	default:
		return "other"
	}
}

// Driver is one model's generator+executor.
type Driver func(t *testing.T, rng *RNG, n int, out *Out)

// Replayer executes already-written op lines (from a replay or corpus file).
type Replayer func(t *testing.T, ops []string, out *Out)

var drivers = map[string]Driver{}
var replayers = map[string]Replayer{}

func TestDrive(t *testing.T) {
	if *flagModel == "" {
		t.Skip("no -model")
	}
	out, err := NewOut(*flagOut)
	if err != nil {
		t.Fatal(err)
	}
	if *flagOps != "" {
		rp, ok := replayers[*flagModel]
		if !ok {
			t.Fatalf("no replayer for %q", *flagModel)
		}
		bz, err := os.ReadFile(*flagOps)
		if err != nil {
			t.Fatal(err)
		}
		var ops []string
		for _, l := range strings.Split(string(bz), "\n") {
			if l == "" {
				continue
			}
			ops = append(ops, strings.SplitN(l, "\t", 2)[0])
		}
		rp(t, ops, out)
	} else {
		d, ok := drivers[*flagModel]
		if !ok {
			t.Fatalf("no driver for %q", *flagModel)
		}
		d(t, NewRNG(*flagSeed), *flagN, out)
	}
	if err := out.Close(*flagOut); err != nil {
		t.Fatal(err)
	}
}
