package harness

// Model "exhold" (C02): funds on hold always equal the account's open exchange obligations.
// Drives the REAL exchange MsgServer on a real app with the real hold and bank keepers:
// order creation, cancellation, market settlement (with partial fills), user fills,
// commitments (commit / release / settle), payments (create / accept / reject / cancel /
// retarget), fee changes, market closure, plain bank sends, staking delegations (the chain's bond
// denom is one of the traded denoms), and exchange InitGenesis.
// After every op `dump` prints every order / commitment / payment (Iterate*), every account's
// holds (HoldKeeper.GetHoldCoins) and balances.

import (
	"fmt"
	"sort"
	"strings"
	"sync"
	"testing"

	sdkmath "cosmossdk.io/math"

	sdk "github.com/cosmos/cosmos-sdk/types"
	bankkeeper "github.com/cosmos/cosmos-sdk/x/bank/keeper"
	banktypes "github.com/cosmos/cosmos-sdk/x/bank/types"
	stakingkeeper "github.com/cosmos/cosmos-sdk/x/staking/keeper"
	stakingtypes "github.com/cosmos/cosmos-sdk/x/staking/types"

	"github.com/provenance-io/provenance/app"
	"github.com/provenance-io/provenance/x/exchange"
	exchangekeeper "github.com/provenance-io/provenance/x/exchange/keeper"
)

func init() {
	drivers["exhold"] = driveExhold
	replayers["exhold"] = replayExhold
}

var exhUsers = []string{"A", "B", "C", "D"}
var exhDenoms = []string{"apple", "fig", "usd"}

// exhBond is the bond denom of the harness chain: a denom that is also traded, used as a price and
// as a fee denom, so that funds on hold and funds wanted for a delegation are the same coins.
const exhBond = "fig"

type exhEnv struct {
	t    *testing.T
	app  *app.App
	base sdk.Context
	ctx  sdk.Context
	addr map[string]sdk.AccAddress
	name map[string]string
	srv  exchange.MsgServer
	bank banktypes.MsgServer
	stk  stakingtypes.MsgServer
	val  string
	// why: finer reason of the last error, for the distribution counters only
	why string
}

var (
	exhOnce sync.Once
	exhE    *exhEnv
)

func exhCoin(d string, n int64) sdk.Coin { return sdk.Coin{Denom: d, Amount: sdkmath.NewInt(n)} }

func exhSetup(t *testing.T) *exhEnv {
	exhOnce.Do(func() {
		a, ctx := NewApp(t)
		e := &exhEnv{t: t, app: a, addr: map[string]sdk.AccAddress{}, name: map[string]string{}}
		for _, n := range append(append([]string{}, exhUsers...), "ADM") {
			ad := sdk.AccAddress([]byte("verif_exhold_acct___" + n))
			e.addr[n] = ad
			e.name[ad.String()] = n
			acc := a.AccountKeeper.NewAccountWithAddress(ctx, ad)
			_ = acc.SetSequence(7)
			a.AccountKeeper.SetAccount(ctx, acc)
		}
		authAddr, err := sdk.AccAddressFromBech32(a.ExchangeKeeper.GetAuthority())
		if err != nil {
			t.Fatal(err)
		}
		e.addr["GOV"] = authAddr
		e.name[authAddr.String()] = "GOV"
		allPerms := exchange.AllPermissions()
		mk := func(id uint32) exchange.Market {
			return exchange.Market{
				MarketId: id, MarketDetails: exchange.MarketDetails{Name: fmt.Sprintf("verif market %d", id)},
				AcceptingOrders: true, AllowUserSettlement: true, AcceptingCommitments: true,
				AccessGrants: []exchange.AccessGrant{{Address: e.addr["ADM"].String(), Permissions: allPerms}},
			}
		}
		m1 := mk(1)
		m1.FeeCreateAskFlat = []sdk.Coin{exhCoin("fig", 1)}
		m1.FeeCreateBidFlat = []sdk.Coin{exhCoin("fig", 1)}
		m1.FeeCreateCommitmentFlat = []sdk.Coin{exhCoin("fig", 1)}
		m1.FeeSellerSettlementFlat = []sdk.Coin{exhCoin("apple", 1), exhCoin("fig", 3), exhCoin("usd", 2)}
		m1.FeeBuyerSettlementFlat = []sdk.Coin{exhCoin("fig", 3), exhCoin("usd", 2)}
		m1.FeeSellerSettlementRatios = []exchange.FeeRatio{
			{Price: exhCoin("usd", 100), Fee: exhCoin("usd", 1)}, {Price: exhCoin("fig", 50), Fee: exhCoin("fig", 1)}}
		for _, m := range []exchange.Market{m1, mk(2)} {
			if _, err := a.ExchangeKeeper.CreateMarket(ctx, m); err != nil {
				t.Fatalf("create market: %v", err)
			}
			maddr := exchange.GetMarketAddress(m.MarketId)
			e.addr[fmt.Sprintf("mkt%d", m.MarketId)] = maddr
			e.name[maddr.String()] = fmt.Sprintf("mkt%d", m.MarketId)
		}
		// staking: the chain's bond denom is exhBond; delegations go to the genesis validator
		sp, err := a.StakingKeeper.GetParams(ctx)
		if err != nil {
			t.Fatalf("staking params: %v", err)
		}
		sp.BondDenom = exhBond
		if err := a.StakingKeeper.SetParams(ctx, sp); err != nil {
			t.Fatalf("staking params: %v", err)
		}
		vals, err := a.StakingKeeper.GetAllValidators(ctx)
		if err != nil || len(vals) == 0 {
			t.Fatalf("validators: %v", err)
		}
		e.val = vals[0].OperatorAddress
		e.stk = stakingkeeper.NewMsgServerImpl(a.StakingKeeper)
		e.base = ctx
		e.srv = exchangekeeper.NewMsgServer(a.ExchangeKeeper)
		e.bank = bankkeeper.NewMsgServerImpl(a.BankKeeper)
		exhE = e
	})
	exhE.t = t
	return exhE
}

func (e *exhEnv) newHistory() { e.ctx, _ = e.base.CacheContext() }

func (e *exhEnv) sym(bech string) string {
	if bech == "" {
		return "-"
	}
	// account identity, not spelling: bech32 is case-insensitive
	if n, ok := e.name[strings.ToLower(bech)]; ok {
		return n
	}
	return "?"
}

// bech maps a symbolic account name to the string a message carries. A trailing `^` spells the
// same account in upper case (valid bech32, a different string), a trailing `~` in mixed case
// (not valid bech32).
func (e *exhEnv) bech(name string) string {
	if name == "-" || name == "" {
		return ""
	}
	if strings.HasSuffix(name, "^") {
		return strings.ToUpper(e.bech(strings.TrimSuffix(name, "^")))
	}
	if strings.HasSuffix(name, "~") {
		b := strings.ToUpper(e.bech(strings.TrimSuffix(name, "~")))
		if b == "" {
			return b
		}
		return strings.ToLower(b[:1]) + b[1:]
	}
	if a, ok := e.addr[name]; ok {
		return a.String()
	}
	return sdk.AccAddress([]byte("verif_exhold_unknown_" + name)).String()
}

// ---- line protocol helpers -------------------------------------------------------------

func exhKV(ws []string, k string) string {
	for _, w := range ws {
		if strings.HasPrefix(w, k+"=") {
			return w[len(k)+1:]
		}
	}
	return "-"
}

// exhCoinsStr renders coins sorted by denom (`12apple,3usd`, `-` when empty).
func exhCoinsStr(cs sdk.Coins) string {
	var nz sdk.Coins
	for _, c := range cs {
		if !c.Amount.IsZero() {
			nz = append(nz, c)
		}
	}
	if len(nz) == 0 {
		return "-"
	}
	sort.SliceStable(nz, func(i, j int) bool { return nz[i].Denom < nz[j].Denom })
	parts := make([]string, len(nz))
	for i, c := range nz {
		parts[i] = c.Amount.String() + c.Denom
	}
	return strings.Join(parts, ",")
}

func exhOptCoinStr(c *sdk.Coin) string {
	if c == nil {
		return "-"
	}
	return c.Amount.String() + c.Denom
}

// exhParseCoin parses `12apple` literally (no normalisation: zero amounts stay).
func exhParseCoin(s string) (sdk.Coin, bool) {
	i := 0
	if i < len(s) && s[i] == '-' {
		i++
	}
	j := i
	for j < len(s) && s[j] >= '0' && s[j] <= '9' {
		j++
	}
	if j == i || j == len(s) {
		return sdk.Coin{}, false
	}
	amt, ok := sdkmath.NewIntFromString(s[:j])
	if !ok {
		return sdk.Coin{}, false
	}
	return sdk.Coin{Denom: s[j:], Amount: amt}, true
}

func exhParseCoins(s string) sdk.Coins {
	if s == "-" || s == "" {
		return nil
	}
	var res sdk.Coins
	for _, p := range strings.Split(s, ",") {
		if c, ok := exhParseCoin(p); ok {
			res = append(res, c)
		}
	}
	return res
}

func exhParseOptCoin(s string) *sdk.Coin {
	if s == "-" || s == "" {
		return nil
	}
	c, ok := exhParseCoin(s)
	if !ok {
		return nil
	}
	return &c
}

func exhParseIDs(s string) []uint64 {
	if s == "-" || s == "" {
		return nil
	}
	var res []uint64
	for _, p := range strings.Split(s, "|") {
		var id uint64
		fmt.Sscan(p, &id)
		res = append(res, id)
	}
	return res
}

func exhIDsStr(ids []uint64) string {
	if len(ids) == 0 {
		return "-"
	}
	parts := make([]string, len(ids))
	for i, id := range ids {
		parts[i] = fmt.Sprint(id)
	}
	return strings.Join(parts, "|")
}

func exhSplit(s, sep string) []string {
	if s == "-" || s == "" {
		return nil
	}
	return strings.Split(s, sep)
}

func (e *exhEnv) parseEntries(s string) []exchange.AccountAmount {
	var res []exchange.AccountAmount
	for _, ent := range exhSplit(s, ";") {
		p := strings.SplitN(ent, ":", 2)
		if len(p) != 2 {
			continue
		}
		res = append(res, exchange.AccountAmount{Account: e.bech(p[0]), Amount: exhParseCoins(p[1])})
	}
	return res
}

func u32(s string) uint32 {
	var m uint32
	fmt.Sscan(s, &m)
	return m
}

func boolArg(s string) bool { return s == "1" || s == "p" || s == "true" }

func b01(b bool) string {
	if b {
		return "1"
	}
	return "0"
}

// ---- reading the real state ------------------------------------------------------------

func (e *exhEnv) orders() []*exchange.Order {
	var res []*exchange.Order
	_ = e.app.ExchangeKeeper.IterateOrders(e.ctx, func(o *exchange.Order) bool {
		res = append(res, o)
		return false
	})
	sort.Slice(res, func(i, j int) bool { return res[i].OrderId < res[j].OrderId })
	return res
}

func (e *exhEnv) commitments() []exchange.Commitment {
	var res []exchange.Commitment
	e.app.ExchangeKeeper.IterateCommitments(e.ctx, func(c exchange.Commitment) bool {
		res = append(res, c)
		return false
	})
	sort.Slice(res, func(i, j int) bool {
		if res[i].MarketId != res[j].MarketId {
			return res[i].MarketId < res[j].MarketId
		}
		return e.sym(res[i].Account) < e.sym(res[j].Account)
	})
	return res
}

func (e *exhEnv) payments() []*exchange.Payment {
	var res []*exchange.Payment
	e.app.ExchangeKeeper.IteratePayments(e.ctx, func(p *exchange.Payment) bool {
		res = append(res, p)
		return false
	})
	sort.Slice(res, func(i, j int) bool {
		si, sj := e.sym(res[i].Source), e.sym(res[j].Source)
		if si != sj {
			return si < sj
		}
		return res[i].ExternalId < res[j].ExternalId
	})
	return res
}

func exhOrderFees(o *exchange.Order) sdk.Coins {
	if o.IsAskOrder() {
		if f := o.GetAskOrder().SellerSettlementFlatFee; f != nil {
			return sdk.Coins{*f}
		}
		return nil
	}
	return o.GetBidOrder().BuyerSettlementFees
}

func (e *exhEnv) orderStr(o *exchange.Order) string {
	side, p := "b", "n"
	if o.IsAskOrder() {
		side = "a"
	}
	if o.PartialFillAllowed() {
		p = "p"
	}
	as, pr := o.GetAssets(), o.GetPrice()
	return fmt.Sprintf("%d:%d:%s:%s:%s%s:%s%s:%s:%s", o.OrderId, o.GetMarketID(), e.sym(o.GetOwner()), side,
		as.Amount, as.Denom, pr.Amount, pr.Denom, exhCoinsStr(exhOrderFees(o)), p)
}

func (e *exhEnv) paymentStr(p *exchange.Payment) string {
	return fmt.Sprintf("%s:%s:%s:%s:%s", e.sym(p.Source), p.ExternalId, e.sym(p.Target), exhCoinsStr(p.SourceAmount), exhCoinsStr(p.TargetAmount))
}

func (e *exhEnv) dump() string {
	var os, cs, ps, hs, bs []string
	for _, o := range e.orders() {
		os = append(os, e.orderStr(o))
	}
	for _, c := range e.commitments() {
		cs = append(cs, fmt.Sprintf("%d:%s:%s", c.MarketId, e.sym(c.Account), exhCoinsStr(c.Amount)))
	}
	for _, p := range e.payments() {
		ps = append(ps, e.paymentStr(p))
	}
	for _, u := range exhUsers {
		h, err := e.app.HoldKeeper.GetHoldCoins(e.ctx, e.addr[u])
		if err != nil {
			hs = append(hs, u+":ERR")
		} else {
			hs = append(hs, u+":"+exhCoinsStr(h))
		}
		bs = append(bs, u+":"+exhCoinsStr(e.app.BankKeeper.GetAllBalances(e.ctx, e.addr[u])))
	}
	other := 0
	if all, err := e.app.HoldKeeper.GetAllAccountHolds(e.ctx); err == nil {
		for _, ah := range all {
			n := e.sym(ah.Address)
			if !(n == "A" || n == "B" || n == "C" || n == "D") && !ah.Amount.IsZero() {
				other++
			}
		}
	}
	var last uint64
	if gs := e.app.ExchangeKeeper.ExportGenesis(e.ctx); gs != nil {
		last = gs.LastOrderId
	}
	return fmt.Sprintf("orders=%s commits=%s pays=%s hold=%s bal=%s last=%d other=%d", JoinOr(os, ";"), JoinOr(cs, ";"),
		JoinOr(ps, ";"), strings.Join(hs, ";"), strings.Join(bs, ";"), last, other)
}

func (e *exhEnv) marketLine(id uint32) string {
	m := e.app.ExchangeKeeper.GetMarket(e.ctx, id)
	if m == nil {
		return fmt.Sprintf("market id=%d missing=1", id)
	}
	var rs []string
	for _, r := range m.FeeSellerSettlementRatios {
		rs = append(rs, fmt.Sprintf("%s:%s:%s", r.Price.Denom, r.Price.Amount, r.Fee.Amount))
	}
	return fmt.Sprintf("market id=%d ao=%s us=%s ac=%s cask=%s cbid=%s ccom=%s sflat=%s bflat=%s sratio=%s", id,
		b01(m.AcceptingOrders), b01(m.AllowUserSettlement), b01(m.AcceptingCommitments),
		exhCoinsStr(m.FeeCreateAskFlat), exhCoinsStr(m.FeeCreateBidFlat), exhCoinsStr(m.FeeCreateCommitmentFlat),
		exhCoinsStr(m.FeeSellerSettlementFlat), exhCoinsStr(m.FeeBuyerSettlementFlat), JoinOr(rs, "|"))
}

// ---- error classes ---------------------------------------------------------------------

func exhHas(m string, subs ...string) bool {
	for _, s := range subs {
		if strings.Contains(m, s) {
			return true
		}
	}
	return false
}

// exhClass maps an error of the exchange msg server to a class; `kind` is the op kind.
func exhClass(kind string, err error) string {
	if err == nil {
		return "ok"
	}
	m := err.Error()
	switch {
	case exhHas(m, "does not have permission to"):
		return "err:perm"
	case exhHas(m, "cannot reject payment with target", "cannot reject a payment that does not have a target", "already has target"):
		return "err:target"
	case exhHas(m, "a payment already exists"):
		return "err:exists"
	case exhHas(m, "no payment found", "does not have any payments for target"):
		return "err:notfound"
	case exhHas(m, "does not equal existing"):
		return "err:mismatch"
	case exhHas(m, "does not have any funds committed", "is more than currently committed"):
		return "err:commit"
	case exhHas(m, "error calculating seller settlement ratio fee"):
		return "err:price"
	case exhHas(m, "does not equal sum of"):
		return "err:mismatch"
	case exhHas(m, "settlement resulted in unexpected partial", "settlement unexpectedly resulted in all orders fully filled"):
		return "err:partial"
	case exhHas(m, "is less than hold amount", "insufficient funds"):
		return "err:funds"
	case exhHas(m, "unable to release hold", "error releasing hold", "cannot release"):
		return "err:hold"
	case kind == "cancel" && exhHas(m, "does not exist"):
		return "err:notfound"
	case exhHas(m, "does not exist", "is not accepting orders", "does not allow user settlement", "is not accepting commitments"):
		return "err:market"
	case exhHas(m, "fee provided, must be one of", "must be one of", "insufficient buyer settlement fee",
		"is not more than seller settlement", "is not more than total required seller settlement",
		"no seller settlement fee ratio found", "is less than required amount"):
		if kind == "settle" {
			return "err:price"
		}
		return "err:fee"
	case exhHas(m, " not found", "expected ask", "expected bid", "does not equal requested market id", "has the same seller", "has the same buyer"):
		return "err:orders"
	case exhHas(m, "cannot settle with multiple", "cannot settle different"):
		return "err:denoms"
	case exhHas(m, "zero or negative assets left", "could have assets filled in full", "has no assets filled",
		"is not filled in full and is not the last", "cannot both be partially filled"):
		return "err:alloc"
	case exhHas(m, "cannot split", "cannot be partially filled by"):
		return "err:split"
	case kind == "settle" || kind == "fillbids" || kind == "fillasks":
		return "err:price"
	default:
		return "err:invalid"
	}
}

type exhVB interface{ ValidateBasic() error }

// run mirrors runTx for one message: ValidateBasic, then the handler on a cached context that
// is written only on success.
func (e *exhEnv) run(kind string, msg sdk.Msg, f func(ctx sdk.Context) error) string {
	if vb, ok := msg.(exhVB); ok {
		if err := vb.ValidateBasic(); err != nil {
			return "err:invalid"
		}
	}
	err, pan := Try(e.ctx, f)
	if pan != "" {
		return "panic:" + pan
	}
	e.why = ""
	if err != nil {
		switch m := err.Error(); {
		case exhHas(m, "does not allow partial fulfillment"):
			e.why = "split:not-allowed"
		case exhHas(m, "price") && exhHas(m, "is not evenly divisible"):
			e.why = "split:price-indivisible"
		case exhHas(m, "fee") && exhHas(m, "is not evenly divisible"):
			e.why = "split:fee-indivisible"
		case exhHas(m, "is not the last"):
			e.why = "alloc:partial-not-last"
		case exhHas(m, "has no assets filled"):
			e.why = "alloc:nothing-filled"
		}
	}
	return exhClass(kind, err)
}

func (e *exhEnv) balances() map[string]sdk.Coins {
	res := map[string]sdk.Coins{}
	for _, u := range exhUsers {
		res[u] = e.app.BankKeeper.GetAllBalances(e.ctx, e.addr[u])
	}
	return res
}

// movesStr renders the net balance change of every user account since `before`.
func (e *exhEnv) movesStr(before map[string]sdk.Coins) string {
	var parts []string
	for _, u := range exhUsers {
		after := e.app.BankKeeper.GetAllBalances(e.ctx, e.addr[u])
		var ds []string
		for _, d := range exhDenoms {
			diff := after.AmountOf(d).Sub(before[u].AmountOf(d))
			if !diff.IsZero() {
				ds = append(ds, diff.String()+d)
			}
		}
		if len(ds) > 0 {
			parts = append(parts, u+":"+strings.Join(ds, ","))
		}
	}
	return JoinOr(parts, ";")
}

func exhStripOracle(ws []string) []string {
	var res []string
	for _, w := range ws {
		if strings.HasPrefix(w, "res=") || strings.HasPrefix(w, "moves=") {
			continue
		}
		res = append(res, w)
	}
	return res
}

func (e *exhEnv) mint(to sdk.AccAddress, coins sdk.Coins) error {
	if coins.IsZero() {
		return nil
	}
	if err := e.app.BankKeeper.MintCoins(e.ctx, "mint", coins); err != nil {
		return err
	}
	return e.app.BankKeeper.SendCoinsFromModuleToAccount(e.ctx, "mint", to, coins)
}

func exhDiffCoins(cur, want []sdk.Coin) (remove, add []sdk.Coin) {
	in := func(xs []sdk.Coin, c sdk.Coin) bool {
		for _, x := range xs {
			if x.Denom == c.Denom && x.Amount.Equal(c.Amount) {
				return true
			}
		}
		return false
	}
	for _, c := range cur {
		if !in(want, c) {
			remove = append(remove, c)
		}
	}
	for _, c := range want {
		if !in(cur, c) {
			add = append(add, c)
		}
	}
	return
}

// applyMarket brings the real market to the configuration of a `market` line through the real
// msg server (GovManageFees, MarketUpdate*).
func (e *exhEnv) applyMarket(ws []string) string {
	id := u32(exhKV(ws, "id"))
	m := e.app.ExchangeKeeper.GetMarket(e.ctx, id)
	if m == nil {
		return "err:market"
	}
	gov := e.addr["GOV"].String()
	msg := &exchange.MsgGovManageFeesRequest{Authority: gov, MarketId: id}
	msg.RemoveFeeCreateAskFlat, msg.AddFeeCreateAskFlat = exhDiffCoins(m.FeeCreateAskFlat, exhParseCoins(exhKV(ws, "cask")))
	msg.RemoveFeeCreateBidFlat, msg.AddFeeCreateBidFlat = exhDiffCoins(m.FeeCreateBidFlat, exhParseCoins(exhKV(ws, "cbid")))
	msg.RemoveFeeCreateCommitmentFlat, msg.AddFeeCreateCommitmentFlat = exhDiffCoins(m.FeeCreateCommitmentFlat, exhParseCoins(exhKV(ws, "ccom")))
	msg.RemoveFeeSellerSettlementFlat, msg.AddFeeSellerSettlementFlat = exhDiffCoins(m.FeeSellerSettlementFlat, exhParseCoins(exhKV(ws, "sflat")))
	msg.RemoveFeeBuyerSettlementFlat, msg.AddFeeBuyerSettlementFlat = exhDiffCoins(m.FeeBuyerSettlementFlat, exhParseCoins(exhKV(ws, "bflat")))
	var want []exchange.FeeRatio
	for _, r := range exhSplit(exhKV(ws, "sratio"), "|") {
		p := strings.Split(r, ":")
		if len(p) != 3 {
			continue
		}
		pa, _ := sdkmath.NewIntFromString(p[1])
		fa, _ := sdkmath.NewIntFromString(p[2])
		want = append(want, exchange.FeeRatio{Price: sdk.Coin{Denom: p[0], Amount: pa}, Fee: sdk.Coin{Denom: p[0], Amount: fa}})
	}
	for _, c := range m.FeeSellerSettlementRatios {
		found := false
		for _, w := range want {
			found = found || w.Equals(c)
		}
		if !found {
			msg.RemoveFeeSellerSettlementRatios = append(msg.RemoveFeeSellerSettlementRatios, c)
		}
	}
	for _, w := range want {
		found := false
		for _, c := range m.FeeSellerSettlementRatios {
			found = found || w.Equals(c)
		}
		if !found {
			msg.AddFeeSellerSettlementRatios = append(msg.AddFeeSellerSettlementRatios, w)
		}
	}
	if msg.HasUpdates() {
		if r := e.run("market", msg, func(ctx sdk.Context) error { _, err := e.srv.GovManageFees(ctx, msg); return err }); r != "ok" {
			return r
		}
	}
	if ao := boolArg(exhKV(ws, "ao")); ao != m.AcceptingOrders {
		mm := &exchange.MsgMarketUpdateAcceptingOrdersRequest{Admin: gov, MarketId: id, AcceptingOrders: ao}
		if r := e.run("market", mm, func(ctx sdk.Context) error { _, err := e.srv.MarketUpdateAcceptingOrders(ctx, mm); return err }); r != "ok" {
			return r
		}
	}
	if us := boolArg(exhKV(ws, "us")); us != m.AllowUserSettlement {
		mm := &exchange.MsgMarketUpdateUserSettleRequest{Admin: gov, MarketId: id, AllowUserSettlement: us}
		if r := e.run("market", mm, func(ctx sdk.Context) error { _, err := e.srv.MarketUpdateUserSettle(ctx, mm); return err }); r != "ok" {
			return r
		}
	}
	if ac := boolArg(exhKV(ws, "ac")); ac != m.AcceptingCommitments {
		mm := &exchange.MsgMarketUpdateAcceptingCommitmentsRequest{Admin: gov, MarketId: id, AcceptingCommitments: ac}
		if r := e.run("market", mm, func(ctx sdk.Context) error { _, err := e.srv.MarketUpdateAcceptingCommitments(ctx, mm); return err }); r != "ok" {
			return r
		}
	}
	return "ok"
}

func (e *exhEnv) parseOrderRec(s string) (*exchange.Order, bool) {
	p := strings.Split(s, ":")
	if len(p) != 8 {
		return nil, false
	}
	var id uint64
	fmt.Sscan(p[0], &id)
	assets, ok1 := exhParseCoin(p[4])
	price, ok2 := exhParseCoin(p[5])
	if !ok1 || !ok2 {
		return nil, false
	}
	fees := exhParseCoins(p[6])
	o := exchange.NewOrder(id)
	if p[3] == "a" {
		ao := &exchange.AskOrder{MarketId: u32(p[1]), Seller: e.bech(p[2]), Assets: assets, Price: price, AllowPartial: p[7] == "p"}
		if len(fees) > 0 {
			ao.SellerSettlementFlatFee = &fees[0]
		}
		return o.WithAsk(ao), true
	}
	return o.WithBid(&exchange.BidOrder{MarketId: u32(p[1]), Buyer: e.bech(p[2]), Assets: assets, Price: price,
		BuyerSettlementFees: fees, AllowPartial: p[7] == "p"}), true
}

func (e *exhEnv) parsePaymentKV(ws []string) exchange.Payment {
	return exchange.Payment{Source: e.bech(exhKV(ws, "src")), ExternalId: exhKV(ws, "ext"), Target: e.bech(exhKV(ws, "tgt")),
		SourceAmount: exhParseCoins(exhKV(ws, "samt")), TargetAmount: exhParseCoins(exhKV(ws, "tamt"))}
}

// execGenesis places the genesis holds through the hold keeper and runs the real
// ExchangeKeeper.InitGenesis with the records of the line.
func (e *exhEnv) execGenesis(ws []string) string {
	k := e.app.ExchangeKeeper
	gs := &exchange.GenesisState{Params: k.GetParams(e.ctx)}
	cur := k.ExportGenesis(e.ctx)
	gs.LastMarketId = cur.LastMarketId
	fmt.Sscan(exhKV(ws, "last"), &gs.LastOrderId)
	seen := map[uint64]bool{}
	for _, s := range exhSplit(exhKV(ws, "orders"), ";") {
		o, ok := e.parseOrderRec(s)
		if !ok {
			return "bad-op"
		}
		if seen[o.OrderId] || o.Validate() != nil {
			return "err:invalid" // GenesisState.Validate
		}
		seen[o.OrderId] = true
		gs.Orders = append(gs.Orders, *o)
	}
	for _, s := range exhSplit(exhKV(ws, "commits"), ";") {
		p := strings.Split(s, ":")
		if len(p) != 3 {
			return "bad-op"
		}
		c := exchange.Commitment{MarketId: u32(p[0]), Account: e.bech(p[1]), Amount: exhParseCoins(p[2])}
		if c.Validate() != nil {
			return "err:invalid"
		}
		gs.Commitments = append(gs.Commitments, c)
	}
	for _, s := range exhSplit(exhKV(ws, "pays"), ";") {
		p := strings.Split(s, ":")
		if len(p) != 5 {
			return "bad-op"
		}
		pm := exchange.Payment{Source: e.bech(p[0]), ExternalId: p[1], Target: e.bech(p[2]),
			SourceAmount: exhParseCoins(p[3]), TargetAmount: exhParseCoins(p[4])}
		if pm.Validate() != nil {
			return "err:invalid"
		}
		gs.Payments = append(gs.Payments, pm)
	}
	holds := e.parseEntries(exhKV(ws, "holds"))
	err, pan := Try(e.ctx, func(ctx sdk.Context) error {
		for _, h := range holds {
			if err := e.app.HoldKeeper.AddHold(ctx, sdk.MustAccAddressFromBech32(h.Account), h.Amount, "genesis"); err != nil {
				return fmt.Errorf("setup: %w", err)
			}
		}
		k.InitGenesis(ctx, gs)
		return nil
	})
	if err != nil {
		return "err:setup"
	}
	if pan != "" {
		return "panic:genesis"
	}
	return "ok"
}

// exec runs one op line on the real code; returns the op line to record (settle/fill lines get
// the observed result class and balance moves) and the implementation's output.
func (e *exhEnv) exec(op string) (string, string) {
	ws := strings.Fields(op)
	if len(ws) == 0 {
		return op, "bad-op"
	}
	kind := ws[0]
	switch kind {
	case "dump":
		return op, e.dump()
	case "market":
		r := e.applyMarket(ws)
		if r != "ok" {
			return op, r
		}
		// record what the market now is
		return e.marketLine(u32(exhKV(ws, "id"))), "ok"
	case "fund":
		if len(ws) != 3 {
			return op, "bad-op"
		}
		if err := e.mint(e.addr[ws[1]], sdk.NewCoins(exhParseCoins(ws[2])...)); err != nil {
			return op, "err:setup"
		}
		return op, "ok"
	case "genesis":
		return op, e.execGenesis(ws)
	case "ask":
		ao := exchange.AskOrder{MarketId: u32(exhKV(ws, "m")), Seller: e.bech(exhKV(ws, "owner")), AllowPartial: boolArg(exhKV(ws, "partial")),
			SellerSettlementFlatFee: exhParseOptCoin(exhKV(ws, "fee"))}
		ao.Assets, _ = exhParseCoin(exhKV(ws, "assets"))
		ao.Price, _ = exhParseCoin(exhKV(ws, "price"))
		msg := &exchange.MsgCreateAskRequest{AskOrder: ao, OrderCreationFee: exhParseOptCoin(exhKV(ws, "cfee"))}
		var id uint64
		r := e.run(kind, msg, func(ctx sdk.Context) error {
			resp, err := e.srv.CreateAsk(ctx, msg)
			if err == nil {
				id = resp.OrderId
			}
			return err
		})
		if r == "ok" {
			r = fmt.Sprintf("ok %d", id)
		}
		return op, r
	case "bid":
		bo := exchange.BidOrder{MarketId: u32(exhKV(ws, "m")), Buyer: e.bech(exhKV(ws, "owner")), AllowPartial: boolArg(exhKV(ws, "partial")),
			BuyerSettlementFees: exhParseCoins(exhKV(ws, "fees"))}
		bo.Assets, _ = exhParseCoin(exhKV(ws, "assets"))
		bo.Price, _ = exhParseCoin(exhKV(ws, "price"))
		msg := &exchange.MsgCreateBidRequest{BidOrder: bo, OrderCreationFee: exhParseOptCoin(exhKV(ws, "cfee"))}
		var id uint64
		r := e.run(kind, msg, func(ctx sdk.Context) error {
			resp, err := e.srv.CreateBid(ctx, msg)
			if err == nil {
				id = resp.OrderId
			}
			return err
		})
		if r == "ok" {
			r = fmt.Sprintf("ok %d", id)
		}
		return op, r
	case "cancel":
		var id uint64
		fmt.Sscan(exhKV(ws, "id"), &id)
		msg := &exchange.MsgCancelOrderRequest{Signer: e.bech(exhKV(ws, "signer")), OrderId: id}
		return op, e.run(kind, msg, func(ctx sdk.Context) error { _, err := e.srv.CancelOrder(ctx, msg); return err })
	case "settle", "fillbids", "fillasks":
		before := e.balances()
		var r string
		switch kind {
		case "settle":
			msg := &exchange.MsgMarketSettleRequest{Admin: e.bech(exhKV(ws, "admin")), MarketId: u32(exhKV(ws, "m")),
				AskOrderIds: exhParseIDs(exhKV(ws, "asks")), BidOrderIds: exhParseIDs(exhKV(ws, "bids")), ExpectPartial: boolArg(exhKV(ws, "partial"))}
			r = e.run(kind, msg, func(ctx sdk.Context) error { _, err := e.srv.MarketSettle(ctx, msg); return err })
		case "fillbids":
			msg := &exchange.MsgFillBidsRequest{Seller: e.bech(exhKV(ws, "seller")), MarketId: u32(exhKV(ws, "m")),
				TotalAssets: exhParseCoins(exhKV(ws, "total")), BidOrderIds: exhParseIDs(exhKV(ws, "bids")),
				SellerSettlementFlatFee: exhParseOptCoin(exhKV(ws, "flat")), AskOrderCreationFee: exhParseOptCoin(exhKV(ws, "cfee"))}
			r = e.run(kind, msg, func(ctx sdk.Context) error { _, err := e.srv.FillBids(ctx, msg); return err })
		case "fillasks":
			msg := &exchange.MsgFillAsksRequest{Buyer: e.bech(exhKV(ws, "buyer")), MarketId: u32(exhKV(ws, "m")),
				AskOrderIds: exhParseIDs(exhKV(ws, "asks")), BuyerSettlementFees: exhParseCoins(exhKV(ws, "fees")),
				BidOrderCreationFee: exhParseOptCoin(exhKV(ws, "cfee"))}
			msg.TotalPrice, _ = exhParseCoin(exhKV(ws, "total"))
			r = e.run(kind, msg, func(ctx sdk.Context) error { _, err := e.srv.FillAsks(ctx, msg); return err })
		}
		line := strings.Join(exhStripOracle(ws), " ") + " res=" + r + " moves=" + e.movesStr(before)
		return line, r
	case "commit":
		msg := &exchange.MsgCommitFundsRequest{Account: e.bech(exhKV(ws, "acct")), MarketId: u32(exhKV(ws, "m")),
			Amount: exhParseCoins(exhKV(ws, "amount")), CreationFee: exhParseOptCoin(exhKV(ws, "cfee"))}
		return op, e.run(kind, msg, func(ctx sdk.Context) error { _, err := e.srv.CommitFunds(ctx, msg); return err })
	case "release":
		msg := &exchange.MsgMarketReleaseCommitmentsRequest{Admin: e.bech(exhKV(ws, "admin")), MarketId: u32(exhKV(ws, "m")),
			ToRelease: e.parseEntries(exhKV(ws, "entries"))}
		return op, e.run(kind, msg, func(ctx sdk.Context) error { _, err := e.srv.MarketReleaseCommitments(ctx, msg); return err })
	case "csettle":
		msg := &exchange.MsgMarketCommitmentSettleRequest{Admin: e.bech(exhKV(ws, "admin")), MarketId: u32(exhKV(ws, "m")),
			Inputs: e.parseEntries(exhKV(ws, "in")), Outputs: e.parseEntries(exhKV(ws, "out")), Fees: e.parseEntries(exhKV(ws, "fees"))}
		return op, e.run(kind, msg, func(ctx sdk.Context) error { _, err := e.srv.MarketCommitmentSettle(ctx, msg); return err })
	case "pay":
		msg := &exchange.MsgCreatePaymentRequest{Payment: e.parsePaymentKV(ws)}
		return op, e.run(kind, msg, func(ctx sdk.Context) error { _, err := e.srv.CreatePayment(ctx, msg); return err })
	case "accept":
		msg := &exchange.MsgAcceptPaymentRequest{Payment: e.parsePaymentKV(ws)}
		return op, e.run(kind, msg, func(ctx sdk.Context) error { _, err := e.srv.AcceptPayment(ctx, msg); return err })
	case "reject":
		msg := &exchange.MsgRejectPaymentRequest{Target: e.bech(exhKV(ws, "tgt")), Source: e.bech(exhKV(ws, "src")), ExternalId: exhKV(ws, "ext")}
		return op, e.run(kind, msg, func(ctx sdk.Context) error { _, err := e.srv.RejectPayment(ctx, msg); return err })
	case "rejectall":
		msg := &exchange.MsgRejectPaymentsRequest{Target: e.bech(exhKV(ws, "tgt"))}
		for _, s := range exhSplit(exhKV(ws, "srcs"), "|") {
			msg.Sources = append(msg.Sources, e.bech(s))
		}
		return op, e.run(kind, msg, func(ctx sdk.Context) error { _, err := e.srv.RejectPayments(ctx, msg); return err })
	case "cancelpay":
		msg := &exchange.MsgCancelPaymentsRequest{Source: e.bech(exhKV(ws, "src")), ExternalIds: exhSplit(exhKV(ws, "exts"), "|")}
		return op, e.run(kind, msg, func(ctx sdk.Context) error { _, err := e.srv.CancelPayments(ctx, msg); return err })
	case "retarget":
		msg := &exchange.MsgChangePaymentTargetRequest{Source: e.bech(exhKV(ws, "src")), ExternalId: exhKV(ws, "ext"), NewTarget: e.bech(exhKV(ws, "tgt"))}
		return op, e.run(kind, msg, func(ctx sdk.Context) error { _, err := e.srv.ChangePaymentTarget(ctx, msg); return err })
	case "close":
		msg := &exchange.MsgGovCloseMarketRequest{Authority: e.addr["GOV"].String(), MarketId: u32(exhKV(ws, "m"))}
		return op, e.run(kind, msg, func(ctx sdk.Context) error { _, err := e.srv.GovCloseMarket(ctx, msg); return err })
	case "send":
		msg := &banktypes.MsgSend{FromAddress: e.bech(exhKV(ws, "from")), ToAddress: e.bech(exhKV(ws, "to")), Amount: exhParseCoins(exhKV(ws, "coins"))}
		return op, e.run(kind, msg, func(ctx sdk.Context) error { _, err := e.bank.Send(ctx, msg); return err })
	case "delegate":
		// staking MsgDelegate -> Keeper.Delegate -> bank DelegateCoinsFromAccountToModule (the one bank
		// outflow of a user account that does not go through SendCoins)
		amt, ok := exhParseCoin(exhKV(ws, "amt"))
		if !ok {
			return op, "bad-op"
		}
		msg := &stakingtypes.MsgDelegate{DelegatorAddress: e.bech(exhKV(ws, "from")), ValidatorAddress: e.val, Amount: amt}
		return op, e.run(kind, msg, func(ctx sdk.Context) error { _, err := e.stk.Delegate(ctx, msg); return err })
	}
	return op, "bad-op"
}

func replayExhold(t *testing.T, ops []string, out *Out) {
	e := exhSetup(t)
	e.newHistory()
	for _, op := range ops {
		if strings.HasPrefix(op, "#") {
			if strings.HasPrefix(op, "# history") {
				e.newHistory()
			}
			out.Comment(strings.TrimPrefix(op, "# "))
			continue
		}
		line, r := e.exec(op)
		out.Emit(line, r)
	}
}

// ---- generator -------------------------------------------------------------------------

type exhGen struct {
	e   *exhEnv
	rng *RNG
	out *Out
	// most orders of a history go to one market and one (asset, price) pair so that they can meet
	mainM        uint32
	mainA, mainP string
	// payment-heavy histories: many payments, most of them to one target (several sources per
	// target, several payments per source), so that the multi-source messages have material
	payHeavy bool
	mainT    string
}

func (g *exhGen) emit(op string) string {
	line, r := g.e.exec(op)
	k := strings.Fields(op)[0]
	if k != "dump" {
		g.out.Count("op:" + k)
		g.out.Count("res:" + k + ":" + strings.Fields(r)[0])
		if g.e.why != "" && strings.HasPrefix(r, "err") {
			g.out.Count("why:" + g.e.why)
		}
		if k == "settle" && r == "ok" {
			g.out.Count("settle-ok:partial=" + exhKV(strings.Fields(op), "partial"))
		}
	}
	g.out.Emit(line, r)
	return r
}

func (g *exhGen) user() string { return Pick(g.rng, exhUsers) }

func (g *exhGen) otherUser(u string) string {
	for {
		v := g.user()
		if v != u {
			return v
		}
	}
}

func (g *exhGen) market() uint32 {
	switch x := g.rng.Intn(100); {
	case x < 72:
		return g.mainM
	case x < 97:
		return 3 - g.mainM
	default:
		return 3
	}
}

// pair picks an (asset, price) denom pair; mostly apple for usd.
func (g *exhGen) pair() (string, string) {
	if g.rng.Chance(70) {
		return g.mainA, g.mainP
	}
	switch x := g.rng.Intn(100); {
	case x < 62:
		return "apple", "usd"
	case x < 76:
		return "fig", "usd"
	case x < 88:
		return "apple", "fig"
	case x < 96:
		return "usd", "apple"
	default:
		d := Pick(g.rng, exhDenoms)
		return d, d
	}
}

func (g *exhGen) smallCoins(max int) sdk.Coins {
	var cs sdk.Coins
	for _, d := range exhDenoms {
		if g.rng.Chance(45) {
			cs = cs.Add(exhCoin(d, int64(1+g.rng.Intn(max))))
		}
	}
	if len(cs) == 0 {
		cs = sdk.NewCoins(exhCoin(Pick(g.rng, exhDenoms), int64(1+g.rng.Intn(max))))
	}
	return cs
}

// feeChoice picks a settlement flat fee given the market's options: usually one that satisfies
// an option, sometimes none / too small / a denom without option.
func (g *exhGen) feeChoice(opts []sdk.Coin) *sdk.Coin { return g.feeChoiceM(opts, 0) }

// feeChoiceM: mult > 0 makes the amount a multiple of mult (an order of 5*mult assets then splits
// evenly at every multiple of 5).
func (g *exhGen) feeChoiceM(opts []sdk.Coin, mult int64) *sdk.Coin {
	if len(opts) == 0 {
		if g.rng.Chance(65) {
			return nil
		}
		c := exhCoin(Pick(g.rng, exhDenoms), int64(1+g.rng.Intn(6)))
		if mult > 0 && g.rng.Chance(70) {
			c.Amount = sdkmath.NewInt(mult * int64(1+g.rng.Intn(2)))
		}
		return &c
	}
	switch x := g.rng.Intn(100); {
	case x < 4:
		return nil
	case x < 8:
		o := Pick(g.rng, opts)
		c := sdk.Coin{Denom: o.Denom, Amount: o.Amount.SubRaw(1)}
		return &c
	default:
		o := Pick(g.rng, opts)
		c := sdk.Coin{Denom: o.Denom, Amount: o.Amount.MulRaw(int64(1 + g.rng.Intn(3)))}
		if mult > 0 && g.rng.Chance(70) {
			c.Amount = o.Amount.MulRaw(mult)
		}
		return &c
	}
}

func (g *exhGen) creationFee(opts []sdk.Coin) string {
	if len(opts) == 0 {
		if g.rng.Chance(92) {
			return "-"
		}
		return "1fig"
	}
	switch x := g.rng.Intn(100); {
	case x < 4:
		return "-"
	case x < 7:
		return "1usd"
	default:
		o := Pick(g.rng, opts)
		return o.Amount.String() + o.Denom
	}
}

func (g *exhGen) mkt(id uint32) exchange.Market {
	if m := g.e.app.ExchangeKeeper.GetMarket(g.e.ctx, id); m != nil {
		return *m
	}
	return exchange.Market{}
}

func (g *exhGen) amount(owner, denom string) int64 {
	// mostly multiples of 5 (clean splits); sometimes at/over the spendable boundary
	if g.rng.Chance(8) {
		sp := g.e.app.BankKeeper.SpendableCoins(g.e.ctx, g.e.addr[owner]).AmountOf(denom)
		if sp.IsInt64() && sp.Int64() > 0 {
			return sp.Int64() + int64(g.rng.Intn(3)-1)
		}
	}
	if g.rng.Chance(2) {
		return 0
	}
	return int64(5 * (1 + g.rng.Intn(8)))
}

func (g *exhGen) genAsk() string {
	ad, pd := g.pair()
	return g.genAskFor(g.market(), ad, pd)
}

func (g *exhGen) genAskFor(m uint32, ad, pd string) string {
	owner := g.user()
	assets := g.amount(owner, ad)
	unit := int64(1 + g.rng.Intn(2))
	price := assets * unit
	if g.rng.Chance(6) {
		price = int64(1 + g.rng.Intn(7))
	}
	mk := g.mkt(m)
	fee := g.feeChoiceM(mk.FeeSellerSettlementFlat, assets/5)
	return fmt.Sprintf("ask owner=%s m=%d assets=%d%s price=%d%s fee=%s partial=%s cfee=%s", owner, m, assets, ad, price, pd,
		exhOptCoinStr(fee), b01(g.rng.Chance(85)), g.creationFee(mk.FeeCreateAskFlat))
}

func (g *exhGen) genBid() string {
	ad, pd := g.pair()
	return g.genBidFor(g.market(), ad, pd)
}

func (g *exhGen) genBidFor(m uint32, ad, pd string) string {
	owner := g.user()
	assets := int64(5 * (1 + g.rng.Intn(8)))
	unit := int64(2 + g.rng.Intn(2))
	price := assets * unit
	if g.rng.Chance(8) {
		price = g.amount(owner, pd)
	}
	mk := g.mkt(m)
	var fees sdk.Coins
	if f := g.feeChoiceM(mk.FeeBuyerSettlementFlat, assets/5); f != nil && f.Amount.IsPositive() {
		fees = fees.Add(*f)
		if g.rng.Chance(25) {
			fees = fees.Add(exhCoin(Pick(g.rng, exhDenoms), assets/5*int64(1+g.rng.Intn(2))))
		}
	}
	return fmt.Sprintf("bid owner=%s m=%d assets=%d%s price=%d%s fees=%s partial=%s cfee=%s", owner, m, assets, ad, price, pd,
		exhCoinsStr(fees), b01(g.rng.Chance(85)), g.creationFee(mk.FeeCreateBidFlat))
}

func (g *exhGen) genCancel() string {
	os := g.e.orders()
	if len(os) == 0 && g.rng.Chance(85) {
		return g.genAsk()
	}
	if len(os) == 0 || g.rng.Chance(6) {
		return fmt.Sprintf("cancel id=%d signer=%s", 900+g.rng.Intn(5), g.user())
	}
	o := Pick(g.rng, os)
	signer := g.e.sym(o.GetOwner())
	switch x := g.rng.Intn(100); {
	case x < 15:
		signer = "ADM"
	case x < 25:
		signer = g.user()
	}
	return fmt.Sprintf("cancel id=%d signer=%s", o.OrderId, signer)
}

type exhGroup struct{ asks, bids []*exchange.Order }

func (g *exhGen) groups(m uint32) (map[string]*exhGroup, []string) {
	gs := map[string]*exhGroup{}
	var keys []string
	for _, o := range g.e.orders() {
		if o.GetMarketID() != m {
			continue
		}
		k := o.GetAssets().Denom + "/" + o.GetPrice().Denom
		if gs[k] == nil {
			gs[k] = &exhGroup{}
			keys = append(keys, k)
		}
		if o.IsAskOrder() {
			gs[k].asks = append(gs[k].asks, o)
		} else {
			gs[k].bids = append(gs[k].bids, o)
		}
	}
	sort.Strings(keys)
	return gs, keys
}

func exhPickSome[T any](r *RNG, xs []T, max int) []T {
	ys := append([]T{}, xs...)
	for i := len(ys) - 1; i > 0; i-- {
		j := r.Intn(i + 1)
		ys[i], ys[j] = ys[j], ys[i]
	}
	n := 1 + r.Intn(max)
	if n > len(ys) {
		n = len(ys)
	}
	return ys[:n]
}

func exhSumAssets(os []*exchange.Order) sdkmath.Int {
	t := sdkmath.ZeroInt()
	for _, o := range os {
		t = t.Add(o.GetAssets().Amount)
	}
	return t
}

// exhTrim drops, on the side offering more assets, the orders after the one that the other side
// runs out in (that one ends partially filled and must be last), and moves an order that allows
// partial fills into that position when there is one.
func exhTrim(asks, bids []*exchange.Order) ([]*exchange.Order, []*exchange.Order) {
	trim := func(big []*exchange.Order, limit sdkmath.Int) []*exchange.Order {
		cum := sdkmath.ZeroInt()
		for i, o := range big {
			cum = cum.Add(o.GetAssets().Amount)
			if cum.GTE(limit) {
				big = big[:i+1]
				if cum.GT(limit) && !o.PartialFillAllowed() {
					for j := 0; j < i; j++ {
						if big[j].PartialFillAllowed() && big[j].GetAssets().Amount.GTE(o.GetAssets().Amount) {
							big[i], big[j] = big[j], big[i]
							break
						}
					}
				}
				return big
			}
		}
		return big
	}
	ta, tb := exhSumAssets(asks), exhSumAssets(bids)
	if ta.GT(tb) {
		return trim(asks, tb), bids
	}
	if tb.GT(ta) {
		return asks, trim(bids, ta)
	}
	return asks, bids
}

func exhIDs(os []*exchange.Order) []uint64 {
	var ids []uint64
	for _, o := range os {
		ids = append(ids, o.OrderId)
	}
	return ids
}

func (g *exhGen) genSettle() string {
	m := g.mainM
	if g.rng.Chance(20) {
		m = 3 - m
	}
	gs, keys := g.groups(m)
	var cands []string
	for _, k := range keys {
		if len(gs[k].asks) > 0 && len(gs[k].bids) > 0 {
			cands = append(cands, k)
		}
	}
	if len(cands) == 0 {
		m = 3 - m
		gs, keys = g.groups(m)
		for _, k := range keys {
			if len(gs[k].asks) > 0 && len(gs[k].bids) > 0 {
				cands = append(cands, k)
			}
		}
	}
	admin := "ADM"
	switch x := g.rng.Intn(100); {
	case x < 6:
		admin = "GOV"
	case x < 12:
		admin = g.user()
	}
	var asks, bids []*exchange.Order
	if len(cands) == 0 && g.rng.Chance(85) {
		// nothing can meet yet: add the missing side
		for _, k := range keys {
			d := strings.Split(k, "/")
			if len(gs[k].asks) > 0 {
				return g.genBidFor(m, d[0], d[1])
			}
			if len(gs[k].bids) > 0 {
				return g.genAskFor(m, d[0], d[1])
			}
		}
		if g.rng.Bool() {
			return g.genAsk()
		}
		return g.genBid()
	}
	if len(cands) > 0 && g.rng.Chance(92) {
		gr := gs[Pick(g.rng, cands)]
		asks, bids = exhPickSome(g.rng, gr.asks, 3), exhPickSome(g.rng, gr.bids, 3)
	} else {
		all := g.e.orders()
		if len(all) < 2 {
			return fmt.Sprintf("settle admin=%s m=%d asks=901 bids=902 partial=0", admin, m)
		}
		some := exhPickSome(g.rng, all, 4)
		h := (len(some) + 1) / 2
		asks, bids = some[:h], some[h:]
		if len(bids) == 0 {
			bids = asks
		}
	}
	if g.rng.Chance(75) {
		asks, bids = exhTrim(asks, bids)
	}
	ta, tb := sdkmath.ZeroInt(), sdkmath.ZeroInt()
	for _, o := range asks {
		ta = ta.Add(o.GetAssets().Amount)
	}
	for _, o := range bids {
		tb = tb.Add(o.GetAssets().Amount)
	}
	partial := !ta.Equal(tb)
	if g.rng.Chance(10) {
		partial = !partial
	}
	aids, bids2 := exhIDs(asks), exhIDs(bids)
	if g.rng.Chance(3) && len(aids) > 0 {
		aids = append(aids, aids[0])
	}
	return fmt.Sprintf("settle admin=%s m=%d asks=%s bids=%s partial=%s", admin, m, exhIDsStr(aids), exhIDsStr(bids2), b01(partial))
}

func (g *exhGen) genFill() string {
	m := g.mainM
	if g.rng.Chance(20) {
		m = 3 - m
	}
	gs, keys := g.groups(m)
	wantBids := g.rng.Bool()
	var cands []string
	for _, k := range keys {
		if (wantBids && len(gs[k].bids) > 0) || (!wantBids && len(gs[k].asks) > 0) {
			cands = append(cands, k)
		}
	}
	mk := g.mkt(m)
	who := g.user()
	if len(cands) == 0 && g.rng.Chance(85) {
		if wantBids {
			return g.genBid()
		}
		return g.genAsk()
	}
	if len(cands) == 0 {
		if wantBids {
			return fmt.Sprintf("fillbids seller=%s m=%d bids=903 total=5apple flat=- cfee=-", who, m)
		}
		return fmt.Sprintf("fillasks buyer=%s m=%d asks=904 total=5usd fees=- cfee=-", who, m)
	}
	gr := gs[Pick(g.rng, cands)]
	if wantBids {
		os := exhPickSome(g.rng, gr.bids, 2)
		var tot sdk.Coins
		for _, o := range os {
			tot = tot.Add(o.GetAssets())
		}
		if g.rng.Chance(8) {
			tot = tot.Add(exhCoin(tot[0].Denom, 1))
		}
		if g.rng.Chance(80) {
			who = g.otherUser(g.e.sym(os[0].GetOwner()))
		}
		return fmt.Sprintf("fillbids seller=%s m=%d bids=%s total=%s flat=%s cfee=%s", who, m, exhIDsStr(exhIDs(os)), exhCoinsStr(tot),
			exhOptCoinStr(g.feeChoice(mk.FeeSellerSettlementFlat)), g.creationFee(mk.FeeCreateAskFlat))
	}
	os := exhPickSome(g.rng, gr.asks, 2)
	tot := sdkmath.ZeroInt()
	for _, o := range os {
		tot = tot.Add(o.GetPrice().Amount)
	}
	if g.rng.Chance(8) {
		tot = tot.AddRaw(1)
	}
	if g.rng.Chance(80) {
		who = g.otherUser(g.e.sym(os[0].GetOwner()))
	}
	var fees sdk.Coins
	if f := g.feeChoice(mk.FeeBuyerSettlementFlat); f != nil && f.Amount.IsPositive() {
		fees = fees.Add(*f)
	}
	return fmt.Sprintf("fillasks buyer=%s m=%d asks=%s total=%s%s fees=%s cfee=%s", who, m, exhIDsStr(exhIDs(os)), tot, os[0].GetPrice().Denom,
		exhCoinsStr(fees), g.creationFee(mk.FeeCreateBidFlat))
}

func (g *exhGen) genCommit() string {
	a, m := g.user(), g.market()
	amt := g.smallCoins(30)
	if g.rng.Chance(6) {
		sp := g.e.app.BankKeeper.SpendableCoins(g.e.ctx, g.e.addr[a])
		if len(sp) > 0 {
			c := Pick(g.rng, sp)
			amt = sdk.NewCoins(sdk.Coin{Denom: c.Denom, Amount: c.Amount.AddRaw(int64(g.rng.Intn(2)))})
		}
	}
	return fmt.Sprintf("commit acct=%s m=%d amount=%s cfee=%s", a, m, exhCoinsStr(amt), g.creationFee(g.mkt(m).FeeCreateCommitmentFlat))
}

func (g *exhGen) part(cs sdk.Coins) sdk.Coins {
	var res sdk.Coins
	for _, c := range cs {
		if g.rng.Chance(60) {
			n := c.Amount.Int64()
			res = res.Add(exhCoin(c.Denom, 1+int64(g.rng.Intn(int(n)))))
		}
	}
	if len(res) == 0 && len(cs) > 0 {
		res = sdk.NewCoins(cs[0])
	}
	return res
}

func (g *exhGen) genRelease() string {
	cs := g.e.commitments()
	admin := "ADM"
	if g.rng.Chance(8) {
		admin = g.user()
	}
	if len(cs) == 0 && g.rng.Chance(85) {
		return g.genCommit()
	}
	if len(cs) == 0 || g.rng.Chance(5) {
		return fmt.Sprintf("release admin=%s m=%d entries=%s:%s", admin, 1+g.rng.Intn(2), g.user(), Pick(g.rng, []string{"-", "3usd"}))
	}
	c := Pick(g.rng, cs)
	var ents []string
	for _, x := range cs {
		if x.MarketId != c.MarketId || (x.Account != c.Account && g.rng.Chance(50)) {
			continue
		}
		amt := "-"
		switch y := g.rng.Intn(100); {
		case y < 50:
			amt = exhCoinsStr(g.part(x.Amount))
		case y < 56:
			amt = exhCoinsStr(x.Amount.Add(exhCoin(x.Amount[0].Denom, 1)))
		}
		ents = append(ents, g.e.sym(x.Account)+":"+amt)
	}
	return fmt.Sprintf("release admin=%s m=%d entries=%s", admin, c.MarketId, strings.Join(ents, ";"))
}

func (g *exhGen) genCSettle() string {
	cs := g.e.commitments()
	admin := "ADM"
	if g.rng.Chance(6) {
		admin = g.user()
	}
	if len(cs) == 0 && g.rng.Chance(85) {
		return g.genCommit()
	}
	if len(cs) == 0 {
		return fmt.Sprintf("csettle admin=%s m=1 in=A:3usd out=B:3usd fees=-", admin)
	}
	c := Pick(g.rng, cs)
	var ins, fees []string
	var total sdk.Coins
	for _, x := range cs {
		if x.MarketId != c.MarketId || (x.Account != c.Account && g.rng.Chance(40)) {
			continue
		}
		in := g.part(x.Amount)
		if g.rng.Chance(5) {
			in = in.Add(x.Amount...)
		}
		if in1 := g.part(in); g.rng.Chance(10) && !in1.Equal(in) {
			in2, _ := in.SafeSub(in1...)
			ins = append(ins, g.spellEntry(g.e.sym(x.Account))+":"+exhCoinsStr(in1), g.spellEntry(g.e.sym(x.Account))+":"+exhCoinsStr(in2))
			g.out.Count("entries:account-listed-twice")
		} else {
			ins = append(ins, g.spellEntry(g.e.sym(x.Account))+":"+exhCoinsStr(in))
		}
		total = total.Add(in...)
		if rest, neg := x.Amount.SafeSub(in...); !neg && !rest.IsZero() && g.rng.Chance(40) {
			fees = append(fees, g.spellEntry(g.e.sym(x.Account))+":"+exhCoinsStr(g.part(rest)))
		}
	}
	// split the total over one or two receivers
	var outs []string
	r1 := g.user()
	if g.rng.Chance(50) {
		var p1 sdk.Coins
		for _, t := range total {
			if t.Amount.GT(sdkmath.OneInt()) && g.rng.Chance(60) {
				p1 = p1.Add(exhCoin(t.Denom, 1+int64(g.rng.Intn(int(t.Amount.Int64()-1)))))
			}
		}
		p2, _ := total.SafeSub(p1...)
		if !p1.IsZero() && !p2.IsZero() {
			r2 := g.otherUser(r1)
			if g.rng.Chance(15) {
				r2 = r1 // the same receiver twice
				g.out.Count("entries:account-listed-twice")
			}
			outs = append(outs, g.spellEntry(r1)+":"+exhCoinsStr(p1), g.spellEntry(r2)+":"+exhCoinsStr(p2))
		}
	}
	if len(outs) == 0 {
		outs = []string{r1 + ":" + exhCoinsStr(total)}
	}
	if g.rng.Chance(4) {
		outs[0] = r1 + ":" + exhCoinsStr(total.Add(exhCoin("usd", 1)))
	}
	return fmt.Sprintf("csettle admin=%s m=%d in=%s out=%s fees=%s", admin, c.MarketId, strings.Join(ins, ";"), strings.Join(outs, ";"), JoinOr(fees, ";"))
}

// spell writes an account name the way a message may spell it: mostly canonical, sometimes in
// upper case (only used for fields the handlers parse before use).
func (g *exhGen) spell(name string) string {
	if name == "-" || name == "" || !g.rng.Chance(15) {
		return name
	}
	g.out.Count("spelling:upper-field")
	return name + "^"
}

// spellEntry spells the account of an account/amount entry (lists of MarketReleaseCommitments /
// MarketCommitmentSettle): upper case now and then.
func (g *exhGen) spellEntry(name string) string {
	if g.rng.Chance(12) {
		g.out.Count("spelling:upper-entry")
		return name + "^"
	}
	return name
}

func (g *exhGen) genPay() string {
	src := g.user()
	tgt := g.otherUser(src)
	// often a target that already has a payment from somebody else (several sources per target)
	if ps := g.e.payments(); len(ps) > 0 && g.rng.Chance(45) {
		if p := Pick(g.rng, ps); p.Target != "" && g.e.sym(p.Target) != src && g.e.sym(p.Target) != "?" {
			tgt = g.e.sym(p.Target)
		}
	}
	if g.payHeavy && g.rng.Chance(55) && g.mainT != src {
		tgt = g.mainT
	}
	if g.rng.Chance(15) {
		tgt = "-"
	}
	samt, tamt := "-", "-"
	if g.rng.Chance(88) {
		samt = exhCoinsStr(g.smallCoins(25))
	}
	if g.rng.Chance(40) || samt == "-" {
		if g.rng.Chance(92) {
			tamt = exhCoinsStr(sdk.NewCoins(exhCoin(Pick(g.rng, exhDenoms), int64(1+g.rng.Intn(20)))))
		}
	}
	return fmt.Sprintf("pay src=%s ext=x%d tgt=%s samt=%s tamt=%s", src, g.rng.Intn(4), tgt, samt, tamt)
}

func (g *exhGen) genPaymentOp(kind int) string {
	ps := g.e.payments()
	if len(ps) == 0 && g.rng.Chance(85) {
		return g.genPay()
	}
	if len(ps) == 0 || g.rng.Chance(6) {
		switch kind {
		case 0:
			return fmt.Sprintf("accept src=%s ext=x9 tgt=%s samt=3usd tamt=-", g.user(), g.user())
		case 1:
			return fmt.Sprintf("reject tgt=%s src=%s ext=x9", g.user(), g.user())
		case 2:
			return fmt.Sprintf("rejectall tgt=%s srcs=%s", g.spell(g.user()), g.spell(g.user()))
		case 3:
			return fmt.Sprintf("cancelpay src=%s exts=x9", g.user())
		default:
			return fmt.Sprintf("retarget src=%s ext=x9 tgt=%s", g.user(), g.user())
		}
	}
	p := Pick(g.rng, ps)
	if multi := g.multiSourcePayments(ps); len(multi) > 0 && (kind == 2 || (g.payHeavy && g.rng.Chance(30))) && g.rng.Chance(75) {
		// a target that several accounts have payments for: reject them in one message
		kind, p = 2, Pick(g.rng, multi)
	}
	src, tgt := g.e.sym(p.Source), g.e.sym(p.Target)
	switch kind {
	case 0:
		samt, tamt := exhCoinsStr(p.SourceAmount), exhCoinsStr(p.TargetAmount)
		t := tgt
		switch x := g.rng.Intn(100); {
		case x < 6:
			samt = exhCoinsStr(p.SourceAmount.Add(exhCoin("usd", 1)))
		case x < 10:
			t = g.user()
		case x < 13:
			tamt = exhCoinsStr(p.TargetAmount.Add(exhCoin("fig", 1)))
		}
		if t == "-" {
			t = g.user()
		}
		return fmt.Sprintf("accept src=%s ext=%s tgt=%s samt=%s tamt=%s", src, p.ExternalId, t, samt, tamt)
	case 1:
		t := tgt
		if t == "-" || g.rng.Chance(10) {
			t = g.user()
		}
		return fmt.Sprintf("reject tgt=%s src=%s ext=%s", g.spell(t), g.spell(src), p.ExternalId)
	case 2:
		return g.genRejectAll(ps, p)
	case 3:
		exts := []string{p.ExternalId}
		for _, q := range ps {
			if q.Source == p.Source && q.ExternalId != p.ExternalId && g.rng.Chance(50) {
				exts = append(exts, q.ExternalId)
			}
		}
		if g.rng.Chance(5) {
			exts = append(exts, "x8")
		}
		if g.rng.Chance(4) {
			exts = append(exts, exts[0]) // ValidateBasic: duplicate entry
		}
		return fmt.Sprintf("cancelpay src=%s exts=%s", g.spell(src), strings.Join(exts, "|"))
	default:
		nt := g.user()
		if g.rng.Chance(15) {
			nt = "-"
		}
		if g.rng.Chance(8) {
			nt = tgt
		}
		return fmt.Sprintf("retarget src=%s ext=%s tgt=%s", g.spell(src), p.ExternalId, g.spell(nt))
	}
}

// genRejectAll builds a MsgRejectPayments for the target of payment p (or somebody, if it has
// none): a list of up to five source entries drawn from the accounts that have a payment to that
// target, each entry spelled in lower or upper case (rarely mixed case = invalid), an account may
// be listed again anywhere in the list (directly after itself or further on, in the same spelling
// = rejected by ValidateBasic, or in the other one = the same account once more), and
// sometimes an account without a payment to the target is listed.
func (g *exhGen) genRejectAll(ps []*exchange.Payment, p *exchange.Payment) string {
	t := g.e.sym(p.Target)
	if t == "-" || t == "?" {
		t = g.user()
	}
	// the accounts with a payment to t, the picked payment's source first
	accts := []string{g.e.sym(p.Source)}
	for _, q := range ps {
		if n := g.e.sym(q.Source); g.e.sym(q.Target) == t && !exhContains(accts, n) {
			accts = append(accts, n)
		}
	}
	rest := accts[1:]
	for i := len(rest) - 1; i > 0; i-- {
		j := g.rng.Intn(i + 1)
		rest[i], rest[j] = rest[j], rest[i]
	}
	n := 1 + g.rng.Intn(len(accts))
	if g.rng.Chance(60) {
		n = len(accts)
	}
	accts = accts[:n]
	if g.rng.Chance(50) { // any order
		i := g.rng.Intn(len(accts))
		accts[0], accts[i] = accts[i], accts[0]
	}
	if g.rng.Chance(8) {
		accts = append(accts, g.user()) // maybe one without a payment to t (or one more repeat)
	}
	var srcs []string
	for _, a := range accts {
		sp := ""
		switch x := g.rng.Intn(100); {
		case x < 25:
			sp = "^"
		case x < 28:
			sp = "~"
		}
		srcs = append(srcs, a+sp)
	}
	// list an account again: mostly in the spelling the list does not have yet (the same string
	// twice does not pass ValidateBasic), anywhere in the list, often NOT next to itself
	pct := 40
	if len(accts) > 1 {
		pct = 65
	}
	for k := 0; k < 2 && len(srcs) < 5 && g.rng.Chance(pct); k++ {
		i := g.rng.Intn(len(srcs))
		base := strings.TrimRight(srcs[i], "^~")
		again := base
		if exhContains(srcs, base) {
			again = base + "^"
		}
		if exhContains(srcs, again) && !g.rng.Chance(30) {
			break
		}
		if g.rng.Chance(8) {
			again = srcs[i]
		}
		at := g.rng.Intn(len(srcs) + 1)
		if g.rng.Chance(50) && len(srcs) > 1 { // as far from srcs[i] as the list allows
			at = 0
			if i < len(srcs)-1-i || (i == len(srcs)-1-i && g.rng.Bool()) {
				at = len(srcs)
			}
		}
		srcs = append(srcs[:at], append([]string{again}, srcs[at:]...)...)
	}
	// classify the list for the distribution counters
	first := map[string]int{}
	strs := map[string]bool{}
	cls := "distinct"
	for i, sp := range srcs {
		a := strings.TrimRight(sp, "^~")
		if strs[sp] {
			cls = "same-string-twice"
			break
		}
		strs[sp] = true
		if j, ok := first[a]; ok {
			if cls == "distinct" || cls == "respelled-adjacent" {
				if i-j > 1 {
					cls = "respelled-apart"
				} else {
					cls = "respelled-adjacent"
				}
			}
		}
		first[a] = i
	}
	g.out.Count("rejectall-list:" + cls)
	g.out.Count(fmt.Sprintf("rejectall-len:%d", len(srcs)))
	return fmt.Sprintf("rejectall tgt=%s srcs=%s", g.spell(t), strings.Join(srcs, "|"))
}

// multiSourcePayments returns the payments whose target has payments from at least two accounts.
func (g *exhGen) multiSourcePayments(ps []*exchange.Payment) []*exchange.Payment {
	srcs := map[string]map[string]bool{}
	for _, p := range ps {
		if p.Target == "" {
			continue
		}
		if srcs[p.Target] == nil {
			srcs[p.Target] = map[string]bool{}
		}
		srcs[p.Target][strings.ToLower(p.Source)] = true
	}
	var res []*exchange.Payment
	for _, p := range ps {
		if len(srcs[p.Target]) > 1 {
			res = append(res, p)
		}
	}
	return res
}

func exhContains(xs []string, x string) bool {
	for _, y := range xs {
		if y == x {
			return true
		}
	}
	return false
}

func (g *exhGen) genSend() string {
	from := g.user()
	to := g.otherUser(from)
	coins := g.smallCoins(40)
	if g.rng.Chance(35) {
		sp := g.e.app.BankKeeper.SpendableCoins(g.e.ctx, g.e.addr[from])
		if len(sp) > 0 {
			c := Pick(g.rng, sp)
			coins = sdk.NewCoins(sdk.Coin{Denom: c.Denom, Amount: c.Amount.AddRaw(int64(g.rng.Intn(3) - 1))})
		}
	}
	return fmt.Sprintf("send from=%s to=%s coins=%s", from, to, exhCoinsStr(coins))
}

// genDelegate: a staking delegation by a user. Mostly of the bond denom and mostly by an account
// that has bond-denom funds on hold; the amount is drawn around the two boundaries that matter:
// the un-held balance (balance - hold: the most that may leave) and the balance.
func (g *exhGen) genDelegate() string {
	from := g.user()
	if g.rng.Chance(75) {
		var held []string
		for _, u := range exhUsers {
			if h, err := g.e.app.HoldKeeper.GetHoldCoin(g.e.ctx, g.e.addr[u], exhBond); err == nil && h.Amount.IsPositive() {
				held = append(held, u)
			}
		}
		if len(held) > 0 {
			from = Pick(g.rng, held)
		}
	}
	denom := exhBond
	if g.rng.Chance(6) {
		denom = Pick(g.rng, exhDenoms)
	}
	bal := g.e.app.BankKeeper.GetBalance(g.e.ctx, g.e.addr[from], denom).Amount
	free := g.e.app.BankKeeper.SpendableCoins(g.e.ctx, g.e.addr[from]).AmountOf(denom)
	amt := sdkmath.NewInt(int64(1 + g.rng.Intn(40)))
	zone := "small"
	switch x := g.rng.Intn(100); {
	case x < 45 && bal.GT(free) && bal.Sub(free).IsInt64():
		// more than the un-held balance, no more than the balance
		amt, zone = free.AddRaw(1+int64(g.rng.Intn(int(exhMinInt64(bal.Sub(free).Int64(), 1<<30))))), "held"
	case x < 62:
		amt, zone = free.AddRaw(int64(g.rng.Intn(3)-1)), "free-edge"
	case x < 70:
		amt, zone = bal.AddRaw(int64(g.rng.Intn(3)-1)), "bal-edge"
	case x < 73:
		amt, zone = sdkmath.ZeroInt(), "zero"
	}
	if amt.IsNegative() {
		amt = sdkmath.ZeroInt()
	}
	g.out.Count("delegate-amt:" + zone)
	return fmt.Sprintf("delegate from=%s amt=%s%s", from, amt, denom)
}

func exhMinInt64(a, b int64) int64 {
	if a < b {
		return a
	}
	return b
}

// genMarketChange rewrites one aspect of a market line.
func (g *exhGen) genMarketChange() string {
	id := uint32(1 + g.rng.Intn(2))
	ws := strings.Fields(g.e.marketLine(id))
	set := func(k, v string) {
		for i, w := range ws {
			if strings.HasPrefix(w, k+"=") {
				ws[i] = k + "=" + v
			}
		}
	}
	flip := func(k string) { set(k, b01(!boolArg(exhKV(ws, k)))) }
	switch g.rng.Intn(8) {
	case 0:
		flip("ao")
	case 1:
		flip("us")
	case 2:
		flip("ac")
	case 3:
		set("sflat", Pick(g.rng, []string{"-", "2usd", "3fig", "1apple,3fig,2usd", "1apple,4fig,1usd"}))
	case 4:
		set("bflat", Pick(g.rng, []string{"-", "2usd", "3fig,2usd", "5fig"}))
	case 5:
		set("cask", Pick(g.rng, []string{"-", "1fig", "2fig"}))
		set("cbid", Pick(g.rng, []string{"-", "1fig"}))
	case 6:
		set("ccom", Pick(g.rng, []string{"-", "1fig", "1usd"}))
	default:
		set("sratio", Pick(g.rng, []string{"-", "usd:100:1", "usd:100:1|fig:50:1", "usd:20:1|fig:50:1|apple:10:1"}))
	}
	return strings.Join(ws, " ")
}

// genGenesis builds a genesis line: random records and the holds they need, exact most of the
// time, sometimes one coin short (InitGenesis must panic) or one coin over (accepted, but the
// property's premise "holds match the records" is not met).
func (g *exhGen) genGenesis() (string, map[string]sdk.Coins) {
	e := g.e
	need := map[string]sdk.Coins{}
	var os, cs, ps []string
	n := g.rng.Intn(5)
	id := uint64(0)
	for i := 0; i < n; i++ {
		id += uint64(1 + g.rng.Intn(2))
		owner := g.user()
		m := uint32(1 + g.rng.Intn(2))
		ad, pd := g.pair()
		if ad == pd {
			ad, pd = "apple", "usd"
		}
		assets := int64(5 * (1 + g.rng.Intn(6)))
		price := assets * int64(1+g.rng.Intn(3))
		side := "a"
		fees := "-"
		if g.rng.Bool() {
			if f := g.feeChoice(g.mkt(1).FeeSellerSettlementFlat); f != nil && f.Amount.IsPositive() && g.rng.Chance(70) {
				fees = exhOptCoinStr(f)
			}
		} else {
			side = "b"
			if g.rng.Chance(60) {
				fees = exhCoinsStr(g.smallCoins(4))
			}
		}
		rec := fmt.Sprintf("%d:%d:%s:%s:%d%s:%d%s:%s:%s", id, m, owner, side, assets, ad, price, pd, fees, Pick(g.rng, []string{"p", "n"}))
		if o, ok := e.parseOrderRec(rec); ok {
			need[owner] = need[owner].Add(o.GetHoldAmount()...)
		}
		os = append(os, rec)
	}
	for i := g.rng.Intn(3); i > 0; i-- {
		a := g.user()
		amt := g.smallCoins(20)
		cs = append(cs, fmt.Sprintf("%d:%s:%s", 1+g.rng.Intn(2), a, exhCoinsStr(amt)))
		need[a] = need[a].Add(amt...)
	}
	seen := map[string]bool{}
	for i := g.rng.Intn(3); i > 0; i-- {
		src := g.user()
		ext := fmt.Sprintf("x%d", g.rng.Intn(4))
		if seen[src+ext] {
			continue
		}
		seen[src+ext] = true
		amt := g.smallCoins(15)
		tgt := g.otherUser(src)
		ps = append(ps, fmt.Sprintf("%s:%s:%s:%s:%s", src, ext, tgt, exhCoinsStr(amt), Pick(g.rng, []string{"-", "4fig", "2usd"})))
		need[src] = need[src].Add(amt...)
	}
	holds := map[string]sdk.Coins{}
	for k, v := range need {
		holds[k] = v
	}
	tag := "exact"
	if len(need) > 0 {
		switch x := g.rng.Intn(100); {
		case x < 8:
			for _, u := range exhUsers {
				if len(holds[u]) > 0 {
					c := holds[u][0]
					holds[u], _ = holds[u].SafeSub(sdk.Coin{Denom: c.Denom, Amount: sdkmath.OneInt()})
					tag = "short"
					break
				}
			}
		case x < 14:
			u := g.user()
			holds[u] = holds[u].Add(exhCoin(Pick(g.rng, exhDenoms), 1))
			tag = "over"
		}
	}
	g.out.Count("genesis:" + tag)
	var hs []string
	for _, u := range exhUsers {
		if !holds[u].IsZero() {
			hs = append(hs, u+":"+exhCoinsStr(holds[u]))
		}
	}
	last := id
	if g.rng.Chance(30) {
		last += uint64(g.rng.Intn(3))
	}
	if id > 0 && g.rng.Chance(3) {
		last = id - 1
	}
	return fmt.Sprintf("genesis last=%d orders=%s commits=%s pays=%s holds=%s", last, JoinOr(os, ";"), JoinOr(cs, ";"), JoinOr(ps, ";"), JoinOr(hs, ";")), holds
}

func driveExhold(t *testing.T, rng *RNG, n int, out *Out) {
	e := exhSetup(t)
	g := &exhGen{e: e, rng: rng, out: out}
	for h := 0; h < n; h++ {
		e.newHistory()
		out.Comment(fmt.Sprintf("history %d", h))
		g.mainM = uint32(1 + rng.Intn(2))
		g.mainA, g.mainP = Pick(rng, []string{"apple", "apple", "apple", "fig"}), Pick(rng, []string{"usd", "usd", "usd", "fig"})
		if g.mainA == g.mainP {
			g.mainA, g.mainP = "apple", "usd"
		}
		g.payHeavy, g.mainT = rng.Chance(30), Pick(rng, exhUsers)
		if g.payHeavy {
			out.Count("history:payment-heavy")
		}
		g.emit(e.marketLine(1))
		g.emit(e.marketLine(2))
		genesis, gholds := "", map[string]sdk.Coins{}
		if rng.Chance(45) {
			genesis, gholds = g.genGenesis()
		}
		for _, u := range exhUsers {
			var coins sdk.Coins
			for _, d := range exhDenoms {
				switch x := rng.Intn(100); {
				case x < 8:
				case x < 40:
					coins = coins.Add(exhCoin(d, int64(5+rng.Intn(80))))
				default:
					coins = coins.Add(exhCoin(d, int64(200+rng.Intn(3000))))
				}
			}
			coins = coins.Add(gholds[u]...)
			if !coins.IsZero() {
				g.emit(fmt.Sprintf("fund %s %s", u, exhCoinsStr(coins)))
			}
		}
		if genesis != "" {
			if r := g.emit(genesis); r != "ok" {
				g.emit("dump")
				continue
			}
		}
		g.emit("dump")
		steps := 12 + rng.Intn(19)
		for s := 0; s < steps; s++ {
			var op string
			k := rng.Intn(100)
			if g.payHeavy && rng.Chance(50) {
				k = 78 + rng.Intn(15) // pay / payment op
			}
			switch {
			case k < 15:
				op = g.genAsk()
			case k < 30:
				op = g.genBid()
			case k < 37:
				op = g.genCancel()
			case k < 51:
				op = g.genSettle()
			case k < 59:
				op = g.genFill()
			case k < 67:
				op = g.genCommit()
			case k < 72:
				op = g.genRelease()
			case k < 78:
				op = g.genCSettle()
			case k < 85:
				op = g.genPay()
			case k < 93:
				op = g.genPaymentOp(Pick(rng, []int{0, 0, 0, 1, 2, 2, 2, 3, 3, 4, 4}))
			case k < 96:
				if rng.Chance(55) {
					op = g.genDelegate()
				} else {
					op = g.genSend()
				}
			case k < 98:
				op = g.genMarketChange()
			default:
				if s > 8 {
					op = fmt.Sprintf("close m=%d", 1+rng.Intn(2))
				} else if rng.Chance(60) {
					op = g.genDelegate()
				} else {
					op = g.genSend()
				}
			}
			g.emit(op)
			g.emit("dump")
		}
		out.Count(fmt.Sprintf("history-orders-left:%d", minInt(len(e.orders()), 6)))
	}
}

