package harness

import (
	"fmt"
	"math/big"
	"strings"
	"sync"

	sdkmath "cosmossdk.io/math"
	storetypes "cosmossdk.io/store/types"

	sdk "github.com/cosmos/cosmos-sdk/types"
	authtypes "github.com/cosmos/cosmos-sdk/x/auth/types"
	"github.com/cosmos/cosmos-sdk/x/authz"
	banktypes "github.com/cosmos/cosmos-sdk/x/bank/types"
	govtypes "github.com/cosmos/cosmos-sdk/x/gov/types"

	"github.com/provenance-io/provenance/testutil/verifhooks"
	msgfeeskeeper "github.com/provenance-io/provenance/x/msgfees/keeper"
	msgfeestypes "github.com/provenance-io/provenance/x/msgfees/types"
)

// Op `paytx` (C19): the message-fee recipient split as it is CONFIGURED and PAID OUT.
//
//	paytx rate=<nhash per usd mil> base=<base fee in nhash> cfg=<type>:<den>:<amt>:<bips>:<rcpt>[:u]|… msgs=<msg>,… fee=<coins>
//
// cfg: msg-based fees set through the real governance endpoints of the msgfees msg server
// (ValidateBasic, then AddMsgFeeProposal; with `:u` a placeholder is added first and the entry is
// set by UpdateMsgFeeProposal). <bips> is the recipient_basis_points STRING as the proposal
// carries it (`d` = empty = the documented default, else decimal digits, possibly zero-padded).
// msgs: the messages of ONE transaction, `send`, `multi`, `grant` or
// `assess:<den>:<amt>:<bips>:<rcpt>` (MsgAssessCustomMsgFeeRequest). The transaction is run the way
// baseapp runs it: ValidateBasic of every message, the fee decorators of the ante chain (fee gas
// meter set-up, base fee deduction), every message through the app's PioMsgServiceRouter (which
// tallies the message's fee distribution in the fee gas meter), then the fee handler
// (MsgFeeInvoker -> FeeGasMeter.FeeConsumedDistributions -> Keeper.DeductFeesDistributions).
// Output: the balance changes of the three recipients, the fee collector and the payer.

var (
	feePayOnce    sync.Once
	feePayAnte    sdk.AnteHandler
	feePayHandler sdk.FeeHandler
	feePayBase    sdkmath.Int // floor gas price * feePayGas (in the fee denom)
)

const (
	feePayGas      = 2_000_000
	feePaySendCoin = "sendcoin"
)

var feePayDenoms = []string{"nhash", "hotdog"}

var feePayTypeURL = map[string]string{
	"send":   "/cosmos.bank.v1beta1.MsgSend",
	"multi":  "/cosmos.bank.v1beta1.MsgMultiSend",
	"grant":  "/cosmos.authz.v1beta1.MsgGrant",
	"assess": "/provenance.msgfees.v1.MsgAssessCustomMsgFeeRequest",
}

func feePayAddr(name string) sdk.AccAddress {
	return sdk.AccAddress((name + "-verif-c19-pay-addr-")[:20])
}

func (e *feeEnv) feePaySetup() {
	feeAppOnce.Do(func() { feeApp, feeCtx = NewApp(e.t) })
	feePayOnce.Do(func() {
		a := feeApp
		feePayAnte = sdk.ChainAnteDecorators(verifhooks.NewFeeMeterContextDecorator(),
			verifhooks.NewProvenanceDeductFeeDecorator(a.AccountKeeper, a.BankKeeper, a.FeeGrantKeeper, a.MsgFeesKeeper))
		var err error
		feePayHandler, err = verifhooks.NewAdditionalMsgFeeHandler(a.AccountKeeper, a.BankKeeper, a.FeeGrantKeeper, a.MsgFeesKeeper, a.GetTxConfig().TxDecoder())
		if err != nil {
			e.t.Fatalf("fee handler: %v", err)
		}
		floor := a.MsgFeesKeeper.GetFloorGasPrice(feeCtx)
		if floor.Denom != "nhash" && !floor.Amount.IsZero() {
			e.t.Fatalf("floor gas price denom %q", floor.Denom)
		}
		feePayBase = floor.Amount.MulRaw(feePayGas)
	})
}

func feePayBipsStr(s string) string {
	if s == "d" {
		return ""
	}
	return s
}

func feePayRcpt(s string) string {
	if s == "-" {
		return ""
	}
	return feePayAddr(s).String()
}

func feePayParseCoins(s string) (sdk.Coins, bool) {
	var cs sdk.Coins
	if s == "-" || s == "" {
		return cs, true
	}
	for _, p := range strings.Split(s, ",") {
		i := 0
		for i < len(p) && p[i] >= '0' && p[i] <= '9' {
			i++
		}
		amt, ok := bigInt(p[:i])
		if !ok || i == 0 || i == len(p) {
			return nil, false
		}
		cs = cs.Add(sdk.Coin{Denom: p[i:], Amount: amt})
	}
	return cs, true
}

func (e *feeEnv) execPay(ws []string) string {
	e.feePaySetup()
	a := feeApp
	ctx, _ := feeCtx.CacheContext()
	authority := authtypes.NewModuleAddress(govtypes.ModuleName).String()
	srv := msgfeeskeeper.NewMsgServerImpl(a.MsgFeesKeeper)

	// base=: the base fee (floor gas price * gas) the line was written for (the checker's domain
	// condition "the fee offered covers base + additional fees" uses it)
	if kvArg(ws, "base") != feePayBase.String() {
		return "bad-op base=" + feePayBase.String()
	}
	// ---- configuration through the governance endpoints ----
	var rate uint64
	fmt.Sscan(kvArg(ws, "rate"), &rate)
	if _, err := srv.UpdateNhashPerUsdMilProposal(ctx, &msgfeestypes.MsgUpdateNhashPerUsdMilProposalRequest{NhashPerUsdMil: rate, Authority: authority}); err != nil {
		return "err:setup " + err.Error()
	}
	if c := kvArg(ws, "cfg"); c != "-" && c != "" {
		for _, ent := range strings.Split(c, "|") {
			f := strings.Split(ent, ":")
			if len(f) < 5 {
				return "bad-op"
			}
			url, ok := feePayTypeURL[f[0]]
			if !ok {
				return "bad-op"
			}
			fee := sdk.Coin{Denom: f[1], Amount: mustInt(f[2])}
			if len(f) == 6 && f[5] == "u" {
				add := &msgfeestypes.MsgAddMsgFeeProposalRequest{MsgTypeUrl: url, AdditionalFee: sdk.NewInt64Coin("nhash", 1), Authority: authority}
				if _, err := srv.AddMsgFeeProposal(ctx, add); err != nil {
					return "err:setup " + err.Error()
				}
				upd := &msgfeestypes.MsgUpdateMsgFeeProposalRequest{MsgTypeUrl: url, AdditionalFee: fee,
					Recipient: feePayRcpt(f[4]), RecipientBasisPoints: feePayBipsStr(f[3]), Authority: authority}
				if err := upd.ValidateBasic(); err != nil {
					return "err:cfg"
				}
				if _, err := srv.UpdateMsgFeeProposal(ctx, upd); err != nil {
					return "err:cfg"
				}
				continue
			}
			add := &msgfeestypes.MsgAddMsgFeeProposalRequest{MsgTypeUrl: url, AdditionalFee: fee,
				Recipient: feePayRcpt(f[4]), RecipientBasisPoints: feePayBipsStr(f[3]), Authority: authority}
			if err := add.ValidateBasic(); err != nil {
				return "err:cfg"
			}
			if _, err := srv.AddMsgFeeProposal(ctx, add); err != nil {
				return "err:cfg"
			}
		}
	}

	// ---- the transaction ----
	payer, sink := feePayAddr("payer"), feePayAddr("sink")
	if a.AccountKeeper.GetAccount(ctx, payer) == nil {
		a.AccountKeeper.SetAccount(ctx, a.AccountKeeper.NewAccountWithAddress(ctx, payer))
	}
	one := sdk.NewCoins(sdk.NewInt64Coin(feePaySendCoin, 1))
	var msgs []sdk.Msg
	for _, m := range strings.Split(kvArg(ws, "msgs"), ",") {
		f := strings.Split(m, ":")
		switch f[0] {
		case "send":
			msgs = append(msgs, &banktypes.MsgSend{FromAddress: payer.String(), ToAddress: sink.String(), Amount: one})
		case "multi":
			msgs = append(msgs, &banktypes.MsgMultiSend{
				Inputs:  []banktypes.Input{{Address: payer.String(), Coins: one}},
				Outputs: []banktypes.Output{{Address: sink.String(), Coins: one}}})
		case "grant":
			g, err := authz.NewMsgGrant(payer, sink, authz.NewGenericAuthorization("/cosmos.bank.v1beta1.MsgSend"), nil)
			if err != nil {
				return "err:setup " + err.Error()
			}
			msgs = append(msgs, g)
		case "assess":
			if len(f) != 5 {
				return "bad-op"
			}
			msgs = append(msgs, &msgfeestypes.MsgAssessCustomMsgFeeRequest{Name: "verif", From: payer.String(),
				Amount: sdk.Coin{Denom: f[1], Amount: mustInt(f[2])}, Recipient: feePayRcpt(f[4]), RecipientBasisPoints: feePayBipsStr(f[3])})
		default:
			return "bad-op"
		}
	}
	fee, ok := feePayParseCoins(kvArg(ws, "fee"))
	if !ok || !fee.IsValid() && len(fee) > 0 {
		return "bad-op"
	}
	fund := fee.Add(sdk.NewInt64Coin(feePaySendCoin, int64(len(msgs))))
	if err := a.BankKeeper.MintCoins(ctx, "mint", fund); err != nil {
		return "err:setup " + err.Error()
	}
	if err := a.BankKeeper.SendCoinsFromModuleToAccount(ctx, "mint", payer, fund); err != nil {
		return "err:setup " + err.Error()
	}
	cfg := a.GetTxConfig()
	b := cfg.NewTxBuilder()
	if err := b.SetMsgs(msgs...); err != nil {
		return "bad-op"
	}
	b.SetFeeAmount(fee)
	b.SetGasLimit(feePayGas)
	bz, err := cfg.TxEncoder()(b.GetTx())
	if err != nil {
		return "bad-op"
	}
	tx, err := cfg.TxDecoder()(bz)
	if err != nil {
		return "bad-op"
	}
	// baseapp.validateBasicTxMsgs
	for _, m := range tx.GetMsgs() {
		if v, ok := m.(sdk.HasValidateBasic); ok {
			if err := v.ValidateBasic(); err != nil {
				return "err:msg"
			}
		}
	}
	watch := []sdk.AccAddress{feePayAddr("r1"), feePayAddr("r2"), feePayAddr("r3"),
		authtypes.NewModuleAddress(authtypes.FeeCollectorName), payer}
	bal := func() [][]sdkmath.Int {
		var r [][]sdkmath.Int
		for _, w := range watch {
			var row []sdkmath.Int
			for _, d := range feePayDenoms {
				row = append(row, a.BankKeeper.GetBalance(ctx, w, d).Amount)
			}
			r = append(r, row)
		}
		return r
	}
	before := bal()
	// the gas meter baseapp / SetUpContextDecorator give the transaction (its limit is the gas wanted)
	newCtx, err := feePayAnte(ctx.WithTxBytes(bz).WithGasMeter(storetypes.NewGasMeter(feePayGas)), tx, false)
	if err != nil {
		return "err:ante " + err.Error()
	}
	runCtx := newCtx.WithTxBytes(bz)
	for _, m := range tx.GetMsgs() {
		h := a.MsgServiceRouter().Handler(m)
		if h == nil {
			return "err:noroute"
		}
		if _, err := h(runCtx, m); err != nil {
			return "err:msgfail " + err.Error()
		}
	}
	if _, _, err := feePayHandler(runCtx, false); err != nil {
		return "err:sweep " + err.Error()
	}
	after := bal()
	res := "ok"
	for i, n := range []string{"r1", "r2", "r3", "c", "p"} {
		var parts []string
		for j := range feePayDenoms {
			parts = append(parts, after[i][j].Sub(before[i][j]).String())
		}
		res += " " + n + "=" + strings.Join(parts, "/")
	}
	return res
}

// ---- generator ----

func feePayGenBips(r *RNG, assess bool) (string, int) {
	def := 5000
	if assess {
		def = 10000
	}
	switch k := r.Intn(100); {
	case k < 22:
		return "d", def
	case k < 45:
		// boundary values, incl. spellings of zero that are not the canonical one
		s := []string{"0", "00", "000", "1", "9999", "10000", "5000", "2500", "01", "010000", "0007"}[r.Intn(11)]
		var v int
		fmt.Sscan(strings.TrimLeft(s, "0")+"", &v)
		return s, v
	case k < 47:
		v := 10001 + r.Intn(60000)
		return fmt.Sprint(v), v
	}
	v := r.Intn(10001)
	return fmt.Sprint(v), v
}

func feePayGenAmt(r *RNG, maxBits int) *big.Int {
	var x *big.Int
	switch k := r.Intn(100); {
	case k < 30:
		x = big.NewInt(int64(1 + r.Intn(20000)))
	case k < 60:
		kk := r.BigBoundary()
		x = new(big.Int).Mul(kk, big.NewInt(10000))
		x.Add(x, big.NewInt(int64(r.Intn(3)-1)))
	default:
		x = r.BigBoundary()
	}
	if x.BitLen() > maxBits {
		x.Rsh(x, uint(x.BitLen()-maxBits))
	}
	if x.Sign() <= 0 {
		x.SetInt64(int64(1 + r.Intn(9)))
	}
	return x
}

// genFeePayOp: a configuration and one transaction. The fee offered is what the chain requires
// (base fee + every additional fee) plus, sometimes, something on top.
func (e *feeEnv) genFeePayOp(r *RNG, out *Out) string {
	e.feePaySetup()
	types := []string{"send", "multi", "grant", "assess"}
	// the recipients of this case: a small pool, so that several fees name the same one
	pool := [][]string{{"r1"}, {"r2"}, {"r3"}, {"r1", "r2"}, {"r3", "r1"}, {"r2", "r3"}, {"r1", "r2", "r3"}, {"r3", "r2", "r1"}}[r.Intn(8)]
	pick := func() string {
		if r.Chance(15) {
			return "-"
		}
		return pool[r.Intn(len(pool))]
	}
	rate := uint64(25_000_000)
	switch k := r.Intn(10); {
	case k < 2:
		rate = 1
	case k < 5:
		rate = uint64(1 + r.Intn(1<<30))
	case k < 6:
		rate = ^uint64(0) - uint64(r.Intn(2))
	}
	need := map[string]*big.Int{"nhash": new(big.Int).Set(feePayBase.BigInt()), "hotdog": new(big.Int)}
	type cfgEnt struct {
		den string
		amt *big.Int
	}
	cfgOf := map[string]cfgEnt{}
	var cfg []string
	for _, t := range types {
		if !r.Chance(65) {
			continue
		}
		den := "nhash"
		if r.Chance(40) {
			den = "hotdog"
		}
		amt := feePayGenAmt(r, 200)
		rc := pick()
		bs, _ := feePayGenBips(r, false)
		if rc == "-" && !r.Chance(10) {
			bs = "d"
		}
		ent := fmt.Sprintf("%s:%s:%s:%s:%s", t, den, amt, bs, rc)
		if r.Chance(30) {
			ent += ":u"
			out.Count("paytx:cfg:update")
		}
		out.Count("paytx:cfgbips:" + feePayBipsClass(bs))
		cfg = append(cfg, ent)
		cfgOf[t] = cfgEnt{den, amt}
	}
	n := 1 + r.Intn(6)
	var msgs []string
	kinds := map[string]bool{}
	for i := 0; i < n; i++ {
		t := types[r.Intn(len(types))]
		kinds[t] = true
		if c, ok := cfgOf[t]; ok {
			need[c.den].Add(need[c.den], c.amt)
		}
		if t != "assess" {
			msgs = append(msgs, t)
			continue
		}
		den := "nhash"
		amt := feePayGenAmt(r, 200)
		if r.Chance(40) {
			den = "usd"
			amt = feePayGenAmt(r, 130)
			need["nhash"].Add(need["nhash"], new(big.Int).Mul(amt, new(big.Int).SetUint64(rate)))
		} else {
			need["nhash"].Add(need["nhash"], amt)
		}
		rc := pick()
		bs, _ := feePayGenBips(r, true)
		if rc == "-" && !r.Chance(10) {
			bs = "d"
		}
		out.Count("paytx:assessbips:" + feePayBipsClass(bs))
		msgs = append(msgs, fmt.Sprintf("assess:%s:%s:%s:%s", den, amt, bs, rc))
	}
	out.Count(fmt.Sprintf("paytx:msgs:%d", n))
	out.Count(fmt.Sprintf("paytx:msgtypes:%d", len(kinds)))
	out.Count(fmt.Sprintf("paytx:pool:%d", len(pool)))
	if r.Chance(30) {
		td := feePayDenoms[r.Intn(2)]
		need[td].Add(need[td], big.NewInt(int64(1+r.Intn(100000))))
		out.Count("paytx:tip")
	}
	var fee []string
	for _, d := range []string{"hotdog", "nhash"} {
		if need[d].Sign() > 0 {
			fee = append(fee, need[d].String()+d)
		}
	}
	out.Count("op:paytx")
	return fmt.Sprintf("paytx rate=%d base=%s cfg=%s msgs=%s fee=%s", rate, feePayBase, JoinOr(cfg, "|"), strings.Join(msgs, ","), JoinOr(fee, ","))
}

func feePayBipsClass(s string) string {
	switch {
	case s == "d":
		return "default"
	case strings.Trim(s, "0") == "":
		return "zero"
	case s[0] == '0':
		return "padded"
	case len(s) > 5 || (len(s) == 5 && s > "10000"):
		return "gt10000"
	case s == "10000":
		return "10000"
	}
	return "mid"
}
