package harness

// Model "vowner" (C09): a scope has one value owner, changed only with the current owner's
// consent.  Drives the REAL metadata MsgServer (WriteScope, DeleteScope, UpdateValueOwners,
// MigrateValueOwner) and the REAL bank MsgServer (MsgSend of scope tokens) of a full app with
// real bank, authz, marker and account keepers.  Scopes are written both as plain scopes and
// with require_party_rollup, with required and optional parties ("B?" in op lines), and the
// value owner is often one of the scope's own parties (optional ones included).  After every
// operation it dumps, per scope: existence, parties (with optional marks) and the roll-up flag
// (metadata store), the value owner per GetScopeValueOwner, and the
// bank's holders and supply of the scope denom; plus the authz grants (with the uses a count
// authorization has left), the marker permissions in force and each marker's lifecycle status
// (proposed / finalized / active / cancelled / destroyed: a marker account can hold scope
// tokens in every one of them).  The Lean driver compares the dumps with the model and runs the property's step
// checker on consecutive implementation dumps.
//
// Route dimension: a message op with the suffix `tx=own` / `tx=fg.<granter>` is not handed to its
// msg server but delivered as a signed transaction (deliver(): real signatures, fees paid by the
// first signer or by a fee granter under an x/feegrant allowance, the app's ante handler, the
// context it returns carried into the message, the app's message service router).  The model
// ignores the suffix: who pays the fees must not change who has to consent.
// `mkadd` asks the marker module for a marker on the denom of a scope token (always refused).

import (
	"fmt"
	"sort"
	"strings"
	"sync"
	"testing"
	"time"

	sdkmath "cosmossdk.io/math"
	"cosmossdk.io/x/feegrant"

	clienttx "github.com/cosmos/cosmos-sdk/client/tx"
	"github.com/cosmos/cosmos-sdk/crypto/keys/secp256k1"
	sdk "github.com/cosmos/cosmos-sdk/types"
	"github.com/cosmos/cosmos-sdk/types/tx/signing"
	authsigning "github.com/cosmos/cosmos-sdk/x/auth/signing"
	authtypes "github.com/cosmos/cosmos-sdk/x/auth/types"
	"github.com/cosmos/cosmos-sdk/x/authz"
	bankkeeper "github.com/cosmos/cosmos-sdk/x/bank/keeper"
	banktypes "github.com/cosmos/cosmos-sdk/x/bank/types"
	"github.com/google/uuid"

	"github.com/provenance-io/provenance/app"
	"github.com/provenance-io/provenance/x/exchange"
	exchangekeeper "github.com/provenance-io/provenance/x/exchange/keeper"
	markerkeeper "github.com/provenance-io/provenance/x/marker/keeper"
	markertypes "github.com/provenance-io/provenance/x/marker/types"
	metadatakeeper "github.com/provenance-io/provenance/x/metadata/keeper"
	mdtypes "github.com/provenance-io/provenance/x/metadata/types"
)

func init() {
	drivers["vowner"] = driveVowner
	replayers["vowner"] = replayVowner
}

var (
	vownerAccts   = []string{"A", "B", "C", "D", "E"} // ordinary accounts (non-zero sequence)
	vownerMarkers = []string{"MR", "MU"}               // restricted / unrestricted marker accounts
	vownerAll     = []string{"A", "B", "C", "D", "E", "K", "MR", "MU", "MOD", "FEE"}
	vownerIDs     = []string{"s1", "s2", "s3", "s4"}
	vownerMTs     = []string{"write", "delete", "updvo", "migrate"}
	// ordinary (non-scope) coin denoms: the model's `ordinaryDenoms`
	vownerCoins   = map[string]string{"$c": "vowncoinc", "$d": "vowncoind", "$nhash": "vownhash"}
	vownerStatus  = map[string]markertypes.MarkerStatus{
		"proposed": markertypes.StatusProposed, "finalized": markertypes.StatusFinalized, "active": markertypes.StatusActive,
		"cancelled": markertypes.StatusCancelled, "destroyed": markertypes.StatusDestroyed,
	}
	vownerMTURL   = map[string]string{
		"write":   mdtypes.TypeURLMsgWriteScopeRequest,
		"delete":  mdtypes.TypeURLMsgDeleteScopeRequest,
		"updvo":   mdtypes.TypeURLMsgUpdateValueOwnersRequest,
		"migrate": mdtypes.TypeURLMsgMigrateValueOwnerRequest,
	}
)

const vownerMarket = uint32(1)

type vownerOrder struct {
	id            uint64
	seller, asset string
	price         int64
}

// orders lists the exchange's ask orders (ascending order id) with symbolic seller / asset names.
func (e *vownerEnv) orders() []vownerOrder {
	var res []vownerOrder
	_ = e.app.ExchangeKeeper.IterateOrders(e.ctx, func(o *exchange.Order) bool {
		ask := o.GetAskOrder()
		if ask == nil {
			res = append(res, vownerOrder{id: o.OrderId, seller: "?", asset: "?"})
			return false
		}
		asset := "?"
		for n, id := range e.scope {
			if id.Denom() == ask.Assets.Denom && ask.Assets.Amount.Equal(sdkmath.OneInt()) {
				asset = n
			}
		}
		price := int64(-1)
		if ask.Price.Denom == vownerCoins["$c"] && ask.Price.Amount.IsInt64() {
			price = ask.Price.Amount.Int64()
		}
		res = append(res, vownerOrder{id: o.OrderId, seller: e.sym(ask.Seller), asset: asset, price: price})
		return false
	})
	sort.Slice(res, func(i, j int) bool { return res[i].id < res[j].id })
	return res
}

type vownerEnv struct {
	t     *testing.T
	app   *app.App
	base  sdk.Context
	ctx   sdk.Context
	addr  map[string]sdk.AccAddress
	name  map[string]string // bech32 -> symbolic
	scope map[string]mdtypes.MetadataAddress
	spec  mdtypes.MetadataAddress
	md    mdtypes.MsgServer
	bank  banktypes.MsgServer
	mk    markertypes.MsgServer
	ex    exchange.MsgServer
	mdnm  map[string]string // marker name -> its denom
	priv  map[string]*secp256k1.PrivKey // signing keys of the ordinary accounts (transactions through the ante handler)
	seen  map[vownerGrant]bool // generator only: every grant that was in force at some step of this history
}

var (
	vownerOnce sync.Once
	vownerE    *vownerEnv
)

func vownerSetup(t *testing.T) *vownerEnv {
	vownerOnce.Do(func() {
		a, ctx := NewApp(t)
		ctx = ctx.WithBlockTime(time.Unix(1_700_000_000, 0))
		e := &vownerEnv{t: t, app: a, addr: map[string]sdk.AccAddress{}, name: map[string]string{}, scope: map[string]mdtypes.MetadataAddress{}, mdnm: map[string]string{}, priv: map[string]*secp256k1.PrivKey{}}
		reg := func(n string, ad sdk.AccAddress) {
			e.addr[n] = ad
			e.name[ad.String()] = n
		}
		for _, n := range vownerAccts {
			// ordinary accounts have a key pair (they sign the transactions of the `tx=` mode), a public
			// key on record and a non-zero sequence
			pk := secp256k1.GenPrivKeyFromSecret([]byte("verif_vown_account_" + n))
			ad := sdk.AccAddress(pk.PubKey().Address())
			e.priv[n] = pk
			reg(n, ad)
			acc := a.AccountKeeper.NewAccountWithAddress(ctx, ad)
			_ = acc.SetPubKey(pk.PubKey())
			_ = acc.SetSequence(7)
			a.AccountKeeper.SetAccount(ctx, acc)
		}
		// every ordinary account can pay transaction fees (own fees, or somebody else's under a fee allowance)
		feeDenom := vownerFeeDenom(a, ctx)
		for _, n := range vownerAccts {
			coins := sdk.NewCoins(sdk.NewCoin(feeDenom, sdkmath.NewInt(1_000_000_000_000_000_000)))
			if err := a.BankKeeper.MintCoins(ctx, "mint", coins); err != nil {
				t.Fatalf("mint fee coins: %v", err)
			}
			if err := a.BankKeeper.SendCoinsFromModuleToAccount(ctx, "mint", e.addr[n], coins); err != nil {
				t.Fatalf("fund fee coins: %v", err)
			}
		}
		// K: a BaseAccount with sequence 0 and no public key — what metadata's isWasmAccount
		// takes for a smart contract.
		k := sdk.AccAddress([]byte("verif_vown_contract_K"))
		reg("K", k)
		a.AccountKeeper.SetAccount(ctx, a.AccountKeeper.NewAccountWithAddress(ctx, k))
		// markers
		for _, m := range []struct {
			n, denom string
			typ      markertypes.MarkerType
		}{{"MR", "vownrestricted", markertypes.MarkerType_RestrictedCoin}, {"MU", "vownunrestricted", markertypes.MarkerType_Coin}} {
			ad := markertypes.MustGetMarkerAddress(m.denom)
			reg(m.n, ad)
			e.mdnm[m.n] = m.denom
			// a manager and a declared supply: what MarkerAccount.Validate asks of a marker that is
			// proposed or finalized (the mstatus op walks the markers through every lifecycle status)
			ma := markertypes.NewMarkerAccount(authtypes.NewBaseAccountWithAddress(ad), sdk.NewInt64Coin(m.denom, 1000),
				sdk.AccAddress([]byte("verif_vown_mkmanager")), nil, markertypes.StatusActive, m.typ, false, false, false, nil)
			if err := a.MarkerKeeper.AddMarkerAccount(ctx, ma); err != nil {
				t.Fatalf("add marker %s: %v", m.n, err)
			}
		}
		reg("MOD", authtypes.NewModuleAddress(mdtypes.ModuleName))
		reg("FEE", authtypes.NewModuleAddress(authtypes.FeeCollectorName))
		// scope specification (parties involved: OWNER) and scope ids
		e.spec = mdtypes.ScopeSpecMetadataAddress(uuid.MustParse("c0900000-0000-4000-8000-000000000099"))
		a.MetadataKeeper.SetScopeSpecification(ctx, *mdtypes.NewScopeSpecification(e.spec, nil,
			[]string{e.addr["A"].String()}, []mdtypes.PartyType{mdtypes.PartyType_PARTY_TYPE_OWNER}, nil))
		for i, n := range vownerIDs {
			e.scope[n] = mdtypes.ScopeMetadataAddress(uuid.MustParse(fmt.Sprintf("c0900000-0000-4000-8000-00000000000%d", i+1)))
		}
		e.base = ctx
		e.md = metadatakeeper.NewMsgServerImpl(a.MetadataKeeper)
		e.bank = bankkeeper.NewMsgServerImpl(a.BankKeeper)
		e.mk = markerkeeper.NewMsgServerImpl(a.MarkerKeeper)
		// one exchange market: accepting orders, user settlement allowed, no fees, no required attributes
		if _, err := a.ExchangeKeeper.CreateMarket(ctx, exchange.Market{MarketId: vownerMarket, MarketDetails: exchange.MarketDetails{Name: "vowner market"},
			AcceptingOrders: true, AllowUserSettlement: true}); err != nil {
			t.Fatalf("create market: %v", err)
		}
		e.ex = exchangekeeper.NewMsgServer(a.ExchangeKeeper)
		vownerE = e
	})
	vownerE.t = t
	return vownerE
}

func (e *vownerEnv) newHistory() {
	e.ctx, _ = e.base.CacheContext()
	e.seen = map[vownerGrant]bool{}
}

func (e *vownerEnv) sym(bech string) string {
	if bech == "" {
		return "-"
	}
	if n, ok := e.name[bech]; ok {
		return n
	}
	return "?"
}

// symParty renders a party: its symbolic address, with a trailing "?" when it is optional.
func (e *vownerEnv) symParty(p mdtypes.Party) string {
	if p.Optional {
		return e.sym(p.Address) + "?"
	}
	return e.sym(p.Address)
}

func (e *vownerEnv) bech(n string) string {
	if n == "-" || n == "" {
		return ""
	}
	if ad, ok := e.addr[n]; ok {
		return ad.String()
	}
	return "not-an-address-" + n
}

func (e *vownerEnv) bechs(list string) []string {
	var res []string
	for _, n := range vownerSplit(list) {
		res = append(res, e.bech(n))
	}
	return res
}

func vownerSplit(s string) []string {
	if s == "-" || s == "" {
		return nil
	}
	return strings.Split(s, "|")
}

// vownerClass maps an error to its class by message (table reviewed against the Go sources).
func vownerClass(err error) string {
	if err == nil {
		return "ok"
	}
	m := err.Error()
	has := func(s string) bool { return strings.Contains(m, s) }
	switch {
	case has("has more than one owner"):
		return "err:state"
	case has("but does not have the PROVENANCE role"), has("has role PROVENANCE but is not a smart contract"):
		return "err:provrole"
	case has("smart contract signer"):
		return "err:contract"
	case has("missing signature"), has("missing required signature"):
		return "err:sig"
	case has("missing signers for roles required by spec"):
		return "err:roles"
	case has("is not allowed to receive funds"):
		return "err:blocked"
	case has("from a marker that is not in Active status"):
		return "err:status"
	case has("ACCESS_WITHDRAW"), has("cannot withdraw from marker account"):
		return "err:withdraw"
	case has("ACCESS_DEPOSIT"):
		return "err:deposit"
	case has("insufficient funds"), has("is smaller than"), has("is less than hold amount"):
		return "err:funds"
	case has("does not have permission to cancel order"):
		return "err:perm"
	case has("order") && (has("not found") || has("does not exist")):
		return "err:notfound"
	case has("has the same seller"), has("does not equal sum of ask order prices"), has("fails unrestricted marker denom validation"):
		return "err:invalid"
	case has("duplicate metadata address"):
		return "err:dup"
	case has("no account address associated with metadata address"):
		return "err:novo"
	case has("already has the proposed value owner"), has("already have the proposed value owner"):
		return "err:same"
	case has("scope not found"), has("no scopes found"), has("authorization not found"), has("marker not found"):
		return "err:notfound"
	case has("at least one"), has("invalid coins"), has("invalid from address"), has("invalid to address"), has("invalid scope owners"), has("invalid value owner address"),
		has("invalid existing value owner address"), has("invalid proposed value owner address"):
		return "err:invalid"
	default:
		return "err:other"
	}
}

func (e *vownerEnv) signersOK(msg sdk.Msg, want []string) bool {
	signers, _, err := e.app.AppCodec().GetMsgV1Signers(msg)
	if err != nil || len(signers) != len(want) {
		return false
	}
	for i, s := range signers {
		if sdk.AccAddress(s).String() != want[i] {
			return false
		}
	}
	return true
}

// vownerFeeDenom: the denom transaction fees are paid in (the floor gas price's denom).
func vownerFeeDenom(a *app.App, ctx sdk.Context) string {
	if d := a.MsgFeesKeeper.GetFloorGasPrice(ctx).Denom; d != "" {
		return d
	}
	return "nhash"
}

const vownerTxGas = uint64(4_000_000) // the most a transaction may ask for (antewrapper gasTxLimit)

// deliver runs msg the way baseapp.runTx delivers a transaction: the message is put in a
// transaction signed by its signers (real keys, the accounts' current sequences) with the fees paid
// by the first signer (txm "own") or by `fg.<granter>` under a fee allowance the granter gave the
// first signer (x/feegrant BasicAllowance, set up here: the op's meaning is "there is such an
// allowance"); the encoded transaction is decoded again, the APP'S ANTE HANDLER runs on a branch of
// the history's store, THE CONTEXT IT RETURNS (on the history's store) is the one the message runs
// in — baseapp.go:919-928 — and the message is handed to the app's message service router on a
// second branch that is written only when the handler succeeds (baseapp.go:966-1008).  What the ante
// handler wrote (fees, sequences) stays when the message fails, as on the chain; neither is part of
// the dump.  The fees never involve a scope denom.
func (e *vownerEnv) deliver(msg sdk.Msg, signers []string, txm string) string {
	var names []string
	for _, sg := range signers {
		n, ok := e.name[sg]
		if !ok || e.priv[n] == nil {
			return "err:tx-signer"
		}
		names = append(names, n)
	}
	if len(names) == 0 {
		return "err:tx-signer"
	}
	var granter sdk.AccAddress
	switch {
	case txm == "own":
	case strings.HasPrefix(txm, "fg."):
		g, ok := e.addr[txm[3:]]
		if !ok {
			return "bad-op"
		}
		granter = g
		if al, _ := e.app.FeeGrantKeeper.GetAllowance(e.ctx, granter, e.addr[names[0]]); al == nil {
			if err := e.app.FeeGrantKeeper.GrantAllowance(e.ctx, granter, e.addr[names[0]], &feegrant.BasicAllowance{}); err != nil {
				return "err:tx-allowance"
			}
		}
	default:
		return "bad-op"
	}
	cfg := e.app.GetTxConfig()
	b := cfg.NewTxBuilder()
	if err := b.SetMsgs(msg); err != nil {
		return "err:tx-build"
	}
	price := e.app.MsgFeesKeeper.GetFloorGasPrice(e.ctx).Amount
	if price.IsNil() || !price.IsPositive() {
		price = sdkmath.OneInt()
	}
	b.SetGasLimit(vownerTxGas)
	b.SetFeeAmount(sdk.NewCoins(sdk.NewCoin(vownerFeeDenom(e.app, e.ctx), price.MulRaw(int64(vownerTxGas)))))
	if granter != nil {
		b.SetFeeGranter(granter)
	}
	mode := signing.SignMode(cfg.SignModeHandler().DefaultMode())
	sigs := make([]signing.SignatureV2, len(names))
	accN := make([]uint64, len(names))
	for i, n := range names {
		acc := e.app.AccountKeeper.GetAccount(e.ctx, e.addr[n])
		if acc == nil {
			return "err:tx-signer"
		}
		accN[i] = acc.GetAccountNumber()
		sigs[i] = signing.SignatureV2{PubKey: e.priv[n].PubKey(), Data: &signing.SingleSignatureData{SignMode: mode}, Sequence: acc.GetSequence()}
	}
	if err := b.SetSignatures(sigs...); err != nil {
		return "err:tx-build"
	}
	for i, n := range names {
		sd := authsigning.SignerData{Address: e.addr[n].String(), ChainID: e.ctx.ChainID(), AccountNumber: accN[i], Sequence: sigs[i].Sequence, PubKey: e.priv[n].PubKey()}
		sig, err := clienttx.SignWithPrivKey(e.ctx, mode, sd, b, e.priv[n], cfg, sigs[i].Sequence)
		if err != nil {
			return "err:tx-sign"
		}
		sigs[i] = sig
	}
	if err := b.SetSignatures(sigs...); err != nil {
		return "err:tx-build"
	}
	bz, err := cfg.TxEncoder()(b.GetTx())
	if err != nil {
		return "err:tx-build"
	}
	tx, err := cfg.TxDecoder()(bz)
	if err != nil || len(tx.GetMsgs()) != 1 {
		return "err:tx-build"
	}
	res := ""
	func() {
		defer func() {
			if r := recover(); r != nil {
				res = "panic:" + panicClass(sprint(r))
			}
		}()
		ctx := e.ctx.WithTxBytes(bz)
		ms := ctx.MultiStore()
		anteCtx, anteWrite := ctx.CacheContext()
		newCtx, err := e.app.BaseApp.AnteHandler()(anteCtx, tx, false)
		if !newCtx.IsZero() {
			ctx = newCtx.WithMultiStore(ms)
		}
		if err != nil {
			e.t.Logf("vowner: ante handler refused %T: %v", msg, err)
			res = "err:ante"
			return
		}
		anteWrite()
		m := tx.GetMsgs()[0]
		handler := e.app.MsgServiceRouter().Handler(m)
		if handler == nil {
			res = "err:noroute"
			return
		}
		msgCtx, msgWrite := ctx.CacheContext()
		if _, err := handler(msgCtx, m); err != nil {
			res = vownerClass(err)
			return
		}
		msgWrite()
		res = "ok"
	}()
	return res
}

// vownerOpSigners: the (symbolic) signers of a message op; false for ops that are not messages.
func vownerOpSigners(ws []string) ([]string, bool) {
	switch ws[0] {
	case "write", "delete", "updvo", "migrate":
		return vownerSplit(kvArg2(ws, "signers")), true
	case "send", "msend":
		return []string{kvArg2(ws, "from")}, true
	case "mwithdraw", "mtransfer":
		return []string{kvArg2(ws, "admin")}, true
	case "ask":
		return []string{kvArg2(ws, "seller")}, true
	case "fill":
		return []string{kvArg2(ws, "buyer")}, true
	case "cancel", "mkadd":
		return []string{kvArg2(ws, "signer")}, true
	}
	return nil, false
}

func (e *vownerEnv) run(msg sdk.Msg, signers []string, txm string, f func(ctx sdk.Context) error) string {
	type vb interface{ ValidateBasic() error }
	if v, ok := msg.(vb); ok {
		if err := v.ValidateBasic(); err != nil {
			return "err:invalid"
		}
	}
	if !e.signersOK(msg, signers) {
		return "err:signer-mismatch"
	}
	if txm != "" {
		return e.deliver(msg, signers, txm)
	}
	err, pan := Try(e.ctx, f)
	if pan != "" {
		return "panic:" + pan
	}
	return vownerClass(err)
}

func kvArg2(ws []string, k string) string {
	for _, w := range ws {
		if strings.HasPrefix(w, k+"=") {
			return w[len(k)+1:]
		}
	}
	return ""
}

func (e *vownerEnv) marker(n string) *markertypes.MarkerAccount {
	m, err := e.app.MarkerKeeper.GetMarker(e.ctx, e.addr[n])
	if err != nil || m == nil {
		return nil
	}
	return m.(*markertypes.MarkerAccount)
}

func (e *vownerEnv) dump() string {
	var parts []string
	for _, n := range vownerIDs {
		id := e.scope[n]
		sc, found := e.app.MetadataKeeper.GetScope(e.ctx, id)
		owners := []string{}
		if found {
			for _, p := range sc.Owners {
				owners = append(owners, e.symParty(p))
			}
			sort.Strings(owners)
		}
		roll := "0"
		if found && sc.RequirePartyRollup {
			roll = "1"
		}
		vo := "-"
		if ad, err := e.app.MetadataKeeper.GetScopeValueOwner(e.ctx, id); err != nil {
			vo = "!"
		} else if len(ad) > 0 {
			vo = e.sym(ad.String())
		}
		denom := id.Denom()
		supply := e.app.BankKeeper.GetSupply(e.ctx, denom).Amount
		sum := sdkmath.ZeroInt()
		var hs []string
		for _, an := range vownerAll {
			b := e.app.BankKeeper.GetBalance(e.ctx, e.addr[an], denom).Amount
			if !b.IsZero() {
				hs = append(hs, an+"*"+b.String())
				sum = sum.Add(b)
			}
		}
		if !sum.Equal(supply) {
			hs = append(hs, "?*"+supply.Sub(sum).String())
		}
		sort.Strings(hs)
		ex := "0"
		if found {
			ex = "1"
		}
		// the query side: the Scope query's value owner, and whose ValueOwnership query lists the scope
		qvo := "-"
		if resp, err := e.app.MetadataKeeper.Scope(e.ctx, &mdtypes.ScopeRequest{ScopeId: id.String()}); err == nil && resp != nil && resp.Scope != nil && resp.Scope.Scope != nil {
			if a := resp.Scope.Scope.ValueOwnerAddress; a != "" {
				qvo = e.sym(a)
			}
		}
		var listed []string
		uid, _ := id.ScopeUUID()
		for _, an := range vownerAll {
			resp, err := e.app.MetadataKeeper.ValueOwnership(e.ctx, &mdtypes.ValueOwnershipRequest{Address: e.addr[an].String()})
			if err != nil || resp == nil {
				listed = append(listed, "!"+an)
				continue
			}
			for _, u := range resp.ScopeUuids {
				if u == uid.String() {
					listed = append(listed, an)
				}
			}
		}
		sort.Strings(listed)
		parts = append(parts, fmt.Sprintf("%s=%s;%s;%s;%s;%s;%s;%s;%s", n, ex, JoinOr(owners, "|"), vo, JoinOr(hs, "|"), supply.String(), qvo, JoinOr(listed, "|"), roll))
	}
	var gs []string
	urlMT := map[string]string{}
	for k, v := range vownerMTURL {
		urlMT[v] = k
	}
	e.app.AuthzKeeper.IterateGrants(e.ctx, func(granter, grantee sdk.AccAddress, g authz.Grant) bool {
		a, err := g.GetAuthorization()
		if err != nil {
			return false
		}
		mt, ok := urlMT[a.MsgTypeURL()]
		if !ok {
			return false
		}
		cnt := int32(0)
		if ca, isCount := a.(*authz.CountAuthorization); isCount {
			cnt = ca.AllowedAuthorizations
		}
		gs = append(gs, fmt.Sprintf("%s>%s:%s:%d", e.sym(granter.String()), e.sym(grantee.String()), mt, cnt))
		return false
	})
	sort.Strings(gs)
	var ms []string
	for _, mn := range vownerMarkers {
		m := e.marker(mn)
		if m == nil {
			continue
		}
		var acc []string
		for _, ag := range m.AccessControl {
			for _, p := range ag.Permissions {
				switch p {
				case markertypes.Access_Withdraw:
					acc = append(acc, e.sym(ag.Address)+".withdraw")
				case markertypes.Access_Deposit:
					acc = append(acc, e.sym(ag.Address)+".deposit")
				}
			}
		}
		sort.Strings(acc)
		r := "0"
		if m.MarkerType == markertypes.MarkerType_RestrictedCoin {
			r = "1"
		}
		st := "?"
		for k, v := range vownerStatus {
			if v == m.Status {
				st = k
			}
		}
		ms = append(ms, fmt.Sprintf("%s:%s:%s:%s", mn, r, st, JoinOr(acc, "+")))
	}
	sort.Strings(ms)
	var os []string
	for _, o := range e.orders() {
		os = append(os, fmt.Sprintf("%d:%s:%s:%d", o.id, o.seller, o.asset, o.price))
	}
	var hs []string
	for _, an := range vownerAll {
		for _, n := range vownerIDs {
			c, err := e.app.HoldKeeper.GetHoldCoin(e.ctx, e.addr[an], e.scope[n].Denom())
			if err != nil {
				hs = append(hs, "!"+an+"."+n)
				continue
			}
			for i := int64(0); c.Amount.IsInt64() && i < c.Amount.Int64(); i++ {
				hs = append(hs, an+"."+n)
			}
		}
	}
	sort.Strings(hs)
	return strings.Join(parts, " ") + " grants=" + JoinOr(gs, ",") + " markers=" + JoinOr(ms, ",") + " orders=" + JoinOr(os, ",") + " holds=" + JoinOr(hs, ",")
}

// coinsOf: one unit of each named denom (scope ids map to their scope denom, `$…` names to ordinary coins), sorted.
func (e *vownerEnv) coinsOf(names []string) (sdk.Coins, bool) {
	var coins sdk.Coins
	for _, n := range names {
		if d, ok := vownerCoins[n]; ok {
			coins = append(coins, sdk.NewInt64Coin(d, 1))
			continue
		}
		id, ok := e.scope[n]
		if !ok {
			return nil, false
		}
		coins = append(coins, id.Coin())
	}
	sort.Slice(coins, func(i, j int) bool { return coins[i].Denom < coins[j].Denom })
	return coins, true
}

// exec runs one op line on the real code and returns the canonical output.
func (e *vownerEnv) exec(op string) string {
	ws := strings.Fields(op)
	if len(ws) == 0 {
		return "bad-op"
	}
	txm := kvArg2(ws, "tx") // "" = the message goes straight to its msg server; own / fg.<granter> = delivered in a signed tx
	switch ws[0] {
	case "dump":
		return e.dump()
	case "denom":
		id, ok := e.scope[ws[1]]
		if !ok {
			return "bad-op"
		}
		back, err := mdtypes.MetadataAddressFromDenom(id.Denom())
		if err != nil || !back.Equals(id) || !strings.HasPrefix(id.Denom(), "nft/scope1") || !id.Coin().Amount.Equal(sdkmath.OneInt()) || id.Coin().Denom != id.Denom() {
			return "err:denom"
		}
		return "ok"
	case "bal": // bank balance of any denom (pure)
		n := kvArg2(ws, "denom")
		d, ok := vownerCoins[n]
		if !ok {
			id, ok2 := e.scope[n]
			if !ok2 {
				return "bad-op"
			}
			d = id.Denom()
		}
		a, ok := e.addr[kvArg2(ws, "addr")]
		if !ok {
			return "bad-op"
		}
		return "ok " + e.app.BankKeeper.GetBalance(e.ctx, a, d).Amount.String()
	case "fund": // ordinary coins arriving at an (ordinary) account
		d, ok := vownerCoins[kvArg2(ws, "denom")]
		a, ok2 := e.addr[kvArg2(ws, "addr")]
		amt, ok3 := sdkmath.NewIntFromString(kvArg2(ws, "amount"))
		if !ok2 {
			return "bad-op"
		}
		if !ok || !ok3 || !amt.IsPositive() {
			return "err:invalid"
		}
		coins := sdk.NewCoins(sdk.NewCoin(d, amt))
		err, pan := Try(e.ctx, func(ctx sdk.Context) error {
			if err := e.app.BankKeeper.MintCoins(ctx, "mint", coins); err != nil {
				return err
			}
			return e.app.BankKeeper.SendCoinsFromModuleToAccount(ctx, "mint", a, coins)
		})
		if pan != "" {
			return "panic:" + pan
		}
		return vownerClass(err)
	case "ask": // exchange MsgCreateAsk: one unit of a scope token for `price` $c, signed by the seller
		id, ok := e.scope[kvArg2(ws, "asset")]
		if !ok {
			return "err:invalid" // the model's asks name scope tokens only (not generated otherwise)
		}
		var price int64
		fmt.Sscan(kvArg2(ws, "price"), &price)
		seller := e.bech(kvArg2(ws, "seller"))
		msg := &exchange.MsgCreateAskRequest{AskOrder: exchange.AskOrder{MarketId: vownerMarket, Seller: seller, Assets: id.Coin(),
			Price: sdk.NewInt64Coin(vownerCoins["$c"], price)}}
		return e.run(msg, []string{seller}, txm, func(ctx sdk.Context) error { _, err := e.ex.CreateAsk(ctx, msg); return err })
	case "fill": // exchange MsgFillAsks of one ask order, signed by the buyer
		var oid uint64
		var price int64
		fmt.Sscan(kvArg2(ws, "order"), &oid)
		fmt.Sscan(kvArg2(ws, "price"), &price)
		buyer := e.bech(kvArg2(ws, "buyer"))
		msg := &exchange.MsgFillAsksRequest{Buyer: buyer, MarketId: vownerMarket, TotalPrice: sdk.NewInt64Coin(vownerCoins["$c"], price), AskOrderIds: []uint64{oid}}
		return e.run(msg, []string{buyer}, txm, func(ctx sdk.Context) error { _, err := e.ex.FillAsks(ctx, msg); return err })
	case "cancel": // exchange MsgCancelOrder
		var oid uint64
		fmt.Sscan(kvArg2(ws, "order"), &oid)
		signer := e.bech(kvArg2(ws, "signer"))
		msg := &exchange.MsgCancelOrderRequest{Signer: signer, OrderId: oid}
		return e.run(msg, []string{signer}, txm, func(ctx sdk.Context) error { _, err := e.ex.CancelOrder(ctx, msg); return err })
	case "msend": // bank MsgMultiSend: one input (the signer), one unit of each named denom per output
		from := e.bech(kvArg2(ws, "from"))
		var outs []banktypes.Output
		var total sdk.Coins
		bad := false
		if o := kvArg2(ws, "outs"); o != "-" && o != "" {
			for _, w := range strings.Split(o, ",") {
				parts := strings.SplitN(w, ":", 2)
				if len(parts) != 2 {
					return "bad-op"
				}
				coins, ok := e.coinsOf(vownerSplit(parts[1]))
				if !ok {
					return "bad-op"
				}
				if len(coins) == 0 || !coins.IsValid() {
					bad = true
				}
				outs = append(outs, banktypes.Output{Address: e.bech(parts[0]), Coins: coins})
				for _, c := range coins {
					total = total.Add(c)
				}
			}
		}
		if bad { // Output.ValidateBasic: invalid coins (cannot even be summed into an input)
			return "err:invalid"
		}
		msg := &banktypes.MsgMultiSend{Inputs: []banktypes.Input{{Address: from, Coins: total}}, Outputs: outs}
		return e.run(msg, []string{from}, txm, func(ctx sdk.Context) error { _, err := e.bank.MultiSend(ctx, msg); return err })
	case "mtransfer": // marker MsgTransfer of a scope token
		id, ok := e.scope[kvArg2(ws, "id")]
		if !ok {
			return "bad-op"
		}
		admin := e.bech(kvArg2(ws, "admin"))
		msg := &markertypes.MsgTransferRequest{Amount: id.Coin(), Administrator: admin, FromAddress: e.bech(kvArg2(ws, "from")), ToAddress: e.bech(kvArg2(ws, "to"))}
		return e.run(msg, []string{admin}, txm, func(ctx sdk.Context) error { _, err := e.mk.Transfer(ctx, msg); return err })
	case "mkadd": // marker MsgAddFinalizeActivateMarker / MsgAddMarker for a marker on the denom of a scope token
		id, ok := e.scope[kvArg2(ws, "id")]
		supply, ok2 := sdkmath.NewIntFromString(kvArg2(ws, "supply"))
		if !ok || !ok2 {
			return "bad-op"
		}
		signer := e.bech(kvArg2(ws, "signer"))
		typ := markertypes.MarkerType_Coin
		perms := markertypes.AccessList{markertypes.Access_Admin, markertypes.Access_Mint, markertypes.Access_Burn, markertypes.Access_Deposit, markertypes.Access_Withdraw, markertypes.Access_Delete}
		if kvArg2(ws, "type") == "restricted" {
			typ = markertypes.MarkerType_RestrictedCoin
			perms = append(perms, markertypes.Access_Transfer, markertypes.Access_ForceTransfer)
		}
		forced := kvArg2(ws, "forced") == "1"
		access := []markertypes.AccessGrant{{Address: signer, Permissions: perms}}
		amount := sdk.Coin{Denom: id.Denom(), Amount: supply}
		if kvArg2(ws, "msg") == "add" { // a proposed marker (finalize / activate would follow)
			msg := &markertypes.MsgAddMarkerRequest{Amount: amount, Manager: signer, FromAddress: signer, Status: markertypes.StatusProposed,
				MarkerType: typ, AccessList: access, AllowForcedTransfer: forced}
			return e.run(msg, []string{signer}, txm, func(ctx sdk.Context) error { _, err := e.mk.AddMarker(ctx, msg); return err })
		}
		msg := &markertypes.MsgAddFinalizeActivateMarkerRequest{Amount: amount, Manager: signer, FromAddress: signer,
			MarkerType: typ, AccessList: access, AllowForcedTransfer: forced}
		return e.run(msg, []string{signer}, txm, func(ctx sdk.Context) error { _, err := e.mk.AddFinalizeActivateMarker(ctx, msg); return err })
	case "write":
		id, ok := e.scope[kvArg2(ws, "id")]
		if !ok {
			return "bad-op"
		}
		sc := mdtypes.Scope{ScopeId: id, SpecificationId: e.spec, ValueOwnerAddress: e.bech(kvArg2(ws, "vo")),
			RequirePartyRollup: kvArg2(ws, "roll") == "1"}
		for _, o := range vownerSplit(kvArg2(ws, "owners")) { // "B?" = optional party B
			opt := strings.HasSuffix(o, "?")
			sc.Owners = append(sc.Owners, mdtypes.Party{Address: e.bech(strings.TrimSuffix(o, "?")), Role: mdtypes.PartyType_PARTY_TYPE_OWNER, Optional: opt})
		}
		signers := e.bechs(kvArg2(ws, "signers"))
		msg := &mdtypes.MsgWriteScopeRequest{Scope: sc, Signers: signers}
		return e.run(msg, signers, txm, func(ctx sdk.Context) error { _, err := e.md.WriteScope(ctx, msg); return err })
	case "delete":
		id, ok := e.scope[kvArg2(ws, "id")]
		if !ok {
			return "bad-op"
		}
		signers := e.bechs(kvArg2(ws, "signers"))
		msg := &mdtypes.MsgDeleteScopeRequest{ScopeId: id, Signers: signers}
		return e.run(msg, signers, txm, func(ctx sdk.Context) error { _, err := e.md.DeleteScope(ctx, msg); return err })
	case "updvo":
		var ids []mdtypes.MetadataAddress
		for _, n := range vownerSplit(kvArg2(ws, "ids")) {
			id, ok := e.scope[n]
			if !ok {
				return "bad-op"
			}
			ids = append(ids, id)
		}
		signers := e.bechs(kvArg2(ws, "signers"))
		msg := &mdtypes.MsgUpdateValueOwnersRequest{ScopeIds: ids, ValueOwnerAddress: e.bech(kvArg2(ws, "vo")), Signers: signers}
		return e.run(msg, signers, txm, func(ctx sdk.Context) error { _, err := e.md.UpdateValueOwners(ctx, msg); return err })
	case "migrate":
		signers := e.bechs(kvArg2(ws, "signers"))
		msg := &mdtypes.MsgMigrateValueOwnerRequest{Existing: e.bech(kvArg2(ws, "from")), Proposed: e.bech(kvArg2(ws, "to")), Signers: signers}
		return e.run(msg, signers, txm, func(ctx sdk.Context) error { _, err := e.md.MigrateValueOwner(ctx, msg); return err })
	case "send":
		coins, ok := e.coinsOf(vownerSplit(kvArg2(ws, "ids")))
		if !ok {
			return "bad-op"
		}
		from := e.bech(kvArg2(ws, "from"))
		msg := &banktypes.MsgSend{FromAddress: from, ToAddress: e.bech(kvArg2(ws, "to")), Amount: coins}
		return e.run(msg, []string{from}, txm, func(ctx sdk.Context) error { _, err := e.bank.Send(ctx, msg); return err })
	case "mwithdraw":
		var coins sdk.Coins
		for _, n := range vownerSplit(kvArg2(ws, "ids")) {
			id, ok := e.scope[n]
			if !ok {
				return "bad-op"
			}
			coins = append(coins, id.Coin())
		}
		sort.Slice(coins, func(i, j int) bool { return coins[i].Denom < coins[j].Denom })
		if len(coins) == 0 {
			return "err:invalid" // not generated; the model rejects an empty list too
		}
		denom, ok := e.mdnm[kvArg2(ws, "marker")]
		if !ok {
			denom = "vownnosuchmarker"
		}
		admin := e.bech(kvArg2(ws, "admin"))
		msg := &markertypes.MsgWithdrawRequest{Denom: denom, Administrator: admin, ToAddress: e.bech(kvArg2(ws, "to")), Amount: coins}
		return e.run(msg, []string{admin}, txm, func(ctx sdk.Context) error { _, err := e.mk.Withdraw(ctx, msg); return err })
	case "grant":
		granter, grantee := e.addr[kvArg2(ws, "granter")], e.addr[kvArg2(ws, "grantee")]
		url, ok := vownerMTURL[kvArg2(ws, "mt")]
		if !ok || granter == nil || grantee == nil {
			return "bad-op"
		}
		var cnt int32
		fmt.Sscan(kvArg2(ws, "count"), &cnt)
		var a authz.Authorization = authz.NewGenericAuthorization(url)
		if cnt > 0 {
			a = authz.NewCountAuthorization(url, cnt)
		}
		err, pan := Try(e.ctx, func(ctx sdk.Context) error { return e.app.AuthzKeeper.SaveGrant(ctx, grantee, granter, a, nil) })
		if pan != "" {
			return "panic:" + pan
		}
		return vownerClass(err)
	case "revoke":
		granter, grantee := e.addr[kvArg2(ws, "granter")], e.addr[kvArg2(ws, "grantee")]
		url, ok := vownerMTURL[kvArg2(ws, "mt")]
		if !ok || granter == nil || grantee == nil {
			return "bad-op"
		}
		err, pan := Try(e.ctx, func(ctx sdk.Context) error { return e.app.AuthzKeeper.DeleteGrant(ctx, grantee, granter, url) })
		if pan != "" {
			return "panic:" + pan
		}
		return vownerClass(err)
	case "access":
		mn, an := kvArg2(ws, "marker"), kvArg2(ws, "addr")
		ad, ok := e.addr[an]
		if !ok {
			return "bad-op"
		}
		if _, isM := e.addr[mn]; !isM || !contains(vownerMarkers, mn) {
			return "err:notfound"
		}
		err, pan := Try(e.ctx, func(ctx sdk.Context) error {
			m, err := e.app.MarkerKeeper.GetMarker(ctx, e.addr[mn])
			if err != nil || m == nil {
				return fmt.Errorf("scope not found: marker")
			}
			ma := m.(*markertypes.MarkerAccount)
			var keep []markertypes.AccessGrant
			for _, ag := range ma.AccessControl {
				if ag.Address != ad.String() {
					keep = append(keep, ag)
				}
			}
			var perms []markertypes.Access
			for _, p := range vownerSplit(kvArg2(ws, "perms")) {
				switch p {
				case "withdraw":
					perms = append(perms, markertypes.Access_Withdraw)
				case "deposit":
					perms = append(perms, markertypes.Access_Deposit)
				}
			}
			if len(perms) > 0 {
				keep = append(keep, markertypes.AccessGrant{Address: ad.String(), Permissions: perms})
			}
			ma.AccessControl = keep
			e.app.MarkerKeeper.SetMarker(ctx, ma)
			return nil
		})
		if pan != "" {
			return "panic:" + pan
		}
		return vownerClass(err)
	case "mstatus":
		// the marker's lifecycle status changes; its access list, type and the coins of other denoms
		// in its account stay (what FinalizeMarker / ActivateMarker / CancelMarker / DeleteMarker do
		// to the account record)
		mn := kvArg2(ws, "marker")
		st, ok := vownerStatus[kvArg2(ws, "status")]
		if !ok {
			return "bad-op"
		}
		if _, isM := e.addr[mn]; !isM || !contains(vownerMarkers, mn) {
			return "err:notfound"
		}
		err, pan := Try(e.ctx, func(ctx sdk.Context) error {
			m, err := e.app.MarkerKeeper.GetMarker(ctx, e.addr[mn])
			if err != nil || m == nil {
				return fmt.Errorf("marker not found")
			}
			ma := m.(*markertypes.MarkerAccount)
			if err := ma.SetStatus(st); err != nil { // clears the manager of an active marker
				return err
			}
			if st < markertypes.StatusActive && ma.Manager == "" {
				// a marker that is not active yet has a manager (the creator of the proposed marker)
				ma.Manager = sdk.AccAddress([]byte("verif_vown_mkmanager")).String()
			}
			e.app.MarkerKeeper.SetMarker(ctx, ma)
			return nil
		})
		if pan != "" {
			return "panic:" + pan
		}
		return vownerClass(err)
	}
	return "bad-op"
}

func replayVowner(t *testing.T, ops []string, out *Out) {
	e := vownerSetup(t)
	e.newHistory()
	for _, op := range ops {
		if strings.HasPrefix(op, "#") {
			if strings.HasPrefix(op, "# history") {
				e.newHistory()
			}
			out.Comment(strings.TrimPrefix(strings.TrimPrefix(op, "#"), " "))
			continue
		}
		out.Emit(op, e.exec(op))
	}
}

// ---- generator ------------------------------------------------------------------------------

type vownerView struct {
	exists map[string]bool
	owners map[string][]string // parties as written in op lines: "A" required, "A?" optional
	rollup map[string]bool
	holder map[string]string // "" when none
}

// vownerAddrs strips the optional marks: the parties' addresses.
func vownerAddrs(parties []string) []string {
	var res []string
	for _, p := range parties {
		res = append(res, strings.TrimSuffix(p, "?"))
	}
	return res
}

// partiesNeed lists whose agreement the party validation of scope id asks for: every owner of a
// plain scope; of a roll-up scope the required parties, and when there is none one optional
// party (for the role); now and then a further optional party signs along.
func (v vownerView) partiesNeed(rng *RNG, id string) []string {
	if !v.rollup[id] {
		return vownerAddrs(v.owners[id])
	}
	var need, opts []string
	for _, p := range v.owners[id] {
		if strings.HasSuffix(p, "?") {
			opts = append(opts, strings.TrimSuffix(p, "?"))
		} else {
			need = append(need, p)
		}
	}
	if len(opts) > 0 && (len(need) == 0 || rng.Chance(20)) {
		need = append(need, Pick(rng, opts))
	}
	return need
}

// optionalParties lists the addresses of id's optional parties.
func (v vownerView) optionalParties(id string) []string {
	var res []string
	for _, p := range v.owners[id] {
		if strings.HasSuffix(p, "?") {
			res = append(res, strings.TrimSuffix(p, "?"))
		}
	}
	return res
}

func (e *vownerEnv) view() vownerView {
	v := vownerView{exists: map[string]bool{}, owners: map[string][]string{}, rollup: map[string]bool{}, holder: map[string]string{}}
	for _, n := range vownerIDs {
		sc, found := e.app.MetadataKeeper.GetScope(e.ctx, e.scope[n])
		v.exists[n] = found
		v.rollup[n] = found && sc.RequirePartyRollup
		for _, p := range sc.Owners {
			v.owners[n] = append(v.owners[n], e.symParty(p))
		}
		if ad, err := e.app.MetadataKeeper.GetScopeValueOwner(e.ctx, e.scope[n]); err == nil && len(ad) > 0 {
			v.holder[n] = e.sym(ad.String())
		}
	}
	return v
}

func (e *vownerEnv) hasAccess(marker, who string, p markertypes.Access) bool {
	m := e.marker(marker)
	return m != nil && m.AddressHasAccess(e.addr[who], p)
}

func (e *vownerEnv) whoHas(marker string, p markertypes.Access) []string {
	var res []string
	for _, a := range append(append([]string{}, vownerAccts...), "K") {
		if e.hasAccess(marker, a, p) {
			res = append(res, a)
		}
	}
	return res
}

func (e *vownerEnv) granteesOf(granter, mt string) []string {
	var res []string
	for _, a := range append(append([]string{}, vownerAccts...), "K") {
		if au, _ := e.app.AuthzKeeper.GetAuthorization(e.ctx, e.addr[a], e.addr[granter], vownerMTURL[mt]); au != nil {
			res = append(res, a)
		}
	}
	return res
}

func vownerUniq(xs []string) []string {
	seen := map[string]bool{}
	var res []string
	for _, x := range xs {
		if !seen[x] {
			seen[x] = true
			res = append(res, x)
		}
	}
	return res
}

// anyGrants lists, for the near-miss generator, accounts tied to n by a grant that must NOT
// count: grantees of n for another message type, and granters who granted TO n.
func (e *vownerEnv) nearMissFor(n, mt string) []string {
	var res []string
	for _, a := range []string{"A", "B", "C", "D", "E", "K"} {
		for _, other := range vownerMTs {
			if other != mt {
				if au, _ := e.app.AuthzKeeper.GetAuthorization(e.ctx, e.addr[a], e.addr[n], vownerMTURL[other]); au != nil {
					res = append(res, a)
				}
			}
		}
		if au, _ := e.app.AuthzKeeper.GetAuthorization(e.ctx, e.addr[n], e.addr[a], vownerMTURL[mt]); au != nil {
			res = append(res, a)
		}
	}
	res = append(res, e.formerGranteesOf(n, mt)...)
	return res
}

// formerGranteesOf lists accounts that HAD a grant from n for mt earlier in this history which
// is not in force any more (used up or revoked).
func (e *vownerEnv) formerGranteesOf(n, mt string) []string {
	var res []string
	for _, a := range []string{"A", "B", "C", "D", "E", "K"} {
		if e.seen[vownerGrant{n, a, mt}] {
			if au, _ := e.app.AuthzKeeper.GetAuthorization(e.ctx, e.addr[a], e.addr[n], vownerMTURL[mt]); au == nil {
				res = append(res, a)
			}
		}
	}
	return res
}

// signersFor builds a signer list for a message of type mt that needs the consent of `need`
// and moves tokens to `target`; mode decides how faithful it is.
func (e *vownerEnv) signersFor(rng *RNG, out *Out, pre func(op string), mt string, need []string, target string) string {
	people := []string{"A", "B", "C", "D", "E", "K"}
	plain := []string{"A", "B", "C", "D", "E"}
	mode := rng.Intn(100)
	var s []string
	if target == "MR" && len(need) == 1 && contains(plain, need[0]) && rng.Chance(15) {
		// the current owner could deposit into the restricted marker itself but does NOT sign: its authz
		// grantee signs alone and has no deposit permission (the consent is there, the deposit right is not)
		n, x := need[0], Pick(rng, plain)
		if x != n && !e.hasAccess("MR", x, markertypes.Access_Deposit) {
			keep := ""
			if e.hasAccess("MR", n, markertypes.Access_Withdraw) {
				keep = "withdraw|"
			}
			pre(fmt.Sprintf("access marker=MR addr=%s perms=%sdeposit", n, keep))
			if len(e.granteesOf(n, mt)) == 0 || !contains(e.granteesOf(n, mt), x) {
				pre(fmt.Sprintf("grant granter=%s grantee=%s mt=%s count=%d", n, x, mt, Pick(rng, []int{0, 1, 2})))
			}
			out.Count("signers:grantee-of-depositor")
			return x
		}
	}
	switch {
	case mode < 58: // what the code asks for, through any of the routes
		for _, n := range need {
			switch {
			case contains(vownerMarkers, n):
				if w := e.whoHas(n, markertypes.Access_Withdraw); len(w) > 0 {
					s = append(s, Pick(rng, w))
				} else if rng.Chance(45) { // set the permission up first
					x := Pick(rng, plain)
					pre(fmt.Sprintf("access marker=%s addr=%s perms=%s", n, x, Pick(rng, []string{"withdraw", "withdraw|deposit"})))
					s = append(s, x)
				} else if rng.Chance(50) {
					s = append(s, Pick(rng, people))
				}
			case n == "MOD" || n == "FEE":
				s = append(s, n)
			default:
				if g := e.granteesOf(n, mt); len(g) > 0 && rng.Chance(70) {
					s = append(s, Pick(rng, g))
				} else if rng.Chance(22) { // grant first, then let the grantee sign
					x := Pick(rng, people)
					if x != n {
						pre(fmt.Sprintf("grant granter=%s grantee=%s mt=%s count=%d", n, x, mt, Pick(rng, []int{0, 1, 1, 1, 2, 3})))
						s = append(s, x)
					} else {
						s = append(s, n)
					}
				} else {
					s = append(s, n)
				}
			}
		}
		if target == "MR" {
			if d := e.whoHas("MR", markertypes.Access_Deposit); len(d) > 0 && rng.Chance(85) {
				s = append(s, Pick(rng, d))
			} else if len(d) == 0 && rng.Chance(40) {
				x := Pick(rng, plain)
				if len(s) > 0 && rng.Chance(60) && contains(plain, s[0]) {
					x = s[0]
				}
				keep := ""
				if e.hasAccess("MR", x, markertypes.Access_Withdraw) {
					keep = "withdraw|"
				}
				pre(fmt.Sprintf("access marker=MR addr=%s perms=%sdeposit", x, keep))
				s = append(s, x)
			}
		}
		if len(s) == 0 {
			s = append(s, Pick(rng, people))
		}
		out.Count("signers:as-required")
	case mode < 68: // near miss: one needed party replaced by somebody almost entitled
		for _, n := range need {
			s = append(s, n)
		}
		if len(s) > 0 {
			i := rng.Intn(len(s))
			n := s[i]
			var alt []string
			if contains(vownerMarkers, n) {
				alt = e.whoHas(n, markertypes.Access_Deposit) // deposit is not withdraw
				if len(alt) == 0 && rng.Chance(50) {
					x := Pick(rng, plain)
					if !e.hasAccess(n, x, markertypes.Access_Withdraw) {
						pre(fmt.Sprintf("access marker=%s addr=%s perms=deposit", n, x))
						alt = []string{x}
					}
				}
			} else if n != "MOD" && n != "FEE" {
				alt = e.nearMissFor(n, mt)
				if len(alt) == 0 && rng.Chance(60) {
					x := Pick(rng, people)
					if x != n && len(e.granteesOf(n, mt)) == 0 {
						if rng.Chance(50) { // a grant for another message type
							other := Pick(rng, vownerMTs)
							if other != mt {
								pre(fmt.Sprintf("grant granter=%s grantee=%s mt=%s count=0", n, x, other))
								alt = []string{x}
							}
						} else if au, _ := e.app.AuthzKeeper.GetAuthorization(e.ctx, e.addr[x], e.addr[n], vownerMTURL[mt]); au == nil && contains(plain, n) {
							// a grant in the wrong direction
							pre(fmt.Sprintf("grant granter=%s grantee=%s mt=%s count=0", x, n, mt))
							alt = []string{x}
						}
					}
				}
			}
			if len(alt) > 0 {
				s[i] = Pick(rng, alt)
				out.Count("signers:near-miss")
			} else {
				s = append(s[:i], s[i+1:]...)
				out.Count("signers:one-missing")
			}
		}
		if len(s) == 0 {
			s = append(s, Pick(rng, people))
		}
	case mode < 76: // one needed signature missing
		for _, n := range need {
			s = append(s, n)
		}
		if len(s) > 0 {
			i := rng.Intn(len(s))
			s = append(s[:i], s[i+1:]...)
		}
		if len(s) == 0 {
			s = append(s, Pick(rng, people))
		}
		out.Count("signers:one-missing")
	case mode < 86: // strangers
		s = append(s, Pick(rng, people))
		if rng.Chance(30) {
			s = append(s, Pick(rng, people))
		}
		out.Count("signers:random")
	case mode < 94: // a contract first
		s = append(s, "K")
		for _, n := range need {
			if rng.Chance(70) {
				s = append(s, n)
			}
		}
		out.Count("signers:contract-first")
	case mode < 98: // everybody
		s = append(s, "A", "B", "C", "D", "E")
		out.Count("signers:all")
	default:
		out.Count("signers:none")
		return "-"
	}
	if rng.Chance(4) && len(s) > 0 { // a duplicate or a marker address among the signers
		s = append(s, Pick(rng, []string{s[0], "MR", "MU"}))
	} else {
		s = vownerUniq(s)
	}
	return JoinOr(s, "|")
}

func vownerPickTarget(rng *RNG, holder string) string {
	switch k := rng.Intn(100); {
	case k < 56:
		return Pick(rng, vownerAccts)
	case k < 62:
		return "K"
	case k < 78:
		return "MR"
	case k < 85:
		return "MU"
	case k < 88:
		return Pick(rng, []string{"MOD", "FEE"})
	default: // the given account (a current holder: accounts that hold several tokens)
		if holder != "" {
			return holder
		}
		return Pick(rng, vownerAccts)
	}
}

func resClassV(r string) string {
	return strings.Fields(r)[0]
}

type vownerGrant struct{ granter, grantee, mt string }

// vownerAgain remembers a message that moved holder's token with the consent of an authz grant only.
type vownerAgain struct {
	kind, signers, holder string
	moved                 []string // the tokens that left holder (and still exist)
}

// againOp builds a second message of the same type with the same signers for another token of
// the same holder (whatever the grant allows now: a one-use grant must be gone).
func (e *vownerEnv) againOp(rng *RNG, v vownerView, ag *vownerAgain) string {
	var ids []string
	for _, id := range vownerIDs {
		if v.holder[id] == ag.holder {
			ids = append(ids, id)
		}
	}
	if len(ids) == 0 {
		return ""
	}
	to := vownerPickTarget(rng, "")
	for to == ag.holder {
		to = Pick(rng, vownerAccts)
	}
	switch ag.kind {
	case "updvo":
		if len(ids) > 1 && rng.Chance(50) {
			ids = ids[:1+rng.Intn(len(ids))]
		}
		return fmt.Sprintf("updvo ids=%s vo=%s signers=%s", JoinOr(ids, "|"), to, ag.signers)
	case "migrate":
		return fmt.Sprintf("migrate from=%s to=%s signers=%s", ag.holder, to, ag.signers)
	case "write": // only the value owner changes
		id := Pick(rng, ids)
		roll := ""
		if v.rollup[id] {
			roll = " roll=1"
		}
		return fmt.Sprintf("write id=%s owners=%s%s vo=%s signers=%s", id, JoinOr(v.owners[id], "|"), roll, to, ag.signers)
	case "delete":
		return fmt.Sprintf("delete id=%s signers=%s", Pick(rng, ids), ag.signers)
	}
	return ""
}

func (e *vownerEnv) grants() []vownerGrant {
	var res []vownerGrant
	urlMT := map[string]string{}
	for k, v := range vownerMTURL {
		urlMT[v] = k
	}
	e.app.AuthzKeeper.IterateGrants(e.ctx, func(granter, grantee sdk.AccAddress, g authz.Grant) bool {
		if a, err := g.GetAuthorization(); err == nil {
			if mt, ok := urlMT[a.MsgTypeURL()]; ok {
				res = append(res, vownerGrant{e.sym(granter.String()), e.sym(grantee.String()), mt})
			}
		}
		return false
	})
	return res
}

func driveVowner(t *testing.T, rng *RNG, n int, out *Out) {
	e := vownerSetup(t)
	people := []string{"A", "B", "C", "D", "E", "K"}
	for h := 0; h < n; h++ {
		e.newHistory()
		out.Comment(fmt.Sprintf("history %d", h))
		emit := func(op string) string {
			// the route a message takes to its handler: mostly straight to the msg server; a good part as
			// a signed transaction through the app's ante handler and message router, the fees paid by the
			// first signer or by somebody else under a fee allowance (signers with a key: ordinary accounts)
			if sg, isMsg := vownerOpSigners(strings.Fields(op)); isMsg && len(sg) > 0 && len(vownerUniq(sg)) == len(sg) && rng.Chance(24) {
				all := true
				for _, x := range sg {
					all = all && contains(vownerAccts, x)
				}
				if all {
					if rng.Chance(60) {
						g := Pick(rng, vownerAccts)
						for g == sg[0] {
							g = Pick(rng, vownerAccts)
						}
						op += " tx=fg." + g
						out.Count("tx:fee-granted")
					} else {
						op += " tx=own"
						out.Count("tx:own-fees")
					}
				}
			}
			r := e.exec(op)
			k := strings.Fields(op)[0]
			out.Count("op:" + k)
			if k != "dump" {
				out.Count("res:" + k + ":" + resClassV(r))
			}
			out.Emit(op, r)
			return r
		}
		emit("dump")
		pre := func(op string) { // a preparatory environment op (grant / marker access) and its dump
			emit(op)
			emit("dump")
			out.Count("prepared:" + strings.Fields(op)[0])
		}
		pickStatus := func(nonActive bool) string {
			st := Pick(rng, []string{"cancelled", "cancelled", "cancelled", "proposed", "proposed", "finalized", "destroyed", "active", "active"})
			for nonActive && st == "active" {
				st = Pick(rng, []string{"cancelled", "proposed", "finalized", "destroyed"})
			}
			return st
		}
		// markers start active; in a good part of the histories one or both are in another lifecycle
		// status from the start (proposed / finalized markers that never were active included)
		if rng.Chance(35) {
			for _, mn := range vownerMarkers {
				if rng.Chance(60) {
					pre(fmt.Sprintf("mstatus marker=%s status=%s", mn, pickStatus(false)))
				}
			}
		}
		// the last message whose value-owner consent came through an authz grant: tried again
		var again *vownerAgain
		steps := 10 + rng.Intn(16)
		for s := 0; s < steps; s++ {
			for _, g := range e.grants() {
				e.seen[g] = true
			}
			v := e.view()
			var held, existing []string
			for _, id := range vownerIDs {
				if v.holder[id] != "" {
					held = append(held, id)
				}
				if v.exists[id] {
					existing = append(existing, id)
				}
			}
			before := v
			anyHolder := "" // somebody who holds a token already
			if len(held) > 0 {
				anyHolder = v.holder[Pick(rng, held)]
			}
			var r, kind, signers string
			k := rng.Intn(100)
			if len(held) == 0 && k >= 30 && k < 75 && rng.Chance(70) {
				k = 0 // nothing to move yet: write instead
			}
			markerHeld := false
			for _, id := range held {
				if contains(vownerMarkers, v.holder[id]) {
					markerHeld = true
				}
			}
			if k >= 71 && k < 75 && !markerHeld && rng.Chance(80) {
				k = 65 // no marker holds a token: a bank send instead
			}
			if markerHeld && rng.Chance(12) { // a marker that holds a scope token changes its status
				for _, id := range held {
					if hh := v.holder[id]; contains(vownerMarkers, hh) {
						cur := e.marker(hh)
						pre(fmt.Sprintf("mstatus marker=%s status=%s", hh, pickStatus(cur != nil && cur.Status == markertypes.StatusActive)))
						out.Count("prepared:mstatus-of-holder")
						break
					}
				}
			}
			if again != nil {
				ag := again
				again = nil
				if rng.Chance(65) {
					op := e.againOp(rng, v, ag)
					if op == "" && len(ag.moved) > 0 && contains(people, v.holder[ag.moved[0]]) {
						// the former holder has no token left: the new holder hands one back first
						emit(fmt.Sprintf("send from=%s to=%s ids=%s", v.holder[ag.moved[0]], ag.holder, ag.moved[0]))
						emit("dump")
						v = e.view()
						before = v
						op = e.againOp(rng, v, ag)
					}
					if op != "" {
						kind, signers = ag.kind, ag.signers
						r = emit(op)
						out.Count("again:" + kind + ":" + resClassV(r))
						k = -1
					}
				}
			}
			// the exchange route: ask orders on scope tokens (hold), fills, cancels, and attempts to move a
			// token that is on hold by another route
			if k != -1 && rng.Chance(16) {
				k = -2
				ords := e.orders()
				var ordinaryHeld []string // tokens held by an ordinary account
				for _, id := range held {
					if contains(people, v.holder[id]) {
						ordinaryHeld = append(ordinaryHeld, id)
					}
				}
				switch x := rng.Intn(100); {
				case len(ords) > 0 && x < 45: // fill
					kind = "fill"
					o := Pick(rng, ords)
					buyer := Pick(rng, people)
					for buyer == o.seller && rng.Chance(92) {
						buyer = Pick(rng, people)
					}
					if rng.Chance(5) {
						buyer = "MU" // a marker cannot pay: no transfer agent
					}
					if contains(vownerAccts, buyer) && rng.Chance(80) {
						pre(fmt.Sprintf("fund addr=%s denom=$c amount=%d", buyer, o.price+int64(rng.Intn(3))))
					}
					oid, price := o.id, o.price
					if rng.Chance(7) {
						oid += 3
					}
					if rng.Chance(8) {
						price++
					}
					signers = buyer
					v = e.view()
					before = v
					r = emit(fmt.Sprintf("fill buyer=%s order=%d price=%d", buyer, oid, price))
					if contains(vownerAccts, buyer) {
						emit("bal addr=" + buyer + " denom=$c")
					}
					if contains(vownerAccts, o.seller) {
						emit("bal addr=" + o.seller + " denom=$c")
					}
				case len(ords) > 0 && x < 60: // cancel
					kind = "cancel"
					o := Pick(rng, ords)
					signer := o.seller
					if rng.Chance(30) {
						signer = Pick(rng, people)
					}
					oid := o.id
					if rng.Chance(8) {
						oid += 2
					}
					r = emit(fmt.Sprintf("cancel signer=%s order=%d", signer, oid))
				case len(ords) > 0 && x < 80: // a token on hold must not leave by any other route
					o := Pick(rng, ords)
					tgt := vownerPickTarget(rng, o.seller)
					switch rng.Intn(5) {
					case 0:
						kind, signers = "updvo", o.seller
						r = emit(fmt.Sprintf("updvo ids=%s vo=%s signers=%s", o.asset, tgt, o.seller))
					case 1:
						kind, signers = "migrate", o.seller
						r = emit(fmt.Sprintf("migrate from=%s to=%s signers=%s", o.seller, tgt, o.seller))
					case 2:
						kind = "send"
						r = emit(fmt.Sprintf("msend from=%s outs=%s:%s", o.seller, tgt, o.asset))
					case 3:
						kind, signers = "delete", JoinOr(vownerUniq(append(vownerAddrs(v.owners[o.asset]), o.seller)), "|")
						r = emit(fmt.Sprintf("delete id=%s signers=%s", o.asset, signers))
					default:
						kind = "send"
						r = emit(fmt.Sprintf("send from=%s to=%s ids=%s", o.seller, tgt, o.asset))
					}
					out.Count("held-token-other-route:" + resClassV(r))
				default: // ask
					kind = "ask"
					seller := Pick(rng, people)
					asset := Pick(rng, vownerIDs)
					if len(ordinaryHeld) > 0 && rng.Chance(85) {
						asset = Pick(rng, ordinaryHeld)
						seller = v.holder[asset]
						if rng.Chance(8) {
							seller = Pick(rng, people) // somebody who does not hold it
						}
					}
					r = emit(fmt.Sprintf("ask seller=%s asset=%s price=%d", seller, asset, rng.Intn(6)))
				}
			}
			// a marker requested on the denom of a scope token (by anybody), and the request's sender then
			// trying to move the token as the marker's transfer administrator
			if k >= 0 && rng.Chance(4) {
				k = -3
				kind = "send"
				id := Pick(rng, vownerIDs)
				if len(held) > 0 && rng.Chance(85) {
					id = Pick(rng, held)
				}
				signer := Pick(rng, people)
				typ, forced := "coin", 0
				if rng.Chance(75) {
					typ = "restricted"
					if rng.Chance(80) {
						forced = 1
					}
				} else if rng.Chance(10) {
					forced = 1 // refused by ValidateBasic
				}
				emit(fmt.Sprintf("mkadd signer=%s id=%s supply=%d type=%s forced=%d msg=%s", signer, id, Pick(rng, []int{1, 1, 1, 1, 2, 5, 0}), typ, forced, Pick(rng, []string{"afa", "afa", "afa", "afa", "add"})))
				emit("dump")
				from := v.holder[id]
				if from == "" {
					from = Pick(rng, people)
				}
				to := signer
				if rng.Chance(30) {
					to = vownerPickTarget(rng, anyHolder)
				}
				signers = signer
				r = emit(fmt.Sprintf("mtransfer admin=%s from=%s to=%s id=%s", signer, from, to, id))
				out.Count("op:mkadd+mtransfer")
			}
			switch {
			case k == -3: // the marker-on-a-scope-denom step above
			case k == -2: // the exchange step above
			case k == -1: // the repeated message above
			case k < 30 || len(existing) == 0: // write scope
				kind = "write"
				id := Pick(rng, vownerIDs)
				if len(existing) > 0 && rng.Chance(60) {
					id = Pick(rng, existing)
				}
				// require_party_rollup: mostly kept on an existing scope; a new scope has it about half the time
				roll := rng.Chance(45)
				if v.exists[id] {
					roll = v.rollup[id]
					if rng.Chance(10) {
						roll = !roll
					}
				}
				holderIsOptParty := v.exists[id] && v.holder[id] != "" && contains(v.optionalParties(id), v.holder[id])
				// the shape "value owner AND something else change" is forced now and then, above all
				// when the value owner is an optional party of a roll-up scope
				forceBoth := v.exists[id] && v.holder[id] != "" && ((holderIsOptParty && rng.Chance(45)) || rng.Chance(6))
				var owners []string
				if v.exists[id] && rng.Chance(60) && !forceBoth {
					owners = append(owners, v.owners[id]...)
					if roll && rng.Chance(15) && len(owners) > 0 { // only a party's optional flag changes
						i := rng.Intn(len(owners))
						if strings.HasSuffix(owners[i], "?") {
							owners[i] = strings.TrimSuffix(owners[i], "?")
						} else {
							owners[i] += "?"
						}
					}
					if !roll && v.rollup[id] && !rng.Chance(10) { // leaving roll-up: no optional party may stay
						owners = vownerAddrs(owners)
					}
				} else {
					optPct := 3 // optional parties need roll-up: a few invalid ones
					if roll {
						optPct = 45
					}
					for _, a := range vownerAccts {
						if rng.Chance(35) || (forceBoth && contains(vownerAddrs(v.owners[id]), a) && rng.Chance(60)) {
							if rng.Chance(optPct) {
								a += "?"
							}
							owners = append(owners, a)
						}
					}
					if len(owners) == 0 && !rng.Chance(4) {
						owners = append(owners, Pick(rng, vownerAccts))
					}
					if rng.Chance(3) {
						owners = append(owners, "K")
					}
					if rng.Chance(2) && len(owners) > 0 {
						owners = append(owners, Pick(rng, []string{owners[0], strings.TrimSuffix(owners[0], "?") + "?"}))
					}
				}
				vo := "-"
				if (!v.exists[id] && rng.Chance(80)) || (v.exists[id] && rng.Chance(55)) || forceBoth {
					vo = vownerPickTarget(rng, v.holder[id])
					if !v.exists[id] && anyHolder != "" && rng.Chance(30) {
						vo = anyHolder // one account holding the tokens of several scopes
					}
					// the value owner is often one of the scope's own parties, optional ones included
					if pool := owners; len(pool) > 0 && rng.Chance(35) && !forceBoth {
						var opts []string
						for _, p := range pool {
							if strings.HasSuffix(p, "?") {
								opts = append(opts, p)
							}
						}
						if len(opts) > 0 && rng.Chance(70) {
							pool = opts
						}
						vo = strings.TrimSuffix(Pick(rng, pool), "?")
					}
					if forceBoth && vo == v.holder[id] {
						vo = Pick(rng, vownerAccts)
					}
				}
				var need []string
				ownersChange := v.exists[id] && (!sameSet(owners, v.owners[id]) || roll != v.rollup[id])
				voChange := vo != "-" && vo != v.holder[id]
				onlyVO := v.exists[id] && v.holder[id] != "" && voChange && !ownersChange
				if v.exists[id] && !onlyVO && (v.rollup[id] || ownersChange || (voChange && v.holder[id] == "")) {
					need = append(need, v.partiesNeed(rng, id)...)
				}
				if voChange && v.holder[id] != "" {
					// the parties agree but the value owner is not asked: must be refused unless the
					// value owner happens to be among the parties that sign
					if !onlyVO && rng.Chance(15) {
						out.Count("write:value-owner-not-asked")
					} else {
						need = append(need, v.holder[id])
					}
				}
				if !v.exists[id] && rng.Chance(50) {
					need = append(need, vownerAddrs(owners)...)
				}
				tgt := ""
				if voChange {
					tgt = vo
				}
				signers = e.signersFor(rng, out, pre, "write", vownerUniq(need), tgt)
				rollArg := ""
				if roll || rng.Chance(30) {
					rollArg = fmt.Sprintf(" roll=%d", map[bool]int{false: 0, true: 1}[roll])
				}
				r = emit(fmt.Sprintf("write id=%s owners=%s%s vo=%s signers=%s", id, JoinOr(owners, "|"), rollArg, vo, signers))
				shape := ""
				switch {
				case !v.exists[id] && vo != "-":
					shape = "new+vo"
				case !v.exists[id]:
					shape = "new"
				case voChange && ownersChange:
					shape = "vo+other"
				case voChange:
					shape = "vo-only"
				case ownersChange:
					shape = "other-only"
				default:
					shape = "no-change"
				}
				out.Count("write:" + shape)
				if roll {
					out.Count("write:rollup")
				}
				if v.exists[id] && v.rollup[id] {
					out.Count("write:on-rollup:" + shape + ":" + resClassV(r))
					if holderIsOptParty {
						out.Count("write:on-rollup:vo-is-optional-party:" + shape + ":" + resClassV(r))
					}
				}
				if v.exists[id] && v.holder[id] != "" && contains(vownerAddrs(v.owners[id]), v.holder[id]) {
					out.Count("write:vo-is-party")
				}
			case k < 46: // update value owners
				kind = "updvo"
				var ids []string
				pool := held
				if len(pool) == 0 || rng.Chance(8) {
					pool = vownerIDs
				}
				cnt := 1 + rng.Intn(3)
				if rng.Chance(35) { // prefer scopes with different current owners
					seen := map[string]bool{}
					for _, id := range pool {
						if hh := v.holder[id]; hh != "" && !seen[hh] {
							seen[hh] = true
							ids = append(ids, id)
						}
					}
				} else {
					for i := 0; i < cnt; i++ {
						ids = append(ids, Pick(rng, pool))
					}
				}
				if !rng.Chance(5) {
					ids = vownerUniq(ids)
				}
				if len(ids) > 1 && rng.Chance(30) { // one token only: the holder keeps others for a later message
					ids = ids[:1]
				}
				if rng.Chance(2) {
					ids = nil
				}
				vo := vownerPickTarget(rng, anyHolder)
				var need []string
				for _, id := range ids {
					if hh := v.holder[id]; hh != "" && hh != vo {
						need = append(need, hh)
					}
				}
				signers = e.signersFor(rng, out, pre, "updvo", vownerUniq(need), vo)
				r = emit(fmt.Sprintf("updvo ids=%s vo=%s signers=%s", JoinOr(ids, "|"), vo, signers))
				out.Count(fmt.Sprintf("updvo:scopes=%d,owners=%d", len(ids), len(vownerUniq(need))))
			case k < 54: // migrate
				kind = "migrate"
				from := Pick(rng, vownerAll)
				if len(held) > 0 && rng.Chance(88) {
					from = v.holder[Pick(rng, held)]
				}
				to := vownerPickTarget(rng, from)
				signers = e.signersFor(rng, out, pre, "migrate", []string{from}, to)
				r = emit(fmt.Sprintf("migrate from=%s to=%s signers=%s", from, to, signers))
			case k < 62: // delete
				kind = "delete"
				id := Pick(rng, vownerIDs)
				if len(existing) > 0 && rng.Chance(88) {
					id = Pick(rng, existing)
				}
				need := append([]string{}, v.partiesNeed(rng, id)...)
				if v.holder[id] != "" {
					if len(need) > 0 && rng.Chance(8) {
						out.Count("delete:value-owner-not-asked")
					} else {
						need = append(need, v.holder[id])
					}
				}
				signers = e.signersFor(rng, out, pre, "delete", vownerUniq(need), "")
				if v.rollup[id] {
					out.Count("delete:on-rollup")
				}
				r = emit(fmt.Sprintf("delete id=%s signers=%s", id, signers))
			case k >= 71 && k < 75: // marker MsgWithdraw of scope tokens a marker holds
				kind = "mwithdraw"
				mk := Pick(rng, []string{"MR", "MR", "MU"})
				var ids []string
				for _, id := range held {
					if contains(vownerMarkers, v.holder[id]) && rng.Chance(70) {
						mk = v.holder[id]
					}
				}
				for _, id := range held {
					if v.holder[id] == mk && (len(ids) == 0 || rng.Chance(50)) {
						ids = append(ids, id)
					}
				}
				if len(ids) == 0 {
					ids = append(ids, Pick(rng, vownerIDs))
				}
				if rng.Chance(3) {
					ids = append(ids, ids[0])
				}
				if rng.Chance(3) {
					mk = Pick(rng, people)
				}
				admin := Pick(rng, people)
				if w := e.whoHas(mk, markertypes.Access_Withdraw); len(w) > 0 && rng.Chance(75) {
					admin = Pick(rng, w)
				} else if contains(vownerMarkers, mk) && rng.Chance(65) {
					admin = Pick(rng, []string{"A", "B", "C", "D", "E"})
					pre(fmt.Sprintf("access marker=%s addr=%s perms=%s", mk, admin, Pick(rng, []string{"withdraw", "withdraw", "withdraw|deposit", "withdraw|deposit", "deposit"})))
				}
				signers = admin
				r = emit(fmt.Sprintf("mwithdraw marker=%s admin=%s to=%s ids=%s", mk, admin, vownerPickTarget(rng, ""), JoinOr(ids, "|")))
			case k < 75: // bank send of scope tokens
				kind = "send"
				from := Pick(rng, people)
				var ids []string
				if len(held) > 0 && rng.Chance(90) {
					id := Pick(rng, held)
					from = v.holder[id]
					ids = append(ids, id)
					for _, o := range held {
						if o != id && v.holder[o] == from && rng.Chance(50) {
							ids = append(ids, o)
						}
					}
					if rng.Chance(10) { // somebody else tries to send it
						from = Pick(rng, people)
					}
				} else {
					ids = append(ids, Pick(rng, vownerIDs))
				}
				if rng.Chance(3) {
					ids = append(ids, ids[0])
				}
				if rng.Chance(2) {
					ids = nil
				}
				signers = from
				switch {
				case len(ids) > 0 && rng.Chance(30): // the same through bank MsgMultiSend, the tokens spread over one or two outputs
					outs := vownerPickTarget(rng, anyHolder) + ":" + JoinOr(ids, "|")
					if len(ids) >= 2 && rng.Chance(60) {
						outs = vownerPickTarget(rng, anyHolder) + ":" + ids[0] + "," + vownerPickTarget(rng, anyHolder) + ":" + JoinOr(ids[1:], "|")
					} else if rng.Chance(15) { // an ordinary coin rides along (the sender may or may not have one)
						outs += "," + vownerPickTarget(rng, anyHolder) + ":$c"
					}
					out.Count("op:msend")
					r = emit(fmt.Sprintf("msend from=%s outs=%s", from, outs))
				case len(ids) > 0 && rng.Chance(6): // marker MsgTransfer cannot carry a scope token
					out.Count("op:mtransfer")
					r = emit(fmt.Sprintf("mtransfer admin=%s from=%s to=%s id=%s", Pick(rng, people), from, vownerPickTarget(rng, anyHolder), ids[0]))
				case rng.Chance(8): // ordinary coins arrive, and may ride along with the token
					out.Count("op:fund")
					emit(fmt.Sprintf("fund addr=%s denom=$c amount=%d", Pick(rng, vownerAccts), 1+rng.Intn(5)))
					emit("dump")
					r = emit(fmt.Sprintf("send from=%s to=%s ids=%s", from, vownerPickTarget(rng, anyHolder), JoinOr(append(append([]string{}, ids...), "$c"), "|")))
					emit("bal addr=" + from + " denom=$c")
				default:
					r = emit(fmt.Sprintf("send from=%s to=%s ids=%s", from, vownerPickTarget(rng, anyHolder), JoinOr(ids, "|")))
				}
			case k < 88: // authz grant / revoke
				kind = "grant"
				granter := Pick(rng, people)
				grantee := Pick(rng, people)
				var cands []string
				for _, id := range existing {
					cands = append(cands, vownerAddrs(v.owners[id])...)
					if hh := v.holder[id]; hh != "" && !contains(vownerMarkers, hh) && hh != "MOD" && hh != "FEE" {
						cands = append(cands, hh, hh)
					}
				}
				if len(cands) > 0 {
					switch x := rng.Intn(100); {
					case x < 65:
						granter = Pick(rng, cands)
					case x < 80: // the reverse direction: somebody grants TO a holder/owner
						grantee = Pick(rng, cands)
					}
				}
				mt := Pick(rng, vownerMTs)
				if gs := e.grants(); rng.Chance(18) {
					if len(gs) > 0 && rng.Chance(85) {
						g := Pick(rng, gs)
						granter, grantee, mt = g.granter, g.grantee, g.mt
					}
					r = emit(fmt.Sprintf("revoke granter=%s grantee=%s mt=%s", granter, grantee, mt))
				} else if granter != grantee {
					r = emit(fmt.Sprintf("grant granter=%s grantee=%s mt=%s count=%d", granter, grantee, mt, Pick(rng, []int{0, 0, 1, 1, 1, 2, 3})))
				} else {
					continue
				}
			case k >= 95 && k < 99: // marker lifecycle status
				kind = "mstatus"
				r = emit(fmt.Sprintf("mstatus marker=%s status=%s", Pick(rng, []string{"MR", "MR", "MU", "MU", "MX"}), pickStatus(false)))
			case k < 95: // marker permissions
				kind = "access"
				var perms []string
				if rng.Chance(60) {
					perms = append(perms, "withdraw")
				}
				if rng.Chance(60) {
					perms = append(perms, "deposit")
				}
				r = emit(fmt.Sprintf("access marker=%s addr=%s perms=%s", Pick(rng, []string{"MR", "MR", "MU"}), Pick(rng, people), JoinOr(perms, "|")))
			default:
				r = emit("denom " + Pick(rng, vownerIDs))
				continue
			}
			emit("dump")
			// distribution of what actually happened to the tokens, and by which route
			if r == "ok" {
				after := e.view()
				sg := vownerSplit(signers)
				for _, id := range vownerIDs {
					b, a := before.holder[id], after.holder[id]
					if b == a {
						continue
					}
					switch {
					case b == "":
						out.Count("move:" + kind + ":mint")
					case a == "":
						out.Count("move:" + kind + ":burn")
					default:
						out.Count("move:" + kind + ":transfer")
					}
					if b != "" && kind != "send" && kind != "mwithdraw" && kind != "fill" && !contains(sg, b) && !contains(vownerMarkers, b) {
						if again == nil || again.holder != b {
							again = &vownerAgain{kind: kind, signers: signers, holder: b}
						}
						if a != "" {
							again.moved = append(again.moved, id)
						}
					}
					if b != "" {
						switch {
						case kind == "fill":
							out.Count("route:exchange-fill")
						case kind == "send":
							out.Count("route:own-send")
						case kind == "mwithdraw":
							out.Count("route:marker-msg-withdraw")
						case contains(sg, b):
							out.Count("route:" + kind + ":signature")
						case contains(vownerMarkers, b):
							out.Count("route:" + kind + ":marker-withdraw")
						default:
							out.Count("route:" + kind + ":authz")
						}
					}
					if a == "MR" {
						out.Count("move:" + kind + ":to-restricted-marker")
					}
				}
			}
		}
	}
}

func sameSet(a, b []string) bool {
	if len(a) != len(b) {
		return false
	}
	for _, x := range a {
		if !contains(b, x) {
			return false
		}
	}
	return true
}
