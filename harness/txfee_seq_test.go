package harness

// Model "txfee" (C08), ops `seq` and `mempool`: SEQUENCES of really signed transactions.
//
// `seq`: 2–4 transactions — payers P, X and G mixed (several of one payer, signed with consecutive
// account sequences, and of different payers), with and without fee grants (G → P, G → X), some
// failing in message execution, some refused by the ante handler (balance below the base fee, gas
// limit, wrong sequence, used-up allowance) — delivered through the real FinalizeBlock: all in ONE
// block, or spread over consecutive blocks (committed in between, optionally with a rewrite of
// the fee configuration before the commit).  Observed: every transaction's result class and
// whether its block result carries events, and after EVERY block the sequences of the three
// payers, what is left of both allowances and the balance changes of every account involved.
//
// `mempool`: the same kind of transactions arriving at the mempool one after the other
// (CheckTx(New) on the check state, which carries the fee deductions and sequence bumps of the
// admitted ones from one arrival to the next); observed after every arrival.
//
// The Lean side (PvModel/TxfeeSeqDriver.lean) answers with the model's `runTxs` / `checkTxs`.

import (
	"fmt"
	"math/big"
	"sort"
	"strconv"
	"strings"

	abci "github.com/cometbft/cometbft/abci/types"

	sdkmath "cosmossdk.io/math"
	storetypes "cosmossdk.io/store/types"
	"cosmossdk.io/x/feegrant"

	"github.com/cosmos/cosmos-sdk/client/tx"
	sdk "github.com/cosmos/cosmos-sdk/types"
	"github.com/cosmos/cosmos-sdk/types/tx/signing"
	authsigning "github.com/cosmos/cosmos-sdk/x/auth/signing"
)

var txfeeSeqPayers = []string{"P", "X", "G"}
var txfeeSeqDumpRoles = []string{"P", "G", "X", "Q", "R1", "R2", "C"}

type txfeeSeqTx struct {
	payer   string
	fg      bool
	fee     sdk.Coins
	gas     uint64
	sq      int // the account sequence it is signed with, relative to the payer's initial one
	blk     int
	body    []string
	rawBody string
}

type txfeeSeqOp struct {
	check  bool // mempool op
	floor  sdk.Coin
	convD  string
	convR  uint64
	sched  []txfeeSched
	payfee string
	auth   bool
	bal    map[string]sdk.Coins
	alP    string
	alX    string
	cfg2   bool
	floor2 sdk.Coin
	convD2 string
	convR2 uint64
	sched2 []txfeeSched
	txs    []txfeeSeqTx
}

func txfeeSeqParse(line string) (*txfeeSeqOp, error) {
	ws := strings.Fields(line)
	if len(ws) == 0 || (ws[0] != "seq" && ws[0] != "mempool") {
		return nil, fmt.Errorf("not a seq op: %q", line)
	}
	op := &txfeeSeqOp{check: ws[0] == "mempool", bal: map[string]sdk.Coins{}}
	var err error
	cfgAt := func(sfx string) (fl sdk.Coin, d string, r uint64, sc []txfeeSched, err error) {
		if fl, err = txfeeCoin(kvArg(ws, "floor"+sfx)); err != nil {
			return
		}
		cv := strings.Split(kvArg(ws, "conv"+sfx), ":")
		if len(cv) != 2 {
			err = fmt.Errorf("bad conv%s", sfx)
			return
		}
		d = cv[0]
		r, _ = strconv.ParseUint(cv[1], 10, 64)
		sc, err = txfeeParseSched(kvArg(ws, "sched"+sfx))
		return
	}
	if op.floor, op.convD, op.convR, op.sched, err = cfgAt(""); err != nil {
		return nil, err
	}
	if !op.check && kvArg(ws, "floor2") != "" {
		op.cfg2 = true
		if op.floor2, op.convD2, op.convR2, op.sched2, err = cfgAt("2"); err != nil {
			return nil, err
		}
	}
	op.payfee = kvArg(ws, "payfee")
	if op.payfee == "" {
		op.payfee = "-"
	}
	op.auth = kvArg(ws, "auth") == "1"
	for _, r := range []string{"P", "G", "X"} {
		if op.bal[r], err = txfeeCoins(kvArg(ws, "bal"+r)); err != nil {
			return nil, err
		}
	}
	al := func(key string) string {
		if v := kvArg(ws, key); v != "" {
			return v
		}
		return "-"
	}
	op.alP, op.alX = al("alP"), al("alX")
	n, _ := strconv.Atoi(kvArg(ws, "n"))
	if n < 1 || n > 8 {
		return nil, fmt.Errorf("bad n")
	}
	blks := strings.Split(kvArg(ws, "blk"), ",")
	for i := 1; i <= n; i++ {
		sfx := strconv.Itoa(i)
		t := txfeeSeqTx{payer: kvArg(ws, "p"+sfx), fg: kvArg(ws, "fg"+sfx) == "1", rawBody: kvArg(ws, "body"+sfx)}
		ok := false
		for _, p := range txfeeSeqPayers {
			ok = ok || p == t.payer
		}
		if !ok {
			return nil, fmt.Errorf("bad payer %q", t.payer)
		}
		if t.fee, err = txfeeCoins(kvArg(ws, "fee"+sfx)); err != nil {
			return nil, err
		}
		t.gas, _ = strconv.ParseUint(kvArg(ws, "gas"+sfx), 10, 64)
		if t.sq, err = strconv.Atoi(kvArg(ws, "sq"+sfx)); err != nil || t.sq < 0 {
			return nil, fmt.Errorf("bad sq%s", sfx)
		}
		t.body = strings.Split(t.rawBody, ";")
		if op.check {
			t.blk = i - 1
		} else {
			if i-1 >= len(blks) {
				return nil, fmt.Errorf("bad blk")
			}
			if t.blk, err = strconv.Atoi(blks[i-1]); err != nil || t.blk < 0 || t.blk > 8 {
				return nil, fmt.Errorf("bad blk")
			}
			if i > 1 && t.blk < op.txs[i-2].blk {
				return nil, fmt.Errorf("blk not monotone")
			}
		}
		op.txs = append(op.txs, t)
	}
	return op, nil
}

func (op *txfeeSeqOp) line() string {
	b := func(x bool) string {
		if x {
			return "1"
		}
		return "0"
	}
	word := "seq"
	if op.check {
		word = "mempool"
	}
	var sb strings.Builder
	fmt.Fprintf(&sb, "%s floor=%s conv=%s:%d sched=%s payfee=%s auth=%s balP=%s balX=%s balG=%s alP=%s alX=%s n=%d",
		word, op.floor.Amount.String()+op.floor.Denom, op.convD, op.convR, txfeeSchedStr(op.sched), op.payfee, b(op.auth),
		txfeeCoinsStr(op.bal["P"]), txfeeCoinsStr(op.bal["X"]), txfeeCoinsStr(op.bal["G"]), op.alP, op.alX, len(op.txs))
	if !op.check {
		var bl []string
		for _, t := range op.txs {
			bl = append(bl, strconv.Itoa(t.blk))
		}
		sb.WriteString(" blk=" + strings.Join(bl, ","))
		if op.cfg2 {
			fmt.Fprintf(&sb, " floor2=%s conv2=%s:%d sched2=%s", op.floor2.Amount.String()+op.floor2.Denom, op.convD2, op.convR2, txfeeSchedStr(op.sched2))
		}
	}
	for i, t := range op.txs {
		fmt.Fprintf(&sb, " p%d=%s fg%d=%s fee%d=%s gas%d=%d sq%d=%d body%d=%s", i+1, t.payer, i+1, b(t.fg), i+1, txfeeCoinsStr(t.fee),
			i+1, t.gas, i+1, t.sq, i+1, t.rawBody)
	}
	return sb.String()
}

func (e *txfeeEnv) signSeq(k *txfeeKeys, t *txfeeSeqTx, msgs []sdk.Msg) (bz []byte, err error) {
	defer func() {
		if r := recover(); r != nil {
			err = fmt.Errorf("panic: %v", r)
		}
	}()
	cfg := e.app.GetTxConfig()
	b := cfg.NewTxBuilder()
	if err := b.SetMsgs(msgs...); err != nil {
		return nil, err
	}
	b.SetFeeAmount(t.fee)
	b.SetGasLimit(t.gas)
	if t.fg && t.payer != "G" {
		b.SetFeeGranter(k.addr["G"])
	}
	seq := uint64(txfeeSeq0 + t.sq)
	priv := k.priv[t.payer]
	mode := signing.SignMode(cfg.SignModeHandler().DefaultMode())
	pub := priv.PubKey()
	sig := signing.SignatureV2{PubKey: pub, Data: &signing.SingleSignatureData{SignMode: mode}, Sequence: seq}
	if err := b.SetSignatures(sig); err != nil {
		return nil, err
	}
	sd := authsigning.SignerData{Address: k.addr[t.payer].String(), ChainID: ChainID, AccountNumber: k.accN[t.payer], Sequence: seq, PubKey: pub}
	sig, err = tx.SignWithPrivKey(e.cctx(), mode, sd, b, priv, cfg, seq)
	if err != nil {
		return nil, err
	}
	if err := b.SetSignatures(sig); err != nil {
		return nil, err
	}
	return cfg.TxEncoder()(b.GetTx())
}

func (e *txfeeEnv) allowStr(ctx sdk.Context, k *txfeeKeys, grantee string) string {
	g, err := e.app.FeeGrantKeeper.GetAllowance(ctx, k.addr["G"], k.addr[grantee])
	if err != nil || g == nil {
		return "-"
	}
	ba, ok := g.(*feegrant.BasicAllowance)
	if !ok {
		return "other"
	}
	if ba.SpendLimit == nil {
		return "unl"
	}
	return txfeeCoinsStr(ba.SpendLimit)
}

// seqDump: the state after block / arrival `idx`: sequences, allowances, balance changes since the
// start (`cum`: the collector's, which the harness accumulates itself in block mode — every
// BeginBlock moves what the collector holds on to the distribution module).
func (e *txfeeEnv) seqDump(ctx sdk.Context, k *txfeeKeys, idx int, before map[string]sdk.Coins, after map[string]sdk.Coins, cum string) string {
	var sb strings.Builder
	for _, p := range txfeeSeqPayers {
		seq := uint64(0)
		if acc := e.app.AccountKeeper.GetAccount(ctx, k.addr[p]); acc != nil {
			seq = acc.GetSequence() - txfeeSeq0
		}
		fmt.Fprintf(&sb, " s%d%s=%d", idx, p, seq)
	}
	fmt.Fprintf(&sb, " a%dP=%s a%dX=%s", idx, e.allowStr(ctx, k, "P"), idx, e.allowStr(ctx, k, "X"))
	for _, r := range txfeeSeqDumpRoles {
		d := cum
		if r != "C" || cum == "" {
			d = txfeeDelta(after[r], before[r])
		}
		fmt.Fprintf(&sb, " d%d%s=%s", idx, r, d)
	}
	return sb.String()
}

// runSeq executes one `seq` / `mempool` op; returns the observed field and the canonical output.
func (e *txfeeEnv) runSeq(op *txfeeSeqOp, out *Out) (obs string, outp string) {
	k := e.freshKeys()
	base := &txfeeOp{floor: op.floor, convD: op.convD, convR: op.convR, sched: op.sched, payfee: op.payfee,
		bal: op.bal, allow: op.alP, auth: op.auth, sig: "ok"}
	e.prepare(base, k)
	{
		ctx := e.dctx()
		for _, r := range []string{"X", "G"} {
			e.fund(ctx, k.addr[r], sdk.NewCoins(sdk.NewInt64Coin(txfeePayDenom, 1000)))
		}
		if op.alX != "-" {
			al := &feegrant.BasicAllowance{}
			if op.alX != "unl" {
				cs, err := txfeeCoins(op.alX)
				if err != nil {
					e.t.Fatal(err)
				}
				al.SpendLimit = sdk.NewCoins(cs...)
			}
			if err := e.app.FeeGrantKeeper.GrantAllowance(ctx, k.addr["G"], k.addr["X"], al); err != nil {
				e.t.Fatalf("GrantAllowance: %v", err)
			}
		}
		ctx.MultiStore().(storetypes.CacheMultiStore).Write()
	}
	if _, err := e.app.Commit(); err != nil {
		e.t.Fatalf("Commit: %v", err)
	}
	n := len(op.txs)
	txbs := make([][]byte, n)
	for i := range op.txs {
		t := &op.txs[i]
		k.signer = t.payer
		pos := 0
		msgs, err := e.buildMsgs(t.body, &pos, k, 0)
		if err == nil {
			txbs[i], err = e.signSeq(k, t, msgs)
		}
		if err != nil {
			e.finalize(nil)
			return "-", "err:badop " + err.Error()
		}
	}
	k.signer = ""
	before := e.balances(e.cctx(), k) // the committed state
	obsF := make([]string, n)
	res := make([]string, n)
	var dumps strings.Builder
	if op.check {
		for i := range op.txs {
			cres, err := e.app.CheckTx(&abci.RequestCheckTx{Tx: txbs[i], Type: abci.CheckTxType_New})
			if err != nil {
				e.t.Fatalf("CheckTx: %v", err)
			}
			cls := txfeeClass(cres.Codespace, cres.Code)
			res[i] = fmt.Sprintf("c%d=%s", i+1, cls)
			obsF[i] = "-0"
			if cls == "oog" {
				obsF[i] = "g0"
			}
			out.Count("mempool:c=" + cls)
			ctx := e.cctx()
			dumps.WriteString(e.seqDump(ctx, k, i, before, e.balances(ctx, k), ""))
		}
		e.finalize(nil)
		return strings.Join(obsF, ","), strings.Join(res, " ") + dumps.String()
	}
	nb := op.txs[n-1].blk + 1
	cumC := sdk.Coins{}
	for b := 0; b < nb; b++ {
		var txs [][]byte
		var idx []int
		for i, t := range op.txs {
			if t.blk == b {
				txs = append(txs, txbs[i])
				idx = append(idx, i)
			}
		}
		fres := e.finalize(txs)
		for j, i := range idx {
			r := fres.TxResults[j]
			cls := txfeeClass(r.Codespace, r.Code)
			res[i] = fmt.Sprintf("t%d=%s", i+1, cls)
			ev := "0"
			if len(r.Events) > 0 {
				ev = "1"
			}
			g := "-"
			if cls == "oog" {
				g = "a"
				if ev == "1" {
					g = "m"
				}
			}
			obsF[i] = g + ev
			out.Count("seq:t=" + cls + "/ev" + ev)
		}
		ctx := e.dctx()
		after := e.balances(ctx, k)
		cumC = cumC.Add(after["C"]...)
		dumps.WriteString(e.seqDump(ctx, k, b, before, after, txfeeDelta(cumC, nil)))
		if b < nb-1 {
			if b == 0 && op.cfg2 {
				e.setFeeCfg(ctx, k, op.floor2, op.convD2, op.convR2, op.sched2)
				ctx.MultiStore().(storetypes.CacheMultiStore).Write()
			}
			if _, err := e.app.Commit(); err != nil {
				e.t.Fatalf("Commit: %v", err)
			}
		}
	}
	return strings.Join(obsF, ","), strings.Join(res, " ") + dumps.String()
}

func (e *txfeeEnv) emitSeq(out *Out, op *txfeeSeqOp) {
	e.ncase += len(op.txs)
	var obs, res string
	res = Guard(func() string {
		o, r := e.runSeq(op, out)
		obs = o
		return r
	})
	if obs == "" {
		obs = "-"
	}
	out.Emit(op.line()+" obs="+obs, res)
}

// ---- generator ----

// txfeeSeqBody: a small body signed by `payer`: own sends (some that cannot succeed), custom fees,
// payments (a repeated external id is refused), MsgExec with own messages and — for P, which may
// hold an authz grant of X — messages of X; for the others a message of P they hold no grant for.
func txfeeSeqBody(rng *RNG, payer string, floorDenom, convD string, nPay map[string]int, shape map[string]bool) []string {
	var gen func(depth int) []string
	gen = func(depth int) []string {
		r := rng.Intn(100)
		switch {
		case r < 42:
			shape["send"] = true
			return []string{fmt.Sprintf("send:%s:Q:%d%s", payer, 1+rng.Intn(100), Pick(rng, []string{floorDenom, "hotdog", "nhash"}))}
		case r < 48:
			shape["badsend"] = true
			return []string{fmt.Sprintf("send:%s:Q:%dnobodyhas", payer, 1+rng.Intn(9))}
		case r < 56 && depth > 0:
			shape["othersend"] = true
			other := "X"
			if payer != "P" {
				other = "P"
			}
			return []string{fmt.Sprintf("send:%s:Q:%d%s", other, 1+rng.Intn(20), Pick(rng, []string{"nhash", "hotdog"}))}
		case r < 68:
			shape["assess"] = true
			d := "usd"
			switch x := rng.Intn(10); {
			case x < 3:
				d = convD
			case x == 3:
				d = "jackthecat"
			}
			return []string{fmt.Sprintf("assess:%d%s:%s:%s", 1+rng.Intn(50), d, Pick(rng, []string{"-", "R1", "R2", "Q"}), Pick(rng, []string{"-", "-", "0", "1", "5000", "9999", "10000"}))}
		case r < 82:
			shape["pay"] = true
			id := "a"
			if nPay[payer] > 0 && !rng.Chance(30) {
				id = string(rune('a' + nPay[payer]))
			} else if nPay[payer] > 0 {
				shape["duppay"] = true
			}
			nPay[payer]++
			return []string{"pay:" + id}
		default:
			if depth >= 1 {
				return []string{fmt.Sprintf("send:%s:Q:1nhash", payer)}
			}
			shape["exec"] = true
			toks := []string{"exec("}
			for i, n := 0, 1+rng.Intn(2); i < n; i++ {
				toks = append(toks, gen(depth+1)...)
			}
			return append(toks, ")")
		}
	}
	var body []string
	for i, n := 0, 1+rng.Intn(2); i < n; i++ {
		body = append(body, gen(0)...)
	}
	return body
}

func txfeeSeqGen(rng *RNG, out *Out) *txfeeSeqOp {
	op := &txfeeSeqOp{bal: map[string]sdk.Coins{}, payfee: "-", alP: "-", alX: "-"}
	op.check = rng.Chance(33)
	kind := "seq"
	if op.check {
		kind = "mempool"
	}
	out.Count(kind)
	floorDenom := "nhash"
	if rng.Chance(10) {
		floorDenom = "hotdog"
	}
	op.floor = sdk.Coin{Denom: floorDenom, Amount: sdkmath.NewInt(Pick(rng, []int64{0, 1, 1, 1, 2, 19, 1905}))}
	op.convD = "nhash"
	if rng.Chance(15) {
		op.convD = "hotdog"
	}
	op.convR = Pick(rng, []uint64{0, 1, 25, 25, 1000})
	feeDenoms := []string{floorDenom, floorDenom, "hotdog", "nhash", "jackthecat"}
	rcps := []string{"-", "-", "-", "R1", "R2", "Q", "R1", "P", "X"}
	bipsSet := []uint32{0, 1, 2500, 3333, 5000, 9999, 10000, 10000}
	for _, ty := range []string{"send", "exec", "assess", "pay"} {
		p := 30
		if ty == "send" {
			p = 55
		}
		if rng.Chance(p) {
			op.sched = append(op.sched, txfeeSched{typ: ty, fee: sdk.Coin{Denom: Pick(rng, feeDenoms), Amount: sdkmath.NewInt(Pick(rng, txfeeFeeAmts))},
				rcp: Pick(rng, rcps), bips: Pick(rng, bipsSet)})
		}
	}
	var payfee *sdk.Coin
	if rng.Chance(40) {
		c := sdk.Coin{Denom: Pick(rng, feeDenoms[:4]), Amount: sdkmath.NewInt(Pick(rng, []int64{1, 7, 100, 10000}))}
		payfee = &c
		op.payfee = c.Amount.String() + c.Denom
	}
	op.auth = !rng.Chance(20)

	// ---- who, in which block ----
	n := 2 + rng.Intn(3)
	var payers []string
	switch p := rng.Intn(100); {
	case p < 35:
		one := Pick(rng, []string{"P", "P", "X", "G"})
		for i := 0; i < n; i++ {
			payers = append(payers, one)
		}
		out.Count(kind + ":payers=one")
	case p < 80:
		two := Pick(rng, [][]string{{"P", "X"}, {"P", "G"}, {"X", "G"}, {"P", "X"}})
		for i := 0; i < n; i++ {
			payers = append(payers, two[rng.Intn(2)])
		}
		out.Count(kind + ":payers=two")
	default:
		for i := 0; i < n; i++ {
			payers = append(payers, Pick(rng, txfeeSeqPayers))
		}
		out.Count(kind + ":payers=any")
	}
	blks := make([]int, n)
	if !op.check {
		switch b := rng.Intn(100); {
		case b < 45: // one block
			out.Count("seq:blocks=one")
		case b < 70: // a block each
			for i := range blks {
				blks[i] = i
			}
			out.Count("seq:blocks=each")
		default:
			for i := 1; i < n; i++ {
				blks[i] = blks[i-1] + rng.Intn(2)
			}
			out.Count("seq:blocks=mixed")
		}
	} else {
		for i := range blks {
			blks[i] = i
		}
	}
	// ---- the configuration from block 1 on ----
	if !op.check && blks[n-1] > 0 && rng.Chance(35) {
		op.cfg2 = true
		op.floor2, op.convD2, op.convR2 = op.floor, op.convD, op.convR
		op.sched2 = append([]txfeeSched(nil), op.sched...)
		switch c := rng.Intn(100); {
		case c < 40:
			op.floor2.Amount = op.floor2.Amount.MulRaw(2).AddRaw(int64(rng.Intn(2)))
			out.Count("seq:chg:floor_up")
		case c < 55:
			op.floor2.Amount = op.floor2.Amount.QuoRaw(2)
			out.Count("seq:chg:floor_down")
		case c < 80 && len(op.sched2) > 0:
			j := rng.Intn(len(op.sched2))
			op.sched2[j].fee.Amount = op.sched2[j].fee.Amount.AddRaw(Pick(rng, txfeeFeeAmts))
			op.sched2[j].rcp, op.sched2[j].bips = Pick(rng, rcps), Pick(rng, bipsSet)
			out.Count("seq:chg:fee_changed")
		case c < 90 && len(op.sched2) > 0:
			j := rng.Intn(len(op.sched2))
			op.sched2 = append(op.sched2[:j], op.sched2[j+1:]...)
			out.Count("seq:chg:fee_removed")
		default:
			op.convR2 = Pick(rng, []uint64{1, 26, 50, 1000})
			out.Count("seq:chg:conv")
		}
	}
	cfgOf := func(blk int) (sdk.Coin, string, uint64, []txfeeSched) {
		if blk > 0 && op.cfg2 {
			return op.floor2, op.convD2, op.convR2, op.sched2
		}
		return op.floor, op.convD, op.convR, op.sched
	}

	// ---- the transactions ----
	nPay := map[string]int{}
	shape := map[string]bool{}
	owes := map[string]txfeeNeed{"P": {}, "X": {}, "G": {}} // what each account would pay if everything succeeded
	type step struct {
		src  string
		base txfeeNeed
		fee  txfeeNeed
		cum  txfeeNeed // what the source owes for everything before this transaction
	}
	var steps []step
	granted := map[string]txfeeNeed{"P": {}, "X": {}}
	firstBase := map[string]txfeeNeed{}
	expSeq := map[string]int{}
	for i := 0; i < n; i++ {
		payer := payers[i]
		fl, cD, cR, sc := cfgOf(blks[i])
		t := txfeeSeqTx{payer: payer, blk: blks[i]}
		t.body = txfeeSeqBody(rng, payer, fl.Denom, cD, nPay, shape)
		t.rawBody = strings.Join(t.body, ";")
		need, needTop := txfeeNeedsOf(t.body, sc, payfee, cD, cR)
		routed := 0
		for _, tk := range t.body {
			if tk != ")" && tk != "" {
				routed++
			}
		}
		switch g := rng.Intn(100); {
		case g < 3:
			t.gas = uint64(1000 + rng.Intn(20000))
			out.Count(kind + ":gas:tiny")
		case g < 6:
			t.gas = uint64(50000 + rng.Intn(60000))
			out.Count(kind + ":gas:low")
		case g < 9:
			t.gas = uint64(4_000_000 + rng.Intn(3))
			out.Count(kind + ":gas:limit")
		default:
			t.gas = uint64(150000 + 120000*routed + rng.Intn(50000))
		}
		base := new(big.Int).Mul(fl.Amount.BigInt(), new(big.Int).SetUint64(t.gas))
		baseN := txfeeNeed{}
		baseN.add(fl.Denom, base)
		declared := need.clone()
		declared.add(fl.Denom, base)
		mode := ""
		pickDenom := func(nd txfeeNeed) string {
			cs := nd.coins()
			if len(cs) == 0 {
				return ""
			}
			return cs[rng.Intn(len(cs))].Denom
		}
		switch m := rng.Intn(100); {
		case m < 45:
			mode = "at"
		case m < 62:
			mode = "above"
			d := pickDenom(declared)
			if d == "" || rng.Chance(30) {
				d = Pick(rng, []string{"nhash", "hotdog", "extradenom"})
			}
			declared.add(d, big.NewInt(int64(1+rng.Intn(1000))))
		case m < 75:
			mode = "below"
			if d := pickDenom(declared); d != "" {
				if rng.Chance(25) {
					delete(declared, d)
				} else {
					declared[d].Sub(declared[d], big.NewInt(1))
				}
			}
		case m < 83:
			mode = "toponly"
			declared = needTop.clone()
			declared.add(fl.Denom, base)
		case m < 93:
			mode = "baseonly"
			declared = baseN.clone()
		default:
			mode = "belowbase"
			declared = need.clone()
			if base.Sign() > 0 {
				declared.add(fl.Denom, new(big.Int).Sub(base, big.NewInt(int64(1+rng.Intn(5)))))
			}
		}
		out.Count(kind + ":fee:" + mode)
		t.fee = declared.coins()
		t.fg = payer != "G" && rng.Chance(30)
		src := payer
		if t.fg {
			src = "G"
			for d, v := range declared {
				granted[payer].add(d, v)
			}
			if firstBase[payer] == nil {
				firstBase[payer] = baseN.clone()
			}
			out.Count(kind + ":feegrant")
		}
		steps = append(steps, step{src: src, base: baseN, fee: declared.clone(), cum: owes[src].clone()})
		for d, v := range declared {
			owes[src].add(d, v)
		}
		// what the signer's own messages send away
		for _, tk := range t.body {
			f := strings.Split(tk, ":")
			if len(f) == 4 && f[0] == "send" && !strings.HasSuffix(f[3], "nobodyhas") {
				if c, err := txfeeCoin(f[3]); err == nil && (f[1] == "P" || f[1] == "X" || f[1] == "G") {
					owes[f[1]].add(c.Denom, c.Amount.BigInt())
				}
			}
		}
		// the sequence it is signed with: the next one if everything before it got past the ante
		// handler — mostly; sometimes one too far, sometimes one already used
		t.sq = expSeq[payer]
		switch s := rng.Intn(100); {
		case s < 6:
			t.sq++
			out.Count(kind + ":sq:ahead")
		case s < 10 && t.sq > 0:
			t.sq--
			out.Count(kind + ":sq:replayed")
		default:
			if t.gas <= 4_000_000 {
				expSeq[payer]++
			}
		}
		op.txs = append(op.txs, t)
	}
	for s := range shape {
		out.Count(kind + ":body:" + s)
	}
	out.Count(fmt.Sprintf("%s:n=%d", kind, n))

	// ---- balances ----
	balMode := ""
	bals := map[string]txfeeNeed{}
	for _, r := range txfeeSeqPayers {
		bals[r] = owes[r].clone()
	}
	switch b := rng.Intn(100); {
	case b < 50:
		balMode = "ample"
		for _, r := range txfeeSeqPayers {
			for d := range bals[r] {
				bals[r][d].Add(bals[r][d], big.NewInt(int64(1000+rng.Intn(100000))))
			}
			bals[r].add("nhash", big.NewInt(1000))
			bals[r].add("hotdog", big.NewInt(1000))
		}
	case b < 68:
		balMode = "exact"
	default:
		// one paying account runs dry at one of its transactions: one unit short of that one's base
		// fee (refused by the ante handler), exactly its base fee (the sweep then fails unless
		// nothing more was declared), or one unit short of its declared fee
		j := rng.Intn(len(steps))
		st := steps[j]
		nb := st.cum.clone()
		switch x := rng.Intn(3); x {
		case 0:
			balMode = "dry:below_base"
			for d, v := range st.base {
				nb.add(d, new(big.Int).Sub(v, big.NewInt(1)))
			}
		case 1:
			balMode = "dry:base"
			for d, v := range st.base {
				nb.add(d, v)
			}
		default:
			balMode = "dry:below_fee"
			first := true
			var ds []string
			for d := range st.fee {
				ds = append(ds, d)
			}
			sort.Strings(ds)
			for _, d := range ds {
				v := st.fee[d]
				if first && v.Sign() > 0 {
					nb.add(d, new(big.Int).Sub(v, big.NewInt(1)))
					first = false
				} else {
					nb.add(d, v)
				}
			}
		}
		bals[st.src] = nb
	}
	out.Count(kind + ":bal:" + balMode)
	bals["X"].add("nhash", big.NewInt(100))
	bals["X"].add("hotdog", big.NewInt(100))
	for _, r := range txfeeSeqPayers {
		op.bal[r] = bals[r].coins()
	}
	// ---- allowances ----
	allowFor := func(p string) string {
		g := granted[p]
		if len(g.coins()) == 0 && firstBase[p] == nil {
			// not used by any transaction: it must not move
			return Pick(rng, []string{"-", "-", "unl", "500nhash", "7hotdog,3nhash"})
		}
		switch a := rng.Intn(100); {
		case a < 35:
			return "unl"
		case a < 55:
			out.Count(kind + ":allow:exact")
			return txfeeCoinsStr(g.coins())
		case a < 70:
			an := g.clone()
			an.add("nhash", big.NewInt(777))
			out.Count(kind + ":allow:more")
			return txfeeCoinsStr(an.coins())
		case a < 82:
			an := g.clone()
			cs := an.coins()
			if len(cs) > 0 {
				d := cs[rng.Intn(len(cs))].Denom
				an[d].Sub(an[d], big.NewInt(1))
			}
			out.Count(kind + ":allow:less")
			return txfeeCoinsStr(an.coins())
		case a < 92:
			out.Count(kind + ":allow:first_base")
			return txfeeCoinsStr(firstBase[p].coins())
		default:
			out.Count(kind + ":allow:none")
			return "-"
		}
	}
	op.alP, op.alX = allowFor("P"), allowFor("X")
	if op.alP == "" {
		op.alP = "-"
	}
	if op.alX == "" {
		op.alX = "-"
	}
	return op
}
