package harness

// Generator for the txfee stream: message-fee schedule × floor price × declared fee
// {below, at, above, top-level-only; 1–3 denoms} × gas × payer balance × fee grant × bodies of
// 1–3 messages (sends that succeed or overspend, authz MsgExec with nested messages,
// MsgAssessCustomMsgFee, exchange payments with a handler-level fee).

import (
	"fmt"
	"math/big"
	"sort"
	"strings"

	sdkmath "cosmossdk.io/math"

	sdk "github.com/cosmos/cosmos-sdk/types"
)

type txfeeNeed map[string]*big.Int

func (n txfeeNeed) add(d string, x *big.Int) {
	if x.Sign() == 0 {
		return
	}
	if n[d] == nil {
		n[d] = new(big.Int)
	}
	n[d].Add(n[d], x)
}

func (n txfeeNeed) coins() sdk.Coins {
	var ds []string
	for d, v := range n {
		if v.Sign() > 0 {
			ds = append(ds, d)
		}
	}
	sort.Strings(ds)
	out := sdk.Coins{}
	for _, d := range ds {
		out = append(out, sdk.Coin{Denom: d, Amount: sdkmath.NewIntFromBigInt(n[d])})
	}
	return out
}

func (n txfeeNeed) clone() txfeeNeed {
	o := txfeeNeed{}
	for d, v := range n {
		o[d] = new(big.Int).Set(v)
	}
	return o
}

var txfeeFeeAmts = []int64{1, 2, 3, 7, 10, 99, 9999, 10000, 10001, 12345, 1000000}

func txfeeGen(rng *RNG, out *Out) *txfeeOp {
	op := &txfeeOp{bal: map[string]sdk.Coins{}, payfee: "-", allow: "-", sig: "ok"}
	floorDenom := "nhash"
	if rng.Chance(10) {
		floorDenom = "hotdog"
	}
	op.floor = sdk.Coin{Denom: floorDenom, Amount: sdkmath.NewInt(Pick(rng, []int64{0, 1, 1, 2, 19, 1905}))}
	op.convD = "nhash"
	if rng.Chance(15) {
		op.convD = "hotdog"
	}
	op.convR = Pick(rng, []uint64{0, 1, 25, 25, 1000, 40000})
	feeDenoms := []string{floorDenom, floorDenom, "hotdog", "nhash", "jackthecat"}
	bigAmt := func() sdkmath.Int {
		if rng.Chance(6) {
			x := new(big.Int).Mod(rng.BigBoundary(), new(big.Int).Lsh(big.NewInt(1), 100))
			return sdkmath.NewIntFromBigInt(x.Add(x, big.NewInt(1)))
		}
		return sdkmath.NewInt(Pick(rng, txfeeFeeAmts))
	}
	rcps := []string{"-", "-", "-", "R1", "R2", "Q", "R1", "P"}
	bipsSet := []uint32{0, 1, 2500, 3333, 5000, 9999, 10000, 10000}
	for _, ty := range []string{"send", "exec", "assess", "pay"} {
		p := 30
		if ty == "send" {
			p = 55
		}
		if rng.Chance(p) {
			op.sched = append(op.sched, txfeeSched{typ: ty, fee: sdk.Coin{Denom: Pick(rng, feeDenoms), Amount: bigAmt()}, rcp: Pick(rng, rcps), bips: Pick(rng, bipsSet)})
		}
	}
	var payfee *sdk.Coin
	if rng.Chance(50) {
		c := sdk.Coin{Denom: Pick(rng, feeDenoms[:4]), Amount: sdkmath.NewInt(Pick(rng, []int64{1, 7, 100, 10000}))}
		payfee = &c
		op.payfee = c.Amount.String() + c.Denom
	}
	op.auth = !rng.Chance(12)

	// ---- body ----
	need := txfeeNeed{}    // every additional fee incurred if all messages run
	needTop := txfeeNeed{} // what the mempool check sees (top-level messages only)
	spend := txfeeNeed{}   // what P's own messages send away
	routed := 0
	nPay := 0
	shape := map[string]bool{}
	schedOf := func(ty string) *txfeeSched {
		for i := range op.sched {
			if op.sched[i].typ == ty {
				return &op.sched[i]
			}
		}
		return nil
	}
	incur := func(ty string, top bool) {
		routed++
		if s := schedOf(ty); s != nil {
			need.add(s.fee.Denom, s.fee.Amount.BigInt())
			if top {
				needTop.add(s.fee.Denom, s.fee.Amount.BigInt())
			}
		}
	}
	var gen func(depth int) []string
	gen = func(depth int) []string {
		top := depth == 0
		r := rng.Intn(100)
		switch {
		case r < 40: // send from P
			d := Pick(rng, []string{floorDenom, "hotdog", "nhash"})
			amt := int64(1 + rng.Intn(100))
			incur("send", top)
			spend.add(d, big.NewInt(amt))
			shape["send"] = true
			return []string{fmt.Sprintf("send:P:Q:%d%s", amt, d)}
		case r < 46: // send that cannot succeed (denom nobody has)
			incur("send", top)
			shape["badsend"] = true
			return []string{fmt.Sprintf("send:P:Q:%dnobodyhas", 1+rng.Intn(9))}
		case r < 52 && depth > 0: // send on behalf of X
			incur("send", top)
			shape["xsend"] = true
			return []string{fmt.Sprintf("send:X:Q:%d%s", 1+rng.Intn(50), Pick(rng, []string{"nhash", "hotdog"}))}
		case r < 68: // custom fee
			incur("assess", top)
			shape["assess"] = true
			d := "usd"
			switch x := rng.Intn(10); {
			case x < 3:
				d = op.convD
			case x == 3:
				d = "jackthecat"
			}
			amt := int64(1 + rng.Intn(50))
			conv := big.NewInt(amt)
			if d == "usd" {
				conv.Mul(conv, new(big.Int).SetUint64(op.convR))
			}
			if d != "jackthecat" {
				need.add(op.convD, conv)
				if top {
					needTop.add(op.convD, conv)
				}
			}
			return []string{fmt.Sprintf("assess:%d%s:%s:%s", amt, d, Pick(rng, []string{"-", "R1", "R2", "Q"}), Pick(rng, []string{"-", "-", "0", "1", "5000", "9999", "10000"}))}
		case r < 82: // exchange payment
			incur("pay", top)
			shape["pay"] = true
			id := "a"
			if nPay > 0 && !rng.Chance(25) {
				id = string(rune('a' + nPay))
			} else if nPay > 0 {
				shape["duppay"] = true
			}
			nPay++
			if payfee != nil {
				need.add(payfee.Denom, payfee.Amount.BigInt())
			}
			return []string{"pay:" + id}
		default:
			if depth >= 2 {
				incur("send", top)
				spend.add("nhash", big.NewInt(1))
				return []string{"send:P:Q:1nhash"}
			}
			incur("exec", top)
			if depth == 0 {
				shape["exec"] = true
			} else {
				shape["nested"] = true
			}
			toks := []string{"exec("}
			for i, n := 0, 1+rng.Intn(2); i < n; i++ {
				toks = append(toks, gen(depth+1)...)
			}
			return append(toks, ")")
		}
	}
	var body []string
	nTop := 1 + rng.Intn(3)
	for i := 0; i < nTop; i++ {
		body = append(body, gen(0)...)
	}
	op.body = body
	op.rawBody = strings.Join(body, ";")
	out.Count(fmt.Sprintf("top_msgs=%d", nTop))
	for k := range shape {
		out.Count("body:" + k)
	}

	// ---- gas ----
	switch g := rng.Intn(100); {
	case g < 3:
		op.gas = uint64(1000 + rng.Intn(20000))
		out.Count("gas:tiny")
	case g < 8:
		op.gas = uint64(50000 + rng.Intn(60000))
		out.Count("gas:low")
	case g < 11:
		op.gas = uint64(4_000_000 + rng.Intn(3)) // 4_000_000 is allowed, above is not
		out.Count("gas:limit")
	default:
		op.gas = uint64(150000 + 120000*routed + rng.Intn(50000))
		out.Count("gas:normal")
	}
	base := new(big.Int).Mul(op.floor.Amount.BigInt(), new(big.Int).SetUint64(op.gas))

	// ---- declared fee ----
	req := need.clone()
	req.add(floorDenom, base)
	declared := req.clone()
	mode := ""
	pickDenom := func(n txfeeNeed) string {
		cs := n.coins()
		if len(cs) == 0 {
			return ""
		}
		return cs[rng.Intn(len(cs))].Denom
	}
	switch m := rng.Intn(100); {
	case m < 38:
		mode = "at"
	case m < 58:
		mode = "above"
		d := pickDenom(declared)
		if d == "" || rng.Chance(30) {
			d = Pick(rng, []string{"nhash", "hotdog", "extradenom"})
		}
		declared.add(d, big.NewInt(int64(1+rng.Intn(1000))))
	case m < 80:
		mode = "below"
		if d := pickDenom(declared); d != "" {
			if rng.Chance(25) {
				delete(declared, d)
			} else {
				declared[d].Sub(declared[d], big.NewInt(1))
			}
		}
	case m < 90:
		mode = "toponly" // covers what the mempool check sees, not the nested / handler fees
		declared = needTop.clone()
		declared.add(floorDenom, base)
	case m < 95:
		mode = "baseonly"
		declared = txfeeNeed{}
		declared.add(floorDenom, base)
	default:
		mode = "belowbase"
		declared = need.clone()
		if base.Sign() > 0 {
			declared.add(floorDenom, new(big.Int).Sub(base, big.NewInt(int64(1+rng.Intn(5)))))
		}
	}
	out.Count("fee:" + mode)
	op.fee = declared.coins()
	out.Count(fmt.Sprintf("fee_denoms=%d", len(op.fee)))

	// ---- who pays, balances ----
	op.fg = rng.Chance(22)
	payerNeeds := declared.clone()
	balMode := ""
	switch b := rng.Intn(100); {
	case b < 55:
		balMode = "ample"
		for d := range payerNeeds {
			payerNeeds[d].Add(payerNeeds[d], big.NewInt(int64(1000+rng.Intn(100000))))
		}
		payerNeeds.add("nhash", big.NewInt(1000))
		payerNeeds.add("hotdog", big.NewInt(1000))
	case b < 72:
		balMode = "exact"
	case b < 84:
		balMode = "short1" // one unit short of the declared fee in one denom
		if d := pickDenom(payerNeeds); d != "" {
			payerNeeds[d].Sub(payerNeeds[d], big.NewInt(1))
		}
	case b < 90:
		balMode = "baseonly"
		payerNeeds = txfeeNeed{}
		payerNeeds.add(floorDenom, base)
	case b < 95:
		balMode = "belowbase"
		payerNeeds = txfeeNeed{}
		if base.Sign() > 0 {
			payerNeeds.add(floorDenom, new(big.Int).Sub(base, big.NewInt(1)))
		}
	default:
		balMode = "noadditional" // has the base fee but not the additional fee denoms
		payerNeeds = txfeeNeed{}
		payerNeeds.add(floorDenom, new(big.Int).Add(base, big.NewInt(5)))
	}
	out.Count("bal:" + balMode)
	if op.fg {
		op.bal["G"] = payerNeeds.coins()
		pb := spend.clone()
		if rng.Chance(50) {
			pb.add("nhash", big.NewInt(500))
		}
		if rng.Chance(30) {
			// the payer could pay everything itself: only the named granter may be charged
			for d, v := range payerNeeds {
				pb.add(d, v)
			}
			out.Count("feegrant:payer_rich")
		}
		op.bal["P"] = pb.coins()
		switch a := rng.Intn(100); {
		case a < 35:
			op.allow = "unl"
		case a < 55:
			op.allow = txfeeCoinsStr(declared.coins())
			out.Count("allow:declared")
		case a < 65:
			bn := txfeeNeed{}
			bn.add(floorDenom, base)
			op.allow = txfeeCoinsStr(bn.coins())
			out.Count("allow:base")
		case a < 80:
			an := declared.clone()
			an.add("nhash", big.NewInt(777))
			op.allow = txfeeCoinsStr(an.coins())
			out.Count("allow:more")
		case a < 93:
			an := declared.clone()
			if d := pickDenom(an); d != "" {
				an[d].Sub(an[d], big.NewInt(1))
			}
			op.allow = txfeeCoinsStr(an.coins())
			out.Count("allow:less")
		default:
			op.allow = "-"
			out.Count("allow:none")
		}
		if op.allow == "-" || op.allow == "" {
			op.allow = "-"
		}
		out.Count("feegrant")
	} else {
		// the payer also funds its own sends (ample / exact) or not (the sweep then fails)
		if balMode == "ample" || (balMode == "exact" && rng.Chance(70)) {
			for d, v := range spend {
				payerNeeds.add(d, v)
			}
		}
		op.bal["P"] = payerNeeds.coins()
	}
	op.bal["X"] = sdk.NewCoins(sdk.NewInt64Coin("nhash", 100), sdk.NewInt64Coin("hotdog", 100))
	if rng.Chance(3) {
		op.sig = "bad"
	}
	op.force = rng.Chance(50)
	return op
}
