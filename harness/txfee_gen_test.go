package harness

// Generator for the txfee stream: message-fee schedule × floor price × declared fee
// {below, at, above, top-level-only; 1–3 denoms} × gas × payer balance × fee grant × bodies of
// 1–3 messages (sends that succeed or overspend, authz MsgExec with nested messages,
// MsgAssessCustomMsgFee, exchange payments with a handler-level fee) × (for a share of the cases)
// a committed change of the fee configuration between mempool admission and execution
// (floor price raised / lowered / other denom, message fees added / raised / lowered / removed /
// other denom or recipient, conversion rate changed) followed by a mempool recheck.
// The configuration is what the chain was SET UP with (written straight into the store; floor
// prices below / at / just above / twice the compiled-in default) changed — for 40% of the cases
// before the tx arrives, for half of the in-between changes — by governance proposals run through
// the real x/msgfees message handlers (txfee_gov_test.go): usd rate, conversion denom, fees added /
// updated / removed, one or two messages per proposal, a minority refused by the keeper.  The
// declared fee is chosen against the configuration the proposals leave behind — below / at / above
// it, far above it (`wayabove`: a failed transaction still costs floor x gas only), or at what the
// messages of voted-down / discarded proposals would have required had they stayed written
// (`at_discarded_cfg`).  18% of the proposals are discarded branches: accepted schedule changes
// followed by a last message the keeper refuses.

import (
	"fmt"
	"math/big"
	"sort"
	"strings"

	sdkmath "cosmossdk.io/math"

	sdk "github.com/cosmos/cosmos-sdk/types"
)

type txfeeNeed map[string]*big.Int

func (n txfeeNeed) add(d string, x *big.Int) {
	if x.Sign() == 0 {
		return
	}
	if n[d] == nil {
		n[d] = new(big.Int)
	}
	n[d].Add(n[d], x)
}

func (n txfeeNeed) coins() sdk.Coins {
	var ds []string
	for d, v := range n {
		if v.Sign() > 0 {
			ds = append(ds, d)
		}
	}
	sort.Strings(ds)
	out := sdk.Coins{}
	for _, d := range ds {
		out = append(out, sdk.Coin{Denom: d, Amount: sdkmath.NewIntFromBigInt(n[d])})
	}
	return out
}

func (n txfeeNeed) clone() txfeeNeed {
	o := txfeeNeed{}
	for d, v := range n {
		o[d] = new(big.Int).Set(v)
	}
	return o
}

var txfeeFeeAmts = []int64{1, 2, 3, 7, 10, 99, 9999, 10000, 10001, 12345, 1000000}

func txfeeGen(rng *RNG, out *Out) *txfeeOp {
	op := &txfeeOp{bal: map[string]sdk.Coins{}, payfee: "-", allow: "-", sig: "ok"}
	floorDenom := "nhash"
	if rng.Chance(10) {
		floorDenom = "hotdog"
	}
	op.floor = sdk.Coin{Denom: floorDenom, Amount: sdkmath.NewInt(Pick(rng, txfeeFloors))}
	op.convD = "nhash"
	if rng.Chance(15) {
		op.convD = "hotdog"
	}
	op.convR = Pick(rng, []uint64{0, 1, 25, 25, 1000, 40000})
	feeDenoms := []string{floorDenom, floorDenom, "hotdog", "nhash", "jackthecat"}
	bigAmt := func() sdkmath.Int {
		if rng.Chance(6) {
			x := new(big.Int).Mod(rng.BigBoundary(), new(big.Int).Lsh(big.NewInt(1), 100))
			return sdkmath.NewIntFromBigInt(x.Add(x, big.NewInt(1)))
		}
		return sdkmath.NewInt(Pick(rng, txfeeFeeAmts))
	}
	rcps := []string{"-", "-", "-", "R1", "R2", "Q", "R1", "P"}
	bipsSet := []uint32{0, 1, 2500, 3333, 5000, 9999, 10000, 10000}
	for _, ty := range []string{"send", "exec", "assess", "pay"} {
		p := 30
		if ty == "send" {
			p = 55
		}
		if rng.Chance(p) {
			op.sched = append(op.sched, txfeeSched{typ: ty, fee: sdk.Coin{Denom: Pick(rng, feeDenoms), Amount: bigAmt()}, rcp: Pick(rng, rcps), bips: Pick(rng, bipsSet)})
		}
	}
	var payfee *sdk.Coin
	if rng.Chance(50) {
		c := sdk.Coin{Denom: Pick(rng, feeDenoms[:4]), Amount: sdkmath.NewInt(Pick(rng, []int64{1, 7, 100, 10000}))}
		payfee = &c
		op.payfee = c.Amount.String() + c.Denom
	}
	op.auth = !rng.Chance(12)

	// ---- governance before the tx arrives: the configuration in force is no longer the one written ----
	effD, effR, effS := op.convD, op.convR, op.sched
	op.gv = "r"
	if rng.Chance(12) {
		op.gv = "v"
	}
	if rng.Chance(40) {
		op.gov = txfeeGenGov(rng, out, effD, effR, effS, feeDenoms, bigAmt, rcps, 1+rng.Intn(2))
		effD, effR, effS = txfeeGovApplyAll(effD, effR, effS, op.gov)
		out.Count("gov")
		out.Count("gov:via_" + op.gv)
		if !op.floor.Equal(msgfeesDefaultFloor) {
			out.Count("gov:floor_not_default")
		}
	}

	// ---- body ----
	need := txfeeNeed{}    // every additional fee incurred if all messages run
	needTop := txfeeNeed{} // what the mempool check sees (top-level messages only)
	spend := txfeeNeed{}   // what P's own messages send away
	routed := 0
	nPay := 0
	shape := map[string]bool{}
	schedOf := func(ty string) *txfeeSched {
		for i := range effS {
			if effS[i].typ == ty {
				return &effS[i]
			}
		}
		return nil
	}
	incur := func(ty string, top bool) {
		routed++
		if s := schedOf(ty); s != nil {
			need.add(s.fee.Denom, s.fee.Amount.BigInt())
			if top {
				needTop.add(s.fee.Denom, s.fee.Amount.BigInt())
			}
		}
	}
	var gen func(depth int) []string
	gen = func(depth int) []string {
		top := depth == 0
		r := rng.Intn(100)
		switch {
		case r < 40: // send from P
			d := Pick(rng, []string{floorDenom, "hotdog", "nhash"})
			amt := int64(1 + rng.Intn(100))
			incur("send", top)
			spend.add(d, big.NewInt(amt))
			shape["send"] = true
			return []string{fmt.Sprintf("send:P:Q:%d%s", amt, d)}
		case r < 46: // send that cannot succeed (denom nobody has)
			incur("send", top)
			shape["badsend"] = true
			return []string{fmt.Sprintf("send:P:Q:%dnobodyhas", 1+rng.Intn(9))}
		case r < 52 && depth > 0: // send on behalf of X
			incur("send", top)
			shape["xsend"] = true
			return []string{fmt.Sprintf("send:X:Q:%d%s", 1+rng.Intn(50), Pick(rng, []string{"nhash", "hotdog"}))}
		case r < 68: // custom fee
			incur("assess", top)
			shape["assess"] = true
			d := "usd"
			switch x := rng.Intn(10); {
			case x < 3:
				d = effD
			case x == 3:
				d = "jackthecat"
			}
			amt := int64(1 + rng.Intn(50))
			conv := big.NewInt(amt)
			if d == "usd" {
				conv.Mul(conv, new(big.Int).SetUint64(effR))
			}
			if d != "jackthecat" {
				need.add(effD, conv)
				if top {
					needTop.add(effD, conv)
				}
			}
			return []string{fmt.Sprintf("assess:%d%s:%s:%s", amt, d, Pick(rng, []string{"-", "R1", "R2", "Q"}), Pick(rng, []string{"-", "-", "0", "1", "5000", "9999", "10000"}))}
		case r < 82: // exchange payment
			incur("pay", top)
			shape["pay"] = true
			id := "a"
			if nPay > 0 && !rng.Chance(25) {
				id = string(rune('a' + nPay))
			} else if nPay > 0 {
				shape["duppay"] = true
			}
			nPay++
			if payfee != nil {
				need.add(payfee.Denom, payfee.Amount.BigInt())
			}
			return []string{"pay:" + id}
		default:
			if depth >= 2 {
				incur("send", top)
				spend.add("nhash", big.NewInt(1))
				return []string{"send:P:Q:1nhash"}
			}
			incur("exec", top)
			if depth == 0 {
				shape["exec"] = true
			} else {
				shape["nested"] = true
			}
			toks := []string{"exec("}
			for i, n := 0, 1+rng.Intn(2); i < n; i++ {
				toks = append(toks, gen(depth+1)...)
			}
			return append(toks, ")")
		}
	}
	var body []string
	nTop := 1 + rng.Intn(3)
	for i := 0; i < nTop; i++ {
		body = append(body, gen(0)...)
	}
	op.body = body
	op.rawBody = strings.Join(body, ";")
	out.Count(fmt.Sprintf("top_msgs=%d", nTop))
	for k := range shape {
		out.Count("body:" + k)
	}

	// ---- gas ----
	switch g := rng.Intn(100); {
	case g < 3:
		op.gas = uint64(1000 + rng.Intn(20000))
		out.Count("gas:tiny")
	case g < 8:
		op.gas = uint64(50000 + rng.Intn(60000))
		out.Count("gas:low")
	case g < 11:
		op.gas = uint64(4_000_000 + rng.Intn(3)) // 4_000_000 is allowed, above is not
		out.Count("gas:limit")
	default:
		op.gas = uint64(150000 + 120000*routed + rng.Intn(50000))
		out.Count("gas:normal")
	}
	base := new(big.Int).Mul(op.floor.Amount.BigInt(), new(big.Int).SetUint64(op.gas))

	// ---- declared fee ----
	req := need.clone()
	req.add(floorDenom, base)
	declared := req.clone()
	mode := ""
	pickDenom := func(n txfeeNeed) string {
		cs := n.coins()
		if len(cs) == 0 {
			return ""
		}
		return cs[rng.Intn(len(cs))].Denom
	}
	// the configuration that would be in force if every message the keeper accepted had stayed
	// written although its proposal failed (it never is in force; a declared fee chosen against it
	// is simply some other amount — below or above what the real configuration requires)
	staleD, staleR, staleS := op.convD, op.convR, op.sched
	for _, p := range op.gov {
		for _, gm := range p {
			txfeeGovApply(&staleD, &staleR, &staleS, gm)
		}
	}
	staleNeed, _ := txfeeNeedsOf(body, staleS, payfee, staleD, staleR)
	effNeed, _ := txfeeNeedsOf(body, effS, payfee, effD, effR)
	staleDiffers := txfeeCoinsStr(staleNeed.coins()) != txfeeCoinsStr(effNeed.coins())
	switch m := rng.Intn(100); {
	case staleDiffers && m < 50:
		mode = "at_discarded_cfg"
		declared = staleNeed.clone()
		declared.add(floorDenom, base)
	case m < 30:
		mode = "at"
	case m < 38:
		// far above what is required (a client that does not estimate): what a failed transaction
		// costs is floor price x gas limit however much was declared
		mode = "wayabove"
		slack := Pick(rng, []*big.Int{
			new(big.Int).Mul(msgfeesDefaultFloor.Amount.BigInt(), new(big.Int).SetUint64(op.gas)),
			new(big.Int).Add(base, big.NewInt(1)),
			new(big.Int).Mul(big.NewInt(5000), new(big.Int).SetUint64(op.gas)),
			big.NewInt(1_000_000_000_000)})
		declared.add(Pick(rng, []string{floorDenom, "nhash", "nhash"}), slack)
	case m < 58:
		mode = "above"
		d := pickDenom(declared)
		if d == "" || rng.Chance(30) {
			d = Pick(rng, []string{"nhash", "hotdog", "extradenom"})
		}
		declared.add(d, big.NewInt(int64(1+rng.Intn(1000))))
	case m < 80:
		mode = "below"
		if d := pickDenom(declared); d != "" {
			switch x := rng.Intn(100); {
			case x < 25:
				delete(declared, d)
			case x < 45 && declared[d].Cmp(big.NewInt(20)) > 0:
				// only a token amount of one required denom (the others are covered in full)
				declared[d] = big.NewInt(int64(1 + rng.Intn(10)))
				mode = "below_token"
			case x < 60 && len(declared) > 1:
				// covers (generously) exactly one of the required denoms, nothing of the others
				keep := new(big.Int).Add(declared[d], big.NewInt(int64(rng.Intn(1000))))
				declared = txfeeNeed{d: keep}
				mode = "below_onedenom"
			default:
				declared[d].Sub(declared[d], big.NewInt(1))
			}
		}
	case m < 90:
		mode = "toponly" // covers what the mempool check sees, not the nested / handler fees
		declared = needTop.clone()
		declared.add(floorDenom, base)
	case m < 95:
		mode = "baseonly"
		declared = txfeeNeed{}
		declared.add(floorDenom, base)
	default:
		mode = "belowbase"
		declared = need.clone()
		if base.Sign() > 0 {
			declared.add(floorDenom, new(big.Int).Sub(base, big.NewInt(int64(1+rng.Intn(5)))))
		}
	}
	// ---- a committed change of the fee configuration while the tx waits in the mempool ----
	if rng.Chance(35) {
		op.re = true
		op.floor2, op.convD2, op.convR2 = op.floor, effD, effR
		op.sched2 = append([]txfeeSched(nil), effS...)
		nch := 1 + rng.Intn(2)
		if rng.Chance(10) {
			nch = 0 // recheck against an unchanged configuration
			out.Count("chg:none")
		}
		for i := 0; i < nch; i++ {
			switch c := rng.Intn(100); {
			case c < 30: // floor price raised
				f := op.floor2.Amount
				switch rng.Intn(4) {
				case 0:
					f = f.AddRaw(1)
				case 1:
					f = f.MulRaw(2).AddRaw(int64(rng.Intn(2)))
				case 2:
					f = f.MulRaw(3)
				default:
					f = f.AddRaw(Pick(rng, []int64{5, 19, 1905}))
				}
				op.floor2.Amount = f
				out.Count("chg:floor_up")
			case c < 40: // floor price lowered
				op.floor2.Amount = Pick(rng, []sdkmath.Int{sdkmath.ZeroInt(), op.floor2.Amount.QuoRaw(2), op.floor2.Amount.SubRaw(1)})
				if op.floor2.Amount.IsNegative() {
					op.floor2.Amount = sdkmath.ZeroInt()
				}
				out.Count("chg:floor_down")
			case c < 47: // floor price in another denom
				if op.floor2.Denom == "nhash" {
					op.floor2.Denom = "hotdog"
				} else {
					op.floor2.Denom = "nhash"
				}
				if op.floor2.Amount.IsZero() {
					op.floor2.Amount = sdkmath.OneInt()
				}
				out.Count("chg:floor_denom")
			case c < 62: // a message type gets a fee it did not have
				var free []string
				for _, ty := range []string{"send", "send", "exec", "assess", "pay"} {
					has := false
					for _, sc := range op.sched2 {
						has = has || sc.typ == ty
					}
					if !has {
						free = append(free, ty)
					}
				}
				if len(free) > 0 {
					op.sched2 = append(op.sched2, txfeeSched{typ: Pick(rng, free), fee: sdk.Coin{Denom: Pick(rng, feeDenoms), Amount: bigAmt()}, rcp: Pick(rng, rcps), bips: Pick(rng, bipsSet)})
					out.Count("chg:fee_added")
				}
			case c < 92 && len(op.sched2) > 0: // an existing message fee is changed
				j := rng.Intn(len(op.sched2))
				sc := op.sched2[j]
				switch rng.Intn(6) {
				case 0:
					sc.fee.Amount = sc.fee.Amount.AddRaw(1)
					out.Count("chg:fee_up")
				case 1:
					sc.fee.Amount = sc.fee.Amount.MulRaw(2)
					out.Count("chg:fee_up")
				case 2:
					sc.fee.Amount = sc.fee.Amount.AddRaw(Pick(rng, txfeeFeeAmts))
					out.Count("chg:fee_up")
				case 3:
					if sc.fee.Amount.GT(sdkmath.OneInt()) {
						sc.fee.Amount = sc.fee.Amount.QuoRaw(2)
					}
					out.Count("chg:fee_down")
				case 4:
					sc.fee.Denom = Pick(rng, feeDenoms)
					out.Count("chg:fee_denom")
				default:
					sc.rcp, sc.bips = Pick(rng, rcps), Pick(rng, bipsSet)
					out.Count("chg:fee_split")
				}
				op.sched2[j] = sc
				if rng.Chance(15) {
					op.sched2 = append(op.sched2[:j], op.sched2[j+1:]...)
					out.Count("chg:fee_removed")
				}
			default: // conversion rate (custom assessed usd fees)
				op.convR2 = Pick(rng, []uint64{0, 1, 25, 26, 50, 1000, 40000})
				out.Count("chg:conv")
			}
		}
		// how the change comes about: a straight rewrite (always for the floor price, which no
		// message can change), or governance proposals for everything a message exists for
		tgtD, tgtR, tgtS := op.convD2, op.convR2, op.sched2
		op.direct2 = true
		if rng.Chance(55) && (tgtR >= 1 || tgtR == effR) {
			if rng.Chance(10) { // the conversion denom is voted on as well
				if tgtD == "nhash" {
					tgtD = "hotdog"
				} else {
					tgtD = "nhash"
				}
				out.Count("chg:conv_denom")
			}
			msgs := txfeeGovDiff(rng, effD, effR, effS, tgtD, tgtR, tgtS)
			switch {
			case len(msgs) == 0:
			case len(msgs) == 1 || rng.Chance(50):
				op.gov2 = [][]txfeeGovMsg{msgs}
			default:
				for _, m := range msgs {
					op.gov2 = append(op.gov2, []txfeeGovMsg{m})
				}
			}
			if rng.Chance(12) { // plus a proposal the keeper refuses (possibly after a message that went through)
				bad := txfeeGenGov(rng, out, tgtD, tgtR, tgtS, feeDenoms, bigAmt, rcps, 1)
				at := rng.Intn(len(op.gov2) + 1)
				op.gov2 = append(op.gov2[:at], append(bad, op.gov2[at:]...)...)
			}
			// the rewrite part: nothing, or the floor price alone
			op.direct2 = !op.floor2.Equal(op.floor)
			op.convD2, op.convR2, op.sched2 = effD, effR, append([]txfeeSched(nil), effS...)
			tgtD, tgtR, tgtS = txfeeGovApplyAll(effD, effR, effS, op.gov2)
			if len(op.gov2) > 0 {
				out.Count("re:gov")
				if op.direct2 {
					out.Count("re:gov+floor_rewrite")
				}
			}
		} else {
			out.Count("re:rewrite")
		}
		// what the new configuration requires of this body
		need2, needTop2 := txfeeNeedsOf(body, tgtS, payfee, tgtD, tgtR)
		base2 := new(big.Int).Mul(op.floor2.Amount.BigInt(), new(big.Int).SetUint64(op.gas))
		req2, reqTop2 := need2.clone(), needTop2.clone()
		req2.add(op.floor2.Denom, base2)
		reqTop2.add(op.floor2.Denom, base2)
		raise := func(to txfeeNeed) {
			for d, v := range to {
				if declared[d] == nil || declared[d].Cmp(v) < 0 {
					declared[d] = new(big.Int).Set(v)
				}
			}
		}
		// the declared fee must get past the FIRST check for the rest to matter
		switch m := rng.Intn(100); {
		case m < 40:
			out.Count("refee:keep") // as chosen against the first configuration
		case m < 72:
			raise(req)
			raise(req2)
			out.Count("refee:covers_both")
		case m < 82:
			raise(req)
			raise(reqTop2) // passes the recheck; nested / handler fees of the new schedule uncovered
			out.Count("refee:covers_top2")
		default:
			raise(req)
			raise(req2)
			// one unit (or a whole denom) short of what only the NEW configuration demands
			var cand []string
			for d, v := range reqTop2 {
				if v.Sign() > 0 && (req[d] == nil || req[d].Cmp(v) < 0) {
					cand = append(cand, d)
				}
			}
			sort.Strings(cand)
			if len(cand) > 0 {
				d := cand[rng.Intn(len(cand))]
				if req[d] == nil && rng.Chance(30) {
					delete(declared, d)
				} else {
					declared[d] = new(big.Int).Sub(reqTop2[d], big.NewInt(1))
				}
				out.Count("refee:short_of_new")
			} else {
				out.Count("refee:covers_both")
			}
		}
		out.Count("re")
	}
	out.Count("fee:" + mode)
	op.fee = declared.coins()
	out.Count(fmt.Sprintf("fee_denoms=%d", len(op.fee)))

	// ---- who pays, balances ----
	op.fg = rng.Chance(22)
	payerNeeds := declared.clone()
	balMode := ""
	switch b := rng.Intn(100); {
	case b < 55:
		balMode = "ample"
		for d := range payerNeeds {
			payerNeeds[d].Add(payerNeeds[d], big.NewInt(int64(1000+rng.Intn(100000))))
		}
		payerNeeds.add("nhash", big.NewInt(1000))
		payerNeeds.add("hotdog", big.NewInt(1000))
	case b < 72:
		balMode = "exact"
	case b < 84:
		balMode = "short1" // one unit short of the declared fee in one denom
		if d := pickDenom(payerNeeds); d != "" {
			payerNeeds[d].Sub(payerNeeds[d], big.NewInt(1))
		}
	case b < 90:
		balMode = "baseonly"
		payerNeeds = txfeeNeed{}
		payerNeeds.add(floorDenom, base)
	case b < 95:
		balMode = "belowbase"
		payerNeeds = txfeeNeed{}
		if base.Sign() > 0 {
			payerNeeds.add(floorDenom, new(big.Int).Sub(base, big.NewInt(1)))
		}
	default:
		balMode = "noadditional" // has the base fee but not the additional fee denoms
		payerNeeds = txfeeNeed{}
		payerNeeds.add(floorDenom, new(big.Int).Add(base, big.NewInt(5)))
	}
	out.Count("bal:" + balMode)
	if op.fg {
		op.bal["G"] = payerNeeds.coins()
		pb := spend.clone()
		if rng.Chance(50) {
			pb.add("nhash", big.NewInt(500))
		}
		if rng.Chance(30) {
			// the payer could pay everything itself: only the named granter may be charged
			for d, v := range payerNeeds {
				pb.add(d, v)
			}
			out.Count("feegrant:payer_rich")
		}
		op.bal["P"] = pb.coins()
		switch a := rng.Intn(100); {
		case a < 35:
			op.allow = "unl"
		case a < 55:
			op.allow = txfeeCoinsStr(declared.coins())
			out.Count("allow:declared")
		case a < 65:
			bn := txfeeNeed{}
			bn.add(floorDenom, base)
			op.allow = txfeeCoinsStr(bn.coins())
			out.Count("allow:base")
		case a < 80:
			an := declared.clone()
			an.add("nhash", big.NewInt(777))
			op.allow = txfeeCoinsStr(an.coins())
			out.Count("allow:more")
		case a < 93:
			an := declared.clone()
			if d := pickDenom(an); d != "" {
				an[d].Sub(an[d], big.NewInt(1))
			}
			op.allow = txfeeCoinsStr(an.coins())
			out.Count("allow:less")
		default:
			op.allow = "-"
			out.Count("allow:none")
		}
		if op.allow == "-" || op.allow == "" {
			op.allow = "-"
		}
		out.Count("feegrant")
	} else {
		// the payer also funds its own sends (ample / exact) or not (the sweep then fails)
		if balMode == "ample" || (balMode == "exact" && rng.Chance(70)) {
			for d, v := range spend {
				payerNeeds.add(d, v)
			}
		}
		op.bal["P"] = payerNeeds.coins()
	}
	op.bal["X"] = sdk.NewCoins(sdk.NewInt64Coin("nhash", 100), sdk.NewInt64Coin("hotdog", 100))
	if rng.Chance(3) {
		op.sig = "bad"
	}
	op.force = rng.Chance(50)
	return op
}

// txfeeNeedsOf: the additional fees a body incurs under a given schedule (all routed messages
// and handler fees; and the top-level messages only, which is what the mempool check sees).
func txfeeNeedsOf(body []string, sched []txfeeSched, payfee *sdk.Coin, convD string, convR uint64) (need, needTop txfeeNeed) {
	need, needTop = txfeeNeed{}, txfeeNeed{}
	schedOf := func(ty string) *txfeeSched {
		for i := range sched {
			if sched[i].typ == ty {
				return &sched[i]
			}
		}
		return nil
	}
	depth := 0
	add := func(d string, x *big.Int) {
		need.add(d, x)
		if depth == 0 {
			needTop.add(d, x)
		}
	}
	for _, tk := range body {
		ty := ""
		switch {
		case tk == ")":
			depth--
			continue
		case tk == "exec(":
			ty = "exec"
		case strings.HasPrefix(tk, "send:"):
			ty = "send"
		case strings.HasPrefix(tk, "assess:"):
			ty = "assess"
		case strings.HasPrefix(tk, "pay:"):
			ty = "pay"
		default:
			continue
		}
		if sc := schedOf(ty); sc != nil {
			add(sc.fee.Denom, sc.fee.Amount.BigInt())
		}
		switch ty {
		case "assess":
			f := strings.Split(tk, ":")
			if c, err := txfeeCoin(f[1]); err == nil {
				if c.Denom == "usd" {
					add(convD, new(big.Int).Mul(c.Amount.BigInt(), new(big.Int).SetUint64(convR)))
				} else if c.Denom == convD {
					add(convD, c.Amount.BigInt())
				}
			}
		case "pay":
			if payfee != nil {
				need.add(payfee.Denom, payfee.Amount.BigInt())
			}
		case "exec":
			depth++
		}
	}
	return need, needTop
}

var msgfeesDefaultFloor = sdk.NewInt64Coin("nhash", 1905)

var txfeeGovTypes = []string{"send", "exec", "assess", "pay"}

// txfeeGovEntry renders a schedule entry as the arguments of an add / update message.
func txfeeGovEntry(rng *RNG, kind string, sc txfeeSched) txfeeGovMsg {
	m := txfeeGovMsg{kind: kind, typ: sc.typ, fee: sc.fee, rcp: sc.rcp, bips: "-"}
	if sc.rcp != "-" && !(sc.bips == 5000 && rng.Chance(50)) {
		m.bips = fmt.Sprintf("%d", sc.bips)
	}
	return m
}

// txfeeGenGov: n proposals of one or two messages each against the running configuration: usd
// rate, conversion denom, fees added / updated / removed; a minority is refused by the keeper
// (add of an existing entry, update / removal of a missing one), also as the SECOND message of a
// proposal whose first one went through (nothing of it may stay).
func txfeeGenGov(rng *RNG, out *Out, convD string, convR uint64, sched []txfeeSched, feeDenoms []string,
	bigAmt func() sdkmath.Int, rcps []string, n int) [][]txfeeGovMsg {
	bipsSet := []uint32{0, 1, 2500, 3333, 5000, 5000, 9999, 10000}
	var ps [][]txfeeGovMsg
	for i := 0; i < n; i++ {
		d, r, s := convD, convR, append([]txfeeSched(nil), sched...)
		var p []txfeeGovMsg
		nm := 1
		if rng.Chance(30) {
			nm = 2
		}
		// a proposal whose schedule-changing messages all go through and whose LAST message the keeper
		// refuses: gov throws the branch away, nothing any of the earlier messages wrote may be seen
		// by any later lookup (store, or whatever sits in front of it)
		discarded := rng.Chance(18)
		if discarded {
			nm = 2 + rng.Intn(2)
			out.Count("gov:discarded_branch")
		}
		for j := 0; j < nm; j++ {
			var have, free []string
			for _, ty := range txfeeGovTypes {
				found := false
				for _, sc := range s {
					found = found || sc.typ == ty
				}
				if found {
					have = append(have, ty)
				} else {
					free = append(free, ty)
				}
			}
			ent := func(ty string) txfeeSched {
				return txfeeSched{typ: ty, fee: sdk.Coin{Denom: Pick(rng, feeDenoms), Amount: bigAmt()}, rcp: Pick(rng, rcps), bips: Pick(rng, bipsSet)}
			}
			var m txfeeGovMsg
			c := rng.Intn(100)
			if discarded && j < nm-1 {
				c = 42 + rng.Intn(48) // add / update / remove that the keeper accepts
			} else if discarded {
				c = 90 + rng.Intn(10) // refused
			}
			switch {
			case c < 32:
				m = txfeeGovMsg{kind: "rate", rate: Pick(rng, []uint64{1, 25, 26, 50, 1000, 40000, 25000000})}
				out.Count("govmsg:rate")
			case c < 42:
				m = txfeeGovMsg{kind: "denom", denom: "hotdog"}
				if d == "hotdog" {
					m.denom = "nhash"
				}
				out.Count("govmsg:denom")
			case c < 60 && len(free) > 0:
				m = txfeeGovEntry(rng, "add", ent(Pick(rng, free)))
				out.Count("govmsg:add")
			case c < 80 && len(have) > 0:
				m = txfeeGovEntry(rng, "upd", ent(Pick(rng, have)))
				out.Count("govmsg:upd")
			case c < 90 && len(have) > 0:
				m = txfeeGovMsg{kind: "rm", typ: Pick(rng, have)}
				out.Count("govmsg:rm")
			case len(have) > 0 && rng.Chance(50):
				m = txfeeGovEntry(rng, "add", ent(Pick(rng, have)))
				out.Count("govmsg:refused")
			case len(free) > 0 && rng.Chance(50):
				m = txfeeGovEntry(rng, "upd", ent(Pick(rng, free)))
				out.Count("govmsg:refused")
			case len(free) > 0:
				m = txfeeGovMsg{kind: "rm", typ: Pick(rng, free)}
				out.Count("govmsg:refused")
			default:
				m = txfeeGovMsg{kind: "rate", rate: Pick(rng, []uint64{1, 25, 1000})}
				out.Count("govmsg:rate")
			}
			p = append(p, m)
			txfeeGovApply(&d, &r, &s, m)
		}
		ps = append(ps, p)
		convD, convR, sched = txfeeGovApplyAll(convD, convR, sched, [][]txfeeGovMsg{p})
	}
	return ps
}

// txfeeGovDiff: the governance messages that turn one configuration into another.
func txfeeGovDiff(rng *RNG, d0 string, r0 uint64, s0 []txfeeSched, d1 string, r1 uint64, s1 []txfeeSched) []txfeeGovMsg {
	var ms []txfeeGovMsg
	if r1 != r0 {
		ms = append(ms, txfeeGovMsg{kind: "rate", rate: r1})
	}
	if d1 != d0 {
		ms = append(ms, txfeeGovMsg{kind: "denom", denom: d1})
	}
	find := func(s []txfeeSched, ty string) *txfeeSched {
		for i := range s {
			if s[i].typ == ty {
				return &s[i]
			}
		}
		return nil
	}
	for _, ty := range txfeeGovTypes {
		a, b := find(s0, ty), find(s1, ty)
		switch {
		case a == nil && b != nil:
			ms = append(ms, txfeeGovEntry(rng, "add", *b))
		case a != nil && b == nil:
			ms = append(ms, txfeeGovMsg{kind: "rm", typ: ty})
		case a != nil && b != nil && (!a.fee.Equal(b.fee) || a.rcp != b.rcp || a.bips != b.bips):
			ms = append(ms, txfeeGovEntry(rng, "upd", *b))
		}
	}
	// any order: the messages are independent of each other
	for i := len(ms) - 1; i > 0; i-- {
		j := rng.Intn(i + 1)
		ms[i], ms[j] = ms[j], ms[i]
	}
	return ms
}

// floor gas prices: none, small, and around the compiled-in default (pioconfig: 1905nhash) —
// below it, equal, just above, twice: whatever falls back to the default is then seen in both
// directions.
var txfeeFloors = []int64{0, 1, 1, 2, 19, 1904, 1905, 1906, 3810}
