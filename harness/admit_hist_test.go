package harness

import (
	"fmt"
	"strings"

	sdk "github.com/cosmos/cosmos-sdk/types"

	"github.com/provenance-io/provenance/app"
	"github.com/provenance-io/provenance/x/exchange"
	exchangekeeper "github.com/provenance-io/provenance/x/exchange/keeper"
	nametypes "github.com/provenance-io/provenance/x/name/types"
)

// Model "admit" (C20), histories around the creation of the market: per-market messages of the
// governance authority sent for the market's id before the market is created (or for an id that
// never becomes a market) and after it.  An op line carries them as pre=<steps> / post=<steps>,
// <steps> = step;step;… (see lean/PvModel/AdmitDriver.lean).  Every step goes through the real
// message server as one transaction (cached context, written only when the message succeeds).

type admitStepT struct {
	tag        string // ao us ac close | F<kind> | R<kind>
	flag       bool
	remC, addC []admitCoinT
	remR, addR []admitRatioT
	remS, addS []string
}

func (s admitStepT) String() string {
	switch {
	case s.tag == "close":
		return "close"
	case s.tag == "ao" || s.tag == "us" || s.tag == "ac":
		return s.tag + b2s(s.flag)
	case s.tag == "Fssr" || s.tag == "Fbsr":
		return s.tag + "/" + admitRatiosStr(s.remR) + "/" + admitRatiosStr(s.addR)
	case strings.HasPrefix(s.tag, "F"):
		return s.tag + "/" + admitCoinsStr(s.remC) + "/" + admitCoinsStr(s.addC)
	default:
		return s.tag + "/" + admitStrsStr(s.remS) + "/" + admitStrsStr(s.addS)
	}
}

func admitStepsStr(ss []admitStepT) string {
	if len(ss) == 0 {
		return "-"
	}
	p := make([]string, len(ss))
	for i, s := range ss {
		p[i] = s.String()
	}
	return strings.Join(p, ";")
}

func admitSteps(ws []string, k string) []string {
	v := kvArg(ws, k)
	if v == "" || v == "-" {
		return nil
	}
	return strings.Split(v, ";")
}

type admitValidator interface{ ValidateBasic() error }

// admitStepMsg builds the authority's message for one step of a line.
func admitStepMsg(step, auth string) (admitValidator, error) {
	switch step {
	case "ao0", "ao1":
		return &exchange.MsgMarketUpdateAcceptingOrdersRequest{Admin: auth, MarketId: admitMarketID, AcceptingOrders: step == "ao1"}, nil
	case "us0", "us1":
		return &exchange.MsgMarketUpdateUserSettleRequest{Admin: auth, MarketId: admitMarketID, AllowUserSettlement: step == "us1"}, nil
	case "ac0", "ac1":
		return &exchange.MsgMarketUpdateAcceptingCommitmentsRequest{Admin: auth, MarketId: admitMarketID, AcceptingCommitments: step == "ac1"}, nil
	case "close":
		return &exchange.MsgGovCloseMarketRequest{Authority: auth, MarketId: admitMarketID}, nil
	}
	f := strings.Split(step, "/")
	if len(f) != 3 {
		return nil, fmt.Errorf("bad step %q", step)
	}
	coins := func(s string) []sdk.Coin { return admitCoins([]string{"x=" + s}, "x") }
	ratios := func(s string) []exchange.FeeRatio { return admitRatios([]string{"x=" + s}, "x") }
	strs := func(s string) []string { return admitStrs([]string{"x=" + s}, "x") }
	fees := &exchange.MsgGovManageFeesRequest{Authority: auth, MarketId: admitMarketID}
	attrs := &exchange.MsgMarketManageReqAttrsRequest{Admin: auth, MarketId: admitMarketID}
	switch f[0] {
	case "Fcaf":
		fees.RemoveFeeCreateAskFlat, fees.AddFeeCreateAskFlat = coins(f[1]), coins(f[2])
	case "Fcbf":
		fees.RemoveFeeCreateBidFlat, fees.AddFeeCreateBidFlat = coins(f[1]), coins(f[2])
	case "Fccf":
		fees.RemoveFeeCreateCommitmentFlat, fees.AddFeeCreateCommitmentFlat = coins(f[1]), coins(f[2])
	case "Fssf":
		fees.RemoveFeeSellerSettlementFlat, fees.AddFeeSellerSettlementFlat = coins(f[1]), coins(f[2])
	case "Fbsf":
		fees.RemoveFeeBuyerSettlementFlat, fees.AddFeeBuyerSettlementFlat = coins(f[1]), coins(f[2])
	case "Fssr":
		fees.RemoveFeeSellerSettlementRatios, fees.AddFeeSellerSettlementRatios = ratios(f[1]), ratios(f[2])
	case "Fbsr":
		fees.RemoveFeeBuyerSettlementRatios, fees.AddFeeBuyerSettlementRatios = ratios(f[1]), ratios(f[2])
	case "Rra":
		attrs.CreateAskToRemove, attrs.CreateAskToAdd = strs(f[1]), strs(f[2])
		return attrs, nil
	case "Rrb":
		attrs.CreateBidToRemove, attrs.CreateBidToAdd = strs(f[1]), strs(f[2])
		return attrs, nil
	case "Rrc":
		attrs.CreateCommitmentToRemove, attrs.CreateCommitmentToAdd = strs(f[1]), strs(f[2])
		return attrs, nil
	default:
		return nil, fmt.Errorf("bad step %q", step)
	}
	return fees, nil
}

// admitRunStep sends one authority message; a refusal by the keeper leaves the state as it was.
func (e *admitEnv) admitRunStep(a *app.App, ctx sdk.Context, step string) error {
	msg, err := admitStepMsg(step, a.ExchangeKeeper.GetAuthority())
	if err != nil {
		return err
	}
	if verr := msg.ValidateBasic(); verr != nil {
		return fmt.Errorf("step %q fails ValidateBasic: %w", step, verr)
	}
	cctx, write := ctx.CacheContext()
	ms := exchangekeeper.NewMsgServer(a.ExchangeKeeper)
	var rerr error
	switch m := msg.(type) {
	case *exchange.MsgMarketUpdateAcceptingOrdersRequest:
		_, rerr = ms.MarketUpdateAcceptingOrders(cctx, m)
	case *exchange.MsgMarketUpdateUserSettleRequest:
		_, rerr = ms.MarketUpdateUserSettle(cctx, m)
	case *exchange.MsgMarketUpdateAcceptingCommitmentsRequest:
		_, rerr = ms.MarketUpdateAcceptingCommitments(cctx, m)
	case *exchange.MsgGovCloseMarketRequest:
		_, rerr = ms.GovCloseMarket(cctx, m)
	case *exchange.MsgGovManageFeesRequest:
		_, rerr = ms.GovManageFees(cctx, m)
	case *exchange.MsgMarketManageReqAttrsRequest:
		_, rerr = ms.MarketManageReqAttrs(cctx, m)
	}
	if rerr == nil {
		write()
	}
	return nil
}

// admitCreateByGov creates the market with MsgGovCreateMarket when the message passes its
// ValidateBasic (the keeper function is used directly otherwise, as for lines without history).
func (e *admitEnv) admitCreateByGov(a *app.App, ctx sdk.Context, market exchange.Market) (bool, error) {
	msg := &exchange.MsgGovCreateMarketRequest{Authority: a.ExchangeKeeper.GetAuthority(), Market: market}
	if msg.ValidateBasic() != nil {
		return false, nil
	}
	cctx, write := ctx.CacheContext()
	if _, err := exchangekeeper.NewMsgServer(a.ExchangeKeeper).GovCreateMarket(cctx, msg); err != nil {
		return true, err
	}
	write()
	return true, nil
}

// ---------------------------------------------------------------------------------------------
// generator side: the configuration a history aims at (only used to place the offers)

type admitCfg struct {
	flats      map[string][]admitCoinT  // caf cbf ccf ssf bsf
	ratios     map[string][]admitRatioT // ssr bsr
	reqs       map[string][]string      // ra rb rc, normalised
	ao, us, ac bool
}

func admitNewCfg() *admitCfg {
	return &admitCfg{flats: map[string][]admitCoinT{}, ratios: map[string][]admitRatioT{}, reqs: map[string][]string{}, ao: true}
}

func (c *admitCfg) clone() *admitCfg {
	n := admitNewCfg()
	for k, v := range c.flats {
		n.flats[k] = append([]admitCoinT{}, v...)
	}
	for k, v := range c.ratios {
		n.ratios[k] = append([]admitRatioT{}, v...)
	}
	for k, v := range c.reqs {
		n.reqs[k] = append([]string{}, v...)
	}
	n.ao, n.us, n.ac = c.ao, c.us, c.ac
	return n
}

func admitNormAll(xs []string) []string {
	rv := make([]string, len(xs))
	for i, x := range xs {
		rv[i] = nametypes.NormalizeName(x)
	}
	return rv
}

func admitHas(xs []string, x string) bool {
	for _, y := range xs {
		if y == x {
			return true
		}
	}
	return false
}

func (c *admitCfg) apply(s admitStepT) {
	switch {
	case s.tag == "ao":
		c.ao = s.flag
	case s.tag == "us":
		c.us = s.flag
	case s.tag == "ac":
		c.ac = s.flag
	case s.tag == "close":
		c.ao, c.ac = false, false
	case s.tag == "Fssr" || s.tag == "Fbsr":
		k := s.tag[1:]
		cur := c.ratios[k]
		del := func(pd, fd string) {
			var n []admitRatioT
			for _, r := range cur {
				if !(r.pd == pd && r.fd == fd) {
					n = append(n, r)
				}
			}
			cur = n
		}
		for _, r := range s.remR {
			del(r.pd, r.fd)
		}
		for _, r := range s.addR {
			del(r.pd, r.fd)
			cur = append(cur, r)
		}
		c.ratios[k] = cur
	case strings.HasPrefix(s.tag, "F"):
		k := s.tag[1:]
		cur := c.flats[k]
		del := func(d string) {
			var n []admitCoinT
			for _, o := range cur {
				if o.d != d {
					n = append(n, o)
				}
			}
			cur = n
		}
		for _, o := range s.remC {
			del(o.d)
		}
		for _, o := range s.addC {
			del(o.d)
			cur = append(cur, o)
		}
		c.flats[k] = cur
	case strings.HasPrefix(s.tag, "R"):
		k := s.tag[1:]
		cur := c.reqs[k]
		rem, add := admitNormAll(s.remS), admitNormAll(s.addS)
		for _, x := range rem {
			if !admitHas(cur, x) {
				return
			}
		}
		for _, x := range add {
			if admitHas(cur, x) {
				return
			}
		}
		var n []string
		for _, x := range cur {
			if !admitHas(rem, x) {
				n = append(n, x)
			}
		}
		c.reqs[k] = append(n, add...)
	}
}

// what each kind of admission reads of the market
var admitDims = map[string]struct {
	flags  []string
	flats  []string
	ratios []string
	reqs   []string
}{
	"createask": {[]string{"ao", "ao", "close"}, []string{"caf", "ssf"}, []string{"ssr"}, []string{"ra"}},
	"createbid": {[]string{"ao", "ao", "close"}, []string{"cbf", "bsf"}, []string{"bsr"}, []string{"rb"}},
	"commit":    {[]string{"ac", "ac", "ac", "close", "ao"}, []string{"ccf"}, nil, []string{"rc"}},
	"fillbids":  {[]string{"ao", "us", "us", "close"}, []string{"caf", "ssf"}, nil, []string{"ra"}},
	"fillasks":  {[]string{"ao", "us", "us", "close"}, []string{"cbf", "bsf"}, []string{"bsr"}, []string{"rb"}},
	// fills with resting orders: the seller ratios matter too (the fee on the summed price of a
	// fill of bids; the fee of every named ask of a fill of asks)
	"fillbidsfull": {[]string{"ao", "us", "us", "close"}, []string{"caf", "ssf"}, []string{"ssr"}, []string{"ra"}},
	"fillasksfull": {[]string{"ao", "us", "us", "close"}, []string{"cbf", "bsf"}, []string{"bsr", "bsr", "ssr"}, []string{"rb"}},
}

// step generates one authority message that matters for the op, given the entries so far;
// ok=false when the candidate would not pass the message's ValidateBasic.
func (g *admitGen) step(op string, cur *admitCfg) (admitStepT, bool) {
	r := g.r
	dims := admitDims[op]
	var s admitStepT
	switch k := r.Intn(100); {
	case k < 45:
		s.tag = Pick(r, dims.flags)
		s.flag = r.Bool()
	case k < 80 || len(dims.reqs) == 0:
		if len(dims.ratios) > 0 && r.Chance(40) {
			rk := Pick(r, dims.ratios)
			s.tag = "F" + rk
			if have := cur.ratios[rk]; len(have) > 0 && r.Chance(45) {
				s.remR = append(s.remR, Pick(r, have))
			}
			var cand []admitRatioT
			if rk == "ssr" {
				cand = g.sellerRatios(true)
			} else {
				cand = g.buyerRatios(true)
			}
			for _, x := range cand {
				dup := false
				for _, y := range s.remR {
					dup = dup || (x.pd == y.pd && x.fd == y.fd)
				}
				if !dup && len(s.addR) < 2 {
					s.addR = append(s.addR, x)
				}
			}
			if len(s.remR)+len(s.addR) == 0 {
				return s, false
			}
		} else {
			fk := Pick(r, dims.flats)
			s.tag = "F" + fk
			have := cur.flats[fk]
			if len(have) > 0 && r.Chance(45) {
				s.remC = append(s.remC, Pick(r, have))
			} else if r.Chance(8) {
				s.remC = append(s.remC, admitCoinT{Pick(r, admitDenoms), g.smallAmt()})
			}
			for _, d := range g.denomSubset([]int{0, 1, 1, 1, 2}[r.Intn(5)]) {
				if len(s.remC) > 0 && s.remC[0].d == d {
					continue
				}
				a := g.smallAmt()
				// now and then a cheaper / dearer amount for a denom that is an option already
				for _, o := range have {
					if o.d == d && r.Bool() {
						a = g.near(o.a, false)
					}
				}
				s.addC = append(s.addC, admitCoinT{d, a})
			}
			if len(s.remC)+len(s.addC) == 0 {
				return s, false
			}
		}
	default:
		rk := Pick(r, dims.reqs)
		s.tag = "R" + rk
		have := cur.reqs[rk]
		if len(have) > 0 && r.Chance(45) {
			s.remS = append(s.remS, Pick(r, have))
		} else if r.Chance(8) {
			s.remS = append(s.remS, g.name())
		}
		for i, n := 0, []int{0, 1, 1, 2}[r.Intn(4)]; i < n; i++ {
			x := g.name()
			if r.Chance(45) {
				x = "*." + x
			}
			if admitHas(have, x) && !r.Chance(30) {
				continue
			}
			if admitHas(s.remS, x) || admitHas(s.addS, x) {
				continue
			}
			if r.Chance(15) { // an un-normalised spelling
				if strings.HasPrefix(x, "*.") {
					x = "*." + strings.ToUpper(x[2:3]) + x[3:]
				} else {
					x = strings.ToUpper(x[:1]) + x[1:] + " "
				}
			}
			s.addS = append(s.addS, x)
		}
		if len(s.remS)+len(s.addS) == 0 {
			return s, false
		}
	}
	msg, err := admitStepMsg(s.String(), sdk.AccAddress("verif_c20_authority_").String())
	if err != nil || msg.ValidateBasic() != nil {
		return s, false
	}
	return s, true
}

type admitHist struct {
	pre, post []admitStepT
	aim       *admitCfg
	shape     string
}

func (h *admitHist) String() string {
	return fmt.Sprintf(" pre=%s post=%s", admitStepsStr(h.pre), admitStepsStr(h.post))
}

// history builds the authority's messages around the creation of the market requested in req
// (req.ao/us/ac and *ex may be changed to disagree with what was sent before the creation).
func (g *admitGen) history(op string, req *admitCfg, ex *bool) *admitHist {
	r := g.r
	h := &admitHist{}
	steps := func(n int, from *admitCfg) ([]admitStepT, *admitCfg) {
		cur := from.clone()
		var rv []admitStepT
		for i := 0; i < n*3 && len(rv) < n; i++ {
			if s, ok := g.step(op, cur); ok {
				rv = append(rv, s)
				cur.apply(s)
			}
		}
		return rv, cur
	}
	switch k := r.Intn(100); {
	case k < 30:
		// the id never becomes a market; the offers aim at what is stored under it
		h.shape = "residue-no-market"
		*ex = false
		h.pre, h.aim = steps(1+r.Intn(4), admitNewCfg())
	case k < 75:
		h.shape = "residue-then-create"
		*ex = true
		var res *admitCfg
		h.pre, res = steps(1+r.Intn(3), admitNewCfg())
		if r.Bool() { // the market is created with the opposite flags
			req.ao, req.us, req.ac = !res.ao, !res.us, !res.ac
			if r.Chance(60) {
				req.ao = true
			}
		}
		h.post, _ = steps([]int{0, 0, 1}[r.Intn(3)], req)
		h.aim = req.clone()
		if r.Chance(40) {
			// aim at the configuration as it would be if the earlier messages counted too
			h.shape = "residue-then-create-aim-merged"
			for _, s := range h.pre {
				h.aim.apply(s)
			}
		}
		for _, s := range h.post {
			h.aim.apply(s)
		}
	default:
		h.shape = "create-then-update"
		*ex = true
		h.post, h.aim = steps(1+r.Intn(3), req)
	}
	g.out.Count("hist:" + h.shape)
	for _, s := range append(append([]admitStepT{}, h.pre...), h.post...) {
		t := s.tag
		if len(t) == 2 {
			t += b2s(s.flag)
		}
		g.out.Count("step:" + t)
	}
	return h
}

// attrsFor builds account attributes for a (normalised) required-attribute list: matching all,
// all but one, or unrelated.
func (g *admitGen) attrsFor(reqs []string, matchPct int) []string {
	seen := map[string]bool{}
	var attrs []string
	for _, req := range reqs {
		wild := strings.HasPrefix(req, "*.")
		base := strings.TrimPrefix(req, "*.")
		acc := g.accFor(base, wild, matchPct)
		if acc != "" && !seen[acc] && len(strings.Split(acc, ".")) <= 8 {
			seen[acc] = true
			attrs = append(attrs, acc)
		}
	}
	if g.r.Chance(25) {
		if x := g.name(); !seen[x] {
			attrs = append(attrs, x)
		}
	}
	return attrs
}
