package harness

// Model "attr" (C16): the real attribute + name keepers / MsgServers and
// attribute.BeginBlocker on a real app, over histories with moving block times.
// After every op the whole attribute store (records, lookup counters, expiration queue),
// the AccountsByAttribute lookups and the name owners are dumped canonically.
// The name of a message is its RAW spelling (`_` = space in the op line): mixed case, white
// space around the name or around a segment — all accepted by ValidateBasic — by owners and by
// strangers, in every message kind.
// VOLUME is an input dimension: `bulk` puts many attributes with one expiration into a history
// (n MsgAddAttribute messages in one transaction, values base..base+n-1), so that many
// attributes expire between two blocks; `sweep` calls Keeper.DeleteExpiredAttributes with a small
// limit of its own, which exercises the cap logic of the sweep loop (counter, break, key order)
// that the chain runs with MaxExpiredAttributionCount.
// A VALUE token may carry surrounding white space (`_` = space: `1_` is the value "1 "): types.NewAttribute
// strips it for the textual types only (bytes / proto values are stored verbatim), MsgUpdateAttribute,
// MsgUpdateAttributeExpiration and MsgDeleteDistinctAttribute take the value as it is, so "1" and "1 " are
// different attributes of one (account, name) and a deletion by value must hit exactly the one named.
// GENESIS: `regen <t>` exports the attribute module's genesis in the middle of a history, empties
// the attribute store and runs InitGenesis with the export at block time t; the history goes on.

import (
	"crypto/sha256"
	"encoding/binary"
	"fmt"
	"os"
	"sort"
	"strconv"
	"strings"
	"sync"
	"testing"
	"time"

	storetypes "cosmossdk.io/store/types"

	sdk "github.com/cosmos/cosmos-sdk/types"
	authtypes "github.com/cosmos/cosmos-sdk/x/auth/types"

	"github.com/provenance-io/provenance/app"
	"github.com/provenance-io/provenance/x/attribute"
	attrkeeper "github.com/provenance-io/provenance/x/attribute/keeper"
	attrtypes "github.com/provenance-io/provenance/x/attribute/types"
	namekeeper "github.com/provenance-io/provenance/x/name/keeper"
	nametypes "github.com/provenance-io/provenance/x/name/types"
)

func init() {
	drivers["attr"] = driveAttr
	replayers["attr"] = replayAttr
}

var (
	attrAppOnce sync.Once
	attrApp     *app.App
	attrBaseCtx sdk.Context
)

const attrRoot = "vf"

var (
	attrAcctSyms = []string{"A", "B", "C", "D", "Z"} // Z has no auth account
	attrNames    = []string{"kyc.vf", "aml.vf", "lic.vf"}
	attrValues   = []string{"1", "2", "7", "x1"}
	attrTypes    = []string{"string", "int", "float", "proto", "bytes"}
)

type attrEnv struct {
	t       *testing.T
	ctx     sdk.Context
	addrs   map[string]sdk.AccAddress // symbol -> address
	syms    map[string]string         // bech32 / raw bytes -> symbol
	nameSym map[string]string         // sha256(reversed name) -> name
	valSym  map[string]string         // sha256(value) -> value
	amsg    attrtypes.MsgServer
	nmsg    nametypes.MsgServer
	last    string // last dump
	lastVB  string // "pass"/"fail": ValidateBasic of the last message (the tx path runs it before the server)
}

func attrAddr(sym string) sdk.AccAddress {
	b := []byte("verif-attr-acct-____")
	copy(b[16:], sym)
	return sdk.AccAddress(b[:20])
}

func newAttrEnv(t *testing.T) *attrEnv {
	attrAppOnce.Do(func() {
		attrApp, attrBaseCtx = NewApp(t)
		ctx := attrBaseCtx
		for _, s := range attrAcctSyms {
			if s == "Z" {
				continue
			}
			a := attrAddr(s)
			acc := attrApp.AccountKeeper.NewAccountWithAddress(ctx, a)
			_ = acc.SetSequence(1)
			attrApp.AccountKeeper.SetAccount(ctx, acc)
		}
		// unrestricted root under which the names of the histories are bound
		if err := attrApp.NameKeeper.SetNameRecord(ctx, attrRoot, attrAddr("A"), false); err != nil {
			t.Fatalf("root name: %v", err)
		}
	})
	e := &attrEnv{t: t, addrs: map[string]sdk.AccAddress{}, syms: map[string]string{}, nameSym: map[string]string{}, valSym: map[string]string{}}
	for _, s := range attrAcctSyms {
		a := attrAddr(s)
		e.addrs[s] = a
		e.syms[a.String()] = s
		e.syms[string(a)] = s
	}
	gov := authtypes.NewModuleAddress("gov")
	e.addrs["gov"] = gov
	e.syms[gov.String()] = "gov"
	e.syms[string(gov)] = "gov"
	for _, n := range attrNames {
		e.nameSym[string(attrtypes.GetNameKeyBytes(n))] = n
	}
	for _, v := range append([]string{""}, attrValues...) {
		for _, tok := range []string{v, "_" + v, v + "_", "_" + v + "_", "__" + v, v + "__"} {
			if v == "" {
				tok = v
			}
			h := sha256.Sum256([]byte(attrRaw(tok)))
			e.valSym[string(h[:])] = tok
		}
	}
	e.amsg = attrkeeper.NewMsgServerImpl(attrApp.AttributeKeeper)
	e.nmsg = namekeeper.NewMsgServerImpl(attrApp.NameKeeper)
	return e
}

func (e *attrEnv) bech(sym string) string {
	if sym == "-" {
		return ""
	}
	if a, ok := e.addrs[sym]; ok {
		return a.String()
	}
	return sym // malformed on purpose
}

func attrTypeOf(s string) attrtypes.AttributeType {
	switch s {
	case "string":
		return attrtypes.AttributeType_String
	case "int":
		return attrtypes.AttributeType_Int
	case "float":
		return attrtypes.AttributeType_Float
	case "proto":
		return attrtypes.AttributeType_Proto
	case "bytes":
		return attrtypes.AttributeType_Bytes
	}
	return attrtypes.AttributeType_Unspecified
}

func attrTypeStr(t attrtypes.AttributeType) string {
	switch t {
	case attrtypes.AttributeType_String:
		return "string"
	case attrtypes.AttributeType_Int:
		return "int"
	case attrtypes.AttributeType_Float:
		return "float"
	case attrtypes.AttributeType_Proto:
		return "proto"
	case attrtypes.AttributeType_Bytes:
		return "bytes"
	case attrtypes.AttributeType_Unspecified:
		return "unspecified"
	}
	return "other" + strconv.Itoa(int(t))
}

func attrVal(s string) []byte {
	if s == "-" {
		return nil
	}
	return []byte(attrRaw(s)) // `_` = space
}

// attrPad puts white space (`_` in the token) around a value token.
func attrPad(rng *RNG, v string) string {
	if v == "-" {
		return v
	}
	switch rng.Intn(5) {
	case 0:
		return "_" + v
	case 1, 2:
		return v + "_"
	case 3:
		return "_" + v + "_"
	}
	return Pick(rng, []string{"__" + v, v + "__"})
}

func attrPadded(v string) bool { return strings.HasPrefix(v, "_") || strings.HasSuffix(v, "_") }

// attrTogglePad returns the other form of a value token: trimmed when it carries white space,
// padded when it does not.
func attrTogglePad(rng *RNG, v string) string {
	if attrPadded(v) {
		return strings.Trim(v, "_")
	}
	return attrPad(rng, v)
}

func attrExp(s string) *time.Time {
	if s == "-" {
		return nil
	}
	n, _ := strconv.ParseInt(s, 10, 64)
	t := time.Unix(n, 0).UTC()
	return &t
}

// attrRaw decodes the name token of an op line into the raw string put into the message.
func attrRaw(tok string) string { return strings.ReplaceAll(tok, "_", " ") }

// attrTok is the inverse (names never contain '_').
func attrTok(raw string) string { return strings.ReplaceAll(raw, " ", "_") }

// attrSpell returns a non-normalised spelling (as an op-line token) of a normalised name:
// letter case, white space around the whole name, white space around a segment, or a mix.
func attrSpell(rng *RNG, name string) string {
	kind := 0 // bit 0 case, bit 1 outer white space, bit 2 inner white space
	switch k := rng.Intn(100); {
	case k < 40:
		kind = 1
	case k < 55:
		kind = 2
	case k < 70:
		kind = 4
	default:
		kind = 1 + rng.Intn(7)
	}
	b := []byte(name)
	if kind&1 != 0 {
		var letters []int
		for i, c := range b {
			if c >= 'a' && c <= 'z' {
				letters = append(letters, i)
				if rng.Chance(45) {
					b[i] = c - 32
				}
			}
		}
		if len(letters) > 0 {
			i := Pick(rng, letters)
			if b[i] >= 'a' {
				b[i] -= 32
			}
		}
	}
	out := string(b)
	if kind&4 != 0 {
		var dots []int
		for i := range out {
			if out[i] == '.' {
				dots = append(dots, i)
			}
		}
		if len(dots) > 0 {
			i := Pick(rng, dots)
			switch rng.Intn(3) {
			case 0:
				out = out[:i] + "_" + out[i:]
			case 1:
				out = out[:i+1] + "_" + out[i+1:]
			default:
				out = out[:i] + "_._" + out[i+1:]
			}
		}
	}
	if kind&2 != 0 {
		switch rng.Intn(3) {
		case 0:
			out = strings.Repeat("_", 1+rng.Intn(2)) + out
		case 1:
			out = out + strings.Repeat("_", 1+rng.Intn(2))
		default:
			out = "_" + out + "_"
		}
	}
	return out
}

// attrSpellClass names what the three key functions make of a raw spelling (for the
// distribution counters only).
func attrSpellClass(tok string) string {
	raw := attrRaw(tok)
	var c []string
	if strings.ToLower(raw) != raw {
		c = append(c, "case")
	}
	if strings.TrimSpace(raw) != raw {
		c = append(c, "outer")
	}
	for _, seg := range strings.Split(strings.TrimSpace(raw), ".") {
		if strings.TrimSpace(seg) != seg {
			c = append(c, "inner")
			break
		}
	}
	if len(c) == 0 {
		return "exact"
	}
	return strings.Join(c, "+")
}

func attrErrClass(err error) string {
	m := err.Error()
	switch {
	case strings.Contains(m, "does not resolve to address"), strings.Contains(m, "msg sender cannot delete name"),
		strings.Contains(m, "unauthorized"):
		return "err:perm"
	case strings.Contains(m, "no account found for owner"):
		return "err:noacct"
	case strings.Contains(m, "no attributes updated"), strings.Contains(m, "no keys deleted"),
		strings.Contains(m, "name does not exist"), strings.Contains(m, "no address bound to name"):
		return "err:notfound"
	case strings.Contains(m, "name is already bound"):
		return "err:exists"
	}
	return "err:invalid"
}

func (e *attrEnv) reset(ws []string) {
	now, _ := strconv.ParseInt(kvArg(ws, "now"), 10, 64)
	cctx, _ := attrBaseCtx.CacheContext()
	e.ctx = cctx.WithBlockTime(time.Unix(now, 0).UTC())
	if ns := kvArg(ws, "names"); ns != "-" && ns != "" {
		for _, ent := range strings.Split(ns, "|") {
			p := strings.SplitN(ent, ":", 2)
			if err := attrApp.NameKeeper.SetNameRecord(e.ctx, p[0], e.addrs[p[1]], true); err != nil {
				e.t.Fatalf("init name %s: %v", ent, err)
			}
		}
	}
}

// exec executes one op line on the real msg servers / begin blocker.
func (e *attrEnv) exec(op string) string {
	ws := strings.Fields(op)
	if len(ws) == 0 {
		return "bad-op"
	}
	run := func(f func(ctx sdk.Context) error) string {
		err, p := Try(e.ctx, f)
		if p != "" {
			return "panic:" + p
		}
		if err != nil {
			return attrErrClass(err)
		}
		return "ok"
	}
	e.lastVB = ""
	vb := func(m interface{ ValidateBasic() error }) {
		if m.ValidateBasic() == nil {
			e.lastVB = "pass"
		} else {
			e.lastVB = "fail"
		}
	}
	// value tokens that may get stored (verbatim or trimmed): known to the queue decoder
	regVal := func(tok string) {
		for _, t := range []string{tok, strings.Trim(tok, "_")} {
			if t != "-" && t != "" {
				h := sha256.Sum256([]byte(attrRaw(t)))
				e.valSym[string(h[:])] = t
			}
		}
	}
	switch ws[0] {
	case "add":
		if len(ws) == 7 {
			regVal(ws[4])
		}
	case "upd":
		if len(ws) == 8 {
			regVal(ws[6])
		}
	}
	switch ws[0] {
	case "init":
		e.reset(ws[1:])
		return "ok"
	case "dump":
		e.last = e.dump()
		return e.last
	case "add":
		return run(func(ctx sdk.Context) error {
			m := &attrtypes.MsgAddAttributeRequest{
				Owner: e.bech(ws[1]), Account: e.bech(ws[2]), Name: attrRaw(ws[3]), Value: attrVal(ws[4]),
				AttributeType: attrTypeOf(ws[5]), ExpirationDate: attrExp(ws[6])}
			vb(m)
			_, err := e.amsg.AddAttribute(ctx, m)
			return err
		})
	case "upd":
		return run(func(ctx sdk.Context) error {
			m := &attrtypes.MsgUpdateAttributeRequest{
				Owner: e.bech(ws[1]), Account: e.bech(ws[2]), Name: attrRaw(ws[3]),
				OriginalValue: attrVal(ws[4]), OriginalAttributeType: attrTypeOf(ws[5]),
				UpdateValue: attrVal(ws[6]), UpdateAttributeType: attrTypeOf(ws[7])}
			vb(m)
			_, err := e.amsg.UpdateAttribute(ctx, m)
			return err
		})
	case "updexp":
		return run(func(ctx sdk.Context) error {
			m := &attrtypes.MsgUpdateAttributeExpirationRequest{
				Owner: e.bech(ws[1]), Account: e.bech(ws[2]), Name: attrRaw(ws[3]), Value: attrVal(ws[4]), ExpirationDate: attrExp(ws[5])}
			vb(m)
			_, err := e.amsg.UpdateAttributeExpiration(ctx, m)
			return err
		})
	case "del":
		return run(func(ctx sdk.Context) error {
			m := &attrtypes.MsgDeleteAttributeRequest{
				Owner: e.bech(ws[1]), Account: e.bech(ws[2]), Name: attrRaw(ws[3])}
			vb(m)
			_, err := e.amsg.DeleteAttribute(ctx, m)
			return err
		})
	case "deld":
		return run(func(ctx sdk.Context) error {
			m := &attrtypes.MsgDeleteDistinctAttributeRequest{
				Owner: e.bech(ws[1]), Account: e.bech(ws[2]), Name: attrRaw(ws[3]), Value: attrVal(ws[4])}
			vb(m)
			_, err := e.amsg.DeleteDistinctAttribute(ctx, m)
			return err
		})
	case "bind":
		return run(func(ctx sdk.Context) error {
			// the record segment is the raw name up to its last dot; the parent is the root
			seg := attrRaw(ws[1])
			if i := strings.LastIndex(seg, "."); i >= 0 {
				seg = seg[:i]
			}
			_, err := e.nmsg.BindName(ctx, &nametypes.MsgBindNameRequest{
				Parent: nametypes.NameRecord{Name: attrRoot, Address: e.bech(ws[2])},
				Record: nametypes.NameRecord{Name: seg, Address: e.bech(ws[2]), Restricted: true}})
			return err
		})
	case "xfer":
		return run(func(ctx sdk.Context) error {
			_, err := e.nmsg.ModifyName(ctx, &nametypes.MsgModifyNameRequest{
				Authority: e.bech(ws[1]),
				Record:    nametypes.NameRecord{Name: attrRaw(ws[2]), Address: e.bech(ws[3]), Restricted: true}})
			return err
		})
	case "delname":
		return run(func(ctx sdk.Context) error {
			_, err := e.nmsg.DeleteName(ctx, &nametypes.MsgDeleteNameRequest{
				Record: nametypes.NameRecord{Name: attrRaw(ws[2]), Address: e.bech(ws[1])}})
			return err
		})
	case "bulk":
		// bulk <signer> <acct> <name> <base> <n> <type> <exp|->
		if len(ws) != 8 {
			return "bad-op"
		}
		base, _ := strconv.ParseInt(ws[4], 10, 64)
		n, _ := strconv.Atoi(ws[5])
		for i := 0; i < n; i++ {
			v := strconv.FormatInt(base+int64(i), 10)
			h := sha256.Sum256([]byte(v))
			e.valSym[string(h[:])] = v
		}
		return run(func(ctx sdk.Context) error {
			for i := 0; i < n; i++ {
				m := &attrtypes.MsgAddAttributeRequest{
					Owner: e.bech(ws[1]), Account: e.bech(ws[2]), Name: attrRaw(ws[3]),
					Value:         []byte(strconv.FormatInt(base+int64(i), 10)),
					AttributeType: attrTypeOf(ws[6]), ExpirationDate: attrExp(ws[7])}
				if i == 0 {
					vb(m)
				}
				if _, err := e.amsg.AddAttribute(ctx, m); err != nil {
					return err
				}
			}
			return nil
		})
	case "sweep":
		// sweep <t> <limit>: the keeper's sweep with a limit of its own
		if len(ws) != 3 {
			return "bad-op"
		}
		t, _ := strconv.ParseInt(ws[1], 10, 64)
		limit, _ := strconv.Atoi(ws[2])
		e.ctx = e.ctx.WithBlockTime(time.Unix(t, 0).UTC())
		return Guard(func() string {
			return "ok " + strconv.Itoa(attrApp.AttributeKeeper.DeleteExpiredAttributes(e.ctx, limit))
		})
	case "regen":
		// regen <t>: genesis round trip of the attribute module: ExportGenesis, the three key spaces
		// of the store (records, lookup counters, expiration queue) emptied, block time t,
		// InitGenesis with the export
		if len(ws) != 2 {
			return "bad-op"
		}
		t, _ := strconv.ParseInt(ws[1], 10, 64)
		return Guard(func() string {
			gs := attrApp.AttributeKeeper.ExportGenesis(e.ctx)
			store := e.ctx.KVStore(attrApp.GetKey(attrtypes.StoreKey))
			for _, p := range [][]byte{attrtypes.AttributeKeyPrefix, attrtypes.AttributeAddrLookupKeyPrefix, attrtypes.AttributeExpirationKeyPrefix} {
				var keys [][]byte
				it := storetypes.KVStorePrefixIterator(store, p)
				for ; it.Valid(); it.Next() {
					keys = append(keys, append([]byte{}, it.Key()...))
				}
				it.Close()
				for _, k := range keys {
					store.Delete(k)
				}
			}
			e.ctx = e.ctx.WithBlockTime(time.Unix(t, 0).UTC())
			attrApp.AttributeKeeper.InitGenesis(e.ctx, gs)
			return "ok " + strconv.Itoa(len(gs.Attributes))
		})
	case "begin":
		t, _ := strconv.ParseInt(ws[1], 10, 64)
		e.ctx = e.ctx.WithBlockTime(time.Unix(t, 0).UTC())
		return Guard(func() string {
			attribute.BeginBlocker(e.ctx, attrApp.AttributeKeeper)
			return "ok"
		})
	}
	return "bad-op"
}

func (e *attrEnv) sym(addr []byte) string {
	if s, ok := e.syms[string(addr)]; ok {
		return s
	}
	return fmt.Sprintf("%x", addr)
}

func (e *attrEnv) symStr(bech string) string {
	if s, ok := e.syms[bech]; ok {
		return s
	}
	return "?" + bech
}

func hashSym(m map[string]string, h []byte) string {
	if s, ok := m[string(h)]; ok {
		if s == "" {
			return "-"
		}
		return s
	}
	return fmt.Sprintf("#%x", h[:4])
}

// dump renders the observable state canonically.
func (e *attrEnv) dump() string {
	ctx := e.ctx
	store := ctx.KVStore(attrApp.GetKey(attrtypes.StoreKey))
	var names, recs, look, cnt, q []string
	for _, n := range attrNames {
		if r, err := attrApp.NameKeeper.GetRecordByName(ctx, n); err == nil && r != nil {
			names = append(names, n+":"+e.symStr(r.Address))
		}
	}
	// records (prefix 0x02), straight from the store
	it := storetypes.KVStorePrefixIterator(store, attrtypes.AttributeKeyPrefix)
	for ; it.Valid(); it.Next() {
		var a attrtypes.Attribute
		if err := attrApp.AppCodec().Unmarshal(it.Value(), &a); err != nil {
			recs = append(recs, "undecodable")
			continue
		}
		exp := "-"
		if a.ExpirationDate != nil {
			exp = strconv.FormatInt(a.ExpirationDate.Unix(), 10)
		}
		recs = append(recs, fmt.Sprintf("%s/%s/%s/%s/%s", e.symStr(a.Address), attrTok(a.Name), attrTok(string(a.Value)), attrTypeStr(a.AttributeType), exp))
	}
	it.Close()
	// the public lookup
	for _, n := range attrNames {
		accs, err := attrApp.AttributeKeeper.AccountsByAttribute(ctx, n)
		if err != nil {
			look = append(look, n+":error")
			continue
		}
		if len(accs) == 0 {
			continue
		}
		var as []string
		for _, a := range accs {
			as = append(as, e.sym(a))
		}
		sort.Strings(as)
		look = append(look, n+":"+strings.Join(as, "+"))
	}
	// counters (prefix 0x03): name hash (32) | len | addr
	it = storetypes.KVStorePrefixIterator(store, attrtypes.AttributeAddrLookupKeyPrefix)
	for ; it.Valid(); it.Next() {
		k := it.Key()
		if len(k) < 34 || len(it.Value()) != 8 {
			cnt = append(cnt, "malformed")
			continue
		}
		cnt = append(cnt, fmt.Sprintf("%s/%s/%d", hashSym(e.nameSym, k[1:33]), e.sym(k[34:]), binary.BigEndian.Uint64(it.Value())))
	}
	it.Close()
	// expiration queue (prefix 0x04): time (8) | len | addr | name hash (32) | value hash (32)
	it = storetypes.KVStorePrefixIterator(store, attrtypes.AttributeExpirationKeyPrefix)
	for ; it.Valid(); it.Next() {
		k := it.Key()
		if len(k) < 10+64 {
			q = append(q, "malformed")
			continue
		}
		t := binary.BigEndian.Uint64(k[1:9])
		l := int(k[9])
		if len(k) != 10+l+64 {
			q = append(q, "malformed")
			continue
		}
		q = append(q, fmt.Sprintf("%d/%s/%s/%s", t, e.sym(k[10:10+l]), hashSym(e.nameSym, k[10+l:10+l+32]), hashSym(e.valSym, k[10+l+32:])))
	}
	it.Close()
	for _, l := range [][]string{names, recs, look, cnt, q} {
		sort.Strings(l)
	}
	return fmt.Sprintf("now=%d names=%s recs=%s look=%s cnt=%s q=%s", ctx.BlockTime().Unix(),
		JoinOr(names, ","), JoinOr(recs, ","), JoinOr(look, ","), JoinOr(cnt, ","), JoinOr(q, ","))
}

// --- observed-state helpers for the generator (mostly-valid ops) ---

// position of the name token in each op line
var attrNameField = map[string]int{"bulk": 3, "add": 3, "upd": 3, "updexp": 3, "del": 3, "deld": 3, "bind": 1, "xfer": 2, "delname": 2}

type attrRec struct{ acct, name, value, ty, exp string }

func (e *attrEnv) lastRecs() []attrRec {
	var out []attrRec
	f := kvArg(strings.Fields(e.last), "recs")
	if f == "" || f == "-" {
		return nil
	}
	for _, ent := range strings.Split(f, ",") {
		p := strings.Split(ent, "/")
		if len(p) == 5 {
			out = append(out, attrRec{p[0], p[1], p[2], p[3], p[4]})
		}
	}
	return out
}

func (e *attrEnv) owner(name string) string {
	if r, err := attrApp.NameKeeper.GetRecordByName(e.ctx, name); err == nil && r != nil {
		return e.symStr(r.Address)
	}
	return ""
}

func (e *attrEnv) now() int64 { return e.ctx.BlockTime().Unix() }

func (e *attrEnv) emit(out *Out, op string) string {
	res := e.exec(op)
	out.Emit(op, res)
	ws := strings.Fields(op)
	if ws[0] != "dump" && ws[0] != "init" {
		out.Count("op:" + ws[0])
		if ws[0] == "sweep" && strings.HasPrefix(res, "ok ") {
			out.Count("res:sweep:ok")
			if ws[2] != "0" && res == "ok "+ws[2] {
				out.Count("sweep:limit_reached")
			}
		} else if ws[0] == "regen" && strings.HasPrefix(res, "ok ") {
			out.Count("res:regen:ok")
		} else {
			out.Count("res:" + ws[0] + ":" + res)
		}
		if res == "ok" || (ws[0] == "regen" && strings.HasPrefix(res, "ok ")) {
			out.Count("accepted")
		} else {
			out.Count("rejected")
		}
		if i := attrNameField[ws[0]]; i > 0 && i < len(ws) {
			if c := attrSpellClass(ws[i]); c != "exact" {
				out.Count("spelling:" + c)
				out.Count("spelled:" + ws[0] + ":" + res)
				if e.lastVB != "" {
					out.Count("spelled:validatebasic:" + e.lastVB)
				}
			}
		}
	}
	return res
}

func driveAttr(t *testing.T, rng *RNG, n int, out *Out) {
	e := newAttrEnv(t)
	maxOps := 20
	if *flagTier == "thorough" {
		maxOps = 50
	}
	signers := []string{"A", "B", "C", "D"}
	for h := 0; h < n; h++ {
		out.Comment(fmt.Sprintf("history %d", h))
		// initial names: 1..3 bound, owners mostly account holders
		var ents []string
		focusName := Pick(rng, attrNames)
		for _, nm := range attrNames {
			if nm == focusName || rng.Chance(70) {
				o := Pick(rng, signers)
				if rng.Chance(4) {
					o = "Z"
				}
				ents = append(ents, nm+":"+o)
			}
		}
		now0 := int64(100 + rng.Intn(50))
		e.emit(out, fmt.Sprintf("init now=%d accts=A|B|C|D names=%s", now0, JoinOr(ents, "|")))
		e.emit(out, "dump")
		// a history concentrates on a few (account, name, value) cells so that re-adds,
		// overwrites and stale queue entries are frequent
		accts := []string{Pick(rng, signers), Pick(rng, signers), "C"}
		vals := []string{Pick(rng, attrValues), Pick(rng, attrValues), Pick(rng, attrValues)}
		// values with surrounding white space (about one history in three has one): stored verbatim
		// under the bytes / proto types and by MsgUpdateAttribute, trimmed by MsgAddAttribute otherwise
		for i := range vals {
			if rng.Chance(13) {
				vals[i] = attrPad(rng, vals[i])
				out.Count("history:padded_value")
			}
		}
		nops := 3 + rng.Intn(maxOps-2)
		// VOLUME histories (about one in twenty): the first message is a bulk of n attributes with
		// one expiration (n from a handful up to a few thousand; the thorough tier goes further),
		// then a short tail in which blocks begin often
		volume, volN := rng.Chance(5), 0
		if volume {
			switch r := rng.Intn(100); {
			case r < 30:
				volN = 2 + rng.Intn(40)
			case r < 55:
				volN = 40 + rng.Intn(500)
			case r < 80:
				volN = 500 + rng.Intn(1000)
			default:
				volN = 1500 + rng.Intn(2000)
			}
			if *flagTier == "thorough" && rng.Chance(4) {
				volN = 3500 + rng.Intn(8000)
			}
			nops = 3 + rng.Intn(6)
			out.Count("volume:histories")
		}
		seen := map[string]attrRec{}
		var gone []attrRec
		var plan []string
		planName := ""
		for i := 0; i < nops; i++ {
			name := Pick(rng, attrNames)
			if rng.Chance(60) {
				name = focusName
			}
			signer := e.owner(name)
			if signer == "" || rng.Chance(8) {
				signer = Pick(rng, attrAcctSyms)
			}
			acct := Pick(rng, accts)
			if rng.Chance(60) {
				acct = accts[0]
			}
			if rng.Chance(2) {
				acct = "-"
			}
			val := Pick(rng, vals)
			if rng.Chance(50) {
				val = vals[0]
			}
			if rng.Chance(2) {
				val = "-"
			}
			ty := Pick(rng, attrTypes)
			if attrPadded(val) && rng.Chance(50) {
				ty = Pick(rng, []string{"bytes", "proto"})
			}
			if (ty == "int" || ty == "float") && strings.HasPrefix(val, "x") && rng.Chance(80) {
				ty = "string"
			}
			if rng.Chance(2) {
				ty = "unspecified"
			}
			exp := "-"
			if rng.Chance(75) {
				exp = strconv.FormatInt(e.now()+int64(Pick(rng, []int{0, 1, 2, 3, 5, 8, 13, 30})), 10)
				if rng.Chance(4) {
					exp = strconv.FormatInt(e.now()-1-int64(rng.Intn(3)), 10)
				}
			}
			recs := e.lastRecs()
			// attributes that were stored earlier in this history and are gone now (deleted,
			// purged with their name, expired): re-adding exactly them meets whatever the
			// removal left behind (queue entries, counters)
			{
				cur := map[string]bool{}
				for _, r := range recs {
					cur[r.acct+"/"+r.name+"/"+r.value] = true
					seen[r.acct+"/"+r.name+"/"+r.value] = r
				}
				gone = gone[:0]
				for k, r := range seen {
					if !cur[k] {
						gone = append(gone, r)
					}
				}
				sort.Slice(gone, func(i, j int) bool {
					return gone[i].acct+"/"+gone[i].name+"/"+gone[i].value < gone[j].acct+"/"+gone[j].name+"/"+gone[j].value
				})
			}
			// sn fixes the signer and the spelling of the name once a branch has chosen its
			// target: about a quarter of the messages spell the name non-normalised, and those
			// are signed by a stranger (an account that does not own the name) half of the time
			spelled := rng.Chance(27)
			sn := func() (string, string) {
				if !spelled {
					return signer, name
				}
				tok := attrSpell(rng, name)
				sg := signer
				if rng.Chance(50) {
					var others []string
					for _, c := range signers {
						if c != e.owner(name) {
							others = append(others, c)
						}
					}
					sg = Pick(rng, others)
					out.Count("spelled:by_stranger")
				}
				return sg, tok
			}
			var op string
			k := rng.Intn(100)
			if volume {
				switch {
				case i == 0:
					k = 98
				case rng.Chance(35):
					k = 85
				case rng.Chance(10):
					k = 95
				}
			}
			// follow-up of an accepted name deletion: bind the name again, re-add what was
			// purged, let time pass (each step taken three times out of four)
			forced := ""
			if len(plan) > 0 {
				if rng.Chance(75) {
					forced = plan[0]
					k = map[string]int{"bind": 66, "readd": 0, "begin": 85}[forced]
				}
				plan = plan[1:]
			}
			// genesis round trip of the attribute module in the middle of a history (not in volume
			// histories: the model's import is quadratic): at the current block time, or later so that
			// stored attributes are expired when they are imported
			regen := forced == "" && !volume && rng.Chance(4)
			switch {
			case regen:
				t := e.now() + int64(Pick(rng, []int{0, 0, 0, 0, 1, 3, 8, 30}))
				op = fmt.Sprintf("regen %d", t)
				for _, r := range recs {
					if x, err := strconv.ParseInt(r.exp, 10, 64); err == nil && x < t {
						out.Count("regen:imports_expired_record")
						break
					}
				}
			case k < 30:
				if len(gone) > 0 && (forced == "readd" || rng.Chance(35)) {
					r := Pick(rng, gone)
					acct, name, val = r.acct, r.name, r.value
					if rng.Chance(60) {
						ty = r.ty
					}
					if o := e.owner(name); o != "" && rng.Chance(90) {
						signer = o
					}
					out.Count("add:formerly_stored")
				} else if len(recs) > 0 && rng.Chance(12) {
					// the other form (trimmed / padded) of a value that is stored: two attributes of one
					// (account, name) whose values differ only in surrounding white space
					r := Pick(rng, recs)
					acct, name, val = r.acct, r.name, attrTogglePad(rng, r.value)
					if attrPadded(val) && rng.Chance(80) {
						ty = Pick(rng, []string{"bytes", "proto"})
					}
					if o := e.owner(name); o != "" && rng.Chance(90) {
						signer = o
					}
					out.Count("add:other_form_of_stored_value")
				}
				if attrPadded(val) {
					out.Count("add:padded_value:" + ty)
				}
				sg, nm := sn()
				op = fmt.Sprintf("add %s %s %s %s %s %s", sg, acct, nm, val, ty, exp)
			case k < 40:
				ov, ot := val, ty
				if len(recs) > 0 && rng.Chance(88) {
					r := Pick(rng, recs)
					acct, name, ov, ot = r.acct, r.name, r.value, r.ty
					if o := e.owner(name); o != "" && rng.Chance(85) {
						signer = o
					}
					if rng.Chance(10) {
						ot = Pick(rng, attrTypes)
					}
				}
				nv := Pick(rng, vals)
				if rng.Chance(8) {
					nv = attrTogglePad(rng, Pick(rng, []string{nv, ov}))
				}
				if rng.Chance(5) {
					ov = attrTogglePad(rng, ov)
					out.Count("upd:other_form_of_original_value")
				}
				if attrPadded(nv) {
					out.Count("upd:padded_new_value")
				}
				sg, nm := sn()
				op = fmt.Sprintf("upd %s %s %s %s %s %s %s", sg, acct, nm, ov, ot, nv, ty)
			case k < 52:
				if len(recs) > 0 && rng.Chance(88) {
					r := Pick(rng, recs)
					acct, name, val = r.acct, r.name, r.value
					if o := e.owner(name); o != "" && rng.Chance(85) {
						signer = o
					}
					// re-submission of the expiration that is already stored
					if r.exp != "-" && rng.Chance(20) {
						if t, _ := strconv.ParseInt(r.exp, 10, 64); t >= e.now() {
							exp = r.exp
							out.Count("updexp:same_expiration")
						}
					}
				}
				if rng.Chance(8) {
					val = attrTogglePad(rng, val)
					out.Count("updexp:other_form_of_value")
				}
				sg, nm := sn()
				op = fmt.Sprintf("updexp %s %s %s %s %s", sg, acct, nm, val, exp)
			case k < 58:
				if len(recs) > 0 && rng.Chance(88) {
					r := Pick(rng, recs)
					acct, name = r.acct, r.name
					if o := e.owner(name); o != "" && rng.Chance(85) {
						signer = o
					}
				}
				sg, nm := sn()
				op = fmt.Sprintf("del %s %s %s", sg, acct, nm)
			case k < 66:
				if len(recs) > 0 && rng.Chance(88) {
					r := Pick(rng, recs)
					acct, name, val = r.acct, r.name, r.value
					if o := e.owner(name); o != "" && rng.Chance(85) {
						signer = o
					}
				}
				// deletion by a value that differs from a stored one only in surrounding white space
				if rng.Chance(15) {
					val = attrTogglePad(rng, val)
					out.Count("deld:other_form_of_value")
				}
				if attrPadded(val) {
					out.Count("deld:padded_value")
				}
				sg, nm := sn()
				op = fmt.Sprintf("deld %s %s %s %s", sg, acct, nm, val)
			case k < 72:
				// prefer a name that is currently unbound
				for _, nm := range attrNames {
					if e.owner(nm) == "" && rng.Chance(70) {
						name = nm
					}
				}
				if forced == "bind" {
					name = planName
				}
				_, nm := sn()
				op = fmt.Sprintf("bind %s %s", nm, Pick(rng, signers))
			case k < 78:
				au := signer
				if rng.Chance(15) {
					au = "gov"
				}
				if sg, nm := sn(); nm != name {
					if au != "gov" {
						au = sg
					}
					name = nm
				}
				op = fmt.Sprintf("xfer %s %s %s", au, name, Pick(rng, signers))
			case k < 82:
				// mostly a name that has attributes at the moment, by its owner
				if len(recs) > 0 && rng.Chance(50) {
					name = Pick(rng, recs).name
					if o := e.owner(name); o != "" && rng.Chance(85) {
						signer = o
					}
					out.Count("delname:name_with_attributes")
				}
				sg, nm := sn()
				op = fmt.Sprintf("delname %s %s", sg, nm)
			case k < 95:
				op = fmt.Sprintf("begin %d", e.now()+int64(Pick(rng, []int{0, 1, 1, 2, 3, 6, 11, 25})))
			case k < 98:
				// the keeper's sweep with a small limit of its own (0 = no limit)
				op = fmt.Sprintf("sweep %d %d", e.now()+int64(Pick(rng, []int{0, 1, 2, 3, 6, 11, 25})), Pick(rng, []int{0, 1, 1, 2, 2, 3, 5, 40}))
			default:
				// many attributes with one expiration: n add messages in one transaction; the values
				// are base..base+n-1 (base 1 runs over the values of the single adds)
				n := 2 + rng.Intn(11)
				if volume {
					n = 2 + rng.Intn(300)
					if i == 0 {
						n = volN
					}
				}
				base := Pick(rng, []int{1, 1, 2, 5, 1000, 10000 + rng.Intn(1000)})
				bexp := "-"
				if volume || rng.Chance(85) {
					bexp = strconv.FormatInt(e.now()+int64(Pick(rng, []int{0, 1, 2, 3, 5, 8})), 10)
				}
				if ty == "unspecified" && volume {
					ty = "string"
				}
				if acct == "-" && volume {
					acct = accts[0]
				}
				if o := e.owner(name); o != "" && (volume || rng.Chance(80)) {
					signer = o
				}
				sg, nm := signer, name
				if !volume {
					sg, nm = sn()
				}
				op = fmt.Sprintf("bulk %s %s %s %d %d %s %s", sg, acct, nm, base, n, ty, bexp)
				switch {
				case n <= 50:
					out.Count("bulk:n<=50")
				case n <= 500:
					out.Count("bulk:n<=500")
				case n <= 1500:
					out.Count("bulk:n<=1500")
				case n <= 3500:
					out.Count("bulk:n<=3500")
				default:
					out.Count("bulk:n>3500")
				}
			}
			if strings.HasPrefix(op, "begin ") || strings.HasPrefix(op, "sweep ") {
				// how many stored attributes have an expiration before the new block time
				t, _ := strconv.ParseInt(strings.Fields(op)[1], 10, 64)
				due := 0
				for _, r := range recs {
					if x, err := strconv.ParseInt(r.exp, 10, 64); err == nil && x < t {
						due++
					}
				}
				kind := strings.Fields(op)[0]
				switch {
				case due == 0:
					out.Count(kind + ":expired=0")
				case due < 10:
					out.Count(kind + ":expired=1..9")
				case due < 1000:
					out.Count(kind + ":expired=10..999")
				default:
					out.Count(kind + ":expired>=1000")
				}
			}
			res := e.emit(out, op)
			e.emit(out, "dump")
			if strings.HasPrefix(op, "delname ") && res == "ok" && len(recs) > 0 {
				plan, planName = []string{"bind", "readd", "begin"}, name
				out.Count("plan:purge_rebind_readd")
			}
		}
		out.Count("histories")
	}
}

// TestAttrSweepCapWitness reproduces finding C16-sweep-cap on the real code at the real scale
// (too large for the line protocol: the Lean model is quadratic in the number of attributes).
// MaxExpiredAttributionCount+1 attributes with one expiration are added through the message
// server; after the first block that begins after the expiration the surplus is still readable
// through the keeper, after the second block it is gone.  Run with
//   VERIF_ATTR_OVERCAP=1 .build/pvharness.test -test.run '^TestAttrSweepCapWitness$' -test.v
func TestAttrSweepCapWitness(t *testing.T) {
	if os.Getenv("VERIF_ATTR_OVERCAP") == "" {
		t.Skip("set VERIF_ATTR_OVERCAP=1")
	}
	n := attribute.MaxExpiredAttributionCount + 1
	e := newAttrEnv(t)
	e.reset([]string{"now=100", "names=kyc.vf:A"})
	expired := func() (stored, exp int) {
		attrs, err := attrApp.AttributeKeeper.GetAllAttributesAddr(e.ctx, e.addrs["B"])
		if err != nil {
			t.Fatal(err)
		}
		for _, a := range attrs {
			if a.ExpirationDate != nil && a.ExpirationDate.Before(e.ctx.BlockTime()) {
				exp++
			}
		}
		return len(attrs), exp
	}
	if res := e.exec(fmt.Sprintf("bulk A B kyc.vf 1 %d string 110", n)); res != "ok" {
		t.Fatalf("bulk: %s", res)
	}
	s0, _ := expired()
	e.exec("begin 111")
	s1, x1 := expired()
	accs, _ := attrApp.AttributeKeeper.AccountsByAttribute(e.ctx, "kyc.vf")
	e.exec("begin 112")
	s2, x2 := expired()
	t.Logf("cap=%d added=%d stored=%d | after begin 111: stored=%d expired-but-stored=%d lookup-accounts=%d | after begin 112: stored=%d expired-but-stored=%d",
		attribute.MaxExpiredAttributionCount, n, s0, s1, x1, len(accs), s2, x2)
	if x1 == 0 {
		t.Fatalf("not reproduced: nothing expired is left after the first block")
	}
}

func replayAttr(t *testing.T, ops []string, out *Out) {
	e := newAttrEnv(t)
	e.reset([]string{"now=100", "names=-"})
	for _, op := range ops {
		if strings.HasPrefix(op, "#") {
			out.Comment(strings.TrimPrefix(strings.TrimPrefix(op, "#"), " "))
			if strings.HasPrefix(op, "# history") {
				e.reset([]string{"now=100", "names=-"})
			}
			continue
		}
		out.Emit(op, e.exec(op))
	}
}
