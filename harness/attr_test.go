package harness

// Model "attr" (C16): the real attribute + name keepers / MsgServers and
// attribute.BeginBlocker on a real app, over histories with moving block times.
// After every op the whole attribute store (records, lookup counters, expiration queue),
// the AccountsByAttribute lookups and the name owners are dumped canonically.

import (
	"crypto/sha256"
	"encoding/binary"
	"fmt"
	"sort"
	"strconv"
	"strings"
	"sync"
	"testing"
	"time"

	storetypes "cosmossdk.io/store/types"

	sdk "github.com/cosmos/cosmos-sdk/types"
	authtypes "github.com/cosmos/cosmos-sdk/x/auth/types"

	"github.com/provenance-io/provenance/app"
	"github.com/provenance-io/provenance/x/attribute"
	attrkeeper "github.com/provenance-io/provenance/x/attribute/keeper"
	attrtypes "github.com/provenance-io/provenance/x/attribute/types"
	namekeeper "github.com/provenance-io/provenance/x/name/keeper"
	nametypes "github.com/provenance-io/provenance/x/name/types"
)

func init() {
	drivers["attr"] = driveAttr
	replayers["attr"] = replayAttr
}

var (
	attrAppOnce sync.Once
	attrApp     *app.App
	attrBaseCtx sdk.Context
)

const attrRoot = "vf"

var (
	attrAcctSyms = []string{"A", "B", "C", "D", "Z"} // Z has no auth account
	attrNames    = []string{"kyc.vf", "aml.vf", "lic.vf"}
	attrValues   = []string{"1", "2", "7", "x1"}
	attrTypes    = []string{"string", "int", "float", "proto", "bytes"}
)

type attrEnv struct {
	t       *testing.T
	ctx     sdk.Context
	addrs   map[string]sdk.AccAddress // symbol -> address
	syms    map[string]string         // bech32 / raw bytes -> symbol
	nameSym map[string]string         // sha256(reversed name) -> name
	valSym  map[string]string         // sha256(value) -> value
	amsg    attrtypes.MsgServer
	nmsg    nametypes.MsgServer
	last    string // last dump
}

func attrAddr(sym string) sdk.AccAddress {
	b := []byte("verif-attr-acct-____")
	copy(b[16:], sym)
	return sdk.AccAddress(b[:20])
}

func newAttrEnv(t *testing.T) *attrEnv {
	attrAppOnce.Do(func() {
		attrApp, attrBaseCtx = NewApp(t)
		ctx := attrBaseCtx
		for _, s := range attrAcctSyms {
			if s == "Z" {
				continue
			}
			a := attrAddr(s)
			acc := attrApp.AccountKeeper.NewAccountWithAddress(ctx, a)
			_ = acc.SetSequence(1)
			attrApp.AccountKeeper.SetAccount(ctx, acc)
		}
		// unrestricted root under which the names of the histories are bound
		if err := attrApp.NameKeeper.SetNameRecord(ctx, attrRoot, attrAddr("A"), false); err != nil {
			t.Fatalf("root name: %v", err)
		}
	})
	e := &attrEnv{t: t, addrs: map[string]sdk.AccAddress{}, syms: map[string]string{}, nameSym: map[string]string{}, valSym: map[string]string{}}
	for _, s := range attrAcctSyms {
		a := attrAddr(s)
		e.addrs[s] = a
		e.syms[a.String()] = s
		e.syms[string(a)] = s
	}
	gov := authtypes.NewModuleAddress("gov")
	e.addrs["gov"] = gov
	e.syms[gov.String()] = "gov"
	e.syms[string(gov)] = "gov"
	for _, n := range attrNames {
		e.nameSym[string(attrtypes.GetNameKeyBytes(n))] = n
	}
	for _, v := range append([]string{""}, attrValues...) {
		h := sha256.Sum256([]byte(v))
		e.valSym[string(h[:])] = v
	}
	e.amsg = attrkeeper.NewMsgServerImpl(attrApp.AttributeKeeper)
	e.nmsg = namekeeper.NewMsgServerImpl(attrApp.NameKeeper)
	return e
}

func (e *attrEnv) bech(sym string) string {
	if sym == "-" {
		return ""
	}
	if a, ok := e.addrs[sym]; ok {
		return a.String()
	}
	return sym // malformed on purpose
}

func attrTypeOf(s string) attrtypes.AttributeType {
	switch s {
	case "string":
		return attrtypes.AttributeType_String
	case "int":
		return attrtypes.AttributeType_Int
	case "float":
		return attrtypes.AttributeType_Float
	case "proto":
		return attrtypes.AttributeType_Proto
	case "bytes":
		return attrtypes.AttributeType_Bytes
	}
	return attrtypes.AttributeType_Unspecified
}

func attrTypeStr(t attrtypes.AttributeType) string {
	switch t {
	case attrtypes.AttributeType_String:
		return "string"
	case attrtypes.AttributeType_Int:
		return "int"
	case attrtypes.AttributeType_Float:
		return "float"
	case attrtypes.AttributeType_Proto:
		return "proto"
	case attrtypes.AttributeType_Bytes:
		return "bytes"
	case attrtypes.AttributeType_Unspecified:
		return "unspecified"
	}
	return "other" + strconv.Itoa(int(t))
}

func attrVal(s string) []byte {
	if s == "-" {
		return nil
	}
	return []byte(s)
}

func attrExp(s string) *time.Time {
	if s == "-" {
		return nil
	}
	n, _ := strconv.ParseInt(s, 10, 64)
	t := time.Unix(n, 0).UTC()
	return &t
}

func attrErrClass(err error) string {
	m := err.Error()
	switch {
	case strings.Contains(m, "does not resolve to address"), strings.Contains(m, "msg sender cannot delete name"),
		strings.Contains(m, "unauthorized"):
		return "err:perm"
	case strings.Contains(m, "no account found for owner"):
		return "err:noacct"
	case strings.Contains(m, "no attributes updated"), strings.Contains(m, "no keys deleted"),
		strings.Contains(m, "name does not exist"), strings.Contains(m, "no address bound to name"):
		return "err:notfound"
	case strings.Contains(m, "name is already bound"):
		return "err:exists"
	}
	return "err:invalid"
}

func (e *attrEnv) reset(ws []string) {
	now, _ := strconv.ParseInt(kvArg(ws, "now"), 10, 64)
	cctx, _ := attrBaseCtx.CacheContext()
	e.ctx = cctx.WithBlockTime(time.Unix(now, 0).UTC())
	if ns := kvArg(ws, "names"); ns != "-" && ns != "" {
		for _, ent := range strings.Split(ns, "|") {
			p := strings.SplitN(ent, ":", 2)
			if err := attrApp.NameKeeper.SetNameRecord(e.ctx, p[0], e.addrs[p[1]], true); err != nil {
				e.t.Fatalf("init name %s: %v", ent, err)
			}
		}
	}
}

// exec executes one op line on the real msg servers / begin blocker.
func (e *attrEnv) exec(op string) string {
	ws := strings.Fields(op)
	if len(ws) == 0 {
		return "bad-op"
	}
	run := func(f func(ctx sdk.Context) error) string {
		err, p := Try(e.ctx, f)
		if p != "" {
			return "panic:" + p
		}
		if err != nil {
			return attrErrClass(err)
		}
		return "ok"
	}
	switch ws[0] {
	case "init":
		e.reset(ws[1:])
		return "ok"
	case "dump":
		e.last = e.dump()
		return e.last
	case "add":
		return run(func(ctx sdk.Context) error {
			_, err := e.amsg.AddAttribute(ctx, &attrtypes.MsgAddAttributeRequest{
				Owner: e.bech(ws[1]), Account: e.bech(ws[2]), Name: ws[3], Value: attrVal(ws[4]),
				AttributeType: attrTypeOf(ws[5]), ExpirationDate: attrExp(ws[6])})
			return err
		})
	case "upd":
		return run(func(ctx sdk.Context) error {
			_, err := e.amsg.UpdateAttribute(ctx, &attrtypes.MsgUpdateAttributeRequest{
				Owner: e.bech(ws[1]), Account: e.bech(ws[2]), Name: ws[3],
				OriginalValue: attrVal(ws[4]), OriginalAttributeType: attrTypeOf(ws[5]),
				UpdateValue: attrVal(ws[6]), UpdateAttributeType: attrTypeOf(ws[7])})
			return err
		})
	case "updexp":
		return run(func(ctx sdk.Context) error {
			_, err := e.amsg.UpdateAttributeExpiration(ctx, &attrtypes.MsgUpdateAttributeExpirationRequest{
				Owner: e.bech(ws[1]), Account: e.bech(ws[2]), Name: ws[3], Value: attrVal(ws[4]), ExpirationDate: attrExp(ws[5])})
			return err
		})
	case "del":
		return run(func(ctx sdk.Context) error {
			_, err := e.amsg.DeleteAttribute(ctx, &attrtypes.MsgDeleteAttributeRequest{
				Owner: e.bech(ws[1]), Account: e.bech(ws[2]), Name: ws[3]})
			return err
		})
	case "deld":
		return run(func(ctx sdk.Context) error {
			_, err := e.amsg.DeleteDistinctAttribute(ctx, &attrtypes.MsgDeleteDistinctAttributeRequest{
				Owner: e.bech(ws[1]), Account: e.bech(ws[2]), Name: ws[3], Value: attrVal(ws[4])})
			return err
		})
	case "bind":
		return run(func(ctx sdk.Context) error {
			seg := strings.TrimSuffix(ws[1], "."+attrRoot)
			_, err := e.nmsg.BindName(ctx, &nametypes.MsgBindNameRequest{
				Parent: nametypes.NameRecord{Name: attrRoot, Address: e.bech(ws[2])},
				Record: nametypes.NameRecord{Name: seg, Address: e.bech(ws[2]), Restricted: true}})
			return err
		})
	case "xfer":
		return run(func(ctx sdk.Context) error {
			_, err := e.nmsg.ModifyName(ctx, &nametypes.MsgModifyNameRequest{
				Authority: e.bech(ws[1]),
				Record:    nametypes.NameRecord{Name: ws[2], Address: e.bech(ws[3]), Restricted: true}})
			return err
		})
	case "delname":
		return run(func(ctx sdk.Context) error {
			_, err := e.nmsg.DeleteName(ctx, &nametypes.MsgDeleteNameRequest{
				Record: nametypes.NameRecord{Name: ws[2], Address: e.bech(ws[1])}})
			return err
		})
	case "begin":
		t, _ := strconv.ParseInt(ws[1], 10, 64)
		e.ctx = e.ctx.WithBlockTime(time.Unix(t, 0).UTC())
		return Guard(func() string {
			attribute.BeginBlocker(e.ctx, attrApp.AttributeKeeper)
			return "ok"
		})
	}
	return "bad-op"
}

func (e *attrEnv) sym(addr []byte) string {
	if s, ok := e.syms[string(addr)]; ok {
		return s
	}
	return fmt.Sprintf("%x", addr)
}

func (e *attrEnv) symStr(bech string) string {
	if s, ok := e.syms[bech]; ok {
		return s
	}
	return "?" + bech
}

func hashSym(m map[string]string, h []byte) string {
	if s, ok := m[string(h)]; ok {
		if s == "" {
			return "-"
		}
		return s
	}
	return fmt.Sprintf("#%x", h[:4])
}

// dump renders the observable state canonically.
func (e *attrEnv) dump() string {
	ctx := e.ctx
	store := ctx.KVStore(attrApp.GetKey(attrtypes.StoreKey))
	var names, recs, look, cnt, q []string
	for _, n := range attrNames {
		if r, err := attrApp.NameKeeper.GetRecordByName(ctx, n); err == nil && r != nil {
			names = append(names, n+":"+e.symStr(r.Address))
		}
	}
	// records (prefix 0x02), straight from the store
	it := storetypes.KVStorePrefixIterator(store, attrtypes.AttributeKeyPrefix)
	for ; it.Valid(); it.Next() {
		var a attrtypes.Attribute
		if err := attrApp.AppCodec().Unmarshal(it.Value(), &a); err != nil {
			recs = append(recs, "undecodable")
			continue
		}
		exp := "-"
		if a.ExpirationDate != nil {
			exp = strconv.FormatInt(a.ExpirationDate.Unix(), 10)
		}
		recs = append(recs, fmt.Sprintf("%s/%s/%s/%s/%s", e.symStr(a.Address), a.Name, string(a.Value), attrTypeStr(a.AttributeType), exp))
	}
	it.Close()
	// the public lookup
	for _, n := range attrNames {
		accs, err := attrApp.AttributeKeeper.AccountsByAttribute(ctx, n)
		if err != nil {
			look = append(look, n+":error")
			continue
		}
		if len(accs) == 0 {
			continue
		}
		var as []string
		for _, a := range accs {
			as = append(as, e.sym(a))
		}
		sort.Strings(as)
		look = append(look, n+":"+strings.Join(as, "+"))
	}
	// counters (prefix 0x03): name hash (32) | len | addr
	it = storetypes.KVStorePrefixIterator(store, attrtypes.AttributeAddrLookupKeyPrefix)
	for ; it.Valid(); it.Next() {
		k := it.Key()
		if len(k) < 34 || len(it.Value()) != 8 {
			cnt = append(cnt, "malformed")
			continue
		}
		cnt = append(cnt, fmt.Sprintf("%s/%s/%d", hashSym(e.nameSym, k[1:33]), e.sym(k[34:]), binary.BigEndian.Uint64(it.Value())))
	}
	it.Close()
	// expiration queue (prefix 0x04): time (8) | len | addr | name hash (32) | value hash (32)
	it = storetypes.KVStorePrefixIterator(store, attrtypes.AttributeExpirationKeyPrefix)
	for ; it.Valid(); it.Next() {
		k := it.Key()
		if len(k) < 10+64 {
			q = append(q, "malformed")
			continue
		}
		t := binary.BigEndian.Uint64(k[1:9])
		l := int(k[9])
		if len(k) != 10+l+64 {
			q = append(q, "malformed")
			continue
		}
		q = append(q, fmt.Sprintf("%d/%s/%s/%s", t, e.sym(k[10:10+l]), hashSym(e.nameSym, k[10+l:10+l+32]), hashSym(e.valSym, k[10+l+32:])))
	}
	it.Close()
	for _, l := range [][]string{names, recs, look, cnt, q} {
		sort.Strings(l)
	}
	return fmt.Sprintf("now=%d names=%s recs=%s look=%s cnt=%s q=%s", ctx.BlockTime().Unix(),
		JoinOr(names, ","), JoinOr(recs, ","), JoinOr(look, ","), JoinOr(cnt, ","), JoinOr(q, ","))
}

// --- observed-state helpers for the generator (mostly-valid ops) ---

type attrRec struct{ acct, name, value, ty, exp string }

func (e *attrEnv) lastRecs() []attrRec {
	var out []attrRec
	f := kvArg(strings.Fields(e.last), "recs")
	if f == "" || f == "-" {
		return nil
	}
	for _, ent := range strings.Split(f, ",") {
		p := strings.Split(ent, "/")
		if len(p) == 5 {
			out = append(out, attrRec{p[0], p[1], p[2], p[3], p[4]})
		}
	}
	return out
}

func (e *attrEnv) owner(name string) string {
	if r, err := attrApp.NameKeeper.GetRecordByName(e.ctx, name); err == nil && r != nil {
		return e.symStr(r.Address)
	}
	return ""
}

func (e *attrEnv) now() int64 { return e.ctx.BlockTime().Unix() }

func (e *attrEnv) emit(out *Out, op string) string {
	res := e.exec(op)
	out.Emit(op, res)
	ws := strings.Fields(op)
	if ws[0] != "dump" && ws[0] != "init" {
		out.Count("op:" + ws[0])
		out.Count("res:" + ws[0] + ":" + res)
		if res == "ok" {
			out.Count("accepted")
		} else {
			out.Count("rejected")
		}
	}
	return res
}

func driveAttr(t *testing.T, rng *RNG, n int, out *Out) {
	e := newAttrEnv(t)
	maxOps := 20
	if *flagTier == "thorough" {
		maxOps = 50
	}
	signers := []string{"A", "B", "C", "D"}
	for h := 0; h < n; h++ {
		out.Comment(fmt.Sprintf("history %d", h))
		// initial names: 1..3 bound, owners mostly account holders
		var ents []string
		focusName := Pick(rng, attrNames)
		for _, nm := range attrNames {
			if nm == focusName || rng.Chance(70) {
				o := Pick(rng, signers)
				if rng.Chance(4) {
					o = "Z"
				}
				ents = append(ents, nm+":"+o)
			}
		}
		now0 := int64(100 + rng.Intn(50))
		e.emit(out, fmt.Sprintf("init now=%d accts=A|B|C|D names=%s", now0, JoinOr(ents, "|")))
		e.emit(out, "dump")
		// a history concentrates on a few (account, name, value) cells so that re-adds,
		// overwrites and stale queue entries are frequent
		accts := []string{Pick(rng, signers), Pick(rng, signers), "C"}
		vals := []string{Pick(rng, attrValues), Pick(rng, attrValues), Pick(rng, attrValues)}
		nops := 3 + rng.Intn(maxOps-2)
		for i := 0; i < nops; i++ {
			name := Pick(rng, attrNames)
			if rng.Chance(60) {
				name = focusName
			}
			signer := e.owner(name)
			if signer == "" || rng.Chance(8) {
				signer = Pick(rng, attrAcctSyms)
			}
			acct := Pick(rng, accts)
			if rng.Chance(60) {
				acct = accts[0]
			}
			if rng.Chance(2) {
				acct = "-"
			}
			val := Pick(rng, vals)
			if rng.Chance(50) {
				val = vals[0]
			}
			if rng.Chance(2) {
				val = "-"
			}
			ty := Pick(rng, attrTypes)
			if (ty == "int" || ty == "float") && strings.HasPrefix(val, "x") && rng.Chance(80) {
				ty = "string"
			}
			if rng.Chance(2) {
				ty = "unspecified"
			}
			exp := "-"
			if rng.Chance(75) {
				exp = strconv.FormatInt(e.now()+int64(Pick(rng, []int{0, 1, 2, 3, 5, 8, 13, 30})), 10)
				if rng.Chance(4) {
					exp = strconv.FormatInt(e.now()-1-int64(rng.Intn(3)), 10)
				}
			}
			recs := e.lastRecs()
			var op string
			switch k := rng.Intn(100); {
			case k < 30:
				op = fmt.Sprintf("add %s %s %s %s %s %s", signer, acct, name, val, ty, exp)
			case k < 40:
				ov, ot := val, ty
				if len(recs) > 0 && rng.Chance(88) {
					r := Pick(rng, recs)
					acct, name, ov, ot = r.acct, r.name, r.value, r.ty
					if o := e.owner(name); o != "" && rng.Chance(85) {
						signer = o
					}
					if rng.Chance(10) {
						ot = Pick(rng, attrTypes)
					}
				}
				op = fmt.Sprintf("upd %s %s %s %s %s %s %s", signer, acct, name, ov, ot, Pick(rng, vals), ty)
			case k < 52:
				if len(recs) > 0 && rng.Chance(88) {
					r := Pick(rng, recs)
					acct, name, val = r.acct, r.name, r.value
					if o := e.owner(name); o != "" && rng.Chance(85) {
						signer = o
					}
				}
				op = fmt.Sprintf("updexp %s %s %s %s %s", signer, acct, name, val, exp)
			case k < 58:
				if len(recs) > 0 && rng.Chance(88) {
					r := Pick(rng, recs)
					acct, name = r.acct, r.name
					if o := e.owner(name); o != "" && rng.Chance(85) {
						signer = o
					}
				}
				op = fmt.Sprintf("del %s %s %s", signer, acct, name)
			case k < 66:
				if len(recs) > 0 && rng.Chance(88) {
					r := Pick(rng, recs)
					acct, name, val = r.acct, r.name, r.value
					if o := e.owner(name); o != "" && rng.Chance(85) {
						signer = o
					}
				}
				op = fmt.Sprintf("deld %s %s %s %s", signer, acct, name, val)
			case k < 71:
				// prefer a name that is currently unbound
				for _, nm := range attrNames {
					if e.owner(nm) == "" && rng.Chance(70) {
						name = nm
					}
				}
				op = fmt.Sprintf("bind %s %s", name, Pick(rng, signers))
			case k < 77:
				au := signer
				if rng.Chance(15) {
					au = "gov"
				}
				op = fmt.Sprintf("xfer %s %s %s", au, name, Pick(rng, signers))
			case k < 80:
				op = fmt.Sprintf("delname %s %s", signer, name)
			default:
				op = fmt.Sprintf("begin %d", e.now()+int64(Pick(rng, []int{0, 1, 1, 2, 3, 6, 11, 25})))
			}
			e.emit(out, op)
			e.emit(out, "dump")
		}
		out.Count("histories")
	}
}

func replayAttr(t *testing.T, ops []string, out *Out) {
	e := newAttrEnv(t)
	e.reset([]string{"now=100", "names=-"})
	for _, op := range ops {
		if strings.HasPrefix(op, "#") {
			out.Comment(strings.TrimPrefix(strings.TrimPrefix(op, "#"), " "))
			if strings.HasPrefix(op, "# history") {
				e.reset([]string{"now=100", "names=-"})
			}
			continue
		}
		out.Emit(op, e.exec(op))
	}
}
