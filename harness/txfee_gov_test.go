package harness

// txfee (C08): the fee configuration changed through the REAL governance messages of x/msgfees.
//
// Nothing but the floor gas price is written into the msgfees store directly once the chain is
// set up: the usd rate, the conversion denom and the message-fee schedule are changed by
// MsgUpdateNhashPerUsdMilProposalRequest, MsgUpdateConversionFeeDenomProposalRequest and
// MsgAdd/Update/RemoveMsgFeeProposalRequest, executed
//   gv=r  the way gov's EndBlocker executes a passed proposal: every message through the app's
//         MsgServiceRouter handler with the gov module account as authority, all messages of one
//         proposal in one cache context that is written only when all succeeded;
//   gv=v  by a whole proposal life on the real app: a signed MsgSubmitProposal (with deposit) and
//         MsgVote of the genesis delegator in one block, the voting period passes, the next
//         block's EndBlocker tallies and executes.
// Afterwards the params and the schedule are READ BACK from the keeper (`cfg=` field).

import (
	"fmt"
	"sort"
	"strconv"
	"strings"
	"time"

	sdkmath "cosmossdk.io/math"
	storetypes "cosmossdk.io/store/types"

	"github.com/cosmos/cosmos-sdk/client/tx"
	"github.com/cosmos/cosmos-sdk/crypto/keys/secp256k1"
	sdk "github.com/cosmos/cosmos-sdk/types"
	"github.com/cosmos/cosmos-sdk/types/tx/signing"
	authsigning "github.com/cosmos/cosmos-sdk/x/auth/signing"
	govv1 "github.com/cosmos/cosmos-sdk/x/gov/types/v1"

	msgfeestypes "github.com/provenance-io/provenance/x/msgfees/types"
)

type txfeeGovMsg struct {
	kind  string // rate | denom | add | upd | rm
	rate  uint64
	denom string
	typ   string
	fee   sdk.Coin
	rcp   string // role or "-"
	bips  string // decimal, or "-" = the empty string
}

func (m txfeeGovMsg) String() string {
	switch m.kind {
	case "rate":
		return fmt.Sprintf("rate:%d", m.rate)
	case "denom":
		return "denom:" + m.denom
	case "rm":
		return "rm:" + m.typ
	default:
		return fmt.Sprintf("%s:%s:%s%s:%s:%s", m.kind, m.typ, m.fee.Amount.String(), m.fee.Denom, m.rcp, m.bips)
	}
}

func txfeeGovStr(ps [][]txfeeGovMsg) string {
	if len(ps) == 0 {
		return "-"
	}
	var out []string
	for _, p := range ps {
		var ms []string
		for _, m := range p {
			ms = append(ms, m.String())
		}
		out = append(out, strings.Join(ms, "+"))
	}
	return strings.Join(out, "/")
}

func txfeeParseGov(s string) ([][]txfeeGovMsg, error) {
	if s == "" || s == "-" {
		return nil, nil
	}
	var out [][]txfeeGovMsg
	for _, ps := range strings.Split(s, "/") {
		var p []txfeeGovMsg
		for _, ms := range strings.Split(ps, "+") {
			f := strings.Split(ms, ":")
			m := txfeeGovMsg{kind: f[0]}
			switch {
			case f[0] == "rate" && len(f) == 2:
				r, err := strconv.ParseUint(f[1], 10, 64)
				if err != nil {
					return nil, err
				}
				m.rate = r
			case f[0] == "denom" && len(f) == 2:
				m.denom = f[1]
			case f[0] == "rm" && len(f) == 2:
				m.typ = f[1]
			case (f[0] == "add" || f[0] == "upd") && len(f) == 5:
				c, err := txfeeCoin(f[2])
				if err != nil {
					return nil, err
				}
				m.typ, m.fee, m.rcp, m.bips = f[1], c, f[3], f[4]
			default:
				return nil, fmt.Errorf("bad gov message %q", ms)
			}
			p = append(p, m)
		}
		out = append(out, p)
	}
	return out, nil
}

// txfeeGovApply: what the message says, on the generator's own picture of the configuration
// (used only to choose interesting declared fees; `ok=false`: the keeper will refuse it).
func txfeeGovApply(convD *string, convR *uint64, sched *[]txfeeSched, m txfeeGovMsg) bool {
	idx := -1
	for i, s := range *sched {
		if s.typ == m.typ {
			idx = i
		}
	}
	switch m.kind {
	case "rate":
		*convR = m.rate
	case "denom":
		*convD = m.denom
	case "rm":
		if idx < 0 {
			return false
		}
		*sched = append(append([]txfeeSched(nil), (*sched)[:idx]...), (*sched)[idx+1:]...)
	case "add", "upd":
		if (m.kind == "add") != (idx < 0) {
			return false
		}
		var bips uint32
		if m.rcp != "-" {
			bips = 5000
			if m.bips != "-" {
				b, _ := strconv.ParseUint(m.bips, 10, 32)
				bips = uint32(b)
			}
		}
		ent := txfeeSched{typ: m.typ, fee: m.fee, rcp: m.rcp, bips: bips}
		ns := append([]txfeeSched(nil), *sched...)
		if idx < 0 {
			ns = append(ns, ent)
		} else {
			ns[idx] = ent
		}
		*sched = ns
	}
	return true
}

// txfeeGovApplyAll applies proposals atomically (a proposal with a refused message changes nothing).
func txfeeGovApplyAll(convD string, convR uint64, sched []txfeeSched, ps [][]txfeeGovMsg) (string, uint64, []txfeeSched) {
	for _, p := range ps {
		d, r, s := convD, convR, append([]txfeeSched(nil), sched...)
		ok := true
		for _, m := range p {
			if !txfeeGovApply(&d, &r, &s, m) {
				ok = false
				break
			}
		}
		if ok {
			convD, convR, sched = d, r, s
		}
	}
	return convD, convR, sched
}

func (e *txfeeEnv) govSdkMsg(k *txfeeKeys, m txfeeGovMsg) sdk.Msg {
	auth := e.app.MsgFeesKeeper.GetAuthority()
	rcp, bips := "", ""
	if m.rcp != "-" && m.rcp != "" {
		rcp = k.addr[m.rcp].String()
	}
	if m.bips != "-" {
		bips = m.bips
	}
	switch m.kind {
	case "rate":
		return msgfeestypes.NewMsgUpdateNhashPerUsdMilProposalRequest(m.rate, auth)
	case "denom":
		return msgfeestypes.NewMsgUpdateConversionFeeDenomProposalRequest(m.denom, auth)
	case "rm":
		return msgfeestypes.NewMsgRemoveMsgFeeProposalRequest(txfeeTypeURL[m.typ], auth)
	case "add":
		return msgfeestypes.NewMsgAddMsgFeeProposalRequest(txfeeTypeURL[m.typ], m.fee, rcp, bips, auth)
	default:
		return msgfeestypes.NewMsgUpdateMsgFeeProposalRequest(txfeeTypeURL[m.typ], m.fee, rcp, bips, auth)
	}
}

// govRoute executes the proposals the way gov's EndBlocker does with a proposal that won its vote
// (forked SDK x/gov/abci.go: cache context, router handler per message, written when all passed).
func (e *txfeeEnv) govRoute(ctx sdk.Context, k *txfeeKeys, ps [][]txfeeGovMsg) []string {
	var res []string
	for _, p := range ps {
		cctx, write := ctx.CacheContext()
		ok := true
		for _, m := range p {
			msg := e.govSdkMsg(k, m)
			if vb, is := msg.(sdk.HasValidateBasic); is {
				if err := vb.ValidateBasic(); err != nil {
					e.t.Fatalf("generator produced a governance message gov would not accept: %v", err)
				}
			}
			func() {
				defer func() {
					if r := recover(); r != nil {
						ok = false
					}
				}()
				h := e.app.MsgServiceRouter().Handler(msg)
				if h == nil {
					ok = false
					return
				}
				if _, err := h(cctx, msg); err != nil {
					ok = false
				}
			}()
			if !ok {
				break
			}
		}
		if ok {
			write()
			res = append(res, "ok")
		} else {
			res = append(res, "fail")
		}
	}
	return res
}

const txfeeGovGas = 1_500_000

// govTxFee: what a governance transaction of the genesis delegator declares: the base fee under
// `floor` plus the base fee under the compiled-in default floor price (a node that — wrongly —
// prices by anything between the two still executes the proposal; the harness must get to the
// transaction under test, whose clauses then judge the pricing).
func govTxFee(floor sdk.Coin) sdk.Coins {
	fee := sdk.NewCoins(sdk.NewCoin(msgfeesDefaultFloor.Denom, msgfeesDefaultFloor.Amount.MulRaw(txfeeGovGas)))
	if floor.Amount.IsPositive() {
		fee = fee.Add(sdk.NewCoin(floor.Denom, floor.Amount.MulRaw(txfeeGovGas)))
	}
	return fee
}

// govFund gives the genesis delegator what its governance transactions will pay under `floor`.
func (e *txfeeEnv) govFund(ctx sdk.Context, floor sdk.Coin, nProps int) {
	fee := govTxFee(floor)
	for i := 0; i < 2*nProps; i++ {
		e.fund(ctx, e.gaddr, fee)
	}
}

// govVote runs whole proposal lives.  On entry the block being built holds flushed, uncommitted
// state; on return the block being built is the one whose EndBlocker executed the proposals.
func (e *txfeeEnv) govVote(k *txfeeKeys, floor sdk.Coin, ps [][]txfeeGovMsg) []string {
	if _, err := e.app.Commit(); err != nil {
		e.t.Fatalf("Commit: %v", err)
	}
	ctx := e.cctx()
	gp, err := e.app.GovKeeper.Params.Get(ctx)
	if err != nil {
		e.t.Fatalf("gov params: %v", err)
	}
	nextID, err := e.app.GovKeeper.ProposalID.Peek(ctx)
	if err != nil {
		e.t.Fatalf("gov proposal id: %v", err)
	}
	acc := e.app.AccountKeeper.GetAccount(ctx, e.gaddr)
	seq := acc.GetSequence()
	fee := govTxFee(floor)
	var txs [][]byte
	var ids []uint64
	for i, p := range ps {
		var msgs []sdk.Msg
		for _, m := range p {
			msgs = append(msgs, e.govSdkMsg(k, m))
		}
		sub, err := govv1.NewMsgSubmitProposal(msgs, gp.MinDeposit, e.gaddr.String(), "", "fee configuration", "verif", false)
		if err != nil {
			e.t.Fatalf("NewMsgSubmitProposal: %v", err)
		}
		id := nextID + uint64(i)
		ids = append(ids, id)
		for _, m := range []sdk.Msg{sub, govv1.NewMsgVote(e.gaddr, id, govv1.OptionYes, "")} {
			bz, err := e.signAs(e.gkey, e.gaddr, acc.GetAccountNumber(), seq, fee, txfeeGovGas, m)
			if err != nil {
				e.t.Fatalf("sign governance tx: %v", err)
			}
			txs = append(txs, bz)
			seq++
		}
	}
	fres := e.finalize(txs)
	// a governance transaction the node refuses or fails: the proposal never gets to its vote
	// (reported as its fate; the model expects `ok` / `fail`, so this is seen)
	txFailed := map[uint64]bool{}
	for i, r := range fres.TxResults {
		if r.Code != 0 {
			txFailed[ids[i/2]] = true
		}
	}
	if _, err := e.app.Commit(); err != nil {
		e.t.Fatalf("Commit: %v", err)
	}
	vp := 48 * time.Hour
	if gp.VotingPeriod != nil {
		vp = *gp.VotingPeriod
	}
	e.now = e.now.Add(vp)
	e.finalize(nil)
	ctx = e.dctx()
	var res []string
	for _, id := range ids {
		pr, err := e.app.GovKeeper.Proposals.Get(ctx, id)
		switch {
		case txFailed[id]:
			res = append(res, "txfail")
		case err != nil:
			res = append(res, "missing")
		case pr.Status == govv1.StatusPassed:
			res = append(res, "ok")
		case pr.Status == govv1.StatusFailed:
			res = append(res, "fail")
		default:
			res = append(res, strings.ToLower(pr.Status.String()))
		}
	}
	return res
}

// signAs signs a one-message transaction of a plain account.
func (e *txfeeEnv) signAs(priv *secp256k1.PrivKey, addr sdk.AccAddress, accN, seq uint64, fee sdk.Coins, gas uint64, msg sdk.Msg) ([]byte, error) {
	cfg := e.app.GetTxConfig()
	b := cfg.NewTxBuilder()
	if err := b.SetMsgs(msg); err != nil {
		return nil, err
	}
	b.SetFeeAmount(fee)
	b.SetGasLimit(gas)
	mode := signing.SignMode(cfg.SignModeHandler().DefaultMode())
	pub := priv.PubKey()
	sig := signing.SignatureV2{PubKey: pub, Data: &signing.SingleSignatureData{SignMode: mode}, Sequence: seq}
	if err := b.SetSignatures(sig); err != nil {
		return nil, err
	}
	sd := authsigning.SignerData{Address: addr.String(), ChainID: ChainID, AccountNumber: accN, Sequence: seq, PubKey: pub}
	sig, err := tx.SignWithPrivKey(e.cctx(), mode, sd, b, priv, cfg, seq)
	if err != nil {
		return nil, err
	}
	if err := b.SetSignatures(sig); err != nil {
		return nil, err
	}
	return cfg.TxEncoder()(b.GetTx())
}

// runGov executes proposals on top of the flushed state of the block being built and leaves the
// result in the block being built (flushed).
func (e *txfeeEnv) runGov(k *txfeeKeys, via string, floor sdk.Coin, ps [][]txfeeGovMsg) string {
	if len(ps) == 0 {
		return "-"
	}
	var res []string
	if via == "v" {
		ctx := e.dctx()
		e.govFund(ctx, floor, len(ps))
		ctx.MultiStore().(storetypes.CacheMultiStore).Write()
		res = e.govVote(k, floor, ps)
	} else {
		ctx := e.dctx()
		res = e.govRoute(ctx, k, ps)
		ctx.MultiStore().(storetypes.CacheMultiStore).Write()
	}
	return strings.Join(res, "/")
}

// cfgDump: msgfees params and schedule as the keeper returns them, canonical.  Read the way the fee
// code reads them — the accessors GetFloorGasPrice / GetConversionFeeDenom / GetNhashPerUsdMil and
// one GetMsgFee lookup per message type (ante decorators, router and fee handler never iterate) —
// AND by iterating the store / reading the params record; where the two disagree the lookup's
// answer is printed (it is what a transaction is charged by) plus a `<type>~store:` / `~store`
// entry with what the store holds, so a lookup that does not answer from the state of the context
// it is given shows up in `cfg=` at once.
func (e *txfeeEnv) cfgDump(ctx sdk.Context, k *txfeeKeys) string {
	p := e.app.MsgFeesKeeper.GetParams(ctx)
	short := map[string]string{}
	for s, u := range txfeeTypeURL {
		short[u] = s
	}
	role := map[string]string{"": "-"}
	for r, a := range k.addr {
		role[a.String()] = r
	}
	render := func(f msgfeestypes.MsgFee) string {
		r, ok := role[f.Recipient]
		if !ok {
			r = "?"
		}
		amt := sdkmath.ZeroInt()
		if !f.AdditionalFee.Amount.IsNil() {
			amt = f.AdditionalFee.Amount
		}
		return fmt.Sprintf("%s%s:%s:%d", amt.String(), f.AdditionalFee.Denom, r, f.RecipientBasisPoints)
	}
	stored := map[string]string{}
	var ents []string
	_ = e.app.MsgFeesKeeper.IterateMsgFees(ctx, func(f msgfeestypes.MsgFee) bool {
		t, ok := short[f.MsgTypeUrl]
		if !ok {
			ents = append(ents, f.MsgTypeUrl+":"+render(f))
			return false
		}
		stored[t] = render(f)
		return false
	})
	for t, u := range txfeeTypeURL {
		look := ""
		if f, err := e.app.MsgFeesKeeper.GetMsgFee(ctx, u); err != nil {
			look = "err"
		} else if f != nil {
			look = render(*f)
		}
		st := stored[t]
		if look != "" {
			ents = append(ents, t+":"+look)
		}
		if look != st {
			if st == "" {
				st = "none"
			}
			ents = append(ents, t+"~store:"+st)
		}
	}
	sort.Strings(ents)
	coinStr := func(c sdk.Coin) string {
		amt := sdkmath.ZeroInt()
		if !c.Amount.IsNil() {
			amt = c.Amount
		}
		return amt.String() + c.Denom
	}
	floor := coinStr(e.app.MsgFeesKeeper.GetFloorGasPrice(ctx))
	conv := fmt.Sprintf("%s:%d", e.app.MsgFeesKeeper.GetConversionFeeDenom(ctx), e.app.MsgFeesKeeper.GetNhashPerUsdMil(ctx))
	if sp := fmt.Sprintf("%s:%d", p.ConversionFeeDenom, p.NhashPerUsdMil); sp != conv {
		conv += "~store:" + sp
	}
	sched := JoinOr(ents, "|")
	if sf := coinStr(p.FloorGasPrice); sf != floor {
		sched += "|floor~store:" + sf
	}
	return fmt.Sprintf("%s;%s;%s", floor, conv, sched)
}
