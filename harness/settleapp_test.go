package harness

import (
	"fmt"
	"math/big"
	"regexp"
	"sort"
	"strings"
	"sync"
	"testing"

	sdkmath "cosmossdk.io/math"

	sdk "github.com/cosmos/cosmos-sdk/types"
	authtypes "github.com/cosmos/cosmos-sdk/x/auth/types"
	banktestutil "github.com/cosmos/cosmos-sdk/x/bank/testutil"

	"github.com/provenance-io/provenance/app"
	"github.com/provenance-io/provenance/x/exchange"
	exchangekeeper "github.com/provenance-io/provenance/x/exchange/keeper"
)

// Model "settleapp" (C01), keeper-level stream: histories of order creation, MsgMarketSettle,
// MsgFillBids, MsgFillAsks on a real app (real bank, hold, exchange keepers and msg server), with a
// dump of the balances of every involved account, the market account and the fee collector and of the
// open orders and of what the hold module has on hold for every account after every op.  The
// messages go through the request's ValidateBasic and then - the SAME request object, as in runTx,
// so that anything ValidateBasic does to it is what the handler sees - the msg server.  The id lists
// come in any order (that of the orders' creation, permuted, the newest order not last).
// Line formats: lean/PvModel/SettleAppDriver.lean.

func init() {
	drivers["settleapp"] = driveSettleApp
	replayers["settleapp"] = replaySettleApp
}

var (
	sappOnce sync.Once
	sappApp  *app.App
	sappCtx  sdk.Context
)

const sappMarketID = uint32(5)

var sappDenoms = []string{"apple", "fig", "usd", "zed"}

type sappEnv struct {
	t     *testing.T
	ctx   sdk.Context
	accts []string
	ids   []uint64
	msg   exchange.MsgServer
}

func sappAddr(name string) sdk.AccAddress {
	switch name {
	case "MKT":
		return exchange.GetMarketAddress(sappMarketID)
	case "FEE":
		return authtypes.NewModuleAddress(authtypes.FeeCollectorName)
	}
	return sdk.MustAccAddressFromBech32(settleAddr(name))
}

func newSappEnv(t *testing.T) *sappEnv {
	sappOnce.Do(func() { sappApp, sappCtx = NewApp(t) })
	ctx, _ := sappCtx.CacheContext()
	settleAddr("MKT0") // keep the name table warm
	settleAddrToName[exchange.GetMarketAddress(sappMarketID).String()] = "MKT"
	settleAddrToName[authtypes.NewModuleAddress(authtypes.FeeCollectorName).String()] = "FEE"
	return &sappEnv{t: t, ctx: ctx, msg: exchangekeeper.NewMsgServer(sappApp.ExchangeKeeper)}
}

var sappErrExtra = []struct {
	rx    *regexp.Regexp
	class string
}{
	{regexp.MustCompile(`^no (ask|bid) order ids provided`), "noids"},
	{regexp.MustCompile(`^invalid (ask|bid) order ids: cannot contain order id zero`), "zeroid"},
	{regexp.MustCompile(`^duplicate (ask|bid) order ids provided`), "dupids"},
	{regexp.MustCompile(`^order ids duplicated as both bid and ask`), "bothsides"},
	{regexp.MustCompile(`^order \d+ (not found|is type|market id|has the same)`), "order"},
	{regexp.MustCompile(`^total (assets|price) .* does not equal sum of`), "total"},
	{regexp.MustCompile(`^settlement (resulted in unexpected partial order|unexpectedly resulted in all orders fully filled)`), "expectpartial"},
	{regexp.MustCompile(`no seller settlement fee ratio found`), "ratiolookup"},
	{regexp.MustCompile(`^price .* is not more than (total required )?seller settlement`), "price_not_above_fees"},
	{regexp.MustCompile(`insufficient funds`), "funds"},
}

func sappErrClass(err error) string {
	first := strings.SplitN(err.Error(), "\n", 2)[0]
	for _, e := range sappErrExtra {
		if e.rx.MatchString(first) {
			return "err:" + e.class
		}
	}
	c := settleErrClass(err)
	if c == "err:other" {
		return "err:other(" + strings.ReplaceAll(first, " ", "_") + ")"
	}
	return c
}

func sappParseIDs(s string) []uint64 {
	if s == "-" || s == "" {
		return nil
	}
	var rv []uint64
	for _, p := range strings.Split(s, "|") {
		var id uint64
		fmt.Sscan(p, &id)
		rv = append(rv, id)
	}
	return rv
}

func (e *sappEnv) dump() string {
	bk := sappApp.BankKeeper
	var parts []string
	for _, name := range append(append([]string{}, e.accts...), "MKT", "FEE") {
		addr := sappAddr(name)
		var cs []string
		for _, d := range sappDenoms {
			b := bk.GetBalance(e.ctx, addr, d)
			if !b.Amount.IsZero() {
				cs = append(cs, b.Amount.String()+d)
			}
		}
		parts = append(parts, name+"="+JoinOr(cs, ","))
	}
	var os []string
	for _, id := range e.ids {
		o, err := sappApp.ExchangeKeeper.GetOrder(e.ctx, id)
		if err != nil || o == nil {
			continue
		}
		os = append(os, settleOrderStr(o))
	}
	var hs []string
	for _, name := range e.accts {
		addr := sappAddr(name)
		var cs []string
		for _, d := range sappDenoms {
			h, err := sappApp.HoldKeeper.GetHoldCoin(e.ctx, addr, d)
			if err != nil {
				cs = append(cs, "err"+d)
			} else if !h.Amount.IsZero() {
				cs = append(cs, h.Amount.String()+d)
			}
		}
		hs = append(hs, name+"="+JoinOr(cs, ","))
	}
	return strings.Join(parts, ";") + " | " + JoinOr(os, "|") + " | " + strings.Join(hs, ";")
}

// run executes f on a cached context that is written only on success (what runTx gives a message).
func (e *sappEnv) run(f func(ctx sdk.Context) (string, error)) string {
	var okRes string
	err, panicked := Try(e.ctx, func(ctx sdk.Context) error {
		r, err := f(ctx)
		okRes = r
		return err
	})
	if panicked != "" {
		return "panic:" + panicked
	}
	if err != nil {
		return sappErrClass(err)
	}
	return okRes
}

func (e *sappEnv) exec(op string) string {
	ws := strings.Fields(op)
	if len(ws) == 0 {
		return "bad-op"
	}
	k := sappApp.ExchangeKeeper
	switch ws[0] {
	case "init":
		e.accts = strings.Split(settleKV(ws, "accts"), ",")
		return e.run(func(ctx sdk.Context) (string, error) {
			var splits []exchange.DenomSplit
			if s := settleKV(ws, "split"); s != "-" && s != "" {
				for _, p := range strings.Split(s, ",") {
					f := strings.Split(p, ":")
					var b uint32
					fmt.Sscan(f[1], &b)
					splits = append(splits, exchange.DenomSplit{Denom: f[0], Split: b})
				}
			}
			var dflt uint32
			fmt.Sscan(settleKV(ws, "dflt"), &dflt)
			params := k.GetParamsOrDefaults(ctx)
			params.DefaultSplit = dflt
			params.DenomSplits = splits
			k.SetParams(ctx, params)
			m := exchange.Market{
				MarketId:            sappMarketID,
				MarketDetails:       exchange.MarketDetails{Name: "verif"},
				AcceptingOrders:     true,
				AllowUserSettlement: true,
				AccessGrants:        []exchange.AccessGrant{{Address: sappAddr("ADM").String(), Permissions: exchange.AllPermissions()}},
			}
			if r := settleKV(ws, "ratio"); r != "none" {
				f := strings.Split(r, ":")
				p, err := settleParseCoin(f[0])
				if err != nil {
					return "", err
				}
				fee, err := settleParseCoin(f[1])
				if err != nil {
					return "", err
				}
				m.FeeSellerSettlementRatios = []exchange.FeeRatio{{Price: p, Fee: fee}}
			}
			if _, err := k.CreateMarket(ctx, m); err != nil {
				return "", err
			}
			return "ok", nil
		})
	case "fund":
		return e.run(func(ctx sdk.Context) (string, error) {
			cs, err := settleParseCoins(ws[2])
			if err != nil {
				return "", err
			}
			return "ok", banktestutil.FundAccount(ctx, sappApp.BankKeeper, sappAddr(ws[1]), sdk.NewCoins(cs...))
		})
	case "ask", "bid":
		return e.run(func(ctx sdk.Context) (string, error) {
			assets, err := settleParseCoin(ws[2])
			if err != nil {
				return "", err
			}
			price, err := settleParseCoin(ws[3])
			if err != nil {
				return "", err
			}
			fees, err := settleParseCoins(ws[4])
			if err != nil {
				return "", err
			}
			owner := sappAddr(ws[1]).String()
			var id uint64
			if ws[0] == "ask" {
				o := exchange.AskOrder{MarketId: sappMarketID, Seller: owner, Assets: assets, Price: price, AllowPartial: ws[5] == "1"}
				if len(fees) > 0 {
					c := fees[0]
					o.SellerSettlementFlatFee = &c
				}
				id, err = k.CreateAskOrder(ctx, o, nil)
			} else {
				o := exchange.BidOrder{MarketId: sappMarketID, Buyer: owner, Assets: assets, Price: price, BuyerSettlementFees: fees, AllowPartial: ws[5] == "1"}
				id, err = k.CreateBidOrder(ctx, o, nil)
			}
			if err != nil {
				return "", err
			}
			e.ids = append(e.ids, id)
			return fmt.Sprintf("ok %d", id), nil
		})
	case "settle":
		return e.run(func(ctx sdk.Context) (string, error) {
			req := &exchange.MsgMarketSettleRequest{
				Admin: sappAddr("ADM").String(), MarketId: sappMarketID,
				AskOrderIds: sappParseIDs(settleKV(ws, "asks")), BidOrderIds: sappParseIDs(settleKV(ws, "bids")),
				ExpectPartial: settleKV(ws, "partial") == "1",
			}
			if err := req.ValidateBasic(); err != nil {
				return "", err
			}
			_, err := e.msg.MarketSettle(ctx, req)
			return "ok", err
		})
	case "fillbids":
		return e.run(func(ctx sdk.Context) (string, error) {
			assets, err := settleParseCoins(settleKV(ws, "assets"))
			if err != nil {
				return "", err
			}
			fee, err := settleParseCoins(settleKV(ws, "fee"))
			if err != nil {
				return "", err
			}
			req := &exchange.MsgFillBidsRequest{Seller: sappAddr(ws[1]).String(), MarketId: sappMarketID,
				TotalAssets: sdk.NewCoins(assets...), BidOrderIds: sappParseIDs(settleKV(ws, "ids"))}
			if len(fee) > 0 {
				c := fee[0]
				req.SellerSettlementFlatFee = &c
			}
			if err = req.ValidateBasic(); err != nil {
				return "", err
			}
			_, err = e.msg.FillBids(ctx, req)
			return "ok", err
		})
	case "fillasks":
		return e.run(func(ctx sdk.Context) (string, error) {
			price, err := settleParseCoin(settleKV(ws, "price"))
			if err != nil {
				return "", err
			}
			fees, err := settleParseCoins(settleKV(ws, "fees"))
			if err != nil {
				return "", err
			}
			req := &exchange.MsgFillAsksRequest{Buyer: sappAddr(ws[1]).String(), MarketId: sappMarketID,
				TotalPrice: price, AskOrderIds: sappParseIDs(settleKV(ws, "ids")), BuyerSettlementFees: sdk.NewCoins(fees...)}
			if err = req.ValidateBasic(); err != nil {
				return "", err
			}
			_, err = e.msg.FillAsks(ctx, req)
			return "ok", err
		})
	case "dump":
		return e.dump()
	}
	return "bad-op"
}

// ---- generator -------------------------------------------------------------------------------

type sappGen struct {
	r    *RNG
	out  *Out
	e    *sappEnv
	u    *big.Int // asset unit
	pu   *big.Int // unit price
	open map[uint64]*settleGenOrder
	rest []uint64 // resting orders: open, owned by the usual accounts, never offered for settlement
}

func (g *sappGen) emit(op string) string {
	res := g.e.exec(op)
	g.out.Emit(op, res)
	kind := strings.Fields(op)[0]
	if kind != "dump" {
		g.out.Count("app:res:" + kind + ":" + strings.SplitN(settleResClass(res), "(", 2)[0])
		g.out.Emit("dump", g.e.exec("dump"))
	}
	return res
}

func (g *sappGen) fees(assets *big.Int, ask bool) string {
	r := g.r
	m := map[string]*big.Int{}
	n := 0
	switch k := r.Intn(100); {
	case k < 40:
		n = 0
	case k < 80:
		n = 1
	default:
		n = 2
	}
	if ask && n > 1 {
		n = 1
	}
	for j := 0; j < n; j++ {
		d := []string{"fig", "usd", "zed"}[r.Intn(3)]
		m[d] = bigMul(assets, int64(1+r.Intn(2)))
	}
	var ds []string
	for d := range m {
		ds = append(ds, d)
	}
	sort.Strings(ds)
	var fs []string
	for _, d := range ds {
		fs = append(fs, m[d].String()+d)
	}
	return JoinOr(fs, ",")
}

// create places an order through the real keeper and remembers it if accepted.
func (g *sappGen) create(ask bool, owner string, assets, price *big.Int, partial bool) uint64 {
	k := "bid"
	if ask {
		k = "ask"
	}
	p := "0"
	if partial {
		p = "1"
	}
	fees := g.fees(assets, ask)
	id := g.place(k, owner, assets, price, fees, p)
	if id == 0 {
		return 0
	}
	fm := map[string]*big.Int{}
	if fees != "-" {
		for _, f := range strings.Split(fees, ",") {
			c, _ := settleParseCoin(f)
			fm[c.Denom] = c.Amount.BigInt()
		}
	}
	g.open[id] = &settleGenOrder{ask: ask, id: int(id), owner: owner, assets: assets, price: price, fees: fm, partial: partial}
	return id
}

// place emits one order creation and returns the new order's id (0 if it was refused).
func (g *sappGen) place(kind, owner string, assets, price *big.Int, fees, partial string) uint64 {
	res := g.emit(fmt.Sprintf("%s %s %sapple %susd %s %s", kind, owner, assets, price, fees, partial))
	var id uint64
	if _, err := fmt.Sscanf(res, "ok %d", &id); err != nil {
		return 0
	}
	return id
}

// resting gives some of the accounts other open orders (large, with fees in several denoms) that no
// request of the history names: their funds stay on hold next to those of the orders being settled,
// and the orders must come out of every message untouched.
func (g *sappGen) resting() {
	r := g.r
	n := 1 + r.Intn(3)
	for i := 0; i < n; i++ {
		a := bigMul(g.u, int64(40+r.Intn(40)))
		price := new(big.Int).Mul(a, bigMul(g.pu, 2))
		if r.Chance(50) {
			fee := "-"
			if r.Chance(85) {
				fee = fmt.Sprintf("%s%s", bigMul(a, int64(2+r.Intn(2))), []string{"fig", "zed", "usd"}[r.Intn(3)])
			}
			if id := g.place("ask", Pick(r, []string{"S1", "S2", "S3", "X1"}), a, price, fee, "1"); id != 0 {
				g.rest = append(g.rest, id)
				g.out.Count("app:resting:ask")
			}
		} else {
			var fs []string
			for _, d := range []string{"fig", "usd", "zed"} {
				if r.Chance(85) {
					fs = append(fs, fmt.Sprintf("%s%s", bigMul(a, int64(2+r.Intn(2))), d))
				}
			}
			if id := g.place("bid", Pick(r, []string{"B1", "B2", "B3", "X1"}), a, price, JoinOr(fs, ","), "1"); id != 0 {
				g.rest = append(g.rest, id)
				g.out.Count("app:resting:bid")
			}
		}
	}
}

// backed says whether the owner of the order has, next to the order's own hold, at least as much
// again on hold in every denom of it (so that releasing the order's hold twice would not fail).
func (g *sappGen) backed(id uint64) bool {
	o, err := sappApp.ExchangeKeeper.GetOrder(g.e.ctx, id)
	if err != nil || o == nil {
		return false
	}
	owner, err := sdk.AccAddressFromBech32(o.GetOwner())
	if err != nil {
		return false
	}
	for _, c := range o.GetHoldAmount() {
		h, err := sappApp.HoldKeeper.GetHoldCoin(g.e.ctx, owner, c.Denom)
		if err != nil || h.Amount.LT(c.Amount.MulRaw(2)) {
			return false
		}
	}
	return true
}

// repeat names one order of the id list once or twice more (next to its first mention, at the front
// or at the end), preferably an order whose owner has other funds on hold.  It returns the new list,
// the repeated id and how often it was added.
func (g *sappGen) repeat(ids []uint64) ([]uint64, uint64, int) {
	r := g.r
	var cands []uint64
	for _, id := range ids {
		if g.backed(id) {
			cands = append(cands, id)
		}
	}
	var victim uint64
	if len(cands) > 0 && r.Chance(85) {
		victim = Pick(r, cands)
		g.out.Count("app:repeat:backed")
	} else {
		victim = Pick(r, ids)
		g.out.Count("app:repeat:any")
	}
	times := 1
	if r.Chance(20) {
		times = 2
	}
	rv := append([]uint64{}, ids...)
	for t := 0; t < times; t++ {
		at := 0
		switch k := r.Intn(100); {
		case k < 40: // right after its first mention
			for i, id := range rv {
				if id == victim {
					at = i + 1
					break
				}
			}
			g.out.Count("app:repeat:adjacent")
		case k < 70:
			at = len(rv)
			g.out.Count("app:repeat:end")
		default:
			g.out.Count("app:repeat:front")
		}
		rv = append(rv[:at], append([]uint64{victim}, rv[at:]...)...)
	}
	g.out.Count(fmt.Sprintf("app:repeat:len:%d", min(len(rv), 5)))
	return rv, victim, times
}

// reorder: a request lists its orders in whatever order the sender likes - the order of their creation
// (ascending ids) is only one of them - and which order is the LAST of its list decides who may be
// filled in part.  Mostly an order that allows a partial fill is kept at the end, so that the permuted
// requests are accepted about as often as the others.
func (g *sappGen) reorder(ids []uint64) []uint64 {
	r := g.r
	if len(ids) < 2 {
		return ids
	}
	if r.Chance(40) {
		g.out.Count("app:order:as-created")
		return ids
	}
	rv := append([]uint64{}, ids...)
	for i := len(rv) - 1; i > 0; i-- {
		j := r.Intn(i + 1)
		rv[i], rv[j] = rv[j], rv[i]
	}
	last := len(rv) - 1
	if o := g.open[rv[last]]; (o == nil || !o.partial) && r.Chance(60) {
		for i, id := range rv[:last] {
			if o := g.open[id]; o != nil && o.partial {
				rv[i], rv[last] = rv[last], rv[i]
				break
			}
		}
	}
	highest := rv[0]
	for _, id := range rv {
		highest = max(highest, id)
	}
	switch {
	case rv[last] != highest:
		g.out.Count("app:order:last-is-not-highest-id")
	case !sort.SliceIsSorted(rv, func(i, j int) bool { return rv[i] < rv[j] }):
		g.out.Count("app:order:permuted-last-highest")
	default:
		g.out.Count("app:order:ascending")
	}
	return rv
}

func (g *sappGen) refresh() {
	for id := range g.open {
		o, err := sappApp.ExchangeKeeper.GetOrder(g.e.ctx, id)
		if err != nil || o == nil {
			delete(g.open, id)
			continue
		}
		g.open[id].assets = o.GetAssets().Amount.BigInt()
		g.open[id].price = o.GetPrice().Amount.BigInt()
	}
}

func (g *sappGen) idsOf(ask bool) []uint64 {
	var rv []uint64
	for id, o := range g.open {
		if o.ask == ask {
			rv = append(rv, id)
		}
	}
	sort.Slice(rv, func(i, j int) bool { return rv[i] < rv[j] })
	return rv
}

func sappIDs(ids []uint64) string {
	if len(ids) == 0 {
		return "-"
	}
	s := make([]string, len(ids))
	for i, id := range ids {
		s[i] = fmt.Sprint(id)
	}
	return strings.Join(s, "|")
}

// round creates a batch of asks and bids shaped like the pure generator's and settles them.
func (g *sappGen) round() {
	r := g.r
	nA, nB := 1+r.Intn(3), 1+r.Intn(3)
	owner := func(ask bool, i int) string {
		if r.Chance(30) {
			return Pick(r, g.e.accts[:7]) // P1, P2 (partly funded) never own an order
		}
		if ask {
			return fmt.Sprintf("S%d", 1+i%3)
		}
		return fmt.Sprintf("B%d", 1+i%3)
	}
	// leftovers of earlier rounds take part again
	prevAsks, prevBids := g.idsOf(true), g.idsOf(false)
	total := new(big.Int)
	var askIDs, bidIDs []uint64
	for i := 0; i < nA; i++ {
		a := bigMul(g.u, int64(1+r.Intn(9)))
		price := new(big.Int).Mul(a, g.pu)
		if r.Chance(10) {
			price.Add(price, big.NewInt(int64(r.Intn(4))))
		}
		if id := g.create(true, owner(true, i), a, price, i == nA-1 && r.Chance(85) || r.Chance(25)); id != 0 {
			askIDs = append(askIDs, id)
			total.Add(total, a)
		}
	}
	// an older partially filled ask goes first so that the new last ask is the one that may be partial
	if len(prevAsks) > 0 && r.Chance(70) {
		askIDs = append([]uint64{prevAsks[0]}, askIDs...)
		total.Add(total, g.open[prevAsks[0]].assets)
		g.out.Count("app:reuse-ask")
	}
	// in any order (before the bids are sized: the last ask of the list is the one that may be partial)
	askIDs = g.reorder(askIDs)
	bidTotal := new(big.Int).Set(total)
	if len(prevBids) > 0 && r.Chance(70) {
		pb := g.open[prevBids[0]]
		if pb.assets.Cmp(bidTotal) < 0 {
			bidIDs = append(bidIDs, prevBids[0])
			bidTotal.Sub(bidTotal, pb.assets)
			g.out.Count("app:reuse-bid")
		}
	}
	shape := r.Intn(100)
	switch {
	case shape < 35:
	case shape < 60:
		bidTotal.Add(bidTotal, bigMul(g.u, int64(1+r.Intn(5))))
	case shape < 85:
		if len(askIDs) > 0 {
			last := g.open[askIDs[len(askIDs)-1]].assets
			short := new(big.Int).Set(g.u)
			if short.Cmp(last) < 0 && short.Cmp(bidTotal) < 0 {
				bidTotal.Sub(bidTotal, short)
			}
		}
	default:
		bidTotal = bigMul(g.u, int64(1+r.Intn(20)))
	}
	if bidTotal.Cmp(big.NewInt(int64(nB))) < 0 {
		bidTotal = big.NewInt(int64(nB))
	}
	premium := int64(r.Intn(6))
	for i, a := range settleSplitTotal(r, bidTotal, nB) {
		pb := new(big.Int).Add(g.pu, big.NewInt(premium+int64(r.Intn(2))))
		if r.Chance(5) && g.pu.Cmp(big.NewInt(1)) > 0 {
			pb = new(big.Int).Sub(g.pu, big.NewInt(1))
		}
		if id := g.create(false, owner(false, i), a, new(big.Int).Mul(a, pb), i == nB-1 && r.Chance(85) || r.Chance(25)); id != 0 {
			bidIDs = append(bidIDs, id)
		}
	}
	if len(askIDs) == 0 || len(bidIDs) == 0 {
		return
	}
	bidIDs = g.reorder(bidIDs)
	// a request may name an order more than once (the stated totals and, for a market settlement,
	// the other side's orders are what they would be if that were two orders)
	repeat := r.Chance(12)
	switch k := r.Intn(100); {
	case k < 72:
		if repeat {
			if r.Chance(50) {
				var v uint64
				var times int
				bidIDs, v, times = g.repeat(bidIDs)
				a := bigMul(g.open[v].assets, int64(times))
				if id := g.create(true, owner(true, 0), a, new(big.Int).Mul(a, g.pu), false); id != 0 {
					askIDs = append([]uint64{id}, askIDs...)
				}
				g.out.Count("app:repeat:settle-bid")
			} else {
				var v uint64
				var times int
				askIDs, v, times = g.repeat(askIDs)
				a := bigMul(g.open[v].assets, int64(times))
				pb := new(big.Int).Add(g.pu, big.NewInt(premium))
				if id := g.create(false, owner(false, 0), a, new(big.Int).Mul(a, pb), false); id != 0 {
					bidIDs = append([]uint64{id}, bidIDs...)
				}
				g.out.Count("app:repeat:settle-ask")
			}
		}
		g.settle(askIDs, bidIDs)
	case k < 86:
		if repeat {
			bidIDs, _, _ = g.repeat(bidIDs)
			g.out.Count("app:repeat:fillbids")
		}
		g.fillBids(bidIDs)
	default:
		if repeat {
			askIDs, _, _ = g.repeat(askIDs)
			g.out.Count("app:repeat:fillasks")
		}
		g.fillAsks(askIDs)
	}
	g.refresh()
}

// malformIDs: a minority of id lists is empty or contains the id zero.
func (g *sappGen) malformIDs(ids []uint64) []uint64 {
	switch k := g.r.Intn(100); {
	case k < 1:
		g.out.Count("app:malformed:no-ids")
		return nil
	case k < 3:
		g.out.Count("app:malformed:zero-id")
		at := g.r.Intn(len(ids) + 1)
		return append(append(append([]uint64{}, ids[:at]...), 0), ids[at:]...)
	}
	return ids
}

func (g *sappGen) settle(askIDs, bidIDs []uint64) {
	r := g.r
	if r.Chance(4) {
		askIDs = append(askIDs, 9999)
		g.out.Count("app:malformed:unknown-order")
	}
	if r.Chance(3) && len(bidIDs) > 0 {
		// a bid among the asks: one of this request's bids, or (if there is one) a resting bid
		wrong := bidIDs[0]
		for _, id := range g.rest {
			if o, _ := sappApp.ExchangeKeeper.GetOrder(g.e.ctx, id); o != nil && o.IsBidOrder() && r.Chance(60) {
				wrong = id
				break
			}
		}
		askIDs = append(askIDs, wrong)
		g.out.Count("app:malformed:bid-as-ask")
	}
	// steer the expect-partial flag with the real BuildSettlement (85% right)
	partial := false
	var asks, bids []*exchange.Order
	for _, id := range askIDs {
		if o, _ := sappApp.ExchangeKeeper.GetOrder(g.e.ctx, id); o != nil {
			asks = append(asks, o)
		}
	}
	for _, id := range bidIDs {
		if o, _ := sappApp.ExchangeKeeper.GetOrder(g.e.ctx, id); o != nil {
			bids = append(bids, o)
		}
	}
	func() {
		defer func() { _ = recover() }()
		if s, err := exchange.BuildSettlement(asks, bids, func(string) (*exchange.FeeRatio, error) { return nil, nil }); err == nil {
			partial = s.PartialOrderLeft != nil
		}
	}()
	if r.Chance(12) {
		partial = !partial
		g.out.Count("app:wrong-expect-partial")
	}
	p := "0"
	if partial {
		p = "1"
	}
	if r.Chance(50) {
		askIDs = g.malformIDs(askIDs)
	} else {
		bidIDs = g.malformIDs(bidIDs)
	}
	g.emit(fmt.Sprintf("settle asks=%s bids=%s partial=%s", sappIDs(askIDs), sappIDs(bidIDs), p))
}

func (g *sappGen) fillBids(bidIDs []uint64) {
	r := g.r
	seller := Pick(r, []string{"S1", "S2", "X1", "B1"})
	if r.Chance(30) {
		// a seller that cannot cover every send of the message: P1 has the assets but no fig (a fig fee is
		// refused AFTER both transfers ran; a usd fee is paid out of the price just received), P2 has no
		// assets (the first transfer is refused, the keeper goes on with the others and fails at the end)
		seller = Pick(r, []string{"P1", "P1", "P2"})
		g.out.Count("app:poor-filler:" + seller)
	}
	total := new(big.Int)
	for _, id := range bidIDs {
		total.Add(total, g.open[id].assets)
	}
	if r.Chance(10) {
		total.Add(total, big.NewInt(1))
		g.out.Count("app:malformed:fill-total")
	}
	fee := "-"
	if r.Chance(50) {
		fee = fmt.Sprintf("%d%s", 1+r.Intn(20), []string{"fig", "usd"}[r.Intn(2)])
	}
	g.emit(fmt.Sprintf("fillbids %s ids=%s assets=%sapple fee=%s", seller, sappIDs(g.malformIDs(bidIDs)), total, fee))
}

func (g *sappGen) fillAsks(askIDs []uint64) {
	r := g.r
	buyer := Pick(r, []string{"B1", "B2", "X1", "S1"})
	if r.Chance(30) {
		// P2 can pay the price but no fig fee (refused after both transfers); P1 cannot pay the price (the
		// price transfer is refused after the assets already moved to it)
		buyer = Pick(r, []string{"P2", "P2", "P1"})
		g.out.Count("app:poor-filler:" + buyer)
	}
	total := new(big.Int)
	for _, id := range askIDs {
		total.Add(total, g.open[id].price)
	}
	if r.Chance(10) {
		total.Add(total, big.NewInt(1))
		g.out.Count("app:malformed:fill-total")
	}
	fees := "-"
	if r.Chance(50) {
		fees = fmt.Sprintf("%dfig", 1+r.Intn(20))
		if r.Chance(40) {
			fees += fmt.Sprintf(",%dusd", 1+r.Intn(20))
		}
	}
	g.emit(fmt.Sprintf("fillasks %s ids=%s price=%susd fees=%s", buyer, sappIDs(g.malformIDs(askIDs)), total, fees))
}

func driveSettleApp(t *testing.T, rng *RNG, n int, out *Out) {
	for h := 0; h < n; h++ {
		out.Comment(fmt.Sprintf("history %d", h))
		e := newSappEnv(t)
		g := &sappGen{r: rng, out: out, e: e, open: map[uint64]*settleGenOrder{}}
		g.u = settleUnit(rng, out)
		if g.u.BitLen() > 100 {
			g.u = new(big.Int).Rsh(g.u, uint(g.u.BitLen()-100))
		}
		if g.u.BitLen() > 64 {
			out.Count("app:unit>2^64")
		}
		g.pu = big.NewInt(int64(2 + rng.Intn(40)))
		if rng.Chance(15) {
			g.pu = new(big.Int).Add(new(big.Int).Lsh(big.NewInt(1), 64), big.NewInt(int64(rng.Intn(5))))
		}
		ratio := "none"
		if rng.Chance(70) {
			rp := int64([]int{10, 100, 1000, 10000, 12345}[rng.Intn(5)])
			ratio = fmt.Sprintf("%dusd:%dusd", rp, 1+int64(rng.Intn(int(rp/5+1))))
		}
		split := fmt.Sprintf("usd:%d,fig:%d", []int{0, 1, 500, 5000, 10000}[rng.Intn(5)], []int{0, 250, 10000}[rng.Intn(3)])
		out.Count("app:ratio:" + strings.SplitN(ratio, "usd", 2)[0][:1])
		g.emit(fmt.Sprintf("init accts=S1,S2,S3,B1,B2,B3,X1,P1,P2 ratio=%s split=%s dflt=%d", ratio, split, []int{0, 500}[rng.Intn(2)]))
		big1 := new(big.Int).Exp(big.NewInt(10), big.NewInt(40), nil)
		big2 := new(big.Int).Exp(big.NewInt(10), big.NewInt(60), nil)
		for _, a := range e.accts {
			op := fmt.Sprintf("fund %s %sapple,%sfig,%susd,%szed", a, big1, big1, big2, big1)
			switch a {
			case "P1": // can deliver assets, owns nothing to pay a price or a fee with
				op = fmt.Sprintf("fund P1 %sapple", big1)
			case "P2": // can pay a price, owns no assets and nothing else to pay a fee with
				op = fmt.Sprintf("fund P2 %susd", big2)
			}
			g.out.Emit(op, e.exec(op))
		}
		g.out.Emit("dump", e.exec("dump"))
		if rng.Chance(60) {
			g.resting()
		}
		rounds := 1 + rng.Intn(3)
		for i := 0; i < rounds; i++ {
			g.round()
		}
		out.Count(fmt.Sprintf("app:rounds:%d", rounds))
	}
}

func replaySettleApp(t *testing.T, ops []string, out *Out) {
	var e *sappEnv
	for _, op := range ops {
		if strings.HasPrefix(op, "# history") || e == nil {
			e = newSappEnv(t)
		}
		if strings.HasPrefix(op, "#") {
			out.Comment(strings.TrimPrefix(op, "# "))
			continue
		}
		out.Emit(op, e.exec(op))
	}
}

var _ = sdkmath.ZeroInt
