package harness

import (
	"encoding/hex"
	"errors"
	"fmt"
	"sort"
	"strconv"
	"strings"
	"testing"

	"github.com/cometbft/cometbft/crypto"
	"github.com/google/uuid"

	sdk "github.com/cosmos/cosmos-sdk/types"
	sdkerrors "github.com/cosmos/cosmos-sdk/types/errors"
	authtypes "github.com/cosmos/cosmos-sdk/x/auth/types"
	govtypes "github.com/cosmos/cosmos-sdk/x/gov/types"

	"github.com/provenance-io/provenance/app"
	namekeeper "github.com/provenance-io/provenance/x/name/keeper"
	nametypes "github.com/provenance-io/provenance/x/name/types"
)

// Models "name" (C15 app stream: real name MsgServer / keeper / query server over histories)
// and "namekey" (C15 pure stream: GetNameKeyPrefix, NormalizeName, ValidateName, IsValidUUID,
// Keeper.Normalize, key pairs, exhaustive collision search).
//
// Names in op lines: "~" = empty string, "+" = space. Addresses: A B C D accounts, N a valid
// address without an account, G the gov module account (the keeper authority), X not bech32,
// "-" the empty string. A trailing "^" (A^) is the all-upper-case bech32 spelling of the same
// address (sdk.AccAddressFromBech32 accepts it; addr.String() is the canonical lower-case one).
//
// "genesis <min> <max> <levels> <name/addr/restricted,...>" runs GenesisState.Validate and
// Keeper.InitGenesis on the current history's state (generated at the start of a history: the
// tree of names a chain starts from comes from a hand-written genesis file); "rlookup <addr>" is
// the ReverseLookup query with the address spelled as given.

func init() {
	drivers["name"] = driveName
	replayers["name"] = replayName
	drivers["namekey"] = driveNameKey
	replayers["namekey"] = replayNameKey
}

var nameAddrSyms = []string{"A", "B", "C", "D", "N", "G"}

type nameEnv struct {
	t    *testing.T
	app  *app.App
	base sdk.Context // state with an empty name store and the accounts
	ctx  sdk.Context // current history
	ms   nametypes.MsgServer
	addr map[string]string // symbol -> bech32
	sym  map[string]string // bech32 -> symbol
}

func nameDec(w string) string {
	if w == "~" {
		return ""
	}
	return strings.ReplaceAll(w, "+", " ")
}

func nameEnc(s string) string {
	if s == "" {
		return "~"
	}
	return strings.ReplaceAll(s, " ", "+")
}

func newNameEnv(t *testing.T) *nameEnv {
	a, ctx := NewApp(t)
	e := &nameEnv{t: t, app: a, addr: map[string]string{}, sym: map[string]string{}}
	for _, s := range []string{"A", "B", "C", "D", "N"} {
		ad := sdk.AccAddress(crypto.AddressHash([]byte("verif-name-" + s)))
		e.addr[s] = ad.String()
		if s != "N" {
			acc := a.AccountKeeper.NewAccountWithAddress(ctx, ad)
			_ = acc.SetSequence(1)
			a.AccountKeeper.SetAccount(ctx, acc)
		}
	}
	a.AccountKeeper.GetModuleAccount(ctx, govtypes.ModuleName) // make sure the gov account exists
	e.addr["G"] = authtypes.NewModuleAddress(govtypes.ModuleName).String()
	for _, s := range nameAddrSyms {
		e.addr[s+"^"] = strings.ToUpper(e.addr[s])
	}
	e.addr["X"] = "notbech32"
	e.addr["-"] = ""
	for s, b := range e.addr {
		e.sym[b] = s
	}
	// start every history from an empty name store: drop whatever genesis bound
	var names []string
	_ = a.NameKeeper.IterateRecords(ctx, nametypes.NameKeyPrefix, func(r nametypes.NameRecord) error {
		names = append(names, r.Name)
		return nil
	})
	for _, n := range names {
		if err := a.NameKeeper.DeleteRecord(ctx, n); err != nil {
			t.Fatalf("cannot clear genesis name %q: %v", n, err)
		}
	}
	e.base = ctx
	e.ctx, _ = ctx.CacheContext()
	e.ms = namekeeper.NewMsgServerImpl(a.NameKeeper)
	return e
}

func (e *nameEnv) a(sym string) string {
	if v, ok := e.addr[sym]; ok {
		return v
	}
	return sym
}

func (e *nameEnv) s(bech string) string {
	if v, ok := e.sym[bech]; ok {
		return v
	}
	return "?"
}

func nameErrClass(err error) string {
	switch {
	case errors.Is(err, sdkerrors.ErrInvalidRequest):
		return "err:invalid"
	case errors.Is(err, sdkerrors.ErrUnauthorized):
		return "err:perm"
	case errors.Is(err, govtypes.ErrInvalidSigner):
		return "err:signer"
	case errors.Is(err, nametypes.ErrNameAlreadyBound):
		return "err:bound"
	case errors.Is(err, nametypes.ErrNameNotBound):
		return "err:notfound"
	case errors.Is(err, nametypes.ErrNameInvalid):
		return "err:name"
	case errors.Is(err, nametypes.ErrNameSegmentTooShort):
		return "err:short"
	case errors.Is(err, nametypes.ErrNameSegmentTooLong):
		return "err:long"
	case errors.Is(err, nametypes.ErrNameHasTooManySegments):
		return "err:levels"
	case errors.Is(err, nametypes.ErrInvalidAddress):
		return "err:addr"
	}
	return "err:other"
}

var errNameBasic = errors.New("validate basic")

// msg runs ValidateBasic (as baseapp does) and the handler on a cached context.
func (e *nameEnv) msg(vb func() error, h func(ctx sdk.Context) error) string {
	err, pan := Try(e.ctx, func(ctx sdk.Context) error {
		if err := vb(); err != nil {
			return errNameBasic
		}
		return h(ctx)
	})
	if pan != "" {
		return "panic:" + pan
	}
	if err == errNameBasic {
		return "err:basic"
	}
	if err != nil {
		return nameErrClass(err)
	}
	return "ok"
}

func (e *nameEnv) recStr(r nametypes.NameRecord) string {
	b := "0"
	if r.Restricted {
		b = "1"
	}
	ad := e.s(r.Address)
	if r.Address == "" {
		ad = "-"
	}
	return nameEnc(r.Name) + "/" + ad + "/" + b
}

func (e *nameEnv) records() []nametypes.NameRecord {
	var recs []nametypes.NameRecord
	_ = e.app.NameKeeper.IterateRecords(e.ctx, nametypes.NameKeyPrefix, func(r nametypes.NameRecord) error {
		recs = append(recs, r)
		return nil
	})
	return recs
}

func (e *nameEnv) dump() string {
	var rs []string
	for _, r := range e.records() {
		rs = append(rs, e.recStr(r))
	}
	sort.Strings(rs)
	var is, vs []string
	for _, s := range nameAddrSyms {
		ad, _ := sdk.AccAddressFromBech32(e.addr[s])
		recs, err := e.app.NameKeeper.GetRecordsByAddress(e.ctx, ad)
		var l []string
		if err != nil {
			l = []string{"error"}
		}
		for _, r := range recs {
			l = append(l, e.recStr(r))
		}
		sort.Strings(l)
		is = append(is, s+"="+JoinOr(l, ";"))
		resp, err := e.app.NameKeeper.ReverseLookup(e.ctx, &nametypes.QueryReverseLookupRequest{Address: e.addr[s]})
		var v []string
		if err != nil {
			v = []string{"error"}
		} else {
			for _, n := range resp.Name {
				v = append(v, nameEnc(n)+"/")
			}
		}
		sort.Strings(v)
		vs = append(vs, s+"="+JoinOr(v, ";"))
	}
	return "R " + JoinOr(rs, ",") + " I " + strings.Join(is, "|") + " V " + strings.Join(vs, "|")
}

func (e *nameEnv) exec(op string) string {
	ws := strings.Fields(op)
	if len(ws) == 0 {
		return "bad-op"
	}
	b := func(s string) bool { return s == "1" }
	switch {
	case ws[0] == "params" && len(ws) == 4:
		var p [3]uint64
		for i := range p {
			p[i], _ = strconv.ParseUint(ws[i+1], 10, 32)
		}
		e.app.NameKeeper.SetParams(e.ctx, nametypes.NewParams(uint32(p[1]), uint32(p[0]), uint32(p[2]), true))
		return "ok"
	case ws[0] == "dump" && len(ws) == 1:
		return e.dump()
	case ws[0] == "genesis" && len(ws) == 5:
		var p [3]uint64
		for i := range p {
			p[i], _ = strconv.ParseUint(ws[i+1], 10, 32)
		}
		gs := nametypes.GenesisState{Params: nametypes.NewParams(uint32(p[1]), uint32(p[0]), uint32(p[2]), true)}
		if ws[4] != "-" {
			for _, w := range strings.Split(ws[4], ",") {
				f := strings.Split(w, "/")
				if len(f) != 3 {
					return "bad-op"
				}
				gs.Bindings = append(gs.Bindings, nametypes.NameRecord{Name: nameDec(f[0]), Address: e.a(f[1]), Restricted: b(f[2])})
			}
		}
		if gs.Validate() != nil {
			return "err:basic"
		}
		return e.initGenesis(gs)
	case ws[0] == "export" && len(ws) == 1:
		return Guard(func() string {
			gs := e.app.NameKeeper.ExportGenesis(e.ctx)
			var rs []string
			for _, r := range gs.Bindings {
				rs = append(rs, e.recStr(r))
			}
			sort.Strings(rs)
			return "ok " + JoinOr(rs, ",")
		})
	case ws[0] == "rlookup" && len(ws) == 2:
		return Guard(func() string {
			resp, err := e.app.NameKeeper.ReverseLookup(e.ctx, &nametypes.QueryReverseLookupRequest{Address: e.a(ws[1])})
			if err != nil {
				return nameErrClass(err)
			}
			var v []string
			for _, n := range resp.Name {
				v = append(v, nameEnc(n)+"/") // "/" keeps the name "-" apart from the empty list
			}
			sort.Strings(v)
			return "ok " + JoinOr(v, ";")
		})
	case ws[0] == "resolve" && len(ws) == 2:
		return Guard(func() string {
			n := nameDec(ws[1])
			resp, err := e.app.NameKeeper.Resolve(e.ctx, &nametypes.QueryResolveRequest{Name: n})
			if err != nil {
				return nameErrClass(err)
			}
			norm, err := e.app.NameKeeper.Normalize(e.ctx, n)
			if err != nil {
				return nameErrClass(err)
			}
			rec, err := e.app.NameKeeper.GetRecordByName(e.ctx, norm)
			if err != nil {
				return nameErrClass(err)
			}
			r := "0"
			if resp.Restricted {
				r = "1"
			}
			return "ok " + e.s(resp.Address) + " " + r + " " + nameEnc(rec.Name)
		})
	case ws[0] == "root" && len(ws) == 5:
		m := nametypes.NewMsgCreateRootNameRequest(e.a(ws[1]), nameDec(ws[2]), e.a(ws[3]), b(ws[4]))
		return e.msg(m.ValidateBasic, func(ctx sdk.Context) error { _, err := e.ms.CreateRootName(ctx, m); return err })
	case ws[0] == "bind" && len(ws) == 6:
		m := nametypes.NewMsgBindNameRequest(
			nametypes.NameRecord{Name: nameDec(ws[3]), Address: e.a(ws[4]), Restricted: b(ws[5])},
			nametypes.NameRecord{Name: nameDec(ws[1]), Address: e.a(ws[2])})
		return e.msg(m.ValidateBasic, func(ctx sdk.Context) error { _, err := e.ms.BindName(ctx, m); return err })
	case ws[0] == "modify" && len(ws) == 5:
		m := &nametypes.MsgModifyNameRequest{Authority: e.a(ws[1]),
			Record: nametypes.NameRecord{Name: nameDec(ws[2]), Address: e.a(ws[3]), Restricted: b(ws[4])}}
		return e.msg(m.ValidateBasic, func(ctx sdk.Context) error { _, err := e.ms.ModifyName(ctx, m); return err })
	case ws[0] == "delete" && len(ws) == 3:
		m := nametypes.NewMsgDeleteNameRequest(nametypes.NameRecord{Name: nameDec(ws[1]), Address: e.a(ws[2])})
		return e.msg(m.ValidateBasic, func(ctx sdk.Context) error { _, err := e.ms.DeleteName(ctx, m); return err })
	}
	return "bad-op"
}

// initGenesis runs Keeper.InitGenesis on a cached context (written only when it does not panic:
// a chain whose genesis panics does not start) and classifies the panic by its error.
func (e *nameEnv) initGenesis(gs nametypes.GenesisState) (res string) {
	cctx, write := e.ctx.CacheContext()
	defer func() {
		if r := recover(); r != nil {
			res = "panic:other"
			if err, ok := r.(error); ok {
				res = "panic:" + strings.TrimPrefix(nameErrClass(err), "err:")
			}
		}
	}()
	e.app.NameKeeper.InitGenesis(cctx, gs)
	write()
	return "ok"
}

func (e *nameEnv) newHistory() { e.ctx, _ = e.base.CacheContext() }

func replayName(t *testing.T, ops []string, out *Out) {
	e := newNameEnv(t)
	for _, op := range ops {
		if strings.HasPrefix(op, "#") {
			if strings.HasPrefix(op, "# history") {
				e.newHistory()
			}
			out.Comment(strings.TrimSpace(strings.TrimPrefix(op, "#")))
			continue
		}
		out.Emit(op, e.exec(op))
	}
}

// ---- generator ---------------------------------------------------------------------------

var nameSegPool = []string{"aa", "ab", "ba", "bb", "aab", "aba", "abb", "baa", "bab", "bba", "abc", "de", "dea", "bc", "abab", "ba-b"}

const nameUUID = "6ba7b810-9dad-11d1-80b4-00c04fd430c8"

var nameOddSegs = []string{"a", "~", "Ab", "+ab+", "a--b-", "x_y", "ab!", nameUUID, "{" + nameUUID + "}",
	"6BA7B810-9DAD-11D1-80B4-00C04FD430C8", "aaaaaaaaaaaaaaaaaaaaaaaaaaaaaaaaa", "aaaaaaaaaaaaaaaaaaaaaaaaaaaaaaaa", "a.b", "-", "0-9"}

var nameParamSets = [][3]int{{1, 3, 3}, {2, 3, 2}, {1, 32, 16}, {2, 5, 4}, {3, 3, 3}, {2, 32, 2}, {2, 36, 16}, {1, 2, 4}}

// namePartner returns another segmentation of the same key pre-image (segments of at least
// minLen bytes), or "" when there is none to be found quickly.
func namePartner(r *RNG, name string, minLen int) string {
	segs := strings.Split(name, ".")
	pre := ""
	for i := len(segs) - 1; i >= 0; i-- {
		pre += segs[i]
	}
	if minLen < 1 {
		minLen = 1
	}
	for try := 0; try < 8; try++ {
		k := 1 + r.Intn(3)
		if len(pre) < k*minLen {
			continue
		}
		// choose k parts with lengths >= minLen summing to len(pre)
		extra := len(pre) - k*minLen
		lens := make([]int, k)
		for i := range lens {
			lens[i] = minLen
		}
		for ; extra > 0; extra-- {
			lens[r.Intn(k)]++
		}
		parts := make([]string, k)
		p := 0
		for i, l := range lens {
			parts[k-1-i] = pre[p : p+l] // first part of the pre-image is the LAST segment
			p += l
		}
		cand := strings.Join(parts, ".")
		if cand != name {
			return cand
		}
	}
	return ""
}

// nameUUIDPool: the uuids the generators draw from (few, so that different spellings of one uuid meet
// in a history).
var nameUUIDPool = []string{nameUUID, "6443a1e8-ec9b-4ff1-b200-d639424bcba4", "00000000-0000-4000-8000-00000000000a", "ffffffff-ffff-5fff-bfff-fffffffffff0"}

// nameUUIDForms returns the spellings of a uuid that uuid.Parse (hence ValidateNameSegment)
// accepts and NormalizeName leaves alone: each is a DIFFERENT valid name segment.
func nameUUIDForms(u string) []string {
	return []string{u, strings.ReplaceAll(u, "-", ""), "{" + u + "}", "urn:uuid:" + u, "x" + u + "y"}
}

func nameUUIDSeg(r *RNG) string {
	f := nameUUIDForms(Pick(r, nameUUIDPool))
	if r.Chance(50) {
		return f[0]
	}
	return Pick(r, f)
}

// nameRespell rewrites one uuid segment of the name in another accepted spelling of the same uuid
// (a different valid name with a different key pre-image), or returns "" when the name has none.
func nameRespell(r *RNG, name string) string {
	segs := strings.Split(name, ".")
	var at []int
	for i, sg := range segs {
		if _, err := uuid.Parse(sg); err == nil {
			at = append(at, i)
		}
	}
	if len(at) == 0 {
		return ""
	}
	i := Pick(r, at)
	id, _ := uuid.Parse(segs[i])
	for try := 0; try < 6; try++ {
		if f := Pick(r, nameUUIDForms(id.String())); f != segs[i] {
			segs[i] = f
			return strings.Join(segs, ".")
		}
	}
	return ""
}

// nameDashVariant drops the dash of one dashed (non-uuid) segment: another valid name.
func nameDashVariant(name string) string {
	segs := strings.Split(name, ".")
	for i, sg := range segs {
		if _, err := uuid.Parse(sg); err != nil && strings.Count(sg, "-") == 1 && len(sg) > 2 {
			segs[i] = strings.Replace(sg, "-", "", 1)
			return strings.Join(segs, ".")
		}
	}
	return ""
}

// nameLookalike returns a different valid name that a "canonicalising" key derivation could
// confuse with the given one (uuid respelled, dash dropped), or "".
func nameLookalike(r *RNG, name string) string {
	if v := nameRespell(r, name); v != "" {
		return v
	}
	return nameDashVariant(name)
}

type nameGen struct {
	e   *nameEnv
	r   *RNG
	out *Out
	min int
}

func (g *nameGen) emit(op string) string {
	res := g.e.exec(op)
	g.out.Emit(op, res)
	return res
}

func (g *nameGen) seg() string {
	if g.r.Chance(7) {
		g.out.Count("segment:uuid")
		return nameUUIDSeg(g.r)
	}
	if g.r.Chance(8) {
		return Pick(g.r, nameOddSegs)
	}
	return Pick(g.r, nameSegPool)
}

func (g *nameGen) acct() string { return Pick(g.r, []string{"A", "B", "C", "D", "A", "B", "C", "N"}) }

func (g *nameGen) anyAddr() string {
	if g.r.Chance(6) {
		return Pick(g.r, []string{"X", "-", "G"})
	}
	return g.acct()
}

func (g *nameGen) other(owner string) string {
	for i := 0; i < 5; i++ {
		if a := g.acct(); a != owner {
			return a
		}
	}
	return "D"
}

// sp spells an address symbol: in a minority of uses the all-upper-case bech32 form of the same
// address (a message or genesis file may carry either spelling).
func (g *nameGen) sp(sym string, pct int) string {
	if len(sym) == 1 && strings.Contains("ABCDNG", sym) && g.r.Chance(pct) {
		g.out.Count("addr-spelling:upper")
		return sym + "^"
	}
	return sym
}

// genesis builds a genesis state for the name module the way a chain's genesis file is written by
// hand: a few roots, names below them (sometimes below a name the file does not bind: InitGenesis
// checks no parents), names and addresses in either accepted spelling, parents before or after
// their children; a minority is malformed (duplicate or key-colliding names, names outside the
// limits, an address that is not bech32 or blank).
func (g *nameGen) genesis() {
	r := g.r
	p := [3]int{2, 32, 16}
	if r.Chance(20) {
		p = Pick(r, nameParamSets)
		g.out.Count("genesis:params=custom")
	}
	seg := func() string { // mostly well-formed: one bad segment refuses the whole file
		if r.Chance(2) {
			return Pick(r, nameOddSegs)
		}
		return Pick(r, nameSegPool)
	}
	var names []string
	for k := 1 + r.Intn(3); k > 0; k-- {
		names = append(names, seg())
	}
	orphans := 0
	for k := r.Intn(7); k > 0; k-- {
		parent := Pick(r, names)
		if r.Chance(12) {
			parent = seg() + "." + parent // a name below a name the file does not bind
			orphans++
		}
		names = append(names, seg()+"."+parent)
	}
	if r.Chance(6) {
		names = append(names, Pick(r, names)) // twice the same name
		g.out.Count("genesis:duplicate-name")
	}
	if r.Chance(6) {
		if pt := namePartner(r, Pick(r, names), p[0]); pt != "" {
			names = append(names, pt)
			g.out.Count("genesis:aimed-at-collision")
		}
	}
	if r.Chance(30) { // children before their parents
		for i := len(names) - 1; i > 0; i-- {
			j := r.Intn(i + 1)
			names[i], names[j] = names[j], names[i]
		}
		g.out.Count("genesis:order=shuffled")
	}
	upper := 0
	var bs []string
	for _, n := range names {
		switch r.Intn(12) {
		case 0:
			n = strings.ToUpper(n)
		case 1:
			n = "+" + strings.Replace(n, ".", "+.+", 1) + "+"
		}
		ad := g.acct()
		switch {
		case r.Chance(4):
			ad = Pick(r, []string{"X", "-", "G"})
		case r.Chance(35):
			ad += "^"
			upper++
		}
		bs = append(bs, nameEnc(n)+"/"+ad+"/"+nameBoolStr(r.Bool()))
	}
	res := g.emit(fmt.Sprintf("genesis %d %d %d %s", p[0], p[1], p[2], JoinOr(bs, ",")))
	g.out.Count("op:genesis")
	g.out.Count("genesis:" + res)
	if res == "ok" {
		g.min = p[0]
		g.out.Count(fmt.Sprintf("genesis:ok:upper-case-addresses=%d", minInt(upper, 4)))
		g.out.Count(fmt.Sprintf("genesis:ok:orphans=%d", minInt(orphans, 2)))
		g.out.Count(fmt.Sprintf("genesis:ok:bindings=%d", len(bs)))
	}
}

// rlookup asks the ReverseLookup query about an address in one of its spellings.
func (g *nameGen) rlookup() {
	ad := g.sp(g.acct(), 50)
	if g.r.Chance(5) {
		ad = Pick(g.r, []string{"X", "G", "G^"})
	}
	res := g.emit("rlookup " + ad)
	k := "canonical"
	if strings.HasSuffix(ad, "^") {
		k = "upper"
	}
	names := "some"
	if res == "ok -" {
		names = "none"
	} else if !strings.HasPrefix(res, "ok") {
		names = res
	}
	g.out.Count("rlookup:spelling=" + k + ",names=" + names)
}

func nameBoolStr(b bool) string {
	if b {
		return "1"
	}
	return "0"
}

// variant disguises a normalized name (case, padding) in a minority of uses
func (g *nameGen) variant(n string) string {
	switch g.r.Intn(20) {
	case 0:
		return strings.ToUpper(n)
	case 1:
		return "+" + n + "+"
	case 2:
		return strings.Replace(n, ".", "+.+", 1)
	}
	return n
}

// nameAncestors returns the proper suffixes of name (its ancestors), nearest first.
func nameAncestors(name string) []string {
	var out []string
	for i := strings.Index(name, "."); i >= 0; {
		name = name[i+1:]
		out = append(out, name)
		i = strings.Index(name, ".")
	}
	return out
}

// multiChild builds a bind whose record name has more than one segment. Either the extra
// segments are random (the immediate parent of the bound name mostly does not exist), or they
// spell the path from an existing ancestor record down to another existing record (so the bound
// name would sit directly below that record, whose owner/restriction the message never
// mentions), or the dots are misplaced.
func (g *nameGen) multiChild(recs []nametypes.NameRecord, pn, signer string) (string, string, string) {
	e, r := g.e, g.r
	byName := map[string]nametypes.NameRecord{}
	for _, rec := range recs {
		byName[rec.Name] = rec
	}
	type below struct {
		rec, anc nametypes.NameRecord
		mid      string
	}
	var cands []below
	for _, rec := range recs {
		for _, a := range nameAncestors(rec.Name) {
			if anc, ok := byName[a]; ok {
				cands = append(cands, below{rec, anc, strings.TrimSuffix(rec.Name, "."+a)})
			}
		}
	}
	switch k := r.Intn(100); {
	case k < 55 && len(cands) > 0:
		c := Pick(r, cands)
		pn = c.anc.Name
		ancOwner, recOwner := e.s(c.anc.Address), e.s(c.rec.Address)
		switch q := r.Intn(100); {
		case q < 45:
			signer = ancOwner
		case q < 60:
			signer = recOwner
		default:
			signer = g.other(recOwner)
		}
		g.out.Count("bind:child=path-below-existing-record")
		g.out.Count(fmt.Sprintf("bind:child-below:restricted=%v,signer-owns-it=%v,named-parent-admits-signer=%v",
			c.rec.Restricted, signer == recOwner, !c.anc.Restricted || signer == ancOwner))
		return g.seg() + "." + c.mid, pn, signer
	case k < 90:
		child := g.seg() + "." + g.seg()
		if r.Chance(30) {
			child = g.seg() + "." + child
		}
		g.out.Count("bind:child=random-segments")
		return child, pn, signer
	default:
		g.out.Count("bind:child=misplaced-dots")
		d := Pick(r, []string{".", "..", "+.+"})
		if r.Bool() {
			return g.seg() + d, pn, signer
		}
		return d + g.seg(), pn, signer
	}
}

func (g *nameGen) history() {
	e, r := g.e, g.r
	e.newHistory()
	g.min = 2
	if r.Chance(25) {
		p := Pick(r, nameParamSets)
		g.min = p[0]
		g.out.Count("params:custom")
		g.emit(fmt.Sprintf("params %d %d %d", p[0], p[1], p[2]))
	} else {
		g.out.Count("params:default")
	}
	g.emit("dump")
	if r.Chance(40) {
		// the history starts from a genesis file instead of the empty store
		g.genesis()
		g.emit("dump")
		if r.Chance(50) {
			g.rlookup()
		}
	}
	steps := 8 + r.Intn(20)
	for i := 0; i < steps; i++ {
		recs := e.records()
		kind := r.Intn(100)
		if len(recs) == 0 || (i < 3 && r.Chance(60)) {
			kind = 95
		}
		var op string
		target := ""
		switch {
		case kind < 38: // bind
			var pn, signer string
			if len(recs) > 0 && r.Chance(85) {
				p := Pick(r, recs)
				pn = p.Name
				owner := e.s(p.Address)
				switch {
				case r.Chance(60):
					signer = owner
					g.out.Count("bind:signer=owner")
				default:
					signer = g.other(owner)
					g.out.Count("bind:signer=stranger")
				}
				if p.Restricted {
					g.out.Count("bind:parent=restricted")
				} else {
					g.out.Count("bind:parent=open")
				}
			} else {
				pn = g.seg()
				if r.Chance(40) {
					pn = g.seg() + "." + pn
				}
				signer = g.anyAddr()
				g.out.Count("bind:parent=random")
			}
			child := g.seg()
			if r.Chance(16) {
				// a RECORD name that itself has several segments: the bound name's immediate parent is
				// then not the parent the message names
				child, pn, signer = g.multiChild(recs, pn, signer)
			} else if len(recs) > 0 && r.Chance(12) {
				// aim at a name whose key collides with an existing one
				if pt := namePartner(r, Pick(r, recs).Name, g.min); pt != "" && strings.Contains(pt, ".") {
					i := strings.Index(pt, ".")
					child, pn = pt[:i], pt[i+1:]
					g.out.Count("bind:aimed-at-collision")
				}
			}
			if len(recs) > 0 && r.Chance(10) {
				// aim at another spelling of an existing name (uuid segment respelled, dash dropped), as
				// the bound name or as the parent
				if v := nameLookalike(r, Pick(r, recs).Name); v != "" {
					if i := strings.Index(v, "."); i >= 0 && r.Chance(50) {
						child, pn = v[:i], v[i+1:]
					} else {
						pn = v
					}
					g.out.Count("bind:aimed-at-lookalike")
				}
			}
			target = child + "." + pn
			op = fmt.Sprintf("bind %s %s %s %s %s", nameEnc(g.variant(pn)), g.sp(signer, 7), nameEnc(child), g.sp(g.anyAddr(), 7), nameBoolStr(r.Bool()))
		case kind < 63: // modify
			var n, auth string
			owner := ""
			if len(recs) > 0 && r.Chance(90) {
				p := Pick(r, recs)
				n, owner = p.Name, e.s(p.Address)
				if r.Chance(12) {
					if pt := namePartner(r, n, g.min); pt != "" {
						n = pt
						g.out.Count("modify:aimed-at-collision")
					}
				}
				if r.Chance(10) {
					if v := nameLookalike(r, n); v != "" {
						n = v
						g.out.Count("modify:aimed-at-lookalike")
					}
				}
			} else {
				n = g.seg() + "." + g.seg()
			}
			switch k := r.Intn(100); {
			case k < 45 && owner != "":
				auth = owner
				g.out.Count("modify:signer=owner")
			case k < 65:
				auth = "G"
				g.out.Count("modify:signer=gov")
			default:
				auth = g.other(owner)
				g.out.Count("modify:signer=stranger")
			}
			to := g.anyAddr()
			if owner != "" && r.Chance(35) {
				to = owner
			}
			target = n
			op = fmt.Sprintf("modify %s %s %s %s", g.sp(auth, 7), nameEnc(g.variant(n)), g.sp(to, 7), nameBoolStr(r.Bool()))
		case kind < 80: // delete
			var n, signer string
			if len(recs) > 0 && r.Chance(90) {
				p := Pick(r, recs)
				n = p.Name
				owner := e.s(p.Address)
				if r.Chance(60) {
					signer = owner
					g.out.Count("delete:signer=owner")
				} else if r.Chance(20) {
					signer = "G" // governance may modify, but not delete
					g.out.Count("delete:signer=gov")
				} else {
					signer = g.other(owner)
					g.out.Count("delete:signer=stranger")
				}
				if r.Chance(10) {
					if pt := namePartner(r, n, g.min); pt != "" {
						n = pt
						g.out.Count("delete:aimed-at-collision")
					}
				}
				if r.Chance(10) {
					if v := nameLookalike(r, n); v != "" {
						n = v
						g.out.Count("delete:aimed-at-lookalike")
					}
				}
			} else {
				n = g.seg()
				signer = g.anyAddr()
			}
			target = n
			op = fmt.Sprintf("delete %s %s", nameEnc(g.variant(n)), g.sp(signer, 7))
		case kind < 90: // resolve only
			n := g.seg() + "." + g.seg()
			if len(recs) > 0 && r.Chance(80) {
				n = Pick(r, recs).Name
				if r.Chance(40) {
					if pt := namePartner(r, n, g.min); pt != "" {
						n = pt
					}
				}
				if r.Chance(25) {
					if v := nameLookalike(r, n); v != "" {
						n = v
					}
				}
			}
			res := g.emit("resolve " + nameEnc(g.variant(n)))
			g.out.Count("resolve:" + strings.Fields(res)[0])
			continue
		default: // root
			auth := "G"
			if r.Chance(20) {
				auth = g.anyAddr()
			}
			n := g.seg()
			for k := r.Intn(3); k > 0 && r.Chance(50); k-- {
				n = g.seg() + "." + n
			}
			if len(recs) > 0 && r.Chance(15) {
				n = g.seg() + "." + Pick(r, recs).Name
			}
			target = n
			op = fmt.Sprintf("root %s %s %s %s", g.sp(auth, 4), nameEnc(g.variant(n)), g.sp(g.anyAddr(), 7), nameBoolStr(r.Bool()))
		}
		res := g.emit(op)
		k := strings.Fields(op)[0]
		g.out.Count("op:" + k)
		g.out.Count(k + ":" + res)
		g.emit("dump")
		if r.Chance(6) {
			g.rlookup()
		}
		if r.Chance(45) {
			res := g.emit("resolve " + nameEnc(target))
			g.out.Count("resolve:" + strings.Fields(res)[0])
		}
		if r.Chance(20) {
			if rs := e.records(); len(rs) > 0 {
				if pt := namePartner(r, Pick(r, rs).Name, g.min); pt != "" {
					res := g.emit("resolve " + nameEnc(pt))
					g.out.Count("resolve-partner:" + strings.Fields(res)[0])
				}
			}
		}
		if r.Chance(25) {
			// another spelling of a bound name is another name: it resolves to its own record or not at all
			var vs []string
			for _, rec := range e.records() {
				if v := nameLookalike(r, rec.Name); v != "" {
					vs = append(vs, v)
				}
			}
			if len(vs) > 0 {
				res := g.emit("resolve " + nameEnc(Pick(r, vs)))
				g.out.Count("resolve-lookalike:" + strings.Fields(res)[0])
			}
		}
	}
	// ExportGenesis is a third listing of the records: it must agree with the dump above
	if r.Chance(50) {
		res := g.emit("export")
		g.out.Count("export:" + strings.Fields(res)[0])
	}
	g.out.Count(fmt.Sprintf("final-records:%d", minInt(len(e.records()), 12)))
}


func driveName(t *testing.T, rng *RNG, n int, out *Out) {
	e := newNameEnv(t)
	g := &nameGen{e: e, r: rng, out: out}
	for h := 0; h < n; h++ {
		out.Comment(fmt.Sprintf("history %d", h))
		g.history()
	}
}

// ---- pure stream ------------------------------------------------------------------------

type nameKeyEnv struct {
	e *nameEnv
}

func (k *nameKeyEnv) exec(op string) string {
	ws := strings.Fields(op)
	return Guard(func() string {
		switch {
		case ws[0] == "key" && len(ws) == 2:
			key, err := nametypes.GetNameKeyPrefix(nameDec(ws[1]))
			if err != nil {
				return nameErrClass(err)
			}
			return "ok " + hex.EncodeToString(key)
		case ws[0] == "norm" && len(ws) == 2:
			return "ok " + nameEnc(nametypes.NormalizeName(nameDec(ws[1])))
		case ws[0] == "valid" && len(ws) == 2:
			n := nameDec(ws[1])
			return "ok " + nameBoolStr(nametypes.ValidateName(n) == nil) + " uuid=" + nameBoolStr(nametypes.IsValidUUID(n))
		case ws[0] == "knorm" && len(ws) == 5:
			ctx, _ := k.e.base.CacheContext()
			var p [3]uint64
			for i := range p {
				p[i], _ = strconv.ParseUint(ws[i+1], 10, 32)
			}
			k.e.app.NameKeeper.SetParams(ctx, nametypes.NewParams(uint32(p[1]), uint32(p[0]), uint32(p[2]), true))
			n, err := k.e.app.NameKeeper.Normalize(ctx, nameDec(ws[4]))
			if err != nil {
				return nameErrClass(err)
			}
			return "ok " + nameEnc(n)
		case ws[0] == "pair" && len(ws) == 6:
			k1, err1 := nametypes.GetNameKeyPrefix(nameDec(ws[4]))
			k2, err2 := nametypes.GetNameKeyPrefix(nameDec(ws[5]))
			if err1 != nil || err2 != nil {
				return "err:name"
			}
			if string(k1) == string(k2) {
				return "ok same"
			}
			return "ok diff"
		case ws[0] == "search" && len(ws) == 5:
			var p [3]int
			for i := range p {
				p[i], _ = strconv.Atoi(ws[i+2])
			}
			return nameSearch(nameDec(ws[1]), p[0], p[1], p[2])
		}
		return "bad-op"
	})
}

// nameSearch computes the real key of every name with 1..maxSegs segments, each a word of
// minLen..maxLen letters of the alphabet, and reports the classes of names sharing a key.
func nameSearch(alpha string, minLen, maxLen, maxSegs int) string {
	var segs []string
	var gen func(prefix string, l int)
	gen = func(prefix string, l int) {
		if l == 0 {
			segs = append(segs, prefix)
			return
		}
		for _, c := range alpha {
			gen(prefix+string(c), l-1)
		}
	}
	for l := minLen; l <= maxLen; l++ {
		gen("", l)
	}
	byKey := map[string][]string{}
	names := 0
	var rec func(name string, depth int)
	rec = func(name string, depth int) {
		key, err := nametypes.GetNameKeyPrefix(name)
		if err == nil {
			byKey[string(key)] = append(byKey[string(key)], name)
		}
		names++
		if depth == maxSegs {
			return
		}
		for _, s := range segs {
			rec(s+"."+name, depth+1)
		}
	}
	for _, s := range segs {
		rec(s, 1)
	}
	var classes []string
	colliding, mx := 0, 0
	for _, ns := range byKey {
		if len(ns) < 2 {
			continue
		}
		sort.Strings(ns)
		classes = append(classes, strings.Join(ns, "="))
		colliding += len(ns)
		if len(ns) > mx {
			mx = len(ns)
		}
	}
	sort.Strings(classes)
	sample := classes
	if len(sample) > 3 {
		sample = sample[:3]
	}
	nameLastClasses = classes
	return fmt.Sprintf("ok names=%d keys=%d classes=%d colliding=%d max=%d sample=%s", names, len(byKey), len(classes), colliding, mx, JoinOr(sample, ";"))
}

var nameLastClasses []string

func replayNameKey(t *testing.T, ops []string, out *Out) {
	k := &nameKeyEnv{e: newNameEnv(t)}
	for _, op := range ops {
		if strings.HasPrefix(op, "#") {
			out.Comment(strings.TrimSpace(strings.TrimPrefix(op, "#")))
			continue
		}
		out.Emit(op, k.exec(op))
	}
}

func nameRandWord(r *RNG, alpha string, l int) string {
	b := make([]byte, l)
	for i := range b {
		b[i] = alpha[r.Intn(len(alpha))]
	}
	return string(b)
}

func nameRandName(r *RNG, alpha string, minLen, maxLen, maxSegs int) string {
	k := 1 + r.Intn(maxSegs)
	parts := make([]string, k)
	for i := range parts {
		parts[i] = nameRandWord(r, alpha, minLen+r.Intn(maxLen-minLen+1))
	}
	return strings.Join(parts, ".")
}

func nameOddName(r *RNG) string {
	odd := []string{"~", ".", "..", "a.", ".a", "a..b", "+", "+.+", "ab.+", "AB.cd", "+ab+.+cd+", "a+b.cd", "ab.CD.ef", "a-b.c-d", "a--b", "-", "--", "x_y.ab", "ab!", "ab.cd.",
		nameUUID, nameUUID + ".ab", "ab." + nameUUID, strings.ToUpper(nameUUID), "{" + nameUUID + "}", "x" + nameUUID + "y", "urn:uuid:" + nameUUID, "URN:UUID:" + nameUUID, "urn:uuix:" + nameUUID,
		strings.ReplaceAll(nameUUID, "-", ""), strings.ReplaceAll(nameUUID, "-", "") + "0", nameUUID[:35] + "g", nameUUID[:8] + "x" + nameUUID[9:], nameUUID[:35], nameUUID + "0",
		strings.Repeat("a", 32), strings.Repeat("a", 33), strings.Repeat("a", 36), strings.Repeat("ab.", 15) + "ab", strings.Repeat("ab.", 16) + "ab", "0123456789", "a1.b2"}
	return Pick(r, odd)
}

func driveNameKey(t *testing.T, rng *RNG, n int, out *Out) {
	k := &nameKeyEnv{e: newNameEnv(t)}
	emit := func(op string) string {
		res := k.exec(op)
		out.Emit(op, res)
		return res
	}
	// exhaustive collision searches (small enough to run in every shard)
	searches := []string{"search ab 2 3 3", "search ab 1 2 3"}
	if *flagSeed%1000 != 0 {
		searches = nil // the searches are deterministic: shard 0 runs them
	} else if *flagTier == "thorough" {
		searches = append(searches, "search abc 2 3 3", "search abc 1 2 3", "search ab 2 4 3")
	}
	for _, s := range searches {
		res := emit(s)
		out.Count("op:search")
		for _, w := range strings.Fields(res) {
			if strings.HasPrefix(w, "classes=") || strings.HasPrefix(w, "names=") || strings.HasPrefix(w, "max=") {
				out.Count("search[" + strings.TrimPrefix(s, "search ") + "]:" + w)
			}
		}
		sizes := map[int]int{}
		for i, c := range nameLastClasses {
			sizes[strings.Count(c, "=")+1]++
			if i < 6 {
				out.Count("collision-class:" + c)
			}
		}
		for sz, cnt := range sizes {
			out.Counts[fmt.Sprintf("search[%s]:classes-of-size-%d", strings.TrimPrefix(s, "search "), sz)] += cnt
		}
	}
	for i := 0; i < n; i++ {
		alpha := "ab"
		if rng.Chance(30) {
			alpha = "abc"
		}
		gen := func() string {
			if rng.Chance(15) {
				return nameOddName(rng)
			}
			return nameRandName(rng, alpha, 1+rng.Intn(2), 3, 3)
		}
		switch c := rng.Intn(100); {
		case c < 25:
			res := emit("key " + nameEnc(gen()))
			out.Count("op:key")
			out.Count("key:" + strings.Fields(res)[0])
		case c < 37:
			nm := gen()
			if rng.Chance(50) {
				nm = strings.ToUpper(nm[:len(nm)/2]) + nm[len(nm)/2:]
			}
			if rng.Chance(30) {
				nm = " " + strings.Replace(nm, ".", " . ", 1)
			}
			emit("norm " + nameEnc(nm))
			out.Count("op:norm")
		case c < 50:
			nm := gen()
			if rng.Chance(40) {
				nm = nameOddName(rng)
			}
			res := emit("valid " + nameEnc(nm))
			out.Count("op:valid")
			out.Count("valid:" + res)
		case c < 70:
			p := [3]int{2, 32, 16}
			if rng.Chance(60) {
				p = Pick(rng, nameParamSets)
			}
			var nm string
			switch rng.Intn(6) {
			case 0: // segment length boundaries
				l := Pick(rng, []int{p[0] - 1, p[0], p[1], p[1] + 1})
				if l < 0 {
					l = 0
				}
				nm = strings.Repeat("a", l)
				if rng.Bool() {
					nm = "ab." + nm
				}
			case 1: // level boundaries
				lv := Pick(rng, []int{p[2] - 1, p[2], p[2] + 1})
				if lv < 1 {
					lv = 1
				}
				nm = strings.TrimSuffix(strings.Repeat(strings.Repeat("a", p[0])+".", lv), ".")
			case 2:
				nm = nameOddName(rng)
			default:
				nm = gen()
			}
			res := emit(fmt.Sprintf("knorm %d %d %d %s", p[0], p[1], p[2], nameEnc(nm)))
			out.Count("op:knorm")
			out.Count("knorm:" + strings.Fields(res)[0])
		default:
			if rng.Chance(12) {
				// two spellings of one uuid (or a dashed segment and its dash-less form) inside otherwise
				// equal names: different valid names, so different keys
				sg := nameUUIDSeg(rng)
				kind := "uuid-respelled"
				if rng.Chance(20) {
					sg = nameRandWord(rng, alpha, 1+rng.Intn(3)) + "-" + nameRandWord(rng, alpha, 1+rng.Intn(3))
					kind = "dash-dropped"
				}
				parts := []string{sg}
				for k := rng.Intn(3); k > 0; k-- {
					if w := nameRandWord(rng, alpha, 2+rng.Intn(2)); rng.Bool() {
						parts = append(parts, w)
					} else {
						parts = append([]string{w}, parts...)
					}
				}
				n1 := strings.Join(parts, ".")
				if n2 := nameLookalike(rng, n1); n2 != "" {
					if rng.Bool() {
						n1, n2 = n2, n1
					}
					res := emit(fmt.Sprintf("pair 2 32 16 %s %s", nameEnc(n1), nameEnc(n2)))
					out.Count("pair:kind=" + kind)
					out.Count("op:pair")
					out.Count("pair:" + res)
					continue
				}
			}
			minLen := 1 + rng.Intn(2)
			n1 := nameRandName(rng, alpha, minLen, 3, 3)
			var n2 string
			switch rng.Intn(4) {
			case 0, 1:
				n2 = namePartner(rng, n1, minLen)
				out.Count("pair:kind=resegmented")
			case 2: // same profile, other letters
				b := []byte(n1)
				for tries := 0; tries < 3; tries++ {
					j := rng.Intn(len(b))
					if b[j] != '.' {
						b[j] = alpha[rng.Intn(len(alpha))]
					}
				}
				n2 = string(b)
				out.Count("pair:kind=same-profile")
			}
			if n2 == "" {
				n2 = nameRandName(rng, alpha, minLen, 3, 3)
				out.Count("pair:kind=random")
			}
			res := emit(fmt.Sprintf("pair %d 3 3 %s %s", minLen, nameEnc(n1), nameEnc(n2)))
			out.Count("op:pair")
			out.Count("pair:" + res)
		}
	}
}
