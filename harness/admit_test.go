package harness

import (
	"fmt"
	"math/big"
	"sort"
	"strings"
	"sync"
	"testing"

	sdkmath "cosmossdk.io/math"

	sdk "github.com/cosmos/cosmos-sdk/types"
	banktestutil "github.com/cosmos/cosmos-sdk/x/bank/testutil"

	"github.com/provenance-io/provenance/app"
	attrtypes "github.com/provenance-io/provenance/x/attribute/types"
	"github.com/provenance-io/provenance/x/exchange"
	exchangekeeper "github.com/provenance-io/provenance/x/exchange/keeper"
	nametypes "github.com/provenance-io/provenance/x/name/types"
)

// Model "admit" (C20): market admission.  Every op line is self-contained: it carries the market
// configuration, the account's attributes and balance, and the message; it is executed on a
// fresh cached context of one real app (real exchange, attribute, name, bank, hold keepers).

func init() {
	drivers["admit"] = driveAdmit
	replayers["admit"] = replayAdmit
}

var (
	admitOnce sync.Once
	admitApp  *app.App
	admitCtx  sdk.Context
	admitUser = sdk.AccAddress("verif_c20_user______")
	admitOwn  = sdk.AccAddress("verif_c20_nameowner_")
)

const admitMarketID = uint32(1)

type admitEnv struct{ t *testing.T }

func (e *admitEnv) base() (*app.App, sdk.Context) {
	admitOnce.Do(func() {
		admitApp, admitCtx = NewApp(e.t)
		for _, a := range []sdk.AccAddress{admitUser, admitOwn} {
			acc := admitApp.AccountKeeper.NewAccountWithAddress(admitCtx, a)
			_ = acc.SetSequence(7)
			admitApp.AccountKeeper.SetAccount(admitCtx, acc)
		}
	})
	ctx, _ := admitCtx.CacheContext()
	return admitApp, ctx
}

func admitDecode(s string) string {
	if s == "%" {
		return ""
	}
	return strings.ReplaceAll(s, "~", " ")
}
func admitEncode(s string) string {
	if s == "" {
		return "%"
	}
	return strings.ReplaceAll(s, " ", "~")
}
func admitStrs(ws []string, k string) []string {
	v := kvArg(ws, k)
	if v == "" || v == "-" {
		return nil
	}
	parts := strings.Split(v, "|")
	for i := range parts {
		parts[i] = admitDecode(parts[i])
	}
	return parts
}

func admitCoin(s string) sdk.Coin {
	i := 0
	if i < len(s) && s[i] == '-' {
		i++
	}
	for i < len(s) && s[i] >= '0' && s[i] <= '9' {
		i++
	}
	amt, ok := new(big.Int).SetString(s[:i], 10)
	if !ok {
		panic("bad coin " + s)
	}
	return sdk.Coin{Denom: s[i:], Amount: sdkmath.NewIntFromBigInt(amt)}
}

// admitCoins keeps the order of the line (it may deliberately be unsorted).
func admitCoins(ws []string, k string) sdk.Coins {
	v := kvArg(ws, k)
	if v == "" || v == "-" {
		return nil
	}
	var rv sdk.Coins
	for _, p := range strings.Split(v, ",") {
		rv = append(rv, admitCoin(p))
	}
	return rv
}

func admitCoinPtr(ws []string, k string) *sdk.Coin {
	v := kvArg(ws, k)
	if v == "" || v == "-" {
		return nil
	}
	c := admitCoin(v)
	return &c
}

func admitRatios(ws []string, k string) []exchange.FeeRatio {
	v := kvArg(ws, k)
	if v == "" || v == "-" {
		return nil
	}
	var rv []exchange.FeeRatio
	for _, p := range strings.Split(v, "|") {
		f := strings.Split(p, ":")
		rv = append(rv, exchange.FeeRatio{
			Price: sdk.Coin{Denom: f[0], Amount: mustInt(f[1])},
			Fee:   sdk.Coin{Denom: f[2], Amount: mustInt(f[3])},
		})
	}
	return rv
}

func admitFlag(ws []string, k string, dflt bool) bool {
	switch kvArg(ws, k) {
	case "1":
		return true
	case "0":
		return false
	}
	return dflt
}

// admitSetup creates the market of the line (unless ex=0), the account's attributes and balance.
func (e *admitEnv) admitSetup(a *app.App, ctx sdk.Context, ws []string) error {
	pre, post := admitSteps(ws, "pre"), admitSteps(ws, "post")
	for _, st := range pre {
		if err := e.admitRunStep(a, ctx, st); err != nil {
			return err
		}
	}
	if admitFlag(ws, "ex", true) {
		market := exchange.Market{
			MarketId:                  admitMarketID,
			MarketDetails:             exchange.MarketDetails{Name: "verif c20"},
			FeeCreateAskFlat:          admitCoins(ws, "caf"),
			FeeCreateBidFlat:          admitCoins(ws, "cbf"),
			FeeCreateCommitmentFlat:   admitCoins(ws, "ccf"),
			FeeSellerSettlementFlat:   admitCoins(ws, "ssf"),
			FeeBuyerSettlementFlat:    admitCoins(ws, "bsf"),
			FeeSellerSettlementRatios: admitRatios(ws, "ssr"),
			FeeBuyerSettlementRatios:  admitRatios(ws, "bsr"),
			AcceptingOrders:           admitFlag(ws, "ao", true),
			AllowUserSettlement:       admitFlag(ws, "us", false),
			AcceptingCommitments:      admitFlag(ws, "ac", false),
			ReqAttrCreateAsk:          admitStrs(ws, "ra"),
			ReqAttrCreateBid:          admitStrs(ws, "rb"),
			ReqAttrCreateCommitment:   admitStrs(ws, "rc"),
		}
		done := false
		if len(pre)+len(post) > 0 {
			var err error
			if done, err = e.admitCreateByGov(a, ctx, market); err != nil {
				return fmt.Errorf("gov create market: %w", err)
			}
		}
		if !done {
			if _, err := a.ExchangeKeeper.CreateMarket(ctx, market); err != nil {
				return fmt.Errorf("create market: %w", err)
			}
		}
		// the resting orders of a fill line are created now, under the configuration as requested
		if err := e.admitCreateOrders(a, ctx, ws); err != nil {
			return fmt.Errorf("create orders: %w", err)
		}
	} else if v := kvArg(ws, "orders"); v != "" && v != "-" {
		return fmt.Errorf("orders without a market")
	}
	for _, st := range post {
		if err := e.admitRunStep(a, ctx, st); err != nil {
			return err
		}
	}
	for _, name := range admitStrs(ws, "attrs") {
		if err := a.NameKeeper.SetNameRecord(ctx, name, admitOwn, false); err != nil {
			return fmt.Errorf("name %q: %w", name, err)
		}
		attr := attrtypes.NewAttribute(name, admitUser.String(), attrtypes.AttributeType_String, []byte("v"), nil)
		if err := a.AttributeKeeper.SetAttribute(ctx, attr, admitOwn); err != nil {
			return fmt.Errorf("attribute %q: %w", name, err)
		}
	}
	if bal := admitCoins(ws, "bal"); len(bal) > 0 {
		if err := banktestutil.FundAccount(ctx, a.BankKeeper, admitUser, sdk.NewCoins(bal...)); err != nil {
			return fmt.Errorf("fund: %w", err)
		}
	}
	return nil
}

// admitClass maps an admission error to its class (small table, by the phrase that names the
// refusing check; never the whole message).
func admitClass(err error) string {
	m := err.Error()
	has := func(s string) bool { return strings.Contains(m, s) }
	switch {
	case has("not found") && has("order"), has(": expected bid"), has(": expected ask"),
		has("does not equal requested market id"), has("as the requested seller"), has("as the requested buyer"):
		return "err:order"
	case has("does not equal sum of"):
		return "err:total"
	case has("does not exist"):
		return "err:market"
	case has("is not accepting orders"), has("is not accepting commitments"):
		return "err:closed"
	case has("does not allow user settlement"):
		return "err:usersettle"
	case has("is not allowed to create"):
		return "err:attr"
	case has("insufficient buyer settlement fee"):
		// may quote a ratio that could not be applied to the price ("cannot apply ratio … result too large")
		return "err:fee"
	case has("is not more than"), has("no seller settlement fee ratio found"), has("cannot apply ratio"):
		return "err:price"
	case has("error collecting"), has("error placing hold"), has("is less than hold amount"), has("insufficient funds"):
		return "err:funds"
	case has("must be one of"), has("insufficient") && has("fee"):
		return "err:fee"
	}
	return "err:other"
}

func (e *admitEnv) exec(op string) string {
	ws := strings.Fields(op)
	if len(ws) == 0 {
		return "bad-op"
	}
	return Guard(func() string {
		switch ws[0] {
		case "reqattr":
			if exchange.IsReqAttrMatch(admitDecode(kvArg(ws, "req")), admitDecode(kvArg(ws, "acc"))) {
				return "ok 1"
			}
			return "ok 0"
		case "unmatched":
			u := exchange.FindUnmatchedReqAttrs(admitStrs(ws, "reqs"), admitStrs(ws, "accs"))
			for i := range u {
				u[i] = admitEncode(u[i])
			}
			return "ok " + JoinOr(u, "|")
		case "normalize":
			n, _ := exchange.NormalizeReqAttrs([]string{admitDecode(kvArg(ws, "s"))})
			if n[0] != nametypes.NormalizeName(admitDecode(kvArg(ws, "s"))) {
				return "err:other"
			}
			return "ok " + admitEncode(n[0])
		}
		a, ctx := e.base()
		k := a.ExchangeKeeper
		switch ws[0] {
		case "flatfee":
			key := map[string]string{"ask": "caf", "bid": "cbf", "commit": "ccf", "seller": "ssf"}[kvArg(ws, "kind")]
			ws2 := append([]string{key + "=" + kvArg(ws, "opts")}, "ex=1")
			if err := e.admitSetup(a, ctx, ws2); err != nil {
				return "err:setup " + err.Error()
			}
			fee := admitCoinPtr(ws, "fee")
			var err error
			switch kvArg(ws, "kind") {
			case "ask":
				err = k.ValidateCreateAskFlatFee(ctx, admitMarketID, fee)
			case "bid":
				err = k.ValidateCreateBidFlatFee(ctx, admitMarketID, fee)
			case "commit":
				err = k.ValidateCreateCommitmentFlatFee(ctx, admitMarketID, fee)
			default:
				err = k.ValidateSellerSettlementFlatFee(ctx, admitMarketID, fee)
			}
			if err != nil {
				return "err:fee"
			}
			return "ok"
		case "askprice":
			if err := e.admitSetup(a, ctx, []string{"ex=1", "ssr=" + kvArg(ws, "ssr")}); err != nil {
				return "err:setup " + err.Error()
			}
			if err := k.ValidateAskPrice(ctx, admitMarketID, admitCoin(kvArg(ws, "price")), admitCoinPtr(ws, "flat")); err != nil {
				return "err:price"
			}
			return "ok"
		case "buyerfee":
			if err := e.admitSetup(a, ctx, []string{"ex=1", "bsf=" + kvArg(ws, "bsf"), "bsr=" + kvArg(ws, "bsr")}); err != nil {
				return "err:setup " + err.Error()
			}
			if err := k.ValidateBuyerSettlementFee(ctx, admitMarketID, admitCoin(kvArg(ws, "price")), admitCoins(ws, "fee")); err != nil {
				return "err:fee"
			}
			return "ok"
		case "cancreate":
			key := map[string]string{"ask": "ra", "bid": "rb", "commit": "rc"}[kvArg(ws, "kind")]
			if err := e.admitSetup(a, ctx, []string{"ex=1", key + "=" + kvArg(ws, "reqs"), "attrs=" + kvArg(ws, "attrs")}); err != nil {
				return "err:setup " + err.Error()
			}
			var can bool
			switch kvArg(ws, "kind") {
			case "ask":
				can = k.CanCreateAsk(ctx, admitMarketID, admitUser)
			case "bid":
				can = k.CanCreateBid(ctx, admitMarketID, admitUser)
			default:
				can = k.CanCreateCommitment(ctx, admitMarketID, admitUser)
			}
			if can {
				return "ok 1"
			}
			return "ok 0"
		}
		// full admissions through the message server
		if err := e.admitSetup(a, ctx, ws); err != nil {
			return "err:setup " + err.Error()
		}
		ms := exchangekeeper.NewMsgServer(k)
		var err error
		switch ws[0] {
		case "createask":
			msg := &exchange.MsgCreateAskRequest{
				AskOrder: exchange.AskOrder{
					MarketId: admitMarketID, Seller: admitUser.String(),
					Assets: admitCoin(kvArg(ws, "assets")), Price: admitCoin(kvArg(ws, "price")),
					SellerSettlementFlatFee: admitCoinPtr(ws, "sflat"),
				},
				OrderCreationFee: admitCoinPtr(ws, "cfee"),
			}
			if verr := msg.ValidateBasic(); verr != nil {
				return "err:invalid"
			}
			_, err = ms.CreateAsk(ctx, msg)
		case "createbid":
			msg := &exchange.MsgCreateBidRequest{
				BidOrder: exchange.BidOrder{
					MarketId: admitMarketID, Buyer: admitUser.String(),
					Assets: admitCoin(kvArg(ws, "assets")), Price: admitCoin(kvArg(ws, "price")),
					BuyerSettlementFees: admitCoins(ws, "fees"),
				},
				OrderCreationFee: admitCoinPtr(ws, "cfee"),
			}
			if verr := msg.ValidateBasic(); verr != nil {
				return "err:invalid"
			}
			_, err = ms.CreateBid(ctx, msg)
		case "commit":
			msg := &exchange.MsgCommitFundsRequest{
				Account: admitUser.String(), MarketId: admitMarketID,
				Amount: admitCoins(ws, "amount"), CreationFee: admitCoinPtr(ws, "cfee"),
			}
			if verr := msg.ValidateBasic(); verr != nil {
				return "err:invalid"
			}
			_, err = ms.CommitFunds(ctx, msg)
		case "fillbids", "fillasks":
			if kvArg(ws, "ids") == "" {
				return e.execFillGate(ctx, ms, ws)
			}
			if ws[0] == "fillbids" {
				msg := &exchange.MsgFillBidsRequest{
					Seller: admitUser.String(), MarketId: admitMarketID,
					TotalAssets: admitCoins(ws, "total"), BidOrderIds: admitIDs(ws),
					SellerSettlementFlatFee: admitCoinPtr(ws, "sflat"), AskOrderCreationFee: admitCoinPtr(ws, "cfee"),
				}
				if verr := msg.ValidateBasic(); verr != nil {
					return "err:invalid"
				}
				_, err = ms.FillBids(ctx, msg)
			} else {
				msg := &exchange.MsgFillAsksRequest{
					Buyer: admitUser.String(), MarketId: admitMarketID,
					TotalPrice: admitCoin(kvArg(ws, "price")), AskOrderIds: admitIDs(ws),
					BuyerSettlementFees: admitCoins(ws, "fees"), BidOrderCreationFee: admitCoinPtr(ws, "cfee"),
				}
				if verr := msg.ValidateBasic(); verr != nil {
					return "err:invalid"
				}
				_, err = ms.FillAsks(ctx, msg)
			}
		default:
			return "bad-op"
		}
		if err != nil {
			return admitClass(err)
		}
		return "ok"
	})
}

// execFillGate: a fill line without ids= names an absent order; the outcome is observed up to
// the order lookup (the market's gate).
func (e *admitEnv) execFillGate(ctx sdk.Context, ms exchange.MsgServer, ws []string) string {
	return Guard(func() string {
		var err error
		switch ws[0] {
		case "fillbids":
			msg := &exchange.MsgFillBidsRequest{
				Seller: admitUser.String(), MarketId: admitMarketID,
				TotalAssets: sdk.NewCoins(sdk.NewInt64Coin("apple", 1)), BidOrderIds: []uint64{987654321},
				SellerSettlementFlatFee: admitCoinPtr(ws, "sflat"), AskOrderCreationFee: admitCoinPtr(ws, "cfee"),
			}
			if verr := msg.ValidateBasic(); verr != nil {
				return "err:invalid"
			}
			_, err = ms.FillBids(ctx, msg)
			if err != nil && strings.Contains(err.Error(), "not found") {
				return "ok" // the market's gate was passed; the (absent) order is looked up next
			}
		case "fillasks":
			msg := &exchange.MsgFillAsksRequest{
				Buyer: admitUser.String(), MarketId: admitMarketID,
				TotalPrice: admitCoin(kvArg(ws, "price")), AskOrderIds: []uint64{987654321},
				BuyerSettlementFees: admitCoins(ws, "fees"), BidOrderCreationFee: admitCoinPtr(ws, "cfee"),
			}
			if verr := msg.ValidateBasic(); verr != nil {
				return "err:invalid"
			}
			_, err = ms.FillAsks(ctx, msg)
			if err != nil && strings.Contains(err.Error(), "not found") {
				return "ok"
			}
		default:
			return "bad-op"
		}
		if err != nil {
			return admitClass(err)
		}
		return "ok"
	})
}

// ---------------------------------------------------------------------------------------------
// generator

var admitDenoms = []string{"aaa", "bbb", "ccc", "fee", "usd"}
var admitSegs = []string{"kyc", "pb", "us", "gov", "aml", "xx", "evilkyc", "kycx", "id-7", "zz"}

type admitGen struct {
	r   *RNG
	out *Out
}

func (g *admitGen) amt() *big.Int {
	switch k := g.r.Intn(100); {
	case k < 55:
		return big.NewInt(int64(1 + g.r.Intn(60)))
	case k < 80:
		return big.NewInt(int64(1 + g.r.Intn(100000)))
	default:
		x := g.r.BigBoundary()
		if x.Sign() == 0 {
			x.SetInt64(1)
		}
		return x
	}
}

func (g *admitGen) smallAmt() *big.Int { return big.NewInt(int64(1 + g.r.Intn(40))) }

// denomSubset returns n distinct denoms in random order.
func (g *admitGen) denomSubset(n int) []string {
	ds := append([]string{}, admitDenoms...)
	for i := len(ds) - 1; i > 0; i-- {
		j := g.r.Intn(i + 1)
		ds[i], ds[j] = ds[j], ds[i]
	}
	if n > len(ds) {
		n = len(ds)
	}
	return ds[:n]
}

type admitCoinT struct {
	d string
	a *big.Int
}
type admitRatioT struct {
	pd string
	pa *big.Int
	fd string
	fa *big.Int
}

func admitCoinsStr(cs []admitCoinT) string {
	if len(cs) == 0 {
		return "-"
	}
	p := make([]string, len(cs))
	for i, c := range cs {
		p[i] = c.a.String() + c.d
	}
	return strings.Join(p, ",")
}
func admitCoinStr(c *admitCoinT) string {
	if c == nil {
		return "-"
	}
	return c.a.String() + c.d
}
func admitRatiosStr(rs []admitRatioT) string {
	if len(rs) == 0 {
		return "-"
	}
	p := make([]string, len(rs))
	for i, r := range rs {
		p[i] = fmt.Sprintf("%s:%s:%s:%s", r.pd, r.pa, r.fd, r.fa)
	}
	return strings.Join(p, "|")
}

func (g *admitGen) flats(small bool) []admitCoinT {
	n := []int{0, 0, 1, 1, 2, 3}[g.r.Intn(6)]
	var rv []admitCoinT
	for _, d := range g.denomSubset(n) {
		a := g.amt()
		if small {
			a = g.smallAmt()
		}
		rv = append(rv, admitCoinT{d, a})
	}
	return rv
}

// sellerRatios: one per price denom, fee denom = price denom, fee <= price.
func (g *admitGen) sellerRatios(small bool) []admitRatioT {
	n := []int{0, 1, 1, 2, 3}[g.r.Intn(5)]
	var rv []admitRatioT
	for _, d := range g.denomSubset(n) {
		pa := g.amt()
		if small {
			pa = big.NewInt(int64(1 + g.r.Intn(1000)))
		}
		fa := new(big.Int).Set(pa)
		switch g.r.Intn(4) {
		case 0:
			fa = big.NewInt(int64(g.r.Intn(3)))
		case 1:
			fa.Div(fa, big.NewInt(int64(2+g.r.Intn(50))))
		case 2:
			fa = big.NewInt(int64(1 + g.r.Intn(20)))
		}
		if fa.Cmp(pa) > 0 {
			fa.Set(pa)
		}
		rv = append(rv, admitRatioT{d, pa, d, fa})
	}
	return rv
}

// buyerRatios: distinct (price denom, fee denom) pairs.
func (g *admitGen) buyerRatios(small bool) []admitRatioT {
	n := []int{0, 0, 1, 2, 3, 4}[g.r.Intn(6)]
	seen := map[string]bool{}
	var rv []admitRatioT
	pds := g.denomSubset(1 + g.r.Intn(2))
	for i := 0; i < n; i++ {
		pd := Pick(g.r, pds)
		fd := Pick(g.r, admitDenoms)
		if seen[pd+":"+fd] {
			continue
		}
		seen[pd+":"+fd] = true
		pa := g.amt()
		fa := g.amt()
		if small {
			pa = big.NewInt(int64(1 + g.r.Intn(1000)))
			fa = big.NewInt(int64(g.r.Intn(30)))
		}
		if pd == fd && fa.Cmp(pa) > 0 {
			fa.Set(pa)
		}
		rv = append(rv, admitRatioT{pd, pa, fd, fa})
	}
	return rv
}

func admitCeil(p, fa, pa *big.Int) *big.Int {
	prod := new(big.Int).Mul(p, fa)
	q, rem := new(big.Int).QuoRem(prod, pa, new(big.Int))
	if rem.Sign() != 0 {
		q.Add(q, big.NewInt(1))
	}
	return q
}

// admitBuyerCat names the way the offered fee relates to the options (for the distribution only).
func admitBuyerCat(flats []admitCoinT, ratios []admitRatioT, price admitCoinT, fee []admitCoinT) string {
	if len(flats) == 0 && len(ratios) == 0 {
		return "nothing-required"
	}
	flatOf := func(c admitCoinT) *big.Int {
		for _, o := range flats {
			if o.d == c.d && c.a.Cmp(o.a) >= 0 {
				return o.a
			}
		}
		return nil
	}
	ratioOf := func(c admitCoinT) *big.Int {
		for _, r := range ratios {
			if r.pd == price.d && r.fd == c.d {
				if f := admitCeil(price.a, r.fa, r.pa); c.a.Cmp(f) >= 0 {
					return f
				}
			}
		}
		return nil
	}
	nf, nr, sum, both := 0, 0, false, 0
	fi, ri := -1, -1
	for i, c := range fee {
		f, r := flatOf(c), ratioOf(c)
		if f != nil {
			nf++
			fi = i
		}
		if r != nil {
			nr++
			ri = i
		}
		if f != nil && r != nil {
			both++
			if c.a.Cmp(new(big.Int).Add(f, r)) >= 0 {
				sum = true
			}
		}
	}
	switch {
	case len(ratios) == 0:
		if nf > 0 {
			return "flat-only-covered"
		}
		return "flat-only-uncovered"
	case len(flats) == 0:
		if nr > 0 {
			return "ratio-only-covered"
		}
		return "ratio-only-uncovered"
	case sum:
		return "both-one-coin-sum"
	case nf > 0 && nr > 0 && !(nf == 1 && nr == 1 && fi == ri):
		return "both-two-coins"
	case both > 0:
		return "both-one-coin-short-of-sum"
	case nf > 0:
		return "both-ratio-missing"
	case nr > 0:
		return "both-flat-missing"
	}
	return "both-none"
}

// near returns x + {-1,0,0,+1,+k}, never below 1 (0 when allowZero).
func (g *admitGen) near(x *big.Int, allowZero bool) *big.Int {
	d := []int64{-1, 0, 0, 1, int64(g.r.Intn(50))}[g.r.Intn(5)]
	y := new(big.Int).Add(x, big.NewInt(d))
	min := int64(1)
	if allowZero {
		min = 0
	}
	if y.Cmp(big.NewInt(min)) < 0 {
		y.SetInt64(min)
	}
	if y.BitLen() > 256 {
		y.Rsh(y, uint(y.BitLen()-256))
	}
	return y
}

// price picks a price coin, favouring denoms that have ratios and amounts near ratio multiples.
func (g *admitGen) price(ratios []admitRatioT) admitCoinT {
	var d string
	var a *big.Int
	if len(ratios) > 0 && g.r.Chance(85) {
		r := Pick(g.r, ratios)
		d = r.pd
		k := g.amt()
		a = new(big.Int).Mul(k, r.pa)
		a.Add(a, big.NewInt(int64(g.r.Intn(3)-1)))
		if g.r.Chance(30) {
			a = g.amt()
		}
	} else {
		d = Pick(g.r, admitDenoms)
		a = g.amt()
	}
	if a.Sign() <= 0 {
		a.SetInt64(1)
	}
	if a.BitLen() > 256 {
		a.Rsh(a, uint(a.BitLen()-256))
	}
	return admitCoinT{d, a}
}

// flatOffer offers a fee for a list of flat options: none, a covered/uncovered option, or a foreign denom.
func (g *admitGen) flatOffer(opts []admitCoinT, nonzero bool) *admitCoinT {
	switch k := g.r.Intn(100); {
	case len(opts) == 0 && k < 70, k < 8:
		return nil
	case len(opts) > 0 && k < 88:
		o := Pick(g.r, opts)
		return &admitCoinT{o.d, g.near(o.a, !nonzero)}
	default:
		return &admitCoinT{Pick(g.r, admitDenoms), g.smallAmt()}
	}
}

// buyerOffer builds buyer settlement fee coins around the options for the price.
func (g *admitGen) buyerOffer(flats []admitCoinT, ratios []admitRatioT, price admitCoinT) []admitCoinT {
	byDenom := map[string]*big.Int{}
	add := func(d string, a *big.Int) {
		if cur, ok := byDenom[d]; ok {
			if g.r.Bool() {
				byDenom[d] = new(big.Int).Add(cur, a)
			} else if a.Cmp(cur) > 0 {
				byDenom[d] = a
			}
		} else {
			byDenom[d] = a
		}
	}
	var appl []admitRatioT
	for _, r := range ratios {
		if r.pd == price.d {
			appl = append(appl, r)
		}
	}
	if len(flats) > 0 && g.r.Chance(85) {
		o := Pick(g.r, flats)
		add(o.d, g.near(o.a, false))
	}
	if len(appl) > 0 && g.r.Chance(85) {
		r := Pick(g.r, appl)
		add(r.fd, g.near(admitCeil(price.a, r.fa, r.pa), false))
	}
	if g.r.Chance(15) {
		add(Pick(g.r, admitDenoms), g.smallAmt())
	}
	// exact-sum / sum-1 targets when a flat and a ratio share a denom
	if len(flats) > 0 && len(appl) > 0 && g.r.Chance(35) {
		for _, o := range flats {
			for _, r := range appl {
				if o.d == r.fd {
					s := new(big.Int).Add(o.a, admitCeil(price.a, r.fa, r.pa))
					byDenom[o.d] = g.near(s, false)
				}
			}
		}
	}
	var rv []admitCoinT
	for d, a := range byDenom {
		if a.BitLen() > 256 {
			a = new(big.Int).Rsh(a, uint(a.BitLen()-256))
		}
		rv = append(rv, admitCoinT{d, a})
	}
	sort.Slice(rv, func(i, j int) bool { return rv[i].d < rv[j].d })
	return rv
}

func (g *admitGen) name() string {
	n := 1 + g.r.Intn(3)
	segs := make([]string, n)
	for i := range segs {
		segs[i] = Pick(g.r, admitSegs)
	}
	return strings.Join(segs, ".")
}

// reqAndAttrs builds a required-attribute list and an account attribute list that matches all,
// all but one, or is unrelated.  unnorm asks for un-normalised spellings of the requirements.
func (g *admitGen) reqAndAttrs(unnorm bool) (reqs, attrs []string) {
	return g.reqAndAttrsP(unnorm, 55)
}

func (g *admitGen) reqAndAttrsP(unnorm bool, matchPct int) (reqs, attrs []string) {
	n := []int{0, 0, 1, 1, 2, 3}[g.r.Intn(6)]
	seenR := map[string]bool{}
	seenA := map[string]bool{}
	for i := 0; i < n; i++ {
		base := g.name()
		wild := g.r.Chance(45)
		req := base
		if wild {
			req = "*." + base
		}
		if seenR[req] {
			continue
		}
		seenR[req] = true
		reqs = append(reqs, req)
		acc := g.accFor(base, wild, matchPct)
		if acc != "" && !seenA[acc] && len(strings.Split(acc, ".")) <= 8 {
			seenA[acc] = true
			attrs = append(attrs, acc)
		}
	}
	if g.r.Chance(25) {
		if x := g.name(); !seenA[x] {
			attrs = append(attrs, x)
		}
	}
	if unnorm {
		for i, r := range reqs {
			switch g.r.Intn(3) {
			case 0:
				reqs[i] = strings.ToUpper(r[:1]) + r[1:]
				if strings.HasPrefix(r, "*.") {
					reqs[i] = "*." + strings.ToUpper(r[2:3]) + r[3:]
				}
			case 1:
				reqs[i] = r + " "
			case 2:
				reqs[i] = strings.Replace(r, ".", " . ", 1)
			}
		}
	}
	return reqs, attrs
}

// accFor picks an account attribute for one requirement: a match, a near miss, or nothing.
func (g *admitGen) accFor(base string, wild bool, matchPct int) string {
	var acc string
	k := g.r.Intn(100)
	if k >= matchPct {
		k = 55 + (k-matchPct)*45/(100-matchPct)
	} else {
		k = 0
	}
	switch {
	case k < 55: // a match
		if wild {
			acc = g.name() + "." + base
		} else {
			acc = base
		}
	case k < 65: // the wildcard's own base / an extra level on an exact requirement
		if wild {
			acc = base
		} else {
			acc = Pick(g.r, admitSegs) + "." + base
		}
	case k < 75: // a segment that only ends with the required first segment
		acc = "us.evil" + base
	case k < 85:
		acc = g.name()
	default:
		acc = ""
	}
	return acc
}

func admitStrsStr(xs []string) string {
	if len(xs) == 0 {
		return "-"
	}
	p := make([]string, len(xs))
	for i, x := range xs {
		p[i] = admitEncode(x)
	}
	return strings.Join(p, "|")
}

func b2s(b bool) string {
	if b {
		return "1"
	}
	return "0"
}

// fund returns a balance around the needed amounts: enough, one unit short in one denom, or generous.
func (g *admitGen) fund(need map[string]*big.Int) string {
	var ds []string
	for d := range need {
		ds = append(ds, d)
	}
	sort.Strings(ds)
	mode := g.r.Intn(100)
	short := -1
	if mode >= 80 && len(ds) > 0 {
		short = g.r.Intn(len(ds))
	}
	var parts []string
	for i, d := range ds {
		a := new(big.Int).Set(need[d])
		switch {
		case i == short:
			a.Sub(a, big.NewInt(1))
		case mode < 40:
			// exact
		default:
			a.Add(a, big.NewInt(int64(g.r.Intn(1000))))
		}
		if a.Sign() > 0 {
			parts = append(parts, a.String()+d)
		}
	}
	if len(parts) == 0 {
		return "-"
	}
	return strings.Join(parts, ",")
}

func addNeed(need map[string]*big.Int, c *admitCoinT) {
	if c == nil {
		return
	}
	if cur, ok := need[c.d]; ok {
		need[c.d] = new(big.Int).Add(cur, c.a)
	} else {
		need[c.d] = new(big.Int).Set(c.a)
	}
}

// flags draws the existence of the market and its three flags into cfg.
func (g *admitGen) flags(kind string, c *admitCfg) (ex bool) {
	ex = !g.r.Chance(6)
	c.ao = !g.r.Chance(10)
	c.us = g.r.Chance(80)
	c.ac = g.r.Chance(85)
	if kind == "order" {
		c.us = g.r.Bool()
	}
	return ex
}

func admitFlagsStr(ex bool, c *admitCfg) string {
	return fmt.Sprintf("ex=%s ao=%s us=%s ac=%s", b2s(ex), b2s(c.ao), b2s(c.us), b2s(c.ac))
}

const admitHistPct = 35

var admitOddStrings = []string{"%", "*.", "*", ".", "*.a", ".a", "a.", "a..b", "*..a", "*.*.a", "a", "*a.b", "*.kyc", "kyc", "x.kyc", ".kyc", "*.kyc.pb", "kyc.pb", "us.kyc.pb", "us.evilkyc.pb", "a.us.kyc.pb"}

func (g *admitGen) op() string {
	r := g.r
	switch k := r.Intn(1000); {
	case k < 90:
		g.out.Count("op:reqattr")
		var req, acc string
		if r.Chance(30) {
			req, acc = Pick(r, admitOddStrings), Pick(r, admitOddStrings)
		} else {
			reqs, attrs := []string{}, []string{}
			for len(reqs) == 0 {
				reqs, attrs = g.reqAndAttrs(false)
			}
			req = reqs[0]
			if len(attrs) > 0 {
				acc = attrs[0]
			} else {
				acc = g.name()
			}
		}
		return fmt.Sprintf("reqattr req=%s acc=%s", admitEncode(req), admitEncode(acc))
	case k < 130:
		g.out.Count("op:unmatched")
		reqs, attrs := g.reqAndAttrs(false)
		return fmt.Sprintf("unmatched reqs=%s accs=%s", admitStrsStr(reqs), admitStrsStr(attrs))
	case k < 150:
		g.out.Count("op:normalize")
		s := g.name()
		if r.Bool() {
			s = "*." + s
		}
		switch r.Intn(4) {
		case 0:
			s = strings.ToUpper(s)
		case 1:
			s = " " + strings.Replace(s, ".", " . ", -1) + "  "
		case 2:
			s = strings.ToUpper(s[:1]) + s[1:] + " "
		}
		return "normalize s=" + admitEncode(s)
	case k < 250:
		g.out.Count("op:flatfee")
		opts := g.flats(false)
		kind := Pick(r, []string{"ask", "bid", "commit", "seller"})
		return fmt.Sprintf("flatfee kind=%s opts=%s fee=%s", kind, admitCoinsStr(opts), admitCoinStr(g.flatOffer(opts, false)))
	case k < 400:
		g.out.Count("op:askprice")
		small := r.Chance(60)
		rs := g.sellerRatios(small)
		p := g.price(rs)
		var flat *admitCoinT
		if r.Chance(70) {
			// flat near the gap between the price and the ratio fee
			gap := new(big.Int).Set(p.a)
			for _, x := range rs {
				if x.pd == p.d {
					gap.Sub(gap, admitCeil(p.a, x.fa, x.pa))
				}
			}
			d := p.d
			if r.Chance(25) {
				d = Pick(r, admitDenoms)
			}
			a := g.near(gap, true)
			if r.Chance(25) {
				a = g.smallAmt()
			}
			if a.Sign() < 0 {
				a.SetInt64(0)
			}
			flat = &admitCoinT{d, a}
		}
		return fmt.Sprintf("askprice ssr=%s price=%s flat=%s", admitRatiosStr(rs), admitCoinStr(&p), admitCoinStr(flat))
	case k < 630:
		g.out.Count("op:buyerfee")
		small := r.Chance(65)
		fl := g.flats(small)
		rs := g.buyerRatios(small)
		p := g.price(rs)
		fee := g.buyerOffer(fl, rs, p)
		if r.Chance(25) && len(fee) > 1 { // the keeper function does not ask for sorted coins
			for i := len(fee) - 1; i > 0; i-- {
				j := r.Intn(i + 1)
				fee[i], fee[j] = fee[j], fee[i]
			}
			g.out.Count("buyerfee:shuffled")
		}
		g.out.Count("cat:buyerfee:" + admitBuyerCat(fl, rs, p, fee))
		return fmt.Sprintf("buyerfee bsf=%s bsr=%s price=%s fee=%s", admitCoinsStr(fl), admitRatiosStr(rs), admitCoinStr(&p), admitCoinsStr(fee))
	case k < 700:
		g.out.Count("op:cancreate")
		kind := Pick(r, []string{"ask", "bid", "commit"})
		reqs, attrs := g.reqAndAttrs(r.Chance(20))
		return fmt.Sprintf("cancreate kind=%s reqs=%s attrs=%s", kind, admitStrsStr(reqs), admitStrsStr(attrs))
	case k < 780:
		g.out.Count("op:createask")
		req := admitNewCfg()
		ex := g.flags("order", req)
		caf, ssf := g.flats(true), g.flats(true)
		ssr := g.sellerRatios(true)
		reqs, attrs := g.reqAndAttrsP(r.Chance(15), 88)
		req.flats["caf"], req.flats["ssf"], req.ratios["ssr"], req.reqs["ra"] = caf, ssf, ssr, admitNormAll(reqs)
		aim, hist := req, ""
		if r.Chance(admitHistPct) {
			h := g.history("createask", req, &ex)
			aim, hist = h.aim, h.String()
			attrs = g.attrsFor(aim.reqs["ra"], 88)
		}
		p := g.price(aim.ratios["ssr"])
		if p.a.BitLen() > 100 {
			p.a = g.smallAmt()
		}
		assets := admitCoinT{"apple", g.smallAmt()}
		if r.Chance(3) {
			assets.d = p.d
		}
		sflat := g.flatOffer(aim.flats["ssf"], true)
		cfee := g.flatOffer(aim.flats["caf"], false)
		need := map[string]*big.Int{}
		addNeed(need, &assets)
		addNeed(need, cfee)
		if sflat != nil && sflat.d != p.d {
			addNeed(need, sflat)
		}
		return fmt.Sprintf("createask %s caf=%s ssf=%s ssr=%s ra=%s attrs=%s bal=%s assets=%s price=%s sflat=%s cfee=%s",
			admitFlagsStr(ex, req), admitCoinsStr(caf), admitCoinsStr(ssf), admitRatiosStr(ssr), admitStrsStr(reqs), admitStrsStr(attrs),
			g.fund(need), admitCoinStr(&assets), admitCoinStr(&p), admitCoinStr(sflat), admitCoinStr(cfee)) + hist
	case k < 870:
		g.out.Count("op:createbid")
		req := admitNewCfg()
		ex := g.flags("order", req)
		cbf, bsf := g.flats(true), g.flats(true)
		bsr := g.buyerRatios(true)
		reqs, attrs := g.reqAndAttrsP(r.Chance(15), 88)
		req.flats["cbf"], req.flats["bsf"], req.ratios["bsr"], req.reqs["rb"] = cbf, bsf, bsr, admitNormAll(reqs)
		aim, hist := req, ""
		if r.Chance(admitHistPct) {
			h := g.history("createbid", req, &ex)
			aim, hist = h.aim, h.String()
			attrs = g.attrsFor(aim.reqs["rb"], 88)
		}
		p := g.price(aim.ratios["bsr"])
		if p.a.BitLen() > 100 {
			p.a = g.smallAmt()
		}
		assets := admitCoinT{"apple", g.smallAmt()}
		fees := g.buyerOffer(aim.flats["bsf"], aim.ratios["bsr"], p)
		cfee := g.flatOffer(aim.flats["cbf"], false)
		need := map[string]*big.Int{}
		addNeed(need, &p)
		addNeed(need, cfee)
		for i := range fees {
			addNeed(need, &fees[i])
		}
		return fmt.Sprintf("createbid %s cbf=%s bsf=%s bsr=%s rb=%s attrs=%s bal=%s assets=%s price=%s fees=%s cfee=%s",
			admitFlagsStr(ex, req), admitCoinsStr(cbf), admitCoinsStr(bsf), admitRatiosStr(bsr), admitStrsStr(reqs), admitStrsStr(attrs),
			g.fund(need), admitCoinStr(&assets), admitCoinStr(&p), admitCoinsStr(fees), admitCoinStr(cfee)) + hist
	case k < 920:
		g.out.Count("op:commit")
		req := admitNewCfg()
		ex := g.flags("commit", req)
		ccf := g.flats(true)
		reqs, attrs := g.reqAndAttrsP(r.Chance(12), 88)
		req.flats["ccf"], req.reqs["rc"] = ccf, admitNormAll(reqs)
		aim, hist := req, ""
		if r.Chance(admitHistPct) {
			h := g.history("commit", req, &ex)
			aim, hist = h.aim, h.String()
			attrs = g.attrsFor(aim.reqs["rc"], 88)
		}
		var amount []admitCoinT
		for _, d := range g.denomSubset(1 + r.Intn(2)) {
			amount = append(amount, admitCoinT{d, g.smallAmt()})
		}
		sort.Slice(amount, func(i, j int) bool { return amount[i].d < amount[j].d })
		cfee := g.flatOffer(aim.flats["ccf"], false)
		need := map[string]*big.Int{}
		addNeed(need, cfee)
		for i := range amount {
			addNeed(need, &amount[i])
		}
		return fmt.Sprintf("commit %s ccf=%s rc=%s attrs=%s bal=%s amount=%s cfee=%s",
			admitFlagsStr(ex, req), admitCoinsStr(ccf), admitStrsStr(reqs), admitStrsStr(attrs), g.fund(need), admitCoinsStr(amount), admitCoinStr(cfee)) + hist
	case k < 960:
		if r.Chance(85) {
			return g.opFillBidsFull()
		}
		g.out.Count("op:fillbids")
		req := admitNewCfg()
		ex := g.flags("fill", req)
		caf, ssf := g.flats(true), g.flats(true)
		reqs, attrs := g.reqAndAttrsP(false, 88)
		req.flats["caf"], req.flats["ssf"], req.reqs["ra"] = caf, ssf, admitNormAll(reqs)
		aim, hist := req, ""
		if r.Chance(admitHistPct) {
			h := g.history("fillbids", req, &ex)
			aim, hist = h.aim, h.String()
			attrs = g.attrsFor(aim.reqs["ra"], 88)
		}
		return fmt.Sprintf("fillbids %s caf=%s ssf=%s ra=%s attrs=%s bal=- sflat=%s cfee=%s",
			admitFlagsStr(ex, req), admitCoinsStr(caf), admitCoinsStr(ssf), admitStrsStr(reqs), admitStrsStr(attrs),
			admitCoinStr(g.flatOffer(aim.flats["ssf"], true)), admitCoinStr(g.flatOffer(aim.flats["caf"], true))) + hist
	default:
		if r.Chance(85) {
			return g.opFillAsksFull()
		}
		g.out.Count("op:fillasks")
		req := admitNewCfg()
		ex := g.flags("fill", req)
		cbf, bsf := g.flats(true), g.flats(true)
		bsr := g.buyerRatios(true)
		reqs, attrs := g.reqAndAttrsP(false, 88)
		req.flats["cbf"], req.flats["bsf"], req.ratios["bsr"], req.reqs["rb"] = cbf, bsf, bsr, admitNormAll(reqs)
		aim, hist := req, ""
		if r.Chance(admitHistPct) {
			h := g.history("fillasks", req, &ex)
			aim, hist = h.aim, h.String()
			attrs = g.attrsFor(aim.reqs["rb"], 88)
		}
		p := g.price(aim.ratios["bsr"])
		return fmt.Sprintf("fillasks %s cbf=%s bsf=%s bsr=%s rb=%s attrs=%s bal=- price=%s fees=%s cfee=%s",
			admitFlagsStr(ex, req), admitCoinsStr(cbf), admitCoinsStr(bsf), admitRatiosStr(bsr), admitStrsStr(reqs), admitStrsStr(attrs),
			admitCoinStr(&p), admitCoinsStr(g.buyerOffer(aim.flats["bsf"], aim.ratios["bsr"], p)), admitCoinStr(g.flatOffer(aim.flats["cbf"], true))) + hist
	}
}

func driveAdmit(t *testing.T, rng *RNG, n int, out *Out) {
	e := &admitEnv{t: t}
	g := &admitGen{r: rng, out: out}
	for i := 0; i < n; i++ {
		op := g.op()
		res := e.exec(op)
		out.Count("res:" + strings.Fields(op)[0] + ":" + admitResTag(op, res))
		out.Emit(op, res)
	}
}

func admitResTag(op, res string) string {
	f := strings.Fields(res + " x")
	if strings.HasPrefix(op, "cancreate") || strings.HasPrefix(op, "reqattr") {
		return f[0] + f[1]
	}
	return f[0]
}

func replayAdmit(t *testing.T, ops []string, out *Out) {
	e := &admitEnv{t: t}
	for _, op := range ops {
		if strings.HasPrefix(op, "#") || strings.TrimSpace(op) == "" {
			continue
		}
		out.Emit(op, e.exec(op))
	}
}
