package harness

// C13 (model `exrec`): exchange records and their lookups.
//
// Every op line is executed on a real provenance app: mutations through the exchange
// module's real MsgServer (after the message's ValidateBasic, on a cached context that is
// written only on success), lookups through the real gRPC query server
// (keeper.NewQueryServer), the raw dump by iterating the module's real KV store.
//
// Accounts have two valid text spellings (bech32 in lower case = canonical, or in upper case). A
// trailing `!` on an account name of an op line means "written in upper case"; dumps and single-record
// outputs show the spelling the record stores, listings are keyed by the plain account name (lookups
// go by account bytes).

import (
	"encoding/binary"
	"encoding/hex"
	"fmt"
	"sort"
	"strconv"
	"strings"
	"sync"
	"testing"

	sdkmath "cosmossdk.io/math"
	storetypes "cosmossdk.io/store/types"

	sdk "github.com/cosmos/cosmos-sdk/types"
	"github.com/cosmos/cosmos-sdk/types/query"
	banktestutil "github.com/cosmos/cosmos-sdk/x/bank/testutil"

	"github.com/provenance-io/provenance/app"
	"github.com/provenance-io/provenance/x/exchange"
	"github.com/provenance-io/provenance/x/exchange/keeper"
)

func init() {
	drivers["exrec"] = exrecDrive
	replayers["exrec"] = exrecReplay
}

var (
	exrecOnce sync.Once
	exrecApp  *app.App
	exrecBase sdk.Context

	exrecOwners = []string{"A", "B", "C", "Z1"}
	// asset denoms: prefixes of each other, and denoms that differ from another one only in the CASE of
	// their letters (bank denoms are case sensitive: `[a-zA-Z][a-zA-Z0-9/:._-]{2,127}`, every IBC voucher
	// is `ibc/<UPPER-CASE HEX>`). No '.', ':', ',' or '=' (field separators of the line protocol).
	exrecAssets = []string{"apple", "apples", "applesauce", "app", "pear", "Apple", "APPLE", "ibc/7F1A", "ibc/7f1a"}
	exrecPrices = []string{"usd", "eur"}
	exrecExts   = []string{"x1", "x2", "x3"}
	// external ids at the length limits (exchange.MaxExternalIDLength = 100): one char, one
	// below the limit, exactly the limit (two different ones, one a prefix-extension of the 99),
	// one above (must be refused everywhere). `c^n` stands for c repeated n times.
	exrecEdgeExts = []string{"q", "y^99", "y^100", "z^100", "y^101"}
)

const exrecPageCap = 60

type exrecEnv struct {
	t   *testing.T
	ctx sdk.Context
	k   keeper.Keeper
	ms  exchange.MsgServer
	qs  exchange.QueryServer
	key storetypes.StoreKey
}

// exrecAddr maps a symbolic account name to its address: the name padded with '_' to 20
// bytes (32 for names starting with 'Z'), so that the model can compute the same key bytes.
func exrecAddr(name string) sdk.AccAddress {
	name = exrecBase0(name)
	if name == "-" || name == "~" || name == "" {
		return nil
	}
	n := 20
	if strings.HasPrefix(name, "Z") {
		n = 32
	}
	b := []byte(name)
	for len(b) < n {
		b = append(b, '_')
	}
	return sdk.AccAddress(b)
}

// A trailing `!` on an account name means: spell the address in UPPER-case bech32 (a valid
// spelling of the same account; the canonical one is lower case).
func exrecUp(name string) bool { return len(name) > 1 && strings.HasSuffix(name, "!") }

func exrecBase0(name string) string {
	if exrecUp(name) {
		return name[:len(name)-1]
	}
	return name
}

func (e *exrecEnv) addrStr(name string) string {
	if exrecUp(name) {
		return strings.ToUpper(e.addrStr(exrecBase0(name)))
	}
	if name == "gov" {
		return e.k.GetAuthority()
	}
	a := exrecAddr(name)
	if a == nil {
		return ""
	}
	return a.String()
}

// spelledName is nameOfBech plus the `!` marker when the string is the upper-case spelling.
func (e *exrecEnv) spelledName(s string) string {
	n := e.nameOfBech(s)
	if s != "" && s == strings.ToUpper(s) && s != strings.ToLower(s) {
		return n + "!"
	}
	return n
}

func (e *exrecEnv) nameOfBech(s string) string {
	if s == "" {
		return "~"
	}
	if strings.ToLower(s) == e.k.GetAuthority() {
		return "gov"
	}
	a, err := sdk.AccAddressFromBech32(s)
	if err != nil {
		return "?"
	}
	return exrecNameOf(a)
}

func exrecNameOf(a []byte) string {
	if len(a) == 0 {
		return "~"
	}
	return strings.TrimRight(string(a), "_")
}

// exrecExt decodes an external id of an op line: `~`/`-` = empty, `c^n` = c repeated n times.
func exrecExt(s string) string {
	if s == "~" || s == "-" {
		return ""
	}
	if len(s) >= 3 && s[1] == '^' {
		if n, err := strconv.Atoi(s[2:]); err == nil && n >= 0 && n <= 100000 {
			return strings.Repeat(s[:1], n)
		}
	}
	return s
}

// exrecShowExt is the canonical rendering: runs of one character of length >= 8 as `c^n`.
func exrecShowExt(s string) string {
	if s == "" {
		return "~"
	}
	if len(s) >= 8 && strings.Count(s, s[:1]) == len(s) {
		return s[:1] + "^" + strconv.Itoa(len(s))
	}
	return s
}

func newExrecEnv(t *testing.T) *exrecEnv {
	exrecOnce.Do(func() {
		exrecApp, exrecBase = NewApp(t)
		var coins sdk.Coins
		for _, d := range append(append([]string{}, exrecAssets...), exrecPrices...) {
			coins = coins.Add(sdk.NewInt64Coin(d, 1_000_000_000_000_000))
		}
		for _, n := range append(append([]string{}, exrecOwners...), "adm", "D") {
			if err := banktestutil.FundAccount(exrecBase, exrecApp.BankKeeper, exrecAddr(n), coins); err != nil {
				t.Fatal(err)
			}
		}
	})
	e := &exrecEnv{t: t, k: exrecApp.ExchangeKeeper, key: exrecApp.GetKey(exchange.StoreKey)}
	e.ms = keeper.NewMsgServer(e.k)
	e.qs = keeper.NewQueryServer(e.k)
	e.reset()
	return e
}

func (e *exrecEnv) reset() { e.ctx, _ = exrecBase.CacheContext() }

// ---- mutations -------------------------------------------------------------------------

func exrecNat(ws []string, k string) uint64 {
	v, _ := strconv.ParseUint(kvArg(ws, k), 10, 64)
	return v
}

func exrecList(s string) []string {
	if s == "-" || s == "" {
		return nil
	}
	return strings.Split(s, "|")
}

// run executes msg (ValidateBasic first, as the ante handler does) atomically.
func (e *exrecEnv) run(msg sdk.Msg, f func(ctx sdk.Context) (string, error)) string {
	if vb, ok := msg.(sdk.HasValidateBasic); ok {
		if err := vb.ValidateBasic(); err != nil {
			return "err:invalid"
		}
	}
	res := "ok"
	err, panicked := Try(e.ctx, func(ctx sdk.Context) error {
		r, err := f(ctx)
		if r != "" {
			res = r
		}
		return err
	})
	if panicked != "" {
		return "panic:" + panicked
	}
	if err != nil {
		return "err:invalid"
	}
	return res
}

func (e *exrecEnv) execMut(ws []string) (string, bool) {
	switch ws[0] {
	case "mkmarket":
		id := uint32(exrecNat(ws, "id"))
		msg := &exchange.MsgGovCreateMarketRequest{Authority: e.k.GetAuthority(), Market: exchange.Market{
			MarketId:             id,
			MarketDetails:        exchange.MarketDetails{Name: kvArg(ws, "name")},
			AcceptingOrders:      true,
			AllowUserSettlement:  true,
			AcceptingCommitments: true,
			AccessGrants:         []exchange.AccessGrant{{Address: e.addrStr("adm"), Permissions: exchange.AllPermissions()}},
		}}
		return e.run(msg, func(ctx sdk.Context) (string, error) {
			_, err := e.ms.GovCreateMarket(ctx, msg)
			if err != nil {
				return "", err
			}
			// the response does not carry the id: read the auto-selected one back from the store
			got := id
			if id == 0 {
				if v := ctx.KVStore(e.key).Get([]byte{6}); len(v) == 4 {
					got = binary.BigEndian.Uint32(v)
				}
			}
			return "ok " + strconv.Itoa(int(got)), nil
		}), true
	case "close":
		msg := &exchange.MsgGovCloseMarketRequest{Authority: e.k.GetAuthority(), MarketId: uint32(exrecNat(ws, "m"))}
		return e.run(msg, func(ctx sdk.Context) (string, error) { _, err := e.ms.GovCloseMarket(ctx, msg); return "", err }), true
	case "accepting":
		msg := &exchange.MsgMarketUpdateAcceptingOrdersRequest{Admin: e.addrStr(kvArg(ws, "by")), MarketId: uint32(exrecNat(ws, "m")), AcceptingOrders: kvArg(ws, "v") == "1"}
		return e.run(msg, func(ctx sdk.Context) (string, error) {
			_, err := e.ms.MarketUpdateAcceptingOrders(ctx, msg)
			return "", err
		}), true
	case "acceptingc":
		msg := &exchange.MsgMarketUpdateAcceptingCommitmentsRequest{Admin: e.addrStr(kvArg(ws, "by")), MarketId: uint32(exrecNat(ws, "m")), AcceptingCommitments: kvArg(ws, "v") == "1"}
		return e.run(msg, func(ctx sdk.Context) (string, error) {
			_, err := e.ms.MarketUpdateAcceptingCommitments(ctx, msg)
			return "", err
		}), true
	case "ask":
		msg := &exchange.MsgCreateAskRequest{AskOrder: exchange.AskOrder{
			MarketId: uint32(exrecNat(ws, "m")), Seller: e.addrStr(kvArg(ws, "o")),
			Assets:       sdk.Coin{Denom: kvArg(ws, "d"), Amount: mustInt(kvArg(ws, "a"))},
			Price:        sdk.Coin{Denom: kvArg(ws, "pd"), Amount: mustInt(kvArg(ws, "p"))},
			ExternalId:   exrecExt(kvArg(ws, "x")),
			AllowPartial: kvArg(ws, "ap") == "1",
		}}
		return e.run(msg, func(ctx sdk.Context) (string, error) {
			r, err := e.ms.CreateAsk(ctx, msg)
			if err != nil {
				return "", err
			}
			return "ok " + strconv.FormatUint(r.OrderId, 10), nil
		}), true
	case "bid":
		msg := &exchange.MsgCreateBidRequest{BidOrder: exchange.BidOrder{
			MarketId: uint32(exrecNat(ws, "m")), Buyer: e.addrStr(kvArg(ws, "o")),
			Assets:       sdk.Coin{Denom: kvArg(ws, "d"), Amount: mustInt(kvArg(ws, "a"))},
			Price:        sdk.Coin{Denom: kvArg(ws, "pd"), Amount: mustInt(kvArg(ws, "p"))},
			ExternalId:   exrecExt(kvArg(ws, "x")),
			AllowPartial: kvArg(ws, "ap") == "1",
		}}
		return e.run(msg, func(ctx sdk.Context) (string, error) {
			r, err := e.ms.CreateBid(ctx, msg)
			if err != nil {
				return "", err
			}
			return "ok " + strconv.FormatUint(r.OrderId, 10), nil
		}), true
	case "cancel":
		msg := &exchange.MsgCancelOrderRequest{Signer: e.addrStr(kvArg(ws, "by")), OrderId: exrecNat(ws, "id")}
		return e.run(msg, func(ctx sdk.Context) (string, error) { _, err := e.ms.CancelOrder(ctx, msg); return "", err }), true
	case "setext":
		msg := &exchange.MsgMarketSetOrderExternalIDRequest{Admin: e.addrStr(kvArg(ws, "by")), MarketId: uint32(exrecNat(ws, "m")),
			OrderId: exrecNat(ws, "id"), ExternalId: exrecExt(kvArg(ws, "x"))}
		return e.run(msg, func(ctx sdk.Context) (string, error) {
			_, err := e.ms.MarketSetOrderExternalID(ctx, msg)
			return "", err
		}), true
	case "settle":
		msg := &exchange.MsgMarketSettleRequest{Admin: e.addrStr(kvArg(ws, "by")), MarketId: uint32(exrecNat(ws, "m")),
			AskOrderIds: []uint64{exrecNat(ws, "a")}, BidOrderIds: []uint64{exrecNat(ws, "b")}, ExpectPartial: kvArg(ws, "ep") == "1"}
		return e.run(msg, func(ctx sdk.Context) (string, error) { _, err := e.ms.MarketSettle(ctx, msg); return "", err }), true
	case "fillbids":
		// a seller fills bid orders in full (a user settlement); t = the total assets, possibly of several denoms
		var total sdk.Coins
		for _, c := range exrecCoinList(kvArg(ws, "t")) {
			total = total.Add(c)
		}
		msg := &exchange.MsgFillBidsRequest{Seller: e.addrStr(kvArg(ws, "by")), MarketId: uint32(exrecNat(ws, "m")),
			TotalAssets: total, BidOrderIds: exrecIDs(kvArg(ws, "ids"))}
		return e.run(msg, func(ctx sdk.Context) (string, error) { _, err := e.ms.FillBids(ctx, msg); return "", err }), true
	case "fillasks":
		// a buyer fills ask orders in full; t = the total price (ONE coin: the first of the list)
		total := sdk.Coin{Amount: sdkmath.ZeroInt()}
		if cs := exrecCoinList(kvArg(ws, "t")); len(cs) > 0 {
			total = cs[0]
		}
		msg := &exchange.MsgFillAsksRequest{Buyer: e.addrStr(kvArg(ws, "by")), MarketId: uint32(exrecNat(ws, "m")),
			TotalPrice: total, AskOrderIds: exrecIDs(kvArg(ws, "ids"))}
		return e.run(msg, func(ctx sdk.Context) (string, error) { _, err := e.ms.FillAsks(ctx, msg); return "", err }), true
	case "commit":
		msg := &exchange.MsgCommitFundsRequest{Account: e.addrStr(kvArg(ws, "o")), MarketId: uint32(exrecNat(ws, "m")),
			Amount: exrecUsd(exrecNat(ws, "a"))}
		return e.run(msg, func(ctx sdk.Context) (string, error) { _, err := e.ms.CommitFunds(ctx, msg); return "", err }), true
	case "release":
		msg := &exchange.MsgMarketReleaseCommitmentsRequest{Admin: e.addrStr(kvArg(ws, "by")), MarketId: uint32(exrecNat(ws, "m")),
			ToRelease: []exchange.AccountAmount{{Account: e.addrStr(kvArg(ws, "o")), Amount: exrecUsd(exrecNat(ws, "a"))}}}
		return e.run(msg, func(ctx sdk.Context) (string, error) {
			_, err := e.ms.MarketReleaseCommitments(ctx, msg)
			return "", err
		}), true
	case "pay":
		msg := &exchange.MsgCreatePaymentRequest{Payment: exchange.Payment{
			Source: e.addrStr(kvArg(ws, "s")), SourceAmount: exrecUsd(exrecNat(ws, "a")),
			Target: e.addrStr(kvArg(ws, "t")), TargetAmount: exrecUsd(exrecNat(ws, "ta")),
			ExternalId: exrecExt(kvArg(ws, "x")),
		}}
		return e.run(msg, func(ctx sdk.Context) (string, error) { _, err := e.ms.CreatePayment(ctx, msg); return "", err }), true
	case "payaccept":
		// the acceptor repeats the stored payment, with the source and the target spelled as it believes
		src := exrecAddr(kvArg(ws, "s"))
		p := exchange.Payment{Source: e.addrStr(kvArg(ws, "s")), SourceAmount: exrecUsd(1), ExternalId: exrecExt(kvArg(ws, "x"))}
		if src != nil {
			if ex, _ := e.k.GetPayment(e.ctx, src, exrecExt(kvArg(ws, "x"))); ex != nil {
				p = *ex
			}
		}
		p.Source = e.addrStr(kvArg(ws, "s"))
		p.Target = e.addrStr(kvArg(ws, "t"))
		msg := &exchange.MsgAcceptPaymentRequest{Payment: p}
		return e.run(msg, func(ctx sdk.Context) (string, error) { _, err := e.ms.AcceptPayment(ctx, msg); return "", err }), true
	case "payreject":
		msg := &exchange.MsgRejectPaymentRequest{Target: e.addrStr(kvArg(ws, "t")), Source: e.addrStr(kvArg(ws, "s")), ExternalId: exrecExt(kvArg(ws, "x"))}
		return e.run(msg, func(ctx sdk.Context) (string, error) { _, err := e.ms.RejectPayment(ctx, msg); return "", err }), true
	case "payrejectall":
		var srcs []string
		for _, s := range exrecList(kvArg(ws, "s")) {
			srcs = append(srcs, e.addrStr(s))
		}
		msg := &exchange.MsgRejectPaymentsRequest{Target: e.addrStr(kvArg(ws, "t")), Sources: srcs}
		return e.run(msg, func(ctx sdk.Context) (string, error) { _, err := e.ms.RejectPayments(ctx, msg); return "", err }), true
	case "paycancel":
		var xs []string
		for _, x := range exrecList(kvArg(ws, "x")) {
			xs = append(xs, exrecExt(x))
		}
		msg := &exchange.MsgCancelPaymentsRequest{Source: e.addrStr(kvArg(ws, "s")), ExternalIds: xs}
		return e.run(msg, func(ctx sdk.Context) (string, error) { _, err := e.ms.CancelPayments(ctx, msg); return "", err }), true
	case "paytarget":
		msg := &exchange.MsgChangePaymentTargetRequest{Source: e.addrStr(kvArg(ws, "s")), ExternalId: exrecExt(kvArg(ws, "x")), NewTarget: e.addrStr(kvArg(ws, "t"))}
		return e.run(msg, func(ctx sdk.Context) (string, error) {
			_, err := e.ms.ChangePaymentTarget(ctx, msg)
			return "", err
		}), true
	}
	return "", false
}

// exrecCoinList parses `12apple,3ibc/7F1A` (`-` = none) in the order written: the amount is the leading
// run of digits, the rest is the denom.
func exrecCoinList(s string) []sdk.Coin {
	if s == "-" || s == "" {
		return nil
	}
	var rv []sdk.Coin
	for _, c := range strings.Split(s, ",") {
		i := 0
		for i < len(c) && c[i] >= '0' && c[i] <= '9' {
			i++
		}
		if i == 0 || i == len(c) {
			continue
		}
		rv = append(rv, sdk.Coin{Denom: c[i:], Amount: mustInt(c[:i])})
	}
	return rv
}

func exrecIDs(s string) []uint64 {
	var rv []uint64
	for _, w := range exrecList(s) {
		v, _ := strconv.ParseUint(w, 10, 64)
		rv = append(rv, v)
	}
	return rv
}

func exrecUsd(n uint64) sdk.Coins {
	if n == 0 {
		return nil
	}
	return sdk.Coins{sdk.NewInt64Coin("usd", int64(n))}
}

// ---- raw dump ---------------------------------------------------------------------------

func (e *exrecEnv) showOrderVal(v []byte) string {
	if len(v) == 0 {
		return "o:?"
	}
	switch v[0] {
	case 0:
		var a exchange.AskOrder
		if err := a.Unmarshal(v[1:]); err != nil {
			return "o:?"
		}
		return e.showOrder(exchange.NewOrder(0).WithAsk(&a))
	case 1:
		var b exchange.BidOrder
		if err := b.Unmarshal(v[1:]); err != nil {
			return "o:?"
		}
		return e.showOrder(exchange.NewOrder(0).WithBid(&b))
	}
	return "o:?"
}

func (e *exrecEnv) showOrder(o *exchange.Order) string {
	t, apS := "a", "0"
	if o.IsBidOrder() {
		t = "b"
	}
	if o.PartialFillAllowed() {
		apS = "1"
	}
	assets, price := o.GetAssets(), o.GetPrice()
	return fmt.Sprintf("o:%s:%d:%s:%s:%s:%s:%s:%s:%s", t, o.GetMarketID(), e.spelledName(o.GetOwner()), assets.Denom, assets.Amount, price.Denom, price.Amount, exrecShowExt(o.GetExternalID()), apS)
}

func (e *exrecEnv) showPayment(p *exchange.Payment) string {
	return fmt.Sprintf("p:%s:%s:%s:%s:%s", e.spelledName(p.Source), p.SourceAmount.AmountOf("usd"), e.spelledName(p.Target), p.TargetAmount.AmountOf("usd"), exrecShowExt(p.ExternalId))
}

func (e *exrecEnv) raw() string {
	store := e.ctx.KVStore(e.key)
	it := store.Iterator(nil, nil)
	defer it.Close()
	var parts []string
	for ; it.Valid(); it.Next() {
		k, v := it.Key(), it.Value()
		if len(k) == 0 {
			continue
		}
		var val string
		switch k[0] {
		case 1:
			if !(len(k) == 6 && (k[5] == 6 || k[5] == 16)) {
				continue
			}
			val = "e"
			if len(v) != 0 {
				val = "?"
			}
		case 2:
			val = e.showOrderVal(v)
		case 3, 4, 5:
			if len(v) == 1 {
				val = "t" + strconv.Itoa(int(v[0]))
			} else {
				val = "t?"
			}
		case 6:
			if len(v) == 4 {
				val = "m" + strconv.FormatUint(uint64(binary.BigEndian.Uint32(v)), 10)
			} else {
				val = "m?"
			}
		case 8, 9:
			if len(v) == 8 {
				val = "n" + strconv.FormatUint(binary.BigEndian.Uint64(v), 10)
			} else {
				val = "n?"
			}
		case 7, 16:
			val = "e"
			if len(v) != 0 {
				val = "?"
			}
		case 99:
			cs, err := sdk.ParseCoinsNormalized(string(v))
			if err != nil {
				val = "c?"
			} else {
				val = "c" + cs.AmountOf("usd").String()
			}
		case 112:
			var p exchange.Payment
			if err := p.Unmarshal(v); err != nil {
				val = "p:?"
			} else {
				val = e.showPayment(&p)
			}
		default:
			continue
		}
		parts = append(parts, hex.EncodeToString(k)+"="+val)
	}
	return JoinOr(parts, " ")
}

// ---- lookups ----------------------------------------------------------------------------

type exrecQ struct {
	kind, arg, ty string
	after         uint64
	rev, ct       bool
	limit         uint64
}

func exrecParseQ(ws []string) exrecQ {
	q := exrecQ{kind: kvArg(ws, "kind"), arg: kvArg(ws, "arg"), ty: kvArg(ws, "ty"), after: exrecNat(ws, "after"),
		rev: kvArg(ws, "rev") == "1", ct: kvArg(ws, "ct") == "1", limit: exrecNat(ws, "limit")}
	if q.ty == "-" {
		q.ty = ""
	}
	return q
}

func exrecOrderIDs(os []*exchange.Order) []string {
	rv := make([]string, 0, len(os))
	for _, o := range os {
		rv = append(rv, strconv.FormatUint(o.OrderId, 10))
	}
	return rv
}

func (e *exrecEnv) payItems(ps []*exchange.Payment) []string {
	rv := make([]string, 0, len(ps))
	for _, p := range ps {
		rv = append(rv, e.nameOfBech(p.Source)+":"+exrecShowExt(p.ExternalId))
	}
	return rv
}

// pageOnce runs one gRPC list request; returns the rendered items, the page response, and
// "" / "err:invalid" / "panic".
func (e *exrecEnv) pageOnce(q exrecQ, req *query.PageRequest) (items []string, resp *query.PageResponse, status string) {
	defer func() {
		if r := recover(); r != nil {
			items, resp, status = nil, nil, "panic"
		}
	}()
	var err error
	switch q.kind {
	case "market":
		m, _ := strconv.ParseUint(q.arg, 10, 32)
		var r *exchange.QueryGetMarketOrdersResponse
		r, err = e.qs.GetMarketOrders(e.ctx, &exchange.QueryGetMarketOrdersRequest{MarketId: uint32(m), OrderType: q.ty, AfterOrderId: q.after, Pagination: req})
		if err == nil {
			items, resp = exrecOrderIDs(r.Orders), r.Pagination
		}
	case "owner":
		var r *exchange.QueryGetOwnerOrdersResponse
		r, err = e.qs.GetOwnerOrders(e.ctx, &exchange.QueryGetOwnerOrdersRequest{Owner: e.addrStr(q.arg), OrderType: q.ty, AfterOrderId: q.after, Pagination: req})
		if err == nil {
			items, resp = exrecOrderIDs(r.Orders), r.Pagination
		}
	case "asset":
		var r *exchange.QueryGetAssetOrdersResponse
		r, err = e.qs.GetAssetOrders(e.ctx, &exchange.QueryGetAssetOrdersRequest{Asset: exrecExt(q.arg), OrderType: q.ty, AfterOrderId: q.after, Pagination: req})
		if err == nil {
			items, resp = exrecOrderIDs(r.Orders), r.Pagination
		}
	case "all":
		var r *exchange.QueryGetAllOrdersResponse
		r, err = e.qs.GetAllOrders(e.ctx, &exchange.QueryGetAllOrdersRequest{Pagination: req})
		if err == nil {
			items, resp = exrecOrderIDs(r.Orders), r.Pagination
		}
	case "paysrc":
		var r *exchange.QueryGetPaymentsWithSourceResponse
		r, err = e.qs.GetPaymentsWithSource(e.ctx, &exchange.QueryGetPaymentsWithSourceRequest{Source: e.addrStr(q.arg), Pagination: req})
		if err == nil {
			items, resp = e.payItems(r.Payments), r.Pagination
		}
	case "paytgt":
		var r *exchange.QueryGetPaymentsWithTargetResponse
		r, err = e.qs.GetPaymentsWithTarget(e.ctx, &exchange.QueryGetPaymentsWithTargetRequest{Target: e.addrStr(q.arg), Pagination: req})
		if err == nil {
			items, resp = e.payItems(r.Payments), r.Pagination
		}
	case "payall":
		var r *exchange.QueryGetAllPaymentsResponse
		r, err = e.qs.GetAllPayments(e.ctx, &exchange.QueryGetAllPaymentsRequest{Pagination: req})
		if err == nil {
			items, resp = e.payItems(r.Payments), r.Pagination
		}
	case "commkt":
		m, _ := strconv.ParseUint(q.arg, 10, 32)
		var r *exchange.QueryGetMarketCommitmentsResponse
		r, err = e.qs.GetMarketCommitments(e.ctx, &exchange.QueryGetMarketCommitmentsRequest{MarketId: uint32(m), Pagination: req})
		if err == nil {
			for _, c := range r.Commitments {
				items = append(items, fmt.Sprintf("%d:%s:%s", m, e.nameOfBech(c.Account), c.Amount.AmountOf("usd")))
			}
			resp = r.Pagination
		}
	case "comall":
		var r *exchange.QueryGetAllCommitmentsResponse
		r, err = e.qs.GetAllCommitments(e.ctx, &exchange.QueryGetAllCommitmentsRequest{Pagination: req})
		if err == nil {
			for _, c := range r.Commitments {
				items = append(items, fmt.Sprintf("%d:%s:%s", c.MarketId, e.nameOfBech(c.Account), c.Amount.AmountOf("usd")))
			}
			resp = r.Pagination
		}
	default:
		return nil, nil, "err:invalid"
	}
	if err != nil {
		return nil, nil, "err:invalid"
	}
	if resp == nil {
		resp = &query.PageResponse{}
	}
	return items, resp, ""
}

func exrecShowPage(items []string, resp *query.PageResponse) string {
	nk := "-"
	if len(resp.NextKey) > 0 {
		nk = hex.EncodeToString(resp.NextKey)
	}
	return JoinOr(items, ",") + ";" + nk + ";" + strconv.FormatUint(resp.Total, 10)
}

// pages follows next_key (mode key) or advances the offset (mode off) until no next_key.
func (e *exrecEnv) pages(q exrecQ, mode string) string {
	var out []string
	var key []byte
	offset := uint64(0)
	for i := 0; ; i++ {
		if i == exrecPageCap {
			out = append(out, "cap")
			break
		}
		req := &query.PageRequest{Limit: q.limit, CountTotal: q.ct, Reverse: q.rev}
		if mode == "off" {
			req.Offset = offset
		} else {
			req.Key = key
		}
		items, resp, st := e.pageOnce(q, req)
		if st != "" {
			out = append(out, st)
			break
		}
		out = append(out, exrecShowPage(items, resp))
		if len(resp.NextKey) == 0 {
			break
		}
		key = resp.NextKey
		if q.limit == 0 {
			offset += query.DefaultLimit
		} else {
			offset += q.limit
		}
	}
	return "ok " + strings.Join(out, "/")
}

func (e *exrecEnv) itemsOf(q exrecQ) string {
	items, _, st := e.pageOnce(q, &query.PageRequest{Limit: 100000})
	if st != "" {
		return st
	}
	return JoinOr(items, ",")
}

func (e *exrecEnv) look(ws []string) string {
	mk, ow, dn, xs := exrecList(kvArg(ws, "mk")), exrecList(kvArg(ws, "ow")), exrecList(kvArg(ws, "dn")), exrecList(kvArg(ws, "xs"))
	// sp=1: every account argument of the queries is spelled in upper case (the answers go by account)
	sp := func(name string) string {
		if kvArg(ws, "sp") == "1" {
			return name + "!"
		}
		return name
	}
	var parts []string
	all := "err:invalid"
	var allOrders []*exchange.Order
	if r, err := e.qs.GetAllOrders(e.ctx, &exchange.QueryGetAllOrdersRequest{Pagination: &query.PageRequest{Limit: 100000}}); err == nil {
		var briefs []string
		for _, o := range r.Orders {
			briefs = append(briefs, e.orderBrief(o))
		}
		allOrders = r.Orders
		all = JoinOr(briefs, ",")
	}
	parts = append(parts, "all="+all)
	// every listed order fetched by id (GetOrder)
	{
		var briefs []string
		for _, o := range allOrders {
			b := strconv.FormatUint(o.OrderId, 10) + ":?"
			if r, err := e.qs.GetOrder(e.ctx, &exchange.QueryGetOrderRequest{OrderId: o.OrderId}); err == nil && r.Order != nil {
				b = e.orderBrief(r.Order)
			}
			briefs = append(briefs, b)
		}
		parts = append(parts, "g="+JoinOr(briefs, ","))
	}
	for _, m := range mk {
		parts = append(parts, "m."+m+"="+e.itemsOf(exrecQ{kind: "market", arg: m}))
	}
	for _, o := range ow {
		parts = append(parts, "o."+o+"="+e.itemsOf(exrecQ{kind: "owner", arg: sp(o)}))
	}
	for _, d := range dn {
		parts = append(parts, "d."+d+"="+e.itemsOf(exrecQ{kind: "asset", arg: d}))
	}
	for _, m := range mk {
		mid, _ := strconv.ParseUint(m, 10, 32)
		for _, x := range xs {
			v := "-"
			if r, err := e.qs.GetOrderByExternalID(e.ctx, &exchange.QueryGetOrderByExternalIDRequest{MarketId: uint32(mid), ExternalId: exrecExt(x)}); err == nil && r.Order != nil {
				v = strconv.FormatUint(r.Order.OrderId, 10)
			}
			parts = append(parts, "x."+m+"."+x+"="+v)
		}
	}
	parts = append(parts, "pall="+e.itemsOf(exrecQ{kind: "payall"}))
	// every listed payment fetched by (source, external id) (GetPayment)
	if r, err := e.qs.GetAllPayments(e.ctx, &exchange.QueryGetAllPaymentsRequest{Pagination: &query.PageRequest{Limit: 100000}}); err == nil {
		var its []string
		for _, p := range r.Payments {
			it := e.nameOfBech(p.Source) + ":" + exrecShowExt(p.ExternalId) + ":?"
			qsrc := p.Source
			if kvArg(ws, "sp") == "1" {
				qsrc = strings.ToUpper(p.Source)
			}
			if g, err := e.qs.GetPayment(e.ctx, &exchange.QueryGetPaymentRequest{Source: qsrc, ExternalId: p.ExternalId}); err == nil && g.Payment != nil {
				it = e.payItems([]*exchange.Payment{g.Payment})[0]
			}
			its = append(its, it)
		}
		parts = append(parts, "gp="+JoinOr(its, ","))
	} else {
		parts = append(parts, "gp=err:invalid")
	}
	for _, o := range ow {
		parts = append(parts, "ps."+o+"="+e.itemsOf(exrecQ{kind: "paysrc", arg: sp(o)}))
	}
	for _, o := range ow {
		parts = append(parts, "pt."+o+"="+e.itemsOf(exrecQ{kind: "paytgt", arg: sp(o)}))
	}
	parts = append(parts, "call="+e.itemsOf(exrecQ{kind: "comall"}))
	for _, m := range mk {
		parts = append(parts, "cm."+m+"="+e.itemsOf(exrecQ{kind: "commkt", arg: m}))
	}
	return strings.Join(parts, " ")
}

func (e *exrecEnv) orderBrief(o *exchange.Order) string {
	t := "a"
	if o.IsBidOrder() {
		t = "b"
	}
	return fmt.Sprintf("%d:%d:%s:%s:%s:%s", o.OrderId, o.GetMarketID(), e.nameOfBech(o.GetOwner()), o.GetAssets().Denom, exrecShowExt(o.GetExternalID()), t)
}

// holds renders what the hold module has on hold for each account (sorted by denom).
func (e *exrecEnv) holds(ws []string) string {
	var parts []string
	for _, o := range exrecList(kvArg(ws, "ow")) {
		v := "?"
		if cs, err := exrecApp.HoldKeeper.GetHoldCoins(e.ctx, exrecAddr(o)); err == nil {
			var items []string
			for _, c := range cs.Sort() {
				if c.Amount.IsZero() {
					continue
				}
				items = append(items, c.Amount.String()+c.Denom)
			}
			v = JoinOr(items, ",")
		}
		parts = append(parts, o+"="+v)
	}
	return JoinOr(parts, " ")
}

// exec executes one op line on the real code.
func (e *exrecEnv) exec(line string) string {
	ws := strings.Fields(line)
	if len(ws) == 0 {
		return "bad-op"
	}
	if r, ok := e.execMut(ws); ok {
		return r
	}
	switch ws[0] {
	case "raw":
		return e.raw()
	case "look":
		return e.look(ws)
	case "holds":
		return e.holds(ws)
	case "q":
		return e.pages(exrecParseQ(ws), kvArg(ws, "mode"))
	case "q1":
		q := exrecParseQ(ws)
		req := &query.PageRequest{Limit: q.limit, CountTotal: q.ct, Reverse: q.rev, Offset: exrecNat(ws, "offset")}
		if ks := kvArg(ws, "key"); ks != "" && ks != "-" {
			req.Key, _ = hex.DecodeString(ks)
		}
		items, resp, st := e.pageOnce(q, req)
		if st != "" {
			return st
		}
		return "ok " + exrecShowPage(items, resp)
	case "get":
		r, err := e.qs.GetOrder(e.ctx, &exchange.QueryGetOrderRequest{OrderId: exrecNat(ws, "id")})
		if err != nil {
			return "err:invalid"
		}
		return "ok " + e.showOrder(r.Order)
	case "getext":
		r, err := e.qs.GetOrderByExternalID(e.ctx, &exchange.QueryGetOrderByExternalIDRequest{MarketId: uint32(exrecNat(ws, "m")), ExternalId: exrecExt(kvArg(ws, "x"))})
		if err != nil {
			return "err:invalid"
		}
		return "ok " + strconv.FormatUint(r.Order.OrderId, 10)
	case "getpay":
		r, err := e.qs.GetPayment(e.ctx, &exchange.QueryGetPaymentRequest{Source: e.addrStr(kvArg(ws, "s")), ExternalId: exrecExt(kvArg(ws, "x"))})
		if err != nil {
			return "err:invalid"
		}
		return "ok " + e.showPayment(r.Payment)
	}
	return "bad-op"
}

// ---- generator --------------------------------------------------------------------------

type exrecGen struct {
	e    *exrecEnv
	rng  *RNG
	out  *Out
	mkts []string // market ids that exist (as strings)
}

func (g *exrecGen) emit(line string) string {
	res := g.e.exec(line)
	g.out.Emit(line, res)
	kind := strings.Fields(line)[0]
	g.out.Count("op:" + kind)
	switch {
	case strings.HasPrefix(res, "ok"):
		g.out.Count("res:" + kind + ":ok")
	case strings.HasPrefix(res, "err"):
		g.out.Count("res:" + kind + ":err")
	case strings.HasPrefix(res, "panic"):
		g.out.Count("res:" + kind + ":panic")
	}
	return res
}

func (g *exrecGen) openOrders() []*exchange.Order {
	var rv []*exchange.Order
	_ = g.e.k.IterateOrders(g.e.ctx, func(o *exchange.Order) bool { rv = append(rv, o); return false })
	return rv
}

func (g *exrecGen) payments() []*exchange.Payment {
	var rv []*exchange.Payment
	g.e.k.IteratePayments(g.e.ctx, func(p *exchange.Payment) bool { rv = append(rv, p); return false })
	return rv
}

func (g *exrecGen) market() string {
	if len(g.mkts) == 0 || g.rng.Chance(4) {
		return Pick(g.rng, []string{"0", "1", "7", "9"})
	}
	return Pick(g.rng, g.mkts)
}

func (g *exrecGen) ext() string {
	switch r := g.rng.Intn(100); {
	case r < 40:
		return "~"
	case r < 80:
		return Pick(g.rng, exrecExts)
	default:
		return Pick(g.rng, exrecEdgeExts) // lengths 1, 99, 100 (the limit), 101
	}
}

// acct spells an account name: mostly the canonical lower-case bech32, in pct% of the cases the
// upper-case spelling of the same account (`name!`).
func (g *exrecGen) acctP(name string, pct int) string {
	if name == "-" || name == "~" || name == "" || exrecUp(name) {
		return name
	}
	if g.rng.Chance(pct) {
		g.out.Count("spell:upper")
		return name + "!"
	}
	return name
}

func (g *exrecGen) acct(name string) string { return g.acctP(name, 15) }

// respell: an account as the record spells it, in 25% of the cases the other spelling.
func (g *exrecGen) respell(spelled string) string {
	if spelled == "-" || spelled == "~" || spelled == "" || !g.rng.Chance(25) {
		return spelled
	}
	g.out.Count("spell:flipped")
	if exrecUp(spelled) {
		return exrecBase0(spelled)
	}
	return spelled + "!"
}

func (g *exrecGen) holdsLine() string { return "holds ow=" + strings.Join(exrecOwners, "|") }

func (g *exrecGen) admin() string {
	if g.rng.Chance(88) {
		return g.acctP("adm", 8)
	}
	return Pick(g.rng, []string{"A", "B", "gov"})
}

func (g *exrecGen) lookLine() string {
	mk := []string{"1", "2", "3", "4", "5"}
	sp := "0"
	if g.rng.Chance(25) {
		sp = "1"
	}
	return "look mk=" + strings.Join(mk, "|") + " ow=" + strings.Join(exrecOwners, "|") + " dn=" + strings.Join(exrecAssets, "|") + " xs=" + strings.Join(append(append([]string{}, exrecExts...), exrecEdgeExts...), "|") + " sp=" + sp
}

func (g *exrecGen) createOrder() {
	kind := Pick(g.rng, []string{"ask", "bid"})
	m, owner, d, pd := g.market(), g.acct(Pick(g.rng, exrecOwners)), Pick(g.rng, exrecAssets), Pick(g.rng, exrecPrices)
	unit := uint64(2)
	if kind == "bid" {
		unit = 3
	}
	a := uint64(1 + g.rng.Intn(6))
	// often mirror an existing order of the other type so that settlements are possible
	if os := g.openOrders(); len(os) > 0 && g.rng.Chance(55) {
		o := Pick(g.rng, os)
		if o.IsAskOrder() {
			kind, unit = "bid", 3
		} else {
			kind, unit = "ask", 2
		}
		m, d, pd = strconv.Itoa(int(o.GetMarketID())), o.GetAssets().Denom, o.GetPrice().Denom
		base := o.GetAssets().Amount.Uint64()
		switch g.rng.Intn(4) {
		case 0:
			a = base
		case 1:
			a = base * 2
		case 2:
			a = (base + 1) / 2
		}
	}
	p := a * unit
	switch r := g.rng.Intn(100); {
	case r < 2:
		a = 0
	case r < 4:
		p = 0
	case r < 6:
		pd = d
	case r < 11:
		p = p + 1 // not divisible: partial filling refuses
	}
	ap := "1"
	if g.rng.Chance(20) {
		ap = "0"
	}
	x := g.ext()
	if os := g.openOrders(); len(os) > 0 && g.rng.Chance(12) {
		// an external id that an open order of the market already carries: must be refused
		if o := Pick(g.rng, os); o.GetExternalID() != "" {
			m, x = strconv.Itoa(int(o.GetMarketID())), exrecShowExt(o.GetExternalID())
			g.out.Count("branch:create_existing_ext")
		}
	}
	g.out.Count(fmt.Sprintf("extlen:order:%03d", len(exrecExt(x))))
	g.emit(fmt.Sprintf("%s m=%s o=%s d=%s a=%d pd=%s p=%d x=%s ap=%s", kind, m, owner, d, a, pd, p, x, ap))
}

func (g *exrecGen) orderID() string {
	os := g.openOrders()
	if len(os) == 0 || g.rng.Chance(8) {
		return strconv.Itoa(g.rng.Intn(12))
	}
	return strconv.FormatUint(Pick(g.rng, os).OrderId, 10)
}

func (g *exrecGen) settle() {
	os := g.openOrders()
	var asks, bids []*exchange.Order
	for _, o := range os {
		if o.IsAskOrder() {
			asks = append(asks, o)
		} else {
			bids = append(bids, o)
		}
	}
	if len(asks) == 0 || len(bids) == 0 {
		g.emit(fmt.Sprintf("settle m=%s a=%s b=%s ep=0 by=adm", g.market(), g.orderID(), g.orderID()))
		return
	}
	a := Pick(g.rng, asks)
	b := Pick(g.rng, bids)
	// prefer a compatible pair
	for tries := 0; tries < 12; tries++ {
		if a.GetMarketID() == b.GetMarketID() && a.GetAssets().Denom == b.GetAssets().Denom && a.GetPrice().Denom == b.GetPrice().Denom {
			break
		}
		a, b = Pick(g.rng, asks), Pick(g.rng, bids)
	}
	ep := "0"
	if !a.GetAssets().Amount.Equal(b.GetAssets().Amount) {
		ep = "1"
	}
	if g.rng.Chance(8) {
		ep = Pick(g.rng, []string{"0", "1"})
	}
	m := strconv.Itoa(int(a.GetMarketID()))
	if g.rng.Chance(5) {
		m = g.market()
	}
	if res := g.emit(fmt.Sprintf("settle m=%s a=%d b=%d ep=%s by=%s", m, a.OrderId, b.OrderId, ep, g.admin())); res == "ok" {
		if ep == "1" {
			g.out.Count("branch:settle_partial_fill")
		} else {
			g.out.Count("branch:settle_full_fill")
		}
	}
}

// fill: a user settlement (MsgFillBids / MsgFillAsks): one account fills 1-4 open orders of one type of one
// market in full with one message. The orders are picked whatever their asset denoms (a seller may fill
// bids for several asset denoms with one message: TotalAssets is sdk.Coins; the asks a buyer fills may
// be for several asset denoms too, only their prices add up to one coin); a minority of the messages
// is wrong (total off by one, an id that is no such order, an id twice, another market, the owner fills).
func (g *exrecGen) fill() {
	os := g.openOrders()
	wantBid := g.rng.Chance(60)
	kind := "fillasks"
	if wantBid {
		kind = "fillbids"
	}
	var cands []*exchange.Order
	if len(os) > 0 {
		first := Pick(g.rng, os)
		for tries := 0; tries < 8 && first.IsBidOrder() != wantBid; tries++ {
			first = Pick(g.rng, os)
		}
		for _, o := range os {
			if o.GetMarketID() != first.GetMarketID() || o.IsBidOrder() != first.IsBidOrder() {
				continue
			}
			if !first.IsBidOrder() && o.GetPrice().Denom != first.GetPrice().Denom && g.rng.Chance(85) {
				continue // asks priced in another denom cannot be part of the same total price
			}
			cands = append(cands, o)
		}
		if first.IsBidOrder() != wantBid {
			wantBid = first.IsBidOrder()
			kind = map[bool]string{true: "fillbids", false: "fillasks"}[wantBid]
		}
	}
	if len(cands) == 0 {
		g.emit(fmt.Sprintf("%s m=%s by=%s ids=%s t=%dapple", kind, g.market(), g.acct(Pick(g.rng, exrecOwners)), g.orderID(), 1+g.rng.Intn(3)))
		return
	}
	// a random subset of 1-4 of them, in random order
	for i := len(cands) - 1; i > 0; i-- {
		j := g.rng.Intn(i + 1)
		cands[i], cands[j] = cands[j], cands[i]
	}
	n := 1 + g.rng.Intn(minInt(len(cands), 4))
	if len(cands) >= 2 && g.rng.Chance(50) {
		n = minInt(len(cands), 2+g.rng.Intn(3))
	}
	picked := cands[:n]
	// the filler: mostly an account that owns none of the picked orders
	filler := Pick(g.rng, exrecOwners)
	for tries := 0; tries < 10; tries++ {
		own := false
		for _, o := range picked {
			if g.e.nameOfBech(o.GetOwner()) == filler {
				own = true
			}
		}
		if !own || g.rng.Chance(6) {
			break
		}
		filler = Pick(g.rng, exrecOwners)
	}
	var total sdk.Coins
	var ids []string
	denoms := map[string]bool{}
	for _, o := range picked {
		ids = append(ids, strconv.FormatUint(o.OrderId, 10))
		denoms[o.GetAssets().Denom] = true
		if wantBid {
			total = total.Add(o.GetAssets())
		} else {
			total = total.Add(o.GetPrice())
		}
	}
	m := strconv.Itoa(int(picked[0].GetMarketID()))
	switch r := g.rng.Intn(100); {
	case r < 6:
		total = total.Add(sdk.NewInt64Coin(total[0].Denom, 1))
	case r < 10:
		ids = append(ids, g.orderID()) // an id that may be no order, an order of the other type, of another market, or a repetition
	case r < 13:
		m = g.market()
	}
	var ts []string
	for _, c := range total {
		ts = append(ts, c.Amount.String()+c.Denom)
	}
	res := g.emit(fmt.Sprintf("%s m=%s by=%s ids=%s t=%s", kind, m, g.acct(filler), strings.Join(ids, "|"), JoinOr(ts, ",")))
	if res == "ok" {
		g.out.Count(fmt.Sprintf("branch:fill_orders=%d", len(ids)))
		if len(denoms) > 1 {
			g.out.Count("branch:fill_several_asset_denoms")
		}
	}
}

func (g *exrecGen) paymentOp() {
	ps := g.payments()
	pick := func() (string, string, string) { // source, ext, target of an existing payment (or random)
		if len(ps) == 0 || g.rng.Chance(10) {
			return g.acct(Pick(g.rng, exrecOwners)), g.ext(), g.acct(Pick(g.rng, exrecOwners))
		}
		p := Pick(g.rng, ps)
		return g.respell(g.e.spelledName(p.Source)), exrecShowExt(p.ExternalId), g.respell(g.e.spelledName(p.Target))
	}
	switch r := g.rng.Intn(100); {
	case r < 45 || len(ps) == 0:
		// targets are written in the upper-case spelling in a quarter of the creations
		t := g.acctP(Pick(g.rng, append([]string{"-", "-"}, exrecOwners...)), 25)
		a, ta := g.rng.Intn(4), g.rng.Intn(3)
		x := g.ext()
		if g.rng.Chance(30) {
			x = "~"
		}
		src := g.acct(Pick(g.rng, exrecOwners))
		if len(ps) > 0 && g.rng.Chance(30) {
			// a create for the (source, external id) of a payment that exists: must be refused
			p := Pick(g.rng, ps)
			src, x = g.respell(g.e.spelledName(p.Source)), exrecShowExt(p.ExternalId)
			g.out.Count("branch:pay_existing_key")
			if p.ExternalId == "" {
				g.out.Count("branch:pay_existing_key_empty_ext")
			}
		}
		g.emit(fmt.Sprintf("pay s=%s t=%s a=%d ta=%d x=%s", src, t, a, ta, x))
	case r < 55:
		s, x, t := pick()
		if g.rng.Chance(20) {
			t = g.acct(Pick(g.rng, append([]string{"-"}, exrecOwners...)))
		}
		g.emit(fmt.Sprintf("payaccept s=%s x=%s t=%s", s, x, t))
	case r < 65:
		s, x, t := pick()
		if g.rng.Chance(20) {
			t = g.acct(Pick(g.rng, exrecOwners))
		}
		g.emit(fmt.Sprintf("payreject t=%s s=%s x=%s", t, s, x))
	case r < 72:
		s, _, t := pick()
		srcs := []string{s}
		if g.rng.Chance(40) {
			srcs = append(srcs, g.acct(Pick(g.rng, exrecOwners)))
		}
		g.emit(fmt.Sprintf("payrejectall t=%s s=%s", t, strings.Join(srcs, "|")))
	case r < 80:
		s, x, _ := pick()
		xs := []string{x}
		if g.rng.Chance(40) {
			xs = append(xs, g.ext())
		}
		g.emit(fmt.Sprintf("paycancel s=%s x=%s", s, strings.Join(xs, "|")))
	default:
		// a target change; prefer payments whose stored target is not the canonical spelling, and
		// often "change" the target to the account it already is (either spelling)
		p := Pick(g.rng, ps)
		var ups []*exchange.Payment
		for _, q := range ps {
			if exrecUp(g.e.spelledName(q.Target)) {
				ups = append(ups, q)
			}
		}
		if len(ups) > 0 && g.rng.Chance(70) {
			p = Pick(g.rng, ups)
		}
		s, x, cur := g.respell(g.e.spelledName(p.Source)), exrecShowExt(p.ExternalId), g.e.spelledName(p.Target)
		if g.rng.Chance(8) {
			s, x = g.acct(Pick(g.rng, exrecOwners)), g.ext()
		}
		nt := g.acct(Pick(g.rng, append([]string{"-"}, exrecOwners...)))
		sameP := 40
		if exrecUp(cur) {
			sameP = 65
		}
		if cur != "~" && g.rng.Chance(sameP) {
			nt = g.acctP(exrecBase0(cur), 30)
			g.out.Count("branch:paytarget_same_account")
			if exrecUp(cur) {
				g.out.Count("branch:paytarget_respelled")
			}
		}
		g.emit(fmt.Sprintf("paytarget s=%s x=%s t=%s", s, x, nt))
	}
}

// qBattery pages through listings: every page size 1..n+1, forward and reverse, key- and
// offset-based, with/without order-type and after-order filters.
func (g *exrecGen) qBattery(exhaustive int, sampled int) {
	os := g.openOrders()
	type listing struct {
		kind, arg string
		n         int
	}
	var ls []listing
	count := func(f func(o *exchange.Order) bool) int {
		n := 0
		for _, o := range os {
			if f(o) {
				n++
			}
		}
		return n
	}
	for _, m := range []string{"1", "2", "3"} {
		mid, _ := strconv.Atoi(m)
		ls = append(ls, listing{"market", m, count(func(o *exchange.Order) bool { return int(o.GetMarketID()) == mid })})
	}
	for _, o := range exrecOwners {
		o := o
		ls = append(ls, listing{"owner", o, count(func(x *exchange.Order) bool { return g.e.nameOfBech(x.GetOwner()) == o })})
	}
	for _, d := range exrecAssets {
		ls = append(ls, listing{"asset", d, count(func(x *exchange.Order) bool { return strings.HasPrefix(x.GetAssets().Denom, d) })})
	}
	ls = append(ls, listing{"all", "-", len(os)})
	ps := g.payments()
	for _, o := range exrecOwners {
		ns, nt := 0, 0
		for _, p := range ps {
			if g.e.nameOfBech(p.Source) == o {
				ns++
			}
			if g.e.nameOfBech(p.Target) == o {
				nt++
			}
		}
		ls = append(ls, listing{"paysrc", o, ns}, listing{"paytgt", o, nt})
	}
	ls = append(ls, listing{"payall", "-", len(ps)}, listing{"comall", "-", 3}, listing{"commkt", "1", 2})
	maxID := uint64(0)
	for _, o := range os {
		if o.OrderId > maxID {
			maxID = o.OrderId
		}
	}
	filters := func(l listing) (string, uint64) {
		ty, after := "-", uint64(0)
		if l.kind == "market" || l.kind == "owner" || l.kind == "asset" {
			if g.rng.Chance(50) {
				ty = Pick(g.rng, []string{"ask", "bid", "asks", "BidOrders", "Ask", "bi", "xyz"})
			}
			if g.rng.Chance(50) {
				after = uint64(g.rng.Intn(int(maxID) + 2))
				if g.rng.Chance(6) {
					after = ^uint64(0) - uint64(g.rng.Intn(2))
				}
			}
		}
		return ty, after
	}
	one := func(l listing, ty string, after uint64, rev int, mode string, limit int) {
		ct := 0
		if g.rng.Chance(30) {
			ct = 1
		}
		arg := l.arg
		if l.kind == "owner" || l.kind == "paysrc" || l.kind == "paytgt" {
			arg = g.acct(arg) // listings go by account, whatever the spelling of the argument
		}
		g.emit(fmt.Sprintf("q kind=%s arg=%s ty=%s after=%d rev=%d mode=%s limit=%d ct=%d", l.kind, arg, ty, after, rev, mode, limit, ct))
		g.out.Count("q:" + l.kind)
		g.out.Count("q:mode:" + mode + ":rev" + strconv.Itoa(rev))
		if ty != "-" {
			g.out.Count("q:typefilter")
		}
		if after != 0 {
			g.out.Count("q:after")
		}
	}
	for i := 0; i < exhaustive; i++ {
		l := Pick(g.rng, ls)
		for j := 0; j < 2; j++ { // prefer the longer listings
			if l2 := Pick(g.rng, ls); l2.n > l.n {
				l = l2
			}
		}
		ty, after := filters(l)
		for limit := 1; limit <= l.n+1; limit++ {
			for rev := 0; rev < 2; rev++ {
				for _, mode := range []string{"key", "off"} {
					one(l, ty, after, rev, mode, limit)
				}
			}
		}
		g.out.Count(fmt.Sprintf("q:exhaustive:n=%02d", minInt(l.n, 12)))
	}
	for i := 0; i < sampled; i++ {
		l := Pick(g.rng, ls)
		ty, after := filters(l)
		limit := g.rng.Intn(l.n + 2)
		one(l, ty, after, g.rng.Intn(2), Pick(g.rng, []string{"key", "off"}), limit)
	}
	// a page requested at an explicit key (what a client holding an old next_key does)
	if len(os) > 0 && g.rng.Chance(50) {
		o := Pick(g.rng, os)
		key := make([]byte, 8)
		binary.BigEndian.PutUint64(key, o.OrderId)
		g.emit(fmt.Sprintf("q1 kind=market arg=%d ty=- after=0 rev=%d limit=%d ct=0 key=%s", o.GetMarketID(), g.rng.Intn(2), 1+g.rng.Intn(3), hex.EncodeToString(key)))
	}
}

func (g *exrecGen) history(thorough bool) {
	g.mkts = nil
	nm := 1 + g.rng.Intn(3)
	for i := 0; i < nm; i++ {
		id := "0"
		if g.rng.Chance(30) {
			id = Pick(g.rng, []string{"2", "3", "5", "1"})
		}
		res := g.emit("mkmarket id=" + id + " name=m" + strconv.Itoa(i))
		if f := strings.Fields(res); len(f) >= 2 && f[0] == "ok" {
			g.mkts = append(g.mkts, f[1])
		}
	}
	g.emit("raw")
	n := 8 + g.rng.Intn(34)
	mid := g.rng.Intn(n)
	for i := 0; i < n; i++ {
		switch r := g.rng.Intn(100); {
		case r < 40:
			g.createOrder()
		case r < 47:
			by := "adm"
			id := g.orderID()
			if g.rng.Chance(60) {
				// the owner cancels
				idn, _ := strconv.ParseUint(id, 10, 64)
				if o, _ := g.e.k.GetOrder(g.e.ctx, idn); o != nil {
					by = g.respell(g.e.spelledName(o.GetOwner()))
				}
			} else if g.rng.Chance(30) {
				by = g.acct(Pick(g.rng, exrecOwners))
			}
			g.emit("cancel id=" + id + " by=" + by)
		case r < 56:
			id := g.orderID()
			m := g.market()
			idn, _ := strconv.ParseUint(id, 10, 64)
			if o, _ := g.e.k.GetOrder(g.e.ctx, idn); o != nil && g.rng.Chance(90) {
				m = strconv.Itoa(int(o.GetMarketID()))
			}
			sx := g.ext()
			g.out.Count(fmt.Sprintf("extlen:setext:%03d", len(exrecExt(sx))))
			g.emit(fmt.Sprintf("setext m=%s id=%s x=%s by=%s", m, id, sx, g.admin()))
		case r < 63:
			g.settle()
		case r < 68:
			g.fill()
		case r < 86:
			g.paymentOp()
		case r < 91:
			g.emit(fmt.Sprintf("commit m=%s o=%s a=%d", g.market(), g.acct(Pick(g.rng, exrecOwners)), g.rng.Intn(5)))
		case r < 94:
			m, o := g.market(), Pick(g.rng, exrecOwners)
			var cs []exchange.Commitment
			g.e.k.IterateCommitments(g.e.ctx, func(c exchange.Commitment) bool { cs = append(cs, c); return false })
			if len(cs) > 0 && g.rng.Chance(85) {
				c := Pick(g.rng, cs)
				m, o = strconv.Itoa(int(c.MarketId)), g.acct(g.e.nameOfBech(c.Account))
			}
			g.emit(fmt.Sprintf("release m=%s o=%s a=%d by=%s", m, o, g.rng.Intn(4), g.admin()))
		case r < 95:
			g.emit(fmt.Sprintf("accepting m=%s v=%d by=%s", g.market(), g.rng.Intn(2), g.admin()))
		case r < 96:
			by := g.admin()
			if g.rng.Chance(30) {
				by = "gov" // only the authority may switch commitments back on (no commitment fees defined)
			}
			g.emit(fmt.Sprintf("acceptingc m=%s v=%d by=%s", g.market(), g.rng.Intn(2), by))
		case r < 98:
			res := g.emit("mkmarket id=" + Pick(g.rng, []string{"0", "0", "2", "4"}) + " name=late")
			if f := strings.Fields(res); len(f) >= 2 && f[0] == "ok" {
				g.mkts = append(g.mkts, f[1])
			}
		default:
			// a governance closure, mostly of a market that has orders; in half of the cases order and/or
			// commitment creation were switched off earlier (a paused market is closed)
			m := g.market()
			if os := g.openOrders(); len(os) > 0 && g.rng.Chance(70) {
				m = strconv.Itoa(int(Pick(g.rng, os).GetMarketID()))
			}
			if g.rng.Chance(50) {
				g.out.Count("branch:close_after_pause")
				if g.rng.Chance(75) {
					g.emit(fmt.Sprintf("accepting m=%s v=0 by=%s", m, g.admin()))
					g.emit("raw")
				}
				if g.rng.Chance(50) {
					g.emit(fmt.Sprintf("acceptingc m=%s v=0 by=%s", m, g.admin()))
					g.emit("raw")
				}
			}
			g.emit("close m=" + m)
		}
		g.emit("raw")
		if g.rng.Chance(50) {
			g.emit(g.lookLine())
		}
		if g.rng.Chance(35) {
			g.emit(g.holdsLine())
		}
		if g.rng.Chance(10) {
			g.emit("get id=" + g.orderID())
			gm, gx := g.market(), g.ext()
			if os := g.openOrders(); len(os) > 0 && g.rng.Chance(60) {
				o := Pick(g.rng, os)
				gm, gx = strconv.Itoa(int(o.GetMarketID())), exrecShowExt(o.GetExternalID())
			}
			g.emit(fmt.Sprintf("getext m=%s x=%s", gm, gx))
			ps, px := g.acct(Pick(g.rng, exrecOwners)), g.ext()
			if pays := g.payments(); len(pays) > 0 && g.rng.Chance(60) {
				p := Pick(g.rng, pays)
				ps, px = g.respell(g.e.spelledName(p.Source)), exrecShowExt(p.ExternalId)
			}
			g.emit(fmt.Sprintf("getpay s=%s x=%s", ps, px))
		}
		if i == mid {
			g.qBattery(1, 4)
		}
	}
	g.emit(g.lookLine())
	g.emit(g.holdsLine())
	if thorough {
		g.qBattery(4, 12)
	} else {
		g.qBattery(2, 6)
	}
	g.out.Count(fmt.Sprintf("hist:orders=%02d", minInt(len(g.openOrders()), 12)))
	g.out.Count(fmt.Sprintf("hist:payments=%02d", minInt(len(g.payments()), 8)))
}

func exrecDrive(t *testing.T, rng *RNG, n int, out *Out) {
	e := newExrecEnv(t)
	g := &exrecGen{e: e, rng: rng, out: out}
	for h := 0; h < n; h++ {
		e.reset()
		out.Comment(fmt.Sprintf("history %d", h))
		g.history(*flagTier == "thorough")
	}
}

func exrecReplay(t *testing.T, ops []string, out *Out) {
	e := newExrecEnv(t)
	for _, l := range ops {
		if strings.HasPrefix(l, "#") {
			if strings.HasPrefix(l, "# history") {
				e.reset()
			}
			out.Comment(strings.TrimSpace(strings.TrimPrefix(l, "#")))
			continue
		}
		out.Emit(l, e.exec(l))
	}
}

var _ = sort.Strings
