package harness

// Model "trig" (C17): triggers fire at most once, in order, atomically, with their creators'
// authority.  Drives the REAL trigger module of a real app over many blocks:
//   * triggers are created/destroyed through the trigger MsgServer (after the message's own
//     ValidateBasic, as baseapp/the router do) under a gas meter chosen so that the gas left when
//     RegisterTrigger computes the limit is the op's `rem`;
//   * each block runs the module's BeginBlock (ProcessTriggers), then transactions (bank MsgSend
//     through the bank MsgServer, whose real events form the block's event history; synthetic
//     events; trigger creations/destructions), then the module's EndBlock (DetectBlockEvents) with
//     that history;
//   * actions are real messages routed by the app's MsgServiceRouter: bank MsgSend (succeeds or
//     fails for lack of funds), MsgDestroyTriggerRequest, and a MsgCreateTriggerRequest without
//     authorities whose handler panics; tiny gas limits make actions run out of gas.  The outcome
//     of every action is read from the keeper's own log lines, executed/detected ids from the
//     typed events, balances from the bank keeper, registry/queue/gas-limit/listener stores from
//     the keeper (queue counters and raw keys through x/trigger/keeper/verif_hooks.go);
//   * the module under test is built (triggerkeeper.NewKeeper, exported) on the app's store key with
//     the app's MsgServiceRouter wrapped so that every action handler call records the gas it
//     consumed on the gas meter of the context it was given (trigRouter): the `used=` observation
//     of a `begin` op, from which the model derives which action runs out of the trigger's gas and
//     on which the checker judges "the actions' work stays within the prepaid gas";
//   * block times and time-trigger times carry sub-second parts (`<sec>.<fraction>`);
//   * transaction-event triggers request 0..4 attributes (distinct keys, one key twice with the same /
//     different / no value) and most synthetic events are built FROM the request of a waiting trigger
//     (trigGen.aimedEmit): the complete attribute set (shuffled, with extras and repeats), or a partial
//     one — a requested attribute omitted or given another value while another requested attribute
//     is carried two or more times (repeated key), only one attribute repeated as often as the
//     request is long, no attributes at all, every value wrong, or another spelling of the type.
//     Whether the trigger may be detected is judged by the checker on the events the block really had.

import (
	"errors"
	"fmt"
	"regexp"
	"sort"
	"strconv"
	"strings"
	"sync"
	"testing"
	"time"

	"cosmossdk.io/log"
	storetypes "cosmossdk.io/store/types"

	abci "github.com/cometbft/cometbft/abci/types"
	cmtproto "github.com/cometbft/cometbft/proto/tendermint/types"

	"github.com/cosmos/cosmos-sdk/baseapp"
	sdk "github.com/cosmos/cosmos-sdk/types"
	bankkeeper "github.com/cosmos/cosmos-sdk/x/bank/keeper"
	banktypes "github.com/cosmos/cosmos-sdk/x/bank/types"

	"github.com/provenance-io/provenance/app"
	triggerkeeper "github.com/provenance-io/provenance/x/trigger/keeper"
	triggermodule "github.com/provenance-io/provenance/x/trigger/module"
	triggertypes "github.com/provenance-io/provenance/x/trigger/types"
)

func init() {
	drivers["trig"] = driveTrig
	replayers["trig"] = replayTrig
}

const trigDenom = "vcoin"
const trigInfRem = "18446744073709551615"

var trigNames = []string{"A", "B", "C", "D", "E"}

type trigEnv struct {
	t    *testing.T
	app  *app.App
	base sdk.Context
	addr map[string]sdk.AccAddress
	name map[string]string // bech32 -> symbolic
	srv  triggertypes.MsgServer
	bsrv banktypes.MsgServer
	mod  triggermodule.AppModule

	// current history
	ctx    sdk.Context
	events []abci.Event

	// where the wrapped router records the gas each action handler consumed (nil outside BeginBlock)
	gasLog *[]string
}

// trigRouter is the app's message router with every handler wrapped: the wrapper adds no
// behaviour, it records how much gas the handler consumed on the meter of the context it got
// (also when the handler panics, e.g. out of gas: the panic continues to safeHandle).
type trigRouter struct {
	baseapp.IMsgServiceRouter
	e *trigEnv
}

func (r trigRouter) Handler(msg sdk.Msg) baseapp.MsgServiceHandler {
	h := r.IMsgServiceRouter.Handler(msg)
	if h == nil {
		return nil
	}
	return func(ctx sdk.Context, m sdk.Msg) (*sdk.Result, error) {
		gm := ctx.GasMeter()
		before := gm.GasConsumed()
		defer func() {
			if r.e.gasLog != nil {
				*r.e.gasLog = append(*r.e.gasLog, fmt.Sprintf("G %d", gm.GasConsumed()-before))
			}
		}()
		return h(ctx, m)
	}
}

var (
	trigOnce sync.Once
	trigE    *trigEnv
)

func trigSetup(t *testing.T) *trigEnv {
	trigOnce.Do(func() {
		a, ctx := NewApp(t)
		e := &trigEnv{t: t, app: a, addr: map[string]sdk.AccAddress{}, name: map[string]string{}}
		for _, n := range trigNames {
			e.account(ctx, n)
		}
		e.base = ctx
		// the same keeper the app builds (app.go: NewKeeper(appCodec, keys[trigger], MsgServiceRouter())),
		// on the same store, with the router's handlers wrapped for gas observation
		k := triggerkeeper.NewKeeper(a.AppCodec(), a.GetKey(triggertypes.StoreKey), trigRouter{a.MsgServiceRouter(), e})
		e.srv = triggerkeeper.NewMsgServerImpl(k)
		e.bsrv = bankkeeper.NewMsgServerImpl(a.BankKeeper)
		e.mod = triggermodule.NewAppModule(a.AppCodec(), k, a.AccountKeeper, a.BankKeeper)
		trigE = e
	})
	trigE.t = t
	return trigE
}

func (e *trigEnv) account(ctx sdk.Context, n string) sdk.AccAddress {
	if ad, ok := e.addr[n]; ok {
		return ad
	}
	ad := sdk.AccAddress([]byte("verif_trig_account_" + n))
	e.addr[n] = ad
	e.name[ad.String()] = n
	acc := e.app.AccountKeeper.NewAccountWithAddress(ctx, ad)
	_ = acc.SetSequence(7)
	e.app.AccountKeeper.SetAccount(ctx, acc)
	return ad
}

// bech returns the bech32 string the op's symbolic address stands for ("bad" is malformed).
func (e *trigEnv) bech(n string) string {
	if n == "bad" || n == "" {
		return "notanaddress"
	}
	if ad, ok := e.addr[n]; ok {
		return ad.String()
	}
	return e.account(e.ctx, n).String()
}

// val maps an attribute value: a symbolic account name stands for its bech32 address.
func (e *trigEnv) val(v string) string {
	if _, ok := e.addr[v]; ok {
		return e.addr[v].String()
	}
	return v
}

func (e *trigEnv) sym(v string) string {
	if n, ok := e.name[v]; ok {
		return n
	}
	return v
}

func (e *trigEnv) newHistory() {
	ctx, _ := e.base.CacheContext()
	e.ctx = ctx.WithBlockHeight(0).WithBlockTime(time.Unix(0, 0).UTC()).
		WithGasMeter(storetypes.NewInfiniteGasMeter()).WithBlockGasMeter(storetypes.NewInfiniteGasMeter())
	e.events = nil
}

// trigTry runs f on a cached context written only on success; a panic is classified.
func trigTry(ctx sdk.Context, f func(ctx sdk.Context) error) (err error, panicked string) {
	cctx, write := ctx.CacheContext()
	func() {
		defer func() {
			if r := recover(); r != nil {
				if _, ok := r.(storetypes.ErrorOutOfGas); ok {
					panicked = "oog"
				} else {
					panicked = "panic"
				}
			}
		}()
		err = f(cctx)
	}()
	if err == nil && panicked == "" {
		write()
	}
	return err, panicked
}

// trigParseTime reads `<unix seconds>[.<fraction, up to 9 digits>]`.
func trigParseTime(s string) (time.Time, error) {
	p := strings.SplitN(s, ".", 2)
	sec, err := strconv.ParseInt(p[0], 10, 64)
	if err != nil {
		return time.Time{}, err
	}
	var ns int64
	if len(p) == 2 {
		if len(p[1]) == 0 || len(p[1]) > 9 {
			return time.Time{}, fmt.Errorf("bad time %q", s)
		}
		ns, err = strconv.ParseInt(p[1]+strings.Repeat("0", 9-len(p[1])), 10, 64)
		if err != nil || ns < 0 {
			return time.Time{}, fmt.Errorf("bad time %q", s)
		}
	}
	return time.Unix(sec, ns).UTC(), nil
}

// trigTimeStr renders unix nanoseconds as `<sec>[.<9 digits>]`.
func trigTimeStr(ns int64) string {
	if ns%1e9 == 0 {
		return fmt.Sprint(ns / 1e9)
	}
	return fmt.Sprintf("%d.%09d", ns/1e9, ns%1e9)
}

func trigInt63n(r *RNG, n int64) int64 { return int64(r.U64() % uint64(n)) }

func trigUnesc(s string) string { return strings.ReplaceAll(s, "~", " ") }
func trigEsc(s string) string   { return strings.ReplaceAll(s, " ", "~") }

func trigKV(ws []string, k string) string {
	for _, w := range ws {
		if strings.HasPrefix(w, k+"=") {
			return w[len(k)+1:]
		}
	}
	return "-"
}

func trigSplit(s, sep string) []string {
	if s == "-" || s == "" {
		return nil
	}
	return strings.Split(s, sep)
}

func (e *trigEnv) parseAttrs(s string) (ks, vs []string) {
	for _, kv := range trigSplit(s, "&") {
		p := strings.SplitN(kv, "=", 2)
		v := ""
		if len(p) > 1 {
			v = p[1]
		}
		ks = append(ks, trigUnesc(p[0]))
		vs = append(vs, e.val(trigUnesc(v)))
	}
	return
}

func (e *trigEnv) parseEvent(s string) (triggertypes.TriggerEventI, error) {
	p := strings.Split(s, ":")
	switch {
	case len(p) == 2 && p[0] == "h":
		n, err := strconv.ParseUint(p[1], 10, 64)
		return &triggertypes.BlockHeightEvent{BlockHeight: n}, err
	case len(p) == 2 && p[0] == "t":
		tm, err := trigParseTime(p[1])
		return &triggertypes.BlockTimeEvent{Time: tm}, err
	case len(p) >= 2 && p[0] == "tx":
		ev := &triggertypes.TransactionEvent{Name: trigUnesc(p[1])}
		if len(p) > 2 {
			ks, vs := e.parseAttrs(strings.Join(p[2:], ":"))
			for i := range ks {
				ev.Attributes = append(ev.Attributes, triggertypes.Attribute{Name: ks[i], Value: vs[i]})
			}
		}
		return ev, nil
	}
	return nil, fmt.Errorf("bad event %q", s)
}

func (e *trigEnv) parseAction(s string) (sdk.Msg, error) {
	p := strings.Split(s, ":")
	switch {
	case len(p) == 4 && p[0] == "send":
		amt, err := strconv.ParseInt(p[3], 10, 64)
		if err != nil {
			return nil, err
		}
		return &banktypes.MsgSend{FromAddress: e.bech(p[1]), ToAddress: e.bech(p[2]),
			Amount: sdk.Coins{sdk.NewInt64Coin(trigDenom, amt)}}, nil
	case len(p) == 3 && p[0] == "kill":
		id, err := strconv.ParseUint(p[2], 10, 64)
		return &triggertypes.MsgDestroyTriggerRequest{Authority: e.bech(p[1]), Id: id}, err
	case len(p) == 1 && p[0] == "boom":
		// a create request without authorities: passes ValidateBasic (its only action needs no
		// signer) and its handler panics at msg.GetAuthorities()[0]
		return triggertypes.NewCreateTriggerRequest(nil, &triggertypes.BlockHeightEvent{BlockHeight: 1 << 40},
			[]sdk.Msg{&banktypes.MsgMultiSend{}})
	}
	return nil, fmt.Errorf("bad action %q", s)
}

func (e *trigEnv) abciStr(ev abci.Event) string {
	var as []string
	for _, a := range ev.Attributes {
		as = append(as, trigEsc(a.Key)+"="+trigEsc(e.sym(a.Value)))
	}
	return trigEsc(ev.Type) + "[" + strings.Join(as, "&") + "]"
}

func trigErrClass(err error) string {
	switch {
	case errors.Is(err, triggertypes.ErrTriggerNotFound):
		return "err:notfound"
	case errors.Is(err, triggertypes.ErrInvalidTriggerAuthority):
		return "err:perm"
	case errors.Is(err, triggertypes.ErrInvalidBlockHeight), errors.Is(err, triggertypes.ErrInvalidBlockTime):
		return "err:event"
	case strings.Contains(err.Error(), "is not a signer of the request message"):
		return "err:signer"
	case strings.Contains(err.Error(), "insufficient funds"):
		return "err:funds"
	default:
		return "err:invalid"
	}
}

// ---- log capture: the keeper's own account of every action ---------------------------------

type trigLogger struct{ lines *[]string }

func (l trigLogger) Info(msg string, kv ...any)  {}
func (l trigLogger) Warn(msg string, kv ...any)  {}
func (l trigLogger) Debug(msg string, kv ...any) { *l.lines = append(*l.lines, "D "+msg) }
func (l trigLogger) Error(msg string, kv ...any) {
	*l.lines = append(*l.lines, "E "+msg+" "+fmt.Sprint(kv...))
}
func (l trigLogger) With(kv ...any) log.Logger { return l }
func (l trigLogger) Impl() any                 { return nil }

var (
	trigReProcessing = regexp.MustCompile(`^D Processing trigger (\d+) with gas limit (\d+)`)
	trigReOK         = regexp.MustCompile(`^D Successfully executed \S+ at position (\d+)`)
	trigReErr        = regexp.MustCompile(`^E HandleMsgs .*at position (\d+): (.*)`)
)

type trigRun struct {
	id, gas uint64
	outs    []string
	used    []string // gas consumed by each handler call, in order (from the wrapped router)
}

func trigParseLogs(lines []string) []trigRun {
	var runs []trigRun
	for _, l := range lines {
		if m := trigReProcessing.FindStringSubmatch(l); m != nil {
			id, _ := strconv.ParseUint(m[1], 10, 64)
			g, _ := strconv.ParseUint(m[2], 10, 64)
			runs = append(runs, trigRun{id: id, gas: g})
			continue
		}
		if len(runs) == 0 {
			continue
		}
		if strings.HasPrefix(l, "D Exceeded MaximumQueueGas") {
			runs = runs[:len(runs)-1] // announced, then skipped by the gas cap
			continue
		}
		r := &runs[len(runs)-1]
		if strings.HasPrefix(l, "G ") {
			r.used = append(r.used, l[2:])
			continue
		}
		if trigReOK.MatchString(l) {
			r.outs = append(r.outs, "ok")
		} else if m := trigReErr.FindStringSubmatch(l); m != nil {
			switch {
			case strings.HasPrefix(m[2], "gas ") && strings.Contains(m[2], "exceeded limit"):
				r.outs = append(r.outs, "oog")
			case strings.HasPrefix(m[2], "panic (recovered)"):
				r.outs = append(r.outs, "panic")
			default:
				r.outs = append(r.outs, "err")
			}
		} else if strings.HasPrefix(l, "E ") {
			r.outs = append(r.outs, "err") // GetMsgs failure or anything else logged as an error
		}
	}
	return runs
}

func trigAttr(ev abci.Event, k string) string {
	for _, a := range ev.Attributes {
		if a.Key == k {
			return strings.Trim(a.Value, `"`)
		}
	}
	return ""
}

// ---- state dump ------------------------------------------------------------------------------

func (e *trigEnv) balStr() string {
	var ps []string
	for _, n := range trigNames {
		ps = append(ps, n+":"+e.app.BankKeeper.GetBalance(e.ctx, e.addr[n], trigDenom).Amount.String())
	}
	return strings.Join(ps, ",")
}

func (e *trigEnv) regIDs() string {
	ts, _ := e.app.TriggerKeeper.GetAllTriggers(e.ctx)
	var ps []string
	for _, t := range ts {
		ps = append(ps, fmt.Sprint(t.Id))
	}
	return JoinOr(ps, ",")
}

func (e *trigEnv) dump() string {
	k := e.app.TriggerKeeper
	ts, err := k.GetAllTriggers(e.ctx)
	if err != nil {
		return "dump-error"
	}
	var reg, lis, gas, q []string
	for _, t := range ts {
		reg = append(reg, fmt.Sprintf("%d:%s", t.Id, e.sym(t.Owner)))
	}
	lids := k.VerifEventListenerIDs(e.ctx)
	sort.Slice(lids, func(i, j int) bool { return lids[i] < lids[j] })
	for _, id := range lids {
		lis = append(lis, fmt.Sprint(id))
	}
	gls, _ := k.GetAllGasLimits(e.ctx)
	for _, g := range gls {
		gas = append(gas, fmt.Sprintf("%d:%d", g.TriggerId, g.Amount))
	}
	items, _ := k.GetAllQueueItems(e.ctx)
	idxs := k.VerifQueueIndexes(e.ctx)
	for i, it := range items {
		idx := uint64(0)
		if i < len(idxs) {
			idx = idxs[i]
		}
		q = append(q, fmt.Sprintf("%d.%d.%d", idx, it.Trigger.Id, it.BlockHeight))
	}
	return fmt.Sprintf("next=%d reg=%s lis=%s gas=%s q=%d:%d:%s bal=%s", k.VerifNextTriggerID(e.ctx),
		JoinOr(reg, ","), JoinOr(lis, ","), JoinOr(gas, ","),
		k.VerifQueueStartIndex(e.ctx), k.VerifQueueLength(e.ctx), JoinOr(q, ","), e.balStr())
}

// ---- executing one op line ---------------------------------------------------------------------

// exec runs one op on the real code and returns the op line to record (the `begin` op's
// `oog=` field is the observation of this run) and the canonical implementation output.
func (e *trigEnv) exec(op string) (string, string) {
	ws := strings.Fields(op)
	if len(ws) == 0 {
		return op, "bad-op"
	}
	switch ws[0] {
	case "dump":
		return op, e.dump()
	case "fund":
		if len(ws) != 3 {
			return op, "bad-op"
		}
		amt, err := strconv.ParseInt(ws[2], 10, 64)
		if err != nil {
			return op, "bad-op"
		}
		to := e.account(e.ctx, ws[1])
		coins := sdk.NewCoins(sdk.NewInt64Coin(trigDenom, amt))
		if !coins.IsZero() {
			if err := e.app.BankKeeper.MintCoins(e.ctx, "mint", coins); err != nil {
				e.t.Fatalf("mint: %v", err)
			}
			if err := e.app.BankKeeper.SendCoinsFromModuleToAccount(e.ctx, "mint", to, coins); err != nil {
				e.t.Fatalf("fund: %v", err)
			}
		}
		return op, "ok"
	case "pay":
		if len(ws) != 4 {
			return op, "bad-op"
		}
		m, err := e.parseAction("send:" + ws[1] + ":" + ws[2] + ":" + ws[3])
		if err != nil {
			return op, "bad-op"
		}
		em := sdk.NewEventManager()
		err, p := trigTry(e.ctx, func(ctx sdk.Context) error {
			_, err := e.bsrv.Send(ctx.WithEventManager(em), m.(*banktypes.MsgSend))
			return err
		})
		if p != "" {
			return op, "err:" + p
		}
		if err != nil {
			return op, trigErrClass(err)
		}
		evs := em.ABCIEvents()
		e.events = append(e.events, evs...)
		var ss []string
		for _, ev := range evs {
			ss = append(ss, e.abciStr(ev))
		}
		return op, "ok " + strings.Join(ss, ";")
	case "emit":
		if len(ws) != 2 {
			return op, "bad-op"
		}
		p := strings.SplitN(ws[1], ":", 2)
		ev := abci.Event{Type: trigUnesc(p[0])}
		if len(p) > 1 {
			ks, vs := e.parseAttrs(p[1])
			for i := range ks {
				ev.Attributes = append(ev.Attributes, abci.EventAttribute{Key: ks[i], Value: vs[i]})
			}
		}
		e.events = append(e.events, ev)
		return op, "ok"
	case "create":
		return op, e.create(ws[1:])
	case "destroy":
		if len(ws) != 3 {
			return op, "bad-op"
		}
		id, err := strconv.ParseUint(ws[2], 10, 64)
		if err != nil {
			return op, "bad-op"
		}
		msg := &triggertypes.MsgDestroyTriggerRequest{Authority: e.bech(ws[1]), Id: id}
		if err := msg.ValidateBasic(); err != nil {
			return op, "err:invalid"
		}
		err, p := trigTry(e.ctx, func(ctx sdk.Context) error {
			_, err := e.srv.DestroyTrigger(ctx.WithEventManager(sdk.NewEventManager()), msg)
			return err
		})
		if p != "" {
			return op, "err:" + p
		}
		if err != nil {
			return op, trigErrClass(err)
		}
		return op, "ok"
	case "begin":
		return e.begin(ws[1:])
	case "end":
		em := sdk.NewEventManagerWithHistory(append([]abci.Event{}, e.events...))
		err, p := trigTry(e.ctx, func(ctx sdk.Context) error { return e.mod.EndBlock(ctx.WithEventManager(em)) })
		if p != "" || err != nil {
			return op, "panic"
		}
		var det []string
		for _, ev := range em.ABCIEvents() {
			if ev.Type == "provenance.trigger.v1.EventTriggerDetected" {
				det = append(det, trigAttr(ev, "trigger_id"))
			}
		}
		return op, "ok det=" + JoinOr(det, ",")
	}
	return op, "bad-op"
}

func (e *trigEnv) create(ws []string) string {
	var auths []string
	for _, a := range trigSplit(trigKV(ws, "auth"), "+") {
		auths = append(auths, e.bech(a))
	}
	ev, err := e.parseEvent(trigKV(ws, "ev"))
	if err != nil {
		return "bad-op"
	}
	var msgs []sdk.Msg
	for _, a := range trigSplit(trigKV(ws, "acts"), "|") {
		m, err := e.parseAction(a)
		if err != nil {
			return "bad-op"
		}
		msgs = append(msgs, m)
	}
	remS := trigKV(ws, "rem")
	rem, err := strconv.ParseUint(remS, 10, 64)
	if err != nil {
		return "bad-op"
	}
	msg, err := triggertypes.NewCreateTriggerRequest(auths, ev, msgs)
	if err != nil {
		return "err:invalid"
	}
	// what baseapp (validateBasicTxMsgs) and the message router do before the handler runs
	if err := msg.ValidateBasic(); err != nil {
		return trigErrClass(err)
	}
	call := func(ctx sdk.Context, gm storetypes.GasMeter, id *uint64) (error, string) {
		return trigTry(ctx, func(ctx sdk.Context) error {
			r, err := e.srv.CreateTrigger(ctx.WithGasMeter(gm).WithEventManager(sdk.NewEventManager()), msg)
			if err == nil {
				*id = r.Id
			}
			return err
		})
	}
	var gm storetypes.GasMeter
	if remS == trigInfRem {
		gm = storetypes.NewInfiniteGasMeter()
	} else {
		// measure the gas the handler uses before RegisterTrigger reads GasRemaining(): a dry run on
		// a throw-away context with an infinite meter consumes cpre + SetGasLimitCost + MaximumTriggerGas
		var cpre uint64
		dry, _ := e.ctx.CacheContext()
		dgm := storetypes.NewInfiniteGasMeter()
		var did uint64
		if derr, dp := call(dry, dgm, &did); derr == nil && dp == "" {
			cpre = dgm.GasConsumed() - triggerkeeper.SetGasLimitCost - triggerkeeper.MaximumTriggerGas
		}
		gm = storetypes.NewGasMeter(cpre + rem)
	}
	var id uint64
	err, p := call(e.ctx, gm, &id)
	if p != "" {
		return "err:" + p
	}
	if err != nil {
		return trigErrClass(err)
	}
	return fmt.Sprintf("ok id=%d gas=%d", id, e.app.TriggerKeeper.GetGasLimit(e.ctx, id))
}

func (e *trigEnv) begin(ws []string) (string, string) {
	h, err1 := strconv.ParseInt(trigKV(ws, "h"), 10, 64)
	tm, err2 := trigParseTime(trigKV(ws, "t"))
	if err1 != nil || err2 != nil {
		return "begin " + strings.Join(ws, " "), "bad-op"
	}
	e.ctx = e.ctx.WithBlockHeight(h).WithBlockTime(tm)
	e.events = nil
	var lines []string
	em := sdk.NewEventManager()
	e.gasLog = &lines
	err, p := trigTry(e.ctx, func(ctx sdk.Context) error {
		return e.mod.BeginBlock(ctx.WithEventManager(em).WithLogger(trigLogger{&lines}))
	})
	e.gasLog = nil
	opOut := func(used []string) string {
		return fmt.Sprintf("begin h=%d t=%s used=%s", h, trigKV(ws, "t"), JoinOr(used, ","))
	}
	if p != "" || err != nil {
		return opOut(nil), "panic"
	}
	runs := trigParseLogs(lines)
	var used, exec []string
	i := 0
	consistent := true
	for _, ev := range em.ABCIEvents() {
		if ev.Type != "provenance.trigger.v1.EventTriggerExecuted" {
			continue
		}
		id := trigAttr(ev, "trigger_id")
		succ := "0"
		if trigAttr(ev, "success") == "true" {
			succ = "1"
		}
		gas, outs := "?", "?"
		if i < len(runs) && fmt.Sprint(runs[i].id) == id {
			gas = fmt.Sprint(runs[i].gas)
			outs = strings.Join(runs[i].outs, ".")
			for pos, u := range runs[i].used {
				used = append(used, fmt.Sprintf("%s.%d:%s", id, pos, u))
			}
		} else {
			consistent = false
		}
		i++
		exec = append(exec, fmt.Sprintf("%s:%s:%s:%s", id, gas, succ, outs))
	}
	if i != len(runs) {
		consistent = false
	}
	res := fmt.Sprintf("ok exec=%s bal=%s reg=%s", JoinOr(exec, ","), e.balStr(), e.regIDs())
	if !consistent {
		res += " logs-disagree-with-events"
	}
	return opOut(used), res
}

// ---- generator -----------------------------------------------------------------------------

// trigCostEst: the generator's running estimate of what one successful action of a kind
// ("send", "kill") consumes, learnt from the `used=` observations of earlier blocks; used only to
// aim gas limits at the interesting region (between the dearest single action and all of them).
var trigCostEst = map[string]uint64{}

type trigGen struct {
	rng     *RNG
	height  int64
	time    int64 // unix nanoseconds of the current block
	fast    bool  // sub-second block intervals
	acts    map[int][]string
	nextID  int // ids handed out so far + 1 (guess; only used to aim destroy/kill)
	owners  map[int]string
	bursts  int
	poisons int
	txWait  map[int]string // accepted transaction-event triggers believed waiting: id -> `name[:k=v&k=v]`
	aimed   []trigAimed    // this block's events built from a waiting trigger's request
}

// trigAimed: one synthetic event of the current block aimed at trigger `id`; `full` = it carries every
// requested attribute under the trigger's own spelling of the type.
type trigAimed struct {
	id   int
	mode string
	full bool
}

func (g *trigGen) name() string { return Pick(g.rng, trigNames) }

func (g *trigGen) event() string {
	r := g.rng
	switch k := r.Intn(100); {
	case k < 38:
		switch x := r.Intn(20); {
		case x < 2:
			return fmt.Sprintf("h:%d", g.height-int64(r.Intn(3))) // already passed
		case x < 3:
			return fmt.Sprintf("h:%d", g.height+int64(20+r.Intn(1000)))
		case x < 5:
			// heights in the upper half of the uint64 range (never reached; a signed comparison would see them as past)
			return "h:" + Pick(r, []string{"9223372036854775807", "9223372036854775808", "9223372036854775809",
				"18446744073709551615", "18446744073709551614", "13835058055282163712"})
		default:
			return fmt.Sprintf("h:%d", g.height+1+int64(r.Intn(4)))
		}
	case k < 60:
		return g.timeEvent()
	default:
		names := []string{"transfer", "transfer", "transfer", "coin_received", "coin_spent", "message", "ping", "ping",
			"Transfer", "~transfer", "PING~"}
		n := Pick(r, names)
		if r.Intn(1000) < 7 {
			// a transaction event named like a block-event bucket (see observations/C17.md)
			n = Pick(r, []string{"block-height", "Block-Time~", "block-time"})
		}
		var attrs []string
		na := r.Intn(3)
		if r.Chance(40) {
			na = 2 + r.Intn(3) // several requested attributes
		}
		for i := 0; i < na; i++ {
			switch strings.ToLower(strings.Trim(n, "~")) {
			case "transfer":
				attrs = append(attrs, Pick(r, []string{"recipient=" + g.name(), "sender=" + g.name(), "amount=", "recipient=",
					fmt.Sprintf("amount=%dvcoin", 1+r.Intn(6)), "memo="}))
			case "coin_received":
				attrs = append(attrs, Pick(r, []string{"receiver=" + g.name(), "amount=", "receiver="}))
			case "coin_spent":
				attrs = append(attrs, Pick(r, []string{"spender=" + g.name(), "amount="}))
			case "message":
				attrs = append(attrs, Pick(r, []string{"sender=" + g.name(), "sender=", "action=x"}))
			default:
				attrs = append(attrs, Pick(r, []string{"k=1", "k=2", "k=", "j=1", "k=a~b", "j=", "m=", "m=x", "n=2"}))
			}
		}
		if r.Chance(2) {
			attrs = append(attrs, "~=x") // blank attribute name: rejected by Validate
		}
		if len(attrs) == 0 {
			return "tx:" + n
		}
		return "tx:" + n + ":" + strings.Join(attrs, "&")
	}
}

var trigAttrVals = []string{"1", "2", "3", "x", "a~b", "A", "B", "C", "3vcoin", "5vcoin"}

// aimedEmit builds a synthetic event from the request of a transaction-event trigger believed to
// be waiting: `type:k=v&k=v` ("" when there is none).  The event carries the complete requested
// attribute set or a partial one; attribute keys may repeat (the same attribute twice, or one key
// with several values), requested attributes may be missing or carry another value.  Nothing here
// decides whether the trigger may fire: the checker evaluates the documented condition on the
// events of the block.
func (g *trigGen) aimedEmit() string {
	r := g.rng
	var ids []int
	for id := range g.txWait {
		ids = append(ids, id)
	}
	if len(ids) == 0 {
		return ""
	}
	sort.Ints(ids)
	id := ids[len(ids)-1-r.Intn(minInt(len(ids), 5))]
	p := strings.SplitN(g.txWait[id], ":", 2)
	name := p[0]
	var req []string
	if len(p) > 1 {
		req = strings.Split(p[1], "&")
	}
	// sat: an event attribute satisfying the requested one; wrong: its key with another value
	sat := func(q string) string {
		k, v, _ := strings.Cut(q, "=")
		if v == "" {
			v = Pick(r, trigAttrVals)
		}
		return k + "=" + v
	}
	wrong := func(q string) string {
		k, v, _ := strings.Cut(q, "=")
		for {
			if w := Pick(r, trigAttrVals); w != v {
				return k + "=" + w
			}
		}
	}
	var as []string
	mode, full := "", false
	switch k := r.Intn(100); {
	case k < 28 || len(req) == 0:
		mode, full = "complete", true
		for _, q := range req {
			as = append(as, sat(q))
		}
		if len(req) > 0 && r.Chance(45) {
			mode = "complete+repeats"
			for i, n := 0, 1+r.Intn(2); i < n; i++ {
				if q := Pick(r, req); r.Chance(60) {
					as = append(as, sat(q))
				} else {
					as = append(as, wrong(q))
				}
			}
		}
	case k < 78:
		// one requested attribute is missing (or has another value) …
		drop := r.Intn(len(req))
		for i, q := range req {
			switch {
			case i != drop:
				as = append(as, sat(q))
			case r.Chance(45):
				as = append(as, wrong(q))
			}
		}
		mode = "one-unsatisfied"
		// … while another requested attribute is carried several times
		if len(as) > 0 && k < 64 {
			mode = "one-unsatisfied+another-repeated"
			if len(req) > 1 {
				base := req[(drop+1+r.Intn(len(req)-1))%len(req)]
				for i, n := 0, 1+r.Intn(3); i < n; i++ {
					as = append(as, sat(base))
				}
			} else {
				as = append(as, wrong(req[drop]), as[0])
			}
		}
	case k < 88:
		// only one requested attribute, as often as the request is long (or once more)
		mode = "one-attribute-repeated"
		q := Pick(r, req)
		for i, n := 0, len(req)+r.Intn(2); i < n; i++ {
			as = append(as, sat(q))
		}
		full = len(req) == 1
	case k < 93:
		mode = "no-attributes"
	default:
		mode = "every-value-wrong"
		for _, q := range req {
			as = append(as, wrong(q))
		}
	}
	if r.Chance(30) {
		as = append(as, Pick(r, []string{"z=1", "extra=", "k=9", "amount=1vcoin"}))
	}
	if r.Chance(50) {
		for i := len(as) - 1; i > 0; i-- {
			j := r.Intn(i + 1)
			as[i], as[j] = as[j], as[i]
		}
	}
	if r.Chance(10) {
		// another spelling of the type: same listener bucket, not the requested event type
		mode += ":respelled"
		full = false
		if up := strings.ToUpper(name); up != name && r.Bool() {
			name = up
		} else {
			name += "~"
		}
	}
	g.aimed = append(g.aimed, trigAimed{id: id, mode: mode, full: full})
	if len(as) == 0 {
		return name
	}
	return name + ":" + strings.Join(as, "&")
}

// timeEvent: a block-time trigger.  Times are full timestamps: most have a sub-second part, many
// fall within a second or so of the current block time (same or next wall-clock second, before or
// after later blocks of that second), some sit on whole seconds, a few are already passed (or
// exactly now) or so far away that the nanosecond order wraps.
func (g *trigGen) timeEvent() string {
	r := g.rng
	const sec = int64(1e9)
	switch x := r.Intn(100); {
	case x < 4:
		return "t:" + trigTimeStr(g.time) // exactly now: not in the future
	case x < 10:
		return "t:" + trigTimeStr(g.time-int64(r.Intn(3))*sec-int64(r.Intn(2))*trigInt63n(r, sec))
	case x < 14:
		// beyond the year 2554 the uint64 nanosecond order wraps around
		return fmt.Sprintf("t:%d.%09d", 20000000000+int64(r.Intn(1000)), int64(r.Intn(2))*trigInt63n(r, sec))
	case x < 20:
		return "t:" + trigTimeStr(g.time+1+int64(r.Intn(3))) // a few nanoseconds ahead
	case x < 55:
		return "t:" + trigTimeStr(g.time+1+trigInt63n(r, sec+sec/4)) // within ~a second
	case x < 70:
		return "t:" + trigTimeStr((g.time/sec+1+int64(r.Intn(12)))*sec) // a whole second
	default:
		return "t:" + trigTimeStr(g.time+1+trigInt63n(r, 25*sec))
	}
}

// advance moves the block time on: sub-second intervals in `fast` histories, otherwise 1..12 s with
// (mostly) a sub-second part.
func (g *trigGen) advance() {
	r := g.rng
	const sec = int64(1e9)
	switch {
	case g.fast:
		g.time += 100e6 + trigInt63n(r, 1400e6)
	case r.Chance(15):
		g.time = (g.time/sec + 1 + int64(r.Intn(12))) * sec
	default:
		g.time += (1+int64(r.Intn(12)))*sec + trigInt63n(r, sec) - sec/2
	}
}

// learn updates the cost estimates from a `begin` op line and its result.
func (g *trigGen) learn(op, res string) {
	used := map[string]uint64{}
	for _, u := range trigSplit(trigKV(strings.Fields(op), "used"), ",") {
		if p := strings.Split(u, ":"); len(p) == 2 {
			n, _ := strconv.ParseUint(p[1], 10, 64)
			used[p[0]] = n
		}
	}
	for _, x := range trigSplit(trigKV(strings.Fields(res), "exec"), ",") {
		p := strings.Split(x, ":")
		if len(p) != 4 {
			continue
		}
		id, _ := strconv.Atoi(p[0])
		acts := g.acts[id]
		for pos, o := range strings.Split(p[3], ".") {
			if u, ok := used[fmt.Sprintf("%d.%d", id, pos)]; ok && o == "ok" && pos < len(acts) && u > 0 {
				trigCostEst[strings.SplitN(acts[pos], ":", 2)[0]] = u
			}
		}
	}
}

// aimedRem: a gas allowance for a trigger with these actions chosen around what they are expected
// to consume: between (a bit under) the dearest single action and (a bit over) all of them — so
// that actions which each fit the limit do not fit it together, or just do.  "" when unknown.
func (g *trigGen) aimedRem(acts string) string {
	r := g.rng
	var total, mx uint64
	for _, a := range trigSplit(acts, "|") {
		c, ok := trigCostEst[strings.SplitN(a, ":", 2)[0]]
		if !ok {
			if a == "boom" {
				continue
			}
			return ""
		}
		total += c
		if c > mx {
			mx = c
		}
	}
	if total == 0 {
		return ""
	}
	lo, hi := mx-mx/8, total+total/16
	if r.Chance(15) {
		lo = 0 // may not even cover one action
	}
	return fmt.Sprint(2510 + lo + uint64(trigInt63n(r, int64(hi-lo)+1)))
}

func (g *trigGen) actions(auths []string) string {
	r := g.rng
	n := 1
	if r.Chance(45) {
		n = 2 + r.Intn(2)
	}
	var as []string
	for i := 0; i < n; i++ {
		signer := "A"
		if len(auths) > 0 {
			signer = Pick(r, auths)
		}
		if r.Chance(6) {
			signer = g.name() // maybe not an authority
		}
		switch k := r.Intn(100); {
		case k < 74:
			amt := 1 + r.Intn(40)
			if r.Chance(18) {
				amt = 500 + r.Intn(3000) // likely more than the sender has
			}
			if r.Chance(2) {
				amt = 0
			}
			as = append(as, fmt.Sprintf("send:%s:%s:%d", signer, g.name(), amt))
		case k < 92:
			id := 1 + r.Intn(g.nextID+1)
			if r.Chance(70) {
				// aim at a trigger the signer created
				var own []int
				for i, o := range g.owners {
					if o == signer {
						own = append(own, i)
					}
				}
				sort.Ints(own)
				if len(own) > 0 {
					id = own[len(own)-1-r.Intn(minInt(len(own), 4))]
				}
			}
			if r.Chance(3) {
				id = 0
			}
			as = append(as, fmt.Sprintf("kill:%s:%d", signer, id))
		default:
			as = append(as, "boom")
		}
	}
	return strings.Join(as, "|")
}

func (g *trigGen) rem() string {
	r := g.rng
	switch k := r.Intn(100); {
	case k < 3:
		return trigInfRem
	case k < 8:
		return fmt.Sprint(r.Intn(2510)) // cannot even pay for the SetGasLimit write
	case k < 12:
		return fmt.Sprint(2510 + r.Intn(3)) // limit 0,1,2
	case k < 24:
		return fmt.Sprint(2510 + r.Intn(30000)) // small: actions likely run out of gas
	case k < 40:
		return fmt.Sprint(30000 + r.Intn(150000))
	case k < 75:
		return fmt.Sprint(200000 + r.Intn(500000))
	case k < 87:
		return fmt.Sprint(700000 + r.Intn(1300000))
	case k < 92:
		return fmt.Sprint(2002510 + r.Intn(3) - 1) // around the cap
	default:
		return fmt.Sprint(2002510 + r.Intn(5000000)) // capped at MaximumTriggerGas
	}
}

func (g *trigGen) create(ev string) string {
	r := g.rng
	var auths []string
	switch k := r.Intn(100); {
	case k < 75:
		auths = []string{g.name()}
	case k < 93:
		auths = []string{g.name(), g.name()}
	case k < 96:
		auths = []string{g.name(), "bad"}
	default:
		auths = nil
	}
	acts := g.actions(auths)
	if auths == nil && r.Chance(60) {
		acts = "boom"
	}
	if r.Chance(2) {
		acts = "-"
	}
	rem := g.rem()
	if n := len(trigSplit(acts, "|")); (n >= 2 && r.Chance(45)) || (n == 1 && r.Chance(8)) {
		if a := g.aimedRem(acts); a != "" {
			rem = a
		}
	}
	return fmt.Sprintf("create auth=%s ev=%s acts=%s rem=%s", JoinOr(auths, "+"), ev, acts, rem)
}

func driveTrig(t *testing.T, rng *RNG, n int, out *Out) {
	e := trigSetup(t)
	for hi := 0; hi < n; hi++ {
		e.newHistory()
		out.Comment(fmt.Sprintf("history %d", hi))
		g := &trigGen{rng: rng, height: int64(10 + rng.Intn(50)), time: int64(1700000000+rng.Intn(100000)) * 1e9, nextID: 1,
			owners: map[int]string{}, acts: map[int][]string{}, fast: rng.Chance(35), txWait: map[int]string{}}
		if rng.Chance(80) {
			g.time += trigInt63n(rng, 1e9)
		}
		emit := func(op string) string {
			op2, r := e.exec(op)
			kind := strings.Fields(op)[0]
			out.Count("op:" + kind)
			w := strings.Fields(r)
			if kind != "dump" && len(w) > 0 {
				out.Count(kind + ":" + w[0])
			}
			out.Emit(op2, r)
			return r
		}
		for _, nme := range trigNames {
			amt := 0
			if !rng.Chance(12) {
				amt = 100 + rng.Intn(3000)
			}
			emit(fmt.Sprintf("fund %s %d", nme, amt))
		}
		blocks := 6 + rng.Intn(10)
		for b := 0; b < blocks; b++ {
			g.height += 1 + int64(rng.Intn(2))
			if rng.Chance(8) {
				g.height += int64(rng.Intn(6))
			}
			g.advance()
			beginOp := fmt.Sprintf("begin h=%d t=%s used=-", g.height, trigTimeStr(g.time))
			op2, r := e.exec(beginOp)
			out.Count("op:begin")
			if w := strings.Fields(r); len(w) > 0 {
				out.Count("begin:" + w[0])
			}
			out.Emit(op2, r)
			g.learn(op2, r)
			g.countGas(out, op2, r)
			// distribution of what the block function did
			for _, w := range strings.Fields(r) {
				if strings.HasPrefix(w, "exec=") && w != "exec=-" {
					xs := strings.Split(w[5:], ",")
					out.Count(fmt.Sprintf("begin:executed=%d", len(xs)))
					for _, x := range xs {
						p := strings.Split(x, ":")
						if len(p) == 4 {
							outs := strings.Split(p[3], ".")
							out.Count("exec:success=" + p[2] + ":last=" + outs[len(outs)-1])
							if len(outs) > 1 && p[2] == "0" {
								out.Count("exec:failed-after-a-successful-action")
							}
						}
					}
				}
			}
			d := emit("dump")
			if qf := trigKV(strings.Fields(d), "q"); strings.HasPrefix(r, "ok") && !strings.HasSuffix(qf, ":-") {
				nx := 0
				if x := trigKV(strings.Fields(r), "exec"); x != "-" {
					nx = len(strings.Split(x, ","))
				}
				if nx >= 5 {
					out.Count("begin:stopped-by-action-cap-with-more-queued")
				} else {
					out.Count("begin:stopped-by-gas-cap-with-more-queued")
				}
			}
			g.aimed = nil
			ntx := rng.Intn(5)
			burst := rng.Chance(22)
			if burst {
				ntx = 5 + rng.Intn(5)
			}
			burstEv := fmt.Sprintf("h:%d", g.height+1)
			if rng.Chance(30) {
				burstEv = "t:" + trigTimeStr(g.time+1+trigInt63n(rng, 1500e6))
			}
			for x := 0; x < ntx; x++ {
				k := rng.Intn(100)
				if burst && x < ntx-1 {
					k = 0
				}
				switch {
				case k < 45:
					ev := g.event()
					if burst && rng.Chance(80) {
						ev = burstEv
					}
					op := g.create(ev)
					r := emit(op)
					if strings.HasPrefix(r, "ok id=") {
						var id int
						fmt.Sscanf(r, "ok id=%d", &id)
						g.nextID = id + 1
						g.owners[id] = strings.Split(trigKV(strings.Fields(op), "auth"), "+")[0]
						g.acts[id] = trigSplit(trigKV(strings.Fields(op), "acts"), "|")
						if strings.Contains(op, "ev=t:") {
							g.countTime(out, trigKV(strings.Fields(op), "ev")[2:])
						}
						if strings.Contains(op, "ev=tx:") {
							out.Count("create:ok:tx")
							spec := trigKV(strings.Fields(op), "ev")[3:]
							g.txWait[id] = spec
							na := 0
							if q := strings.SplitN(spec, ":", 2); len(q) > 1 {
								na = len(strings.Split(q[1], "&"))
							}
							out.Count(fmt.Sprintf("create:ok:tx:requested-attributes=%d", na))
						} else if strings.Contains(op, "ev=h:") {
							out.Count("create:ok:height")
						} else {
							out.Count("create:ok:time")
						}
					}
				case k < 60:
					id := 1 + rng.Intn(g.nextID)
					who := g.name()
					if o, ok := g.owners[id]; ok && rng.Chance(65) {
						who = o
					}
					if rng.Chance(3) {
						who = "bad"
					}
					if rng.Chance(2) {
						id = 0
					}
					if r := emit(fmt.Sprintf("destroy %s %d", who, id)); r == "ok" {
						delete(g.txWait, id)
					}
				case k < 78:
					amt := 1 + rng.Intn(6)
					if rng.Chance(10) {
						amt = 2000 + rng.Intn(2000)
					}
					emit(fmt.Sprintf("pay %s %s %d", g.name(), g.name(), amt))
				default:
					evs := []string{"ping:k=1", "ping:k=2", "ping:j=1&k=2", "ping:k=a~b", "ping", "PING~:k=1", "Transfer:recipient=" + g.name(),
						"transfer:recipient=" + g.name() + "&sender=" + g.name() + "&amount=3vcoin", "message:sender=" + g.name(), "other:k=1",
						"ping:k=1&k=1", "ping:k=1&k=2&j=1", "ping:j=1&j=1&m=x", "ping:k=2&m=x&n=2&j=1",
						"transfer:recipient=" + g.name() + "&recipient=" + g.name() + "&amount=3vcoin", "message:sender=" + g.name() + "&sender=" + g.name()}
					ev := Pick(rng, evs)
					if rng.Chance(65) {
						if a := g.aimedEmit(); a != "" {
							ev = a
							out.Count("emit:built-from-a-waiting-request:" + g.aimed[len(g.aimed)-1].mode)
						}
					}
					if trigRepeatsKey(ev) {
						out.Count("emit:event-repeats-an-attribute-key")
					}
					emit("emit " + ev)
				}
				if rng.Chance(25) {
					emit("dump")
				}
			}
			r = emit("end")
			if strings.HasPrefix(r, "ok det=") && r != "ok det=-" {
				out.Count(fmt.Sprintf("end:detected=%d", len(strings.Split(r[7:], ","))))
			}
			if strings.HasPrefix(r, "ok det=") {
				det := map[int]bool{}
				for _, d := range trigSplit(r[7:], ",") {
					id, _ := strconv.Atoi(d)
					det[id] = true
					delete(g.txWait, id)
				}
				for _, a := range g.aimed {
					kind, res := "partial-or-respelled-event", "not-detected"
					if a.full {
						kind = "complete-event"
					}
					if det[a.id] {
						res = "detected"
					}
					out.Count("end:trigger-aimed-at-by-" + kind + ":" + res)
				}
			}
			emit("dump")
		}
	}
}

// trigRepeatsKey: does the `type:k=v&k=v` event carry one attribute key more than once?
func trigRepeatsKey(ev string) bool {
	p := strings.SplitN(ev, ":", 2)
	if len(p) < 2 {
		return false
	}
	seen := map[string]bool{}
	for _, kv := range strings.Split(p[1], "&") {
		k, _, _ := strings.Cut(kv, "=")
		if seen[k] {
			return true
		}
		seen[k] = true
	}
	return false
}

// countTime: input distribution of accepted time triggers relative to the creating block's time.
func (g *trigGen) countTime(out *Out, ts string) {
	tm, err := trigParseTime(ts)
	if err != nil {
		return
	}
	if tm.Nanosecond() != 0 {
		out.Count("create:ok:time:sub-second")
	}
	if tm.Unix() == g.time/1e9 {
		out.Count("create:ok:time:same-second-as-creating-block")
	}
}

// countGas: input distribution of executed multi-action triggers by how their actions' observed gas
// relates to the limit.
func (g *trigGen) countGas(out *Out, op, res string) {
	used := map[string]uint64{}
	for _, u := range trigSplit(trigKV(strings.Fields(op), "used"), ",") {
		if p := strings.Split(u, ":"); len(p) == 2 {
			n, _ := strconv.ParseUint(p[1], 10, 64)
			used[p[0]] = n
		}
	}
	for _, x := range trigSplit(trigKV(strings.Fields(res), "exec"), ",") {
		p := strings.Split(x, ":")
		if len(p) != 4 {
			continue
		}
		limit, _ := strconv.ParseUint(p[1], 10, 64)
		outs := strings.Split(p[3], ".")
		if len(outs) < 2 {
			continue
		}
		var sum, mx uint64
		for pos := range outs {
			u := used[fmt.Sprintf("%s.%d", p[0], pos)]
			sum += u
			if u > mx {
				mx = u
			}
		}
		switch {
		case outs[len(outs)-1] == "oog" && mx <= limit:
			out.Count("gas:multi-action:each-fits-alone-but-not-together")
		case outs[len(outs)-1] == "oog":
			out.Count("gas:multi-action:oog-after-a-successful-action")
		case sum <= limit && sum+sum/4 > limit:
			out.Count("gas:multi-action:just-fits")
		}
	}
}

func replayTrig(t *testing.T, ops []string, out *Out) {
	e := trigSetup(t)
	e.newHistory()
	for _, op := range ops {
		if strings.HasPrefix(op, "#") {
			if strings.HasPrefix(op, "# history") {
				e.newHistory()
			}
			out.Comment(strings.TrimPrefix(op, "# "))
			continue
		}
		op2, r := e.exec(op)
		out.Emit(op2, r)
	}
}

// TestTrigPoisonFinalizeBlock is a stand-alone confirmation (not part of the stream) that the
// EndBlocker panic caused by a transaction-event trigger named like a block-event bucket is not
// caught anywhere above the module: the application's FinalizeBlock itself panics.
func TestTrigPoisonFinalizeBlock(t *testing.T) {
	a := app.Setup(t)
	ctx := a.BaseApp.NewUncachedContext(false, cmtHeader(1)) // writes go to the root store, committed below
	owner := sdk.AccAddress([]byte("verif_trig_account_P"))
	msg, err := triggertypes.NewCreateTriggerRequest([]string{owner.String()},
		&triggertypes.TransactionEvent{Name: "block-height"},
		[]sdk.Msg{&banktypes.MsgSend{FromAddress: owner.String(), ToAddress: owner.String(), Amount: sdk.NewCoins(sdk.NewInt64Coin("vcoin", 1))}})
	if err != nil {
		t.Fatal(err)
	}
	if err := msg.ValidateBasic(); err != nil {
		t.Fatalf("ValidateBasic rejects the message: %v", err)
	}
	if _, err := triggerkeeper.NewMsgServerImpl(a.TriggerKeeper).CreateTrigger(ctx.WithGasMeter(storetypes.NewGasMeter(500000)), msg); err != nil {
		t.Fatal(err)
	}
	if _, err := a.Commit(); err != nil {
		t.Fatal(err)
	}
	{
		ts, _ := a.TriggerKeeper.GetAllTriggers(a.BaseApp.NewUncachedContext(false, cmtHeader(a.LastBlockHeight())))
		t.Logf("after commit: height %d, %d registered trigger(s)", a.LastBlockHeight(), len(ts))
	}
	res := Guard(func() string {
		_, err := a.FinalizeBlock(&abci.RequestFinalizeBlock{Height: a.LastBlockHeight() + 1, Hash: a.LastCommitID().Hash})
		return fmt.Sprint("returned err=", err)
	})
	t.Logf("FinalizeBlock with a registered TransactionEvent{Name: \"block-height\"} trigger: %s", res)
	if !strings.HasPrefix(res, "panic:") && !strings.Contains(res, "err=") {
		t.Fatalf("expected a failure, got %s", res)
	}
}

func cmtHeader(h int64) cmtproto.Header { return cmtproto.Header{ChainID: ChainID, Height: h} }
