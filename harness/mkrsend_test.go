package harness

// C04 — correspondence driver for the marker send restriction (`mkrsend`).
//
// Every `send` line is one configuration of the decision procedure, built on a REAL app:
// markers are persisted through MarkerKeeper.AddMarkerAccount (type, status, access grants,
// required attributes normalised by the real NormalizeRequiredAttributes), deny-list entries
// through AddSendDeny, receiver attributes through NameKeeper.SetNameRecord +
// AttributeKeeper.SetAttribute, context flags through markertypes.WithBypass /
// WithTransferAgents and the internal fee-grant flag; then the real
// MarkerKeeper.SendRestrictionFn is called and its error mapped to a class by the table
// below.  `bank` lines run the same movement through the real BankKeeper.SendCoins /
// InputOutputCoinsProv (and DelegateCoinsFromAccountToModule when the receiver is a staking pool)
// and report whether balances moved.  `bankx` lines drive the real BankKeeper with everything the app
// composes around the marker restriction: one-to-many / many-to-one InputOutputCoinsProv, DelegateCoins,
// part of the sender's balance on hold (HoldKeeper.AddHold), sanctioned payers
// (SanctionKeeper.SanctionAddresses), receivers opted into quarantine (QuarantineKeeper.SetOptIn /
// SetAutoResponse) — and print the result class and the balances of every touched account.
//
// The abstract configuration space is walked systematically: a mixed-radix index over
// (sender kind × receiver kind × ctx bypass × fee grant × #agents × primary denom slot incl.
// required-attribute/receiver-attribute modes; kinds weighted by repetition) = 101520 strata is stepped with a stride coprime
// to it; the remaining dimensions (who holds which right, deny list, further denoms, which
// marker the sender/receiver account is, amounts, order) are drawn from the seeded RNG.

import (
	"errors"
	"fmt"
	"sort"
	"strings"
	"testing"

	sdkmath "cosmossdk.io/math"

	sdk "github.com/cosmos/cosmos-sdk/types"
	sdkerrors "github.com/cosmos/cosmos-sdk/types/errors"
	authtypes "github.com/cosmos/cosmos-sdk/x/auth/types"
	banktypes "github.com/cosmos/cosmos-sdk/x/bank/types"
	minttypes "github.com/cosmos/cosmos-sdk/x/mint/types"

	"github.com/provenance-io/provenance/app"
	"github.com/provenance-io/provenance/testutil/verifhooks"
	attrtypes "github.com/provenance-io/provenance/x/attribute/types"
	markerkeeper "github.com/provenance-io/provenance/x/marker/keeper"
	markertypes "github.com/provenance-io/provenance/x/marker/types"
	"github.com/provenance-io/provenance/x/quarantine"
	sanctionerrors "github.com/provenance-io/provenance/x/sanction/errors"
)

func init() {
	drivers["mkrsend"] = mkrsendDrive
	replayers["mkrsend"] = mkrsendReplay
}

type mkrsendEnv struct {
	t     *testing.T
	app   *app.App
	base  sdk.Context
	owner sdk.AccAddress
	sym   map[string]sdk.AccAddress // symbolic name -> address (fixed ones)
}

var mkrsendNames = []string{
	"pb", "kyc.pb", "aa.kyc.pb", "bb.kyc.pb", "aa.bb.kyc.pb", "xkyc.pb", "acme.pb", "aa.acme.pb", "kyc.zz", "zz",
}

var mkrsendBypassMods = map[string]string{
	"fc":            authtypes.FeeCollectorName,
	"bp:quarantine": "quarantine",
	"bp:gov":        "gov",
	"bp:distribution": "distribution",
	"bp:bonded":     "bonded_tokens_pool",
	"bp:notbonded":  "not_bonded_tokens_pool",
}

func mkrsendPlain(name string) sdk.AccAddress {
	b := []byte("mkrsend_plain_______")
	copy(b[14:], name)
	return sdk.AccAddress(b)
}

func newMkrsendEnv(t *testing.T) *mkrsendEnv {
	a, ctx := NewApp(t)
	e := &mkrsendEnv{t: t, app: a, sym: map[string]sdk.AccAddress{}}
	for _, n := range []string{"A", "B", "C", "G", "H"} {
		e.sym[n] = mkrsendPlain(n)
	}
	for s, m := range mkrsendBypassMods {
		e.sym[s] = authtypes.NewModuleAddress(m)
	}
	e.sym["mod:marker"] = authtypes.NewModuleAddress(markertypes.CoinPoolName)
	e.sym["mod:transfer"] = authtypes.NewModuleAddress("transfer")
	e.owner = mkrsendPlain("owner")
	acc := a.AccountKeeper.NewAccountWithAddress(ctx, e.owner)
	_ = acc.SetSequence(1)
	a.AccountKeeper.SetAccount(ctx, acc)
	for _, n := range mkrsendNames {
		if err := a.NameKeeper.SetNameRecord(ctx, n, e.owner, false); err != nil {
			t.Fatalf("SetNameRecord(%s): %v", n, err)
		}
	}
	e.base = ctx
	return e
}

func (e *mkrsendEnv) addr(s string) sdk.AccAddress {
	if a, ok := e.sym[s]; ok {
		return a
	}
	if strings.HasPrefix(s, "mk:") {
		return markertypes.MustGetMarkerAddress(s[3:])
	}
	if s == "" || s == "-" {
		return nil
	}
	return mkrsendPlain(s)
}

// mkrsendErrTable maps the text of the error a refusal carries to the class the model prints.
// Order matters (first match wins).
var mkrsendErrTable = []struct{ all []string; class string }{
	{[]string{"cannot send restricted denom", "to the fee collector"}, "fc_bypass"},
	{[]string{"is not a marker account"}, "notmarker"}, // only the code before ed45788f3 could return this
	{[]string{"cannot withdraw from marker account"}, "withdraw_noagent"},
	{[]string{"ACCESS_WITHDRAW"}, "withdraw"},
	{[]string{"cannot withdraw", "marker status"}, "from_status"},
	{[]string{"ACCESS_DEPOSIT"}, "deposit"},
	{[]string{"cannot send", "marker status"}, "status"},
	{[]string{"cannot be sent to the fee collector"}, "fc"},
	{[]string{"is on deny list"}, "denylist"},
	{[]string{"ACCESS_TRANSFER on"}, "transfer_to_marker"},
	{[]string{"does not have transfer permissions for"}, "transfer"},
	{[]string{"required attribute"}, "attrs"},
}

func mkrsendClass(err error) string {
	msg := err.Error()
outer:
	for _, row := range mkrsendErrTable {
		for _, s := range row.all {
			if !strings.Contains(msg, s) {
				continue outer
			}
		}
		return row.class
	}
	return "other"
}

var mkrsendRights = map[byte]markertypes.Access{
	'm': markertypes.Access_Mint, 'b': markertypes.Access_Burn, 'd': markertypes.Access_Deposit,
	'w': markertypes.Access_Withdraw, 'e': markertypes.Access_Delete, 'a': markertypes.Access_Admin,
	't': markertypes.Access_Transfer, 'f': markertypes.Access_ForceTransfer,
}

var mkrsendStatus = map[string]markertypes.MarkerStatus{
	"p": markertypes.StatusProposed, "f": markertypes.StatusFinalized, "a": markertypes.StatusActive,
	"c": markertypes.StatusCancelled, "d": markertypes.StatusDestroyed,
}

func mkrsendList(s, sep string) []string {
	if s == "" || s == "-" {
		return nil
	}
	return strings.Split(s, sep)
}

// parseCoinsRaw keeps order, zero amounts and duplicates exactly as written.
func mkrsendCoins(s string) (sdk.Coins, error) {
	var cs sdk.Coins
	for _, p := range mkrsendList(s, ",") {
		i := 0
		for i < len(p) && (p[i] >= '0' && p[i] <= '9') {
			i++
		}
		amt, ok := sdkmath.NewIntFromString(p[:i])
		if !ok || i == len(p) {
			return nil, fmt.Errorf("bad coin %q", p)
		}
		cs = append(cs, sdk.Coin{Denom: p[i:], Amount: amt})
	}
	return cs, nil
}

// setup builds the configuration on a cached context and returns it with the context flags applied.
func (e *mkrsendEnv) setup(ws []string, viaBank bool, x *mkrsendX) (ctx sdk.Context, from, to sdk.AccAddress, coins sdk.Coins, err error) {
	ctx, _ = e.base.CacheContext()
	mk := e.app.MarkerKeeper
	from, to = e.addr(kvArg(ws, "from")), e.addr(kvArg(ws, "to"))
	if coins, err = mkrsendCoins(kvArg(ws, "coins")); err != nil {
		return
	}
	if viaBank {
		// fund the sender while no marker exists yet (afterwards a restricted coin could not be
		// handed to e.g. the fee collector by any bank route)
		// (`fund=<coins>` overrides what the sender gets — to under-fund it; the coins to move may be
		// an invalid sdk.Coins — unsorted, repeated denom, zero amount —, the funding is its valid sum)
		fundSrc := coins
		if x != nil && len(x.ins) > 0 {
			fundSrc = x.inputsOf(kvArg(ws, "from"))
		}
		if fs := kvArg(ws, "fund"); fs != "" {
			if fundSrc, err = mkrsendCoins(fs); err != nil {
				return
			}
		}
		funding := sdk.Coins{}
		for _, c := range fundSrc {
			if c.Amount.IsPositive() {
				funding = funding.Add(c)
			}
		}
		if !funding.IsZero() {
			if err = e.fund(ctx, from, funding); err != nil {
				err = fmt.Errorf("fund: %w", err)
				return
			}
		}
		if x != nil {
			// the other paying addresses of a many-to-one call hold exactly their inputs
			seen := map[string]bool{kvArg(ws, "from"): true}
			for _, in := range x.ins {
				if seen[in.name] {
					continue
				}
				seen[in.name] = true
				sum := sdk.Coins{}
				for _, c := range x.inputsOf(in.name) {
					if c.Amount.IsPositive() {
						sum = sum.Add(c)
					}
				}
				if !sum.IsZero() {
					if err = e.fund(ctx, in.addr, sum); err != nil {
						err = fmt.Errorf("fund %s: %w", in.name, err)
						return
					}
				}
			}
		}
	}
	for _, m := range mkrsendList(kvArg(ws, "markers"), "|") {
		f := strings.Split(m, ";")
		denom := f[0]
		maddr := markertypes.MustGetMarkerAddress(denom)
		if len(f) == 2 && f[1] == "x" {
			if viaBank {
				// the way anybody can put a plain account there: send it a coin
				one := sdk.Coins{sdk.NewInt64Coin("zzsquat", 1)}
				if err = e.fund(ctx, e.sym["C"], one); err != nil {
					return
				}
				if err = e.app.BankKeeper.SendCoins(ctx, e.sym["C"], maddr, one); err != nil {
					return
				}
			} else {
				e.app.AccountKeeper.SetAccount(ctx, e.app.AccountKeeper.NewAccountWithAddress(ctx, maddr))
			}
			continue
		}
		if len(f) != 6 {
			err = fmt.Errorf("bad marker %q", m)
			return
		}
		ma := &markertypes.MarkerAccount{
			BaseAccount:            authtypes.NewBaseAccountWithAddress(maddr),
			Manager:                e.owner.String(),
			Status:                 mkrsendStatus[f[2]],
			Denom:                  denom,
			Supply:                 sdkmath.NewInt(1000),
			MarkerType:             markertypes.MarkerType_Coin,
			SupplyFixed:            false,
			AllowGovernanceControl: true,
		}
		if f[1] == "r" {
			ma.MarkerType = markertypes.MarkerType_RestrictedCoin
		}
		for _, g := range mkrsendList(f[3], ",") {
			ar := strings.SplitN(g, "+", 2)
			if len(ar) != 2 {
				err = fmt.Errorf("bad grant %q", g)
				return
			}
			var perms markertypes.AccessList
			for i := 0; i < len(ar[1]); i++ {
				perms = append(perms, mkrsendRights[ar[1][i]])
			}
			ma.AccessControl = append(ma.AccessControl, markertypes.AccessGrant{Address: e.addr(ar[0]).String(), Permissions: perms})
		}
		if req := mkrsendList(f[4], ","); len(req) > 0 {
			if ma.RequiredAttributes, err = mk.NormalizeRequiredAttributes(ctx, req); err != nil {
				return
			}
		}
		if err = mk.AddMarkerAccount(ctx, ma); err != nil {
			err = fmt.Errorf("AddMarkerAccount(%s): %w", m, err)
			return
		}
		for _, d := range mkrsendList(f[5], ",") {
			mk.AddSendDeny(ctx, maddr, e.addr(d))
		}
	}
	attrTargets := []sdk.AccAddress{to}
	if x != nil {
		for _, n := range x.rto {
			attrTargets = append(attrTargets, e.addr(n))
		}
	}
	// a name may be listed several times: the account then holds several attribute records under that
	// one name (different values), which is ordinary in the attribute module
	rattrSeen := map[string]int{}
	for _, n := range mkrsendList(kvArg(ws, "rattrs"), "|") {
		rattrSeen[n]++
		val := "v"
		if k := rattrSeen[n]; k > 1 {
			val = fmt.Sprintf("v%d", k)
		}
		for _, target := range attrTargets {
			at := attrtypes.Attribute{Name: n, Value: []byte(val), Address: target.String(), AttributeType: attrtypes.AttributeType_String}
			if err = e.app.AttributeKeeper.SetAttribute(ctx, at, e.owner); err != nil {
				err = fmt.Errorf("SetAttribute(%s): %w", n, err)
				return
			}
		}
	}
	if x != nil {
		// what the OTHER modules contribute to a bank movement: coins on hold (hold module's locked-coins
		// getter), sanctioned addresses and quarantine opt-ins (the two restrictions appended after the
		// marker's)
		if !x.hold.IsZero() {
			if err = e.app.HoldKeeper.AddHold(ctx, from, x.hold, "verif"); err != nil {
				err = fmt.Errorf("AddHold: %w", err)
				return
			}
		}
		for _, n := range x.sanc {
			if err = e.app.SanctionKeeper.SanctionAddresses(ctx, e.addr(n)); err != nil {
				err = fmt.Errorf("SanctionAddresses(%s): %w", n, err)
				return
			}
		}
		for _, n := range x.quar {
			if err = e.app.QuarantineKeeper.SetOptIn(ctx, e.addr(n)); err != nil {
				err = fmt.Errorf("SetOptIn(%s): %w", n, err)
				return
			}
		}
		for _, n := range x.qacc {
			// the receiver auto-accepts from every paying address of this call
			e.app.QuarantineKeeper.SetAutoResponse(ctx, e.addr(n), from, quarantine.AUTO_RESPONSE_ACCEPT)
			for _, in := range x.ins {
				e.app.QuarantineKeeper.SetAutoResponse(ctx, e.addr(n), in.addr, quarantine.AUTO_RESPONSE_ACCEPT)
			}
		}
	}
	if kvArg(ws, "bypass") == "1" {
		ctx = markertypes.WithBypass(ctx)
	}
	if kvArg(ws, "fg") == "1" {
		ctx = verifhooks.WithFeeGrantInUse(ctx)
	}
	if ag := mkrsendList(kvArg(ws, "agents"), "|"); len(ag) > 0 {
		addrs := make([]sdk.AccAddress, len(ag))
		for i, a := range ag {
			addrs[i] = e.addr(a)
		}
		ctx = markertypes.WithTransferAgents(ctx, addrs...)
	}
	return
}

// fund gives coins to any address (module accounts included) without consulting the restriction.
func (e *mkrsendEnv) fund(ctx sdk.Context, addr sdk.AccAddress, coins sdk.Coins) error {
	if err := e.app.BankKeeper.MintCoins(ctx, minttypes.ModuleName, coins); err != nil {
		return err
	}
	return e.app.BankKeeper.SendCoins(markertypes.WithBypass(ctx), authtypes.NewModuleAddress(minttypes.ModuleName), addr, coins)
}

func (e *mkrsendEnv) execSend(ws []string) string {
	ctx, from, to, coins, err := e.setup(ws, false, nil)
	if err != nil {
		return "err:setup " + err.Error()
	}
	return Guard(func() string {
		got, err := e.app.MarkerKeeper.SendRestrictionFn(ctx, from, to, coins)
		if err != nil {
			return "deny:" + mkrsendClass(err)
		}
		if !got.Equals(to) {
			return "allow-redirected"
		}
		return "allow"
	})
}

func (e *mkrsendEnv) execBank(ws []string) string {
	ctx, from, to, coins, err := e.setup(ws, true, nil)
	if err != nil {
		return "err:setup " + err.Error()
	}
	bk := e.app.BankKeeper
	bal := func() (f, t sdk.Coins) {
		for _, c := range coins {
			f = append(f, bk.GetBalance(ctx, from, c.Denom))
			t = append(t, bk.GetBalance(ctx, to, c.Denom))
		}
		return
	}
	f0, t0 := bal()
	via := kvArg(ws, "via")
	opErr, panicked := Try(ctx, func(c sdk.Context) error {
		if via == "delegate" {
			// the staking route: DelegateCoinsFromAccountToModule -> DelegateCoins (applies the restriction)
			pool := map[string]string{"bp:bonded": "bonded_tokens_pool", "bp:notbonded": "not_bonded_tokens_pool"}[kvArg(ws, "to")]
			if pool == "" {
				return fmt.Errorf("delegate: receiver is not a staking pool")
			}
			return bk.DelegateCoinsFromAccountToModule(c, from, pool, coins)
		}
		if via == "inout" {
			return bk.InputOutputCoinsProv(c,
				[]banktypes.Input{{Address: from.String(), Coins: coins}},
				[]banktypes.Output{{Address: to.String(), Coins: coins}})
		}
		return bk.SendCoins(c, from, to, coins)
	})
	if panicked != "" {
		return "panic:" + panicked
	}
	f1, t1 := bal()
	moved, unmoved := true, true
	for i, c := range coins {
		if !f1[i].Amount.Equal(f0[i].Amount) || !t1[i].Amount.Equal(t0[i].Amount) {
			unmoved = false
		}
		if !f0[i].Amount.Sub(f1[i].Amount).Equal(c.Amount) || !t1[i].Amount.Sub(t0[i].Amount).Equal(c.Amount) {
			moved = false
		}
	}
	mv := "partial"
	if moved {
		mv = "moved"
	} else if unmoved {
		mv = "unmoved"
	}
	if opErr != nil {
		cl := mkrsendClass(opErr)
		if cl == "other" {
			return "err:bank " + mv
		}
		return "deny:" + cl + " " + mv
	}
	return "allow " + mv
}

// ---------------------------------------------------------------------------------------
// bankx: the bank op with everything the app composes around the marker restriction

type mkrsendIO struct {
	name  string
	addr  sdk.AccAddress
	coins sdk.Coins
}

// mkrsendX are the extra fields of a `bankx` line.
type mkrsendX struct {
	ins, outs             []mkrsendIO // `<coins>@<addr>/<coins>@<addr>…`
	hold                  sdk.Coins   // part of the sender's balance put on hold (HoldKeeper.AddHold)
	sanc, quar, qacc, rto []string    // sanctioned / quarantine-opted-in / auto-accepting addresses; further holders of `rattrs`
}

// inputsOf is the (unmerged) concatenation of the coins of the inputs paid by `name`.
func (x *mkrsendX) inputsOf(name string) sdk.Coins {
	var cs sdk.Coins
	for _, in := range x.ins {
		if in.name == name {
			cs = append(cs, in.coins...)
		}
	}
	return cs
}

func (e *mkrsendEnv) parseIOs(s string) ([]mkrsendIO, error) {
	var ios []mkrsendIO
	for _, p := range mkrsendList(s, "/") {
		i := strings.LastIndex(p, "@")
		if i < 0 {
			return nil, fmt.Errorf("bad input/output %q", p)
		}
		cs, err := mkrsendCoins(p[:i])
		if err != nil {
			return nil, err
		}
		ios = append(ios, mkrsendIO{name: p[i+1:], addr: e.addr(p[i+1:]), coins: cs})
	}
	return ios, nil
}

func (e *mkrsendEnv) parseX(ws []string) (*mkrsendX, error) {
	x := &mkrsendX{}
	var err error
	if x.ins, err = e.parseIOs(kvArg(ws, "ins")); err != nil {
		return nil, err
	}
	if x.outs, err = e.parseIOs(kvArg(ws, "outs")); err != nil {
		return nil, err
	}
	if x.hold, err = mkrsendCoins(kvArg(ws, "hold")); err != nil {
		return nil, err
	}
	x.sanc = mkrsendList(kvArg(ws, "sanc"), "|")
	x.quar = mkrsendList(kvArg(ws, "quar"), "|")
	x.qacc = mkrsendList(kvArg(ws, "qacc"), "|")
	x.rto = mkrsendList(kvArg(ws, "rto"), "|")
	return x, nil
}

// mkrsendBankResult names the outcome of a bank call: the marker restriction's refusal by its class,
// a refusal of a restriction appended after it (sanction, quarantine) as `err:later`, the bank keeper's
// own errors by sentinel.
func mkrsendBankResult(err error) string {
	if err == nil {
		return "allow"
	}
	if cl := mkrsendClass(err); cl != "other" {
		return "deny:" + cl
	}
	switch {
	case errors.Is(err, sanctionerrors.ErrSanctionedAccount), strings.Contains(err.Error(), "already fully accepted"):
		return "err:later"
	case errors.Is(err, sdkerrors.ErrInvalidCoins):
		return "err:invalid"
	case errors.Is(err, sdkerrors.ErrInsufficientFunds):
		return "err:funds"
	case errors.Is(err, banktypes.ErrNoInputs):
		return "err:noinputs"
	case errors.Is(err, banktypes.ErrNoOutputs):
		return "err:nooutputs"
	case errors.Is(err, banktypes.ErrManyToMany):
		return "err:manytomany"
	case errors.Is(err, banktypes.ErrInputOutputMismatch):
		return "err:mismatch"
	case errors.Is(err, sdkerrors.ErrUnknownAddress):
		return "err:nomodacc"
	}
	return "err:other"
}

// execBankX runs one movement through the real bank keeper with the app's real composed send
// restriction (marker, then sanction, then quarantine) and the real locked-coins getters (hold), and
// prints the result class followed by the balances AFTER the call of every account the call can touch
// (paying addresses, receivers, the quarantine funds holder) in every denom involved.
func (e *mkrsendEnv) execBankX(ws []string) string {
	x, err := e.parseX(ws)
	if err != nil {
		return "err:setup " + err.Error()
	}
	ctx, from, to, coins, err := e.setup(ws, true, x)
	if err != nil {
		return "err:setup " + err.Error()
	}
	bk := e.app.BankKeeper
	via := kvArg(ws, "via")
	ins, outs := x.ins, x.outs
	if len(ins) == 0 {
		ins = []mkrsendIO{{name: kvArg(ws, "from"), addr: from, coins: coins}}
	}
	if len(outs) == 0 {
		outs = []mkrsendIO{{name: kvArg(ws, "to"), addr: to, coins: coins}}
	}
	opErr, panicked := Try(ctx, func(c sdk.Context) error {
		switch via {
		case "delegate":
			pool := map[string]string{"bp:bonded": "bonded_tokens_pool", "bp:notbonded": "not_bonded_tokens_pool"}[kvArg(ws, "to")]
			if pool == "" {
				return fmt.Errorf("delegate: receiver is not a staking pool")
			}
			return bk.DelegateCoinsFromAccountToModule(c, from, pool, coins)
		case "send":
			return bk.SendCoins(c, from, to, coins)
		}
		bi := make([]banktypes.Input, len(ins))
		for i, in := range ins {
			bi[i] = banktypes.Input{Address: in.addr.String(), Coins: in.coins}
		}
		bo := make([]banktypes.Output, len(outs))
		for i, o := range outs {
			bo[i] = banktypes.Output{Address: o.addr.String(), Coins: o.coins}
		}
		return bk.InputOutputCoinsProv(c, bi, bo)
	})
	if panicked != "" {
		return "panic:" + panicked
	}
	// denoms and accounts in order of first appearance
	var denoms, accts []string
	seenD, seenA := map[string]bool{}, map[string]bool{}
	addCoins := func(cs sdk.Coins) {
		for _, c := range cs {
			if !seenD[c.Denom] {
				seenD[c.Denom] = true
				denoms = append(denoms, c.Denom)
			}
		}
	}
	addAcct := func(n string) {
		if !seenA[n] {
			seenA[n] = true
			accts = append(accts, n)
		}
	}
	if fs := kvArg(ws, "fund"); fs != "" {
		fc, _ := mkrsendCoins(fs)
		addCoins(fc)
	}
	addCoins(coins)
	addAcct(kvArg(ws, "from"))
	addAcct(kvArg(ws, "to"))
	for _, in := range x.ins {
		addCoins(in.coins)
		addAcct(in.name)
	}
	for _, o := range x.outs {
		addCoins(o.coins)
		addAcct(o.name)
	}
	addAcct("bp:quarantine")
	parts := []string{mkrsendBankResult(opErr)}
	for _, n := range accts {
		var cs []string
		for _, d := range denoms {
			if b := bk.GetBalance(ctx, e.addr(n), d); !b.Amount.IsZero() {
				cs = append(cs, b.Amount.String()+d)
			}
		}
		parts = append(parts, n+"="+JoinOr(cs, ","))
	}
	return strings.Join(parts, " ")
}

func (e *mkrsendEnv) exec(line string) string {
	ws := strings.Fields(line)
	if len(ws) == 0 {
		return "bad-op"
	}
	switch ws[0] {
	case "send":
		return e.execSend(ws[1:])
	case "bank":
		return e.execBank(ws[1:])
	case "bankx":
		return e.execBankX(ws[1:])
	case "match":
		if len(ws) != 3 {
			return "bad-op"
		}
		un := func(s string) string {
			if s == "~" {
				return ""
			}
			return s
		}
		if markerkeeper.MatchAttribute(un(ws[1]), un(ws[2])) {
			return "1"
		}
		return "0"
	case "bypasslist":
		var out []string
		for _, a := range e.app.MarkerKeeper.GetReqAttrBypassAddrs() {
			name := "unknown:" + a.String()
			for s, b := range e.sym {
				if b.Equals(a) {
					name = s
				}
			}
			out = append(out, name)
		}
		sort.Strings(out)
		return JoinOr(out, "|")
	}
	return "bad-op"
}

func mkrsendReplay(t *testing.T, ops []string, out *Out) {
	e := newMkrsendEnv(t)
	for _, op := range ops {
		if strings.HasPrefix(op, "#") {
			out.Comment(strings.TrimPrefix(op, "# "))
			continue
		}
		out.Emit(op, e.exec(op))
	}
}

// ---------------------------------------------------------------------------------------
// generator

type mkrsendSlot struct {
	kind   string // absent | squat | marker
	typ    string // c | r
	status string // p f a c d
	grants map[string]string
	req    []string
	deny   []string
}

func (s *mkrsendSlot) grant(addr, rights string) {
	if s.kind != "marker" || addr == "" {
		return
	}
	cur := s.grants[addr]
	for i := 0; i < len(rights); i++ {
		r := rights[i : i+1]
		if (r == "t" || r == "f") && s.typ != "r" {
			continue // not valid on coin markers
		}
		if !strings.Contains(cur, r) {
			cur += r
		}
	}
	if cur != "" {
		s.grants[addr] = cur
	}
}

func (s *mkrsendSlot) render(denom string) string {
	switch s.kind {
	case "squat":
		return denom + ";x"
	case "marker":
		var gs []string
		for a, r := range s.grants {
			if a == "mk:"+denom {
				continue // a marker cannot hold rights on itself (MarkerAccount.Validate)
			}
			gs = append(gs, a+"+"+r)
		}
		sort.Strings(gs)
		return strings.Join([]string{denom, s.typ, s.status, JoinOr(gs, ","), JoinOr(s.req, ","), JoinOr(s.deny, ",")}, ";")
	}
	return ""
}

var mkrsendReqModes = [][]string{
	nil, {"kyc.pb"}, {"*.kyc.pb"}, {"kyc.pb", "*.acme.pb"},
	{"*.kyc.pb", "kyc.pb", "*.acme.pb"},      // three requirements, two of them about the same name family
	{"kyc.pb", "*.acme.pb", "*.kyc.pb", "aa.kyc.pb"}, // four requirements, exact and wildcard
}
var mkrsendRattrModes = [][]string{
	nil,                                   // none
	{"kyc.pb", "aa.kyc.pb", "aa.acme.pb"}, // satisfies every mode
	{"xkyc.pb", "kyc.zz", "acme.pb"},      // look-alikes only
	{"kyc.pb"},                            // partial: exact only
	{"kyc.pb", "kyc.pb", "kyc.pb"},        // partial: one name held several times (several values under one name)
	{"aa.kyc.pb", "bb.kyc.pb", "aa.bb.kyc.pb", "kyc.pb", "aa.kyc.pb"}, // partial: many records, all of one name family
}

// primary slot values: 0 absent, 1 squat, 2..6 coin p f a c d, 7..10 restricted p f c d, 11.. restricted active × req × rattr
var mkrsendSlotValues = 11 + len(mkrsendReqModes)*len(mkrsendRattrModes)

func mkrsendPrimarySlot(v int) (s *mkrsendSlot, rattrMode int, tag string) {
	s = &mkrsendSlot{grants: map[string]string{}}
	rattrMode = -1
	st := []string{"p", "f", "a", "c", "d"}
	switch {
	case v == 0:
		s.kind = "absent"
		tag = "absent"
	case v == 1:
		s.kind = "squat"
		tag = "squat"
	case v <= 6:
		s.kind, s.typ, s.status = "marker", "c", st[v-2]
		tag = "coin-" + s.status
	case v <= 10:
		s.kind, s.typ, s.status = "marker", "r", []string{"p", "f", "c", "d"}[v-7]
		tag = "restricted-" + s.status
	default:
		k := v - 11
		s.kind, s.typ, s.status = "marker", "r", "a"
		nr := len(mkrsendRattrModes)
		s.req = mkrsendReqModes[k/nr]
		rattrMode = k % nr
		tag = fmt.Sprintf("restricted-a/req%d/rattr%d", k/nr, k%nr)
	}
	return
}

func mkrsendRandomSlot(r *RNG) *mkrsendSlot {
	s, _, _ := mkrsendPrimarySlot(r.Intn(mkrsendSlotValues))
	return s
}

// kinds are repeated to weight the strata (the walk visits every index equally often)
var mkrsendSenderKinds = []string{"plain", "plain", "plain", "marker", "marker", "bpacct", "bpacct", "fc", "modmarker", "modtransfer"}
var mkrsendReceiverKinds = []string{"plain", "plain", "plain", "markercoin", "markerrestricted", "markerrestricted", "bpacct", "bpacct", "fc"}
var mkrsendBpAccts = []string{"bp:gov", "bp:quarantine", "bp:distribution", "bp:bonded", "bp:notbonded"}

var mkrsendStrata = 10 * 9 * 4 * 2 * 3 * mkrsendSlotValues

func gcd(a, b int) int {
	for b != 0 {
		a, b = b, a%b
	}
	return a
}

// mkrsendGen builds the op line (without the leading op word) for stratum `idx`.
func mkrsendGen(r *RNG, idx int, out *Out) (fields string, bankable bool, g *mkrsendCase) {
	x := idx
	take := func(n int) int { v := x % n; x /= n; return v }
	sv := take(mkrsendSlotValues)
	nag := take(3)
	fg := take(2)
	byp := take(4) / 3 // context bypass in a quarter of the strata
	rk := mkrsendReceiverKinds[take(len(mkrsendReceiverKinds))]
	sk := mkrsendSenderKinds[take(len(mkrsendSenderKinds))]

	slots := map[string]*mkrsendSlot{}
	s1, rattrMode, slotTag := mkrsendPrimarySlot(sv)
	slots["dna"] = s1
	out.Count("slot1:" + slotTag)
	out.Count("sender:" + sk)
	out.Count("receiver:" + rk)
	out.Count(fmt.Sprintf("ctx:bypass%d/fg%d/agents%d", byp, fg, nag))

	agents := []string{"G", "H"}[:nag]
	// sender
	from := "A"
	switch sk {
	case "marker":
		fd := "dnc"
		if s1.kind == "marker" && r.Chance(35) {
			fd = "dna"
		}
		if fd != "dna" {
			ms := mkrsendRandomSlot(r)
			if r.Chance(85) {
				ms.kind = "marker"
				if ms.typ == "" {
					ms.typ, ms.status = Pick(r, []string{"c", "r"}), "a"
				}
				ms.req = nil
				if r.Chance(40) {
					ms.typ = "c"
				}
				if r.Chance(50) {
					ms.status = Pick(r, []string{"p", "f", "a", "c", "d"})
				}
			}
			slots[fd] = ms
		}
		from = "mk:" + fd
		fm := slots[fd]
		if r.Chance(60) {
			fm.grant("G", "w")
		}
		if r.Chance(35) {
			fm.grant("H", "w")
		}
		if r.Chance(20) {
			fm.grant("A", "w")
		}
		out.Count("sendermarker:" + fm.kind + "/" + fm.typ + fm.status)
	case "bpacct":
		from = Pick(r, mkrsendBpAccts)
	case "fc":
		from = "fc"
	case "modmarker":
		from = "mod:marker"
	case "modtransfer":
		from = "mod:transfer"
	}
	// receiver
	to := "B"
	switch rk {
	case "markercoin", "markerrestricted":
		td := "dnd"
		want := "c"
		if rk == "markerrestricted" {
			want = "r"
		}
		if s1.kind == "marker" && s1.typ == want && r.Chance(20) {
			td = "dna"
		}
		if td != "dna" {
			ms := &mkrsendSlot{kind: "marker", typ: want, status: "a", grants: map[string]string{}}
			if r.Chance(40) {
				ms.status = Pick(r, []string{"p", "f", "a", "c", "d"})
			}
			slots[td] = ms
		}
		to = "mk:" + td
		tm := slots[td]
		if r.Chance(50) {
			tm.grant(from, "d")
		}
		if r.Chance(50) {
			tm.grant("G", "d")
		}
		if r.Chance(30) {
			tm.grant("H", "d")
		}
		if r.Chance(15) {
			tm.grant("C", "d")
		}
	case "bpacct":
		to = Pick(r, mkrsendBpAccts)
	case "fc":
		to = "fc"
	}
	if sk == "plain" && rk == "plain" && r.Chance(4) {
		to = from // self send
	}
	// coins: dna always, others sometimes
	denoms := []string{"dna"}
	if r.Chance(40) {
		denoms = append(denoms, "dnb")
	}
	pc := 12
	if from == "mk:dnc" {
		pc = 50
	}
	if r.Chance(pc) {
		denoms = append(denoms, "dnc")
	}
	pd := 8
	if to == "mk:dnd" {
		pd = 25
	}
	if r.Chance(pd) {
		denoms = append(denoms, "dnd")
	}
	for _, d := range denoms {
		if slots[d] == nil {
			slots[d] = mkrsendRandomSlot(r)
			if slots[d].kind == "marker" && slots[d].typ == "r" && slots[d].status == "a" && r.Chance(50) {
				slots[d].req = Pick(r, mkrsendReqModes)
			}
		}
	}
	// rights on the restricted coin markers
	for _, d := range denoms {
		s := slots[d]
		if s.kind != "marker" || s.typ != "r" {
			continue
		}
		if r.Chance(25) {
			s.grant(from, "t")
		}
		if r.Chance(20) {
			s.grant(from, "f")
		}
		if nag >= 1 && r.Chance(30) {
			s.grant("G", "t")
		}
		if nag >= 2 && r.Chance(25) {
			s.grant("H", "t")
		}
		if nag == 0 && r.Chance(10) {
			s.grant("G", "t") // a right nobody present holds
		}
		if r.Chance(15) {
			s.grant("C", "tdw")
		}
		if r.Chance(15) {
			s.deny = append(s.deny, from)
		}
		if r.Chance(10) {
			s.deny = append(s.deny, Pick(r, []string{"C", "G", "B"}))
		}
	}
	// receiver attributes
	var rattrs []string
	if rattrMode >= 0 {
		rattrs = mkrsendRattrModes[rattrMode]
	} else if r.Chance(50) {
		rattrs = Pick(r, mkrsendRattrModes)
	}
	if r.Chance(10) {
		rattrs = append(append([]string{}, rattrs...), Pick(r, []string{"aa.bb.kyc.pb", "bb.kyc.pb", "zz", "pb"}))
	}
	if len(rattrs) > 0 && r.Chance(15) {
		// further records under names the receiver already holds (1-3 more values of one or two names)
		rattrs = append([]string{}, rattrs...)
		for k := 1 + r.Intn(3); k > 0; k-- {
			rattrs = append(rattrs, rattrs[r.Intn(len(rattrs))])
		}
		out.Count("rattrs:repeated-name")
	}
	// amounts / order
	bankable = from != to
	if strings.HasPrefix(from, "mk:") && slots[from[3:]].kind != "marker" {
		// funding that address would itself put a plain account there and change the configuration
		bankable = false
	}
	sort.Strings(denoms)
	var cs []string
	var amts []int
	for _, d := range denoms {
		amt := 1 + r.Intn(500)
		if r.Chance(3) {
			amt = 0
			bankable = false
		}
		cs = append(cs, fmt.Sprintf("%d%s", amt, d))
		amts = append(amts, amt)
	}
	if len(cs) > 1 && r.Chance(3) {
		i, j := r.Intn(len(cs)), r.Intn(len(cs))
		cs[i], cs[j] = cs[j], cs[i]
		if i != j {
			bankable = false
			out.Count("coins:unsorted")
		}
	}
	out.Count(fmt.Sprintf("coins:n%d", len(cs)))
	var ms []string
	var ds []string
	for d := range slots {
		ds = append(ds, d)
	}
	sort.Strings(ds)
	for _, d := range ds {
		if m := slots[d].render(d); m != "" {
			ms = append(ms, m)
		}
	}
	fields = fmt.Sprintf("bypass=%d fg=%d from=%s to=%s agents=%s coins=%s markers=%s rattrs=%s",
		byp, fg, from, to, JoinOr(agents, "|"), strings.Join(cs, ","), JoinOr(ms, "|"), JoinOr(rattrs, "|"))
	g = &mkrsendCase{
		head: fmt.Sprintf("bypass=%d fg=%d from=%s to=%s agents=%s", byp, fg, from, to, JoinOr(agents, "|")),
		tail: fmt.Sprintf("markers=%s rattrs=%s", JoinOr(ms, "|"), JoinOr(rattrs, "|")),
		from: from, to: to, senderKind: sk, denoms: denoms, amts: amts,
	}
	for _, d := range ds {
		if slots[d].kind == "marker" {
			g.markerAddrs = append(g.markerAddrs, "mk:"+d)
		}
	}
	return
}

// mkrsendCase is what the `bankx` generator keeps of a generated configuration.
type mkrsendCase struct {
	head, tail  string // the op line's fields before / after `coins=`
	from, to    string
	senderKind  string
	denoms      []string // sorted
	amts        []int    // the `send` line's amounts (all positive when the case is bankable)
	markerAddrs []string // addresses of the marker accounts of the configuration
}

type mkrsendAmt map[string]int

func (a mkrsendAmt) render() string {
	var ds []string
	for d := range a {
		ds = append(ds, d)
	}
	sort.Strings(ds)
	var cs []string
	for _, d := range ds {
		cs = append(cs, fmt.Sprintf("%d%s", a[d], d))
	}
	return JoinOr(cs, ",")
}

func (a mkrsendAmt) add(b mkrsendAmt) {
	for d, x := range b {
		a[d] += x
	}
}

func mkrsendRenderIOs(names []string, coins []mkrsendAmt) string {
	var ps []string
	for i, n := range names {
		ps = append(ps, coins[i].render()+"@"+n)
	}
	return strings.Join(ps, "/")
}

// mkrsendGenX turns a bankable configuration into a `bankx` line: one input and 2-4 outputs with
// different receivers (plain accounts, the configuration's markers, fee collector, module accounts, the
// same receiver twice, the sender itself), or 2-3 inputs (the sender twice / other payers) and one
// output, or a single send / one-pair multi-send / delegation; on top of that part of the sender's
// balance on hold (enough left, exactly enough left, one short), a sanctioned sender (or a sanctioned
// receiver, which must not matter), receivers that opted into quarantine (some auto-accepting the
// sender), and a minority of malformed calls (sums differ, an invalid output, under-funded).
func mkrsendGenX(r *RNG, g *mkrsendCase, out *Out) string {
	randCoins := func() mkrsendAmt {
		a := mkrsendAmt{}
		for _, d := range g.denoms {
			if r.Chance(60) {
				a[d] = 1 + r.Intn(200)
			}
		}
		if len(a) == 0 {
			a[Pick(r, g.denoms)] = 1 + r.Intn(200)
		}
		return a
	}
	base := mkrsendAmt{}
	for i, d := range g.denoms {
		base[d] = g.amts[i]
	}
	isPool := g.to == "bp:bonded" || g.to == "bp:notbonded"
	plain := []string{"B", "C", "D", "E"}
	var extra []string // further fields
	coins := base      // the `coins=` field
	need := base       // what the sender pays
	receivers := []string{g.to}
	payers := []string{g.from}
	mode := "single"
	via := "send"
	switch m := r.Intn(100); {
	case m < 45 && !isPool:
		mode, via = "multiout", "multi"
		k := 2 + r.Intn(3)
		for len(receivers) < k {
			switch p := r.Intn(100); {
			case p < 50:
				receivers = append(receivers, Pick(r, plain))
			case p < 70 && len(g.markerAddrs) > 0:
				receivers = append(receivers, Pick(r, g.markerAddrs))
			case p < 78:
				receivers = append(receivers, "fc")
			case p < 86:
				receivers = append(receivers, Pick(r, mkrsendBpAccts))
			case p < 94:
				receivers = append(receivers, g.to)
			default:
				receivers = append(receivers, g.from)
			}
		}
		sum := mkrsendAmt{}
		oc := make([]mkrsendAmt, k)
		for i := range oc {
			oc[i] = randCoins()
			sum.add(oc[i])
		}
		coins, need = sum, sum
		switch q := r.Intn(100); {
		case q < 4: // the outputs give more than the input takes
			coins = mkrsendAmt{}
			coins.add(sum)
			d := Pick(r, g.denoms)
			if coins[d] > 1 {
				coins[d]--
			} else {
				coins[d]++
			}
			need = coins
			out.Count("x:mismatch")
		case q < 7: // an output with a zero coin
			oc[r.Intn(k)][Pick(r, g.denoms)] = 0
			out.Count("x:invalid-output")
		}
		extra = append(extra, "outs="+mkrsendRenderIOs(receivers, oc))
		var rto []string
		seen := map[string]bool{g.to: true}
		for _, n := range receivers[1:] {
			if !seen[n] && r.Chance(55) {
				rto = append(rto, n)
			}
			seen[n] = true
		}
		if len(rto) > 0 {
			extra = append(extra, "rto="+strings.Join(rto, "|"))
		}
	case m < 60 && !isPool:
		mode, via = "multiin", "multi"
		k := 2 + r.Intn(2)
		for len(payers) < k {
			if r.Chance(50) {
				payers = append(payers, g.from)
			} else {
				payers = append(payers, Pick(r, []string{"C", "D"}))
			}
		}
		sum, mine := mkrsendAmt{}, mkrsendAmt{}
		ic := make([]mkrsendAmt, k)
		for i := range ic {
			ic[i] = randCoins()
			sum.add(ic[i])
			if payers[i] == g.from {
				mine.add(ic[i])
			}
		}
		coins, need = sum, mine
		if r.Chance(4) {
			coins = mkrsendAmt{}
			coins.add(sum)
			coins[Pick(r, g.denoms)]++
			out.Count("x:mismatch")
		}
		extra = append(extra, "ins="+mkrsendRenderIOs(payers, ic))
	default:
		if isPool {
			via = "delegate"
		} else if r.Bool() {
			via = "inout"
		}
	}
	out.Count("opx:" + mode + "/" + via)
	// the sender's funds, and what is on hold of them
	var needDenoms []string
	for d := range need {
		needDenoms = append(needDenoms, d)
	}
	sort.Strings(needDenoms)
	switch q := r.Intn(100); {
	case q < 35:
		d := Pick(r, needDenoms)
		h := 1 + r.Intn(need[d])
		left := Pick(r, []int{h, h, h - 1, 0, h + 3})
		fund := mkrsendAmt{}
		fund.add(need)
		fund[d] += left
		if r.Chance(30) { // and something of another denom on hold too, fully covered
			d2 := Pick(r, needDenoms)
			if d2 != d {
				fund[d2] += 9
				extra = append(extra, "fund="+fund.render(), fmt.Sprintf("hold=%s", mkrsendAmt{d: h, d2: 9}.render()))
			} else {
				extra = append(extra, "fund="+fund.render(), fmt.Sprintf("hold=%d%s", h, d))
			}
		} else {
			extra = append(extra, "fund="+fund.render(), fmt.Sprintf("hold=%d%s", h, d))
		}
		if left >= h {
			out.Count("x:hold/enough-left")
		} else {
			out.Count("x:hold/short")
		}
	case q < 41:
		fund := mkrsendAmt{}
		fund.add(need)
		d := Pick(r, needDenoms)
		if fund[d]--; fund[d] == 0 {
			delete(fund, d)
		}
		extra = append(extra, "fund="+fund.render())
		out.Count("x:underfunded")
	case q < 50:
		fund := mkrsendAmt{}
		fund.add(need)
		fund[Pick(r, needDenoms)] += 7
		extra = append(extra, "fund="+fund.render())
		out.Count("x:overfunded")
	}
	// sanction: only non-module accounts can be sanctioned
	sanctionable := g.senderKind == "plain" || g.senderKind == "marker"
	switch q := r.Intn(100); {
	case q < 12 && sanctionable:
		extra = append(extra, "sanc="+g.from)
		out.Count("x:sanctioned-sender")
	case q < 16 && len(payers) > 1 && payers[len(payers)-1] != g.from:
		extra = append(extra, "sanc="+payers[len(payers)-1])
		out.Count("x:sanctioned-other-payer")
	case q < 20 && (g.to == "B"):
		extra = append(extra, "sanc=B")
		out.Count("x:sanctioned-receiver")
	}
	// quarantine
	if r.Chance(32) {
		var qs, qa []string
		seen := map[string]bool{}
		for _, n := range receivers {
			if !seen[n] && r.Chance(60) {
				qs = append(qs, n)
				if r.Chance(25) {
					qa = append(qa, n)
				}
			}
			seen[n] = true
		}
		if len(qs) > 0 {
			extra = append(extra, "quar="+strings.Join(qs, "|"))
			out.Count("x:quarantined-receiver")
		}
		if len(qa) > 0 {
			extra = append(extra, "qacc="+strings.Join(qa, "|"))
			out.Count("x:quarantine-autoaccept")
		}
	}
	return fmt.Sprintf("%s coins=%s %s via=%s %s", g.head, coins.render(), g.tail, via, strings.Join(extra, " "))
}

var mkrsendMatchAtoms = []string{"a", "kyc", "pb", "*", "", "x*", "**", "kyc.pb", "*.kyc.pb", "*.", ".", "*.pb", "aa"}

func mkrsendMatchArg(r *RNG) string {
	n := 1 + r.Intn(3)
	parts := make([]string, n)
	for i := range parts {
		parts[i] = Pick(r, mkrsendMatchAtoms)
	}
	s := strings.Join(parts, ".")
	if r.Chance(30) {
		s = Pick(r, []string{"*.kyc.pb", "kyc.pb", "aa.kyc.pb", "xkyc.pb", ".kyc.pb", "*.pb", "*", "", "*.", "a*.kyc.pb"})
	}
	if s == "" {
		return "~"
	}
	return s
}

func mkrsendDrive(t *testing.T, rng *RNG, n int, out *Out) {
	e := newMkrsendEnv(t)
	emit := func(op string) string {
		res := e.exec(op)
		out.Emit(op, res)
		return res
	}
	emit("bypasslist")
	stride := 1
	for _, p := range []int{7919, 104729, 1299709, 15485863, 49979687, 7, 11, 13} {
		if gcd(p, mkrsendStrata) == 1 && (rng.Bool() || stride == 1) {
			stride = p
		}
	}
	idx := rng.Intn(mkrsendStrata)
	for i := 0; i < n; i++ {
		if i%16 == 15 {
			op := "match " + mkrsendMatchArg(rng) + " " + mkrsendMatchArg(rng)
			out.Count("op:match=" + emit(op))
			continue
		}
		idx = (idx + stride) % mkrsendStrata
		fields, bankable, g := mkrsendGen(rng, idx, out)
		res := emit("send " + fields)
		out.Count("op:send")
		out.Count("result:" + res)
		if strings.HasPrefix(res, "err:") {
			t.Fatalf("setup failed: %s -> %s", fields, res)
		}
		if bankable && i%6 == 0 {
			via := "send"
			if (i/6)%2 == 1 {
				via = "inout"
			}
			if strings.Contains(fields, " to=bp:bonded ") || strings.Contains(fields, " to=bp:notbonded ") {
				via = "delegate"
			}
			bres := emit("bank " + fields + " via=" + via)
			out.Count("op:bank/" + via)
			out.Count("bankresult:" + strings.Join(strings.Fields(bres)[:1], "") + "/" + bres[strings.LastIndex(bres, " ")+1:])
		}
		if bankable && i%6 == 3 {
			line := strings.TrimSpace(mkrsendGenX(rng, g, out))
			bres := emit("bankx " + line)
			out.Count("op:bankx")
			cls := strings.Fields(bres)[0]
			if strings.HasPrefix(cls, "deny:") {
				cls = "deny"
			}
			out.Count("bankxresult:" + cls)
			if strings.HasPrefix(bres, "err:setup") || strings.HasPrefix(bres, "err:other") || strings.HasPrefix(bres, "panic:") {
				t.Fatalf("bankx: %s -> %s", line, bres)
			}
		}
	}
}
