package harness

// Model "genesis" (C18): determinism, restart safety and the genesis round trip, observed on
// the real app. Each case builds one seeded multi-module history of blocks and
//   * runs it on two fresh in-memory apps started from the same genesis bytes (run-to-run
//     determinism: Go randomises every map iteration, so two runs in one process differ
//     wherever order leaks into state),
//   * runs it on a third app backed by an on-disk goleveldb that is closed and reopened at a
//     random block boundary (restart safety),
//   * exports genesis from the first app, initialises a fresh chain from it, and compares the
//     custom modules' sections of the two exports (genesis round trip), after validating the
//     export with every module's ValidateGenesis.
// These are supporting runs, not proofs: the Lean side contributes the generic store
// export/import round-trip theorems and the regenerated "no order-sensitive map iteration /
// clock / randomness / goroutine in state-machine code" facts (PvProofs.C18).

import (
	"bytes"
	"crypto/sha256"
	"encoding/hex"
	"encoding/json"
	"fmt"
	"os"
	"sort"
	"strings"
	"testing"
	"time"

	"cosmossdk.io/log"
	storetypes "cosmossdk.io/store/types"
	sdkmath "cosmossdk.io/math"

	abci "github.com/cometbft/cometbft/abci/types"
	cmtproto "github.com/cometbft/cometbft/proto/tendermint/types"

	dbm "github.com/cosmos/cosmos-db"
	"github.com/cosmos/cosmos-sdk/baseapp"
	"github.com/cosmos/cosmos-sdk/client"
	"github.com/cosmos/cosmos-sdk/codec"
	"github.com/cosmos/cosmos-sdk/client/flags"
	clienttx "github.com/cosmos/cosmos-sdk/client/tx"
	"github.com/cosmos/cosmos-sdk/crypto/keys/secp256k1"
	"github.com/cosmos/cosmos-sdk/types/tx/signing"
	authsigning "github.com/cosmos/cosmos-sdk/x/auth/signing"
	"github.com/cosmos/cosmos-sdk/server"
	simtestutil "github.com/cosmos/cosmos-sdk/testutil/sims"
	sdk "github.com/cosmos/cosmos-sdk/types"
	authtypes "github.com/cosmos/cosmos-sdk/x/auth/types"
	banktypes "github.com/cosmos/cosmos-sdk/x/bank/types"
	"github.com/google/uuid"

	"github.com/provenance-io/provenance/app"
	"github.com/provenance-io/provenance/testutil/verifhooks"
	attrtypes "github.com/provenance-io/provenance/x/attribute/types"
	"github.com/provenance-io/provenance/x/exchange"
	exchangekeeper "github.com/provenance-io/provenance/x/exchange/keeper"
	markertypes "github.com/provenance-io/provenance/x/marker/types"
	"github.com/provenance-io/provenance/x/quarantine"
	"github.com/provenance-io/provenance/x/sanction"
	metadatatypes "github.com/provenance-io/provenance/x/metadata/types"
	msgfeestypes "github.com/provenance-io/provenance/x/msgfees/types"
	triggerkeeper "github.com/provenance-io/provenance/x/trigger/keeper"
	triggertypes "github.com/provenance-io/provenance/x/trigger/types"
)

func init() {
	drivers["genesis"] = driveGenesis
	replayers["genesis"] = replayGenesis
}

var genCustomModules = []string{"attribute", "exchange", "hold", "marker", "metadata", "msgfees", "name", "quarantine", "sanction", "trigger"}

// genCompareModules: the custom modules plus auth ("acc" store) and bank, whose accounts and
// balances the custom modules' genesis code creates and relies on (marker accounts, holds,
// quarantined funds, scope value-owner coins).
var genCompareModules = append(append([]string{}, genCustomModules...), "auth", "bank")

var genStoreKeyName = map[string]string{"auth": "acc"}

type genChain struct {
	t      *testing.T
	a      *app.App
	db     dbm.DB
	dbDir  string
	height int64
	now    time.Time
	addrs  []sdk.AccAddress
	hashes []string
	resps  []string // hash of each block's marshalled ResponseFinalizeBlock (tx results, events, app hash)
	pendingSeq map[int]uint64
	label      string
}

const genChainID = "pio-verif-gen-1"

// genNewApp creates an app on db; when genesis != nil the chain is initialised from it.
func genNewApp(t *testing.T, db dbm.DB, home string, genesis []byte) *app.App {
	return genNewAppAt(t, db, home, genesis, 1, time.Unix(1_700_000_000, 0).UTC())
}

func genNewAppAt(t *testing.T, db dbm.DB, home string, genesis []byte, initialHeight int64, genesisTime time.Time) *app.App {
	verifhooks.EnsureConfig()
	opts := simtestutil.AppOptionsMap{flags.FlagHome: home, server.FlagInvCheckPeriod: uint(0)}
	a := app.New(log.NewNopLogger(), db, nil, true, opts, baseapp.SetChainID(genChainID))
	if genesis != nil {
		if _, err := a.InitChain(&abci.RequestInitChain{
			Validators: []abci.ValidatorUpdate{}, ConsensusParams: app.DefaultConsensusParams,
			AppStateBytes: genesis, ChainId: genChainID, InitialHeight: initialHeight,
			Time: genesisTime,
		}); err != nil {
			t.Fatalf("InitChain: %v", err)
		}
	}
	return a
}

// genGenesisBytes builds one genesis (single validator + funded named accounts) to be shared
// by all apps of a case.
func genGenesisBytes(t *testing.T, addrs []sdk.AccAddress) []byte {
	tmp := genNewApp(t, dbm.NewMemDB(), t.TempDir(), nil)
	gs := app.GenesisStateWithSingleValidator(t, tmp)
	// add funded accounts
	var authGS authtypes.GenesisState
	tmp.AppCodec().MustUnmarshalJSON(gs[authtypes.ModuleName], &authGS)
	var bankGS banktypes.GenesisState
	tmp.AppCodec().MustUnmarshalJSON(gs[banktypes.ModuleName], &bankGS)
	var accs []authtypes.GenesisAccount
	for i, ad := range addrs {
		accs = append(accs, authtypes.NewBaseAccount(ad, nil, uint64(100+i), 5))
		coins := sdk.NewCoins(sdk.NewInt64Coin("nhash", 1_000_000_000_000), sdk.NewInt64Coin("stake", 1_000_000_000),
			sdk.NewInt64Coin("apple", 1_000_000), sdk.NewInt64Coin("usdx", 1_000_000))
		bankGS.Balances = append(bankGS.Balances, banktypes.Balance{Address: ad.String(), Coins: coins})
		bankGS.Supply = bankGS.Supply.Add(coins...)
	}
	packed, err := authtypes.PackAccounts(accs)
	if err != nil {
		t.Fatal(err)
	}
	authGS.Accounts = append(authGS.Accounts, packed...)
	gs[authtypes.ModuleName] = tmp.AppCodec().MustMarshalJSON(&authGS)
	gs[banktypes.ModuleName] = tmp.AppCodec().MustMarshalJSON(&bankGS)
	bz, err := json.Marshal(gs)
	if err != nil {
		t.Fatal(err)
	}
	return bz
}

func (c *genChain) beginBlock(txs ...genTx) {
	c.height++
	c.now = c.now.Add(7 * time.Second)
	c.pendingSeq = map[int]uint64{}
	var raw [][]byte
	for _, tx := range txs {
		c.height-- // sign against the last committed state
		bz, err := c.signTx(tx)
		c.height++
		if err == nil {
			raw = append(raw, bz)
		}
	}
	defer func() {
		if r := recover(); r != nil {
			uctx := c.a.BaseApp.NewUncachedContext(false, cmtproto.Header{ChainID: genChainID, Height: c.height})
			var ids []string
			_ = c.a.TriggerKeeper.IterateTriggers(uctx, func(tr triggertypes.Trigger) (bool, error) { ids = append(ids, fmt.Sprint(tr.Id)); return false, nil })
			var q []string
			q = append(q, fmt.Sprintf("start=%d len=%d", c.a.TriggerKeeper.VerifQueueStartIndex(uctx), c.a.TriggerKeeper.VerifQueueLength(uctx)))
			var gl []string
			_ = c.a.TriggerKeeper.IterateGasLimits(uctx, func(g triggertypes.GasLimit) (bool, error) { gl = append(gl, fmt.Sprintf("%d=%d", g.TriggerId, g.Amount)); return false, nil })
			fmt.Printf("BLOCKPANIC chain=%s height=%d registered=%v queue=%v gaslimits=%v: %v\n", c.label, c.height, ids, q, gl, r)
			panic(r)
		}
	}()
	resp, err := c.a.FinalizeBlock(&abci.RequestFinalizeBlock{Height: c.height, Time: c.now, Hash: c.a.LastCommitID().Hash, Txs: raw})
	if err != nil {
		c.t.Fatalf("FinalizeBlock %d: %v", c.height, err)
	}
	if testing.Verbose() && c.label == "run1" {
		uctx := c.a.BaseApp.NewUncachedContext(false, cmtproto.Header{ChainID: genChainID, Height: c.height})
		var gl []string
		_ = c.a.TriggerKeeper.IterateGasLimits(uctx, func(g triggertypes.GasLimit) (bool, error) { gl = append(gl, fmt.Sprintf("%d=%d", g.TriggerId, g.Amount)); return false, nil })
		var ids []string
		_ = c.a.TriggerKeeper.IterateTriggers(uctx, func(tr triggertypes.Trigger) (bool, error) { ids = append(ids, fmt.Sprint(tr.Id)); return false, nil })
		fmt.Printf("TRIG after finalize h=%d registered=%v qstart=%d qlen=%d gas=%v\n", c.height, ids, c.a.TriggerKeeper.VerifQueueStartIndex(uctx), c.a.TriggerKeeper.VerifQueueLength(uctx), gl)
	}
	bz, _ := resp.Marshal()
	h := sha256.Sum256(bz)
	codes := ""
	for _, r := range resp.TxResults {
		codes += fmt.Sprintf("%d/%d,", r.Code, r.GasUsed)
	}
	c.resps = append(c.resps, hex.EncodeToString(h[:8])+":"+codes)
}

func (c *genChain) ctx() sdk.Context {
	return c.a.BaseApp.NewContextLegacy(false, cmtproto.Header{ChainID: genChainID, Height: c.height, Time: c.now})
}

func (c *genChain) commit() {
	if _, err := c.a.Commit(); err != nil {
		c.t.Fatalf("Commit: %v", err)
	}
	c.hashes = append(c.hashes, hex.EncodeToString(c.a.LastCommitID().Hash))
}

// genOp is one deterministic state change applied through the real keepers / msg servers.
type genOp func(c *genChain, ctx sdk.Context) error

func genUUID(r *RNG) uuid.UUID {
	var b [16]byte
	for i := 0; i < 16; i += 8 {
		v := r.U64()
		for j := 0; j < 8; j++ {
			b[i+j] = byte(v >> (8 * j))
		}
	}
	u, _ := uuid.FromBytes(b[:])
	return u
}

// genPlan precomputes the whole history (a list of ops per block) from the seed so that the
// same plan can be replayed on several apps.
type genAttrRef struct {
	nm   string
	acct sdk.AccAddress
	val  string
}

func genPlan(r *RNG, nBlocks int, addrs []sdk.AccAddress) ([][]genOp, [][]genTx, []string) {
	var plan [][]genOp
	var txplan [][]genTx
	var desc []string
	pick := func() sdk.AccAddress { return addrs[r.Intn(len(addrs))] }
	markers := []string{}
	markerMgr := map[string]int{}
	var prevAttrs []genAttrRef
	names := []string{}
	scopeSpecs := []metadatatypes.MetadataAddress{}
	nextMarket := uint32(1)
	for b := 0; b < nBlocks; b++ {
		var ops []genOp
		nops := 2 + r.Intn(6)
		for i := 0; i < nops; i++ {
			switch k := r.Intn(18); k {
			case 0: // name
				owner := pick()
				nm := fmt.Sprintf("n%d.verif", r.Intn(1000))
				if len(names) == 0 {
					nm = "verif"
				}
				restricted := r.Bool()
				names = append(names, nm)
				desc = append(desc, "name:"+nm)
				ops = append(ops, func(c *genChain, ctx sdk.Context) error {
					return c.a.NameKeeper.SetNameRecord(ctx, nm, owner, restricted)
				})
			case 1: // attribute
				if len(names) == 0 {
					continue
				}
				nm := names[r.Intn(len(names))]
				acct := pick()
				val := fmt.Sprintf("v%d", r.Intn(5))
				if len(prevAttrs) > 0 && r.Chance(30) {
					// re-add an identical (name, account, value): SetAttribute overwrites the record
					pa := prevAttrs[r.Intn(len(prevAttrs))]
					nm, acct, val = pa.nm, pa.acct, pa.val
				} else if len(prevAttrs) > 0 && r.Chance(35) {
					// a further value under a (name, account) that already holds one: the lookup counter goes to 2+
					pa := prevAttrs[r.Intn(len(prevAttrs))]
					nm, acct, val = pa.nm, pa.acct, fmt.Sprintf("w%d", r.Intn(50))
				}
				prevAttrs = append(prevAttrs, genAttrRef{nm, acct, val})
				var exp *time.Time
				if r.Chance(50) {
					e := time.Unix(1_700_000_000+int64(r.Intn(nBlocks*7+20)), 0).UTC()
					exp = &e
				}
				desc = append(desc, "attr:"+nm)
				ops = append(ops, func(c *genChain, ctx sdk.Context) error {
					rec, err := c.a.NameKeeper.GetRecordByName(ctx, nm)
					if err != nil {
						return err
					}
					owner, _ := sdk.AccAddressFromBech32(rec.Address)
					return c.a.AttributeKeeper.SetAttribute(ctx, attrtypes.Attribute{Name: nm, Value: []byte(val),
						AttributeType: attrtypes.AttributeType_String, Address: acct.String(), ExpirationDate: exp}, owner)
				})
				if r.Chance(12) {
					// governance lowers the maximum value length below a value already in state (MsgUpdateParams
					// does not touch existing attributes)
					desc = append(desc, "attr-maxlen-lowered")
					ops = append(ops, func(c *genChain, ctx sdk.Context) error {
						c.a.AttributeKeeper.SetParams(ctx, attrtypes.Params{MaxValueLength: 1})
						return nil
					})
				}
			case 2: // marker
				denom := fmt.Sprintf("mk%dcoin", len(markers))
				mgrIdx := r.Intn(len(addrs))
				mgr := addrs[mgrIdx]
				markerMgr[denom] = mgrIdx
				fixed := r.Bool()
				mtype := markertypes.MarkerType_Coin
				if r.Bool() {
					mtype = markertypes.MarkerType_RestrictedCoin
				}
				markers = append(markers, denom)
				desc = append(desc, "marker:"+denom)
				supply := int64(1000 + r.Intn(100000))
				ops = append(ops, func(c *genChain, ctx sdk.Context) error {
					return c.a.MarkerKeeper.AddFinalizeAndActivateMarker(ctx, &markertypes.MarkerAccount{
						BaseAccount: authtypes.NewBaseAccountWithAddress(markertypes.MustGetMarkerAddress(denom)),
						Manager:     mgr.String(),
						AccessControl: []markertypes.AccessGrant{{Address: mgr.String(), Permissions: markertypes.AccessList{
							markertypes.Access_Mint, markertypes.Access_Burn, markertypes.Access_Deposit, markertypes.Access_Withdraw,
							markertypes.Access_Delete, markertypes.Access_Admin, markertypes.Access_Transfer}}},
						Status: markertypes.StatusProposed, Denom: denom, Supply: sdkmath.NewInt(supply), MarkerType: mtype,
						SupplyFixed: fixed, AllowGovernanceControl: true,
					})
				})
				if mtype == markertypes.MarkerType_RestrictedCoin && r.Chance(50) {
					denied := []sdk.AccAddress{pick()}
					if r.Bool() {
						denied = append(denied, pick())
					}
					desc = append(desc, "marker-senddeny")
					ops = append(ops, func(c *genChain, ctx sdk.Context) error {
						for _, d := range denied {
							c.a.MarkerKeeper.AddSendDeny(ctx, markertypes.MustGetMarkerAddress(denom), d)
						}
						return nil
					})
				}
			case 3: // marker mint / withdraw
				if len(markers) == 0 {
					continue
				}
				denom := markers[r.Intn(len(markers))]
				amt := int64(1 + r.Intn(500))
				to := pick()
				mint := r.Bool()
				desc = append(desc, "markerop:"+denom)
				ops = append(ops, func(c *genChain, ctx sdk.Context) error {
					m, err := c.a.MarkerKeeper.GetMarkerByDenom(ctx, denom)
					if err != nil {
						return err
					}
					mgr := m.GetManager()
					if mgr.Empty() {
						acl := m.GetAccessList()
						if len(acl) == 0 {
							return fmt.Errorf("no manager")
						}
						mgr, _ = sdk.AccAddressFromBech32(acl[0].Address)
					}
					if mint {
						return c.a.MarkerKeeper.MintCoin(ctx, mgr, sdk.NewInt64Coin(denom, amt))
					}
					return c.a.MarkerKeeper.WithdrawCoins(ctx, mgr, to, denom, sdk.NewCoins(sdk.NewInt64Coin(denom, amt)))
				})
			case 4: // exchange market
				id := nextMarket
				nextMarket++
				admin := pick()
				desc = append(desc, fmt.Sprintf("market:%d", id))
				ops = append(ops, func(c *genChain, ctx sdk.Context) error {
					_, err := c.a.ExchangeKeeper.CreateMarket(ctx, exchange.Market{MarketId: id,
						MarketDetails:   exchange.MarketDetails{Name: fmt.Sprintf("m%d", id)},
						AcceptingOrders: true, AllowUserSettlement: true, AcceptingCommitments: true,
						FeeCreateAskFlat:          []sdk.Coin{sdk.NewInt64Coin("nhash", 10)},
						FeeSellerSettlementRatios: []exchange.FeeRatio{{Price: sdk.NewInt64Coin("usdx", 100), Fee: sdk.NewInt64Coin("usdx", 1)}},
						FeeBuyerSettlementRatios:  []exchange.FeeRatio{{Price: sdk.NewInt64Coin("usdx", 100), Fee: sdk.NewInt64Coin("nhash", 1)}},
						AccessGrants:              []exchange.AccessGrant{{Address: admin.String(), Permissions: exchange.AllPermissions()}},
					})
					return err
				})
			case 5, 6: // orders
				if nextMarket == 1 {
					continue
				}
				m := uint32(1 + r.Intn(int(nextMarket-1)))
				who := pick()
				ask := r.Bool()
				assets := int64(1 + r.Intn(20))
				price := int64(100 * (1 + r.Intn(9)))
				ext := ""
				if r.Chance(40) {
					ext = fmt.Sprintf("ext-%d", r.Intn(100000))
				}
				desc = append(desc, "order")
				ops = append(ops, func(c *genChain, ctx sdk.Context) error {
					srv := exchangekeeper.NewMsgServer(c.a.ExchangeKeeper)
					if ask {
						_, err := srv.CreateAsk(ctx, &exchange.MsgCreateAskRequest{AskOrder: exchange.AskOrder{MarketId: m, Seller: who.String(),
							Assets: sdk.NewInt64Coin("apple", assets), Price: sdk.NewInt64Coin("usdx", price), ExternalId: ext, AllowPartial: true},
							OrderCreationFee: &sdk.Coin{Denom: "nhash", Amount: sdkmath.NewInt(10)}})
						return err
					}
					_, err := srv.CreateBid(ctx, &exchange.MsgCreateBidRequest{BidOrder: exchange.BidOrder{MarketId: m, Buyer: who.String(),
						Assets: sdk.NewInt64Coin("apple", assets), Price: sdk.NewInt64Coin("usdx", price), ExternalId: ext, AllowPartial: true}})
					return err
				})
			case 7: // commitment / payment
				who, tgt := pick(), pick()
				if nextMarket == 1 || r.Bool() {
					ext := fmt.Sprintf("p%d", r.Intn(1000))
					desc = append(desc, "payment")
					ops = append(ops, func(c *genChain, ctx sdk.Context) error {
						srv := exchangekeeper.NewMsgServer(c.a.ExchangeKeeper)
						_, err := srv.CreatePayment(ctx, &exchange.MsgCreatePaymentRequest{Payment: exchange.Payment{Source: who.String(),
							SourceAmount: sdk.NewCoins(sdk.NewInt64Coin("usdx", 3)), Target: tgt.String(), ExternalId: ext}})
						return err
					})
				} else {
					m := uint32(1 + r.Intn(int(nextMarket-1)))
					desc = append(desc, "commit")
					ops = append(ops, func(c *genChain, ctx sdk.Context) error {
						srv := exchangekeeper.NewMsgServer(c.a.ExchangeKeeper)
						_, err := srv.CommitFunds(ctx, &exchange.MsgCommitFundsRequest{Account: who.String(), MarketId: m,
							Amount: sdk.NewCoins(sdk.NewInt64Coin("apple", 2))})
						return err
					})
				}
			case 8: // quarantine opt-in then a send that gets quarantined
				to, from := pick(), pick()
				amt := int64(1 + r.Intn(50))
				desc = append(desc, "quarantine")
				ops = append(ops, func(c *genChain, ctx sdk.Context) error {
					if err := c.a.QuarantineKeeper.SetOptIn(ctx, to); err != nil {
						return err
					}
					return c.a.BankKeeper.SendCoins(ctx, from, to, sdk.NewCoins(sdk.NewInt64Coin("usdx", amt)))
				})
				if r.Chance(35) {
					// the receiver opts out again without accepting: the record stays, the funds stay with the holder
					desc = append(desc, "quarantine-optout")
					ops = append(ops, func(c *genChain, ctx sdk.Context) error { return c.a.QuarantineKeeper.SetOptOut(ctx, to) })
				}
			case 9: // sanction (permanent or temporary) of a throw-away address
				ad := sdk.AccAddress([]byte(fmt.Sprintf("verif_sanctioned_%04d", r.Intn(10000))))
				temp := r.Bool()
				prop := uint64(1 + r.Intn(5))
				desc = append(desc, "sanction")
				ops = append(ops, func(c *genChain, ctx sdk.Context) error {
					if temp {
						return c.a.SanctionKeeper.AddTemporarySanction(ctx, prop, ad)
					}
					return c.a.SanctionKeeper.SanctionAddresses(ctx, ad)
				})
			case 10: // trigger on a future (or near) block height with a bank send action
				owner, to := pick(), pick()
				hOff := uint64(r.Intn(4))
				// the gas left on the creating transaction's meter is what the trigger prepays: vary it
				// (an unlimited meter always stores the maximum, which hides a lost or rewritten limit)
				gasLeft := uint64(0)
				if r.Chance(70) {
					gasLeft = uint64(120_000 + r.Intn(1_500_000))
				}
				// some actions fail when they run (amount far above any balance): a failed trigger must
				// leave nothing behind either
				sendAmt := int64(1)
				if r.Chance(30) {
					sendAmt = 4_000_000_000_000_000
				}
				desc = append(desc, "trigger")
				ops = append(ops, func(c *genChain, ctx sdk.Context) error {
					msg, err := triggertypes.NewCreateTriggerRequest([]string{owner.String()},
						&triggertypes.BlockHeightEvent{BlockHeight: uint64(c.height) + hOff},
						[]sdk.Msg{&banktypes.MsgSend{FromAddress: owner.String(), ToAddress: to.String(), Amount: sdk.NewCoins(sdk.NewInt64Coin("usdx", sendAmt))}})
					if err != nil {
						return err
					}
					if gasLeft > 0 {
						ctx = ctx.WithGasMeter(storetypes.NewGasMeter(gasLeft))
					}
					resp, err := triggerkeeper.NewMsgServerImpl(c.a.TriggerKeeper).CreateTrigger(ctx, msg)
					if testing.Verbose() && c.label == "run1" {
						fmt.Printf("TRIG create at h=%d ev=%d resp=%v err=%v\n", c.height, uint64(c.height)+hOff, resp, err)
					}
					return err
				})
			case 11: // msg fee
				url := []string{"/cosmos.bank.v1beta1.MsgSend", "/provenance.name.v1.MsgBindNameRequest", "/provenance.marker.v1.MsgMintRequest"}[r.Intn(3)]
				rcpt := ""
				bips := uint32(0)
				if r.Bool() {
					rcpt = pick().String()
					bips = uint32(r.Intn(10001))
					if r.Chance(45) {
						bips = []uint32{0, 0, 1, 5000, 9999, 10000}[r.Intn(6)] // a recipient with an explicit 0 split is valid
					}
				}
				fee := int64(1 + r.Intn(1000))
				desc = append(desc, "msgfee")
				ops = append(ops, func(c *genChain, ctx sdk.Context) error {
					return c.a.MsgFeesKeeper.SetMsgFee(ctx, msgfeestypes.NewMsgFee(url, sdk.NewInt64Coin("nhash", fee), rcpt, bips))
				})
			case 12, 13: // metadata: scope spec, then scope (+ session + record)
				if len(scopeSpecs) == 0 || r.Chance(25) {
					specID := metadatatypes.ScopeSpecMetadataAddress(genUUID(r))
					owner := pick()
					scopeSpecs = append(scopeSpecs, specID)
					desc = append(desc, "scopespec")
					ops = append(ops, func(c *genChain, ctx sdk.Context) error {
						c.a.MetadataKeeper.SetScopeSpecification(ctx, metadatatypes.ScopeSpecification{SpecificationId: specID,
							OwnerAddresses: []string{owner.String()}, PartiesInvolved: []metadatatypes.PartyType{metadatatypes.PartyType_PARTY_TYPE_OWNER}})
						return nil
					})
				} else {
					specID := scopeSpecs[r.Intn(len(scopeSpecs))]
					scopeID := metadatatypes.ScopeMetadataAddress(genUUID(r))
					owner, vo := pick(), pick()
					desc = append(desc, "scope")
					// a net asset value of the scope, priced in usd or in a marker denom (the record must
					// survive an export/import also after that marker has been destroyed and purged)
					navDenom := ""
					if r.Chance(60) {
						navDenom = "usd"
						if len(markers) > 0 && r.Chance(70) {
							navDenom = markers[r.Intn(len(markers))]
						}
					}
					navAmt := int64(1 + r.Intn(100000))
					// one scope in five is an "old" one: its stored bytes still carry a value owner (scopes written
					// before the value owner moved into the bank module were never rewritten; readScopeBz ignores
					// the field) and its token has since moved to another account
					legacy, newVO := r.Chance(20), pick()
					if legacy {
						desc = append(desc, "scope-legacy-bytes")
					}
					ops = append(ops, func(c *genChain, ctx sdk.Context) error {
						sc := metadatatypes.Scope{ScopeId: scopeID, SpecificationId: specID,
							Owners:            []metadatatypes.Party{{Address: owner.String(), Role: metadatatypes.PartyType_PARTY_TYPE_OWNER}},
							DataAccess:        []string{vo.String()},
							ValueOwnerAddress: vo.String()}
						if err := c.a.MetadataKeeper.SetScope(ctx, sc); err != nil {
							return err
						}
						if legacy {
							ctx.KVStore(c.a.GetKey("metadata")).Set(scopeID.Bytes(), c.a.AppCodec().MustMarshal(&sc))
							if !newVO.Equals(vo) {
								if err := c.a.BankKeeper.SendCoins(ctx, vo, newVO, scopeID.Coins()); err != nil {
									return err
								}
							}
						}
						if navDenom != "" {
							return c.a.MetadataKeeper.AddSetNetAssetValues(ctx, scopeID,
								[]metadatatypes.NetAssetValue{metadatatypes.NewNetAssetValue(sdk.NewInt64Coin(navDenom, navAmt), 1)}, "verif")
						}
						return nil
					})
				}
			case 15: // marker cancel (+ delete): a destroyed marker lives until the next BeginBlocker removes it
				if len(markers) == 0 {
					continue
				}
				denom := markers[r.Intn(len(markers))]
				alsoDelete := r.Chance(70)
				desc = append(desc, "markerdestroy:"+denom)
				ops = append(ops, func(c *genChain, ctx sdk.Context) error {
					m, err := c.a.MarkerKeeper.GetMarkerByDenom(ctx, denom)
					if err != nil {
						return err
					}
					acl := m.GetAccessList()
					if len(acl) == 0 {
						return fmt.Errorf("no admin")
					}
					admin, _ := sdk.AccAddressFromBech32(acl[0].Address)
					// all coins must be back in the marker account: burn is not needed, return what the admin holds
					bal := c.a.BankKeeper.GetBalance(ctx, admin, denom)
					if bal.IsPositive() {
						if err := c.a.BankKeeper.SendCoins(markertypes.WithBypass(ctx), admin, m.GetAddress(), sdk.NewCoins(bal)); err != nil {
							return err
						}
					}
					if err := c.a.MarkerKeeper.CancelMarker(ctx, admin, denom); err != nil {
						return err
					}
					if alsoDelete {
						return c.a.MarkerKeeper.DeleteMarker(ctx, admin, denom)
					}
					return nil
				})
			case 16: // (one in three) quarantine: a multi-sender record, partially accepted, next to a single-sender one
				to, f1, f2 := pick(), pick(), pick()
				amt := int64(1 + r.Intn(20))
				if !r.Chance(34) {
					continue
				}
				if r.Chance(45) {
					// three senders, the third one accepted: the record's unaccepted senders are [f1 f2];
					// next to it a two-sender record naming the same two in the OTHER order
					f3 := pick()
					amt2 := int64(1 + r.Intn(20))
					desc = append(desc, "quarantine-multi3")
					ops = append(ops, func(c *genChain, ctx sdk.Context) error {
						if f1.Equals(f2) || f1.Equals(f3) || f2.Equals(f3) || to.Equals(f1) || to.Equals(f2) || to.Equals(f3) {
							return fmt.Errorf("need four distinct accounts")
						}
						if err := c.a.QuarantineKeeper.SetOptIn(ctx, to); err != nil {
							return err
						}
						holder := c.a.QuarantineKeeper.GetFundsHolder()
						coins := sdk.NewCoins(sdk.NewInt64Coin("usdx", amt))
						coins2 := sdk.NewCoins(sdk.NewInt64Coin("usdx", amt2))
						if err := c.a.BankKeeper.SendCoins(quarantine.WithBypass(ctx), f1, holder, coins.Add(coins2...)); err != nil {
							return err
						}
						if err := c.a.QuarantineKeeper.AddQuarantinedCoins(ctx, coins, to, f1, f2, f3); err != nil {
							return err
						}
						if err := c.a.QuarantineKeeper.AddQuarantinedCoins(ctx, coins2, to, f2, f1); err != nil {
							return err
						}
						_, err := c.a.QuarantineKeeper.AcceptQuarantinedFunds(ctx, to, f3)
						return err
					})
					continue
				}
				desc = append(desc, "quarantine-multi")
				ops = append(ops, func(c *genChain, ctx sdk.Context) error {
					if f1.Equals(f2) || to.Equals(f1) || to.Equals(f2) {
						return fmt.Errorf("need three distinct accounts")
					}
					if testing.Verbose() {
						fmt.Println("QMULTI start")
					}
					if err := c.a.QuarantineKeeper.SetOptIn(ctx, to); err != nil {
						return err
					}
					coins := sdk.NewCoins(sdk.NewInt64Coin("usdx", amt))
					holder := c.a.QuarantineKeeper.GetFundsHolder()
					// the funds of a two-sender record (as a multi-input transfer would leave them)
					if err := c.a.BankKeeper.SendCoins(quarantine.WithBypass(ctx), f1, holder, coins); err != nil {
						return err
					}
					if err := c.a.QuarantineKeeper.AddQuarantinedCoins(ctx, coins, to, f1, f2); err != nil {
						return err
					}
					// a plain quarantined send from f2 alone
					if err := c.a.BankKeeper.SendCoins(ctx, f2, to, coins); err != nil {
						return err
					}
					// accept f1 only: the two-sender record becomes partially accepted
					_, err := c.a.QuarantineKeeper.AcceptQuarantinedFunds(ctx, to, f1)
					if testing.Verbose() {
						fmt.Println("QMULTI done err=", err)
					}
					return err
				})
			case 17: // module parameters, boundary values included (zero splits, zero/huge limits, flags off)
				which := r.Intn(6)
				v := r.Intn(4)
				desc = append(desc, fmt.Sprintf("params:%d", which))
				ops = append(ops, func(c *genChain, ctx sdk.Context) error {
					switch which {
					case 0: // exchange: a denom split of exactly 0 is an exemption, not "unset"
						splits := []uint32{0, 1, 10000, 350}
						c.a.ExchangeKeeper.SetParams(ctx, &exchange.Params{
							DefaultSplit: splits[(v+1)%4],
							DenomSplits: []exchange.DenomSplit{{Denom: "nhash", Split: splits[v]}, {Denom: "usdx", Split: splits[(v+2)%4]}},
							FeeCreatePaymentFlat: []sdk.Coin{sdk.NewInt64Coin("nhash", int64(v))}[:v%2],
						})
					case 1: // marker
						mp := c.a.MarkerKeeper.GetParams(ctx)
						mp.EnableGovernance = v%2 == 0
						mp.MaxSupply = []sdkmath.Int{sdkmath.ZeroInt(), sdkmath.NewInt(1), sdkmath.NewIntFromUint64(1 << 63), sdkmath.NewIntWithDecimal(1, 30)}[v]
						c.a.MarkerKeeper.SetParams(ctx, mp)
					case 2: // msgfees
						fp := c.a.MsgFeesKeeper.GetParams(ctx)
						fp.NhashPerUsdMil = []uint64{0, 1, 25_000_000, 1 << 63}[v]
						c.a.MsgFeesKeeper.SetParams(ctx, fp)
					case 3: // name
						np := c.a.NameKeeper.GetParams(ctx)
						np.AllowUnrestrictedNames = v%2 == 0
						np.MaxNameLevels = []uint32{16, 2, 16, 100}[v]
						c.a.NameKeeper.SetParams(ctx, np)
					case 4: // attribute
						c.a.AttributeKeeper.SetParams(ctx, attrtypes.Params{MaxValueLength: []uint32{0, 1, 10000, 1 << 31}[v]})
					case 5: // sanction: immediate thresholds (empty = not available)
						mk := func(n int64) sdk.Coins {
							if n == 0 {
								return nil
							}
							return sdk.NewCoins(sdk.NewInt64Coin("nhash", n))
						}
						return c.a.SanctionKeeper.SetParams(ctx, &sanction.Params{
							ImmediateSanctionMinDeposit: mk(int64(v) * 1000), ImmediateUnsanctionMinDeposit: mk(int64((v+1)%4) * 500)})
					}
					return nil
				})
			case 14: // plain send
				from, to := pick(), pick()
				amt := int64(1 + r.Intn(1000))
				desc = append(desc, "send")
				ops = append(ops, func(c *genChain, ctx sdk.Context) error {
					return c.a.BankKeeper.SendCoins(ctx, from, to, sdk.NewCoins(sdk.NewInt64Coin("nhash", amt)))
				})
			}
		}
		// transient state at the export boundary: keeper-level ops run BEFORE this block's
		// BeginBlocker, which purges destroyed markers at once, so a marker can only be in the
		// destroyed status when the export is taken if a TRANSACTION of the last block cancels and
		// deletes it (the next BeginBlocker would remove it together with its account).
		var txs []genTx
		if b == nBlocks-1 && len(markers) > 0 && r.Chance(45) {
			denom := markers[r.Intn(len(markers))]
			mi := markerMgr[denom]
			mgr := addrs[mi]
			desc = append(desc, "tx-markerdestroy:"+denom)
			ops = append(ops, func(c *genChain, ctx sdk.Context) error {
				// everything in circulation goes back to the marker account first
				m, err := c.a.MarkerKeeper.GetMarkerByDenom(ctx, denom)
				if err != nil {
					return err
				}
				for _, a := range addrs {
					if bal := c.a.BankKeeper.GetBalance(ctx, a, denom); bal.IsPositive() {
						if err := c.a.BankKeeper.SendCoins(markertypes.WithBypass(ctx), a, m.GetAddress(), sdk.NewCoins(bal)); err != nil {
							return err
						}
					}
				}
				return nil
			})
			txs = append(txs, genTx{signer: mi, gas: 900000, fee: sdk.NewCoins(sdk.NewInt64Coin("nhash", 5_000_000_000)),
				msgs: func(c *genChain) []sdk.Msg {
					return []sdk.Msg{
						&markertypes.MsgCancelRequest{Denom: denom, Administrator: mgr.String()},
						&markertypes.MsgDeleteRequest{Denom: denom, Administrator: mgr.String()},
					}
				}})
		}
		plan = append(plan, ops)
		// signed transactions delivered through FinalizeBlock in this block
		ntx := r.Intn(4)
		for i := 0; i < ntx; i++ {
			signer := r.Intn(len(addrs))
			from := addrs[signer]
			switch r.Intn(4) {
			case 0, 1: // bank send (sometimes more than the balance: a failing tx pays the base fee only)
				to := pick()
				amt := int64(1 + r.Intn(1000))
				if r.Chance(15) {
					amt = 4_000_000_000_000_000
				}
				desc = append(desc, "tx-send")
				txs = append(txs, genTx{signer: signer, gas: 400000, fee: sdk.NewCoins(sdk.NewInt64Coin("nhash", 2_000_000_000)),
					msgs: func(c *genChain) []sdk.Msg {
						return []sdk.Msg{&banktypes.MsgSend{FromAddress: from.String(), ToAddress: to.String(), Amount: sdk.NewCoins(sdk.NewInt64Coin("nhash", amt))}}
					}})
			case 2: // several custom assessed fees to distinct (possibly new) recipients in one tx
				n := 2 + r.Intn(3)
				var rcpts []string
				for j := 0; j < n; j++ {
					rcpts = append(rcpts, sdk.AccAddress([]byte(fmt.Sprintf("verif_fee_rcpt_%06d", r.Intn(1000000)))).String())
				}
				bips := fmt.Sprintf("%d", r.Intn(10001))
				desc = append(desc, "tx-assess")
				txs = append(txs, genTx{signer: signer, gas: 900000, fee: sdk.NewCoins(sdk.NewInt64Coin("nhash", 5_000_000_000)),
					msgs: func(c *genChain) []sdk.Msg {
						var ms []sdk.Msg
						for j, rc := range rcpts {
							m := msgfeestypes.NewMsgAssessCustomMsgFeeRequest(fmt.Sprintf("fee%d", j), sdk.NewInt64Coin("nhash", int64(1000*(j+1))), rc, from.String(), bips)
							ms = append(ms, &m)
						}
						return ms
					}})
			case 3: // a send of a type that may carry a msg fee set earlier by a keeper op
				to := pick()
				desc = append(desc, "tx-send2")
				txs = append(txs, genTx{signer: signer, gas: 500000, fee: sdk.NewCoins(sdk.NewInt64Coin("nhash", 3_000_000_000)),
					msgs: func(c *genChain) []sdk.Msg {
						return []sdk.Msg{
							&banktypes.MsgSend{FromAddress: from.String(), ToAddress: to.String(), Amount: sdk.NewCoins(sdk.NewInt64Coin("usdx", 1))},
							&banktypes.MsgSend{FromAddress: from.String(), ToAddress: to.String(), Amount: sdk.NewCoins(sdk.NewInt64Coin("apple", 1))},
						}
					}})
			}
		}
		txplan = append(txplan, txs)
	}
	return plan, txplan, desc
}

// runBlock applies one block's keeper-level ops (each atomically) directly to the root multistore
// (uncached context: FinalizeBlock's own cache layer is discarded and rebuilt per block, so
// writes made through it after FinalizeBlock would be lost), then delivers the block's signed
// transactions through FinalizeBlock (real begin/end blockers) and commits.
func (c *genChain) runBlock(ops []genOp, txs []genTx) string {
	var res []string
	next := c.height + 1
	nextTime := c.now.Add(7 * time.Second)
	uctx := c.a.BaseApp.NewUncachedContext(false, cmtproto.Header{ChainID: genChainID, Height: next, Time: nextTime})
	for _, op := range ops {
		save := c.height
		c.height = next
		err, pan := Try(uctx, func(ctx sdk.Context) error { return op(c, ctx) })
		c.height = save
		switch {
		case pan != "":
			res = append(res, "p")
		case err != nil:
			res = append(res, "e")
		default:
			res = append(res, "o")
		}
	}
	c.beginBlock(txs...)
	c.commit()
	return strings.Join(res, "")
}

// genKeys: deterministic keys of the named accounts (they sign the plan's transactions).
func genKeys() []*secp256k1.PrivKey {
	var ks []*secp256k1.PrivKey
	for i := 0; i < 6; i++ {
		ks = append(ks, secp256k1.GenPrivKeyFromSecret([]byte(fmt.Sprintf("verif-gen-account-%02d", i))))
	}
	return ks
}

func genAddrs() []sdk.AccAddress {
	var addrs []sdk.AccAddress
	for _, k := range genKeys() {
		addrs = append(addrs, sdk.AccAddress(k.PubKey().Address()))
	}
	return addrs
}

// genTx is one signed transaction of the plan: signer index, messages built from the chain's
// current state, declared fee and gas.
type genTx struct {
	signer int
	msgs   func(c *genChain) []sdk.Msg
	fee    sdk.Coins
	gas    uint64
}

// signTx signs with the account number / sequence currently in the chain's committed state.
func (c *genChain) signTx(tx genTx) ([]byte, error) {
	keys := genKeys()
	priv := keys[tx.signer]
	addr := sdk.AccAddress(priv.PubKey().Address())
	ctx := c.a.BaseApp.NewContextLegacy(true, cmtproto.Header{ChainID: genChainID, Height: c.height})
	acc := c.a.AccountKeeper.GetAccount(ctx, addr)
	if acc == nil {
		return nil, fmt.Errorf("no account")
	}
	cfg := c.a.GetTxConfig()
	b := cfg.NewTxBuilder()
	if err := b.SetMsgs(tx.msgs(c)...); err != nil {
		return nil, err
	}
	b.SetFeeAmount(tx.fee)
	b.SetGasLimit(tx.gas)
	seq := acc.GetSequence() + c.pendingSeq[tx.signer]
	mode := signing.SignMode(cfg.SignModeHandler().DefaultMode())
	sig := signing.SignatureV2{PubKey: priv.PubKey(), Data: &signing.SingleSignatureData{SignMode: mode}, Sequence: seq}
	if err := b.SetSignatures(sig); err != nil {
		return nil, err
	}
	sd := authsigning.SignerData{Address: addr.String(), ChainID: genChainID, AccountNumber: acc.GetAccountNumber(), Sequence: seq, PubKey: priv.PubKey()}
	sig, err := clienttx.SignWithPrivKey(ctx, mode, sd, b, priv, cfg, seq)
	if err != nil {
		return nil, err
	}
	if err := b.SetSignatures(sig); err != nil {
		return nil, err
	}
	c.pendingSeq[tx.signer]++
	return cfg.TxEncoder()(b.GetTx())
}

// genRawStoreExempt: modules whose raw store legitimately differs after export/import
// (representation only); they are compared through their exported genesis instead.
var genRawStoreExempt = map[string]bool{}

// genRawStores hashes every key/value of each custom module's KV store.
func genRawStores(c *genChain) map[string]string {
	res := map[string]string{}
	ctx := c.a.BaseApp.NewContextLegacy(true, cmtproto.Header{ChainID: genChainID, Height: c.a.LastBlockHeight()})
	for _, m := range genCompareModules {
		kn := m
		if n, ok := genStoreKeyName[m]; ok {
			kn = n
		}
		key := c.a.GetKey(kn)
		if key == nil {
			res[m] = "nokey"
			continue
		}
		h := sha256.New()
		n := 0
		it := ctx.KVStore(key).Iterator(nil, nil)
		for ; it.Valid(); it.Next() {
			if m == "auth" && len(it.Key()) == 1 && it.Key()[0] == 0x02 {
				// the global account-number counter: numbers consumed by accounts that no longer exist
				// (a destroyed marker's account) are not re-consumed after an import
				continue
			}
			if m == "metadata" && len(it.Key()) == 17 && it.Key()[0] == 0x00 {
				// a scope: the value_owner_address field of the STORED bytes is dead data (readScopeBz
				// blanks it; the owner is whoever holds the scope's token) and is not exported
				var sc metadatatypes.Scope
				if c.a.AppCodec().Unmarshal(it.Value(), &sc) == nil {
					sc.ValueOwnerAddress = ""
					h.Write(it.Key())
					h.Write([]byte{0})
					h.Write(c.a.AppCodec().MustMarshal(&sc))
					h.Write([]byte{1})
					n++
					continue
				}
			}
			if m == "attribute" && len(it.Key()) > 9 && it.Key()[0] == 0x04 {
				// expiration-queue entry: count only LIVE entries (the attribute exists and this is the
				// entry of its stored expiration). Stale entries (left when an identical attribute is
				// re-added or a name is purged) are dropped by the sweep without effect since f2249cacd
				// and are not part of the exported genesis.
				live := false
				if bz := ctx.KVStore(key).Get(attrtypes.GetAddrAttributeKeyFromExpireKey(it.Key())); bz != nil {
					var at attrtypes.Attribute
					if c.a.AppCodec().Unmarshal(bz, &at) == nil && bytes.Equal(attrtypes.AttributeExpireKey(at), it.Key()) {
						live = true
					}
				}
				if !live {
					continue
				}
			}
			if m == "attribute" && len(it.Key()) > 0 && it.Key()[0] == 0x03 {
				// name->address lookup COUNTERS are derived data: SetAttribute increments the counter
				// also when it overwrites an identical (account, name, value) attribute (pinned by the
				// repository's own TestSetAttribute), InitGenesis recounts from the records. The
				// records, and therefore who holds which attribute, are compared through the export.
				continue
			}
			h.Write(it.Key())
			h.Write([]byte{0xff})
			h.Write(it.Value())
			h.Write([]byte{0xfe})
			n++
		}
		it.Close()
		res[m] = fmt.Sprintf("%d:%x", n, h.Sum(nil)[:8])
	}
	return res
}

// genAttrCounters checks the attribute module's derived name->address lookup counters against
// the attribute records: for every (name, account) holding n attributes the counter must be
// exactly n on a freshly initialised chain (InitGenesis recounts from the records) and at least n
// on the original chain (SetAttribute also counts an overwrite); a counter without records must
// not exist on a freshly initialised chain. "" = fine.
func genAttrCounters(c *genChain, exact bool) string {
	ctx := c.a.BaseApp.NewContextLegacy(true, cmtproto.Header{ChainID: genChainID, Height: c.a.LastBlockHeight()})
	store := ctx.KVStore(c.a.GetKey("attribute"))
	want := map[string]uint64{}
	_ = c.a.AttributeKeeper.IterateRecords(ctx, attrtypes.AttributeKeyPrefix, func(a attrtypes.Attribute) error {
		want[string(attrtypes.AttributeNameAddrKeyPrefix(a.Name, a.GetAddressBytes()))]++
		return nil
	})
	for k, n := range want {
		bz := store.Get([]byte(k))
		var got uint64
		if len(bz) == 8 {
			got = sdk.BigEndianToUint64(bz)
		}
		if got < n || (exact && got != n) {
			return fmt.Sprintf("attribute-counter(have %d, records %d)", got, n)
		}
	}
	if exact {
		it := store.Iterator([]byte{0x03}, []byte{0x04})
		defer it.Close()
		for ; it.Valid(); it.Next() {
			if _, ok := want[string(it.Key())]; !ok {
				return "attribute-counter(without records)"
			}
		}
	}
	return ""
}

// genQuarantineDiff classifies a difference between the quarantine genesis of the original and
// of the re-initialised chain:
//   ""                           identical
//   quarantine-funds-lost        the total quarantined for some receiver differs (coins unclaimable)
//   quarantine-merged-records    only the representation differs: entries that share receiver and
//                                unaccepted senders (the export drops accepted senders) came back as
//                                one entry with the coins added
//   quarantine                   anything else
func genQuarantineDiff(a, b string) string {
	if a == b {
		return ""
	}
	type qf struct {
		To       string     `json:"to_address"`
		Unacc    []string   `json:"unaccepted_from_addresses"`
		Coins    []sdk.Coin `json:"coins"`
		Declined bool       `json:"declined"`
	}
	type gs struct {
		Addrs []string          `json:"quarantined_addresses"`
		Auto  []json.RawMessage `json:"auto_responses"`
		Funds []qf              `json:"quarantined_funds"`
	}
	var ga, gb gs
	if json.Unmarshal([]byte(a), &ga) != nil || json.Unmarshal([]byte(b), &gb) != nil {
		return "quarantine"
	}
	canonRest := func(g gs) string {
		ad := append([]string{}, g.Addrs...)
		sort.Strings(ad)
		var au []string
		for _, x := range g.Auto {
			au = append(au, string(x))
		}
		sort.Strings(au)
		return strings.Join(ad, ",") + "|" + strings.Join(au, ",")
	}
	if canonRest(ga) != canonRest(gb) {
		return "quarantine"
	}
	totals := func(g gs) string {
		m := map[string]sdk.Coins{}
		for _, f := range g.Funds {
			m[f.To] = m[f.To].Add(f.Coins...)
		}
		var ks []string
		for k, v := range m {
			ks = append(ks, k+"="+v.String())
		}
		sort.Strings(ks)
		return strings.Join(ks, ";")
	}
	if totals(ga) != totals(gb) {
		return "quarantine-funds-lost"
	}
	merged := func(g gs) string {
		type ent struct {
			coins    sdk.Coins
			declined bool
		}
		m := map[string]*ent{}
		for _, f := range g.Funds {
			u := append([]string{}, f.Unacc...)
			sort.Strings(u)
			k := f.To + "<" + strings.Join(u, "+")
			if m[k] == nil {
				m[k] = &ent{}
			}
			m[k].coins = m[k].coins.Add(f.Coins...)
			m[k].declined = m[k].declined || f.Declined
		}
		var ks []string
		for k, v := range m {
			ks = append(ks, fmt.Sprintf("%s=%s/%v", k, v.coins, v.declined))
		}
		sort.Strings(ks)
		return strings.Join(ks, ";")
	}
	if merged(ga) == merged(gb) {
		return "quarantine-merged-records"
	}
	return "quarantine"
}

// genQuarantineStateDiff compares the quarantine module STATE of the original and of the re-initialised
// chain: "" when the opt-ins and auto-responses are identical and every receiver has the same total
// quarantined; "quarantine-state" / "quarantine-state-funds" otherwise. (Records are compared by total
// per receiver because of the representation change described at genQuarantineDiff.)
func genQuarantineStateDiff(a, b *genChain) string {
	digest := func(c *genChain) (string, string) {
		ctx := c.a.BaseApp.NewContextLegacy(true, cmtproto.Header{ChainID: genChainID, Height: c.a.LastBlockHeight()})
		h := sha256.New()
		st := ctx.KVStore(c.a.GetKey("quarantine"))
		for _, pre := range []byte{0x00, 0x01} {
			it := storetypes.KVStorePrefixIterator(st, []byte{pre})
			for ; it.Valid(); it.Next() {
				fmt.Fprintf(h, "%x=%x;", it.Key(), it.Value())
			}
			it.Close()
		}
		tot := map[string]sdk.Coins{}
		c.a.QuarantineKeeper.IterateQuarantineRecords(ctx, nil, func(to, _ sdk.AccAddress, rec *quarantine.QuarantineRecord) bool {
			tot[to.String()] = tot[to.String()].Add(rec.Coins...)
			return false
		})
		var ks []string
		for k, v := range tot {
			ks = append(ks, k+"="+v.String())
		}
		sort.Strings(ks)
		return fmt.Sprintf("%x", h.Sum(nil)), strings.Join(ks, ";")
	}
	a1, a2 := digest(a)
	b1, b2 := digest(b)
	if a2 != b2 {
		if testing.Verbose() {
			fmt.Println("QUARANTINE STATE totals", a2, "|", b2)
		}
		return "quarantine-state-funds"
	}
	if a1 != b1 {
		return "quarantine-state"
	}
	return ""
}

func genPrintStoreDiff(a, b *genChain, m string) {
	dump := func(c *genChain) map[string]string {
		res := map[string]string{}
		ctx := c.a.BaseApp.NewContextLegacy(true, cmtproto.Header{ChainID: genChainID, Height: c.a.LastBlockHeight()})
		kn := m
		if n, ok := genStoreKeyName[m]; ok {
			kn = n
		}
		it := ctx.KVStore(c.a.GetKey(kn)).Iterator(nil, nil)
		for ; it.Valid(); it.Next() {
			res[hex.EncodeToString(it.Key())] = hex.EncodeToString(it.Value())
		}
		it.Close()
		return res
	}
	da, db := dump(a), dump(b)
	for k, v := range da {
		if db[k] != v {
			fmt.Printf("STOREDIFF %s key=%s orig=%s imported=%s\n", m, k, v, db[k])
		}
	}
	for k, v := range db {
		if _, ok := da[k]; !ok {
			fmt.Printf("STOREDIFF %s key=%s orig=<none> imported=%s\n", m, k, v)
		}
	}
}

func raw1x(c *genChain, m string) string { return genRawStores(c)[m] }

func genExportCustom(t *testing.T, a *app.App) (map[string]string, []byte, error) {
	exp, err := a.ExportAppStateAndValidators(false, nil, nil)
	if err != nil {
		return nil, nil, err
	}
	var gs map[string]json.RawMessage
	if err := json.Unmarshal(exp.AppState, &gs); err != nil {
		return nil, nil, err
	}
	res := map[string]string{}
	for _, m := range genCompareModules {
		var v any
		if raw, ok := gs[m]; ok {
			_ = json.Unmarshal(raw, &v)
		}
		canon, _ := json.Marshal(v) // map keys sorted by encoding/json
		res[m] = string(canon)
	}
	return res, exp.AppState, nil
}

// genCase runs one complete case and returns the op line and the implementation's verdicts.
func genCase(t *testing.T, seed uint64, nBlocks int, out *Out) (string, string) {
	addrs := genAddrs()
	genesis := genGenesisBytes(t, addrs)
	r := NewRNG(seed)
	plan, txplan, desc := genPlan(r, nBlocks, addrs)
	for _, d := range desc {
		out.Count("genop:" + strings.SplitN(d, ":", 2)[0])
	}
	start := time.Unix(1_700_000_000, 0).UTC()
	newChain := func(db dbm.DB, home string) *genChain {
		c := &genChain{t: t, a: genNewApp(t, db, home, genesis), db: db, now: start, addrs: addrs}
		// an empty first block flushes the genesis state (it lives in InitChain's cache layer until
		// the first FinalizeBlock; root-store writes made before that would be overwritten)
		c.beginBlock()
		c.commit()
		c.hashes, c.resps = nil, nil
		return c
	}
	// run 1 and run 2: in-memory
	c1 := newChain(dbm.NewMemDB(), t.TempDir())
	c1.label = "run1"
	c2 := newChain(dbm.NewMemDB(), t.TempDir())
	c2.label = "run2"
	var res1, res2 []string
	for i, ops := range plan {
		res1 = append(res1, c1.runBlock(ops, txplan[i]))
	}
	for i, ops := range plan {
		res2 = append(res2, c2.runBlock(ops, txplan[i]))
	}
	for _, rr := range c1.resps {
		for _, cg := range strings.Split(strings.SplitN(rr, ":", 2)[1], ",") {
			if cg == "" {
				continue
			}
			if strings.HasPrefix(cg, "0/") {
				out.Counts["gentx:ok"]++
			} else {
				out.Counts["gentx:failed"]++
			}
		}
	}
	for _, rr := range res1 {
		out.Counts["genres:ok"] += strings.Count(rr, "o")
		out.Counts["genres:err"] += strings.Count(rr, "e")
		out.Counts["genres:panic"] += strings.Count(rr, "p")
	}
	det := "same"
	for i := range c1.hashes {
		if c1.hashes[i] != c2.hashes[i] || res1[i] != res2[i] {
			det = fmt.Sprintf("diff:block%d", i+1)
			break
		}
		if c1.resps[i] != c2.resps[i] {
			det = fmt.Sprintf("diff:block%d-results", i+1)
			break
		}
	}
	// run 3: on-disk, closed and reopened at a block boundary
	dir, err := os.MkdirTemp("", "verif-gen-db")
	if err != nil {
		t.Fatal(err)
	}
	defer os.RemoveAll(dir)
	db3, err := dbm.NewGoLevelDB("application", dir, nil)
	if err != nil {
		t.Fatal(err)
	}
	home3 := t.TempDir()
	c3 := newChain(db3, home3)
	c3.label = "restart"
	stopAt := 1 + r.Intn(len(plan))
	restart := "same"
	for i, ops := range plan {
		c3.runBlock(ops, txplan[i])
		if i+1 == stopAt {
			if err := db3.Close(); err != nil {
				t.Fatal(err)
			}
			db3, err = dbm.NewGoLevelDB("application", dir, nil)
			if err != nil {
				t.Fatal(err)
			}
			// (a fresh home: the wasm VM of the stopped app still holds its directory lock in this process)
			c3.a = genNewApp(t, db3, t.TempDir(), nil)
			c3.db = db3
			if c3.a.LastBlockHeight() != c3.height {
				restart = fmt.Sprintf("diff:height-after-reopen-%d-vs-%d", c3.a.LastBlockHeight(), c3.height)
				break
			}
		}
	}
	if restart == "same" {
		for i := range c1.hashes {
			if i >= len(c3.hashes) || c1.hashes[i] != c3.hashes[i] {
				restart = fmt.Sprintf("diff:block%d", i+1)
				break
			}
			if c1.resps[i] != c3.resps[i] {
				restart = fmt.Sprintf("diff:block%d-results", i+1)
				break
			}
		}
	}
	_ = db3.Close()
	// genesis round trip
	round := "same"
	{
		// measured: how often the export boundary carries a marker in the destroyed status
		cctx := c1.a.BaseApp.NewUncachedContext(false, cmtproto.Header{ChainID: genChainID, Height: c1.height, Time: c1.now})
		c1.a.MarkerKeeper.IterateMarkers(cctx, func(m markertypes.MarkerAccountI) bool {
			if m.GetStatus() == markertypes.StatusDestroyed {
				out.Count("export:destroyed-marker-present")
				return true
			}
			return false
		})
	}
	exp1, appState, err := genExportCustom(t, c1.a)
	if err != nil {
		round = "err:export"
	} else {
		var gsAll map[string]json.RawMessage
		_ = json.Unmarshal(appState, &gsAll)
		var verr error
		for _, m := range genCustomModules {
			// (only the custom modules named by the property; ibc's own export does not validate
			// in the test app and is out of scope)
			if mb, ok := c1.a.BasicModuleManager[m]; ok {
				if hg, ok := mb.(interface {
					ValidateGenesis(codec.JSONCodec, client.TxEncodingConfig, json.RawMessage) error
				}); ok {
					if e := hg.ValidateGenesis(c1.a.AppCodec(), c1.a.GetTxConfig(), gsAll[m]); e != nil {
						verr = fmt.Errorf("%s: %w", m, e)
					}
				}
			}
		}
		if verr != nil {
			round = "err:validate"
			if testing.Verbose() {
				fmt.Println("VALIDATE", verr)
			}
		} else {
			func() {
				defer func() {
					if rec := recover(); rec != nil {
						round = "err:import-panic"
						if testing.Verbose() {
							fmt.Println("IMPORT PANIC", rec)
						}
					}
				}()
				// the re-initialised chain starts at the height after the export, as a real restart from
				// an exported genesis does; both chains then run the same next (empty) block, so that
				// begin/end blocker effects (queued triggers, expiring attributes, destroyed markers)
				// are the same on both sides of the comparison.
				c4 := &genChain{t: t, a: genNewAppAt(t, dbm.NewMemDB(), t.TempDir(), appState, c1.height+1, c1.now), now: c1.now, height: c1.height, label: "imported"}
				c4.beginBlock()
				c4.commit()
				c1.beginBlock()
				c1.commit()
				exp1, _, err = genExportCustom(t, c1.a)
				if err != nil {
					round = "err:export-next"
					return
				}
				exp2, _, err := genExportCustom(t, c4.a)
				if err != nil {
					round = "err:reexport"
					return
				}
				var bad []string
				raw1, raw4 := genRawStores(c1), genRawStores(c4)
				for _, m := range genCompareModules {
					if m == "quarantine" {
						if cls := genQuarantineDiff(exp1[m], exp2[m]); cls != "" {
							bad = append(bad, cls)
						}
						// the exported genesis can only show what the export wrote: compare the STATE of the
						// two chains too (opt-ins and auto-responses byte for byte, quarantined totals per receiver)
						if cls := genQuarantineStateDiff(c1, c4); cls != "" {
							bad = append(bad, cls)
						}
						continue
					}
					if raw1[m] != raw4[m] && !genRawStoreExempt[m] {
						bad = append(bad, m+"-store")
						if testing.Verbose() {
							fmt.Println("RAWHASH", m, raw1[m], raw4[m])
							genPrintStoreDiff(c1, c4, m)
						}
					}
					if exp1[m] != exp2[m] {
						bad = append(bad, m)
						if testing.Verbose() {
							fmt.Println("ROUNDTRIP DIFF", m, "\n", exp1[m], "\n", exp2[m])
						}
					}
				}
				if cc := genAttrCounters(c4, true); cc != "" {
					bad = append(bad, "attribute-counter")
					if testing.Verbose() {
						fmt.Println("ATTRCOUNTER imported", cc)
					}
				} else if cc := genAttrCounters(c1, false); cc != "" {
					bad = append(bad, "attribute-counter-orig")
					if testing.Verbose() {
						fmt.Println("ATTRCOUNTER original", cc)
					}
				} else if genAttrCounters(c1, true) != "" && len(bad) == 0 {
					// the ORIGINAL chain's counters exceed its record counts (SetAttribute counts an
					// overwrite of an identical attribute): the re-initialised chain recounts, so this
					// part of the attribute store is not reproduced (known finding
					// C18-attribute-counter-not-reproduced; theorem C18Attr.round_trip_normalises_lookup_and_queue)
					bad = append(bad, "attribute-counter-overcount")
				}
				if len(bad) > 0 {
					sort.Strings(bad)
					round = "diff:" + strings.Join(bad, ",")
				}
			}()
		}
	}
	op := fmt.Sprintf("case seed=%d blocks=%d ops=%d", seed, nBlocks, len(desc))
	impl := fmt.Sprintf("determinism=%s restart=%s roundtrip=%s", det, restart, round)
	return op, impl
}

func driveGenesis(t *testing.T, rng *RNG, n int, out *Out) {
	for i := 0; i < n; i++ {
		seed := rng.U64() % 1_000_000_000
		blocks := 4 + rng.Intn(8)
		op, impl := genCase(t, seed, blocks, out)
		out.Count("case")
		out.Emit(op, impl)
	}
}

func replayGenesis(t *testing.T, ops []string, out *Out) {
	for _, op := range ops {
		if strings.HasPrefix(op, "#") {
			continue
		}
		ws := strings.Fields(op)
		var seed uint64
		var blocks int
		fmt.Sscan(kvArg(ws, "seed"), &seed)
		fmt.Sscan(kvArg(ws, "blocks"), &blocks)
		o, impl := genCase(t, seed, blocks, out)
		out.Emit(o, impl)
	}
}

var _ = bytes.Equal
