package harness

// Model "signers" (C10): HOW a write message names its entry.
//
// MsgWriteScopeRequest / MsgWriteSessionRequest / MsgWriteRecordRequest may carry the ids of the
// entry (and of its specification) in OPTIONAL fields instead of in the entry itself: `scope_uuid`
// / `spec_uuid`, `session_id_components` (scope uuid or scope bech32 address + session uuid) /
// `spec_uuid`, `session_id_components` / `contract_spec_uuid`.  ValidateBasic (value receiver)
// converts them on a copy, so the message reaches the message server UNCONVERTED; the endpoint
// calls ConvertOptionalFields itself before it looks the stored entry up.  Which entry is the
// "existing" one (new versus existing entry of the property) therefore depends on that order.
//
// Op key `ids=<form>` (message-server ops `wscope`, `wsession`, `wrecord`, `via=msg|hist` only):
//   (absent)  the ids sit in the entry (scope.scope_id, session.session_id, record.session_id …)
//   opt       every id comes through the optional fields; the entry's own id fields are empty
//   mix       the entry's id comes through the optional field (sessions / records: the scope named
//             by its bech32 ADDRESS), the specification id sits in the entry
//   both      optional fields AND entry ids are filled (consistently)
// The key changes nothing in what the message asks for, so the model ignores it: the verdict is
// computed on the implementation's answer for the same stored state and the same request.

import (
	"strings"

	"github.com/provenance-io/provenance/x/metadata/types"
)

var signersIDForms = []string{"opt", "mix", "both"}

func signersIDFormOK(form string) bool {
	return form == "" || form == "opt" || form == "mix" || form == "both"
}

// signersSessionComponents: the optional spelling of a session id.
func signersSessionComponents(id types.MetadataAddress, scopeByAddr bool) (*types.SessionIdComponents, bool) {
	scopeUUID, err1 := id.ScopeUUID()
	sessUUID, err2 := id.SessionUUID()
	if err1 != nil || err2 != nil {
		return nil, false
	}
	c := &types.SessionIdComponents{SessionUuid: sessUUID.String()}
	if scopeByAddr {
		c.ScopeIdentifier = &types.SessionIdComponents_ScopeAddr{ScopeAddr: types.ScopeMetadataAddress(scopeUUID).String()}
	} else {
		c.ScopeIdentifier = &types.SessionIdComponents_ScopeUuid{ScopeUuid: scopeUUID.String()}
	}
	return c, true
}

// signersScopeMsg: the WriteScope message for `sc` with its ids in the given form.
func signersScopeMsg(form string, sc types.Scope, signers []string) (*types.MsgWriteScopeRequest, bool) {
	msg := &types.MsgWriteScopeRequest{Scope: sc, Signers: signers}
	if form == "" {
		return msg, true
	}
	scopeUUID, err1 := sc.ScopeId.ScopeUUID()
	specUUID, err2 := sc.SpecificationId.ScopeSpecUUID()
	if err1 != nil || err2 != nil || !signersIDFormOK(form) {
		return nil, false
	}
	msg.ScopeUuid = scopeUUID.String()
	switch form {
	case "opt":
		msg.SpecUuid = specUUID.String()
		msg.Scope.ScopeId, msg.Scope.SpecificationId = nil, nil
	case "mix":
		msg.Scope.ScopeId = nil
	case "both":
		msg.SpecUuid = specUUID.String()
	}
	return msg, true
}

// signersSessionMsg: the WriteSession message for `se` with its ids in the given form.
func signersSessionMsg(form string, se types.Session, signers []string) (*types.MsgWriteSessionRequest, bool) {
	msg := &types.MsgWriteSessionRequest{Session: se, Signers: signers}
	if form == "" {
		return msg, true
	}
	comp, ok := signersSessionComponents(se.SessionId, form == "mix")
	specUUID, err := se.SpecificationId.ContractSpecUUID()
	if !ok || err != nil || !signersIDFormOK(form) {
		return nil, false
	}
	msg.SessionIdComponents = comp
	switch form {
	case "opt":
		msg.SpecUuid = specUUID.String()
		msg.Session.SessionId, msg.Session.SpecificationId = nil, nil
	case "mix":
		msg.Session.SessionId = nil
	case "both":
		msg.SpecUuid = specUUID.String()
	}
	return msg, true
}

// signersRecordMsg: the WriteRecord message for `rec` (in a session of contract specification
// `cSpecID`) with its ids in the given form.
func signersRecordMsg(form string, rec types.Record, cSpecID types.MetadataAddress, signers []string) (*types.MsgWriteRecordRequest, bool) {
	msg := &types.MsgWriteRecordRequest{Record: rec, Signers: signers}
	if form == "" {
		return msg, true
	}
	comp, ok := signersSessionComponents(rec.SessionId, form == "mix")
	specUUID, err := cSpecID.ContractSpecUUID()
	if !ok || err != nil || !signersIDFormOK(form) {
		return nil, false
	}
	msg.SessionIdComponents = comp
	switch form {
	case "opt":
		msg.ContractSpecUuid = specUUID.String()
		msg.Record.SessionId = nil
	case "mix":
		msg.Record.SessionId = nil
	case "both":
		msg.ContractSpecUuid = specUUID.String()
	}
	return msg, true
}

// withIDs: a good third of the write messages that go through the message server name
// their entry through the optional id fields (key `ids=`, put before the final `via=` key).
func (g *signersGGen) withIDs(line string) string {
	kind := signersFirst(line)
	if kind != "wscope" && kind != "wsession" && kind != "wrecord" {
		return line
	}
	i := strings.LastIndex(line, " via=")
	if i < 0 || !g.r.Chance(36) {
		return line
	}
	return line[:i] + " ids=" + Pick(g.r, signersIDForms) + line[i:]
}
