package harness

// Stream "signershist" (C10): multi-step HISTORIES of metadata messages on one scope.
//
// Every op of the `signers` stream puts the stored state it needs in place itself, so the state
// always has the shape the CURRENT rules allow.  Here nothing is put in place: a history starts
// on an empty store and every op is a real message (WriteScope, DeleteScope, Add/DeleteScopeOwner,
// WriteSession, WriteRecord, DeleteRecord) sent END TO END through the real message server on
// what the earlier messages of the history left behind.  The scope is rewritten in between — its
// require_party_rollup flag flips, owners come and go, the value owner moves — so sessions and
// records outlive the regime they were written under (a session written with party rollup keeps
// its `optional` parties after the scope is rewritten with rollup off; a session written without
// rollup has parties that are no scope owners after it is turned on).
//
// The op lines are those of the `signers` stream with `via=hist` (and `sid=s|o`: which of the
// two sessions): before every op the stored scope / value owner / sessions / record are READ BACK
// from the keeper and written into the line, so the (stateless) model and the property checker
// judge the implementation's decision on the state the implementation itself produced.  A
// replay executes the messages in order and answers `state-differs` if the stored state is not
// what the line says.  The grants of a history are stored once, before its first op, and
// repeated on every line (generic authorizations: never consumed).

import (
	"fmt"
	"strconv"
	"strings"
	"testing"

	sdk "github.com/cosmos/cosmos-sdk/types"

	metadatakeeper "github.com/provenance-io/provenance/x/metadata/keeper"
	"github.com/provenance-io/provenance/x/metadata/types"
)

func init() {
	drivers["signershist"] = driveSignersHist
	replayers["signershist"] = replaySignersHist
}

type signersHist struct {
	ctx                        sdk.Context
	started                    bool
	grants                     string
	scopeRoles, cRoles, rRoles []types.PartyType
}

// signersHState: the stored state in the op-line syntax.
type signersHState struct {
	scope string            // `none` or rollup/other/owners
	vo    string            // `-` or the holder of the scope's coin
	sess  map[string]string // `s`, `o` -> parties or `none`
	rec   string            // `none`, `s`, `o`: the session the record sits in
}

func (e *signersEnv) histNew() *signersHist {
	c, _ := e.base.CacheContext()
	return &signersHist{ctx: c}
}

func (e *signersEnv) sessID(sid string) (types.MetadataAddress, bool) {
	_, sessID, oldSessID, _, _, _, _ := e.ids()
	switch sid {
	case "s":
		return sessID, true
	case "o":
		return oldSessID, true
	}
	return nil, false
}

func (e *signersEnv) histState(ctx sdk.Context) signersHState {
	k := e.app.MetadataKeeper
	scopeID, _, _, _, _, _, recordID := e.ids()
	st := signersHState{scope: "none", vo: "-", sess: map[string]string{"s": "none", "o": "none"}, rec: "none"}
	if sc, found := k.GetScope(ctx, scopeID); found {
		st.scope = e.showScope(sc)
	}
	st.vo = e.showVO(ctx)
	for _, sid := range []string{"s", "o"} {
		id, _ := e.sessID(sid)
		if se, found := k.GetSession(ctx, id); found {
			st.sess[sid] = e.showParties(se.Parties)
		}
	}
	if r, found := k.GetRecord(ctx, recordID); found {
		st.rec = "?"
		for _, sid := range []string{"s", "o"} {
			if id, _ := e.sessID(sid); r.SessionId.Equals(id) {
				st.rec = sid
			}
		}
	}
	return st
}

// histSpecs (re)writes the three specifications with the roles the history's lines gave last.
func (e *signersEnv) histSpecs(h *signersHist) {
	k := e.app.MetadataKeeper
	_, _, _, scopeSpecID, cSpecID, recSpecID, _ := e.ids()
	k.SetScopeSpecification(h.ctx, types.ScopeSpecification{SpecificationId: scopeSpecID, PartiesInvolved: h.scopeRoles,
		ContractSpecIds: []types.MetadataAddress{cSpecID}})
	k.SetContractSpecification(h.ctx, types.ContractSpecification{SpecificationId: cSpecID, PartiesInvolved: h.cRoles, ClassName: "cls"})
	k.SetRecordSpecification(h.ctx, types.RecordSpecification{SpecificationId: recSpecID, Name: "rec", TypeName: "t",
		ResultType: types.DefinitionType_DEFINITION_TYPE_RECORD, ResponsibleParties: h.rRoles})
}

// execHist: one message of a history.  Written to the history's context only when accepted.
func (e *signersEnv) execHist(h *signersHist, line string) (res string) {
	defer func() {
		if r := recover(); r != nil {
			res = "panic:" + panicClass(fmt.Sprint(r))
		}
	}()
	op, err := signersParse(line)
	if err != nil || op.kv["via"] != "hist" {
		return "bad-op"
	}
	if strings.ContainsAny(op.kv["grants"], "#") {
		return "bad-op" // count authorizations would be consumed along the history
	}
	if !h.started {
		if _, err = e.saveGrants(h.ctx, op.kv["grants"]); err != nil {
			return "bad-op"
		}
		h.started, h.grants = true, op.kv["grants"]
	} else if h.grants != op.kv["grants"] {
		return "bad-op"
	}
	signers, err := e.addrs(op.kv["signers"])
	if err != nil {
		return "bad-op"
	}
	roles, err := signersRoles(op.kv["roles"])
	if err != nil {
		return "bad-op"
	}
	switch op.kind {
	case "wscope", "dscope", "mowners":
		h.scopeRoles = roles
	case "wsession":
		h.cRoles = roles
	case "wrecord", "drecord":
		h.rRoles = roles
	default:
		return "bad-op"
	}
	e.histSpecs(h)
	st := e.histState(h.ctx)

	ctx, write := h.ctx.CacheContext()
	ctx = types.AddAuthzCacheToContext(ctx)
	k := e.app.MetadataKeeper
	ms := metadatakeeper.NewMsgServerImpl(k)
	scopeID, _, _, _, cSpecID, _, recordID := e.ids()
	idForm := op.kv["ids"]
	if idForm != "" && (!signersIDFormOK(idForm) || (op.kind != "wscope" && op.kind != "wsession" && op.kind != "wrecord")) {
		return "bad-op"
	}
	defer func() {
		if strings.HasPrefix(res, "ok") {
			write()
		}
	}()
	voName := func(key string) string {
		if v, ok := op.kv[key]; ok {
			return v
		}
		return "-"
	}
	stored := func(err error, withVO bool) string {
		c := e.class(err)
		if err != nil {
			return c
		}
		sc, found := k.GetScope(ctx, scopeID)
		if !found {
			return c + " stored=none"
		}
		if withVO {
			return c + " stored=" + e.showScope(sc) + "@" + e.showVO(ctx)
		}
		return c + " stored=" + e.showScope(sc)
	}

	switch op.kind {
	case "wscope":
		if op.kv["existing"] != st.scope || voName("vo") != st.vo {
			return "state-differs"
		}
		proposed, err1 := e.scope(op.kv["proposed"])
		pvo, err2 := e.voAddr(op.kv["pvo"])
		if err1 != nil || err2 != nil || proposed == nil {
			return "bad-op"
		}
		prop := e.mkScope(proposed)
		prop.ValueOwnerAddress = pvo
		wmsg, ok := signersScopeMsg(idForm, prop, signers)
		if !ok {
			return "bad-op"
		}
		_, merr := ms.WriteScope(ctx, wmsg)
		return stored(merr, true)
	case "dscope":
		if op.kv["scope"] != st.scope || st.scope == "none" || voName("vo") != st.vo {
			return "state-differs"
		}
		_, merr := ms.DeleteScope(ctx, &types.MsgDeleteScopeRequest{ScopeId: scopeID, Signers: signers})
		return stored(merr, false)
	case "mowners":
		if op.kv["scope"] != st.scope {
			return "state-differs"
		}
		switch op.kv["mt"] {
		case "AddScopeOwner":
			add, err2 := e.parties(op.kv["add"])
			if err2 != nil {
				return "bad-op"
			}
			_, merr := ms.AddScopeOwner(ctx, &types.MsgAddScopeOwnerRequest{ScopeId: scopeID, Owners: add, Signers: signers})
			return stored(merr, false)
		case "DeleteScopeOwner":
			remove, err2 := e.addrs(op.kv["remove"])
			if err2 != nil {
				return "bad-op"
			}
			_, merr := ms.DeleteScopeOwner(ctx, &types.MsgDeleteScopeOwnerRequest{ScopeId: scopeID, Owners: remove, Signers: signers})
			return stored(merr, false)
		}
		return "bad-op"
	case "wsession":
		sid := op.kv["sid"]
		id, ok := e.sessID(sid)
		if !ok {
			return "bad-op"
		}
		if op.kv["scope"] != st.scope || st.scope == "none" || op.kv["existing"] != st.sess[sid] {
			return "state-differs"
		}
		proposed, err1 := e.parties(op.kv["proposed"])
		if err1 != nil {
			return "bad-op"
		}
		msg, ok := signersSessionMsg(idForm, types.Session{SessionId: id, SpecificationId: cSpecID, Parties: proposed, Name: "sess" + sid}, signers)
		if !ok {
			return "bad-op"
		}
		_, merr := ms.WriteSession(ctx, msg)
		c := e.class(merr)
		if merr != nil {
			return c
		}
		se, found := k.GetSession(ctx, id)
		if !found {
			return c + " stored=none"
		}
		return c + " stored=" + e.showParties(se.Parties)
	case "wrecord":
		sid := op.kv["sid"]
		id, ok := e.sessID(sid)
		if !ok {
			return "bad-op"
		}
		// `old`: none = no record yet; same = the record sits in the target session; otherwise
		// the parties of the other session, where the record sits
		other := "o"
		if sid == "o" {
			other = "s"
		}
		var wantOld string
		switch st.rec {
		case "none":
			wantOld = "none"
		case sid:
			wantOld = "same"
		default:
			wantOld = st.sess[other]
		}
		if op.kv["scope"] != st.scope || st.scope == "none" || op.kv["session"] != st.sess[sid] || st.sess[sid] == "none" || op.kv["old"] != wantOld {
			return "state-differs"
		}
		rec := types.Record{Name: "rec", SessionId: id,
			Process: types.Process{ProcessId: &types.Process_Hash{Hash: "h"}, Name: "p", Method: "m"},
			Outputs: []types.RecordOutput{{Hash: "o", Status: types.ResultStatus_RESULT_STATUS_PASS}}}
		wmsg, ok := signersRecordMsg(idForm, rec, cSpecID, signers)
		if !ok {
			return "bad-op"
		}
		_, merr := ms.WriteRecord(ctx, wmsg)
		c := e.class(merr)
		if merr != nil {
			return c
		}
		got, found := k.GetRecord(ctx, recordID)
		if !found || !got.SessionId.Equals(id) {
			return c + " stored=elsewhere"
		}
		return c + " stored=sess"
	case "drecord":
		if op.kv["scope"] != st.scope || st.rec == "none" {
			return "state-differs"
		}
		_, merr := ms.DeleteRecord(ctx, &types.MsgDeleteRecordRequest{RecordId: recordID, Signers: signers})
		c := e.class(merr)
		if merr != nil {
			return c
		}
		if _, found := k.GetRecord(ctx, recordID); found {
			return c + " stored=sess"
		}
		return c + " stored=none"
	}
	return "bad-op"
}

// ---- generator -------------------------------------------------------------------------------

func signersGParseParties(s string) []signersGParty {
	var out []signersGParty
	for _, p := range signersList(s) {
		f := strings.Split(p, ":")
		if len(f) != 3 {
			continue
		}
		r, _ := strconv.Atoi(f[1])
		out = append(out, signersGParty{addr: f[0], role: r, opt: f[2] == "o"})
	}
	return out
}

func signersGParseScope(s string) (rollup bool, other int, owners []signersGParty) {
	f := strings.Split(s, "/")
	if len(f) != 3 {
		return
	}
	other, _ = strconv.Atoi(f[1])
	return f[0] == "1", other, signersGParseParties(f[2])
}

// histGrantSet: the grants of one history: a few generic authorizations between the accounts,
// for the message types of the history (a parent type also counts for its children); rarely expired.
func (g *signersGGen) histGrantSet() []string {
	var gs []string
	seen := map[string]bool{}
	for i, n := 0, g.r.Intn(4); i < n; i++ {
		granter := Pick(g.r, signersGNormal)
		if g.r.Chance(10) {
			granter = Pick(g.r, signersGWasm)
		}
		grantee := Pick(g.r, signersGNormal)
		if g.r.Chance(15) {
			grantee = Pick(g.r, signersGWasm)
		}
		if granter == grantee {
			continue
		}
		t := Pick(g.r, []string{"WriteScope", "WriteScope", "WriteSession", "WriteSession", "WriteRecord", "DeleteRecord", "DeleteScope", "AddScopeOwner", "DeleteScopeOwner"})
		key := granter + ">" + grantee + ":" + t
		if seen[key] {
			continue
		}
		seen[key] = true
		if g.r.Chance(6) {
			key += "!"
		}
		gs = append(gs, key)
	}
	return gs
}

// genHist: the next message of a history, for the stored state `st`.
func (g *signersGGen) genHist(st signersHState) string {
	if st.scope == "none" {
		// the history starts (or starts over): a new scope
		rollup := g.r.Chance(60)
		owners := g.owners(rollup)
		return g.genWScope(rollup, owners, g.r.Intn(3), nil, "") + " via=hist"
	}
	rollup, other, owners := signersGParseScope(st.scope)
	mustOwners := owners
	if !rollup {
		mustOwners = signersGAllRequired(owners)
	}
	scopeStr := signersGScope(rollup, other, owners)
	haveSess := st.sess["s"] != "none" || st.sess["o"] != "none"
	// what comes next: sessions first, then records, with scope rewrites in between
	wSess, wRec, wScope, wOwn, wDRec := 22, 30, 26, 8, 8
	switch {
	case !haveSess:
		wSess, wRec, wDRec = 60, 0, 0
	case st.rec == "none":
		wRec, wDRec = 40, 0
	}
	x := g.r.Intn(wSess + wRec + wScope + wOwn + wDRec + 3)
	switch {
	case x < wSess: // wsession
		g.mt = "WriteSession"
		sid := "s"
		if g.r.Chance(35) {
			sid = "o"
		}
		var proposed []signersGParty
		if rollup {
			proposed = g.subset(owners, 70)
			for i := range proposed {
				if g.r.Chance(30) {
					proposed[i].opt = !proposed[i].opt
				}
			}
			if len(proposed) == 0 || g.r.Chance(8) {
				if p := g.party(false, true); !signersGHas(proposed, p) {
					proposed = append(proposed, p)
				}
			}
		} else {
			proposed = g.parties(1+g.r.Intn(3), false, g.r.Chance(6), true)
		}
		existing := st.sess[sid]
		ex := signersGParseParties(existing)
		var roles []int
		switch {
		case !rollup:
			roles = g.roles(proposed, 2)
			g.signersFor(mustOwners, nil, nil, signersGAddrsOf(owners, proposed))
		case existing != "none":
			roles = g.roles(ex, 2)
			if g.r.Chance(60) {
				roles = g.roles(proposed, 2)
			}
			g.signersFor(append(append([]signersGParty{}, ex...), owners...), ex, roles, signersGAddrsOf(owners, proposed, ex))
		default:
			roles = g.roles(proposed, 2)
			g.signersFor(owners, proposed, roles, signersGAddrsOf(owners, proposed))
		}
		return fmt.Sprintf("wsession scope=%s existing=%s proposed=%s roles=%s", scopeStr, existing, signersGParties(proposed), signersGRoles(roles)) + g.tail() + " sid=" + sid + " via=hist"
	case x < wSess+wRec: // wrecord
		g.mt = "WriteRecord"
		sid := "s"
		if st.sess["s"] == "none" || (st.sess["o"] != "none" && g.r.Chance(40)) {
			sid = "o"
		}
		otherSid := "o"
		if sid == "o" {
			otherSid = "s"
		}
		session := signersGParseParties(st.sess[sid])
		old := "none"
		var oldP []signersGParty
		switch st.rec {
		case "none":
		case sid:
			old = "same"
		default:
			old = st.sess[otherSid]
			oldP = signersGParseParties(old)
		}
		roles := g.roles(session, 2)
		if rollup {
			must := append(append(append([]signersGParty{}, owners...), session...), oldP...)
			g.signersFor(must, session, roles, signersGAddrsOf(owners, session, oldP))
		} else {
			must := append(signersGAllRequired(session), signersGAllRequired(oldP)...)
			if g.r.Chance(40) {
				// the signers go by the optional flags (which mean nothing without rollup)
				must = append(append([]signersGParty{}, session...), oldP...)
			}
			g.signersFor(must, nil, nil, signersGAddrsOf(session, oldP))
		}
		return fmt.Sprintf("wrecord scope=%s session=%s old=%s roles=%s", scopeStr, signersGParties(session), old, signersGRoles(roles)) + g.tail() + " sid=" + sid + " via=hist"
	case x < wSess+wRec+wScope: // wscope: rewrite the stored scope
		return g.genWScope(rollup, owners, other, mustOwners, st.vo) + " via=hist"
	case x < wSess+wRec+wScope+wOwn: // owners
		return g.genMOwners(rollup, owners, other) + " via=hist"
	case x < wSess+wRec+wScope+wOwn+wDRec: // drecord
		g.mt = "DeleteRecord"
		roles := g.roles(owners, 2)
		avail := owners
		if !rollup {
			avail = nil
		}
		g.signersFor(mustOwners, avail, roles, signersGAddrsOf(owners))
		return fmt.Sprintf("drecord scope=%s roles=%s", scopeStr, signersGRoles(roles)) + g.tail() + " via=hist"
	default: // dscope
		g.mt = "DeleteScope"
		roles := g.roles(owners, 2)
		avail := owners
		if !rollup {
			avail = nil
		}
		mention := signersGAddrsOf(owners)
		if st.vo != "-" {
			g.alsoCover = []string{st.vo}
			mention = append(mention, st.vo)
		}
		g.signersFor(mustOwners, avail, roles, mention)
		return fmt.Sprintf("dscope scope=%s roles=%s vo=%s", scopeStr, signersGRoles(roles), st.vo) + g.tail() + " via=hist"
	}
}

// ---- driver / replayer -----------------------------------------------------------------------

func (e *signersEnv) runHist(h *signersHist, line string, out *Out) string {
	res := e.execHist(h, line)
	out.Emit(line, res)
	kind := signersFirst(line)
	first := signersFirst(res)
	out.Count("op:" + kind)
	out.Count("res:" + first)
	out.Count(kind + ":" + first)
	if kind == "wscope" || kind == "dscope" || kind == "wrecord" {
		e.countDims(kind, line, res, out)
	}
	if i := strings.Index(line, " ids="); i >= 0 {
		form := signersFirst(line[i+5:])
		out.Count("ids:" + kind + ":" + form + ":" + first)
		if kind == "wsession" && !strings.Contains(line, " existing=none ") {
			out.Count("ids:wsession-existing-session:" + form + ":" + first)
		}
	}
	if op, err := signersParse(line); err == nil {
		switch kind {
		case "wrecord":
			// the session was written under another regime than the scope has now
			if strings.HasPrefix(op.kv["scope"], "0/") && strings.Contains(op.kv["session"], ":o") {
				out.Count("hist:wrecord-plain-scope-session-with-optional-party:" + first)
			}
		case "wsession":
			if strings.HasPrefix(op.kv["scope"], "0/") && strings.Contains(op.kv["existing"], ":o") {
				out.Count("hist:wsession-plain-scope-existing-session-with-optional-party:" + first)
			}
		}
	}
	return res
}

func driveSignersHist(t *testing.T, rng *RNG, n int, out *Out) {
	e := signersSetup(t)
	g := &signersGGen{r: rng, e: e, hist: true}
	for done, hn := 0, 0; done < n; hn++ {
		out.Comment(fmt.Sprintf("history %d", hn))
		h := e.histNew()
		g.histGrants = g.histGrantSet()
		steps := 6 + rng.Intn(9)
		flips, prevRollup := 0, ""
		for i := 0; i < steps && done < n; i++ {
			st := e.histState(h.ctx)
			if st.scope != "none" {
				if prevRollup != "" && st.scope[:1] != prevRollup {
					flips++
				}
				prevRollup = st.scope[:1]
			}
			e.runHist(h, g.withIDs(g.genHist(st)), out)
			done++
		}
		if flips > 3 {
			flips = 3
		}
		out.Count(fmt.Sprintf("hist:rollup-flag-flips:%d", flips))
		out.Count("hist:histories")
	}
}

func replaySignersHist(t *testing.T, ops []string, out *Out) {
	e := signersSetup(t)
	h := e.histNew()
	for _, l := range ops {
		if strings.HasPrefix(l, "#") {
			c := strings.TrimPrefix(l, "# ")
			out.Comment(c)
			if strings.HasPrefix(c, "history") {
				h = e.histNew()
			}
			continue
		}
		e.runHist(h, l, out)
	}
}
