package harness

import (
	"fmt"
	"strings"
	"sync"

	sdk "github.com/cosmos/cosmos-sdk/types"
	authtypes "github.com/cosmos/cosmos-sdk/x/auth/types"

	"github.com/provenance-io/provenance/app"
	"github.com/provenance-io/provenance/testutil/verifhooks"
	"github.com/provenance-io/provenance/x/exchange"
	markertypes "github.com/provenance-io/provenance/x/marker/types"
)

var (
	feeAppOnce sync.Once
	feeApp     *app.App
	feeCtx     sdk.Context
)

func kvArg(ws []string, k string) string {
	for _, w := range ws {
		if strings.HasPrefix(w, k+"=") {
			return w[len(k)+1:]
		}
	}
	return ""
}

// execKeeper runs the two keeper-level fee calculations on a real app.
func (e *feeEnv) execKeeper(ws []string) string {
	feeAppOnce.Do(func() { feeApp, feeCtx = NewApp(e.t) })
	ctx, _ := feeCtx.CacheContext()
	k := feeApp.ExchangeKeeper
	switch ws[0] {
	case "exsplit":
		var split uint32
		fmt.Sscan(ws[2], &split)
		k.SetParams(ctx, &exchange.Params{DefaultSplit: 0, DenomSplits: []exchange.DenomSplit{{Denom: "xcoin", Split: split}}})
		amt := mustInt(ws[1])
		var coins sdk.Coins
		if !amt.IsZero() {
			coins = sdk.Coins{sdk.Coin{Denom: "xcoin", Amount: amt}}
		} else {
			coins = sdk.Coins{sdk.Coin{Denom: "xcoin", Amount: amt}}
		}
		res := k.CalculateExchangeSplit(ctx, coins)
		if len(res) == 0 {
			return "ok -"
		}
		return "ok " + res.AmountOf("xcoin").String()
	case "csf":
		feeDenom := verifhooks.FeeDenom()
		same := kvArg(ws, "same") == "1"
		conv := "usdx"
		if same {
			conv = feeDenom
		}
		var bips uint32
		fmt.Sscan(kvArg(ws, "bips"), &bips)
		mid, err := k.CreateMarket(ctx, exchange.Market{
			MarketId:                 77,
			MarketDetails:            exchange.MarketDetails{Name: "verif"},
			CommitmentSettlementBips: bips,
			IntermediaryDenom:        conv,
			AcceptingCommitments:     true,
		})
		if err != nil {
			return "err:setup " + err.Error()
		}
		addr := authtypes.NewModuleAddress("verif-csf").String()
		var total sdk.Coins
		var navs []exchange.NetAssetPrice
		// navsrc=state: the net asset values are not carried in the request but looked up by the
		// keeper (Keeper.GetNav) from the marker module, where the volume is a uint64
		fromState := kvArg(ws, "navsrc") == "state"
		addNav := func(assets, price sdk.Coin) string {
			if fromState && assets.Amount.IsUint64() {
				m := markertypes.NewEmptyMarkerAccount(assets.Denom, addr, nil)
				if err := feeApp.MarkerKeeper.SetNetAssetValue(ctx, m, markertypes.NewNetAssetValue(price, assets.Amount.Uint64()), "verif"); err != nil {
					return "err:setup-nav " + err.Error()
				}
				return ""
			}
			navs = append(navs, exchange.NetAssetPrice{Assets: assets, Price: price})
			return ""
		}
		if f := mustInt(kvArg(ws, "fee")); !f.IsZero() {
			total = total.Add(sdk.Coin{Denom: feeDenom, Amount: f})
		}
		if c := mustInt(kvArg(ws, "conv")); !c.IsZero() && !same {
			total = total.Add(sdk.Coin{Denom: conv, Amount: c})
		}
		if o := kvArg(ws, "others"); o != "-" && o != "" {
			for i, ent := range strings.Split(o, "|") {
				p := strings.Split(ent, ":")
				d := fmt.Sprintf("oth%d", i)
				total = total.Add(sdk.Coin{Denom: d, Amount: mustInt(p[0])})
				if e := addNav(sdk.Coin{Denom: d, Amount: mustInt(p[2])}, sdk.Coin{Denom: conv, Amount: mustInt(p[1])}); e != "" {
					return e
				}
			}
		}
		if !same {
			nv := strings.Split(kvArg(ws, "nav"), ":")
			if e := addNav(sdk.Coin{Denom: conv, Amount: mustInt(nv[1])}, sdk.Coin{Denom: feeDenom, Amount: mustInt(nv[0])}); e != "" {
				return e
			}
		}
		req := &exchange.MsgMarketCommitmentSettleRequest{
			Admin: addr, MarketId: mid,
			Inputs:  []exchange.AccountAmount{{Account: addr, Amount: total}},
			Outputs: []exchange.AccountAmount{{Account: addr, Amount: total}},
			Navs:   navs,
		}
		resp, err := k.CalculateCommitmentSettlementFee(ctx, req)
		if err != nil {
			return "err:invalid " + err.Error()
		}
		convInt := resp.ConvertedTotal.AmountOf(conv)
		if same {
			convInt = convInt.Sub(mustInt(kvArg(ws, "fee")))
		}
		return "ok " + convInt.String() + " " + resp.ExchangeFees.AmountOf(feeDenom).String()
	}
	return "bad-op"
}
