package harness

// Model "txfee" (C08): fee accounting of a transaction (this file: ops `tx`, ONE transaction and its
// mempool history; txfee_seq_test.go: ops `seq` / `mempool`, sequences of transactions in one block,
// consecutive blocks, or arriving at the mempool).  Every `tx` op line is one really signed
// transaction run through the REAL app: state is prepared in the block being built (the set-up
// fee configuration written straight into the store, then — `gov=` — governance proposals executed
// through the real x/msgfees message handlers, see txfee_gov_test.go), the block is committed, the tx goes through `CheckTx` (mempool admission, on the committed state) and
// then — for ops with `re=1` — a block without the tx is committed that changes the msgfees
// params / schedule (a straight rewrite and/or governance proposals `gov2=`) and the tx goes
// through `CheckTx(Recheck)` on the newly committed state, and
// then through `FinalizeBlock` (ante chain, PioMsgServiceRouter, MsgFeeInvoker).  The output is
// the result class of both and the balance deltas of every account involved.

import (
	"fmt"
	"sort"
	"strconv"
	"strings"
	"testing"
	"time"

	abci "github.com/cometbft/cometbft/abci/types"
	cmtproto "github.com/cometbft/cometbft/proto/tendermint/types"
	cmttypes "github.com/cometbft/cometbft/types"

	sdkmath "cosmossdk.io/math"
	storetypes "cosmossdk.io/store/types"
	"cosmossdk.io/x/feegrant"

	"github.com/cosmos/cosmos-sdk/client/tx"
	"github.com/cosmos/cosmos-sdk/crypto/keys/secp256k1"
	"github.com/cosmos/cosmos-sdk/testutil/mock"
	sdk "github.com/cosmos/cosmos-sdk/types"
	"github.com/cosmos/cosmos-sdk/types/tx/signing"
	authsigning "github.com/cosmos/cosmos-sdk/x/auth/signing"
	authtypes "github.com/cosmos/cosmos-sdk/x/auth/types"
	"github.com/cosmos/cosmos-sdk/x/authz"
	banktypes "github.com/cosmos/cosmos-sdk/x/bank/types"

	"github.com/provenance-io/provenance/app"
	"github.com/provenance-io/provenance/x/exchange"
	msgfeestypes "github.com/provenance-io/provenance/x/msgfees/types"
)

func init() {
	drivers["txfee"] = driveTxfee
	replayers["txfee"] = replayTxfee
}

// roles in bech32 order == name order (DeductFeesDistributions pays recipients in sorted
// bech32 order; the model sorts the symbolic names).
var txfeeRoles = []string{"G", "P", "Q", "R1", "R2", "X"}

var txfeeTypeURL = map[string]string{
	"send":   "/cosmos.bank.v1beta1.MsgSend",
	"exec":   "/cosmos.authz.v1beta1.MsgExec",
	"assess": "/provenance.msgfees.v1.MsgAssessCustomMsgFeeRequest",
	"pay":    "/provenance.exchange.v1.MsgCreatePaymentRequest",
}

const txfeePayDenom = "paycoin"

type txfeeEnv struct {
	t       *testing.T
	app     *app.App
	height  int64
	nextAcc uint64
	nkey    uint64
	seed    uint64
	ncase   int
	collect sdk.AccAddress
	gkey    *secp256k1.PrivKey // genesis account: the validator's delegator (votes on proposals)
	gaddr   sdk.AccAddress
	now     time.Time // block time (moves on with every block; governance needs it)
}

var txfeeE *txfeeEnv

// txfeeRecycle: a fresh app after this many transactions (every case commits a block; the
// in-memory IAVL store keeps every version, so an old app gets slow and large).
const txfeeRecycle = 400

func txfeeNewEnv(t *testing.T) *txfeeEnv {
	privVal := mock.NewPV()
	pubKey, err := privVal.GetPubKey()
	if err != nil {
		t.Fatal(err)
	}
	valSet := cmttypes.NewValidatorSet([]*cmttypes.Validator{cmttypes.NewValidator(pubKey, 1)})
	gk := secp256k1.GenPrivKeyFromSecret([]byte("txfee-genesis"))
	acc := authtypes.NewBaseAccount(gk.PubKey().Address().Bytes(), gk.PubKey(), 0, 0)
	bal := banktypes.Balance{Address: acc.GetAddress().String(),
		Coins: sdk.NewCoins(sdk.NewInt64Coin(sdk.DefaultBondDenom, 100_000_000_000_000))}
	a := app.SetupWithGenesisValSet(t, ChainID, valSet, []authtypes.GenesisAccount{acc}, bal)
	e := &txfeeEnv{t: t, app: a, height: a.LastBlockHeight() + 1, nextAcc: 1_000_000, gkey: gk, gaddr: acc.GetAddress(),
		now: time.Date(2024, 1, 1, 0, 0, 0, 0, time.UTC)}
	e.collect = authtypes.NewModuleAddress(authtypes.FeeCollectorName)
	return e
}

func txfeeSetup(t *testing.T) *txfeeEnv {
	if txfeeE == nil || txfeeE.ncase >= txfeeRecycle {
		var seed, nkey uint64
		if txfeeE != nil {
			seed, nkey = txfeeE.seed, txfeeE.nkey
		}
		txfeeE = txfeeNewEnv(t)
		txfeeE.seed, txfeeE.nkey = seed, nkey
	}
	txfeeE.t = t
	return txfeeE
}

func (e *txfeeEnv) hdr(h int64) cmtproto.Header { return cmtproto.Header{ChainID: ChainID, Height: h} }

// dctx is a context on the state of the block currently being built (height e.height).
func (e *txfeeEnv) dctx() sdk.Context { return e.app.BaseApp.NewContextLegacy(false, e.hdr(e.height)) }

// cctx is a context on the mempool (CheckTx) state.
func (e *txfeeEnv) cctx() sdk.Context { return e.app.BaseApp.NewContextLegacy(true, e.hdr(e.height)) }

// ---- op ----

type txfeeSched struct {
	typ  string
	fee  sdk.Coin
	rcp  string
	bips uint32
}

type txfeeOp struct {
	floor   sdk.Coin
	convD   string
	convR   uint64
	sched   []txfeeSched
	payfee  string // coin or "-"
	fee     sdk.Coins
	gas     uint64
	bal     map[string]sdk.Coins
	fg      bool
	allow   string // "-", "unl", coins
	auth    bool
	sig     string
	force   bool
	body    []string
	rawBody string
	// re: the transaction's life spans a committed change of the fee configuration:
	// CheckTx(New) under floor/conv/sched, then a block WITHOUT the tx is committed that sets
	// floor2/conv2/sched2, then CheckTx(Recheck), then execution under the new configuration.
	// The change is a straight rewrite of params + schedule (`direct2`: floor2/conv2/sched2 — the
	// only way the floor price can change) and/or governance proposals (`gov2`).
	re      bool
	direct2 bool
	floor2  sdk.Coin
	convD2  string
	convR2  uint64
	sched2  []txfeeSched
	gov2    [][]txfeeGovMsg
	// gov: proposals that pass and are executed (real msgfees handlers) after the chain was set
	// up with floor/conv/sched and before the transaction arrives.  gv: r = routed like gov's
	// EndBlocker does, v = whole proposal lives (submit, vote, voting period, EndBlocker).
	gov [][]txfeeGovMsg
	gv  string
}

func txfeeCoins(s string) (sdk.Coins, error) {
	if s == "-" || s == "" {
		return sdk.Coins{}, nil
	}
	var out sdk.Coins
	for _, p := range strings.Split(s, ",") {
		c, err := txfeeCoin(p)
		if err != nil {
			return nil, err
		}
		out = append(out, c)
	}
	return out, nil
}

func txfeeCoin(s string) (sdk.Coin, error) {
	i := 0
	for i < len(s) && s[i] >= '0' && s[i] <= '9' {
		i++
	}
	if i == 0 || i == len(s) {
		return sdk.Coin{}, fmt.Errorf("bad coin %q", s)
	}
	return sdk.Coin{Denom: s[i:], Amount: mustInt(s[:i])}, nil
}

func txfeeParseSched(s string) ([]txfeeSched, error) {
	var out []txfeeSched
	if s == "-" || s == "" {
		return nil, nil
	}
	for _, ent := range strings.Split(s, "|") {
		f := strings.Split(ent, ":")
		if len(f) != 4 {
			return nil, fmt.Errorf("bad sched entry %q", ent)
		}
		c, err := txfeeCoin(f[1])
		if err != nil {
			return nil, err
		}
		b, _ := strconv.ParseUint(f[3], 10, 32)
		out = append(out, txfeeSched{typ: f[0], fee: c, rcp: f[2], bips: uint32(b)})
	}
	return out, nil
}

func txfeeSchedStr(sc []txfeeSched) string {
	var out []string
	for _, s := range sc {
		out = append(out, fmt.Sprintf("%s:%s:%s:%d", s.typ, s.fee.Amount.String()+s.fee.Denom, s.rcp, s.bips))
	}
	return JoinOr(out, "|")
}

func txfeeParse(line string) (*txfeeOp, error) {
	ws := strings.Fields(line)
	if len(ws) == 0 || ws[0] != "tx" {
		return nil, fmt.Errorf("not a tx op: %q", line)
	}
	op := &txfeeOp{bal: map[string]sdk.Coins{}}
	var err error
	if op.floor, err = txfeeCoin(kvArg(ws, "floor")); err != nil {
		return nil, err
	}
	cv := strings.Split(kvArg(ws, "conv"), ":")
	if len(cv) != 2 {
		return nil, fmt.Errorf("bad conv")
	}
	op.convD = cv[0]
	op.convR, _ = strconv.ParseUint(cv[1], 10, 64)
	if op.sched, err = txfeeParseSched(kvArg(ws, "sched")); err != nil {
		return nil, err
	}
	if op.gov, err = txfeeParseGov(kvArg(ws, "gov")); err != nil {
		return nil, err
	}
	op.gv = kvArg(ws, "gv")
	if kvArg(ws, "re") == "1" {
		op.re = true
		if op.gov2, err = txfeeParseGov(kvArg(ws, "gov2")); err != nil {
			return nil, err
		}
	}
	if op.re && kvArg(ws, "floor2") != "" {
		op.direct2 = true
		if op.floor2, err = txfeeCoin(kvArg(ws, "floor2")); err != nil {
			return nil, err
		}
		cv2 := strings.Split(kvArg(ws, "conv2"), ":")
		if len(cv2) != 2 {
			return nil, fmt.Errorf("bad conv2")
		}
		op.convD2 = cv2[0]
		op.convR2, _ = strconv.ParseUint(cv2[1], 10, 64)
		if op.sched2, err = txfeeParseSched(kvArg(ws, "sched2")); err != nil {
			return nil, err
		}
	}
	op.payfee = kvArg(ws, "payfee")
	if op.fee, err = txfeeCoins(kvArg(ws, "fee")); err != nil {
		return nil, err
	}
	op.gas, _ = strconv.ParseUint(kvArg(ws, "gas"), 10, 64)
	for _, r := range []string{"P", "G", "X"} {
		if op.bal[r], err = txfeeCoins(kvArg(ws, "bal"+r)); err != nil {
			return nil, err
		}
	}
	op.fg = kvArg(ws, "fg") == "1"
	op.allow = kvArg(ws, "allow")
	op.auth = kvArg(ws, "auth") == "1"
	op.sig = kvArg(ws, "sig")
	op.force = kvArg(ws, "force") == "1"
	op.rawBody = kvArg(ws, "body")
	op.body = strings.Split(op.rawBody, ";")
	return op, nil
}

// line renders the op without the observed field.
func (op *txfeeOp) line() string {
	b := func(x bool) string {
		if x {
			return "1"
		}
		return "0"
	}
	l := fmt.Sprintf("tx floor=%s conv=%s:%d sched=%s payfee=%s fee=%s gas=%d balP=%s balG=%s balX=%s fg=%s allow=%s auth=%s sig=%s force=%s body=%s",
		op.floor.Amount.String()+op.floor.Denom, op.convD, op.convR, txfeeSchedStr(op.sched), op.payfee, txfeeCoinsStr(op.fee), op.gas,
		txfeeCoinsStr(op.bal["P"]), txfeeCoinsStr(op.bal["G"]), txfeeCoinsStr(op.bal["X"]), b(op.fg), op.allow, b(op.auth), op.sig, b(op.force), op.rawBody)
	if len(op.gov) > 0 {
		l += " gov=" + txfeeGovStr(op.gov)
	}
	if len(op.gov) > 0 || len(op.gov2) > 0 {
		l += " gv=" + op.gv
	}
	if op.re {
		l += " re=1"
		if op.direct2 {
			l += fmt.Sprintf(" floor2=%s conv2=%s:%d sched2=%s", op.floor2.Amount.String()+op.floor2.Denom, op.convD2, op.convR2, txfeeSchedStr(op.sched2))
		}
		if len(op.gov2) > 0 {
			l += " gov2=" + txfeeGovStr(op.gov2)
		}
	}
	return l
}

// txfeeCoinsStr keeps the given order (the declared fee is sorted by the generator).
func txfeeCoinsStr(cs sdk.Coins) string {
	if len(cs) == 0 {
		return "-"
	}
	parts := make([]string, 0, len(cs))
	for _, c := range cs {
		parts = append(parts, c.Amount.String()+c.Denom)
	}
	return strings.Join(parts, ",")
}

// ---- execution ----

type txfeeKeys struct {
	priv map[string]*secp256k1.PrivKey
	addr map[string]sdk.AccAddress
	accN map[string]uint64
	// signer: the role signing the transaction whose body is being built ("" = P): the grantee of
	// its MsgExecs, the sender of its custom-fee messages, the source of its payments.
	signer string
}

func (k *txfeeKeys) me() sdk.AccAddress {
	if k.signer == "" {
		return k.addr["P"]
	}
	return k.addr[k.signer]
}

func (e *txfeeEnv) freshKeys() *txfeeKeys {
	type kp struct {
		p *secp256k1.PrivKey
		a sdk.AccAddress
		s string
	}
	var ks []kp
	for range txfeeRoles {
		e.nkey++
		p := secp256k1.GenPrivKeyFromSecret([]byte(fmt.Sprintf("txfee-%d-%d", e.seed, e.nkey)))
		a := sdk.AccAddress(p.PubKey().Address())
		ks = append(ks, kp{p, a, a.String()})
	}
	sort.Slice(ks, func(i, j int) bool { return ks[i].s < ks[j].s })
	k := &txfeeKeys{priv: map[string]*secp256k1.PrivKey{}, addr: map[string]sdk.AccAddress{}, accN: map[string]uint64{}}
	for i, r := range txfeeRoles {
		k.priv[r] = ks[i].p
		k.addr[r] = ks[i].a
	}
	return k
}

const txfeeSeq0 = 5

func (e *txfeeEnv) fund(ctx sdk.Context, addr sdk.AccAddress, coins sdk.Coins) {
	coins = sdk.NewCoins(coins...)
	if coins.IsZero() {
		return
	}
	if err := e.app.BankKeeper.MintCoins(ctx, "mint", coins); err != nil {
		e.t.Fatalf("mint %s: %v", coins, err)
	}
	if err := e.app.BankKeeper.SendCoinsFromModuleToAccount(ctx, "mint", addr, coins); err != nil {
		e.t.Fatalf("fund: %v", err)
	}
}

// prepare writes the case's configuration into the block being built.
func (e *txfeeEnv) prepare(op *txfeeOp, k *txfeeKeys) {
	ctx := e.dctx()
	a := e.app
	for _, r := range []string{"P", "G", "X"} {
		e.nextAcc++
		k.accN[r] = e.nextAcc
		acc := authtypes.NewBaseAccount(k.addr[r], k.priv[r].PubKey(), e.nextAcc, txfeeSeq0)
		a.AccountKeeper.SetAccount(ctx, acc)
		e.fund(ctx, k.addr[r], op.bal[r])
	}
	e.fund(ctx, k.addr["P"], sdk.NewCoins(sdk.NewInt64Coin(txfeePayDenom, 1000)))
	// msgfees params + schedule
	e.setFeeCfg(ctx, k, op.floor, op.convD, op.convR, op.sched)
	// exchange payment fee
	xp := a.ExchangeKeeper.GetParams(ctx)
	if xp == nil {
		xp = &exchange.Params{}
	}
	xp.FeeCreatePaymentFlat = nil
	if op.payfee != "-" {
		c, err := txfeeCoin(op.payfee)
		if err != nil {
			e.t.Fatal(err)
		}
		xp.FeeCreatePaymentFlat = []sdk.Coin{c}
	}
	a.ExchangeKeeper.SetParams(ctx, xp)
	// authz X -> P (generic MsgSend)
	if op.auth {
		if err := a.AuthzKeeper.SaveGrant(ctx, k.addr["P"], k.addr["X"], authz.NewGenericAuthorization(txfeeTypeURL["send"]), nil); err != nil {
			e.t.Fatalf("SaveGrant: %v", err)
		}
	}
	// fee allowance G -> P
	if op.allow != "-" {
		al := &feegrant.BasicAllowance{}
		if op.allow != "unl" {
			cs, err := txfeeCoins(op.allow)
			if err != nil {
				e.t.Fatal(err)
			}
			al.SpendLimit = sdk.NewCoins(cs...)
		}
		if err := a.FeeGrantKeeper.GrantAllowance(ctx, k.addr["G"], k.addr["P"], al); err != nil {
			e.t.Fatalf("GrantAllowance: %v", err)
		}
	}
	// FinalizeBlock already flushed the block state into the commit store (workingHash); flush
	// what was written since, so that Commit persists it.
	ctx.MultiStore().(storetypes.CacheMultiStore).Write()
}

// setFeeCfg writes msgfees params and the message-fee schedule straight into the block being
// built (what genesis or an upgrade handler does).
func (e *txfeeEnv) setFeeCfg(ctx sdk.Context, k *txfeeKeys, floor sdk.Coin, convD string, convR uint64, sched []txfeeSched) {
	a := e.app
	a.MsgFeesKeeper.SetParams(ctx, msgfeestypes.Params{FloorGasPrice: floor, NhashPerUsdMil: convR, ConversionFeeDenom: convD})
	for _, u := range txfeeTypeURL {
		_ = a.MsgFeesKeeper.RemoveMsgFee(ctx, u)
	}
	for _, s := range sched {
		rcp := ""
		if s.rcp != "-" {
			rcp = k.addr[s.rcp].String()
		}
		u := txfeeTypeURL[s.typ]
		if err := a.MsgFeesKeeper.SetMsgFee(ctx, msgfeestypes.NewMsgFee(u, s.fee, rcp, s.bips)); err != nil {
			e.t.Fatalf("SetMsgFee: %v", err)
		}
	}
}

// buildMsgs turns body tokens into sdk.Msgs (exec( … ) nest).
func (e *txfeeEnv) buildMsgs(toks []string, pos *int, k *txfeeKeys, depth int) ([]sdk.Msg, error) {
	var out []sdk.Msg
	for *pos < len(toks) {
		tk := toks[*pos]
		*pos++
		switch {
		case tk == "" || tk == "-":
			continue
		case tk == ")":
			if depth == 0 {
				return nil, fmt.Errorf("unbalanced )")
			}
			return out, nil
		case tk == "exec(":
			inner, err := e.buildMsgs(toks, pos, k, depth+1)
			if err != nil {
				return nil, err
			}
			m := authz.NewMsgExec(k.me(), inner)
			out = append(out, &m)
		case strings.HasPrefix(tk, "send:"):
			f := strings.Split(tk, ":")
			if len(f) != 4 {
				return nil, fmt.Errorf("bad send %q", tk)
			}
			cs, err := txfeeCoins(f[3])
			if err != nil {
				return nil, err
			}
			out = append(out, &banktypes.MsgSend{FromAddress: k.addr[f[1]].String(), ToAddress: k.addr[f[2]].String(), Amount: cs})
		case strings.HasPrefix(tk, "assess:"):
			f := strings.Split(tk, ":")
			if len(f) != 4 {
				return nil, fmt.Errorf("bad assess %q", tk)
			}
			c, err := txfeeCoin(f[1])
			if err != nil {
				return nil, err
			}
			rcp, bips := "", ""
			if f[2] != "-" {
				rcp = k.addr[f[2]].String()
			}
			if f[3] != "-" {
				bips = f[3]
			}
			out = append(out, &msgfeestypes.MsgAssessCustomMsgFeeRequest{Name: "verif", Amount: c, Recipient: rcp, From: k.me().String(), RecipientBasisPoints: bips})
		case strings.HasPrefix(tk, "pay:"):
			out = append(out, &exchange.MsgCreatePaymentRequest{Payment: exchange.Payment{
				Source: k.me().String(), SourceAmount: sdk.NewCoins(sdk.NewInt64Coin(txfeePayDenom, 1)), ExternalId: "verif-" + tk[4:]}})
		default:
			return nil, fmt.Errorf("bad body token %q", tk)
		}
	}
	if depth != 0 {
		return nil, fmt.Errorf("unbalanced exec(")
	}
	return out, nil
}

// txfeeClass maps (codespace, code) to the small class table shared with the model.
func txfeeClass(codespace string, code uint32) string {
	if code == 0 {
		return "ok"
	}
	switch codespace {
	case "sdk":
		switch code {
		case 4, 32:
			return "sig"
		case 5:
			return "funds"
		case 11:
			return "oog"
		case 13:
			return "fee"
		case 18:
			return "invalid"
		case 21:
			return "gaslimit"
		case 38:
			return "grant"
		case 29:
			return "type"
		case 111222:
			return "panic"
		case 2:
			return "decode"
		}
	case "feegrant":
		return "grant"
	case "undefined":
		if code == 111222 {
			return "panic"
		}
	case "authz":
		return "auth"
	}
	return fmt.Sprintf("other_%s_%d", codespace, code)
}

func txfeeDelta(after, before sdk.Coins) string {
	m := map[string]sdkmath.Int{}
	for _, c := range after {
		m[c.Denom] = c.Amount
	}
	for _, c := range before {
		if v, ok := m[c.Denom]; ok {
			m[c.Denom] = v.Sub(c.Amount)
		} else {
			m[c.Denom] = c.Amount.Neg()
		}
	}
	var ds []string
	for d, v := range m {
		if !v.IsZero() && d != txfeePayDenom {
			ds = append(ds, d)
		}
	}
	if len(ds) == 0 {
		return "-"
	}
	sort.Strings(ds)
	parts := make([]string, 0, len(ds))
	for _, d := range ds {
		parts = append(parts, m[d].String()+d)
	}
	return strings.Join(parts, ",")
}

func (e *txfeeEnv) balances(ctx sdk.Context, k *txfeeKeys) map[string]sdk.Coins {
	out := map[string]sdk.Coins{}
	for _, r := range txfeeRoles {
		out[r] = e.app.BankKeeper.GetAllBalances(ctx, k.addr[r])
	}
	out["C"] = e.app.BankKeeper.GetAllBalances(ctx, e.collect)
	return out
}

func (e *txfeeEnv) finalize(txs [][]byte) *abci.ResponseFinalizeBlock {
	e.height++
	e.now = e.now.Add(6 * time.Second)
	res, err := e.app.FinalizeBlock(&abci.RequestFinalizeBlock{Height: e.height, Txs: txs, Time: e.now})
	if err != nil {
		e.t.Fatalf("FinalizeBlock: %v", err)
	}
	return res
}

// run executes one op; returns the observed field (`obs=`) and the canonical output.
func (e *txfeeEnv) run(op *txfeeOp) (obs string, outp string) {
	k := e.freshKeys()
	e.prepare(op, k)
	gov1 := e.runGov(k, op.gv, op.floor, op.gov)
	cfg1 := e.cfgDump(e.dctx(), k)
	if _, err := e.app.Commit(); err != nil {
		e.t.Fatalf("Commit: %v", err)
	}
	pos := 0
	msgs, err := e.buildMsgs(op.body, &pos, k, 0)
	if err != nil {
		e.finalize(nil)
		return "--", "err:badop " + err.Error()
	}
	txb, err := e.signTxNoCtx(op, k, msgs)
	if err != nil {
		e.finalize(nil)
		return "--", "err:sign " + err.Error()
	}
	// mempool admission
	cb := e.balances(e.cctx(), k)
	cres, err := e.app.CheckTx(&abci.RequestCheckTx{Tx: txb, Type: abci.CheckTxType_New})
	if err != nil {
		e.t.Fatalf("CheckTx: %v", err)
	}
	ca := e.balances(e.cctx(), k)
	check := txfeeClass(cres.Codespace, cres.Code)
	obsC := "-"
	if check == "oog" {
		obsC = "g"
	}
	cchg := txfeeDelta(ca["P"], cb["P"]) + "/" + txfeeDelta(ca["G"], cb["G"])
	admitted := cres.Code == 0
	// a committed block (without the tx) changes the fee configuration; CometBFT then rechecks
	// every transaction still in its mempool on the committed state
	recheck, rchg, obsR := "skip", "-/-", ""
	gov2, cfg2 := "-", "-"
	if op.re && admitted {
		e.finalize(nil)
		floorNow := op.floor
		if op.direct2 {
			ctx2 := e.dctx()
			e.setFeeCfg(ctx2, k, op.floor2, op.convD2, op.convR2, op.sched2)
			ctx2.MultiStore().(storetypes.CacheMultiStore).Write()
			floorNow = op.floor2
		}
		gov2 = e.runGov(k, op.gv, floorNow, op.gov2)
		cfg2 = e.cfgDump(e.dctx(), k)
		if _, err := e.app.Commit(); err != nil {
			e.t.Fatalf("Commit: %v", err)
		}
		rb := e.balances(e.cctx(), k)
		rres, err := e.app.CheckTx(&abci.RequestCheckTx{Tx: txb, Type: abci.CheckTxType_Recheck})
		if err != nil {
			e.t.Fatalf("CheckTx(Recheck): %v", err)
		}
		ra := e.balances(e.cctx(), k)
		recheck = txfeeClass(rres.Codespace, rres.Code)
		if recheck == "oog" {
			obsR = "g"
		}
		rchg = txfeeDelta(ra["P"], rb["P"]) + "/" + txfeeDelta(ra["G"], rb["G"])
		admitted = rres.Code == 0
	}
	deliver := admitted || op.force
	var txs [][]byte
	if deliver {
		txs = [][]byte{txb}
	}
	fres := e.finalize(txs)
	ctx := e.dctx()
	after := e.balances(ctx, k)
	seq := uint64(0)
	if acc := e.app.AccountKeeper.GetAccount(ctx, k.addr["P"]); acc != nil {
		seq = acc.GetSequence() - txfeeSeq0
	}
	dres, obsD := "skip", "-"
	if deliver {
		r := fres.TxResults[0]
		cls := txfeeClass(r.Codespace, r.Code)
		switch {
		case r.Code == 0:
			dres = "ok"
		case seq == 0:
			// the ante handler failed: its branch (fee deduction, sequence increment) was dropped
			dres = "ante:" + cls
			if cls == "oog" {
				obsD = "a"
			}
		default:
			dres = "fail:" + cls
			if cls == "oog" {
				obsD = "m"
			}
		}
	}
	allow := "-"
	if g, err := e.app.FeeGrantKeeper.GetAllowance(ctx, k.addr["G"], k.addr["P"]); err == nil && g != nil {
		if ba, ok := g.(*feegrant.BasicAllowance); ok {
			if ba.SpendLimit == nil {
				allow = "unl"
			} else {
				allow = txfeeCoinsStr(ba.SpendLimit)
			}
		} else {
			allow = "other"
		}
	}
	before := map[string]sdk.Coins{"P": sdk.NewCoins(op.bal["P"]...), "G": sdk.NewCoins(op.bal["G"]...), "X": sdk.NewCoins(op.bal["X"]...)}
	var sb strings.Builder
	fmt.Fprintf(&sb, "gov=%s cfg=%s check=%s cchg=%s recheck=%s rchg=%s gov2=%s cfg2=%s deliver=%s seq=%d allow=%s",
		gov1, cfg1, check, cchg, recheck, rchg, gov2, cfg2, dres, seq, allow)
	for _, r := range []string{"P", "G", "X", "Q", "R1", "R2", "C"} {
		fmt.Fprintf(&sb, " %s=%s", r, txfeeDelta(after[r], before[r]))
	}
	return obsC + obsD + obsR, sb.String()
}

// signTxNoCtx signs without needing a finalize-state context.
func (e *txfeeEnv) signTxNoCtx(op *txfeeOp, k *txfeeKeys, msgs []sdk.Msg) (bz []byte, err error) {
	defer func() {
		if r := recover(); r != nil {
			err = fmt.Errorf("panic: %v", r)
		}
	}()
	cfg := e.app.GetTxConfig()
	b := cfg.NewTxBuilder()
	if err := b.SetMsgs(msgs...); err != nil {
		return nil, err
	}
	b.SetFeeAmount(op.fee)
	b.SetGasLimit(op.gas)
	if op.fg {
		b.SetFeeGranter(k.addr["G"])
	}
	seq := uint64(txfeeSeq0)
	if op.sig == "bad" {
		seq++
	}
	mode := signing.SignMode(cfg.SignModeHandler().DefaultMode())
	pub := k.priv["P"].PubKey()
	sig := signing.SignatureV2{PubKey: pub, Data: &signing.SingleSignatureData{SignMode: mode}, Sequence: seq}
	if err := b.SetSignatures(sig); err != nil {
		return nil, err
	}
	sd := authsigning.SignerData{Address: k.addr["P"].String(), ChainID: ChainID, AccountNumber: k.accN["P"], Sequence: seq, PubKey: pub}
	sig, err = tx.SignWithPrivKey(e.cctx(), mode, sd, b, k.priv["P"], cfg, seq)
	if err != nil {
		return nil, err
	}
	if err := b.SetSignatures(sig); err != nil {
		return nil, err
	}
	return cfg.TxEncoder()(b.GetTx())
}

func (e *txfeeEnv) emit(out *Out, op *txfeeOp) {
	e.ncase++
	var obs, res string
	res = Guard(func() string {
		o, r := e.run(op)
		obs = o
		return r
	})
	if obs == "" {
		obs = "--"
	}
	out.Emit(op.line()+" obs="+obs, res)
	for _, w := range strings.Fields(res) {
		if strings.HasPrefix(w, "check=") || strings.HasPrefix(w, "deliver=") || strings.HasPrefix(w, "recheck=") {
			out.Count(w)
		}
		if (strings.HasPrefix(w, "gov=") || strings.HasPrefix(w, "gov2=")) && !strings.HasSuffix(w, "=-") {
			for _, f := range strings.Split(w[strings.Index(w, "=")+1:], "/") {
				out.Count("proposal:" + f)
			}
		}
	}
}

func replayTxfee(t *testing.T, ops []string, out *Out) {
	for _, l := range ops {
		e := txfeeSetup(t)
		if strings.HasPrefix(l, "#") {
			out.Comment(strings.TrimPrefix(l, "# "))
			continue
		}
		if strings.HasPrefix(l, "seq ") || strings.HasPrefix(l, "mempool ") {
			sop, err := txfeeSeqParse(l)
			if err != nil {
				out.Emit(l, "err:badop")
				continue
			}
			e.emitSeq(out, sop)
			continue
		}
		op, err := txfeeParse(l)
		if err != nil {
			out.Emit(l, "err:badop")
			continue
		}
		e.emit(out, op)
	}
}

func driveTxfee(t *testing.T, rng *RNG, n int, out *Out) {
	txfeeSetup(t).seed = rng.U64()
	for i := 0; i < n; i++ {
		// one op in six is a SEQUENCE of transactions (txfee_seq_test.go): two thirds of them
		// delivered in one block / consecutive blocks, one third arriving at the mempool
		if rng.Chance(17) {
			sop := txfeeSeqGen(rng, out)
			txfeeSetup(t).emitSeq(out, sop)
			continue
		}
		op := txfeeGen(rng, out)
		txfeeSetup(t).emit(out, op)
	}
}
