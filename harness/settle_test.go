package harness

import (
	"errors"
	"fmt"
	"math/big"
	"regexp"
	"sort"
	"strings"
	"testing"

	sdkmath "cosmossdk.io/math"

	sdk "github.com/cosmos/cosmos-sdk/types"
	banktypes "github.com/cosmos/cosmos-sdk/x/bank/types"

	"github.com/provenance-io/provenance/x/exchange"
)

// Model "settle" (C01), pure stream: exchange.BuildSettlement and Order.Split on generated
// asks / bids / ratios.  Line formats are documented in lean/PvModel/SettleDriver.lean.

func init() {
	drivers["settle"] = driveSettle
	replayers["settle"] = replaySettle
}

// ---- symbolic addresses ------------------------------------------------------------------

var settleAddrToName = map[string]string{}
var settleNameToAddr = map[string]string{}

func settleAddr(name string) string {
	if a, ok := settleNameToAddr[name]; ok {
		return a
	}
	bz := make([]byte, 20)
	copy(bz, []byte("verif_"+name))
	a := sdk.AccAddress(bz).String()
	settleNameToAddr[name] = a
	settleAddrToName[a] = name
	return a
}

func settleName(addr string) string {
	if n, ok := settleAddrToName[addr]; ok {
		return n
	}
	return "?" + addr
}

// ---- parsing / printing --------------------------------------------------------------------

var settleCoinRx = regexp.MustCompile(`^(-?[0-9]+)([a-zA-Z][a-zA-Z0-9/:._-]*)$`)

func settleParseCoin(s string) (sdk.Coin, error) {
	m := settleCoinRx.FindStringSubmatch(s)
	if m == nil {
		return sdk.Coin{}, fmt.Errorf("bad coin %q", s)
	}
	b, ok := new(big.Int).SetString(m[1], 10)
	if !ok || b.BitLen() > 256 {
		return sdk.Coin{}, fmt.Errorf("bad coin amount %q", s)
	}
	return sdk.Coin{Denom: m[2], Amount: sdkmath.NewIntFromBigInt(b)}, nil
}

func settleParseCoins(s string) (sdk.Coins, error) {
	if s == "-" || s == "" {
		return nil, nil
	}
	var rv sdk.Coins
	for _, p := range strings.Split(s, ",") {
		c, err := settleParseCoin(p)
		if err != nil {
			return nil, err
		}
		rv = append(rv, c)
	}
	return rv, nil
}

// settleParseOrder parses `<a|b>:<id>:<owner>:<assets>:<price>:<fees>:<partial>`.
func settleParseOrder(s string) (*exchange.Order, error) {
	f := strings.Split(s, ":")
	if len(f) != 7 {
		return nil, fmt.Errorf("bad order %q", s)
	}
	var id uint64
	if _, err := fmt.Sscan(f[1], &id); err != nil {
		return nil, err
	}
	assets, err := settleParseCoin(f[3])
	if err != nil {
		return nil, err
	}
	price, err := settleParseCoin(f[4])
	if err != nil {
		return nil, err
	}
	fees, err := settleParseCoins(f[5])
	if err != nil {
		return nil, err
	}
	owner := settleAddr(f[2])
	part := f[6] == "1"
	switch f[0] {
	case "a":
		ask := &exchange.AskOrder{MarketId: 1, Seller: owner, Assets: assets, Price: price, AllowPartial: part}
		if len(fees) > 0 {
			c := fees[0]
			ask.SellerSettlementFlatFee = &c
		}
		return exchange.NewOrder(id).WithAsk(ask), nil
	case "b":
		bid := &exchange.BidOrder{MarketId: 1, Buyer: owner, Assets: assets, Price: price, BuyerSettlementFees: fees, AllowPartial: part}
		return exchange.NewOrder(id).WithBid(bid), nil
	}
	return nil, fmt.Errorf("bad order kind %q", s)
}

func settleCoinsStr(cs sdk.Coins) string {
	if len(cs) == 0 {
		return "-"
	}
	parts := make([]string, len(cs))
	for i, c := range cs {
		parts[i] = c.Amount.String() + c.Denom
	}
	return strings.Join(parts, ",")
}

func settleOrderStr(o *exchange.Order) string {
	k := "b"
	if o.IsAskOrder() {
		k = "a"
	}
	p := "0"
	if o.PartialFillAllowed() {
		p = "1"
	}
	a, pr := o.GetAssets(), o.GetPrice()
	return fmt.Sprintf("%s:%d:%s:%s%s:%s%s:%s:%s", k, o.OrderId, settleName(o.GetOwner()), a.Amount, a.Denom, pr.Amount, pr.Denom,
		settleCoinsStr(o.GetSettlementFees()), p)
}

func settleInputsStr(ins []banktypes.Input) string {
	if len(ins) == 0 {
		return "-"
	}
	parts := make([]string, len(ins))
	for i, in := range ins {
		parts[i] = settleName(in.Address) + ":" + settleCoinsStr(in.Coins)
	}
	return strings.Join(parts, "|")
}

func settleOutputsStr(outs []banktypes.Output) string {
	if len(outs) == 0 {
		return "-"
	}
	parts := make([]string, len(outs))
	for i, o := range outs {
		parts[i] = settleName(o.Address) + ":" + settleCoinsStr(o.Coins)
	}
	return strings.Join(parts, "|")
}

func settleFilledStr(f *exchange.FilledOrder) string {
	a, op, p := f.GetAssets(), f.GetOriginalPrice(), f.GetPrice()
	return fmt.Sprintf("%d:%s%s:%s%s:%s%s:%s:%s", f.GetOrderID(), a.Amount, a.Denom, op.Amount, op.Denom, p.Amount, p.Denom,
		settleCoinsStr(f.GetOriginalSettlementFees()), settleCoinsStr(f.GetSettlementFees()))
}

func settleSettlementStr(s *exchange.Settlement) string {
	ts := make([]string, len(s.Transfers))
	for i, t := range s.Transfers {
		ts[i] = settleInputsStr(t.Inputs) + ">" + settleOutputsStr(t.Outputs)
	}
	ff := make([]string, len(s.FullyFilledOrders))
	for i, f := range s.FullyFilledOrders {
		ff[i] = settleFilledStr(f)
	}
	pf, pl := "-", "-"
	if s.PartialOrderFilled != nil {
		pf = settleFilledStr(s.PartialOrderFilled)
	}
	if s.PartialOrderLeft != nil {
		pl = settleOrderStr(s.PartialOrderLeft)
	}
	return fmt.Sprintf("ok T=%s F=%s FF=%s PF=%s PL=%s", JoinOr(ts, ";"), settleInputsStr(s.FeeInputs), JoinOr(ff, "|"), pf, pl)
}

// ---- error classes -----------------------------------------------------------------------

var errSettleLookup = errors.New("verif: seller ratio lookup failed")

var settleErrTable = []struct {
	rx    *regexp.Regexp
	class string
}{
	{regexp.MustCompile(`^no (ask|bid) orders provided`), "empty"},
	{regexp.MustCompile(`is not an? (ask|bid) order but is in the`), "type"},
	{regexp.MustCompile(`^cannot settle (with multiple|different)`), "denoms"},
	{regexp.MustCompile(`zero or negative assets left`), "assets_left"},
	{regexp.MustCompile(`has no assets filled`), "nofill"},
	{regexp.MustCompile(`is not filled in full and is not the last`), "notlast"},
	{regexp.MustCompile(`cannot both be partially filled`), "bothpartial"},
	{regexp.MustCompile(`amount filled not positive`), "split_notpositive"},
	{regexp.MustCompile(`amount filled equals order assets`), "split_equals"},
	{regexp.MustCompile(`^cannot split .*: overfilled`), "split_over"},
	{regexp.MustCompile(`order does not allow partial fulfillment`), "nopartial"},
	{regexp.MustCompile(`price "[^"]*" is not evenly divisible`), "pricediv"},
	{regexp.MustCompile(`fee "[^"]*" is not evenly divisible`), "feediv"},
	{regexp.MustCompile(`is greater than total bid price`), "askgtbid"},
	{regexp.MustCompile(`^verif: seller ratio lookup failed`), "ratiolookup"},
	{regexp.MustCompile(`^failed calculate ratio fee`), "ratiofee"},
	{regexp.MustCompile(`is more than price filled`), "askprice"},
	{regexp.MustCompile(`is not equal to price filled`), "bidprice"},
	{regexp.MustCompile(`does not equal filled assets`), "assetsne"},
	{regexp.MustCompile(`assets( in a transfer)?: amount not positive`), "xferassets"},
	{regexp.MustCompile(`(cannot be filled at price|cannot have price) .*: amount not positive`), "xferprice"},
	{regexp.MustCompile(`in fees: negative amount`), "feeneg"},
}

func settleErrClass(err error) string {
	first := strings.SplitN(err.Error(), "\n", 2)[0]
	for _, e := range settleErrTable {
		if e.rx.MatchString(first) {
			return "err:" + e.class
		}
	}
	return "err:other"
}

func settleGuard(f func() string) (res string) {
	defer func() {
		if r := recover(); r != nil {
			m := strings.ToLower(fmt.Sprint(r))
			switch {
			case strings.Contains(m, "overflow"):
				res = "panic:overflow"
			case strings.Contains(m, "index out of range"):
				res = "panic:index"
			case strings.Contains(m, "no bid orders left"):
				res = "panic:nobids"
			case strings.Contains(m, "division by zero"):
				res = "panic:divzero"
			default:
				res = "panic:other"
			}
		}
	}()
	return f()
}

// ---- execution on the real code ------------------------------------------------------------

func settleKV(ws []string, k string) string {
	for _, w := range ws {
		if strings.HasPrefix(w, k+"=") {
			return w[len(k)+1:]
		}
	}
	return ""
}

func settleParseOrders(s string) ([]*exchange.Order, error) {
	if s == "-" || s == "" {
		return nil, nil
	}
	var rv []*exchange.Order
	for _, p := range strings.Split(s, "|") {
		o, err := settleParseOrder(p)
		if err != nil {
			return nil, err
		}
		rv = append(rv, o)
	}
	return rv, nil
}

func settleLookup(r string) (func(string) (*exchange.FeeRatio, error), error) {
	switch r {
	case "none":
		return func(string) (*exchange.FeeRatio, error) { return nil, nil }, nil
	case "err":
		return func(string) (*exchange.FeeRatio, error) { return nil, errSettleLookup }, nil
	}
	f := strings.Split(r, ":")
	if len(f) != 2 {
		return nil, fmt.Errorf("bad ratio %q", r)
	}
	p, err := settleParseCoin(f[0])
	if err != nil {
		return nil, err
	}
	fee, err := settleParseCoin(f[1])
	if err != nil {
		return nil, err
	}
	return func(string) (*exchange.FeeRatio, error) { return &exchange.FeeRatio{Price: p, Fee: fee}, nil }, nil
}

func settleExec(op string) string {
	ws := strings.Fields(op)
	if len(ws) == 0 {
		return "bad-op"
	}
	return settleGuard(func() string {
		switch ws[0] {
		case "settle":
			asks, err := settleParseOrders(settleKV(ws, "A"))
			if err != nil {
				return "bad-op"
			}
			bids, err := settleParseOrders(settleKV(ws, "B"))
			if err != nil {
				return "bad-op"
			}
			lk, err := settleLookup(settleKV(ws, "R"))
			if err != nil {
				return "bad-op"
			}
			s, err := exchange.BuildSettlement(asks, bids, lk)
			if err != nil {
				return settleErrClass(err)
			}
			return settleSettlementStr(s)
		case "split":
			if len(ws) != 3 {
				return "bad-op"
			}
			o, err := settleParseOrder(ws[1])
			if err != nil {
				return "bad-op"
			}
			amt, ok := new(big.Int).SetString(ws[2], 10)
			if !ok {
				return "bad-op"
			}
			a, b, err := o.Split(sdkmath.NewIntFromBigInt(amt))
			if err != nil {
				return settleErrClass(err)
			}
			return "ok " + settleOrderStr(a) + " " + settleOrderStr(b)
		}
		return "bad-op"
	})
}

// ---- generator -----------------------------------------------------------------------------

type settleGenOrder struct {
	ask     bool
	id      int
	owner   string
	assets  *big.Int
	adenom  string
	price   *big.Int
	pdenom  string
	fees    map[string]*big.Int
	partial bool
}

// settleCap keeps an amount below 2^230 so that the sums of one request stay below 2^256
// (products may still overflow: that panic is part of the model).
func settleCap(x *big.Int) *big.Int {
	if x.BitLen() > 230 {
		x = new(big.Int).Rsh(x, uint(x.BitLen()-230))
	}
	if x.Sign() <= 0 {
		x = big.NewInt(1)
	}
	return x
}

func (o *settleGenOrder) String() string {
	o.assets, o.price = settleCap(o.assets), settleCap(o.price)
	for d, f := range o.fees {
		o.fees[d] = settleCap(f)
	}
	k := "b"
	if o.ask {
		k = "a"
	}
	var ds []string
	for d := range o.fees {
		ds = append(ds, d)
	}
	sort.Strings(ds)
	var fs []string
	for _, d := range ds {
		fs = append(fs, o.fees[d].String()+d)
	}
	p := "0"
	if o.partial {
		p = "1"
	}
	return fmt.Sprintf("%s:%d:%s:%s%s:%s%s:%s:%s", k, o.id, o.owner, o.assets, o.adenom, o.price, o.pdenom, JoinOr(fs, ","), p)
}

func bigMul(a *big.Int, b int64) *big.Int { return new(big.Int).Mul(a, big.NewInt(b)) }

// settleUnit draws a positive "unit" amount: mostly small, sometimes huge (beyond 2^64 / 2^128).
func settleUnit(r *RNG, out *Out) *big.Int {
	one := big.NewInt(1)
	switch k := r.Intn(100); {
	case k < 30:
		return big.NewInt(1)
	case k < 60:
		return big.NewInt(int64(1 + r.Intn(12)))
	case k < 75:
		return big.NewInt(int64([]int{7, 11, 13, 97, 1000, 1000000, 999983}[r.Intn(7)]))
	case k < 85:
		return new(big.Int).Exp(big.NewInt(10), big.NewInt(int64(1+r.Intn(30))), nil)
	case k < 93:
		kk := []uint{63, 64, 65}[r.Intn(3)]
		x := new(big.Int).Lsh(one, kk)
		return x.Add(x, big.NewInt(int64(r.Intn(3)-1)))
	case k < 97:
		return new(big.Int).Lsh(one, uint(100+r.Intn(40)))
	default:
		x := r.BigBoundary()
		if x.Sign() <= 0 {
			return big.NewInt(1)
		}
		if x.BitLen() > 180 {
			x.Rsh(x, uint(x.BitLen()-180))
		}
		return x
	}
}

// settleSplitTotal splits total into n positive parts (total >= n).
func settleSplitTotal(r *RNG, total *big.Int, n int) []*big.Int {
	parts := make([]*big.Int, n)
	rest := new(big.Int).Set(total)
	for i := 0; i < n-1; i++ {
		// leave at least (n-1-i) for the others
		max := new(big.Int).Sub(rest, big.NewInt(int64(n-1-i)))
		var p *big.Int
		if max.Cmp(big.NewInt(1)) <= 0 {
			p = big.NewInt(1)
		} else {
			// a random share: max * k / 8 (k in 1..7), at least 1
			p = new(big.Int).Mul(max, big.NewInt(int64(1+r.Intn(7))))
			p.Quo(p, big.NewInt(8))
			if p.Sign() <= 0 {
				p = big.NewInt(1)
			}
		}
		parts[i] = p
		rest = new(big.Int).Sub(rest, p)
	}
	parts[n-1] = rest
	return parts
}

var settleOwners = []string{"S1", "S2", "S3", "B1", "B2", "B3", "X1"}

func genSettleOp(r *RNG, out *Out) string {
	nA, nB := 1+r.Intn(3), 1+r.Intn(3)
	if r.Chance(35) {
		nA = 1 + r.Intn(6)
	}
	if r.Chance(35) {
		nB = 1 + r.Intn(6)
	}
	out.Count(fmt.Sprintf("nasks:%d", nA))
	out.Count(fmt.Sprintf("nbids:%d", nB))
	shared := r.Chance(30)
	if shared {
		out.Count("owners:shared")
	}
	owner := func(ask bool, i int) string {
		if shared {
			return Pick(r, settleOwners)
		}
		if ask {
			return fmt.Sprintf("S%d", i+1)
		}
		return fmt.Sprintf("B%d", i+1)
	}

	// asset amounts: asks first, multiples of a unit u so that proportional prices divide
	u := settleUnit(r, out)
	if u.BitLen() > 64 {
		out.Count("amount:unit>2^64")
	}
	asks := make([]*settleGenOrder, nA)
	total := new(big.Int)
	for i := range asks {
		m := int64(1 + r.Intn(9))
		if r.Chance(10) {
			m = int64(1 + r.Intn(1000))
		}
		a := bigMul(u, m)
		total.Add(total, a)
		asks[i] = &settleGenOrder{ask: true, id: i + 1, owner: owner(true, i), assets: a, adenom: "apple", pdenom: "usd", fees: map[string]*big.Int{}}
	}
	// bids: shape decides who (if anyone) is partial
	shape := r.Intn(100)
	bidTotal := new(big.Int).Set(total)
	var shapeName string
	switch {
	case shape < 40:
		shapeName = "exact"
	case shape < 62: // last bid wants more than is for sale -> bid partial
		shapeName = "bid-partial"
		bidTotal.Add(bidTotal, bigMul(u, int64(1+r.Intn(5))))
	case shape < 84: // bids want less: last ask partial (if the shortfall is inside the last ask)
		shapeName = "ask-partial"
		last := asks[nA-1].assets
		short := new(big.Int).Quo(last, big.NewInt(int64(2+r.Intn(3))))
		if r.Chance(50) {
			short = new(big.Int).Set(u)
		}
		if short.Sign() > 0 && short.Cmp(last) < 0 {
			bidTotal.Sub(bidTotal, short)
		}
	case shape < 92: // way off: some order gets nothing / not-last partial
		shapeName = "skewed"
		if r.Bool() {
			bidTotal = bigMul(bidTotal, int64(2+r.Intn(3)))
		} else {
			bidTotal.Quo(bidTotal, big.NewInt(int64(2+r.Intn(3))))
		}
	default:
		shapeName = "random"
		bidTotal = bigMul(u, int64(1+r.Intn(20)))
	}
	out.Count("shape:" + shapeName)
	if bidTotal.Cmp(big.NewInt(int64(nB))) < 0 {
		bidTotal = big.NewInt(int64(nB))
	}
	bids := make([]*settleGenOrder, nB)
	var parts []*big.Int
	if shapeName == "bid-partial" && nB > 0 {
		// the first nB-1 bids + part of the last cover `total`
		parts = settleSplitTotal(r, bidTotal, nB)
	} else {
		parts = settleSplitTotal(r, bidTotal, nB)
	}
	for i := range bids {
		bids[i] = &settleGenOrder{ask: false, id: 100 + i + 1, owner: owner(false, i), assets: parts[i], adenom: "apple", pdenom: "usd", fees: map[string]*big.Int{}}
	}

	// prices: per-unit price pa for asks (so splitting divides), pb >= pa for bids mostly
	pu := settleUnit(r, out)
	if r.Chance(70) && pu.BitLen() > 70 {
		pu = big.NewInt(int64(1 + r.Intn(50)))
	}
	for _, o := range asks {
		o.price = new(big.Int).Mul(o.assets, pu)
		if r.Chance(12) {
			o.price.Add(o.price, big.NewInt(int64(r.Intn(5))))
		}
		if r.Chance(5) {
			o.price = big.NewInt(int64(1 + r.Intn(100)))
		}
	}
	premium := int64(0)
	switch k := r.Intn(100); {
	case k < 30:
		premium = 0
	case k < 85:
		premium = int64(1 + r.Intn(7))
	default:
		premium = int64(1 + r.Intn(1000))
	}
	low := r.Chance(8)
	if low {
		out.Count("price:some-bid-below-ask")
	}
	if premium == 0 {
		out.Count("price:equal")
	} else {
		out.Count("price:premium")
	}
	for i, o := range bids {
		pb := new(big.Int).Add(pu, big.NewInt(premium))
		if r.Chance(25) {
			pb.Add(pb, big.NewInt(int64(r.Intn(4))))
		}
		if low && (i == 0 || r.Chance(30)) {
			pb = new(big.Int).Quo(pu, big.NewInt(2))
			if pb.Sign() == 0 {
				pb = big.NewInt(1)
			}
		}
		o.price = new(big.Int).Mul(o.assets, pb)
		if r.Chance(10) {
			o.price.Add(o.price, big.NewInt(int64(r.Intn(5))))
		}
	}

	// fees
	for _, o := range asks {
		if r.Chance(55) {
			d := "fig"
			if r.Chance(35) {
				d = "usd"
				out.Count("askfee:price-denom")
			} else {
				out.Count("askfee:other-denom")
			}
			f := bigMul(o.assets, int64(1+r.Intn(3)))
			if r.Chance(25) {
				f = big.NewInt(int64(1 + r.Intn(50)))
			}
			o.fees[d] = f
		} else {
			out.Count("askfee:none")
		}
	}
	for _, o := range bids {
		nf := 0
		switch k := r.Intn(100); {
		case k < 35:
			nf = 0
		case k < 75:
			nf = 1
		default:
			nf = 2
		}
		for j := 0; j < nf; j++ {
			d := []string{"fig", "usd", "zed"}[r.Intn(3)]
			f := bigMul(o.assets, int64(1+r.Intn(3)))
			if r.Chance(25) {
				f = big.NewInt(int64(1 + r.Intn(50)))
			}
			o.fees[d] = f
		}
		out.Count(fmt.Sprintf("bidfees:%d", len(o.fees)))
	}

	// partial flags: last orders mostly allow it
	for i, o := range asks {
		o.partial = r.Chance(30)
		if i == nA-1 {
			o.partial = r.Chance(85)
		}
	}
	for i, o := range bids {
		o.partial = r.Chance(30)
		if i == nB-1 {
			o.partial = r.Chance(85)
		}
	}

	// ratio
	ratio := "none"
	switch k := r.Intn(100); {
	case k < 22:
		ratio = "none"
	case k < 25:
		ratio = "err"
	case k < 28:
		ratio = "1000zed:3zed" // wrong price denom
	default:
		rp := big.NewInt(int64([]int{1, 2, 3, 7, 10, 100, 1000, 10000, 12345}[r.Intn(9)]))
		if r.Chance(15) {
			rp = settleUnit(r, out)
		}
		rf := new(big.Int).Quo(rp, big.NewInt(int64(1+r.Intn(50))))
		if r.Chance(20) {
			rf = big.NewInt(int64(r.Intn(3)))
		}
		if rf.Cmp(rp) > 0 {
			rf = new(big.Int).Set(rp)
		}
		fd := "usd"
		if r.Chance(15) {
			fd = "fig"
			if r.Chance(30) {
				rf = settleUnit(r, out) // other denom: fee may exceed price
			}
		}
		ratio = fmt.Sprintf("%susd:%s%s", rp, rf, fd)
	}
	if ratio == "none" || ratio == "err" {
		out.Count("ratio:" + ratio)
	} else if strings.HasPrefix(ratio, "1000zed") {
		out.Count("ratio:wrong-denom")
	} else {
		out.Count("ratio:some")
	}

	// malformed minority
	if r.Chance(6) {
		switch r.Intn(6) {
		case 0:
			asks = nil
			out.Count("malformed:no-asks")
		case 1:
			bids = nil
			out.Count("malformed:no-bids")
		case 2:
			Pick(r, asks).ask = false
			out.Count("malformed:bid-in-asks")
		case 3:
			Pick(r, bids).ask = true
			out.Count("malformed:ask-in-bids")
		case 4:
			Pick(r, bids).adenom = "pear"
			out.Count("malformed:asset-denom")
		case 5:
			Pick(r, asks).pdenom = "zed"
			out.Count("malformed:price-denom")
		}
	}

	as := make([]string, len(asks))
	for i, o := range asks {
		as[i] = o.String()
	}
	bs := make([]string, len(bids))
	for i, o := range bids {
		bs[i] = o.String()
	}
	return fmt.Sprintf("settle A=%s B=%s R=%s", JoinOr(as, "|"), JoinOr(bs, "|"), ratio)
}

func genSplitOp(r *RNG, out *Out) string {
	u := settleUnit(r, out)
	m := int64(2 + r.Intn(12))
	o := &settleGenOrder{ask: r.Bool(), id: 1 + r.Intn(50), owner: "S1", assets: bigMul(u, m), adenom: "apple", pdenom: "usd", fees: map[string]*big.Int{}, partial: r.Chance(90)}
	pu := settleUnit(r, out)
	o.price = new(big.Int).Mul(o.assets, pu)
	if r.Chance(25) {
		o.price = bigMul(pu, int64(1+r.Intn(30)))
	}
	nf := r.Intn(3)
	if o.ask && nf > 1 {
		nf = 1
	}
	for j := 0; j < nf; j++ {
		d := []string{"fig", "usd", "zed"}[r.Intn(3)]
		f := bigMul(o.assets, int64(1+r.Intn(3)))
		if r.Chance(30) {
			f = bigMul(u, int64(1+r.Intn(30)))
		}
		if r.Chance(10) {
			f = big.NewInt(int64(1 + r.Intn(50)))
		}
		o.fees[d] = f
	}
	var f *big.Int
	switch k := r.Intn(100); {
	case k < 70:
		f = bigMul(u, int64(1+r.Intn(int(m)-1)))
	case k < 80:
		f = new(big.Int).Add(bigMul(u, int64(1+r.Intn(int(m)-1))), big.NewInt(int64(r.Intn(3)-1)))
	case k < 85:
		f = new(big.Int).Set(o.assets)
	case k < 90:
		f = new(big.Int).Add(o.assets, big.NewInt(int64(1+r.Intn(3))))
	case k < 95:
		f = big.NewInt(int64(r.Intn(3) - 1))
	default:
		f = big.NewInt(int64(1 + r.Intn(20)))
	}
	return fmt.Sprintf("split %s %s", o, f)
}

func settleResClass(res string) string {
	f := strings.Fields(res)
	if len(f) == 0 {
		return "empty"
	}
	return f[0]
}

func driveSettle(t *testing.T, rng *RNG, n int, out *Out) {
	for i := 0; i < n; i++ {
		var op string
		if rng.Chance(12) {
			op = genSplitOp(rng, out)
			out.Count("op:split")
		} else {
			op = genSettleOp(rng, out)
			out.Count("op:settle")
		}
		res := settleExec(op)
		kind := strings.Fields(op)[0]
		out.Count("res:" + kind + ":" + settleResClass(res))
		if kind == "settle" && strings.HasPrefix(res, "ok") {
			if strings.Contains(res, " PL=-") {
				out.Count("accepted:no-partial")
			} else if strings.Contains(res, " PL=a:") {
				out.Count("accepted:ask-partial")
			} else {
				out.Count("accepted:bid-partial")
			}
		}
		out.Emit(op, res)
	}
}

func replaySettle(t *testing.T, ops []string, out *Out) {
	for _, op := range ops {
		if strings.HasPrefix(op, "#") {
			continue
		}
		out.Emit(op, settleExec(op))
	}
}
