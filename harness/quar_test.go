package harness

// C07 — quarantine: drives the REAL quarantine keeper (through its MsgServer), the REAL bank
// keeper (MsgSend / MsgMultiSend through the bank MsgServer, InputOutputCoinsProv with several
// inputs, SendCoins under quarantine.WithBypass as the exchange module calls it) and the real marker send restriction on one app; after every
// operation the whole relevant state is dumped canonically.

import (
	"bytes"
	"crypto/sha256"
	"fmt"
	"sort"
	"strings"
	"sync"
	"testing"

	"cosmossdk.io/store/prefix"

	sdkmath "cosmossdk.io/math"

	"github.com/cometbft/cometbft/crypto"

	sdk "github.com/cosmos/cosmos-sdk/types"
	"github.com/cosmos/cosmos-sdk/types/address"
	sdkerrors "github.com/cosmos/cosmos-sdk/types/errors"
	authtypes "github.com/cosmos/cosmos-sdk/x/auth/types"
	bankkeeper "github.com/cosmos/cosmos-sdk/x/bank/keeper"
	banktestutil "github.com/cosmos/cosmos-sdk/x/bank/testutil"
	banktypes "github.com/cosmos/cosmos-sdk/x/bank/types"

	"github.com/provenance-io/provenance/app"
	markertypes "github.com/provenance-io/provenance/x/marker/types"
	"github.com/provenance-io/provenance/x/quarantine"
	quarantinekeeper "github.com/provenance-io/provenance/x/quarantine/keeper"
)

func init() {
	drivers["quar"] = quarDrive
	replayers["quar"] = quarReplay
}

var quarNames = []string{"A", "B", "C", "D", "E"}

const quarHolder = "H"

var quarDenoms = []string{"aaa", "bbb", "rcoin"}

type quarEnv struct {
	t       *testing.T
	app     *app.App
	base    sdk.Context
	ctx     sdk.Context
	addrs   map[string]sdk.AccAddress
	names   map[string]string // string(addr bytes) -> name
	sfx     map[string]string // string(suffix bytes) -> canonical name
	bankSrv banktypes.MsgServer
	accts   []string // accounts of the current history, in dump order
}

var (
	quarOnce sync.Once
	quarE    *quarEnv
)

func quarGetEnv(t *testing.T) *quarEnv {
	quarOnce.Do(func() {
		a, ctx := NewApp(t)
		e := &quarEnv{t: t, app: a, base: ctx, addrs: map[string]sdk.AccAddress{}, names: map[string]string{}, sfx: map[string]string{}}
		for _, n := range quarNames {
			e.addrs[n] = sdk.AccAddress(crypto.AddressHash([]byte("verif-quar-" + n)))
		}
		// E is a 32-byte address (module/group-policy style): record keys cut single senders to 32 bytes,
		// so "E+" (= E followed by one zero byte, a different valid address) shares E's record suffix
		e.addrs["E"] = sdk.AccAddress(address.Module("verif-quar", []byte("E")))
		e.addrs[quarHolder] = a.QuarantineKeeper.GetFundsHolder()
		all := append(append([]string{}, quarNames...), quarHolder)
		for _, n := range all {
			e.names[string(e.addrs[n])] = n
			e.sfx[string(e.addrs[n])] = n
		}
		// "E+": E followed by one zero byte (only ever named in accept lists)
		ePlus := append(append(sdk.AccAddress{}, e.addrs["E"]...), 0x00)
		e.names[string(ePlus)] = "E+"
		e.sfx[string(ePlus)] = "E+"
		// every sender set of size >= 2: sha256 of the byte-sorted concatenation (keys.go:120)
		for mask := 1; mask < 1<<len(all); mask++ {
			var ns []string
			var as []sdk.AccAddress
			for i, n := range all {
				if mask&(1<<i) != 0 {
					ns = append(ns, n)
					as = append(as, e.addrs[n])
				}
			}
			if len(ns) < 2 {
				continue
			}
			sort.Slice(as, func(i, j int) bool { return bytes.Compare(as[i], as[j]) < 0 })
			var cat []byte
			for _, x := range as {
				cat = append(cat, x...)
			}
			h := sha256.Sum256(cat)
			sort.Strings(ns)
			e.sfx[string(h[:])] = strings.Join(ns, "+")
		}
		// a restricted marker without required attributes; A and B have transfer access.
		mAddr := markertypes.MustGetMarkerAddress("rcoin")
		mk := markertypes.NewMarkerAccount(authtypes.NewBaseAccountWithAddress(mAddr), sdk.NewInt64Coin("rcoin", 0), nil,
			[]markertypes.AccessGrant{
				{Address: e.addrs["A"].String(), Permissions: markertypes.AccessList{markertypes.Access_Transfer}},
				{Address: e.addrs["B"].String(), Permissions: markertypes.AccessList{markertypes.Access_Transfer}},
			}, markertypes.StatusActive, markertypes.MarkerType_RestrictedCoin, false, true, false, nil)
		a.MarkerKeeper.SetMarker(ctx, a.MarkerKeeper.NewMarker(ctx, mk))
		e.bankSrv = bankkeeper.NewMsgServerImpl(a.BankKeeper)
		quarE = e
	})
	quarE.t = t
	return quarE
}

func (e *quarEnv) name(a []byte) string {
	if n, ok := e.names[string(a)]; ok {
		return n
	}
	return fmt.Sprintf("x%x", a)
}

func (e *quarEnv) sfxName(s []byte) string {
	if n, ok := e.sfx[string(s)]; ok {
		return n
	}
	return fmt.Sprintf("x%x", s)
}

func (e *quarEnv) addr(n string) (sdk.AccAddress, bool) {
	if strings.HasSuffix(n, "+") {
		a, ok := e.addrs[strings.TrimSuffix(n, "+")]
		if !ok {
			return nil, false
		}
		return append(append(sdk.AccAddress{}, a...), 0x00), true
	}
	a, ok := e.addrs[n]
	return a, ok
}

func (e *quarEnv) addrList(s string) ([]sdk.AccAddress, []string, bool) {
	if s == "-" || s == "" {
		return nil, nil, true
	}
	var as []sdk.AccAddress
	var ss []string
	for _, n := range strings.Split(s, "|") {
		a, ok := e.addr(n)
		if !ok {
			return nil, nil, false
		}
		as = append(as, a)
		ss = append(ss, a.String())
	}
	return as, ss, true
}

// quarParseCoins builds sdk.Coins exactly as written (no sorting / merging: invalid stays invalid).
func quarParseCoins(s string) (sdk.Coins, bool) {
	if s == "-" || s == "" {
		return sdk.Coins{}, true
	}
	var cs sdk.Coins
	for _, p := range strings.Split(s, ",") {
		i := 0
		for i < len(p) && (p[i] >= '0' && p[i] <= '9') {
			i++
		}
		if i == 0 || i == len(p) {
			return nil, false
		}
		amt, ok := sdkmath.NewIntFromString(p[:i])
		if !ok {
			return nil, false
		}
		cs = append(cs, sdk.Coin{Denom: p[i:], Amount: amt})
	}
	return cs, true
}

func quarErrClass(err error) string {
	m := err.Error()
	switch {
	case sdkerrors.ErrInsufficientFunds.Is(err):
		return "err:funds"
	case sdkerrors.ErrInvalidCoins.Is(err), banktypes.ErrInputOutputMismatch.Is(err), banktypes.ErrNoInputs.Is(err), banktypes.ErrNoOutputs.Is(err):
		return "err:invalid"
	case strings.Contains(m, "already fully accepted"):
		return "err:state"
	case strings.Contains(m, "does not have transfer permissions"):
		return "err:perm"
	case strings.Contains(m, "at least one from address is required"), strings.Contains(m, "no updates"), strings.Contains(m, "invalid"):
		return "err:invalid"
	}
	return "err:other"
}

// dump renders the state canonically (see lean/PvModel/QuarDriver.lean `dump`).
func (e *quarEnv) dump() string {
	ctx := e.ctx
	k := e.app.QuarantineKeeper
	var bals []string
	for _, n := range e.accts {
		bals = append(bals, n+"="+CoinsStrDenomOrder(e.app.BankKeeper.GetAllBalances(ctx, e.addrs[n])))
	}
	var opt []string
	k.IterateQuarantinedAccounts(ctx, func(to sdk.AccAddress) bool {
		opt = append(opt, e.name(to))
		return false
	})
	sort.Strings(opt)
	var auto []string
	k.IterateAutoResponses(ctx, nil, func(to, from sdk.AccAddress, r quarantine.AutoResponse) bool {
		c := "u"
		if r.IsAccept() {
			c = "a"
		} else if r.IsDecline() {
			c = "d"
		}
		auto = append(auto, e.name(to)+"<"+e.name(from)+"="+c)
		return false
	})
	sort.Strings(auto)
	nameList := func(as []sdk.AccAddress) string {
		var ns []string
		for _, a := range as {
			ns = append(ns, e.name(a))
		}
		return JoinOr(ns, ",")
	}
	var recs []string
	k.IterateQuarantineRecords(ctx, nil, func(to, suffix sdk.AccAddress, r *quarantine.QuarantineRecord) bool {
		d := "0"
		if r.Declined {
			d = "1"
		}
		recs = append(recs, fmt.Sprintf("%s<%s/u=%s/a=%s/c=%s/d=%s", e.name(to), e.sfxName(suffix),
			nameList(r.UnacceptedFromAddresses), nameList(r.AcceptedFromAddresses), CoinsStrDenomOrder(r.Coins), d))
		return false
	})
	sort.Strings(recs)
	var idx []string
	st := prefix.NewStore(ctx.KVStore(e.app.GetKey(quarantine.StoreKey)), quarantine.RecordIndexPrefix)
	it := st.Iterator(nil, nil)
	for ; it.Valid(); it.Next() {
		to, from := quarantine.ParseRecordIndexKey(quarantine.MakeKey(quarantine.RecordIndexPrefix, it.Key()))
		var si quarantine.QuarantineRecordSuffixIndex
		e.app.AppCodec().MustUnmarshal(it.Value(), &si)
		var ss []string
		for _, s := range si.RecordSuffixes {
			ss = append(ss, e.sfxName(s))
		}
		sort.Strings(ss)
		idx = append(idx, e.name(to)+"<"+e.name(from)+"="+JoinOr(ss, ","))
	}
	it.Close()
	sort.Strings(idx)
	inv := "ok"
	if _, broken := quarantinekeeper.FundsHolderBalanceInvariant(k)(ctx); broken {
		inv = "broken"
	}
	return "bal:" + JoinOr(bals, ";") + " | opt:" + JoinOr(opt, ",") + " | auto:" + JoinOr(auto, ";") +
		" | rec:" + JoinOr(recs, ";") + " | idx:" + JoinOr(idx, ";") + " | inv:" + inv
}

// CoinsStrDenomOrder renders coins sorted by denom (not by rendered string).
func CoinsStrDenomOrder(cs sdk.Coins) string {
	if len(cs) == 0 {
		return "-"
	}
	c2 := make(sdk.Coins, len(cs))
	copy(c2, cs)
	sort.SliceStable(c2, func(i, j int) bool { return c2[i].Denom < c2[j].Denom })
	parts := make([]string, 0, len(c2))
	for _, c := range c2 {
		parts = append(parts, c.Amount.String()+c.Denom)
	}
	return strings.Join(parts, ",")
}

type quarValidator interface{ ValidateBasic() error }

// exec runs one op line on the real keepers; returns "<result> ;; <dump>".
func (e *quarEnv) exec(line string) string {
	ws := strings.Fields(line)
	if len(ws) == 0 {
		return "bad-op"
	}
	if ws[0] == "simplify" {
		return quarSimplify(ws)
	}
	if ws[0] == "init" {
		e.ctx, _ = e.base.CacheContext()
		e.accts = nil
		for _, w := range ws[1:] {
			kv := strings.SplitN(w, "=", 2)
			a, ok := e.addr(kv[0])
			cs, ok2 := quarParseCoins(kv[1])
			if !ok || !ok2 {
				return "bad-op"
			}
			e.accts = append(e.accts, kv[0])
			if len(cs) > 0 {
				if err := banktestutil.FundAccount(markertypes.WithBypass(e.ctx), e.app.BankKeeper, a, cs); err != nil {
					return "err:setup " + err.Error()
				}
			}
		}
		return "ok ;; " + e.dump()
	}
	res := "ok"
	var f func(ctx sdk.Context) error
	k := e.app.QuarantineKeeper
	switch {
	case (ws[0] == "optin" || ws[0] == "optout") && len(ws) == 2:
		a, ok := e.addr(ws[1])
		if !ok {
			return "bad-op"
		}
		f = func(ctx sdk.Context) error {
			if ws[0] == "optin" {
				msg := quarantine.NewMsgOptIn(a)
				if err := msg.ValidateBasic(); err != nil {
					return err
				}
				_, err := k.OptIn(ctx, msg)
				return err
			}
			msg := quarantine.NewMsgOptOut(a)
			if err := msg.ValidateBasic(); err != nil {
				return err
			}
			_, err := k.OptOut(ctx, msg)
			return err
		}
	case ws[0] == "auto" && len(ws) == 3:
		to, ok := e.addr(ws[1])
		if !ok {
			return "bad-op"
		}
		var ups []*quarantine.AutoResponseUpdate
		if ws[2] != "-" {
			for _, u := range strings.Split(ws[2], "|") {
				p := strings.Split(u, ":")
				fa, ok := e.addr(p[0])
				if !ok || len(p) != 2 {
					return "bad-op"
				}
				r := quarantine.AUTO_RESPONSE_UNSPECIFIED
				switch p[1] {
				case "a":
					r = quarantine.AUTO_RESPONSE_ACCEPT
				case "d":
					r = quarantine.AUTO_RESPONSE_DECLINE
				}
				ups = append(ups, &quarantine.AutoResponseUpdate{FromAddress: fa.String(), Response: r})
			}
		}
		f = func(ctx sdk.Context) error {
			msg := quarantine.NewMsgUpdateAutoResponses(to, ups)
			if err := msg.ValidateBasic(); err != nil {
				return err
			}
			_, err := k.UpdateAutoResponses(ctx, msg)
			return err
		}
	case ws[0] == "send" && len(ws) == 4:
		from, ok1 := e.addr(ws[1])
		to, ok2 := e.addr(ws[2])
		cs, ok3 := quarParseCoins(ws[3])
		if !ok1 || !ok2 || !ok3 {
			return "bad-op"
		}
		f = func(ctx sdk.Context) error {
			_, err := e.bankSrv.Send(ctx, &banktypes.MsgSend{FromAddress: from.String(), ToAddress: to.String(), Amount: cs})
			return err
		}
	case ws[0] == "regenesis" && len(ws) == 1:
		// REAL ExportGenesis, then REAL InitGenesis into the emptied quarantine store (what restarting a
		// chain from exported state does). The exported funds are imported in canonical order.
		f = func(ctx sdk.Context) error {
			gs := k.ExportGenesis(ctx)
			if err := gs.Validate(); err != nil {
				return err
			}
			key := func(qf *quarantine.QuarantinedFunds) string {
				var ns, inOrder []string
				for _, a := range qf.UnacceptedFromAddresses {
					ns = append(ns, e.name(sdk.MustAccAddressFromBech32(a)))
				}
				inOrder = append(inOrder, ns...)
				sort.Strings(ns)
				d := "0"
				if qf.Declined {
					d = "1"
				}
				return e.name(sdk.MustAccAddressFromBech32(qf.ToAddress)) + "<" + JoinOr(ns, "+") + "/" + CoinsStrDenomOrder(qf.Coins) + "/" + d + "/" + JoinOr(inOrder, ",")
			}
			sort.SliceStable(gs.QuarantinedFunds, func(i, j int) bool { return key(gs.QuarantinedFunds[i]) < key(gs.QuarantinedFunds[j]) })
			st := ctx.KVStore(e.app.GetKey(quarantine.StoreKey))
			var dead [][]byte
			it := st.Iterator(nil, nil)
			for ; it.Valid(); it.Next() {
				dead = append(dead, append([]byte{}, it.Key()...))
			}
			it.Close()
			for _, kk := range dead {
				st.Delete(kk)
			}
			k.InitGenesis(ctx, gs)
			return nil
		}
	case ws[0] == "bsend" && len(ws) == 4:
		// bank keeper SendCoins under quarantine.WithBypass: the exchange module's settlement/payment route
		from, ok1 := e.addr(ws[1])
		to, ok2 := e.addr(ws[2])
		cs, ok3 := quarParseCoins(ws[3])
		if !ok1 || !ok2 || !ok3 {
			return "bad-op"
		}
		f = func(ctx sdk.Context) error {
			if !cs.IsValid() || !cs.IsAllPositive() {
				return sdkerrors.ErrInvalidCoins.Wrap("bsend")
			}
			return e.app.BankKeeper.SendCoins(quarantine.WithBypass(ctx), from, to, cs)
		}
	case ws[0] == "msend" && len(ws) == 3:
		from, ok1 := e.addr(ws[1])
		if !ok1 {
			return "bad-op"
		}
		var outs []banktypes.Output
		total := sdk.Coins{}
		if ws[2] != "-" {
			for _, o := range strings.Split(ws[2], "|") {
				p := strings.SplitN(o, ":", 2)
				to, ok := e.addr(p[0])
				if !ok || len(p) != 2 {
					return "bad-op"
				}
				cs, ok := quarParseCoins(p[1])
				if !ok {
					return "bad-op"
				}
				outs = append(outs, banktypes.Output{Address: to.String(), Coins: cs})
				total = quarSafeAdd(total, cs)
			}
		}
		f = func(ctx sdk.Context) error {
			_, err := e.bankSrv.MultiSend(ctx, &banktypes.MsgMultiSend{Inputs: []banktypes.Input{{Address: from.String(), Coins: total}}, Outputs: outs})
			return err
		}
	case ws[0] == "iosend" && len(ws) == 3:
		to, ok1 := e.addr(ws[2])
		if !ok1 {
			return "bad-op"
		}
		var ins []banktypes.Input
		total := sdk.Coins{}
		if ws[1] != "-" {
			for _, o := range strings.Split(ws[1], "|") {
				p := strings.SplitN(o, ":", 2)
				from, ok := e.addr(p[0])
				if !ok || len(p) != 2 {
					return "bad-op"
				}
				cs, ok := quarParseCoins(p[1])
				if !ok {
					return "bad-op"
				}
				ins = append(ins, banktypes.Input{Address: from.String(), Coins: cs})
				total = quarSafeAdd(total, cs)
			}
		}
		f = func(ctx sdk.Context) error {
			return e.app.BankKeeper.InputOutputCoinsProv(ctx, ins, []banktypes.Output{{Address: to.String(), Coins: total}})
		}
	case (ws[0] == "accept" || ws[0] == "decline") && len(ws) == 4:
		to, ok1 := e.addr(ws[1])
		_, froms, ok2 := e.addrList(ws[2])
		if !ok1 || !ok2 {
			return "bad-op"
		}
		perm := ws[3] == "perm=1"
		f = func(ctx sdk.Context) error {
			if ws[0] == "accept" {
				msg := quarantine.NewMsgAccept(to, froms, perm)
				if err := msg.ValidateBasic(); err != nil {
					return err
				}
				resp, err := k.Accept(ctx, msg)
				if err == nil {
					res = "ok " + CoinsStrDenomOrder(resp.FundsReleased)
				}
				return err
			}
			msg := quarantine.NewMsgDecline(to, froms, perm)
			if err := msg.ValidateBasic(); err != nil {
				return err
			}
			_, err := k.Decline(ctx, msg)
			return err
		}
	case ws[0] == "qadd" && len(ws) == 5:
		to, ok1 := e.addr(ws[1])
		froms, _, ok2 := e.addrList(ws[2])
		cs, ok3 := quarParseCoins(ws[3])
		payer, ok4 := e.addr(strings.TrimPrefix(ws[4], "payer="))
		if !ok1 || !ok2 || !ok3 || !ok4 {
			return "bad-op"
		}
		f = func(ctx sdk.Context) error {
			// what the bank checks before any restriction is reached
			if len(froms) == 0 || !cs.IsValid() || !cs.IsAllPositive() {
				return sdkerrors.ErrInvalidCoins.Wrap("qadd")
			}
			if err := e.app.BankKeeper.SendCoins(quarantine.WithBypass(ctx), payer, k.GetFundsHolder(), cs); err != nil {
				return err
			}
			return k.AddQuarantinedCoins(ctx, cs, to, froms...)
		}
	default:
		return "bad-op"
	}
	err, pan := Try(e.ctx, f)
	switch {
	case pan != "":
		res = "panic:" + pan
	case err != nil:
		res = quarErrClass(err)
	}
	return res + " ;; " + e.dump()
}

// quarSafeAdd adds coin lists that may be invalid (Coins.Add panics on unsorted input).
func quarSafeAdd(a, b sdk.Coins) (out sdk.Coins) {
	defer func() {
		if r := recover(); r != nil {
			out = append(append(sdk.Coins{}, a...), b...)
		}
	}()
	return a.Add(b...)
}

// quarSimplify runs the real QuarantineRecordSuffixIndex.Simplify on literal suffix bytes.
func quarSimplify(ws []string) string {
	if len(ws) != 3 {
		return "bad-op"
	}
	split := func(s string) [][]byte {
		if s == "-" || s == "" {
			return nil
		}
		var out [][]byte
		for _, p := range strings.Split(s, ",") {
			out = append(out, []byte(p))
		}
		return out
	}
	rm := split(strings.TrimPrefix(ws[1], "rm="))
	si := quarantine.QuarantineRecordSuffixIndex{}
	si.AddSuffixes(split(strings.TrimPrefix(ws[2], "l="))...)
	return Guard(func() string {
		si.Simplify(rm...)
		var ss []string
		for _, s := range si.RecordSuffixes {
			ss = append(ss, string(s))
		}
		return "ok " + JoinOr(ss, ",")
	})
}

// ---------------------------------------------------------------------------------------
// generator

type quarRecView struct {
	to    string
	unacc []string
	all   []string
}

type quarGen struct {
	r    *RNG
	out  *Out
	recs []quarRecView // records in the implementation's last dump (steers accept/decline/top-ups)
	// focus: a burst of accepts / declines on the senders of ONE record (partial accept, decline of an
	// accepted sender, decline on an already declined record, ... and finally an accept of whatever the
	// implementation still lists as unaccepted), so that "paid only when every sender is currently
	// accepted" is exercised along long accept/decline interleavings
	focusTo   string
	focusAll  []string
	focusLeft int
	// probe: after the receiver said something about a sender (accept, decline, auto-response), that
	// sender sends to it again - is the delivery what the receiver's words so far imply?
	probe string
}

// focusRec returns the focused record as the implementation currently lists it (nil when it is gone).
func (g *quarGen) focusRec() *quarRecView {
	for i := range g.recs {
		rv := &g.recs[i]
		if rv.to != g.focusTo || len(rv.all) != len(g.focusAll) {
			continue
		}
		a := append([]string{}, rv.all...)
		b := append([]string{}, g.focusAll...)
		sort.Strings(a)
		sort.Strings(b)
		if strings.Join(a, ",") == strings.Join(b, ",") {
			return rv
		}
	}
	return nil
}

func (g *quarGen) plainCoins() string {
	return fmt.Sprintf("%d%s", 1+g.r.Intn(9), quarDenoms[g.r.Intn(2)])
}

// steered returns the next op of a running focus burst / probe ("" = none).
func (g *quarGen) steered() string {
	if g.probe != "" {
		line := g.probe
		g.probe = ""
		g.out.Count("gen:probe_send")
		return line
	}
	if g.focusLeft <= 0 {
		return ""
	}
	rv := g.focusRec()
	if rv == nil || len(rv.unacc) == 0 {
		g.focusLeft = 0
		return ""
	}
	g.focusLeft--
	g.out.Count("gen:focus_op")
	if g.focusLeft == 0 {
		// finish: accept everything the implementation still lists as unaccepted
		return fmt.Sprintf("accept %s %s %s", rv.to, JoinOr(rv.unacc, "|"), g.perm())
	}
	var acc []string
	for _, a := range rv.all {
		un := false
		for _, u := range rv.unacc {
			if u == a {
				un = true
			}
		}
		if !un {
			acc = append(acc, a)
		}
	}
	switch k := g.r.Intn(10); {
	case k < 3 && len(rv.unacc) > 1: // partial accept
		return fmt.Sprintf("accept %s %s %s", rv.to, Pick(g.r, rv.unacc), g.perm())
	case k < 5 && len(acc) > 0: // take an acceptance back
		return fmt.Sprintf("decline %s %s %s", rv.to, Pick(g.r, acc), g.perm())
	case k < 7: // decline somebody still unaccepted (marks the record declined)
		return fmt.Sprintf("decline %s %s %s", rv.to, Pick(g.r, rv.unacc), g.perm())
	case k < 8: // decline several at once
		n := 1 + g.r.Intn(len(rv.all))
		return fmt.Sprintf("decline %s %s %s", rv.to, JoinOr(rv.all[:n], "|"), g.perm())
	case k < 9 && len(acc) > 0: // accept somebody already accepted again
		return fmt.Sprintf("accept %s %s %s", rv.to, Pick(g.r, acc), g.perm())
	default:
		return fmt.Sprintf("accept %s %s %s", rv.to, Pick(g.r, rv.all), g.perm())
	}
}

// after looks at the op just executed and may start a focus burst or schedule a probe.
func (g *quarGen) after(line, res string) {
	ws := strings.Fields(line)
	if !strings.HasPrefix(res, "ok") || len(ws) < 3 {
		return
	}
	switch ws[0] {
	case "qadd":
		fs := strings.Split(ws[2], "|")
		if g.focusLeft == 0 && len(fs) >= 2 && g.r.Chance(40) {
			g.focusTo, g.focusAll, g.focusLeft = ws[1], fs, 3+g.r.Intn(5)
			g.out.Count("gen:focus_started")
		}
	case "accept", "decline":
		if ws[2] != "-" && g.r.Chance(35) {
			f := Pick(g.r, strings.Split(ws[2], "|"))
			if f != "E+" {
				g.probe = fmt.Sprintf("send %s %s %s", f, ws[1], g.plainCoins())
			}
		}
	case "auto":
		if ws[2] != "-" && g.r.Chance(35) {
			u := Pick(g.r, strings.Split(ws[2], "|"))
			g.probe = fmt.Sprintf("send %s %s %s", strings.SplitN(u, ":", 2)[0], ws[1], g.plainCoins())
		}
	}
}

// observe parses the record section of a dump.
func (g *quarGen) observe(res string) {
	i := strings.Index(res, "| rec:")
	if i < 0 {
		return
	}
	recs := res[i+6:]
	if j := strings.Index(recs, " | idx:"); j >= 0 {
		recs = recs[:j]
	}
	g.recs = g.recs[:0]
	if recs == "-" {
		return
	}
	for _, rr := range strings.Split(recs, ";") {
		p := strings.Split(rr, "/")
		if len(p) != 5 {
			continue
		}
		key := strings.SplitN(p[0], "<", 2)
		v := quarRecView{to: key[0]}
		if u := strings.TrimPrefix(p[1], "u="); u != "-" {
			v.unacc = strings.Split(u, ",")
		}
		v.all = append(v.all, v.unacc...)
		if a := strings.TrimPrefix(p[2], "a="); a != "-" {
			v.all = append(v.all, strings.Split(a, ",")...)
		}
		g.recs = append(g.recs, v)
	}
}

func (g *quarGen) acct() string { return Pick(g.r, quarNames) }

func (g *quarGen) acctOrHolder() string {
	if g.r.Chance(6) {
		return quarHolder
	}
	return g.acct()
}

func (g *quarGen) subset(min, max int) []string {
	n := min + g.r.Intn(max-min+1)
	perm := append([]string{}, quarNames...)
	for i := len(perm) - 1; i > 0; i-- {
		j := g.r.Intn(i + 1)
		perm[i], perm[j] = perm[j], perm[i]
	}
	if n > len(perm) {
		n = len(perm)
	}
	return perm[:n]
}

// coins: mostly valid (sorted distinct denoms, positive), small amounts so funds usually suffice.
func (g *quarGen) coins() string {
	switch g.r.Intn(40) {
	case 0:
		return "-"
	case 1:
		return "0aaa"
	case 2:
		return "3bbb,2aaa" // unsorted
	case 3:
		return "2aaa,3aaa" // duplicate denom
	}
	var parts []string
	for _, d := range quarDenoms {
		p := 45
		if d == "rcoin" {
			p = 25
		}
		if g.r.Chance(p) {
			amt := 1 + g.r.Intn(9)
			if g.r.Chance(4) {
				amt = 40 + g.r.Intn(200) // often more than the sender has
			}
			parts = append(parts, fmt.Sprintf("%d%s", amt, d))
		}
	}
	if len(parts) == 0 {
		parts = []string{fmt.Sprintf("%d%s", 1+g.r.Intn(9), quarDenoms[g.r.Intn(2)])}
	}
	return strings.Join(parts, ",")
}

func (g *quarGen) initLine() string {
	var ws []string
	for _, n := range quarNames {
		var parts []string
		for _, d := range quarDenoms {
			if g.r.Chance(92) {
				parts = append(parts, fmt.Sprintf("%d%s", 20+g.r.Intn(200), d))
			}
		}
		c := "-"
		if len(parts) > 0 {
			c = strings.Join(parts, ",")
		}
		ws = append(ws, n+"="+c)
	}
	h := "-"
	if g.r.Chance(25) {
		h = fmt.Sprintf("%daaa", 1+g.r.Intn(30)) // the holder may own funds of its own
	}
	ws = append(ws, quarHolder+"="+h)
	return "init " + strings.Join(ws, " ")
}

func (g *quarGen) perm() string {
	if g.r.Chance(30) {
		return "perm=1"
	}
	return "perm=0"
}

// hot: the receivers of this history that opted in (so that sends hit quarantine often)
func (g *quarGen) op(hot []string) string {
	if line := g.steered(); line != "" {
		return line
	}
	to := g.acct()
	if len(hot) > 0 && g.r.Chance(75) {
		to = Pick(g.r, hot)
	}
	switch k := g.r.Intn(100); {
	case k < 6:
		return "optin " + g.acct()
	case k < 9:
		return "optout " + g.acct()
	case k < 17:
		n := g.r.Intn(4)
		if g.r.Chance(90) && n == 0 {
			n = 1
		}
		var ups []string
		for _, f := range g.subset(n, n) {
			ups = append(ups, f+":"+Pick(g.r, []string{"a", "d", "u", "a"}))
		}
		return "auto " + to + " " + JoinOr(ups, "|")
	case k < 38:
		t := to
		if g.r.Chance(5) {
			t = quarHolder
		}
		return fmt.Sprintf("send %s %s %s", g.acct(), t, g.coins())
	case k < 42:
		return fmt.Sprintf("bsend %s %s %s", g.acct(), to, g.coins())
	case k < 52:
		n := 1 + g.r.Intn(3)
		var outs []string
		for i := 0; i < n; i++ {
			t := g.acctOrHolder()
			if len(hot) > 0 && g.r.Chance(60) {
				t = Pick(g.r, hot)
			}
			outs = append(outs, t+":"+g.coins())
		}
		if g.r.Chance(3) {
			outs = nil
		}
		return fmt.Sprintf("msend %s %s", g.acct(), JoinOr(outs, "|"))
	case k < 60:
		n := 1 + g.r.Intn(3)
		var ins []string
		for i := 0; i < n; i++ {
			ins = append(ins, g.acct()+":"+g.coins())
		}
		if g.r.Chance(3) {
			ins = nil
		}
		t := to
		if g.r.Chance(5) {
			t = quarHolder
		}
		return fmt.Sprintf("iosend %s %s", JoinOr(ins, "|"), t)
	case k < 72:
		n := 2 + g.r.Intn(2)
		if g.r.Chance(15) {
			n = 1
		}
		fs := g.subset(n, n)
		if g.r.Chance(3) {
			fs = nil
		}
		if len(g.recs) > 0 && g.r.Chance(30) {
			// top up an existing record (its senders in another order)
			rv := Pick(g.r, g.recs)
			to = rv.to
			fs = append([]string{}, rv.all...)
			for i := len(fs) - 1; i > 0; i-- {
				j := g.r.Intn(i + 1)
				fs[i], fs[j] = fs[j], fs[i]
			}
		}
		payer := g.acct()
		if len(fs) > 0 && g.r.Chance(80) {
			payer = fs[0]
		}
		return fmt.Sprintf("qadd %s %s %s payer=%s", to, JoinOr(fs, "|"), g.coins(), payer)
	case k < 90:
		n := 1 + g.r.Intn(3)
		fs := g.subset(n, n)
		if g.r.Chance(3) {
			fs = nil
		}
		if len(g.recs) > 0 && g.r.Chance(70) {
			rv := Pick(g.r, g.recs)
			to = rv.to
			switch g.r.Intn(4) {
			case 0, 1: // every unaccepted sender: completes the record
				fs = append([]string{}, rv.unacc...)
			case 2: // only one of them
				fs = []string{Pick(g.r, rv.unacc)}
			default: // all of them and a stranger
				fs = append(append([]string{}, rv.unacc...), g.acct())
			}
		}
		if g.r.Chance(5) && len(fs) > 0 {
			fs = append(fs, fs[0]) // a sender named twice
		}
		for _, f := range fs {
			if f == "E" && g.r.Chance(50) {
				fs = append(fs, "E+") // a longer address sharing E's 32-byte record suffix
				break
			}
		}
		return fmt.Sprintf("accept %s %s %s", to, JoinOr(fs, "|"), g.perm())
	default:
		n := 1 + g.r.Intn(2)
		fs := g.subset(n, n)
		if g.r.Chance(3) {
			fs = nil
		}
		if len(g.recs) > 0 && g.r.Chance(60) {
			rv := Pick(g.r, g.recs)
			to = rv.to
			fs = []string{Pick(g.r, rv.all)} // possibly an already accepted sender: moves back to unaccepted
		}
		return fmt.Sprintf("decline %s %s %s", to, JoinOr(fs, "|"), g.perm())
	}
}

func quarSimplifyLine(r *RNG) string {
	alpha := []string{"A", "B", "C", "D", "A+B", "B+C", "AB", "a", "B+C+D"}
	pick := func(n int) string {
		var xs []string
		for i := 0; i < n; i++ {
			xs = append(xs, Pick(r, alpha))
		}
		return JoinOr(xs, ",")
	}
	return fmt.Sprintf("simplify rm=%s l=%s", pick(r.Intn(3)), pick(r.Intn(7)))
}

func quarCountRes(out *Out, op, res string) {
	kind := strings.Fields(op)[0]
	r := strings.SplitN(res, " ;; ", 2)[0]
	cls := strings.Fields(r)[0]
	if strings.HasPrefix(op, "send H ") {
		kind = "send_by_holder"
	}
	out.Count("op:" + kind)
	out.Count("res:" + kind + ":" + cls)
	if strings.HasSuffix(res, "inv:broken") {
		out.Count("state:chain_invariant_broken")
	}
	if kind == "accept" && cls == "ok" {
		if r == "ok -" {
			out.Count("accept:released_nothing")
		} else {
			out.Count("accept:released_funds")
		}
	}
	if i := strings.Index(res, "| rec:"); i >= 0 && kind != "simplify" {
		recs := res[i+6:]
		recs = recs[:strings.Index(recs, " | idx:")]
		n, multi := 0, 0
		if recs != "-" {
			for _, rr := range strings.Split(recs, ";") {
				n++
				if strings.Contains(strings.SplitN(rr, "/", 2)[0], "+") {
					multi++
				}
			}
		}
		switch {
		case n == 0:
			out.Count("state:records=0")
		case n <= 2:
			out.Count("state:records=1-2")
		default:
			out.Count("state:records>=3")
		}
		if multi > 0 {
			out.Count("state:has_multi_sender_record")
		}
		if strings.Contains(recs, "/a=A") || strings.Contains(recs, "/a=B") || strings.Contains(recs, "/a=C") || strings.Contains(recs, "/a=D") || strings.Contains(recs, "/a=E") {
			out.Count("state:has_partially_accepted_record")
		}
		if strings.Contains(recs, "/d=1") {
			out.Count("state:has_declined_record")
		}
	}
}

// quarDrive: n histories of 12..40 ops on a fresh cached context each.
func quarDrive(t *testing.T, rng *RNG, n int, out *Out) {
	e := quarGetEnv(t)
	g := &quarGen{r: rng, out: out}
	for h := 0; h < n; h++ {
		out.Comment(fmt.Sprintf("history %d", h))
		line := g.initLine()
		g.recs = nil
		g.focusLeft, g.probe = 0, ""
		out.Emit(line, e.exec(line))
		steps := 12 + rng.Intn(29)
		if *flagTier == "thorough" {
			steps = 20 + rng.Intn(61)
		}
		// the receivers that opt in early
		hot := g.subset(1, 2)
		for _, a := range hot {
			line = "optin " + a
			res := e.exec(line)
			out.Emit(line, res)
			quarCountRes(out, line, res)
		}
		drainAt := -1
		if rng.Chance(6) {
			drainAt = steps/2 + rng.Intn(steps/2)
		}
		regenAt := -1
		if rng.Chance(12) {
			regenAt = steps/3 + rng.Intn(steps-steps/3)
		}
		for i := 0; i < steps; i++ {
			if rng.Chance(2) {
				line = quarSimplifyLine(rng)
				out.Emit(line, e.exec(line))
				out.Count("op:simplify")
				continue
			}
			line = g.op(hot)
			if regenAt == i {
				line = "regenesis"
			}
			if drainAt == i {
				// the holder's key does not exist on a chain; this op only exercises the chain's own
				// FundsHolderBalanceInvariant on a state where the holder no longer covers the records
				line = fmt.Sprintf("send %s %s %s", quarHolder, g.acct(), g.coins())
			}
			res := e.exec(line)
			out.Emit(line, res)
			quarCountRes(out, line, res)
			g.observe(res)
			g.after(line, res)
		}
	}
}

func quarReplay(t *testing.T, ops []string, out *Out) {
	e := quarGetEnv(t)
	started := false
	for _, line := range ops {
		if strings.HasPrefix(line, "#") {
			out.Comment(strings.TrimSpace(strings.TrimPrefix(line, "#")))
			continue
		}
		if strings.HasPrefix(line, "init ") {
			started = true
		}
		if !started && !strings.HasPrefix(line, "simplify") {
			// a replay without init: start from empty balances
			l0 := "init A=- B=- C=- D=- E=- H=-"
			out.Emit(l0, e.exec(l0))
			started = true
		}
		out.Emit(line, e.exec(line))
	}
}
