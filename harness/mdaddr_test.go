package harness

import (
	"bytes"
	"encoding/hex"
	"strings"
	"testing"

	btcbech32 "github.com/cosmos/btcutil/bech32"
	sdkbech32 "github.com/cosmos/cosmos-sdk/types/bech32"
	"github.com/google/uuid"

	mdtypes "github.com/provenance-io/provenance/x/metadata/types"
)

// Model "mdaddr" (C14): the MetadataAddress codec and the metadata index key makers, pure.
// Every op is executed on the real functions of x/metadata/types (address.go, keys.go).

func init() {
	drivers["mdaddr"] = driveMdAddr
	replayers["mdaddr"] = replayMdAddr
}

func mdaHex(b []byte) string {
	if len(b) == 0 {
		return "-"
	}
	return hex.EncodeToString(b)
}

func mdaUnhex(s string) []byte {
	if s == "-" {
		return []byte{}
	}
	b, err := hex.DecodeString(s)
	if err != nil {
		panic("bad hex " + s)
	}
	// exact capacity: address.go slices ma[1:17] by capacity, not length
	out := make([]byte, len(b))
	copy(out, b)
	return out
}

func mdaUUID(b []byte) uuid.UUID {
	var u uuid.UUID
	copy(u[:], b)
	return u
}

// mdaE renders (bytes, error) results: hex, "!" for an error, "!!" for a panic.
func mdaE(f func() ([]byte, error)) (res string) {
	defer func() {
		if r := recover(); r != nil {
			res = "!!"
		}
	}()
	b, err := f()
	if err != nil {
		return "!"
	}
	return mdaHex(b)
}

func mdaBool(b bool) string {
	if b {
		return "1"
	}
	return "0"
}

func mdaDescribe(bz []byte) string {
	ma := mdtypes.MetadataAddress(bz)
	hrp, err := mdtypes.VerifyMetadataAddressFormat(bz)
	v := "ok"
	if err != nil {
		switch {
		case strings.Contains(err.Error(), "address is empty"):
			v = "empty"
		case strings.Contains(err.Error(), "invalid metadata address type"):
			v = "type"
		case strings.Contains(err.Error(), "incorrect address length"):
			v = "len"
		default:
			v = "other"
		}
	}
	if hrp == "" {
		hrp = "-"
	}
	u16 := func(f func() (uuid.UUID, error)) func() ([]byte, error) {
		return func() ([]byte, error) {
			u, e := f()
			if e != nil {
				return nil, e
			}
			return u[:], nil
		}
	}
	ad := func(f func() (mdtypes.MetadataAddress, error)) func() ([]byte, error) {
		return func() ([]byte, error) {
			a, e := f()
			return a, e
		}
	}
	is := mdaBool(ma.IsScopeAddress()) + mdaBool(ma.IsSessionAddress()) + mdaBool(ma.IsRecordAddress()) +
		mdaBool(ma.IsContractSpecificationAddress()) + mdaBool(ma.IsScopeSpecificationAddress()) +
		mdaBool(ma.IsRecordSpecificationAddress())
	var um mdtypes.MetadataAddress
	umOK := um.Unmarshal(bz) == nil
	d := ma.GetDetails()
	det := strings.Join([]string{mdaHex(d.AddressPrefix), mdaHex(d.AddressPrimaryUUID), mdaHex(d.AddressSecondaryUUID),
		mdaHex(d.AddressNameHash), mdaHex(d.AddressExcess), mdaHex(d.ParentAddress)}, "/")
	b32 := "-"
	if err == nil {
		// bech32 text: String() is printed (the model computes the same text) and read back
		s := ma.String()
		back, hrp2, e2 := mdtypes.ParseMetadataAddressFromBech32(s)
		back2, e3 := mdtypes.MetadataAddressFromBech32(s)
		if e2 == nil && e3 == nil && bytes.Equal(back, bz) && bytes.Equal(back2, bz) && hrp2 == hrp && strings.HasPrefix(s, hrp+"1") {
			b32 = s
		} else {
			b32 = "!" + s
		}
	}
	// a session address put together again from its own parts (parent scope address + session uuid)
	rb := "-"
	if err == nil && ma.IsSessionAddress() {
		rb = mdaE(func() ([]byte, error) {
			sc, e1 := ma.AsScopeAddress()
			if e1 != nil {
				return nil, e1
			}
			su, e2 := ma.SessionUUID()
			if e2 != nil {
				return nil, e2
			}
			return sc.AsSessionAddress(su)
		})
	}
	var sb strings.Builder
	sb.WriteString("a=" + mdaHex(bz) + " v=" + v + " hrp=" + hrp)
	sb.WriteString(" pu=" + mdaE(u16(ma.PrimaryUUID)))
	sb.WriteString(" su=" + mdaE(u16(ma.SecondaryUUID)))
	sb.WriteString(" nh=" + mdaE(ma.NameHash))
	sb.WriteString(" scu=" + mdaE(u16(ma.ScopeUUID)))
	sb.WriteString(" seu=" + mdaE(u16(ma.SessionUUID)))
	sb.WriteString(" ssu=" + mdaE(u16(ma.ScopeSpecUUID)))
	sb.WriteString(" csu=" + mdaE(u16(ma.ContractSpecUUID)))
	sb.WriteString(" asc=" + mdaE(ad(ma.AsScopeAddress)))
	sb.WriteString(" acs=" + mdaE(ad(ma.AsContractSpecAddress)))
	sb.WriteString(" sit=" + mdaE(ma.ScopeSessionIteratorPrefix))
	sb.WriteString(" rit=" + mdaE(ma.ScopeRecordIteratorPrefix))
	sb.WriteString(" rsit=" + mdaE(ma.ContractSpecRecordSpecIteratorPrefix))
	sb.WriteString(" is=" + is + " um=" + mdaBool(umOK) + " det=" + det + " b32=" + b32 + " rb=" + rb)
	return sb.String()
}

func mdaIndex(ix string, first, second []byte) (prefix, key []byte) {
	switch ix {
	case "as":
		return mdtypes.GetAddressScopeCacheIteratorPrefix(first), mdtypes.GetAddressScopeCacheKey(first, second)
	case "ss":
		return mdtypes.GetScopeSpecScopeCacheIteratorPrefix(first), mdtypes.GetScopeSpecScopeCacheKey(first, second)
	case "ap":
		return mdtypes.GetAddressScopeSpecCacheIteratorPrefix(first), mdtypes.GetAddressScopeSpecCacheKey(first, second)
	case "cp":
		return mdtypes.GetContractSpecScopeSpecCacheIteratorPrefix(first), mdtypes.GetContractSpecScopeSpecCacheKey(first, second)
	case "ac":
		return mdtypes.GetAddressContractSpecCacheIteratorPrefix(first), mdtypes.GetAddressContractSpecCacheKey(first, second)
	case "nav":
		return mdtypes.NetAssetValueKeyPrefix(first), mdtypes.NetAssetValueKey(first, string(second))
	}
	panic("bad index " + ix)
}

func mdaExec(op string) (res string) {
	defer func() {
		if r := recover(); r != nil {
			res = "panic"
		}
	}()
	ws := strings.Fields(op)
	switch ws[0] {
	case "new":
		u := mdaUUID(mdaUnhex(ws[2]))
		arg := mdaUnhex(ws[3])
		var a mdtypes.MetadataAddress
		switch ws[1] {
		case "scope":
			a = mdtypes.ScopeMetadataAddress(u)
		case "session":
			a = mdtypes.SessionMetadataAddress(u, mdaUUID(arg))
		case "record":
			a = mdtypes.RecordMetadataAddress(u, string(arg))
		case "cspec":
			a = mdtypes.ContractSpecMetadataAddress(u)
		case "sspec":
			a = mdtypes.ScopeSpecMetadataAddress(u)
		case "rspec":
			a = mdtypes.RecordSpecMetadataAddress(u, string(arg))
		}
		return "ok " + mdaDescribe(a)
	case "parse":
		return mdaDescribe(mdaUnhex(ws[1]))
	case "derive":
		ma := mdtypes.MetadataAddress(mdaUnhex(ws[1]))
		arg := mdaUnhex(ws[3])
		var a mdtypes.MetadataAddress
		var err error
		switch ws[2] {
		case "session":
			a, err = ma.AsSessionAddress(mdaUUID(arg))
		case "record":
			a, err = ma.AsRecordAddress(string(arg))
		case "rspec":
			a, err = ma.AsRecordSpecAddress(string(arg))
		case "scope":
			a, err = ma.AsScopeAddress()
		case "cspec":
			a, err = ma.AsContractSpecAddress()
		default:
			return "err"
		}
		if err != nil {
			return "err"
		}
		return "ok " + mdaHex(a)
	case "unb32":
		// ParseMetadataAddressFromBech32 / MetadataAddressFromBech32 on an arbitrary text
		txt := string(mdaUnhex(ws[1]))
		a, hrp, err := mdtypes.ParseMetadataAddressFromBech32(txt)
		a2, err2 := mdtypes.MetadataAddressFromBech32(txt)
		if (err == nil) != (err2 == nil) || !bytes.Equal(a, a2) {
			return "mismatch"
		}
		if err != nil {
			return "err"
		}
		return "ok " + mdaHex(a) + " " + hrp
	case "key":
		p, k := mdaIndex(ws[1], mdaUnhex(ws[2]), mdaUnhex(ws[3]))
		return "p=" + mdaHex(p) + " k=" + mdaHex(k) + " d=" + mdaHex(k[len(p):])
	case "pfx":
		p, _ := mdaIndex(ws[1], mdaUnhex(ws[2]), nil)
		_, k := mdaIndex(ws[1], mdaUnhex(ws[3]), mdaUnhex(ws[4]))
		return mdaBool(bytes.HasPrefix(k, p))
	}
	return "bad-op"
}

// ---- generator ----

func mdaRandBytes(r *RNG, n int) []byte {
	b := make([]byte, n)
	for i := range b {
		b[i] = byte(r.U64())
	}
	return b
}

func mdaGenUUID(r *RNG) []byte {
	switch r.Intn(10) {
	case 0:
		return make([]byte, 16)
	case 1:
		return bytes.Repeat([]byte{0xff}, 16)
	case 2:
		// a small pool so that equal uuids recur
		b := make([]byte, 16)
		b[15] = byte(1 + r.Intn(3))
		return b
	case 3:
		// uuid bytes that look like type bytes
		return bytes.Repeat([]byte{byte(r.Intn(6))}, 16)
	default:
		return mdaRandBytes(r, 16)
	}
}

var mdaWords = []string{"recordname", "Name", "NAME", "n", "a b", "income-stmt", "x_y.z", "Asset", "asset", "0", "名前"}

func mdaGenName(r *RNG) []byte {
	w := Pick(r, mdaWords)
	switch r.Intn(12) {
	case 0:
		return []byte{}
	case 1:
		return []byte(Pick(r, []string{" ", "\t", "  \n ", "\r\n"}))
	case 2:
		return []byte(" " + w)
	case 3:
		return []byte(w + " \t")
	case 4:
		return []byte("\n" + strings.ToUpper(w) + "  ")
	case 5:
		return []byte(strings.ToUpper(w))
	case 6:
		// random printable ascii
		n := 1 + r.Intn(40)
		b := make([]byte, n)
		for i := range b {
			b[i] = byte(33 + r.Intn(94))
		}
		return b
	case 7:
		return []byte(strings.Repeat(w, 1+r.Intn(20)))
	default:
		return []byte(w)
	}
}

var mdaKinds = []string{"scope", "session", "record", "cspec", "sspec", "rspec"}
var mdaKindByte = map[string]byte{"scope": 0, "session": 1, "record": 2, "cspec": 3, "sspec": 4, "rspec": 5}

func mdaGenValid(r *RNG) []byte {
	k := Pick(r, mdaKinds)
	b := append([]byte{mdaKindByte[k]}, mdaGenUUID(r)...)
	if k == "session" || k == "record" || k == "rspec" {
		b = append(b, mdaRandBytes(r, 16)...)
	}
	return b
}

// mdaGenBytes: valid addresses, near-valid mutations and arbitrary byte strings.
func mdaGenBytes(r *RNG, out *Out) []byte {
	switch r.Intn(12) {
	case 0, 1, 2, 3:
		out.Count("bytes:valid")
		return mdaGenValid(r)
	case 4:
		out.Count("bytes:truncated")
		b := mdaGenValid(r)
		return b[:r.Intn(len(b))]
	case 5:
		out.Count("bytes:extended")
		return append(mdaGenValid(r), mdaRandBytes(r, 1+r.Intn(20))...)
	case 6:
		out.Count("bytes:wrongtype")
		b := mdaGenValid(r)
		b[0] = Pick(r, []byte{0, 1, 2, 3, 4, 5, 6, 7, 0x11, 0x17, 0x21, 0x80, 0xff})
		return b
	case 7:
		out.Count("bytes:boundarylen")
		n := Pick(r, []int{1, 2, 16, 17, 18, 32, 33, 34})
		b := mdaRandBytes(r, n)
		b[0] = byte(r.Intn(7))
		return b
	case 8:
		out.Count("bytes:empty")
		return []byte{}
	default:
		out.Count("bytes:random")
		b := mdaRandBytes(r, r.Intn(41))
		if len(b) > 0 && r.Chance(70) {
			b[0] = byte(r.Intn(6))
		}
		return b
	}
}

func mdaGenAcc(r *RNG) []byte {
	switch r.Intn(10) {
	case 0:
		return []byte{}
	case 1:
		return mdaRandBytes(r, 1)
	case 2:
		return mdaRandBytes(r, 32)
	case 3:
		return mdaRandBytes(r, Pick(r, []int{254, 255, 256, 300}))
	case 4:
		return bytes.Repeat([]byte{20}, 20)
	default:
		return mdaRandBytes(r, 20)
	}
}

var mdaHrps = []string{"scope", "session", "record", "contractspec", "scopespec", "recspec", "pb", "x", "Scope"}

const mdaCharset = "qpzry9x8gf2tvdw0s3jn54khce6mua7l"

// mdaGenText: bech32 texts of valid addresses and near misses (case, one character, hrp, payload
// shape, padding bits, separator, length), plus arbitrary short texts.
func mdaGenText(r *RNG, out *Out) string {
	valid := mdtypes.MetadataAddress(mdaGenValid(r))
	txt := valid.String()
	mut := func(s string) string {
		if len(s) == 0 {
			return s
		}
		b := []byte(s)
		i := r.Intn(len(b))
		if r.Chance(70) {
			b[i] = mdaCharset[r.Intn(32)]
		} else {
			b[i] = byte(r.Intn(128))
		}
		return string(b)
	}
	switch r.Intn(16) {
	case 0, 1, 2:
		out.Count("text:valid")
		return txt
	case 3:
		out.Count("text:upper")
		return strings.ToUpper(txt)
	case 4:
		out.Count("text:mixedcase")
		b := []byte(txt)
		for k := 0; k < 1+r.Intn(3); k++ {
			i := r.Intn(len(b))
			b[i] = byte(strings.ToUpper(string(b[i]))[0])
		}
		return string(b)
	case 5, 6:
		out.Count("text:mutated")
		if r.Chance(30) {
			return strings.ToUpper(mut(txt))
		}
		return mut(txt)
	case 7:
		out.Count("text:otherhrp")
		s, err := sdkbech32.ConvertAndEncode(Pick(r, mdaHrps), valid)
		if err != nil {
			return txt
		}
		return s
	case 8:
		out.Count("text:otherbytes")
		bz := mdaGenBytes(r, out)
		s, err := sdkbech32.ConvertAndEncode(Pick(r, mdaHrps[:6]), bz)
		if err != nil {
			return txt
		}
		return s
	case 9:
		// valid checksum over 5-bit data that is not a padded byte string: an extra group,
		// non-zero padding bits, or arbitrary groups
		out.Count("text:badpadding")
		hrp, _ := mdtypes.VerifyMetadataAddressFormat(valid)
		d5, _ := btcbech32.ConvertBits(valid, 8, 5, true)
		switch r.Intn(3) {
		case 0:
			d5 = append(d5, byte(r.Intn(32)))
		case 1:
			d5[len(d5)-1] |= byte(1 + r.Intn(15))
		default:
			d5 = d5[:r.Intn(len(d5))]
		}
		s, err := btcbech32.Encode(hrp, d5)
		if err != nil {
			return txt
		}
		return s
	case 10:
		out.Count("text:truncated")
		return txt[:r.Intn(len(txt))]
	case 11:
		out.Count("text:separator")
		return Pick(r, []string{"1" + txt, strings.Replace(txt, "1", "", 1), strings.Replace(txt, "1", "11", 1),
			txt[strings.IndexByte(txt, '1'):], "scope1", "1qqqqqq", "a1qqqqqq", "a1qqqqq"})
	case 12:
		out.Count("text:space")
		return Pick(r, []string{"", " ", "  \t ", " " + txt, txt + " ", txt + "\n"})
	case 13:
		out.Count("text:nonascii")
		return Pick(r, []string{"sc\u00f6pe" + txt[5:], txt + "\u540d", "\u540d\u524d", strings.Replace(txt, "q", "\u00e9", 1)})
	case 14:
		out.Count("text:long")
		bz := append([]byte{}, valid...)
		bz = append(bz, mdaRandBytes(r, Pick(r, []int{600, 620, 640, 700}))...)
		s, err := sdkbech32.ConvertAndEncode("scope", bz)
		if err != nil {
			return txt
		}
		return s
	default:
		out.Count("text:random")
		n := r.Intn(30)
		b := make([]byte, n)
		for i := range b {
			b[i] = byte(33 + r.Intn(94))
		}
		return string(b)
	}
}

func mdaGenOp(r *RNG, out *Out) string {
	switch x := r.Intn(115); {
	case x >= 100:
		out.Count("op:unb32")
		return "unb32 " + mdaHex([]byte(mdaGenText(r, out)))
	case x < 30:
		k := Pick(r, mdaKinds)
		arg := "-"
		switch k {
		case "session":
			arg = mdaHex(mdaGenUUID(r))
		case "record", "rspec":
			arg = mdaHex(mdaGenName(r))
		}
		out.Count("op:new:" + k)
		return "new " + k + " " + mdaHex(mdaGenUUID(r)) + " " + arg
	case x < 65:
		out.Count("op:parse")
		return "parse " + mdaHex(mdaGenBytes(r, out))
	case x < 80:
		k := Pick(r, []string{"session", "record", "rspec", "scope", "cspec"})
		arg := "-"
		switch k {
		case "session":
			arg = mdaHex(mdaGenUUID(r))
		case "record", "rspec":
			arg = mdaHex(mdaGenName(r))
		}
		out.Count("op:derive:" + k)
		if r.Chance(50) {
			// a valid parent of a type the derivation is documented for (parts -> address must succeed)
			kinds := []string{"scope", "session", "record"}
			if k == "rspec" || k == "cspec" {
				kinds = []string{"cspec", "rspec"}
			}
			pk := Pick(r, kinds)
			b := append([]byte{mdaKindByte[pk]}, mdaGenUUID(r)...)
			if pk != "scope" && pk != "cspec" {
				b = append(b, mdaGenUUID(r)...)
			}
			out.Count("derive:valid-parent:" + pk)
			return "derive " + mdaHex(b) + " " + k + " " + arg
		}
		return "derive " + mdaHex(mdaGenBytes(r, out)) + " " + k + " " + arg
	case x < 90:
		ix := Pick(r, []string{"as", "ss", "ap", "cp", "ac", "nav"})
		var first []byte
		switch ix {
		case "ss", "cp":
			first = mdaGenValid(r)
		case "nav":
			first = mdaGenValid(r)
			if r.Chance(10) {
				first = mdaGenAcc(r)
			}
		default:
			first = mdaGenAcc(r)
		}
		second := mdaGenValid(r)
		if ix == "nav" {
			second = []byte(Pick(r, []string{"usd", "nhash", "x"}))
		}
		out.Count("op:key:" + ix)
		return "key " + ix + " " + mdaHex(first) + " " + mdaHex(second)
	default:
		ix := Pick(r, []string{"as", "ap", "ac", "nav", "ss", "cp"})
		a := mdaGenAcc(r)
		if ix == "ss" || ix == "cp" {
			a = mdaGenValid(r)
			if len(a) > 17 {
				a = a[:17]
			}
		}
		var a2 []byte
		switch r.Intn(6) {
		case 0, 1:
			a2 = a
		case 2:
			a2 = append(append([]byte{}, a...), mdaRandBytes(r, 1+r.Intn(12))...)
		case 3:
			a2 = a[:r.Intn(len(a)+1)]
		case 4:
			a2 = append([]byte{}, a...)
			if len(a2) > 0 {
				a2[r.Intn(len(a2))] ^= 1 << uint(r.Intn(8))
			}
		default:
			a2 = mdaGenAcc(r)
		}
		if ix == "ss" || ix == "cp" {
			// fixed-width first components only (spec ids are always 17 bytes in the store)
			if len(a2) != len(a) {
				a2 = mdaGenValid(r)[:17]
			}
		}
		out.Count("op:pfx:" + ix)
		return "pfx " + ix + " " + mdaHex(a) + " " + mdaHex(a2) + " " + mdaHex(mdaGenValid(r))
	}
}

func driveMdAddr(t *testing.T, rng *RNG, n int, out *Out) {
	for i := 0; i < n; i++ {
		op := mdaGenOp(rng, out)
		res := mdaExec(op)
		out.Count("res:" + strings.SplitN(strings.SplitN(res, " ", 2)[0], "=", 2)[0])
		out.Emit(op, res)
	}
}

func replayMdAddr(t *testing.T, ops []string, out *Out) {
	for _, op := range ops {
		if strings.HasPrefix(op, "#") {
			out.Comment(strings.TrimPrefix(op, "# "))
			continue
		}
		out.Emit(op, mdaExec(op))
	}
}
