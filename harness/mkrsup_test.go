package harness

// Model "mkrsup" (C05): marker supply & lifecycle. Drives the REAL marker MsgServer, bank MsgServer,
// gov keeper (deposit + burn) and marker BeginBlocker and prints, after every op, the result class
// and the whole observable state (params, marker records, bank supply, balances) in the format of
// `dump` in lean/PvModel/MkrSupDriver.lean.

import (
	"context"
	"fmt"
	"os"
	"sort"
	"strconv"
	"strings"
	"sync"
	"testing"

	sdkmath "cosmossdk.io/math"

	sdk "github.com/cosmos/cosmos-sdk/types"
	authtypes "github.com/cosmos/cosmos-sdk/x/auth/types"
	bankkeeper "github.com/cosmos/cosmos-sdk/x/bank/keeper"
	banktypes "github.com/cosmos/cosmos-sdk/x/bank/types"

	"github.com/provenance-io/provenance/app"
	"github.com/provenance-io/provenance/x/marker"
	markerkeeper "github.com/provenance-io/provenance/x/marker/keeper"
	markertypes "github.com/provenance-io/provenance/x/marker/types"
)

func init() {
	drivers["mkrsup"] = driveMkrsup
	replayers["mkrsup"] = replayMkrsup
}

var (
	mkrsupUsers  = []string{"A", "B", "C", "D", "E"}
	mkrsupAccts  = []string{"A", "B", "C", "D", "E", "GOV", "@mka", "@mkb"}
	mkrsupDenoms = []string{"mka", "mkb", "oth"}
	mkrsupMks    = []string{"mka", "mkb"}
	mkrsupPerms  = []string{"mint", "burn", "deposit", "withdraw", "delete", "admin", "transfer", "force"}
	mkrsupStatus = []string{"undefined", "proposed", "finalized", "active", "cancelled", "destroyed"}
)

// mkrsupMk is one marker record as observed on the chain (addresses symbolic).
type mkrsupMk struct {
	st                    int // MarkerStatus value
	sup                   sdkmath.Int
	fixed, restr, gov, ft bool
	mgr                   string              // "-" when unset
	acc                   map[string][]string // grantee -> permission names
	accStr                string
}

func (m *mkrsupMk) has(who, perm string) bool { return m != nil && contains(m.acc[who], perm) }

// mkrsupView is the observable state: what the dump prints and what the generator steers by.
type mkrsupView struct {
	max   sdkmath.Int
	mts   uint64 // the deprecated Params.MaxTotalSupply as stored
	eg    bool
	mk    map[string]*mkrsupMk
	plain map[string]bool // a non-marker account exists at MarkerAddress(denom) (dump section `A`)
	sup   map[string]sdkmath.Int
	bal   map[string]map[string]sdkmath.Int // account -> denom -> amount
}

func (v *mkrsupView) b(acct, denom string) sdkmath.Int { return v.bal[acct][denom] }

type mkrsupEnv struct {
	t    *testing.T
	app  *app.App
	base sdk.Context
	ctx  sdk.Context
	addr map[string]sdk.AccAddress
	name map[string]string // bech32 -> symbolic
	srv  markertypes.MsgServer
	bank banktypes.MsgServer
	pool []sdk.AccAddress // module accounts summed into `%`
	last *mkrsupView
}

var (
	mkrsupOnce sync.Once
	mkrsupE    *mkrsupEnv
)

func mkrsupSetup(t *testing.T) *mkrsupEnv {
	mkrsupOnce.Do(func() {
		a, ctx := NewApp(t)
		e := &mkrsupEnv{app: a, addr: map[string]sdk.AccAddress{}, name: map[string]string{}}
		for _, n := range mkrsupUsers {
			ad := sdk.AccAddress([]byte("verif_mkrsup_acct__" + n))
			acc := a.AccountKeeper.NewAccountWithAddress(ctx, ad)
			_ = acc.SetSequence(7)
			a.AccountKeeper.SetAccount(ctx, acc)
			e.addr[n] = ad
		}
		e.addr["GOV"] = sdk.MustAccAddressFromBech32(a.MarkerKeeper.GetAuthority())
		for _, d := range mkrsupMks {
			e.addr["@"+d] = markertypes.MustGetMarkerAddress(d)
		}
		for n, ad := range e.addr {
			e.name[ad.String()] = n
		}
		e.pool = []sdk.AccAddress{authtypes.NewModuleAddress(markertypes.ModuleName), authtypes.NewModuleAddress("mint")}
		// gov: deposits of the test denoms are accepted, never reach the voting threshold, no minimum ratio
		gp, err := a.GovKeeper.Params.Get(ctx)
		if err != nil {
			t.Fatalf("gov params: %v", err)
		}
		md := sdk.NewCoins(gp.MinDeposit...)
		for _, d := range mkrsupDenoms {
			md = md.Add(sdk.NewCoin(d, sdkmath.NewIntWithDecimal(1, 60)))
		}
		gp.MinDeposit, gp.MinDepositRatio, gp.MinInitialDepositRatio = md, "0", "0"
		if err := a.GovKeeper.Params.Set(ctx, gp); err != nil {
			t.Fatalf("gov params: %v", err)
		}
		e.base = ctx
		e.srv = markerkeeper.NewMsgServerImpl(a.MarkerKeeper)
		e.bank = bankkeeper.NewMsgServerImpl(a.BankKeeper)
		mkrsupE = e
	})
	mkrsupE.t = t
	return mkrsupE
}

func (e *mkrsupEnv) newHistory() {
	e.ctx, _ = e.base.CacheContext()
	e.last = e.view()
}

func (e *mkrsupEnv) sym(bech string) string {
	if bech == "" {
		return "-"
	}
	if n, ok := e.name[bech]; ok {
		return n
	}
	return "?"
}

// mkrsupClass maps an error to its class; first match wins (see the Lean model's `check … .<class>`).
func mkrsupClass(err error) string {
	if err == nil {
		return "ok"
	}
	m := strings.ToLower(err.Error())
	has := func(ss ...string) bool {
		for _, s := range ss {
			if strings.Contains(m, s) {
				return true
			}
		}
		return false
	}
	switch {
	case has("expected") && has("got"):
		return "err:authority"
	case has("a manager is required"): // MarkerAccount.Validate; the text ends in "… marker is not ACTIVE"
		return "err:invalid"
	case has("does not allow governance control"):
		return "err:nogov"
	case has("marker does not exist", "not found", "is not a marker account"): // the last: GetMarker on a plain account sitting at the marker address
		return "err:notfound"
	case has("exceeds maximum allowed value"):
		return "err:max"
	case has("pre-existing supply"):
		return "err:preexisting"
	case has("balances in escrow"):
		return "err:escrow2"
	case has("in circulation"):
		return "err:escrow"
	case has("cannot reduce marker total supply below zero"):
		return "err:below0"
	case has("insufficient"):
		return "err:funds"
	case has("already exists"):
		return "err:exists"
	case has("is not restricted_coin"):
		return "err:type"
	case has("is not allowed to receive funds"):
		return "err:blocked"
	case has("funds are not allowed to be removed from"):
		return "err:noforce"
	case has("does not have access_", "does not have permission", "is not authorized", "can only be made by",
		"has not been granted authority", "cannot withdraw from marker account", "does not have transfer permissions", "none of"):
		return "err:perm"
	case has("not in active status", "can only finalize", "can only activate", "can only delete",
		"must be proposed, finalized, or active", "state can not be modified", "is not active",
		"invalid status transition", "only cancelled markers can be deleted", "marker status ("):
		return "err:state"
	}
	return "err:invalid"
}

func mkrsupCoinsStr(bal map[string]sdkmath.Int) string {
	var parts []string
	for _, d := range mkrsupDenoms { // already sorted by denom
		if a, ok := bal[d]; ok && !a.IsZero() {
			parts = append(parts, a.String()+d)
		}
	}
	return JoinOr(parts, ",")
}

func mkrsupB(b bool) string {
	if b {
		return "1"
	}
	return "0"
}

func (e *mkrsupEnv) view() *mkrsupView {
	k, bk := e.app.MarkerKeeper, e.app.BankKeeper
	p := k.GetParams(e.ctx)
	v := &mkrsupView{max: p.MaxSupply, mts: p.MaxTotalSupply, eg: p.EnableGovernance, mk: map[string]*mkrsupMk{},
		sup: map[string]sdkmath.Int{}, bal: map[string]map[string]sdkmath.Int{}, plain: map[string]bool{}}
	for _, d := range mkrsupMks {
		ma, err := k.GetMarkerByDenom(e.ctx, d)
		if err != nil || ma == nil {
			v.plain[d] = e.app.AccountKeeper.HasAccount(e.ctx, e.addr["@"+d])
			continue
		}
		m := &mkrsupMk{st: int(ma.GetStatus()), sup: ma.GetSupply().Amount, fixed: ma.HasFixedSupply(),
			restr: ma.GetMarkerType() == markertypes.MarkerType_RestrictedCoin, gov: ma.HasGovernanceEnabled(),
			ft: ma.AllowsForcedTransfer(), mgr: e.sym(ma.GetManager().String()), acc: map[string][]string{}}
		var gs []string
		for _, g := range ma.GetAccessList() {
			ps := append([]markertypes.Access(nil), g.Permissions...)
			sort.Slice(ps, func(i, j int) bool { return ps[i] < ps[j] })
			var ns []string
			for _, x := range ps {
				if x >= 1 && int(x) <= len(mkrsupPerms) {
					ns = append(ns, mkrsupPerms[x-1])
				} else {
					ns = append(ns, "?")
				}
			}
			who := e.sym(g.Address)
			m.acc[who] = append(m.acc[who], ns...)
			gs = append(gs, who+":"+strings.Join(ns, "+"))
		}
		sort.Strings(gs)
		m.accStr = JoinOr(gs, "|")
		v.mk[d] = m
	}
	for _, d := range mkrsupDenoms {
		v.sup[d] = bk.GetSupply(e.ctx, d).Amount
	}
	for _, a := range mkrsupAccts {
		v.bal[a] = map[string]sdkmath.Int{}
		for _, d := range mkrsupDenoms {
			v.bal[a][d] = bk.GetBalance(e.ctx, e.addr[a], d).Amount
		}
	}
	v.bal["%"] = map[string]sdkmath.Int{}
	for _, d := range mkrsupDenoms {
		s := sdkmath.ZeroInt()
		for _, ad := range e.pool {
			s = s.Add(bk.GetBalance(e.ctx, ad, d).Amount)
		}
		v.bal["%"][d] = s
	}
	return v
}

func (v *mkrsupView) dump() string {
	secs := []string{fmt.Sprintf("P max=%s mts=%d eg=%s", v.max, v.mts, mkrsupB(v.eg))}
	for _, d := range mkrsupMks {
		if m := v.mk[d]; m != nil {
			typ := "c"
			if m.restr {
				typ = "r"
			}
			secs = append(secs, fmt.Sprintf("M %s st=%s sup=%s fix=%s typ=%s gov=%s ft=%s mgr=%s acc=%s", d,
				markertypes.MarkerStatus(m.st).String(), m.sup, mkrsupB(m.fixed), typ, mkrsupB(m.gov), mkrsupB(m.ft), m.mgr, m.accStr))
		}
	}
	var ss, bs []string
	for _, d := range mkrsupDenoms {
		ss = append(ss, d+"="+v.sup[d].String())
	}
	for _, a := range append(append([]string(nil), mkrsupAccts...), "%") {
		bs = append(bs, a+"="+mkrsupCoinsStr(v.bal[a]))
	}
	var pl []string
	for _, d := range mkrsupMks {
		if v.plain[d] {
			pl = append(pl, d)
		}
	}
	return strings.Join(append(secs, "S "+strings.Join(ss, " "), "A "+JoinOr(pl, ","), "B "+strings.Join(bs, " ")), " ; ")
}

/* ---------- parsing op lines ---------- */

type mkrsupBad struct{}

func mkrsupFail() { panic(mkrsupBad{}) }

func (e *mkrsupEnv) a(s string) string { // symbolic -> bech32 ("" for "-")
	if s == "-" {
		return ""
	}
	ad, ok := e.addr[s]
	if !ok { // hand-written ops may name other parties: `@xyz` = marker address of xyz, anything else a stranger
		switch {
		case strings.HasPrefix(s, "@") && sdk.ValidateDenom(s[1:]) == nil:
			ad = markertypes.MustGetMarkerAddress(s[1:])
		case len(s) > 0 && len(s) <= 8 && !strings.ContainsAny(s, "@:|+,=-"):
			ad = sdk.AccAddress([]byte(("verif_mkrsup_x_" + s + "________")[:20]))
		default:
			mkrsupFail()
		}
		e.addr[s], e.name[ad.String()] = ad, s
	}
	return ad.String()
}

func mkrsupInt(s string) sdkmath.Int {
	v, ok := sdkmath.NewIntFromString(s)
	if !ok || s == "" {
		mkrsupFail()
	}
	return v
}

// mkrsupCoin parses `12mka` / `-3mka` without any validation (the messages' own checks must see it).
func mkrsupCoin(s string) sdk.Coin {
	i := 0
	if strings.HasPrefix(s, "-") {
		i = 1
	}
	j := i
	for j < len(s) && s[j] >= '0' && s[j] <= '9' {
		j++
	}
	if j == i || j == len(s) {
		mkrsupFail()
	}
	return sdk.Coin{Denom: s[j:], Amount: mkrsupInt(s[:j])}
}

func mkrsupCoins(s string) sdk.Coins {
	cs := sdk.Coins{}
	if s == "-" {
		return cs
	}
	for _, p := range strings.Split(s, ",") {
		cs = append(cs, mkrsupCoin(p))
	}
	sort.SliceStable(cs, func(i, j int) bool { return cs[i].Denom < cs[j].Denom })
	return cs
}

func (e *mkrsupEnv) grant(s string) markertypes.AccessGrant {
	p := strings.Split(s, ":")
	if len(p) != 2 {
		mkrsupFail()
	}
	g := markertypes.AccessGrant{Address: e.a(p[0])}
	seen := map[string]bool{}
	for _, n := range strings.Split(p[1], "+") {
		if n == "" && p[1] == "" {
			break
		}
		idx := -1
		for k, pn := range mkrsupPerms {
			if pn == n {
				idx = k
			}
		}
		if idx < 0 {
			mkrsupFail()
		}
		if !seen[n] { // the model's parser drops duplicates
			g.Permissions = append(g.Permissions, markertypes.Access(idx+1))
		}
		seen[n] = true
	}
	return g
}

func (e *mkrsupEnv) grants(s string) []markertypes.AccessGrant {
	if s == "-" || s == "" {
		return nil
	}
	var gs []markertypes.AccessGrant
	for _, p := range strings.Split(s, "|") {
		gs = append(gs, e.grant(p))
	}
	return gs
}

func mkrsupKV(ws []string, k string, def string) string {
	for _, w := range ws {
		if strings.HasPrefix(w, k+"=") {
			return w[len(k)+1:]
		}
	}
	if def == "" {
		mkrsupFail()
	}
	return def
}

func mkrsupBool(s string) bool {
	if s != "0" && s != "1" {
		mkrsupFail()
	}
	return s == "1"
}

func mkrsupStatusOf(s string) markertypes.MarkerStatus {
	for i, n := range mkrsupStatus {
		if n == s {
			return markertypes.MarkerStatus(i)
		}
	}
	mkrsupFail()
	return 0
}

type mkrsupVB interface{ ValidateBasic() error }

// mkrsupCall: ValidateBasic (as baseapp does before routing), then the msg-server method.
func mkrsupCall[M any, R any](msg M, h func(context.Context, M) (R, error)) func(sdk.Context) error {
	return func(ctx sdk.Context) error {
		if vb, ok := any(msg).(mkrsupVB); ok {
			if err := vb.ValidateBasic(); err != nil {
				return err
			}
		}
		_, err := h(ctx, msg)
		return err
	}
}

func (e *mkrsupEnv) need(ws []string, n int) {
	if len(ws) != n {
		mkrsupFail()
	}
}

// parse turns an op line into the call on the real code.
func (e *mkrsupEnv) parse(ws []string) func(sdk.Context) error {
	if len(ws) == 0 {
		mkrsupFail()
	}
	mt := func(s string) markertypes.MarkerType {
		if s == "r" {
			return markertypes.MarkerType_RestrictedCoin
		}
		return markertypes.MarkerType_Coin
	}
	switch ws[0] {
	case "add":
		r := ws[1:]
		msg := &markertypes.MsgAddMarkerRequest{
			Amount:  sdk.Coin{Denom: mkrsupKV(r, "d", ""), Amount: mkrsupInt(mkrsupKV(r, "amt", ""))},
			Manager: e.a(mkrsupKV(r, "mgr", "-")), FromAddress: e.a(mkrsupKV(r, "from", "")),
			Status: mkrsupStatusOf(mkrsupKV(r, "st", "proposed")), MarkerType: mt(mkrsupKV(r, "typ", "")),
			AccessList: e.grants(mkrsupKV(r, "acc", "-")), SupplyFixed: mkrsupBool(mkrsupKV(r, "fix", "")),
			AllowGovernanceControl: mkrsupBool(mkrsupKV(r, "gov", "")), AllowForcedTransfer: mkrsupBool(mkrsupKV(r, "ft", ""))}
		return mkrsupCall(msg, e.srv.AddMarker)
	case "addfa":
		r := ws[1:]
		msg := &markertypes.MsgAddFinalizeActivateMarkerRequest{
			Amount:  sdk.Coin{Denom: mkrsupKV(r, "d", ""), Amount: mkrsupInt(mkrsupKV(r, "amt", ""))},
			Manager: e.a(mkrsupKV(r, "mgr", "-")), FromAddress: e.a(mkrsupKV(r, "from", "")),
			MarkerType: mt(mkrsupKV(r, "typ", "")), AccessList: e.grants(mkrsupKV(r, "acc", "-")),
			SupplyFixed: mkrsupBool(mkrsupKV(r, "fix", "")), AllowGovernanceControl: mkrsupBool(mkrsupKV(r, "gov", "")),
			AllowForcedTransfer: mkrsupBool(mkrsupKV(r, "ft", ""))}
		return mkrsupCall(msg, e.srv.AddFinalizeActivateMarker)
	case "finalize":
		e.need(ws, 3)
		return mkrsupCall(&markertypes.MsgFinalizeRequest{Administrator: e.a(ws[1]), Denom: ws[2]}, e.srv.Finalize)
	case "activate":
		e.need(ws, 3)
		return mkrsupCall(&markertypes.MsgActivateRequest{Administrator: e.a(ws[1]), Denom: ws[2]}, e.srv.Activate)
	case "cancel":
		e.need(ws, 3)
		return mkrsupCall(&markertypes.MsgCancelRequest{Administrator: e.a(ws[1]), Denom: ws[2]}, e.srv.Cancel)
	case "delete":
		e.need(ws, 3)
		return mkrsupCall(&markertypes.MsgDeleteRequest{Administrator: e.a(ws[1]), Denom: ws[2]}, e.srv.Delete)
	case "mint":
		e.need(ws, 3)
		return mkrsupCall(&markertypes.MsgMintRequest{Administrator: e.a(ws[1]), Amount: mkrsupCoin(ws[2])}, e.srv.Mint)
	case "burn":
		e.need(ws, 3)
		return mkrsupCall(&markertypes.MsgBurnRequest{Administrator: e.a(ws[1]), Amount: mkrsupCoin(ws[2])}, e.srv.Burn)
	case "withdraw":
		e.need(ws, 5)
		return mkrsupCall(&markertypes.MsgWithdrawRequest{Administrator: e.a(ws[1]), ToAddress: e.a(ws[2]), Denom: ws[3], Amount: mkrsupCoins(ws[4])}, e.srv.Withdraw)
	case "transfer":
		e.need(ws, 5)
		return mkrsupCall(&markertypes.MsgTransferRequest{Administrator: e.a(ws[1]), FromAddress: e.a(ws[2]), ToAddress: e.a(ws[3]), Amount: mkrsupCoin(ws[4])}, e.srv.Transfer)
	case "addaccess":
		e.need(ws, 4)
		return mkrsupCall(&markertypes.MsgAddAccessRequest{Administrator: e.a(ws[1]), Denom: ws[2], Access: []markertypes.AccessGrant{e.grant(ws[3])}}, e.srv.AddAccess)
	case "delaccess":
		e.need(ws, 4)
		return mkrsupCall(&markertypes.MsgDeleteAccessRequest{Administrator: e.a(ws[1]), Denom: ws[2], RemovedAddress: e.a(ws[3])}, e.srv.DeleteAccess)
	case "govinc":
		e.need(ws, 4)
		return mkrsupCall(&markertypes.MsgSupplyIncreaseProposalRequest{Authority: e.a(ws[1]), Amount: mkrsupCoin(ws[2]), TargetAddress: e.a(ws[3])}, e.srv.SupplyIncreaseProposal)
	case "govdec":
		e.need(ws, 3)
		return mkrsupCall(&markertypes.MsgSupplyDecreaseProposalRequest{Authority: e.a(ws[1]), Amount: mkrsupCoin(ws[2])}, e.srv.SupplyDecreaseProposal)
	case "govstatus":
		e.need(ws, 4)
		return mkrsupCall(&markertypes.MsgChangeStatusProposalRequest{Authority: e.a(ws[1]), Denom: ws[2], NewStatus: mkrsupStatusOf(ws[3])}, e.srv.ChangeStatusProposal)
	case "govwithdraw":
		e.need(ws, 5)
		return mkrsupCall(&markertypes.MsgWithdrawEscrowProposalRequest{Authority: e.a(ws[1]), Denom: ws[2], TargetAddress: e.a(ws[3]), Amount: mkrsupCoins(ws[4])}, e.srv.WithdrawEscrowProposal)
	case "govsetadmin":
		e.need(ws, 4)
		return mkrsupCall(&markertypes.MsgSetAdministratorProposalRequest{Authority: e.a(ws[1]), Denom: ws[2], Access: []markertypes.AccessGrant{e.grant(ws[3])}}, e.srv.SetAdministratorProposal)
	case "govrmadmin":
		e.need(ws, 4)
		return mkrsupCall(&markertypes.MsgRemoveAdministratorProposalRequest{Authority: e.a(ws[1]), Denom: ws[2], RemovedAddress: []string{e.a(ws[3])}}, e.srv.RemoveAdministratorProposal)
	case "params":
		if len(ws) != 4 && len(ws) != 5 {
			mkrsupFail()
		}
		p := e.app.MarkerKeeper.GetParams(e.ctx)
		// max=nil: the message leaves max_supply out (decodes to the zero-value Int); mts = the
		// deprecated max_total_supply (uint64), 0 when the op line does not name it.
		p.MaxSupply = sdkmath.Int{}
		if mx := mkrsupKV(ws[2:], "max", ""); mx != "nil" {
			p.MaxSupply = mkrsupInt(mx)
		}
		mts, err := strconv.ParseUint(mkrsupKV(ws[2:], "mts", "0"), 10, 64)
		if err != nil {
			mkrsupFail()
		}
		p.MaxTotalSupply, p.EnableGovernance = mts, mkrsupBool(mkrsupKV(ws[2:], "eg", ""))
		return mkrsupCall(&markertypes.MsgUpdateParamsRequest{Authority: e.a(ws[1]), Params: p}, e.srv.UpdateParams)
	case "send":
		e.need(ws, 4)
		return mkrsupCall(&banktypes.MsgSend{FromAddress: e.a(ws[1]), ToAddress: e.a(ws[2]), Amount: sdk.Coins{mkrsupCoin(ws[3])}}, e.bank.Send)
	case "beginblock":
		e.need(ws, 1)
		return func(ctx sdk.Context) error {
			marker.BeginBlocker(ctx, e.app.MarkerKeeper, e.app.BankKeeper)
			return nil
		}
	case "fmint": // environment: another module mints to an account
		e.need(ws, 3)
		to, c := sdk.MustAccAddressFromBech32(e.a(ws[1])), mkrsupCoin(ws[2])
		return func(ctx sdk.Context) error {
			if c.Amount.IsNegative() {
				return fmt.Errorf("negative amount")
			}
			if c.Amount.IsZero() {
				return nil
			}
			ctx = markertypes.WithBypass(ctx)
			if err := e.app.BankKeeper.MintCoins(ctx, "mint", sdk.NewCoins(c)); err != nil {
				return err
			}
			return e.app.BankKeeper.SendCoinsFromModuleToAccount(ctx, "mint", to, sdk.NewCoins(c))
		}
	case "govburn": // environment, the real gov route: deposit on a proposal, then the deposits are burned
		e.need(ws, 3)
		from, c := sdk.MustAccAddressFromBech32(e.a(ws[1])), mkrsupCoin(ws[2])
		return func(ctx sdk.Context) error {
			if !c.Amount.IsPositive() {
				return fmt.Errorf("deposit must be positive")
			}
			gk := e.app.GovKeeper
			prop, err := gk.SubmitProposal(ctx, nil, "", "t", "s", from, false)
			if err != nil {
				return err
			}
			if _, err = gk.AddDeposit(ctx, prop.Id, from, sdk.NewCoins(c)); err != nil {
				return err
			}
			return gk.DeleteAndBurnDeposits(ctx, prop.Id)
		}
	}
	mkrsupFail()
	return nil
}

// exec runs one op line on the real code (atomically) and returns `<result> ; <dump>`.
func (e *mkrsupEnv) exec(op string) (out string) {
	var f func(sdk.Context) error
	func() {
		defer func() {
			if r := recover(); r != nil {
				f = nil
			}
		}()
		f = e.parse(strings.Fields(op))
	}()
	if f == nil {
		return "bad-op"
	}
	err, pan := Try(e.ctx, f)
	if err != nil && os.Getenv("MKRSUP_DEBUG") != "" {
		fmt.Fprintf(os.Stderr, "mkrsup: %s => %v\n", op, err)
	}
	res := mkrsupClass(err)
	if pan != "" {
		res = "panic:" + pan
	}
	e.last = e.view()
	return res + " ; " + e.last.dump()
}

func replayMkrsup(t *testing.T, ops []string, out *Out) {
	e := mkrsupSetup(t)
	e.newHistory()
	for _, op := range ops {
		if strings.HasPrefix(op, "#") {
			if strings.HasPrefix(op, "# history") {
				e.newHistory()
			}
			out.Comment(strings.TrimSpace(strings.TrimPrefix(op, "#")))
			continue
		}
		out.Emit(op, e.exec(op))
	}
}

/* ---------- generator ---------- */

type mkrsupGen struct {
	e   *mkrsupEnv
	r   *RNG
	out *Out
	v   *mkrsupView
	n   int
}

var (
	mkrsupP63  = sdkmath.NewIntFromUint64(1 << 63)
	mkrsupP64  = sdkmath.NewIntFromUint64(1 << 63).MulRaw(2)
	mkrsupE20  = sdkmath.NewIntWithDecimal(1, 20)
	mkrsupZero = sdkmath.ZeroInt()
)

func (g *mkrsupGen) emit(op string) string {
	res := g.e.exec(op)
	g.v = g.e.last
	kind, rc := strings.Fields(op)[0], strings.Fields(res)[0]
	g.out.Count("op:" + kind)
	g.out.Count("res:" + rc)
	if rc == "ok" {
		g.out.Count("res:" + kind + ":ok")
	} else {
		g.out.Count("res:" + kind + ":err")
	}
	for _, d := range mkrsupMks {
		if m := g.v.mk[d]; m != nil {
			g.out.Count("status:" + mkrsupStatus[m.st])
			g.out.Count("fixed:" + mkrsupB(m.fixed))
			g.out.Count("typ:" + map[bool]string{false: "c", true: "r"}[m.restr])
		} else {
			g.out.Count("status:none")
		}
	}
	g.out.Emit(op, res)
	g.n++
	return rc
}

func (g *mkrsupGen) user() string { return Pick(g.r, mkrsupUsers) }
func (g *mkrsupGen) userNot(x string) string {
	for {
		if u := g.user(); u != x {
			return u
		}
	}
}

// small returns 1..min(hi,cap) (1 when hi < 1).
func (g *mkrsupGen) small(hi sdkmath.Int, cap int) sdkmath.Int {
	if !hi.IsPositive() {
		return sdkmath.OneInt()
	}
	if hi.IsInt64() && hi.Int64() < int64(cap) {
		cap = int(hi.Int64())
	}
	return sdkmath.NewInt(int64(1 + g.r.Intn(cap)))
}

func (g *mkrsupGen) boundary() sdkmath.Int {
	r, d := g.r, int64(g.r.Intn(3)-1)
	switch k := r.Intn(100); {
	case k < 7:
		return mkrsupZero
	case k < 12:
		return sdkmath.OneInt()
	case k < 50:
		return sdkmath.NewInt(int64(2 + r.Intn(198)))
	case k < 65:
		return g.v.max.AddRaw(d)
	case k < 75:
		return sdkmath.NewInt(1_000_000)
	case k < 81:
		return mkrsupP63.AddRaw(d)
	case k < 87:
		return mkrsupP64.AddRaw(d)
	case k < 92:
		return mkrsupE20.AddRaw(d)
	}
	return sdkmath.NewInt(int64(1000 + r.Intn(100000)))
}

// caller: 70% a user holding `right`, 20% a user without it, 10% GOV.
func (g *mkrsupGen) caller(m *mkrsupMk, right string) string {
	var with, without []string
	for _, u := range mkrsupUsers {
		if m.has(u, right) {
			with = append(with, u)
		} else {
			without = append(without, u)
		}
	}
	switch k := g.r.Intn(100); {
	case k < 70 && len(with) > 0:
		return Pick(g.r, with)
	case k < 90 && len(without) > 0:
		return Pick(g.r, without)
	case k < 90:
		return g.user()
	}
	return "GOV"
}

func (g *mkrsupGen) perms(restr bool, rich bool) string {
	var ps []string
	for i, p := range mkrsupPerms {
		if i >= 6 && !restr && !g.r.Chance(4) {
			continue
		}
		if (rich && g.r.Chance(93)) || (!rich && g.r.Chance(35)) {
			ps = append(ps, p)
		}
	}
	return strings.Join(ps, "+")
}

func (g *mkrsupGen) genAdd(d string) string {
	r := g.r
	fa := r.Chance(25)
	from := g.user()
	if r.Chance(20) && !fa || r.Chance(3) {
		from = "GOV"
	}
	st := "proposed"
	switch k := r.Intn(100); {
	case from == "GOV" && k < 50:
		st = "active"
	case from == "GOV" && k < 75:
		st = Pick(r, []string{"cancelled", "destroyed", "undefined"})
	case from == "GOV" && k < 88, from != "GOV" && k < 30:
		st = "finalized"
	case from != "GOV" && k < 33:
		st = "active"
	}
	restr := r.Bool()
	ft := restr && r.Chance(40) || !restr && r.Chance(3)
	mgr := from
	switch k := r.Intn(100); {
	case k < 12:
		mgr = g.user()
	case k < 17 && (st == "proposed" || fa), k < 55 && st != "proposed" && !fa:
		mgr = "-"
	case k < 19:
		mgr = "@" + d
	}
	// access list: 1-3 distinct users; the manager/creator usually gets (nearly) everything
	var acc []string
	us := append([]string(nil), mkrsupUsers...)
	for i := len(us) - 1; i > 0; i-- {
		j := r.Intn(i + 1)
		us[i], us[j] = us[j], us[i]
	}
	if lead := mgr; r.Chance(75) {
		if !contains(mkrsupUsers, lead) {
			lead = from
		}
		if contains(mkrsupUsers, lead) {
			for i, u := range us {
				if u == lead {
					us[0], us[i] = us[i], us[0]
				}
			}
			acc = append(acc, lead+":"+g.perms(restr, true))
		}
	}
	for _, u := range us[len(acc) : 1+r.Intn(3)] {
		acc = append(acc, u+":"+g.perms(restr, false))
	}
	if r.Chance(2) {
		acc = append(acc, "@"+d+":"+Pick(r, []string{"deposit", ""}))
	}
	if r.Chance(4) {
		acc = nil
	}
	amt := g.boundary()
	if pre := g.v.sup[d]; pre.IsPositive() && amt.LT(pre) && r.Chance(80) {
		amt = pre.Add(g.small(sdkmath.NewInt(100), 100)).SubRaw(1)
	}
	common := fmt.Sprintf("from=%s d=%s amt=%s", from, d, amt)
	tail := fmt.Sprintf("typ=%s fix=%s gov=%s ft=%s mgr=%s acc=%s", map[bool]string{false: "c", true: "r"}[restr],
		mkrsupB(r.Chance(65)), mkrsupB(r.Chance(60)), mkrsupB(ft), mgr, JoinOr(acc, "|"))
	if fa {
		return "addfa " + common + " " + tail
	}
	return "add " + common + " st=" + st + " " + tail
}

// holders of denom d among the users
func (g *mkrsupGen) holders(d string) []string {
	var hs []string
	for _, u := range mkrsupUsers {
		if g.v.b(u, d).IsPositive() {
			hs = append(hs, u)
		}
	}
	return hs
}

// heldDenom: d when some user holds it (or 12% regardless), else another denom that users hold.
func (g *mkrsupGen) heldDenom(d string) string {
	if len(g.holders(d)) > 0 || g.r.Chance(12) {
		return d
	}
	for _, x := range []string{"oth", "mka", "mkb"} {
		if len(g.holders(x)) > 0 && !(g.v.plain[x] && !g.r.Chance(mkrsupPlainPct)) {
			return x
		}
	}
	return d
}

func (g *mkrsupGen) other(d string) string {
	if d == "mka" {
		return "mkb"
	}
	return "mka"
}

// upTo picks an amount relative to a balance: mostly within it, sometimes exactly it, it+1, or 0.
func (g *mkrsupGen) upTo(bal sdkmath.Int) sdkmath.Int {
	switch k := g.r.Intn(100); {
	case k < 62:
		return g.small(bal, 60)
	case k < 82:
		return bal
	case k < 94:
		return bal.AddRaw(1)
	}
	return mkrsupZero
}

func (g *mkrsupGen) mintAmt(d string, m *mkrsupMk) sdkmath.Int {
	room := g.v.max.Sub(g.v.sup[d])
	switch k := g.r.Intn(100); {
	case k < 8:
		return mkrsupZero
	case k < 16:
		return sdkmath.OneInt()
	case k < 60:
		return g.small(room, 100)
	case k < 74 && room.IsPositive():
		return room
	case k < 86 && !room.IsNegative():
		return room.AddRaw(1)
	}
	return g.boundary()
}

func (g *mkrsupGen) burnAmt(d string, m *mkrsupMk) sdkmath.Int {
	if m != nil && m.st < 3 { // proposed/finalized: only the record changes
		switch k := g.r.Intn(100); {
		case k < 60:
			return g.small(m.sup, 100)
		case k < 80:
			return m.sup
		}
		return m.sup.AddRaw(1)
	}
	esc := g.v.b("@"+d, d)
	switch k := g.r.Intn(100); {
	case k < 7:
		return mkrsupZero
	case k < 55:
		return g.small(esc, 100)
	case k < 72:
		return esc
	case k < 86:
		return esc.AddRaw(1)
	case k < 94:
		return g.v.sup[d].AddRaw(1)
	}
	return g.boundary()
}

// escrowCoins picks 1-2 coins held by the marker account of d (its own denom first).
func (g *mkrsupGen) escrowCoins(d string) string {
	var parts []string
	for _, x := range mkrsupDenoms {
		if b := g.v.b("@"+d, x); b.IsPositive() && (len(parts) == 0 || g.r.Chance(45)) && len(parts) < 2 {
			parts = append(parts, g.upTo(b).String()+x)
		}
	}
	if len(parts) == 0 {
		if g.r.Chance(10) {
			return "-"
		}
		parts = []string{fmt.Sprintf("%d%s", 1+g.r.Intn(9), Pick(g.r, []string{d, d, "oth"}))}
	}
	return strings.Join(parts, ",")
}

func (g *mkrsupGen) recipient(d string) string {
	switch k := g.r.Intn(100); {
	case k < 80:
		return g.user()
	case k < 91:
		return "@" + g.other(d)
	case k < 96:
		return "@" + d
	}
	return "GOV"
}

func (g *mkrsupGen) grantStr(d string, m *mkrsupMk) string {
	who := g.user()
	if g.r.Chance(3) {
		who = "@" + d
	}
	return who + ":" + g.perms(m != nil && m.restr, g.r.Chance(25))
}

func (g *mkrsupGen) grantee(m *mkrsupMk) string {
	if m != nil && len(m.acc) > 0 && g.r.Chance(75) {
		ks := make([]string, 0, len(m.acc))
		for k := range m.acc {
			if k != "?" {
				ks = append(ks, k)
			}
		}
		sort.Strings(ks)
		if len(ks) > 0 {
			return Pick(g.r, ks)
		}
	}
	return g.user()
}

// accessCaller: whoever may change the access list in the current status (usually).
func (g *mkrsupGen) accessCaller(d string, m *mkrsupMk) string {
	k := g.r.Intn(100)
	if m == nil || k < 15 {
		return g.user()
	}
	if k < 22 {
		return "GOV"
	}
	if m.st <= 2 && m.mgr != "-" && (m.st == 1 || g.r.Chance(60)) {
		return m.mgr
	}
	if k < 40 { // a holder of the whole recorded supply
		for _, u := range mkrsupUsers {
			if g.v.b(u, d).Equal(m.sup) {
				return u
			}
		}
	}
	return g.caller(m, "admin")
}

func (g *mkrsupGen) auth() string {
	if g.r.Chance(90) {
		return "GOV"
	}
	return g.user()
}

// recall moves every user's coins of d back into the marker's own account (best effort).
func (g *mkrsupGen) recall(d string) {
	m := g.v.mk[d]
	if m == nil || m.st != 3 {
		return
	}
	for _, h := range g.holders(d) {
		bal := g.v.b(h, d)
		op := fmt.Sprintf("send %s @%s %s%s", h, d, bal, d)
		if m.restr && !(m.has(h, "transfer") && m.has(h, "deposit")) {
			for _, ad := range mkrsupUsers {
				if m.has(ad, "deposit") && (ad == h && m.has(ad, "transfer") || m.ft && m.has(ad, "force")) {
					op = fmt.Sprintf("transfer %s %s @%s %s%s", ad, h, d, bal, d)
				}
			}
		}
		g.emit(op)
	}
}

// weights per marker state: none, proposed, finalized, active, cancelled, destroyed
var mkrsupWeights = []struct {
	kind string
	w    [6]int
}{
	{"add", [6]int{40, 2, 2, 2, 2, 3}}, {"addfa", [6]int{16, 1, 1, 1, 1, 1}},
	{"finalize", [6]int{2, 28, 2, 1, 1, 1}}, {"activate", [6]int{2, 3, 32, 1, 1, 1}},
	{"mint", [6]int{2, 8, 6, 13, 2, 1}}, {"burn", [6]int{1, 6, 5, 11, 2, 1}},
	{"withdraw", [6]int{1, 2, 2, 18, 3, 1}}, {"transfer", [6]int{1, 1, 1, 12, 1, 1}},
	{"send", [6]int{6, 5, 5, 16, 6, 2}}, {"cancel", [6]int{1, 6, 6, 7, 3, 1}},
	{"delete", [6]int{1, 2, 2, 2, 30, 1}}, {"addaccess", [6]int{1, 10, 8, 6, 2, 1}},
	{"delaccess", [6]int{1, 5, 4, 4, 1, 1}}, {"govinc", [6]int{1, 4, 4, 5, 1, 1}},
	{"govdec", [6]int{1, 2, 2, 4, 2, 1}}, {"govstatus", [6]int{1, 5, 5, 3, 8, 1}},
	{"govwithdraw", [6]int{1, 2, 2, 4, 8, 1}}, {"govsetadmin", [6]int{1, 3, 3, 2, 1, 1}},
	{"govrmadmin", [6]int{1, 2, 2, 2, 1, 1}}, {"params", [6]int{2, 1, 1, 4, 1, 1}},
	{"beginblock", [6]int{6, 7, 7, 11, 8, 60}}, {"fmint", [6]int{14, 6, 5, 5, 4, 2}},
	{"govburn", [6]int{1, 2, 2, 3, 2, 1}},
}

// mkrsupPlainPct: how often (percent) a bank send / gov deposit of a denom is generated while a plain
// (non-marker) account sits at that denom's marker address. Before the fix ed45788f3 the send
// restriction failed there ("is not a marker account"); now such sends behave as for a denom
// without a marker, so they are generated freely.
const mkrsupPlainPct = 100

var mkrsupNeeds = map[string]string{"mint": "mint", "burn": "burn", "withdraw": "withdraw", "transfer": "transfer", "delete": "delete"}

func (g *mkrsupGen) anyHas(m *mkrsupMk, right string) bool {
	for _, u := range mkrsupUsers {
		if m.has(u, right) {
			return true
		}
	}
	return false
}

func (g *mkrsupGen) step() {
	r := g.r
	// the denom: usually one that has a marker
	var have []string
	for _, d := range mkrsupMks {
		if g.v.mk[d] != nil {
			have = append(have, d)
		}
	}
	d := Pick(r, mkrsupMks)
	if len(have) > 0 && r.Chance(85) {
		d = Pick(r, have)
	}
	m := g.v.mk[d]
	si := 0
	if m != nil {
		si = m.st
	}
	total, ws := 0, make([]int, len(mkrsupWeights))
	for i, kw := range mkrsupWeights {
		w := kw.w[si] * 4
		switch {
		case strings.HasPrefix(kw.kind, "gov") && kw.kind != "govburn" && m != nil && !m.gov:
			w /= 3
		case kw.kind == "transfer" && m != nil && !m.restr:
			w /= 6
		case kw.kind == "fmint" && m != nil && m.st == 3 && m.fixed:
			w /= 3 // only `oth` may be minted then
		case m != nil && mkrsupNeeds[kw.kind] != "" && !g.anyHas(m, mkrsupNeeds[kw.kind]) && !(kw.kind == "delete" && m.mgr != "-"):
			w /= 4 // nobody could do it
		case kw.kind == "cancel" && m != nil && (m.st == 2 || m.st == 3) && !g.anyHas(m, "delete"):
			w /= 4
		case kw.kind == "delete" && m != nil && m.st == 4 && g.v.sup[d].GT(g.v.b("@"+d, d)):
			w /= 4 // coins outside can no longer be recalled
		}
		ws[i], total = w, total+w
	}
	k, kind := r.Intn(total), ""
	for i, w := range ws {
		if k < w {
			kind = mkrsupWeights[i].kind
			break
		}
		k -= w
	}
	switch kind {
	case "add", "addfa":
		g.emit(g.genAdd(d))
	case "finalize", "activate":
		c := g.user()
		if k := r.Intn(100); k < 78 && m != nil && m.mgr != "-" {
			c = m.mgr
		} else if k < 86 {
			c = "GOV"
		}
		g.emit(fmt.Sprintf("%s %s %s", kind, c, d))
	case "cancel":
		if m != nil && m.st == 3 && r.Chance(55) {
			g.recall(d)
			m = g.v.mk[d]
		}
		c := g.caller(m, "delete")
		if m != nil && m.st == 1 && m.mgr != "-" && r.Chance(50) {
			c = m.mgr
		}
		g.emit(fmt.Sprintf("cancel %s %s", c, d))
	case "delete":
		if hs := g.holders("oth"); len(hs) > 0 && m != nil && r.Chance(25) { // foreign coins in escrow -> err:escrow2
			h := Pick(r, hs)
			g.emit(fmt.Sprintf("send %s @%s %s%s", h, d, g.small(g.v.b(h, "oth"), 20), "oth"))
		}
		c := g.caller(m, "delete")
		if m != nil && m.mgr != "-" && r.Chance(40) {
			c = m.mgr
		}
		g.emit(fmt.Sprintf("delete %s %s", c, d))
	case "mint":
		g.emit(fmt.Sprintf("mint %s %s%s", g.caller(m, "mint"), g.mintAmt(d, m), d))
	case "burn":
		g.emit(fmt.Sprintf("burn %s %s%s", g.caller(m, "burn"), g.burnAmt(d, m), d))
	case "withdraw":
		g.emit(fmt.Sprintf("withdraw %s %s %s %s", g.caller(m, "withdraw"), g.recipient(d), d, g.escrowCoins(d)))
	case "transfer":
		ad := g.caller(m, "transfer")
		if m != nil && m.ft && r.Chance(40) {
			ad = g.caller(m, "force")
		}
		hs := g.holders(d)
		if !g.v.b(ad, d).IsPositive() && !(m.has(ad, "force") && m.ft) && r.Chance(70) {
			for _, h := range hs { // an admin that holds coins itself
				if m.has(h, "transfer") || m.has(h, "force") {
					ad = h
				}
			}
		}
		from := ad
		if len(hs) > 0 && (r.Chance(30) || m.has(ad, "force") && m.ft && r.Chance(50)) {
			from = Pick(r, hs)
		} else if r.Chance(8) {
			from = Pick(r, []string{"@" + d, "GOV"})
		}
		g.emit(fmt.Sprintf("transfer %s %s %s %s%s", ad, from, g.recipient(d), g.upTo(g.v.b(from, d)), d))
	case "send":
		sd := d
		if k := r.Intn(100); k < 25 {
			sd = "oth"
		} else if k < 38 {
			sd = g.other(d)
		}
		if g.v.plain[sd] && !r.Chance(mkrsupPlainPct) {
			sd = "oth"
		}
		sd = g.heldDenom(sd)
		from := g.user()
		if hs := g.holders(sd); len(hs) > 0 && r.Chance(88) {
			from = Pick(r, hs)
			if sm := g.v.mk[sd]; sm != nil && sm.restr && r.Chance(75) {
				for _, h := range hs { // restricted coins: a holder with the transfer right
					if sm.has(h, "transfer") {
						from = h
					}
				}
			}
		} else if r.Chance(8) {
			from = "@" + d
		}
		to := g.userNot(from)
		if k := r.Intn(100); k < 18 {
			to = "@" + d
		} else if k < 28 {
			to = "@" + g.other(d)
		} else if k < 32 {
			to = "GOV"
		}
		g.emit(fmt.Sprintf("send %s %s %s%s", from, to, g.upTo(g.v.b(from, sd)), sd))
	case "addaccess":
		g.emit(fmt.Sprintf("addaccess %s %s %s", g.accessCaller(d, m), d, g.grantStr(d, m)))
	case "delaccess":
		g.emit(fmt.Sprintf("delaccess %s %s %s", g.accessCaller(d, m), d, g.grantee(m)))
	case "govinc":
		t := "-"
		if k := r.Intn(100); k < 40 {
			t = g.user()
		} else if k < 45 {
			t = "GOV"
		} else if k < 50 {
			t = "@" + g.other(d)
		}
		g.emit(fmt.Sprintf("govinc %s %s%s %s", g.auth(), g.mintAmt(d, m), d, t))
	case "govdec":
		g.emit(fmt.Sprintf("govdec %s %s%s", g.auth(), g.burnAmt(d, nil), d))
	case "govstatus":
		ns := r.Intn(6)
		if k := r.Intn(100); k < 55 && si < 5 {
			ns = si + 1
		} else if k < 70 && si > 0 {
			ns = si
		}
		g.emit(fmt.Sprintf("govstatus %s %s %s", g.auth(), d, mkrsupStatus[ns]))
	case "govwithdraw":
		g.emit(fmt.Sprintf("govwithdraw %s %s %s %s", g.auth(), d, g.recipient(d), g.escrowCoins(d)))
	case "govsetadmin":
		g.emit(fmt.Sprintf("govsetadmin %s %s %s", g.auth(), d, g.grantStr(d, m)))
	case "govrmadmin":
		g.emit(fmt.Sprintf("govrmadmin %s %s %s", g.auth(), d, g.grantee(m)))
	case "params":
		if g.emit(g.genParams(g.auth())) == "ok" {
			g.afterParams()
		}
	case "beginblock":
		g.emit("beginblock")
	case "fmint":
		g.emit(g.genFmint(d))
	case "govburn":
		if g.v.plain[d] && !r.Chance(mkrsupPlainPct) {
			d = "oth"
		}
		d = g.heldDenom(d)
		from := g.user()
		if hs := g.holders(d); len(hs) > 0 && r.Chance(85) {
			from = Pick(r, hs)
		}
		g.emit(fmt.Sprintf("govburn %s %s%s", from, g.upTo(g.v.b(from, d)), d))
	}
}

// genParams: a governance UpdateParams. The maximum is drawn from the boundaries of the current
// state as much as from comfortable values: 0 ("minting frozen"), 1, a message that leaves
// max_supply out (nil), a negative value (Params.Validate accepts it), the bank supply of a marker
// denom -1/+0/+1 (lowered under / onto what exists), a few coins of room, the uint64 / default
// borders. The deprecated max_total_supply (ignored by GetMaxSupply) is set in a third of the updates,
// below, at and far above max_supply.
func (g *mkrsupGen) genParams(auth string) string {
	r := g.r
	d := Pick(r, mkrsupMks)
	if m := g.v.mk[d]; m == nil || m.st != 3 {
		for _, x := range mkrsupMks { // prefer the denom of an active marker
			if mx := g.v.mk[x]; mx != nil && mx.st == 3 {
				d = x
			}
		}
	}
	sup, mx, cls := g.v.sup[d], "", ""
	switch k := r.Intn(100); {
	case k < 13:
		mx, cls = "0", "zero"
	case k < 16:
		mx, cls = "nil", "nil"
	case k < 20:
		mx, cls = "1", "one"
	case k < 23:
		mx, cls = sdkmath.NewInt(-int64(1+r.Intn(3)*r.Intn(50))).String(), "neg"
	case k < 31:
		mx, cls = sup.String(), "eq_supply"
	case k < 37 && sup.IsPositive():
		mx, cls = sup.SubRaw(int64(1+r.Intn(3)*r.Intn(20))).String(), "below_supply"
	case k < 49:
		mx, cls = sup.AddRaw(int64(1+r.Intn(12))).String(), "just_above_supply"
	case k < 58:
		mx, cls = sdkmath.NewInt(int64(2+r.Intn(199))).String(), "small"
	case k < 80:
		mx, cls = sdkmath.NewInt(int64(50+r.Intn(4951))).String(), "mid"
	case k < 86:
		mx, cls = Pick(r, []sdkmath.Int{mkrsupP63, mkrsupP64}).AddRaw(int64(r.Intn(3)-1)).String(), "u64_border"
	default:
		mx, cls = mkrsupE20.AddRaw(int64(r.Intn(3)-1)).String(), "default_border"
	}
	g.out.Count("params_max:" + cls)
	mts := "0"
	if r.Chance(34) {
		switch k := r.Intn(100); {
		case k < 30:
			mts = fmt.Sprint(1 + r.Intn(200))
		case k < 60:
			mts = fmt.Sprint(1000 + r.Intn(100000))
		case k < 80 && sup.IsInt64():
			mts = sup.AddRaw(int64(1 + r.Intn(50))).String()
		default:
			mts = "18446744073709551615"
		}
		g.out.Count("params_mts:nonzero")
	} else {
		g.out.Count("params_mts:zero")
	}
	return fmt.Sprintf("params %s max=%s mts=%s eg=%s", auth, mx, mts, mkrsupB(r.Bool()))
}

// afterParams: right after an accepted UpdateParams, usually try to mint into an active marker (the
// transaction the new maximum is for): by an administrator with the mint right or by governance.
func (g *mkrsupGen) afterParams() {
	for _, d := range mkrsupMks {
		m := g.v.mk[d]
		if m == nil || m.st != 3 || !g.r.Chance(70) {
			continue
		}
		if m.gov && g.v.eg && g.r.Chance(30) || !g.anyHas(m, "mint") {
			g.emit(fmt.Sprintf("govinc GOV %s%s -", g.mintAmt(d, m), d))
		} else {
			g.emit(fmt.Sprintf("mint %s %s%s", g.caller(m, "mint"), g.mintAmt(d, m), d))
		}
	}
}

// genFmint respects the environment hypothesis: never a denom with an active fixed-supply marker.
func (g *mkrsupGen) genFmint(d string) string {
	if m := g.v.mk[d]; (m != nil && m.st == 3 && m.fixed) || g.r.Chance(25) {
		d = "oth"
	}
	to := g.user()
	if g.r.Chance(12) && d != "oth" {
		to = "@" + d
	}
	amt := int64(1 + g.r.Intn(300))
	if k := g.r.Intn(100); k < 4 {
		amt = 0
	} else if k < 6 {
		amt = -amt
	}
	return fmt.Sprintf("fmint %s %d%s", to, amt, d)
}

func driveMkrsup(t *testing.T, rng *RNG, n int, out *Out) {
	e := mkrsupSetup(t)
	for h := 0; h < n; h++ {
		e.newHistory()
		out.Comment(fmt.Sprintf("history %d", h))
		g := &mkrsupGen{e: e, r: rng, out: out, v: e.last}
		steps := 12 + rng.Intn(17)
		if *flagTier == "thorough" {
			steps = 20 + rng.Intn(31)
		}
		if rng.Chance(30) {
			g.emit(g.genParams("GOV"))
		}
		if rng.Chance(40) { // pre-existing supply before any marker exists
			for i, k := 0, 1+rng.Intn(3); i < k; i++ {
				g.emit(fmt.Sprintf("fmint %s %d%s", g.user(), 1+rng.Intn(120), Pick(rng, mkrsupMks)))
			}
		}
		if rng.Chance(60) {
			g.emit(fmt.Sprintf("fmint %s %doth", g.user(), 1+rng.Intn(300)))
		}
		g.emit(g.genAdd("mka"))
		if rng.Chance(45) {
			g.emit(g.genAdd("mkb"))
		}
		for g.n < steps {
			g.step()
		}
		switch {
		case g.n < 16:
			out.Count("hist_len:12-15")
		case g.n < 24:
			out.Count("hist_len:16-23")
		case g.n < 32:
			out.Count("hist_len:24-31")
		default:
			out.Count("hist_len:32+")
		}
	}
}
