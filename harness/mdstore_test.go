package harness

import (
	"context"
	"encoding/hex"
	"errors"
	"fmt"
	"sort"
	"strings"
	"sync"
	"testing"

	"github.com/google/uuid"

	storetypes "cosmossdk.io/store/types"

	sdk "github.com/cosmos/cosmos-sdk/types"
	sdkerrors "github.com/cosmos/cosmos-sdk/types/errors"

	"github.com/provenance-io/provenance/app"
	mdkeeper "github.com/provenance-io/provenance/x/metadata/keeper"
	mdtypes "github.com/provenance-io/provenance/x/metadata/types"
)

// Model "mdstore" (C14): histories of metadata messages on the REAL metadata msg server and
// keeper of a real app (real bank keeper for the value-owner coin).  After every op the whole
// store and every lookup (keeper iterators / queries) is dumped canonically.

func init() {
	drivers["mdstore"] = driveMdStore
	replayers["mdstore"] = replayMdStore
}

var (
	mdsAccNames = []string{"A", "B", "C", "D"}
	// every account has two SPELLINGS: "A" is the lower-case bech32 text (what AccAddress.String()
	// prints), "A^" the all-upper-case bech32 text of the same bytes.  sdk.AccAddressFromBech32 and
	// every ValidateBasic accept both; they are different strings that denote the same account.
	mdsSpell      = []string{"A", "B", "C", "D", "A^", "B^", "C^", "D^"}
	mdsScopes     = []string{"s1", "s2", "s3"}
	mdsSessions   = []string{"x1", "x2", "x3"}
	mdsScopeSpecs = []string{"p1", "p2"}
	mdsCSpecs     = []string{"c1", "c2", "c3"}
	mdsNames      = []string{"n1", "N1", "n2", "N2", "n3"}
)

type mdsEnv struct {
	t    *testing.T
	app  *app.App
	base sdk.Context
	ctx  sdk.Context
	k    mdkeeper.Keeper
	srv  mdtypes.MsgServer

	acc      map[string]string // symbol -> bech32
	accAddr  map[string]sdk.AccAddress
	accSym   map[string]string    // bech32 -> symbol
	uid      map[string]uuid.UUID // symbol -> uuid
	uidSym   map[string]string    // kind ":" uuid string -> symbol (uuids of different kinds may coincide)
	recSym   map[string]string    // hex record address -> "s1/n1"
	rspecSym map[string]string    // hex record spec address -> "c1/n1"
	signers  []string
}

var (
	mdsOnce sync.Once
	mdsE    *mdsEnv
)

// mdsUUID: the uuid of the i-th symbol of a kind.  The LAST symbol of each kind has a boundary
// uuid: all-zero (uuid.Nil; a valid uuid for every address type) for the third session and the
// third contract specification, all-0xff (the prefix whose end bound needs a carry) for the third
// scope and the second scope specification.
func mdsUUID(kind string, i int) uuid.UUID {
	var u uuid.UUID
	switch {
	case (kind == "session" || kind == "cspec") && i == 3:
		return u
	case (kind == "scope" && i == 3) || (kind == "sspec" && i == 2):
		for j := range u {
			u[j] = 0xff
		}
		return u
	}
	copy(u[:], []byte(fmt.Sprintf("vf-%-8s-%04d", kind, i)))
	return u
}

func mdsSetup(t *testing.T) *mdsEnv {
	mdsOnce.Do(func() {
		a, ctx := NewApp(t)
		e := &mdsEnv{t: t, app: a, k: a.MetadataKeeper, srv: mdkeeper.NewMsgServerImpl(a.MetadataKeeper),
			acc: map[string]string{}, accAddr: map[string]sdk.AccAddress{}, accSym: map[string]string{},
			uid: map[string]uuid.UUID{}, uidSym: map[string]string{}, recSym: map[string]string{}, rspecSym: map[string]string{}}
		for _, n := range mdsAccNames {
			ad := sdk.AccAddress([]byte("verif_mdst_account_" + n))
			// a non-zero sequence: otherwise metadata's isWasmAccount treats it as a smart contract
			acc := a.AccountKeeper.NewAccountWithAddress(ctx, ad)
			_ = acc.SetSequence(5)
			a.AccountKeeper.SetAccount(ctx, acc)
			e.acc[n] = ad.String()
			e.accAddr[n] = ad
			e.accSym[ad.String()] = n
			up := strings.ToUpper(ad.String())
			if got, err := sdk.AccAddressFromBech32(up); err != nil || !got.Equals(ad) {
				t.Fatalf("upper-case bech32 spelling of %s is not accepted: %v", n, err)
			}
			e.acc[n+"^"] = up
			e.accSym[up] = n + "^"
		}
		// every account signs every message, under both spellings (signer/party association in
		// x/metadata/keeper/signers.go compares the TEXT of the addresses)
		for _, n := range mdsSpell {
			e.signers = append(e.signers, e.acc[n])
		}
		reg := func(kind string, syms []string) {
			for i, s := range syms {
				u := mdsUUID(kind, i+1)
				e.uid[s] = u
				e.uidSym[kind+":"+u.String()] = s
			}
		}
		reg("scope", mdsScopes)
		reg("session", mdsSessions)
		reg("sspec", mdsScopeSpecs)
		reg("cspec", mdsCSpecs)
		seen := map[string]string{}
		for _, n := range mdsNames {
			norm := strings.ToLower(strings.TrimSpace(n))
			for _, s := range mdsScopes {
				h := hex.EncodeToString(mdtypes.RecordMetadataAddress(e.uid[s], n))
				e.recSym[h] = s + "/" + norm
				if prev, ok := seen[h]; ok && prev != s+"/"+norm {
					t.Fatalf("record address collision %s %s", prev, s+"/"+norm)
				}
				seen[h] = s + "/" + norm
			}
			for _, c := range mdsCSpecs {
				h := hex.EncodeToString(mdtypes.RecordSpecMetadataAddress(e.uid[c], n))
				e.rspecSym[h] = c + "/" + norm
			}
		}
		e.base = ctx
		mdsE = e
	})
	mdsE.t = t
	return mdsE
}

func (e *mdsEnv) newHistory() { e.ctx, _ = e.base.CacheContext() }

func (e *mdsEnv) addrs(l string) []string {
	if l == "-" || l == "" {
		return nil
	}
	var out []string
	for _, s := range strings.Split(l, "|") {
		a, ok := e.acc[s]
		if !ok {
			panic("unknown account " + s)
		}
		out = append(out, a)
	}
	return out
}

func (e *mdsEnv) parties(l string) []mdtypes.Party {
	var ps []mdtypes.Party
	for _, a := range e.addrs(l) {
		ps = append(ps, mdtypes.Party{Address: a, Role: mdtypes.PartyType_PARTY_TYPE_OWNER})
	}
	return ps
}

func (e *mdsEnv) u(sym string) uuid.UUID {
	u, ok := e.uid[sym]
	if !ok {
		panic("unknown id " + sym)
	}
	return u
}

func mdsKV(ws []string, k string) string {
	for _, w := range ws {
		if strings.HasPrefix(w, k+"=") {
			return w[len(k)+1:]
		}
	}
	return "-"
}

func mdsErrClass(err error) string {
	switch {
	case errors.Is(err, sdkerrors.ErrNotFound):
		return "err:notfound"
	case errors.Is(err, sdkerrors.ErrInvalidRequest):
		return "err:invalid"
	default:
		return "err:other"
	}
}

type mdsMsg interface {
	ValidateBasic() error
}

// regRecord / regSession extend the symbol tables for the names / session symbols of a bulk line.
func (e *mdsEnv) regRecord(scope, name string) {
	h := hex.EncodeToString(mdtypes.RecordMetadataAddress(e.u(scope), name))
	sym := scope + "/" + strings.ToLower(strings.TrimSpace(name))
	if prev, ok := e.recSym[h]; ok && prev != sym {
		panic("record address collision " + prev + " " + sym)
	}
	e.recSym[h] = sym
}

func (e *mdsEnv) regRSpec(cspec, name string) {
	h := hex.EncodeToString(mdtypes.RecordSpecMetadataAddress(e.u(cspec), name))
	sym := cspec + "/" + strings.ToLower(strings.TrimSpace(name))
	if prev, ok := e.rspecSym[h]; ok && prev != sym {
		panic("record spec address collision " + prev + " " + sym)
	}
	e.rspecSym[h] = sym
}

func (e *mdsEnv) regSession(sym string) {
	if _, ok := e.uid[sym]; ok {
		return
	}
	var u uuid.UUID
	copy(u[:], []byte(fmt.Sprintf("vf-bulk-%-8s", sym)))
	if prev, ok := e.uidSym["session:"+u.String()]; ok && prev != sym {
		panic("session uuid collision " + prev + " " + sym)
	}
	e.uid[sym] = u
	e.uidSym["session:"+u.String()] = sym
}

// exec executes one line: one op, or a bulk line that abbreviates a sequence of messages, each
// executed (and rolled back on failure) on its own; then dumps the state.
//
//	wrecs <s> <x> <prefix> <from> <count> spec=..            = wrec <s> <x> <prefix><i> spec=..
//	wsesss <s> <prefix> <from> <count> spec=.. parties=.. name=..  = wsess <s> <prefix><i> spec=.. ..
//	wrspecs <c> <prefix> <from> <count>                      = wrspec <c> <prefix><i>
func (e *mdsEnv) exec(op string) string {
	ws := strings.Fields(op)
	if ws[0] == "wrecs" || ws[0] == "wsesss" || ws[0] == "wrspecs" {
		var from, count int
		var one func(i int) string
		if ws[0] == "wrspecs" {
			fmt.Sscan(ws[3], &from)
			fmt.Sscan(ws[4], &count)
			one = func(i int) string {
				name := fmt.Sprintf("%s%d", ws[2], i)
				e.regRSpec(ws[1], name)
				return "wrspec " + ws[1] + " " + name
			}
		} else if ws[0] == "wrecs" {
			fmt.Sscan(ws[4], &from)
			fmt.Sscan(ws[5], &count)
			one = func(i int) string {
				name := fmt.Sprintf("%s%d", ws[3], i)
				e.regRecord(ws[1], name)
				return "wrec " + ws[1] + " " + ws[2] + " " + name + " " + strings.Join(ws[6:], " ")
			}
		} else {
			fmt.Sscan(ws[3], &from)
			fmt.Sscan(ws[4], &count)
			one = func(i int) string {
				sym := fmt.Sprintf("%s%d", ws[2], i)
				e.regSession(sym)
				return "wsess " + ws[1] + " " + sym + " " + strings.Join(ws[5:], " ")
			}
		}
		okN := 0
		for i := from; i < from+count; i++ {
			if e.run1(one(i)) == "ok" {
				okN++
			}
		}
		res := "ok"
		if okN != count {
			res = fmt.Sprintf("some:%d", okN)
		}
		return res + " " + e.dump()
	}
	res := e.run1(op)
	if res == "bad-op" {
		return res
	}
	return res + " " + e.dump()
}

// run1 executes one op on the real msg server / keeper (cached context, written on success only).
func (e *mdsEnv) run1(op string) string {
	ws := strings.Fields(op)
	var run func(ctx sdk.Context) error
	// msg runs ValidateBasic first (as baseapp does), then the real handler.
	msg := func(m mdsMsg, h func(ctx context.Context) error) {
		run = func(ctx sdk.Context) error {
			if err := m.ValidateBasic(); err != nil {
				return sdkerrors.ErrInvalidRequest.Wrap(err.Error())
			}
			return h(ctx)
		}
	}
	switch ws[0] {
	case "wsspec":
		var cs []mdtypes.MetadataAddress
		if l := mdsKV(ws, "cspecs"); l != "-" {
			for _, c := range strings.Split(l, "|") {
				cs = append(cs, mdtypes.ContractSpecMetadataAddress(e.u(c)))
			}
		}
		m := &mdtypes.MsgWriteScopeSpecificationRequest{Signers: e.signers, Specification: mdtypes.ScopeSpecification{
			SpecificationId: mdtypes.ScopeSpecMetadataAddress(e.u(ws[1])), OwnerAddresses: e.addrs(mdsKV(ws, "owners")),
			PartiesInvolved: []mdtypes.PartyType{mdtypes.PartyType_PARTY_TYPE_OWNER}, ContractSpecIds: cs}}
		msg(m, func(ctx context.Context) error { _, err := e.srv.WriteScopeSpecification(ctx, m); return err })
	case "dsspec":
		m := &mdtypes.MsgDeleteScopeSpecificationRequest{Signers: e.signers, SpecificationId: mdtypes.ScopeSpecMetadataAddress(e.u(ws[1]))}
		msg(m, func(ctx context.Context) error { _, err := e.srv.DeleteScopeSpecification(ctx, m); return err })
	case "wcspec":
		m := &mdtypes.MsgWriteContractSpecificationRequest{Signers: e.signers, Specification: mdtypes.ContractSpecification{
			SpecificationId: mdtypes.ContractSpecMetadataAddress(e.u(ws[1])), OwnerAddresses: e.addrs(mdsKV(ws, "owners")),
			PartiesInvolved: []mdtypes.PartyType{mdtypes.PartyType_PARTY_TYPE_OWNER},
			Source:          mdtypes.NewContractSpecificationSourceHash("sourcehash"), ClassName: "cls-" + ws[1]}}
		msg(m, func(ctx context.Context) error { _, err := e.srv.WriteContractSpecification(ctx, m); return err })
	case "dcspec":
		m := &mdtypes.MsgDeleteContractSpecificationRequest{Signers: e.signers, SpecificationId: mdtypes.ContractSpecMetadataAddress(e.u(ws[1]))}
		msg(m, func(ctx context.Context) error { _, err := e.srv.DeleteContractSpecification(ctx, m); return err })
	case "addcs":
		m := &mdtypes.MsgAddContractSpecToScopeSpecRequest{Signers: e.signers,
			ContractSpecificationId: mdtypes.ContractSpecMetadataAddress(e.u(ws[1])), ScopeSpecificationId: mdtypes.ScopeSpecMetadataAddress(e.u(ws[2]))}
		msg(m, func(ctx context.Context) error { _, err := e.srv.AddContractSpecToScopeSpec(ctx, m); return err })
	case "rmcs":
		m := &mdtypes.MsgDeleteContractSpecFromScopeSpecRequest{Signers: e.signers,
			ContractSpecificationId: mdtypes.ContractSpecMetadataAddress(e.u(ws[1])), ScopeSpecificationId: mdtypes.ScopeSpecMetadataAddress(e.u(ws[2]))}
		msg(m, func(ctx context.Context) error { _, err := e.srv.DeleteContractSpecFromScopeSpec(ctx, m); return err })
	case "wrspec":
		m := &mdtypes.MsgWriteRecordSpecificationRequest{Signers: e.signers, Specification: mdtypes.RecordSpecification{
			SpecificationId: mdtypes.RecordSpecMetadataAddress(e.u(ws[1]), ws[2]), Name: ws[2], TypeName: "typ",
			ResultType:         mdtypes.DefinitionType_DEFINITION_TYPE_RECORD,
			ResponsibleParties: []mdtypes.PartyType{mdtypes.PartyType_PARTY_TYPE_OWNER}}}
		msg(m, func(ctx context.Context) error { _, err := e.srv.WriteRecordSpecification(ctx, m); return err })
	case "drspec":
		m := &mdtypes.MsgDeleteRecordSpecificationRequest{Signers: e.signers, SpecificationId: mdtypes.RecordSpecMetadataAddress(e.u(ws[1]), ws[2])}
		msg(m, func(ctx context.Context) error { _, err := e.srv.DeleteRecordSpecification(ctx, m); return err })
	case "wscope":
		vo := ""
		if v := mdsKV(ws, "vo"); v != "-" {
			vo = e.acc[v]
		}
		var mills uint64
		fmt.Sscan(mdsKV(ws, "mills"), &mills)
		m := &mdtypes.MsgWriteScopeRequest{Signers: e.signers, UsdMills: mills, Scope: mdtypes.Scope{
			ScopeId: mdtypes.ScopeMetadataAddress(e.u(ws[1])), SpecificationId: mdtypes.ScopeSpecMetadataAddress(e.u(mdsKV(ws, "spec"))),
			Owners: e.parties(mdsKV(ws, "owners")), DataAccess: e.addrs(mdsKV(ws, "da")), ValueOwnerAddress: vo}}
		msg(m, func(ctx context.Context) error { _, err := e.srv.WriteScope(ctx, m); return err })
	case "dscope":
		m := &mdtypes.MsgDeleteScopeRequest{Signers: e.signers, ScopeId: mdtypes.ScopeMetadataAddress(e.u(ws[1]))}
		msg(m, func(ctx context.Context) error { _, err := e.srv.DeleteScope(ctx, m); return err })
	case "addda":
		m := &mdtypes.MsgAddScopeDataAccessRequest{Signers: e.signers, ScopeId: mdtypes.ScopeMetadataAddress(e.u(ws[1])), DataAccess: e.addrs(ws[2])}
		msg(m, func(ctx context.Context) error { _, err := e.srv.AddScopeDataAccess(ctx, m); return err })
	case "rmda":
		m := &mdtypes.MsgDeleteScopeDataAccessRequest{Signers: e.signers, ScopeId: mdtypes.ScopeMetadataAddress(e.u(ws[1])), DataAccess: e.addrs(ws[2])}
		msg(m, func(ctx context.Context) error { _, err := e.srv.DeleteScopeDataAccess(ctx, m); return err })
	case "addown":
		m := &mdtypes.MsgAddScopeOwnerRequest{Signers: e.signers, ScopeId: mdtypes.ScopeMetadataAddress(e.u(ws[1])), Owners: e.parties(ws[2])}
		msg(m, func(ctx context.Context) error { _, err := e.srv.AddScopeOwner(ctx, m); return err })
	case "rmown":
		m := &mdtypes.MsgDeleteScopeOwnerRequest{Signers: e.signers, ScopeId: mdtypes.ScopeMetadataAddress(e.u(ws[1])), Owners: e.addrs(ws[2])}
		msg(m, func(ctx context.Context) error { _, err := e.srv.DeleteScopeOwner(ctx, m); return err })
	case "setvo":
		var ids []mdtypes.MetadataAddress
		if ws[1] != "-" {
			for _, s := range strings.Split(ws[1], "|") {
				ids = append(ids, mdtypes.ScopeMetadataAddress(e.u(s)))
			}
		}
		m := &mdtypes.MsgUpdateValueOwnersRequest{Signers: e.signers, ScopeIds: ids, ValueOwnerAddress: e.acc[ws[2]]}
		msg(m, func(ctx context.Context) error { _, err := e.srv.UpdateValueOwners(ctx, m); return err })
	case "migvo":
		m := &mdtypes.MsgMigrateValueOwnerRequest{Signers: e.signers, Existing: e.acc[ws[1]], Proposed: e.acc[ws[2]]}
		msg(m, func(ctx context.Context) error { _, err := e.srv.MigrateValueOwner(ctx, m); return err })
	case "wsess":
		name := mdsKV(ws, "name")
		if name == "-" {
			name = ""
		}
		m := &mdtypes.MsgWriteSessionRequest{Signers: e.signers, Session: mdtypes.Session{
			SessionId: mdtypes.SessionMetadataAddress(e.u(ws[1]), e.u(ws[2])), SpecificationId: mdtypes.ContractSpecMetadataAddress(e.u(mdsKV(ws, "spec"))),
			Parties: e.parties(mdsKV(ws, "parties")), Name: name}}
		msg(m, func(ctx context.Context) error { _, err := e.srv.WriteSession(ctx, m); return err })
	case "wrec":
		var spec mdtypes.MetadataAddress
		if g := mdsKV(ws, "spec"); g != "-" {
			p := strings.SplitN(g, "/", 2)
			spec = mdtypes.RecordSpecMetadataAddress(e.u(p[0]), p[1])
		}
		m := &mdtypes.MsgWriteRecordRequest{Signers: e.signers, Record: mdtypes.Record{
			Name: ws[3], SessionId: mdtypes.SessionMetadataAddress(e.u(ws[1]), e.u(ws[2])), SpecificationId: spec,
			Process: mdtypes.Process{Name: "proc", Method: "meth", ProcessId: &mdtypes.Process_Hash{Hash: "prochash"}},
			Outputs: []mdtypes.RecordOutput{{Hash: "outhash", Status: mdtypes.ResultStatus_RESULT_STATUS_PASS}}}}
		msg(m, func(ctx context.Context) error { _, err := e.srv.WriteRecord(ctx, m); return err })
	case "drec":
		m := &mdtypes.MsgDeleteRecordRequest{Signers: e.signers, RecordId: mdtypes.RecordMetadataAddress(e.u(ws[1]), ws[2])}
		msg(m, func(ctx context.Context) error { _, err := e.srv.DeleteRecord(ctx, m); return err })
	case "addnav":
		m := &mdtypes.MsgAddNetAssetValuesRequest{Signers: e.signers, ScopeId: mdtypes.ScopeMetadataAddress(e.u(ws[1])).String(),
			NetAssetValues: []mdtypes.NetAssetValue{mdtypes.NewNetAssetValue(sdk.NewInt64Coin(mdtypes.UsdDenom, 1234), 1)}}
		msg(m, func(ctx context.Context) error { _, err := e.srv.AddNetAssetValues(ctx, m); return err })
	case "krmsess":
		run = func(ctx sdk.Context) error {
			e.k.RemoveSession(ctx, mdtypes.SessionMetadataAddress(e.u(ws[1]), e.u(ws[2])))
			return nil
		}
	default:
		return "bad-op"
	}
	err, pan := Try(e.ctx, run)
	res := "ok"
	if pan != "" {
		res = "panic:" + pan
	} else if err != nil {
		res = mdsErrClass(err)
	}
	return res
}

// ---- canonical dump of the implementation's state and lookups ----

func (e *mdsEnv) symU(ma mdtypes.MetadataAddress) string {
	u, err := ma.PrimaryUUID()
	if err != nil {
		return "?" + hex.EncodeToString(ma)
	}
	kind := "scope"
	if len(ma) > 0 {
		switch ma[0] {
		case mdtypes.ContractSpecificationKeyPrefix[0], mdtypes.RecordSpecificationKeyPrefix[0]:
			kind = "cspec"
		case mdtypes.ScopeSpecificationKeyPrefix[0]:
			kind = "sspec"
		}
	}
	if s, ok := e.uidSym[kind+":"+u.String()]; ok {
		return s
	}
	return "?" + u.String()
}

func (e *mdsEnv) symSession(ma mdtypes.MetadataAddress) string {
	u2, err := ma.SecondaryUUID()
	if err != nil {
		return "?" + hex.EncodeToString(ma)
	}
	s2, ok := e.uidSym["session:"+u2.String()]
	if !ok {
		s2 = "?" + u2.String()
	}
	return e.symU(ma) + "/" + s2
}

func (e *mdsEnv) symRec(ma mdtypes.MetadataAddress) string {
	if s, ok := e.recSym[hex.EncodeToString(ma)]; ok {
		return s
	}
	return "?" + hex.EncodeToString(ma)
}

func (e *mdsEnv) symRSpec(ma mdtypes.MetadataAddress) string {
	if s, ok := e.rspecSym[hex.EncodeToString(ma)]; ok {
		return s
	}
	return "?" + hex.EncodeToString(ma)
}

func (e *mdsEnv) symAccs(l []string) string {
	if len(l) == 0 {
		return "-"
	}
	out := make([]string, len(l))
	for i, a := range l {
		s, ok := e.accSym[a]
		if !ok {
			s = "?" + a
		}
		out[i] = s
	}
	return strings.Join(out, "+")
}

func mdsSection(xs []string) string {
	if len(xs) == 0 {
		return "-"
	}
	sort.Strings(xs)
	return strings.Join(xs, ",")
}

// rawCount counts the entries stored under one key prefix of the metadata store.
func (e *mdsEnv) rawCount(prefix []byte) int {
	store := e.ctx.KVStore(e.app.GetKey(mdtypes.StoreKey))
	it := storetypes.KVStorePrefixIterator(store, prefix)
	defer it.Close()
	n := 0
	for ; it.Valid(); it.Next() {
		n++
	}
	return n
}

func (e *mdsEnv) dump() string {
	ctx := e.ctx
	k := e.k
	var sc, se, re, sp, cs, rs, ia, is, ip, ic, io, vo, nav []string
	_ = k.IterateScopes(ctx, func(s mdtypes.Scope) bool {
		var owners []string
		for _, p := range s.Owners {
			owners = append(owners, p.Address)
		}
		sc = append(sc, e.symU(s.ScopeId)+":"+e.symU(s.SpecificationId)+":"+e.symAccs(owners)+":"+e.symAccs(s.DataAccess))
		return false
	})
	_ = k.IterateSessions(ctx, mdtypes.MetadataAddress{}, func(s mdtypes.Session) bool {
		var ps []string
		for _, p := range s.Parties {
			ps = append(ps, p.Address)
		}
		name := s.Name
		if name == "" {
			name = "-"
		}
		se = append(se, e.symSession(s.SessionId)+":"+e.symU(s.SpecificationId)+":"+e.symAccs(ps)+":"+name)
		return false
	})
	// records are listed by their STORE KEY (the record address), not by a recomputed id
	{
		store := ctx.KVStore(e.app.GetKey(mdtypes.StoreKey))
		it := storetypes.KVStorePrefixIterator(store, mdtypes.RecordKeyPrefix)
		for ; it.Valid(); it.Next() {
			r, found := k.GetRecord(ctx, it.Key())
			if !found {
				re = append(re, "?unreadable"+hex.EncodeToString(it.Key()))
				continue
			}
			re = append(re, e.symRec(it.Key())+":"+r.Name+":"+e.symSession(r.SessionId)+":"+e.symRSpec(r.SpecificationId))
		}
		it.Close()
	}
	_ = k.IterateScopeSpecs(ctx, func(s mdtypes.ScopeSpecification) bool {
		var cids []string
		for _, c := range s.ContractSpecIds {
			cids = append(cids, e.symU(c))
		}
		c := "-"
		if len(cids) > 0 {
			c = strings.Join(cids, "+")
		}
		sp = append(sp, e.symU(s.SpecificationId)+":"+e.symAccs(s.OwnerAddresses)+":"+c)
		return false
	})
	_ = k.IterateContractSpecs(ctx, func(s mdtypes.ContractSpecification) bool {
		cs = append(cs, e.symU(s.SpecificationId)+":"+e.symAccs(s.OwnerAddresses))
		return false
	})
	_ = k.IterateRecordSpecs(ctx, func(s mdtypes.RecordSpecification) bool {
		rs = append(rs, e.symRSpec(s.SpecificationId)+":"+s.Name)
		return false
	})
	// lookups, through the keeper's iterators, for every address / spec id of the universe
	for _, n := range mdsAccNames {
		ad := e.accAddr[n]
		_ = k.IterateScopesForAddress(ctx, ad, func(id mdtypes.MetadataAddress) bool { ia = append(ia, n+":"+e.symU(id)); return false })
		_ = k.IterateScopeSpecsForOwner(ctx, ad, func(id mdtypes.MetadataAddress) bool { ip = append(ip, n+":"+e.symU(id)); return false })
		_ = k.IterateContractSpecsForOwner(ctx, ad, func(id mdtypes.MetadataAddress) bool { io = append(io, n+":"+e.symU(id)); return false })
		resp, err := k.ValueOwnership(ctx, &mdtypes.ValueOwnershipRequest{Address: ad.String()})
		if err != nil {
			vo = append(vo, "?err:"+n)
		} else {
			for _, us := range resp.ScopeUuids {
				s, ok := e.uidSym["scope:"+us]
				if !ok {
					s = "?" + us
				}
				vo = append(vo, s+":"+n)
			}
		}
	}
	for _, p := range mdsScopeSpecs {
		_ = k.IterateScopesForScopeSpec(ctx, mdtypes.ScopeSpecMetadataAddress(e.u(p)), func(id mdtypes.MetadataAddress) bool {
			is = append(is, p+":"+e.symU(id))
			return false
		})
	}
	for _, c := range mdsCSpecs {
		_ = k.IterateScopeSpecsForContractSpec(ctx, mdtypes.ContractSpecMetadataAddress(e.u(c)), func(id mdtypes.MetadataAddress) bool {
			ic = append(ic, c+":"+e.symU(id))
			return false
		})
	}
	for _, s := range mdsScopes {
		id := mdtypes.ScopeMetadataAddress(e.u(s))
		_ = k.IterateNetAssetValues(ctx, id, func(n mdtypes.NetAssetValue) bool { nav = append(nav, s+":"+n.Price.Denom); return false })
		// the per-scope value-owner getter must agree with the by-owner lookup
		a, err := k.GetScopeValueOwner(ctx, id)
		if err != nil {
			vo = append(vo, "?err:"+s)
		} else if len(a) > 0 {
			ent := s + ":" + e.symAccs([]string{a.String()})
			found := false
			for _, v := range vo {
				found = found || v == ent
			}
			if !found {
				vo = append(vo, ent, "?getter-only:"+ent)
			}
		}
	}
	// entries stored under an index prefix that no universe lookup returned
	extra := func(name string, prefix []byte, listed int, xs *[]string) {
		if n := e.rawCount(prefix); n != listed {
			*xs = append(*xs, fmt.Sprintf("?raw%s:%d", name, n))
		}
	}
	extra("ia", mdtypes.AddressScopeCacheKeyPrefix, len(ia), &ia)
	extra("is", mdtypes.ScopeSpecScopeCacheKeyPrefix, len(is), &is)
	extra("ip", mdtypes.AddressScopeSpecCacheKeyPrefix, len(ip), &ip)
	extra("ic", mdtypes.ContractSpecScopeSpecCacheKeyPrefix, len(ic), &ic)
	extra("io", mdtypes.AddressContractSpecCacheKeyPrefix, len(io), &io)
	extra("nav", mdtypes.NetAssetValuePrefix, len(nav), &nav)
	return "sc=" + mdsSection(sc) + " se=" + mdsSection(se) + " re=" + mdsSection(re) + " sp=" + mdsSection(sp) +
		" cs=" + mdsSection(cs) + " rs=" + mdsSection(rs) + " ia=" + mdsSection(ia) + " is=" + mdsSection(is) +
		" ip=" + mdsSection(ip) + " ic=" + mdsSection(ic) + " io=" + mdsSection(io) + " vo=" + mdsSection(vo) +
		" nav=" + mdsSection(nav)
}

// ---- generator ----

func mdsSubset(r *RNG, xs []string, allowEmpty bool, dupPct int) string {
	var out []string
	for _, x := range xs {
		if r.Chance(45) {
			out = append(out, x)
		}
	}
	if len(out) == 0 && !allowEmpty {
		out = append(out, Pick(r, xs))
	}
	// order matters for the stored content: shuffle a little
	if len(out) > 1 && r.Bool() {
		out[0], out[len(out)-1] = out[len(out)-1], out[0]
	}
	if len(out) > 0 && r.Chance(dupPct) {
		out = append(out, out[0])
	}
	if len(out) == 0 {
		return "-"
	}
	return strings.Join(out, "|")
}

// mdsOther is the other spelling of the same account ("A" <-> "A^").
func mdsOther(a string) string {
	if strings.HasSuffix(a, "^") {
		return strings.TrimSuffix(a, "^")
	}
	return a + "^"
}

// mdsSp spells an account: mostly the usual lower-case text, sometimes the upper-case one.
func mdsSp(r *RNG, a string) string {
	if r.Chance(22) {
		return mdsOther(a)
	}
	return a
}

// mdsAddrSubset is mdsSubset over the accounts where every chosen account is spelled at random
// and, now and then, named a second time under its other spelling (a different string: the
// text-based duplicate checks accept it).
func mdsAddrSubset(r *RNG, allowEmpty bool, dupPct int) string {
	l := mdsSubset(r, mdsAccNames, allowEmpty, dupPct)
	if l == "-" {
		return l
	}
	xs := strings.Split(l, "|")
	for i := range xs {
		xs[i] = mdsSp(r, xs[i])
	}
	if r.Chance(12) {
		xs = append(xs, mdsOther(Pick(r, xs)))
	}
	return strings.Join(xs, "|")
}

// mdsRespell keeps the accounts of a stored list and changes the spelling of some of them
// (at least one): same accounts, different text.
func mdsRespell(r *RNG, xs []string) string {
	if len(xs) == 0 {
		return "-"
	}
	out := append([]string{}, xs...)
	k := r.Intn(len(out))
	for i := range out {
		if i == k || r.Chance(25) {
			out[i] = mdsOther(out[i])
		}
	}
	return strings.Join(out, "|")
}

// mdsMult re-writes a stored list keeping (most of) its distinct entries but with other
// MULTIPLICITIES: nothing rejects an id / address text that is listed more than once (contract
// specification ids and owners of a specification, data access of a scope), so "the stored content
// names X" does not change when X is listed twice instead of once, or once instead of three times.
// Every distinct entry is listed 1, 2 or 3 times (now and then dropped), in a shuffled order; an
// entry that was stored more than once is listed fewer times (but still listed) more often than not.
func mdsMult(r *RNG, xs []string, keepOne bool) string {
	if len(xs) == 0 {
		return "-"
	}
	var distinct []string
	cnt := map[string]int{}
	for _, x := range xs {
		if cnt[x] == 0 {
			distinct = append(distinct, x)
		}
		cnt[x]++
	}
	var out []string
	for _, x := range distinct {
		m := 1
		switch k := r.Intn(100); {
		case k < 8:
			m = 0
		case k < 55:
			m = 1
		case k < 85:
			m = 2
		default:
			m = 3
		}
		if cnt[x] > 1 && r.Chance(60) {
			m = 1 + r.Intn(cnt[x]-1) // fewer, still at least once
		}
		for i := 0; i < m; i++ {
			out = append(out, x)
		}
	}
	if len(out) == 0 {
		if !keepOne {
			return "-"
		}
		out = append(out, Pick(r, distinct))
	}
	for i := len(out) - 1; i > 0; i-- {
		j := r.Intn(i + 1)
		out[i], out[j] = out[j], out[i]
	}
	return strings.Join(out, "|")
}

// mdsRepeat lists some entries of a "|" list a second or third time (in place and at the end).
func mdsRepeat(r *RNG, l string) string {
	if l == "-" || l == "" {
		return l
	}
	xs := strings.Split(l, "|")
	var out []string
	for _, x := range xs {
		out = append(out, x)
		if r.Chance(30) {
			out = append(out, x)
		}
	}
	if r.Chance(40) {
		out = append(out, Pick(r, xs))
	}
	return strings.Join(out, "|")
}

// mdsHasRepeat says whether a "|" list names an entry more than once.
func mdsHasRepeat(l string) bool {
	seen := map[string]bool{}
	for _, x := range strings.Split(l, "|") {
		if seen[x] {
			return true
		}
		seen[x] = true
	}
	return false
}

// mdsSnap is what the generator looks at to aim ops at existing entries (read from the real keeper).
type mdsSnap struct {
	scopes   []string
	owners   map[string][]string
	da       map[string][]string
	vo       map[string]string
	sessions [][2]string // scope, session
	sessSpec map[[2]string]string // (scope, session) -> contract spec
	records  [][3]string // scope, session, name
	spec     map[string]string   // scope -> scope spec
	cspecs   []string            // stored contract specs
	csOwners map[string][]string // contract spec -> owners (as spelled in the store)
	sspecs   []string
	ssOwners map[string][]string
	ssCSpecs map[string][]string
}

func (e *mdsEnv) snapshot() mdsSnap {
	sn := mdsSnap{owners: map[string][]string{}, da: map[string][]string{}, vo: map[string]string{}, spec: map[string]string{},
		csOwners: map[string][]string{}, ssOwners: map[string][]string{}, ssCSpecs: map[string][]string{}, sessSpec: map[[2]string]string{}}
	syms := func(l []string) []string {
		var out []string
		for _, a := range l {
			out = append(out, e.accSym[a])
		}
		return out
	}
	_ = e.k.IterateContractSpecs(e.ctx, func(cs mdtypes.ContractSpecification) bool {
		id := e.symU(cs.SpecificationId)
		sn.cspecs = append(sn.cspecs, id)
		sn.csOwners[id] = syms(cs.OwnerAddresses)
		return false
	})
	_ = e.k.IterateScopeSpecs(e.ctx, func(sp mdtypes.ScopeSpecification) bool {
		id := e.symU(sp.SpecificationId)
		sn.sspecs = append(sn.sspecs, id)
		sn.ssOwners[id] = syms(sp.OwnerAddresses)
		for _, c := range sp.ContractSpecIds {
			sn.ssCSpecs[id] = append(sn.ssCSpecs[id], e.symU(c))
		}
		return false
	})
	_ = e.k.IterateScopes(e.ctx, func(s mdtypes.Scope) bool {
		id := e.symU(s.ScopeId)
		sn.scopes = append(sn.scopes, id)
		sn.spec[id] = e.symU(s.SpecificationId)
		for _, p := range s.Owners {
			sn.owners[id] = append(sn.owners[id], e.accSym[p.Address])
		}
		for _, d := range s.DataAccess {
			sn.da[id] = append(sn.da[id], e.accSym[d])
		}
		if s.ValueOwnerAddress != "" {
			sn.vo[id] = e.accSym[s.ValueOwnerAddress]
		}
		return false
	})
	_ = e.k.IterateSessions(e.ctx, mdtypes.MetadataAddress{}, func(s mdtypes.Session) bool {
		p := strings.SplitN(e.symSession(s.SessionId), "/", 2)
		sn.sessions = append(sn.sessions, [2]string{p[0], p[1]})
		sn.sessSpec[[2]string{p[0], p[1]}] = e.symU(s.SpecificationId)
		return false
	})
	_ = e.k.IterateRecords(e.ctx, mdtypes.MetadataAddress{}, func(rec mdtypes.Record) bool {
		p := strings.SplitN(e.symSession(rec.SessionId), "/", 2)
		sn.records = append(sn.records, [3]string{p[0], p[1], rec.Name})
		return false
	})
	return sn
}

func mdsPickSome(r *RNG, xs []string) string {
	if len(xs) == 0 {
		return "-"
	}
	var out []string
	for _, x := range xs {
		if r.Chance(50) {
			out = append(out, x)
		}
	}
	if len(out) == 0 {
		out = append(out, Pick(r, xs))
	}
	return strings.Join(out, "|")
}

// mdsPickFew picks one to three of xs.
func mdsPickFew(r *RNG, xs []string) string {
	if len(xs) == 0 {
		return "-"
	}
	n := 1 + r.Intn(3)
	var out []string
	for i := 0; i < n; i++ {
		x := Pick(r, xs)
		dup := false
		for _, o := range out {
			dup = dup || o == x
		}
		if !dup {
			out = append(out, x)
		}
	}
	return strings.Join(out, "|")
}

func mdsMinus(all, have []string) []string {
	var out []string
	for _, a := range all {
		f := false
		for _, h := range have {
			f = f || a == h
		}
		if !f {
			out = append(out, a)
		}
	}
	return out
}

func (e *mdsEnv) genOp(r *RNG, boot bool, out *Out) string {
	s := Pick(r, mdsScopes)
	x := Pick(r, mdsSessions)
	p := Pick(r, mdsScopeSpecs)
	c := Pick(r, mdsCSpecs)
	n := Pick(r, mdsNames)
	if boot {
		// bias towards the small ids so that the pieces fit together
		if r.Chance(60) {
			s, x, p, c = "s1", Pick(r, mdsSessions[:2]), "p1", Pick(r, mdsCSpecs[:2])
			n = Pick(r, mdsNames[:3])
		}
	}
	aimed := r.Chance(65)
	var sn mdsSnap
	if aimed {
		sn = e.snapshot()
		if len(sn.scopes) > 0 {
			s = Pick(r, sn.scopes)
		}
	}
	switch k := r.Intn(1000); {
	case k < 60:
		if aimed && len(sn.cspecs) > 0 && r.Chance(35) {
			// rewrite a stored contract specification naming the same accounts under other spellings
			c = Pick(r, sn.cspecs)
			out.Count("gen:wcspec:respell")
			return "wcspec " + c + " owners=" + mdsRespell(r, sn.csOwners[c])
		}
		if aimed && len(sn.cspecs) > 0 && r.Chance(25) {
			// rewrite a stored contract specification with its owners listed other numbers of times
			c = Pick(r, sn.cspecs)
			out.Count("gen:wcspec:multiplicity")
			return "wcspec " + c + " owners=" + mdsMult(r, sn.csOwners[c], true)
		}
		if r.Chance(12) {
			return "wcspec " + c + " owners=" + mdsRepeat(r, mdsAddrSubset(r, false, 8))
		}
		return "wcspec " + c + " owners=" + mdsAddrSubset(r, r.Chance(4), 8)
	case k < 110:
		return "wrspec " + c + " " + n
	case k < 170:
		if aimed && len(sn.sspecs) > 0 && r.Chance(35) {
			p = Pick(r, sn.sspecs)
			out.Count("gen:wsspec:respell")
			return "wsspec " + p + " owners=" + mdsRespell(r, sn.ssOwners[p]) + " cspecs=" + JoinOr(sn.ssCSpecs[p], "|")
		}
		if aimed && len(sn.sspecs) > 0 && r.Chance(40) {
			// rewrite a stored scope specification with the entries of its contract-specification
			// list (and/or its owners) listed other numbers of times, in another order
			p = Pick(r, sn.sspecs)
			out.Count("gen:wsspec:multiplicity")
			owners, cs := strings.Join(sn.ssOwners[p], "|"), JoinOr(sn.ssCSpecs[p], "|")
			if len(sn.ssCSpecs[p]) == 0 || r.Chance(30) {
				owners = mdsMult(r, sn.ssOwners[p], true)
			}
			if len(sn.ssCSpecs[p]) > 0 && r.Chance(85) {
				cs = mdsMult(r, sn.ssCSpecs[p], false)
			}
			return "wsspec " + p + " owners=" + owners + " cspecs=" + cs
		}
		if r.Chance(25) {
			// a contract specification (an owner) listed more than once: nothing rejects that
			out.Count("gen:wsspec:repeated-entries")
			owners := mdsAddrSubset(r, false, 8)
			if r.Chance(25) {
				owners = mdsRepeat(r, owners)
			}
			return "wsspec " + p + " owners=" + owners + " cspecs=" + mdsRepeat(r, mdsSubset(r, mdsCSpecs, false, 8))
		}
		return "wsspec " + p + " owners=" + mdsAddrSubset(r, r.Chance(4), 8) + " cspecs=" + mdsSubset(r, mdsCSpecs, true, 8)
	case k < 290:
		vo := "-"
		if r.Chance(45) {
			vo = mdsSp(r, Pick(r, mdsAccNames))
		}
		mills := "0"
		if r.Chance(30) {
			mills = fmt.Sprint(1 + r.Intn(5000))
		}
		if aimed && r.Chance(25) && len(sn.owners[s]) > 0 {
			// the only change is the value owner
			out.Count("gen:wscope:only-value-owner")
			return "wscope " + s + " spec=" + p + " owners=" + strings.Join(sn.owners[s], "|") +
				" da=" + JoinOr(sn.da[s], "|") + " vo=" + mdsSp(r, Pick(r, mdsAccNames)) + " mills=0"
		}
		if aimed && r.Chance(20) && len(sn.owners[s]) > 0 {
			// the same scope with the same accounts, some of them under their other spelling
			out.Count("gen:wscope:respell")
			owners, da := strings.Join(sn.owners[s], "|"), JoinOr(sn.da[s], "|")
			if len(sn.da[s]) == 0 || r.Bool() {
				owners = mdsRespell(r, sn.owners[s])
			}
			if len(sn.da[s]) > 0 && r.Bool() {
				da = mdsRespell(r, sn.da[s])
			}
			return "wscope " + s + " spec=" + sn.spec[s] + " owners=" + owners + " da=" + da + " vo=" + vo + " mills=" + mills
		}
		if aimed && r.Chance(12) && len(sn.owners[s]) > 0 && len(sn.da[s]) > 0 {
			// the same scope with its data-access addresses listed other numbers of times
			out.Count("gen:wscope:multiplicity")
			return "wscope " + s + " spec=" + sn.spec[s] + " owners=" + strings.Join(sn.owners[s], "|") +
				" da=" + mdsMult(r, sn.da[s], false) + " vo=" + vo + " mills=" + mills
		}
		da := mdsAddrSubset(r, true, 6)
		if r.Chance(10) {
			da = mdsRepeat(r, da)
		}
		return "wscope " + s + " spec=" + p + " owners=" + mdsAddrSubset(r, r.Chance(3), 4) +
			" da=" + da + " vo=" + vo + " mills=" + mills
	case k < 390:
		name := "-"
		if r.Chance(75) {
			name = Pick(r, []string{"sess", "other"})
		}
		return "wsess " + s + " " + x + " spec=" + c + " parties=" + mdsAddrSubset(r, r.Chance(3), 4) + " name=" + name
	case k < 560:
		spec := "-"
		if r.Chance(25) {
			spec = Pick(r, mdsCSpecs) + "/" + Pick(r, mdsNames)
			if r.Chance(70) {
				spec = c + "/" + n
			}
		}
		if aimed && len(sn.sessions) > 0 {
			se := Pick(r, sn.sessions)
			s, x = se[0], se[1]
			if len(sn.records) > 0 && r.Chance(40) {
				// rewrite an existing record, possibly into another session of its scope (a move)
				rec := Pick(r, sn.records)
				n = rec[2]
				if r.Chance(25) {
					n = Pick(r, []string{strings.ToUpper(n), strings.ToLower(n)})
				}
				s = rec[0]
				for _, o := range sn.sessions {
					if o[0] == s && o[1] != rec[1] && r.Chance(60) {
						x = o[1]
						out.Count("gen:wrec:move")
					}
				}
			}
		}
		return "wrec " + s + " " + x + " " + n + " spec=" + spec
	case k < 640:
		if aimed && len(sn.records) > 0 {
			rec := Pick(r, sn.records)
			return "drec " + rec[0] + " " + rec[2]
		}
		return "drec " + s + " " + n
	case k < 710:
		return "dscope " + s
	case k < 745:
		if aimed {
			// addresses (spellings) not in the list yet: other accounts, or a listed account's other spelling
			l := mdsPickFew(r, mdsMinus(mdsSpell, sn.da[s]))
			if r.Chance(15) {
				l = mdsRepeat(r, l)
			}
			return "addda " + s + " " + l
		}
		return "addda " + s + " " + mdsAddrSubset(r, r.Chance(5), 10)
	case k < 780:
		if aimed {
			l := mdsPickSome(r, sn.da[s])
			if r.Chance(15) {
				l = mdsRepeat(r, l)
			}
			return "rmda " + s + " " + l
		}
		return "rmda " + s + " " + mdsAddrSubset(r, r.Chance(5), 10)
	case k < 815:
		if aimed {
			return "addown " + s + " " + mdsPickFew(r, mdsMinus(mdsSpell, sn.owners[s]))
		}
		return "addown " + s + " " + mdsAddrSubset(r, r.Chance(5), 10)
	case k < 850:
		if aimed {
			return "rmown " + s + " " + mdsPickSome(r, sn.owners[s])
		}
		return "rmown " + s + " " + mdsAddrSubset(r, r.Chance(5), 10)
	case k < 885:
		if aimed {
			var withVO []string
			for _, id := range sn.scopes {
				if sn.vo[id] != "" {
					withVO = append(withVO, id)
				}
			}
			if len(withVO) > 0 {
				return "setvo " + mdsPickSome(r, withVO) + " " + Pick(r, mdsAccNames)
			}
		}
		return "setvo " + mdsSubset(r, mdsScopes, r.Chance(5), 8) + " " + Pick(r, mdsAccNames)
	case k < 905:
		if aimed {
			for _, id := range sn.scopes {
				if sn.vo[id] != "" && r.Chance(70) {
					return "migvo " + sn.vo[id] + " " + Pick(r, mdsAccNames)
				}
			}
		}
		return "migvo " + Pick(r, mdsAccNames) + " " + Pick(r, mdsAccNames)
	case k < 925:
		return "dsspec " + p
	case k < 945:
		return "dcspec " + c
	case k < 958:
		return "drspec " + c + " " + n
	case k < 970:
		if aimed && len(sn.sspecs) > 0 && len(sn.cspecs) > 0 {
			p = Pick(r, sn.sspecs)
			if free := mdsMinus(sn.cspecs, sn.ssCSpecs[p]); len(free) > 0 && r.Chance(70) {
				c = Pick(r, free)
			}
		}
		return "addcs " + c + " " + p
	case k < 982:
		if aimed && len(sn.sspecs) > 0 {
			p = Pick(r, sn.sspecs)
			if len(sn.ssCSpecs[p]) > 0 && r.Chance(80) {
				c = Pick(r, sn.ssCSpecs[p])
			}
		}
		return "rmcs " + c + " " + p
	case k < 992:
		return "addnav " + s
	default:
		if aimed && len(sn.sessions) > 0 {
			se := Pick(r, sn.sessions)
			return "krmsess " + se[0] + " " + se[1]
		}
		return "krmsess " + s + " " + x
	}
}

// mdsBulkCount: how many sessions / records a LARGE scope gets: around the usual batch, page and
// buffer sizes (one below, exactly, one above, well above).
func mdsBulkCount(r *RNG) int {
	base := Pick(r, []int{16, 32, 50, 64, 100, 128, 200, 250, 256})
	switch r.Intn(4) {
	case 0:
		return base
	case 1:
		return base + 1
	case 2:
		return base + 1 + r.Intn(base/2)
	default:
		return base - 1 - r.Intn(3)
	}
}

// mdsLargeScope: lines that give an existing scope MANY records and / or sessions (in one
// session, spread over two sessions, record-less sessions, or both), a few random ops, and the
// deletion of that scope.  Nothing in the small universe of the other histories ever has more than
// five records or three sessions, so nothing that works in batches / pages ever sees a second one.
func (e *mdsEnv) mdsLargeScope(r *RNG, out *Out, emit func(string)) {
	sn := e.snapshot()
	if len(sn.sessions) == 0 {
		out.Count("gen:large:no-session")
		return
	}
	se := Pick(r, sn.sessions)
	s, x := se[0], se[1]
	cspec := "c1"
	if r.Chance(25) {
		cspec = Pick(r, mdsCSpecs)
	}
	n := mdsBulkCount(r)
	// a record needs the record specification of its name under its session's contract specification
	rspecs := func(x string, pfx string, from, cnt int) {
		c, ok := sn.sessSpec[[2]string{s, x}]
		if !ok {
			c = cspec
		}
		if r.Chance(95) {
			emit(fmt.Sprintf("wrspecs %s %s %d %d", c, pfx, from, cnt))
		}
	}
	switch k := r.Intn(4); k {
	case 0:
		out.Count("gen:large:records-one-session")
		rspecs(x, "k", 0, n)
		emit(fmt.Sprintf("wrecs %s %s k 0 %d spec=-", s, x, n))
	case 1:
		out.Count("gen:large:records-two-sessions")
		x2 := x
		for _, o := range sn.sessions {
			if o[0] == s && o[1] != x {
				x2 = o[1]
			}
		}
		if x2 == x {
			x2 = Pick(r, mdsMinus(mdsSessions, []string{x}))
			emit("wsess " + s + " " + x2 + " spec=" + cspec + " parties=" + mdsSp(r, "A") + " name=-")
			sn.sessSpec[[2]string{s, x2}] = cspec
		}
		h := 1 + r.Intn(n)
		rspecs(x, "k", 0, h)
		rspecs(x2, "k", h, n-h)
		emit(fmt.Sprintf("wrecs %s %s k 0 %d spec=-", s, x, h))
		emit(fmt.Sprintf("wrecs %s %s k %d %d spec=-", s, x2, h, n-h))
	case 2:
		out.Count("gen:large:recordless-sessions")
		emit(fmt.Sprintf("wsesss %s y 0 %d spec=%s parties=%s name=-", s, n, cspec, mdsSp(r, "A")))
	default:
		out.Count("gen:large:sessions-and-records")
		emit(fmt.Sprintf("wsesss %s y 0 %d spec=%s parties=%s name=%s", s, n, cspec, mdsSp(r, "A"), Pick(r, []string{"-", "sess"})))
		n2 := mdsBulkCount(r)
		rspecs(x, "k", 0, n2)
		emit(fmt.Sprintf("wrecs %s %s k 0 %d spec=-", s, x, n2))
		if r.Bool() {
			// records in some of the many sessions too
			y, m := r.Intn(n), 1+r.Intn(6)
			sn.sessSpec[[2]string{s, fmt.Sprintf("y%d", y)}] = cspec
			rspecs(fmt.Sprintf("y%d", y), "m", 0, m)
			emit(fmt.Sprintf("wrecs %s y%d m 0 %d spec=-", s, y, m))
		}
	}
	if n > 100 {
		out.Count("gen:large:over-100")
	}
	for i := r.Intn(4); i > 0; i-- {
		emit(e.genOp(r, true, out))
	}
	emit("dscope " + s)
}

// mdsBootstrap: a prefix that builds the specification tree and one scope so that the rest of
// the history mostly operates on existing entries.
func mdsBootstrap(r *RNG) []string {
	sp := func(a string) string { return mdsSp(r, a) }
	ops := []string{
		"wcspec c1 owners=" + sp("A"), "wcspec c2 owners=" + sp("A") + "|" + sp("B"),
		"wrspec c1 n1", "wrspec c1 n2", "wrspec c2 n1", "wrspec c2 n3",
		"wsspec p1 owners=" + sp("A") + " cspecs=" + Pick(r, []string{"c1|c2", "c1|c2", "c1|c2", "c1|c1|c2", "c2|c1|c2", "c1|c2|c2|c1"}),
	}
	if r.Bool() {
		ops = append(ops, "wsspec p2 owners="+sp("B")+"|"+sp("C")+" cspecs="+Pick(r, []string{"c1", "c1", "c1|c1", "c2|c1|c1"}))
	}
	da := sp("C")
	if r.Chance(20) {
		// an owner is also named in the data-access list, under its other spelling
		da += "|" + Pick(r, []string{"A^", "B^"})
	}
	ops = append(ops, "wscope s1 spec=p1 owners=A|"+sp("B")+" da="+da+" vo="+Pick(r, []string{"-", "D", "A", "D^"})+" mills="+Pick(r, []string{"0", "25"}))
	if r.Bool() {
		ops = append(ops, "wscope s2 spec=p1 owners="+sp("B")+" da=- vo=- mills=0")
	}
	ops = append(ops, "wsess s1 x1 spec=c1 parties="+sp("A")+" name=sess")
	if r.Bool() {
		ops = append(ops, "wsess s1 x2 spec=c1 parties="+sp("B")+" name=other")
	}
	if r.Bool() {
		ops = append(ops, "wrec s1 x1 n1 spec=-")
	}
	return ops
}

func driveMdStore(t *testing.T, rng *RNG, n int, out *Out) {
	e := mdsSetup(t)
	for h := 0; h < n; h++ {
		e.newHistory()
		out.Comment(fmt.Sprintf("history %d", h))
		emit := func(op string) {
			res := e.exec(op)
			kind := strings.Fields(op)[0]
			out.Count("op:" + kind)
			if strings.Contains(op, "^") {
				out.Count("gen:spelling:upper-case:" + kind)
			}
			for _, w := range strings.Fields(op)[1:] {
				if i := strings.Index(w, "="); strings.Contains(w, "|") && mdsHasRepeat(w[i+1:]) {
					out.Count("gen:repeated-entry:" + kind + ":" + strings.TrimSuffix(w[:i+1], "="))
				}
			}
			out.Count("res:" + strings.Fields(res)[0])
			out.Count("res:" + kind + ":" + strings.Fields(res)[0])
			out.Emit(op, res)
		}
		boot := rng.Chance(70)
		if boot {
			out.Count("history:bootstrapped")
			for _, op := range mdsBootstrap(rng) {
				emit(op)
			}
		} else {
			out.Count("history:cold")
		}
		steps := 8 + rng.Intn(18)
		if rng.Chance(5) {
			out.Count("history:large-scope")
			if !boot {
				for _, op := range mdsBootstrap(rng) {
					emit(op)
				}
			}
			for i := rng.Intn(3); i > 0; i-- {
				emit(e.genOp(rng, true, out))
			}
			e.mdsLargeScope(rng, out, emit)
			steps = 3 + rng.Intn(6)
		}
		for i := 0; i < steps; i++ {
			emit(e.genOp(rng, boot, out))
		}
	}
}

func replayMdStore(t *testing.T, ops []string, out *Out) {
	e := mdsSetup(t)
	e.newHistory()
	for _, op := range ops {
		if strings.HasPrefix(op, "#") {
			if strings.HasPrefix(op, "# history") {
				e.newHistory()
			}
			out.Comment(strings.TrimPrefix(op, "# "))
			continue
		}
		out.Emit(op, e.exec(op))
	}
}
