package harness

// Model "lock" (C03): funds on hold cannot leave the account by any route; spendable =
// balance − hold − unvested.  Drives a REAL app with the real bank, hold, staking, gov, marker,
// exchange and quarantine keepers: bank MsgSend / MsgMultiSend / InputOutputCoinsProv, staking
// MsgDelegate, bank UndelegateCoinsFromModuleToAccount / BurnCoins, gov MsgDeposit, marker
// MsgWithdraw / MsgTransfer (forced), exchange MsgMarketWithdraw, quarantine accept,
// HoldKeeper.AddHold / ReleaseHold / InitGenesis (one account in several entries), the SpendableBalances queries and the hold invariant, on
// base / delayed- and continuous-vesting / module / marker / market accounts carrying holds,
// with amounts around balance−hold and balance−hold−unvested.  The user accounts of a history get
// generated ADDRESSES (length 1..255, 0xff / 0x00 tails and heads, all-0xff, a longer address
// extending another one, neighbours differing in the last byte); the holds of every account are
// read through every lookup the keeper offers (per-account listing, point lookup, all-accounts
// listing, the bank-facing locked-coins getter).  The exchange's multi-step messages are driven
// with holds on both parties: payments (create with a target amount / accept / reject /
// cancel), orders (ask / bid / cancel / FillBids / FillAsks / MarketSettle), commitments
// (commit / MarketReleaseCommitments / MarketCommitmentSettle).  Fee payment is driven as whole
// transactions (`tx`, see execTx): the app's ante handler deducts the base fee from the signer or,
// through a fee grant, from a granter that carries holds; then the message; then the fee handler
// sweeps the rest of the fee — with the base fee and the rest at the paying account's boundaries.

import (
	"context"
	"encoding/hex"
	"errors"
	"fmt"
	"sort"
	"strings"
	"sync"
	"testing"
	"time"

	sdkmath "cosmossdk.io/math"
	"cosmossdk.io/x/feegrant"

	clienttx "github.com/cosmos/cosmos-sdk/client/tx"
	"github.com/cosmos/cosmos-sdk/crypto/keys/secp256k1"
	sdk "github.com/cosmos/cosmos-sdk/types"
	sdkquery "github.com/cosmos/cosmos-sdk/types/query"
	"github.com/cosmos/cosmos-sdk/types/tx/signing"
	authsigning "github.com/cosmos/cosmos-sdk/x/auth/signing"
	sdkerrors "github.com/cosmos/cosmos-sdk/types/errors"
	authtypes "github.com/cosmos/cosmos-sdk/x/auth/types"
	vestexported "github.com/cosmos/cosmos-sdk/x/auth/vesting/exported"
	vestingtypes "github.com/cosmos/cosmos-sdk/x/auth/vesting/types"
	bankkeeper "github.com/cosmos/cosmos-sdk/x/bank/keeper"
	banktypes "github.com/cosmos/cosmos-sdk/x/bank/types"
	govkeeper "github.com/cosmos/cosmos-sdk/x/gov/keeper"
	govtypes "github.com/cosmos/cosmos-sdk/x/gov/types"
	govv1 "github.com/cosmos/cosmos-sdk/x/gov/types/v1"
	stakingkeeper "github.com/cosmos/cosmos-sdk/x/staking/keeper"
	stakingtypes "github.com/cosmos/cosmos-sdk/x/staking/types"

	"github.com/provenance-io/provenance/app"
	"github.com/provenance-io/provenance/testutil/verifhooks"
	"github.com/provenance-io/provenance/x/exchange"
	exchangekeeper "github.com/provenance-io/provenance/x/exchange/keeper"
	"github.com/provenance-io/provenance/x/hold"
	holdkeeper "github.com/provenance-io/provenance/x/hold/keeper"
	markerkeeper "github.com/provenance-io/provenance/x/marker/keeper"
	markertypes "github.com/provenance-io/provenance/x/marker/types"
	"github.com/provenance-io/provenance/x/quarantine"
)

func init() {
	drivers["lock"] = driveLock
	replayers["lock"] = replayLock
}

const lockRDenom = "rcoin" // restricted marker denom with forced transfer

type lockDirective struct {
	outcomes []string // per restriction call: "ok" | "deny" | <account name>
	i        int
}

type lockDirectiveKey struct{}

var errLockDenied = errors.New("verif: send restriction directive denies")

type lockEnv struct {
	t         *testing.T
	app       *app.App
	base      sdk.Context
	ctx       sdk.Context
	addr      map[string]sdk.AccAddress
	bond      string
	val       string
	propID    uint64
	bankSrv   banktypes.MsgServer
	stakeSrv  stakingtypes.MsgServer
	govSrv    govv1.MsgServer
	markerSrv markertypes.MsgServer
	exSrv     exchange.MsgServer
	accts     []string          // accounts declared in this history, in order
	kind      map[string]string // declared kind
	// the fee-payment route of a transaction (C03 "fee payment")
	sKey       *secp256k1.PrivKey // key of the account S, the signer of fully signed transactions
	fullAnte   sdk.AnteHandler    // the app's own ante handler (BaseApp.AnteHandler())
	feeAnte    sdk.AnteHandler    // its fee decorators only: FeeMeterContext + ProvenanceDeductFee
	feeHandler sdk.FeeHandler     // what app.setFeeHandler installs (MsgFeeInvoker)
}

var (
	lockOnce sync.Once
	lockE    *lockEnv
)

func lockAddr(n string) sdk.AccAddress {
	return sdk.AccAddress([]byte("verif_lock_account_" + n + "_"))
}

func lockSetup(t *testing.T) *lockEnv {
	lockOnce.Do(func() {
		a, ctx := NewApp(t)
		ctx = ctx.WithBlockTime(time.Unix(1000, 0))
		e := &lockEnv{t: t, app: a, addr: map[string]sdk.AccAddress{}}
		var err error
		e.bond, err = a.StakingKeeper.BondDenom(ctx)
		if err != nil {
			t.Fatal(err)
		}
		for _, n := range []string{"A", "B", "Q", "V", "C", "ADM"} {
			e.addr[n] = lockAddr(n)
		}
		e.sKey = secp256k1.GenPrivKeyFromSecret([]byte("verif-lock-signer"))
		e.addr["S"] = sdk.AccAddress(e.sKey.PubKey().Address())
		e.addr["FEE"] = a.AccountKeeper.GetModuleAccount(ctx, authtypes.FeeCollectorName).GetAddress()
		e.addr["POOL"] = authtypes.NewModuleAddress(stakingtypes.BondedPoolName)
		e.addr["GOV"] = authtypes.NewModuleAddress(govtypes.ModuleName)
		e.addr["QH"] = a.QuarantineKeeper.GetFundsHolder()
		e.addr["MK"] = markertypes.MustGetMarkerAddress(lockRDenom)
		e.addr["MKT"] = exchange.GetMarketAddress(1)

		// the directive-driven restriction: lets a history dictate an arbitrary outcome of the
		// send-restriction chain (error or redirected recipient) for the real bank keeper.
		a.BankKeeper.AppendSendRestriction(func(ctx context.Context, from, to sdk.AccAddress, amt sdk.Coins) (sdk.AccAddress, error) {
			d, ok := sdk.UnwrapSDKContext(ctx).Value(lockDirectiveKey{}).(*lockDirective)
			if !ok || d == nil {
				return to, nil
			}
			o := "ok"
			if d.i < len(d.outcomes) {
				o = d.outcomes[d.i]
			}
			d.i++
			switch o {
			case "ok", "":
				return to, nil
			case "deny":
				return nil, errLockDenied
			default:
				return lockE.addr[o], nil
			}
		})

		// admin account
		adm := a.AccountKeeper.NewAccountWithAddress(ctx, e.addr["ADM"])
		_ = adm.SetSequence(7)
		a.AccountKeeper.SetAccount(ctx, adm)

		// restricted marker with forced transfer; ADM has every access
		mk := markertypes.NewMarkerAccount(authtypes.NewBaseAccountWithAddress(e.addr["MK"]), sdk.NewInt64Coin(lockRDenom, 1000), e.addr["ADM"],
			[]markertypes.AccessGrant{{Address: e.addr["ADM"].String(), Permissions: markertypes.AccessList{
				markertypes.Access_Mint, markertypes.Access_Burn, markertypes.Access_Deposit, markertypes.Access_Withdraw,
				markertypes.Access_Delete, markertypes.Access_Admin, markertypes.Access_Transfer, markertypes.Access_ForceTransfer}}},
			markertypes.StatusProposed, markertypes.MarkerType_RestrictedCoin, false, true, true, nil)
		if err := a.MarkerKeeper.AddFinalizeAndActivateMarker(ctx, mk); err != nil {
			t.Fatalf("marker: %v", err)
		}
		// market 1, ADM has every permission
		if _, err := a.ExchangeKeeper.CreateMarket(ctx, exchange.Market{
			MarketId: 1, MarketDetails: exchange.MarketDetails{Name: "lock market"},
			AcceptingOrders: true, AllowUserSettlement: true, AcceptingCommitments: true,
			AccessGrants: []exchange.AccessGrant{{Address: e.addr["ADM"].String(), Permissions: exchange.AllPermissions()}},
		}); err != nil {
			t.Fatalf("market: %v", err)
		}
		// a governance proposal in its deposit period; no ratio floor on deposits
		gp, err := a.GovKeeper.Params.Get(ctx)
		if err != nil {
			t.Fatal(err)
		}
		gp.MinDepositRatio = "0"
		gp.MinDeposit = sdk.NewCoins(sdk.NewCoin(e.bond, sdkmath.NewIntWithDecimal(1, 30)))
		gp.ExpeditedMinDeposit = sdk.NewCoins(sdk.NewCoin(e.bond, sdkmath.NewIntWithDecimal(2, 30)))
		if err := a.GovKeeper.Params.Set(ctx, gp); err != nil {
			t.Fatal(err)
		}
		prop, err := a.GovKeeper.SubmitProposal(ctx, nil, "", "verif", "verif lock proposal", e.addr["ADM"], false)
		if err != nil {
			t.Fatalf("proposal: %v", err)
		}
		e.propID = prop.Id
		vals, err := a.StakingKeeper.GetAllValidators(ctx)
		if err != nil || len(vals) == 0 {
			t.Fatalf("validators: %v", err)
		}
		e.val = vals[0].OperatorAddress

		e.base = ctx
		e.bankSrv = bankkeeper.NewMsgServerImpl(a.BankKeeper)
		e.stakeSrv = stakingkeeper.NewMsgServerImpl(a.StakingKeeper)
		e.govSrv = govkeeper.NewMsgServerImpl(&a.GovKeeper)
		e.markerSrv = markerkeeper.NewMsgServerImpl(a.MarkerKeeper)
		e.exSrv = exchangekeeper.NewMsgServer(a.ExchangeKeeper)
		e.fullAnte = a.BaseApp.AnteHandler()
		e.feeAnte = sdk.ChainAnteDecorators(verifhooks.NewFeeMeterContextDecorator(),
			verifhooks.NewProvenanceDeductFeeDecorator(a.AccountKeeper, a.BankKeeper, a.FeeGrantKeeper, a.MsgFeesKeeper))
		e.feeHandler, err = verifhooks.NewAdditionalMsgFeeHandler(a.AccountKeeper, a.BankKeeper, a.FeeGrantKeeper, a.MsgFeesKeeper, a.GetTxConfig().TxDecoder())
		if err != nil {
			t.Fatalf("fee handler: %v", err)
		}
		lockE = e
	})
	lockE.t = t
	return lockE
}

// lockUserNames are the accounts whose address a history may choose (`acct X kind addr=<hex>`).
var lockUserNames = []string{"A", "B", "Q", "V", "C"}

func (e *lockEnv) newHistory() {
	e.ctx, _ = e.base.CacheContext()
	e.accts = nil
	e.kind = map[string]string{}
	for _, n := range lockUserNames {
		e.addr[n] = lockAddr(n)
	}
}

func lockIsUser(n string) bool {
	for _, u := range lockUserNames {
		if u == n {
			return true
		}
	}
	return false
}

// holdViews reads the funds on hold of one account through every lookup of the hold keeper:
// the per-account listing (what the bank module's locked-coins getter iterates), the getter
// itself, the per-denom point lookup and the all-accounts listing.
func (e *lockEnv) holdViews(ad sdk.AccAddress, denoms []string, all map[string]sdk.Coins) (views [4]string, max sdk.Coins, ok bool) {
	k := e.app.HoldKeeper
	v0, err := k.GetHoldCoins(e.ctx, ad)
	if err != nil {
		return views, nil, false
	}
	v1 := k.GetLockedCoins(e.ctx, ad)
	seen := map[string]bool{}
	var ds []string
	for _, cs := range []sdk.Coins{v0, v1, all[string(ad)]} {
		for _, c := range cs {
			denoms = append(denoms, c.Denom)
		}
	}
	for _, d := range denoms {
		if !seen[d] {
			seen[d] = true
			ds = append(ds, d)
		}
	}
	sort.Strings(ds)
	var v2 sdk.Coins
	for _, d := range ds {
		c, err := k.GetHoldCoin(e.ctx, ad, d)
		if err != nil {
			return views, nil, false
		}
		if !c.Amount.IsZero() {
			v2 = append(v2, c)
		}
	}
	v3 := all[string(ad)]
	vs := []sdk.Coins{v0, v1, v2, v3}
	for i, v := range vs {
		views[i] = lockCoinsStr(v)
	}
	for _, d := range ds {
		m := sdkmath.ZeroInt()
		for _, v := range vs {
			if x := v.AmountOf(d); x.GT(m) {
				m = x
			}
		}
		if m.IsPositive() {
			max = append(max, sdk.Coin{Denom: d, Amount: m})
		}
	}
	return views, max, true
}

func lockClass(err error) string {
	if err == nil {
		return "ok"
	}
	m := err.Error()
	switch {
	case errors.Is(err, errLockDenied), strings.Contains(m, errLockDenied.Error()):
		return "err:restr"
	case errors.Is(err, sdkerrors.ErrInsufficientFunds), strings.Contains(m, "insufficient funds"),
		strings.Contains(m, "is less than hold amount"):
		return "err:funds"
	case strings.Contains(m, "is not allowed to receive funds"):
		return "err:blocked"
	case errors.Is(err, banktypes.ErrInputOutputMismatch):
		return "err:mismatch"
	case errors.Is(err, banktypes.ErrNoInputs):
		return "err:noinputs"
	case errors.Is(err, banktypes.ErrNoOutputs):
		return "err:nooutputs"
	case errors.Is(err, banktypes.ErrManyToMany):
		return "err:manytomany"
	case errors.Is(err, sdkerrors.ErrInvalidCoins), strings.Contains(m, "invalid coins"):
		return "err:invalid"
	case strings.Contains(m, "on hold"): // "account only has … on hold"
		return "err:overrelease"
	case strings.Contains(m, "cannot be negative"):
		return "err:negative"
	case errors.Is(err, sdkerrors.ErrUnknownAddress):
		return "err:unknownaddr"
	default:
		return "err:other"
	}
}

// lockParseCoins parses `12a,3b` WITHOUT normalising (AddHold must see exactly what the line says).
func lockParseCoins(s string) sdk.Coins {
	if s == "-" || s == "" {
		return nil
	}
	var res sdk.Coins
	for _, p := range strings.Split(s, ",") {
		i := 0
		if strings.HasPrefix(p, "-") {
			i = 1
		}
		for i < len(p) && p[i] >= '0' && p[i] <= '9' {
			i++
		}
		amt, ok := sdkmath.NewIntFromString(p[:i])
		if !ok {
			amt = sdkmath.ZeroInt()
		}
		res = append(res, sdk.Coin{Denom: p[i:], Amount: amt})
	}
	return res
}

func lockCoinsStr(cs sdk.Coins) string {
	var parts []string
	for _, c := range cs {
		if c.Amount.IsZero() {
			continue
		}
		parts = append(parts, c.Denom+"\x00"+c.Amount.String())
	}
	if len(parts) == 0 {
		return "-"
	}
	sort.Strings(parts)
	for i, p := range parts {
		q := strings.SplitN(p, "\x00", 2)
		parts[i] = q[1] + q[0]
	}
	return strings.Join(parts, ",")
}

// `A:5x,3y|B:7x`
func (e *lockEnv) parseParts(s string) (names []string, coins []sdk.Coins) {
	if s == "-" || s == "" {
		return
	}
	for _, ent := range strings.Split(s, "|") {
		p := strings.SplitN(ent, ":", 2)
		names = append(names, p[0])
		if len(p) > 1 {
			coins = append(coins, lockParseCoins(p[1]))
		} else {
			coins = append(coins, nil)
		}
	}
	return
}

func (e *lockEnv) withDirective(ctx sdk.Context, r string) sdk.Context {
	if r == "" || r == "-" {
		return ctx
	}
	return ctx.WithValue(lockDirectiveKey{}, &lockDirective{outcomes: strings.Split(r, ",")})
}

func (e *lockEnv) vacc(ctx sdk.Context, n string) vestexported.VestingAccount {
	acc := e.app.AccountKeeper.GetAccount(ctx, e.addr[n])
	if acc == nil {
		return nil
	}
	v, _ := acc.(vestexported.VestingAccount)
	return v
}

func (e *lockEnv) dump() string {
	var parts []string
	all := map[string]sdk.Coins{}
	if err := e.app.HoldKeeper.IterateAllHolds(e.ctx, func(ad sdk.AccAddress, c sdk.Coin) bool {
		all[string(ad)] = all[string(ad)].Add(c)
		return false
	}); err != nil {
		return "err:holdstore"
	}
	for _, n := range e.accts {
		ad := e.addr[n]
		bal := e.app.BankKeeper.GetAllBalances(e.ctx, ad)
		ds := []string{e.bond, "apple", lockRDenom}
		for _, c := range bal {
			ds = append(ds, c.Denom)
		}
		views, h, ok := e.holdViews(ad, ds, all)
		if !ok {
			return "err:holdstore"
		}
		sp := e.app.BankKeeper.SpendableCoins(e.ctx, ad)
		s := fmt.Sprintf("%s:b=%s;h=%s;s=%s", n, lockCoinsStr(bal), lockCoinsStr(h), lockCoinsStr(sp))
		if v := e.vacc(e.ctx, n); v != nil {
			s += fmt.Sprintf(";u=%s;dv=%s;df=%s", lockCoinsStr(v.LockedCoins(e.ctx.BlockTime())), lockCoinsStr(v.GetDelegatedVesting()), lockCoinsStr(v.GetDelegatedFree()))
		}
		if views[0] != views[1] || views[0] != views[2] || views[0] != views[3] {
			// the lookups disagree: h= is the per-denom maximum, hv= lists listing/getter/point/all
			s += ";hv=" + strings.Join(views[:], "/")
		}
		parts = append(parts, s)
	}
	return JoinOr(parts, "|")
}

func (e *lockEnv) run(f func(ctx sdk.Context) error) string {
	err, pan := Try(e.ctx, f)
	if pan != "" {
		return "panic:" + pan
	}
	return lockClass(err)
}

// runMsg runs an exchange message: every refusal is one class (the model does not tell the
// exchange's many reasons apart; the verdicts only need accepted / refused).
func (e *lockEnv) runMsg(f func(ctx sdk.Context) error) string {
	r := e.run(f)
	if strings.HasPrefix(r, "err:") {
		return "err:rejected"
	}
	return r
}

func lockU64(s string) uint64 {
	var x uint64
	fmt.Sscan(s, &x)
	return x
}

func lockIDs(s string) []uint64 {
	var ids []uint64
	if s == "-" || s == "" {
		return ids
	}
	for _, p := range strings.Split(s, "|") {
		ids = append(ids, lockU64(p))
	}
	return ids
}

// exec runs one op line against the real code and returns the canonical impl output.
func (e *lockEnv) exec(op string) string {
	ws := strings.Fields(op)
	a := e.app
	switch ws[0] {
	case "dump":
		return e.dump()
	case "time":
		var t int64
		fmt.Sscan(ws[1], &t)
		e.ctx = e.ctx.WithBlockTime(time.Unix(t, 0))
		return "ok"
	case "acct":
		n, kind := ws[1], ws[2]
		if hx := kvArg(ws, "addr"); hx != "" {
			bz, err := hex.DecodeString(hx)
			if err != nil || len(bz) == 0 || len(bz) > 255 || !lockIsUser(n) {
				return "bad-op"
			}
			e.addr[n] = sdk.AccAddress(bz)
		}
		ad, ok := e.addr[n]
		if !ok {
			return "bad-op"
		}
		res := e.run(func(ctx sdk.Context) error {
			switch kind {
			case "base":
				if n == "QH" || n == "ADM" {
					return nil
				}
				acc := a.AccountKeeper.NewAccountWithAddress(ctx, ad)
				_ = acc.SetSequence(7)
				a.AccountKeeper.SetAccount(ctx, acc)
				if kvArg(ws, "quarantine") == "1" {
					return a.QuarantineKeeper.SetOptIn(ctx, ad)
				}
			case "delayed", "cont":
				bacc := authtypes.NewBaseAccountWithAddress(ad)
				bacc.AccountNumber = a.AccountKeeper.NextAccountNumber(ctx)
				_ = bacc.SetSequence(7)
				ov := lockParseCoins(kvArg(ws, "ov"))
				var st, en int64
				fmt.Sscan(kvArg(ws, "start"), &st)
				fmt.Sscan(kvArg(ws, "end"), &en)
				var acc sdk.AccountI
				var err error
				if kind == "delayed" {
					acc, err = vestingtypes.NewDelayedVestingAccount(bacc, ov, en)
				} else {
					acc, err = vestingtypes.NewContinuousVestingAccount(bacc, ov, st, en)
				}
				if err != nil {
					return err
				}
				a.AccountKeeper.SetAccount(ctx, acc)
			case "module", "marker", "market":
				if a.AccountKeeper.GetAccount(ctx, ad) == nil {
					return fmt.Errorf("account %s should exist", n)
				}
			default:
				return fmt.Errorf("unknown kind")
			}
			return nil
		})
		if res == "ok" {
			e.accts = append(e.accts, n)
			e.kind[n] = kind
		}
		return res
	case "have": // the account already owns these coins in the base state
		want := lockParseCoins(ws[2])
		got := a.BankKeeper.GetAllBalances(e.ctx, e.addr[ws[1]])
		if lockCoinsStr(got) != lockCoinsStr(want) {
			return "err:have " + lockCoinsStr(got)
		}
		return "ok"
	case "fund":
		coins := sdk.NewCoins(lockParseCoins(ws[2])...)
		return e.run(func(ctx sdk.Context) error {
			if err := a.BankKeeper.MintCoins(ctx, "mint", coins); err != nil {
				return err
			}
			return a.BankKeeper.SendCoins(markertypes.WithBypass(quarantine.WithBypass(ctx)), authtypes.NewModuleAddress("mint"), e.addr[ws[1]], coins)
		})
	case "send":
		msg := &banktypes.MsgSend{FromAddress: e.addr[ws[1]].String(), ToAddress: e.addr[ws[2]].String(), Amount: lockParseCoins(ws[3])}
		return e.run(func(ctx sdk.Context) error {
			_, err := e.bankSrv.Send(e.withDirective(ctx, kvArg(ws, "r")), msg)
			return err
		})
	case "msend": // msend F T1:c|T2:c r=..
		names, coins := e.parseParts(ws[2])
		msg := &banktypes.MsgMultiSend{}
		total := sdk.Coins{}
		for i, n := range names {
			msg.Outputs = append(msg.Outputs, banktypes.Output{Address: e.addr[n].String(), Coins: coins[i]})
			total = total.Add(coins[i]...)
		}
		in := total
		if v := kvArg(ws, "in"); v != "" {
			in = lockParseCoins(v)
		}
		msg.Inputs = []banktypes.Input{{Address: e.addr[ws[1]].String(), Coins: in}}
		return e.run(func(ctx sdk.Context) error {
			_, err := e.bankSrv.MultiSend(e.withDirective(ctx, kvArg(ws, "r")), msg)
			return err
		})
	case "ioprov": // ioprov F1:c|F2:c T r=..   (n inputs, one output: the exchange's route)
		names, coins := e.parseParts(ws[1])
		var ins []banktypes.Input
		total := sdk.Coins{}
		for i, n := range names {
			ins = append(ins, banktypes.Input{Address: e.addr[n].String(), Coins: coins[i]})
			total = total.Add(coins[i]...)
		}
		outs := []banktypes.Output{{Address: e.addr[ws[2]].String(), Coins: total}}
		return e.run(func(ctx sdk.Context) error {
			return a.BankKeeper.InputOutputCoinsProv(e.withDirective(ctx, kvArg(ws, "r")), ins, outs)
		})
	case "delegate":
		cs := lockParseCoins(ws[2])
		msg := &stakingtypes.MsgDelegate{DelegatorAddress: e.addr[ws[1]].String(), ValidatorAddress: e.val, Amount: cs[0]}
		return e.run(func(ctx sdk.Context) error {
			_, err := e.stakeSrv.Delegate(e.withDirective(ctx, kvArg(ws, "r")), msg)
			return err
		})
	case "undelegate":
		return e.run(func(ctx sdk.Context) error {
			return a.BankKeeper.UndelegateCoinsFromModuleToAccount(ctx, stakingtypes.BondedPoolName, e.addr[ws[1]], lockParseCoins(ws[2]))
		})
	case "burn":
		return e.run(func(ctx sdk.Context) error {
			return a.BankKeeper.BurnCoins(ctx, stakingtypes.BondedPoolName, lockParseCoins(ws[2]))
		})
	case "deposit":
		msg := &govv1.MsgDeposit{ProposalId: e.propID, Depositor: e.addr[ws[1]].String(), Amount: lockParseCoins(ws[2])}
		return e.run(func(ctx sdk.Context) error {
			_, err := e.govSrv.Deposit(ctx, msg)
			return err
		})
	case "mwithdraw": // mwithdraw T coins
		msg := markertypes.NewMsgWithdrawRequest(e.addr["ADM"], e.addr[ws[1]], lockRDenom, lockParseCoins(ws[2]))
		return e.run(func(ctx sdk.Context) error {
			_, err := e.markerSrv.Withdraw(ctx, msg)
			return err
		})
	case "mtransfer": // mtransfer F T coin (forced transfer by ADM)
		cs := lockParseCoins(ws[3])
		msg := markertypes.NewMsgTransferRequest(e.addr["ADM"], e.addr[ws[1]], e.addr[ws[2]], cs[0])
		return e.run(func(ctx sdk.Context) error {
			_, err := e.markerSrv.Transfer(ctx, msg)
			return err
		})
	case "mktwithdraw": // mktwithdraw T coins
		msg := &exchange.MsgMarketWithdrawRequest{Admin: e.addr["ADM"].String(), MarketId: 1, ToAddress: e.addr[ws[1]].String(), Amount: lockParseCoins(ws[2])}
		return e.run(func(ctx sdk.Context) error {
			_, err := e.exSrv.MarketWithdraw(ctx, msg)
			return err
		})
	case "floor": // floor <coin> : the msgfees floor gas price (a governance parameter); base fee = floor x gas
		cs := lockParseCoins(ws[1])
		if len(cs) != 1 || cs[0].Amount.IsNegative() {
			return "bad-op"
		}
		p := a.MsgFeesKeeper.GetParams(e.ctx)
		p.FloorGasPrice = cs[0]
		a.MsgFeesKeeper.SetParams(e.ctx, p)
		return "ok"
	case "grant": // grant X P : X lets P pay transaction fees from X's account (unlimited basic allowance)
		return e.run(func(ctx sdk.Context) error {
			return a.FeeGrantKeeper.GrantAllowance(ctx, e.addr[ws[1]], e.addr[ws[2]], &feegrant.BasicAllowance{})
		})
	case "tx": // tx P gas=<n> fee=<coins> [granter=X] to=T amt=<coins> [mode=full]
		return e.execTx(ws)
	case "hold":
		return e.run(func(ctx sdk.Context) error {
			return a.HoldKeeper.AddHold(ctx, e.addr[ws[1]], lockParseCoins(ws[2]), "verif")
		})
	case "ginit": // ginit X:coins|X^:coins|Y:coins : the hold module's genesis import with these entries, in this order
		// (X^ = the address of X spelled in upper-case bech32).  A genesis state that the module's own
		// GenesisState.Validate refuses is not imported (err:genvalidate); InitGenesis panics on an entry
		// it refuses, and nothing of the import stays.
		names, coins := e.parseParts(ws[1])
		gs := &hold.GenesisState{}
		for i, n := range names {
			upper := strings.HasSuffix(n, "^")
			ad, ok := e.addr[strings.TrimSuffix(n, "^")]
			if !ok {
				return "bad-op"
			}
			bech := ad.String()
			if upper {
				bech = strings.ToUpper(bech)
			}
			gs.Holds = append(gs.Holds, &hold.AccountHold{Address: bech, Amount: coins[i]})
		}
		if err := gs.Validate(); err != nil {
			return "err:genvalidate"
		}
		return e.run(func(ctx sdk.Context) error {
			a.HoldKeeper.InitGenesis(ctx, gs)
			return nil
		})
	case "commit": // a further hold placed by the exchange: MsgCommitFunds -> AddCommitment -> AddHold
		msg := &exchange.MsgCommitFundsRequest{Account: e.addr[ws[1]].String(), MarketId: 1, Amount: lockParseCoins(ws[2])}
		return e.run(func(ctx sdk.Context) error {
			_, err := e.exSrv.CommitFunds(ctx, msg)
			return err
		})
	case "pay": // pay S coins id [tgt=T tamt=coins] : MsgCreatePayment -> CreatePayment -> AddHold(source amount)
		pm := exchange.Payment{Source: e.addr[ws[1]].String(), SourceAmount: lockParseCoins(ws[2]), ExternalId: ws[3], TargetAmount: lockParseCoins(kvArg(ws, "tamt"))}
		if t := kvArg(ws, "tgt"); t != "" {
			pm.Target = e.addr[t].String()
		}
		msg := &exchange.MsgCreatePaymentRequest{Payment: pm}
		return e.run(func(ctx sdk.Context) error {
			_, err := e.exSrv.CreatePayment(ctx, msg)
			return err
		})
	case "payaccept": // payaccept T S id r=.. : T accepts the stored payment (S, id) as it is stored
		pm := exchange.Payment{Source: e.addr[ws[2]].String(), ExternalId: ws[3], SourceAmount: sdk.NewCoins(sdk.NewInt64Coin("apple", 1))}
		if p, err := a.ExchangeKeeper.GetPayment(e.ctx, e.addr[ws[2]], ws[3]); err == nil && p != nil {
			pm = *p
		}
		pm.Target = e.addr[ws[1]].String()
		msg := &exchange.MsgAcceptPaymentRequest{Payment: pm}
		return e.runMsg(func(ctx sdk.Context) error {
			_, err := e.exSrv.AcceptPayment(e.withDirective(ctx, kvArg(ws, "r")), msg)
			return err
		})
	case "payreject": // payreject T S id
		msg := &exchange.MsgRejectPaymentRequest{Target: e.addr[ws[1]].String(), Source: e.addr[ws[2]].String(), ExternalId: ws[3]}
		return e.runMsg(func(ctx sdk.Context) error {
			_, err := e.exSrv.RejectPayment(ctx, msg)
			return err
		})
	case "paycancel": // paycancel S id
		msg := &exchange.MsgCancelPaymentsRequest{Source: e.addr[ws[1]].String(), ExternalIds: []string{ws[2]}}
		return e.runMsg(func(ctx sdk.Context) error {
			_, err := e.exSrv.CancelPayments(ctx, msg)
			return err
		})
	case "ask", "bid": // ask|bid O assets price -> ok <order id>
		as, pr := lockParseCoins(ws[2]), lockParseCoins(ws[3])
		if len(as) != 1 || len(pr) != 1 {
			return "bad-op"
		}
		var id uint64
		r := e.runMsg(func(ctx sdk.Context) error {
			if ws[0] == "ask" {
				resp, err := e.exSrv.CreateAsk(ctx, &exchange.MsgCreateAskRequest{AskOrder: exchange.AskOrder{MarketId: 1, Seller: e.addr[ws[1]].String(), Assets: as[0], Price: pr[0]}})
				if err == nil {
					id = resp.OrderId
				}
				return err
			}
			resp, err := e.exSrv.CreateBid(ctx, &exchange.MsgCreateBidRequest{BidOrder: exchange.BidOrder{MarketId: 1, Buyer: e.addr[ws[1]].String(), Assets: as[0], Price: pr[0]}})
			if err == nil {
				id = resp.OrderId
			}
			return err
		})
		if r == "ok" {
			return fmt.Sprintf("ok %d", id)
		}
		return r
	case "ordcancel": // ordcancel S id
		msg := &exchange.MsgCancelOrderRequest{Signer: e.addr[ws[1]].String(), OrderId: lockU64(ws[2])}
		return e.runMsg(func(ctx sdk.Context) error {
			_, err := e.exSrv.CancelOrder(ctx, msg)
			return err
		})
	case "fillbids": // fillbids S total id|id r=..
		msg := &exchange.MsgFillBidsRequest{Seller: e.addr[ws[1]].String(), MarketId: 1, TotalAssets: lockParseCoins(ws[2]), BidOrderIds: lockIDs(ws[3])}
		return e.runMsg(func(ctx sdk.Context) error {
			_, err := e.exSrv.FillBids(e.withDirective(ctx, kvArg(ws, "r")), msg)
			return err
		})
	case "fillasks": // fillasks B totalprice id|id r=..
		tp := lockParseCoins(ws[2])
		if len(tp) != 1 {
			return "bad-op"
		}
		msg := &exchange.MsgFillAsksRequest{Buyer: e.addr[ws[1]].String(), MarketId: 1, TotalPrice: tp[0], AskOrderIds: lockIDs(ws[3])}
		return e.runMsg(func(ctx sdk.Context) error {
			_, err := e.exSrv.FillAsks(e.withDirective(ctx, kvArg(ws, "r")), msg)
			return err
		})
	case "settle": // settle askid bidid r=.. (MarketSettle by ADM, one ask and one bid)
		msg := &exchange.MsgMarketSettleRequest{Admin: e.addr["ADM"].String(), MarketId: 1, AskOrderIds: []uint64{lockU64(ws[1])}, BidOrderIds: []uint64{lockU64(ws[2])}}
		return e.runMsg(func(ctx sdk.Context) error {
			_, err := e.exSrv.MarketSettle(e.withDirective(ctx, kvArg(ws, "r")), msg)
			return err
		})
	case "crelease": // crelease A coins ("-" = everything committed)
		msg := &exchange.MsgMarketReleaseCommitmentsRequest{Admin: e.addr["ADM"].String(), MarketId: 1,
			ToRelease: []exchange.AccountAmount{{Account: e.addr[ws[1]].String(), Amount: lockParseCoins(ws[2])}}}
		return e.runMsg(func(ctx sdk.Context) error {
			_, err := e.exSrv.MarketReleaseCommitments(ctx, msg)
			return err
		})
	case "csettle": // csettle A:c|B:c C:c r=.. (MarketCommitmentSettle by ADM, no fees)
		msg := &exchange.MsgMarketCommitmentSettleRequest{Admin: e.addr["ADM"].String(), MarketId: 1}
		names, coins := e.parseParts(ws[1])
		for i, n := range names {
			msg.Inputs = append(msg.Inputs, exchange.AccountAmount{Account: e.addr[n].String(), Amount: coins[i]})
		}
		names, coins = e.parseParts(ws[2])
		for i, n := range names {
			msg.Outputs = append(msg.Outputs, exchange.AccountAmount{Account: e.addr[n].String(), Amount: coins[i]})
		}
		return e.runMsg(func(ctx sdk.Context) error {
			_, err := e.exSrv.MarketCommitmentSettle(e.withDirective(ctx, kvArg(ws, "r")), msg)
			return err
		})
	case "release":
		return e.run(func(ctx sdk.Context) error {
			return a.HoldKeeper.ReleaseHold(ctx, e.addr[ws[1]], lockParseCoins(ws[2]))
		})
	case "qaccept": // qaccept T F
		var rel sdk.Coins
		r := e.run(func(ctx sdk.Context) error {
			var err error
			rel, err = a.QuarantineKeeper.AcceptQuarantinedFunds(ctx, e.addr[ws[1]], e.addr[ws[2]])
			return err
		})
		if r == "ok" {
			return "ok " + lockCoinsStr(rel)
		}
		return r
	case "spendable":
		ad := e.addr[ws[1]]
		return Guard(func() string {
			// the answer is paginated (100 entries by default): ask for ONE page that has room for all of it
			resp, err := a.BankKeeper.SpendableBalances(e.ctx, &banktypes.QuerySpendableBalancesRequest{Address: ad.String(),
				Pagination: &sdkquery.PageRequest{Limit: 100000}})
			if err != nil {
				return "err:query"
			}
			var by sdk.Coins
			bals := a.BankKeeper.GetAllBalances(e.ctx, ad)
			for i, c := range bals {
				// the per-denom query of an account with very many denoms is asked for a sample of them
				// only (every such query reads all of the account's holds): the first and last eight in
				// denom order and the eight around the hundredth
				if n := len(bals); !(n <= 24 || i < 8 || i+8 >= n || (i >= 96 && i < 104)) {
					continue
				}
				r2, err := a.BankKeeper.SpendableBalanceByDenom(e.ctx, &banktypes.QuerySpendableBalanceByDenomRequest{Address: ad.String(), Denom: c.Denom})
				if err != nil || r2.Balance == nil {
					return "err:query"
				}
				by = append(by, *r2.Balance)
			}
			return "ok " + lockCoinsStr(resp.Balances) + " " + lockCoinsStr(by)
		})
	case "kspend": // kspend X vb=0|1 hb=0|1 : SpendableCoins under the context bypass flags
		ctx := e.ctx
		if kvArg(ws, "vb") == "1" {
			ctx = banktypes.WithVestingLockedBypass(ctx)
		}
		if kvArg(ws, "hb") == "1" {
			ctx = hold.WithBypass(ctx)
		}
		return Guard(func() string {
			return "ok " + lockCoinsStr(a.BankKeeper.SpendableCoins(ctx, e.addr[ws[1]])) + " " + lockCoinsStr(a.BankKeeper.LockedCoins(ctx, e.addr[ws[1]]))
		})
	case "inv":
		return Guard(func() string {
			_, broken := holdkeeper.HoldAccountBalancesInvariant(a.HoldKeeper)(e.ctx)
			if broken {
				return "broken"
			}
			return "ok"
		})
	}
	return "bad-op"
}


// ---------- the fee-payment route of a transaction ----------

func lockTxClass(err error) string {
	switch {
	case err == nil:
		return "ok"
	case errors.Is(err, sdkerrors.ErrOutOfGas), errors.Is(err, sdkerrors.ErrInvalidGasLimit), errors.Is(err, sdkerrors.ErrTxTooLarge):
		return "err:gas"
	case errors.Is(err, feegrant.ErrNoAllowance), strings.Contains(err.Error(), "fee-grant not found"):
		return "err:nogrant"
	}
	return lockClass(err)
}

// execTx runs ONE transaction the way baseapp.runTx does in deliver mode (baseapp.go:880-1010 of
// the forked SDK): the ante handler on a branch of the state that is written when it succeeds —
// so the base fee it deducts stays even when the messages fail —, then the messages through the
// app's message router and the fee handler (the sweep of the rest of the fee) on a second branch
// that is written only when all of them succeed.  The transaction carries one bank MsgSend of the
// signer P and pays its fee itself or through a fee grant of `granter`.  mode=full: signed by the
// key of S and run through the app's complete ante handler; otherwise unsigned and run through the
// fee decorators of that chain only (any account can be the payer, any gas amount).
func (e *lockEnv) execTx(ws []string) string {
	a := e.app
	p, ok := e.addr[ws[1]]
	to, ok2 := e.addr[kvArg(ws, "to")]
	if !ok || !ok2 {
		return "bad-op"
	}
	full := kvArg(ws, "mode") == "full"
	if full && ws[1] != "S" {
		return "bad-op"
	}
	cfg := a.GetTxConfig()
	b := cfg.NewTxBuilder()
	msg := &banktypes.MsgSend{FromAddress: p.String(), ToAddress: to.String(), Amount: lockParseCoins(kvArg(ws, "amt"))}
	if err := b.SetMsgs(msg); err != nil {
		return "bad-op"
	}
	fee := lockParseCoins(kvArg(ws, "fee"))
	if !fee.IsValid() { // the fee of a transaction is a valid sdk.Coins (tx.ValidateBasic)
		return "bad-op"
	}
	b.SetFeeAmount(fee)
	b.SetGasLimit(lockU64(kvArg(ws, "gas")))
	if g := kvArg(ws, "granter"); g != "" {
		ga, ok := e.addr[g]
		if !ok {
			return "bad-op"
		}
		b.SetFeeGranter(ga)
	}
	ante := e.feeAnte
	if full {
		ante = e.fullAnte
		acc := a.AccountKeeper.GetAccount(e.ctx, p)
		if acc == nil {
			return "bad-op"
		}
		mode := signing.SignMode(cfg.SignModeHandler().DefaultMode())
		pub := e.sKey.PubKey()
		seq := acc.GetSequence()
		if err := b.SetSignatures(signing.SignatureV2{PubKey: pub, Data: &signing.SingleSignatureData{SignMode: mode}, Sequence: seq}); err != nil {
			return "bad-op"
		}
		sd := authsigning.SignerData{Address: p.String(), ChainID: e.ctx.ChainID(), AccountNumber: acc.GetAccountNumber(), Sequence: seq, PubKey: pub}
		sig, err := clienttx.SignWithPrivKey(e.ctx, mode, sd, b, e.sKey, cfg, seq)
		if err != nil {
			return "bad-op"
		}
		if err := b.SetSignatures(sig); err != nil {
			return "bad-op"
		}
	}
	bz, err := cfg.TxEncoder()(b.GetTx())
	if err != nil {
		return "bad-op"
	}
	tx, err := cfg.TxDecoder()(bz)
	if err != nil {
		return "bad-op"
	}
	// 1. ante handler on a branch; written when it succeeds
	anteCtx, writeAnte := e.ctx.CacheContext()
	anteCtx = anteCtx.WithTxBytes(bz)
	var newCtx sdk.Context
	res := Guard(func() string {
		var err error
		newCtx, err = ante(anteCtx, tx, false)
		return lockTxClass(err)
	})
	if res != "ok" {
		return res
	}
	writeAnte()
	// 2. messages + fee handler on a second branch (it keeps the gas meter the ante handler set up)
	runCtx, writeRun := newCtx.WithMultiStore(e.ctx.MultiStore()).CacheContext()
	runCtx = runCtx.WithTxBytes(bz)
	res = Guard(func() string {
		for _, m := range tx.GetMsgs() {
			h := a.MsgServiceRouter().Handler(m)
			if h == nil {
				return "msgfail err:noroute"
			}
			if _, err := h(runCtx, m); err != nil {
				return "msgfail " + lockTxClass(err)
			}
		}
		if _, _, err := e.feeHandler(runCtx, false); err != nil {
			return "sweepfail " + lockTxClass(err)
		}
		return "done"
	})
	if res == "done" {
		writeRun()
	}
	return "ok " + res
}

// ---------- generator ----------

type lockGen struct {
	e   *lockEnv
	rng *RNG
	out *Out
}

func (g *lockGen) emit(op string) string {
	r := g.e.exec(op)
	k := strings.Fields(op)[0]
	g.out.Count("op:" + k)
	if k != "dump" && k != "acct" && k != "fund" && k != "have" && k != "time" {
		rc := strings.Fields(r)[0]
		g.out.Count("res:" + k + ":" + rc)
	}
	g.out.Emit(op, r)
	return r
}

func (g *lockGen) bal(n, d string) sdkmath.Int {
	return g.e.app.BankKeeper.GetBalance(g.e.ctx, g.e.addr[n], d).Amount
}
func (g *lockGen) held(n, d string) sdkmath.Int {
	c, err := g.e.app.HoldKeeper.GetHoldCoin(g.e.ctx, g.e.addr[n], d)
	if err != nil {
		return sdkmath.ZeroInt()
	}
	return c.Amount
}
func (g *lockGen) unv(n, d string) sdkmath.Int {
	if v := g.e.vacc(g.e.ctx, n); v != nil {
		return v.LockedCoins(g.e.ctx.BlockTime()).AmountOf(d)
	}
	return sdkmath.ZeroInt()
}

// amount picks an amount for a debit of denom d from account n: mostly at the
// balance−hold(−unvested) boundaries.
func (g *lockGen) amount(n, d string) sdkmath.Int {
	b, h, u := g.bal(n, d), g.held(n, d), g.unv(n, d)
	if h.IsPositive() {
		g.out.Count("src:held")
	} else {
		g.out.Count("src:nohold")
	}
	if u.IsPositive() {
		g.out.Count("src:unvested")
	}
	g.out.Count("srckind:" + g.e.kind[n])
	var x sdkmath.Int
	k := g.rng.Intn(100)
	switch {
	case k < 12:
		x = b.Sub(h).SubRaw(1)
		g.out.Count("amt:bal-hold-1")
	case k < 26:
		x = b.Sub(h)
		g.out.Count("amt:bal-hold")
	case k < 40:
		x = b.Sub(h).AddRaw(1)
		g.out.Count("amt:bal-hold+1")
	case k < 48:
		x = b.Sub(h).Sub(u).SubRaw(1)
		g.out.Count("amt:bal-hold-unv-1")
	case k < 58:
		x = b.Sub(h).Sub(u)
		g.out.Count("amt:bal-hold-unv")
	case k < 68:
		x = b.Sub(h).Sub(u).AddRaw(1)
		g.out.Count("amt:bal-hold-unv+1")
	case k < 73:
		x = b
		g.out.Count("amt:bal")
	case k < 77:
		x = b.AddRaw(1)
		g.out.Count("amt:bal+1")
	case k < 80:
		x = h
		g.out.Count("amt:hold")
	default:
		x = sdkmath.NewInt(int64(1 + g.rng.Intn(60)))
		g.out.Count("amt:small")
	}
	if !x.IsPositive() {
		x = sdkmath.NewInt(int64(1 + g.rng.Intn(3)))
		g.out.Count("amt:clamped")
	}
	return x
}

func (g *lockGen) restr(pct int, calls int, targets []string) string {
	if !g.rng.Chance(pct) {
		return ""
	}
	var os []string
	for i := 0; i < calls; i++ {
		switch k := g.rng.Intn(10); {
		case k < 5:
			os = append(os, "ok")
		case k < 8:
			os = append(os, "deny")
		default:
			os = append(os, Pick(g.rng, targets))
		}
	}
	return " r=" + strings.Join(os, ",")
}

// lockGenAddrs picks the address of every user account of a history.  The dimension is the
// byte pattern, not the value: last byte 0xff / 0x00, runs of 0xff or 0x00 at the end, all-0xff,
// extreme first bytes, lengths from 1 to 255, and addresses related to an earlier one (a longer
// address extending it, a prefix of it, its neighbours in byte order).
func lockGenAddrs(e *lockEnv, rng *RNG, out *Out) map[string]string {
	res := map[string]string{}
	taken := map[string]bool{}
	for n, a := range e.addr {
		if !lockIsUser(n) {
			taken[string(a)] = true
		}
	}
	rnd := func(n int) []byte {
		b := make([]byte, n)
		for i := range b {
			b[i] = byte(rng.U64())
		}
		return b
	}
	tail := func(b []byte, k int, v byte) {
		for i := len(b) - k; i < len(b); i++ {
			if i >= 0 {
				b[i] = v
			}
		}
	}
	// x/quarantine keys a record by the first 32 bytes of a sender longer than that
	// (keys.go createRecordSuffix): two such senders sharing them are ONE sender to that module
	// (C07's subject, see known finding C07-double-release-long-address).  The histories here keep
	// the users' record suffixes distinct.
	suffix := func(b []byte) string {
		if len(b) > 32 {
			return string(b[:32])
		}
		return string(b)
	}
	var prev [][]byte
	for _, n := range lockUserNames {
		var bz []byte
		tag := "default"
		for try := 0; try < 8; try++ {
			bz, tag = nil, "default"
			switch k := rng.Intn(100); {
			case k < 18:
			case k < 32:
				bz, tag = rnd(20), "20:last-ff"
				bz[19] = 0xff
			case k < 40:
				bz, tag = rnd(20), "20:tail-ff"
				tail(bz, 2+rng.Intn(18), 0xff)
			case k < 44:
				bz, tag = rnd(Pick(rng, []int{20, 32})), "all-ff"
				tail(bz, len(bz), 0xff)
			case k < 50:
				bz, tag = rnd(20), "20:tail-00"
				tail(bz, 1+rng.Intn(19), 0x00)
			case k < 54:
				bz, tag = rnd(20), "20:head"
				bz[0] = Pick(rng, []byte{0x00, 0xff})
			case k < 63:
				bz, tag = rnd(32), "32"
				if rng.Bool() {
					tail(bz, 1+rng.Intn(4), 0xff)
					tag = "32:tail-ff"
				}
			case k < 70:
				bz, tag = rnd(21+rng.Intn(234)), "long"
				if rng.Bool() {
					bz[len(bz)-1] = 0xff
					tag = "long:last-ff"
				}
			case k < 74:
				bz, tag = rnd(255), "255"
				if rng.Bool() {
					tail(bz, 1+rng.Intn(255), 0xff)
					tag = "255:tail-ff"
				}
			case k < 78:
				bz, tag = rnd(1+rng.Intn(19)), "short"
				if rng.Bool() {
					bz[len(bz)-1] = 0xff
					tag = "short:last-ff"
				}
			default:
				if len(prev) == 0 {
					continue
				}
				p := append([]byte{}, Pick(rng, prev)...)
				switch rng.Intn(5) {
				case 0:
					bz, tag = append(p, rnd(1+rng.Intn(12))...), "rel:extends"
				case 1:
					ext := make([]byte, 1+rng.Intn(12))
					tail(ext, len(ext), Pick(rng, []byte{0x00, 0xff}))
					bz, tag = append(p, ext...), "rel:extends-00ff"
				case 2:
					p[len(p)-1]++
					bz, tag = p, "rel:next"
				case 3:
					p[len(p)-1]--
					bz, tag = p, "rel:prev"
				default:
					if len(p) < 2 {
						continue
					}
					bz, tag = p[:1+rng.Intn(len(p)-1)], "rel:prefix"
				}
				if len(bz) > 255 {
					bz = bz[:255]
				}
			}
			if bz == nil || !(taken[string(bz)] || taken[suffix(bz)]) {
				break
			}
			bz, tag = nil, "default"
		}
		out.Count("addr:" + tag)
		if bz == nil {
			prev = append(prev, lockAddr(n))
			taken[string(lockAddr(n))] = true
			continue
		}
		if bz[len(bz)-1] == 0xff {
			out.Count("addr:ends-ff")
		}
		prev = append(prev, bz)
		taken[string(bz)] = true
		taken[suffix(bz)] = true
		res[n] = " addr=" + hex.EncodeToString(bz)
	}
	return res
}

type lockPend struct{ s, id, t string }

type lockOrd struct {
	id            uint64
	ask           bool
	owner         string
	assets, price sdk.Coin
}

func lockOrderID(r string) (uint64, bool) {
	if !strings.HasPrefix(r, "ok ") {
		return 0, false
	}
	return lockU64(r[3:]), true
}

func lockHistory(e *lockEnv, rng *RNG, out *Out, h int) {
	g := &lockGen{e: e, rng: rng, out: out}
	e.newHistory()
	out.Comment(fmt.Sprintf("history %d", h))
	bond := e.bond
	denoms := []string{bond, "apple", lockRDenom}
	t0 := int64(1000)
	g.emit(fmt.Sprintf("time %d", t0))
	for _, n := range []string{"POOL", "GOV", "FEE"} {
		g.emit("acct " + n + " module")
	}
	g.emit("acct MK marker")
	g.emit("acct MKT market")
	g.emit("acct QH base")
	g.emit("acct ADM base")
	ax := lockGenAddrs(e, rng, out)
	g.emit("acct A base" + ax["A"])
	g.emit("acct B base" + ax["B"])
	g.emit("acct Q base quarantine=1" + ax["Q"])
	g.emit("acct S base") // the key-derived account that signs the fully signed transactions
	// bond-denom amounts of a "rich" history are 4000 times larger: a fully signed transaction needs
	// ~10^5 gas, and its base fee is floor gas price x gas of the bond denom
	mul := int64(1)
	if rng.Chance(45) {
		mul = 4000
		out.Count("history:rich")
	}
	// vesting accounts: delayed V (bond denom) and continuous C (bond + apple), schedules around now
	vov := int64(100+rng.Intn(900)) * mul
	vend := t0 + int64(rng.Intn(4)*500) // may already be over (end == now)
	g.emit(fmt.Sprintf("acct V delayed ov=%d%s end=%d%s", vov, bond, vend, ax["V"]))
	cov1, cov2 := int64(100+rng.Intn(900))*mul, int64(50+rng.Intn(300))
	cst := t0 - int64(rng.Intn(3)*400) + int64(rng.Intn(2)*300)
	cen := cst + int64(1+rng.Intn(2000))
	// "apple" < bond denom ("stake"/"nhash") alphabetically? keep ov sorted by building through sdk.NewCoins
	cov := sdk.NewCoins(sdk.NewInt64Coin(bond, cov1), sdk.NewInt64Coin("apple", cov2))
	g.emit(fmt.Sprintf("acct C cont ov=%s start=%d end=%d%s", lockCoinsStr(cov), cst, cen, ax["C"]))
	for _, n := range []string{"POOL", "GOV", "FEE", "MK", "MKT", "QH", "ADM"} {
		g.emit(fmt.Sprintf("have %s %s", n, lockCoinsStr(e.app.BankKeeper.GetAllBalances(e.ctx, e.addr[n]))))
	}
	// the floor gas price (msgfees parameter): the base fee of a transaction is floor x gas
	floor := int64(Pick(rng, []int{1, 1, 1, 1, 1, 1, 1, 2, 3, 0}))
	g.emit(fmt.Sprintf("floor %d%s", floor, bond))
	fundCoins := func(lo int) string {
		return lockCoinsStr(sdk.NewCoins(sdk.NewInt64Coin(bond, int64(lo+rng.Intn(1500))*mul), sdk.NewInt64Coin("apple", int64(lo/2+rng.Intn(700))), sdk.NewInt64Coin(lockRDenom, int64(10+rng.Intn(300)))))
	}
	for _, n := range []string{"A", "B", "S", "MK", "MKT", "QH"} {
		g.emit("fund " + n + " " + fundCoins(100))
	}
	if rng.Chance(60) {
		g.emit("fund Q " + fundCoins(100))
	}
	g.emit(fmt.Sprintf("fund V %s", lockCoinsStr(sdk.NewCoins(sdk.NewInt64Coin(bond, vov+int64(rng.Intn(400))*mul), sdk.NewInt64Coin(lockRDenom, int64(10+rng.Intn(100)))))))
	g.emit(fmt.Sprintf("fund C %s", lockCoinsStr(sdk.NewCoins(sdk.NewInt64Coin(bond, cov1+int64(rng.Intn(400))*mul), sdk.NewInt64Coin("apple", cov2+int64(rng.Intn(200))), sdk.NewInt64Coin(lockRDenom, int64(10+rng.Intn(100)))))))
	if rng.Chance(40) {
		g.emit(fmt.Sprintf("fund POOL %s", lockCoinsStr(sdk.NewCoins(sdk.NewInt64Coin("apple", int64(1+rng.Intn(300)))))))
	}
	g.emit("dump")

	holders := []string{"A", "B", "V", "C", "S", "MK", "MKT", "QH", "POOL"}
	users := []string{"A", "B", "V", "C", "S"}
	placeHold := func(n string) {
		var cs sdk.Coins
		for _, d := range denoms {
			if !rng.Chance(55) {
				continue
			}
			sp := e.app.BankKeeper.SpendableCoins(e.ctx, e.addr[n]).AmountOf(d)
			var x sdkmath.Int
			switch k := rng.Intn(10); {
			case k < 2:
				x = sp
			case k < 3:
				x = sp.AddRaw(1)
			case k < 4 && sp.IsPositive():
				x = sp.SubRaw(1)
			default:
				if sp.IsPositive() {
					x = sdkmath.NewInt(1 + int64(rng.U64()%uint64(minI64(sp.Int64(), 1<<40))))
				} else {
					x = sdkmath.NewInt(int64(rng.Intn(3)))
				}
			}
			if x.IsNegative() {
				x = sdkmath.ZeroInt()
			}
			if !x.IsPositive() { // AddHold only ever sees valid sdk.Coins: positive, sorted, distinct denoms
				continue
			}
			cs = append(cs, sdk.Coin{Denom: d, Amount: x})
		}
		sort.Slice(cs, func(i, j int) bool { return cs[i].Denom < cs[j].Denom })
		if len(cs) == 0 {
			cs = sdk.Coins{sdk.NewInt64Coin(bond, int64(1+rng.Intn(50)))}
		}
		parts := make([]string, len(cs))
		for i, c := range cs {
			parts[i] = c.Amount.String() + c.Denom
		}
		g.emit("hold " + n + " " + strings.Join(parts, ","))
		g.emit("dump")
	}
	// holds first: one on a random account of every history, often several
	nh := 2 + rng.Intn(4)
	perm := append([]string{}, holders...)
	for i := len(perm) - 1; i > 0; i-- {
		j := rng.Intn(i + 1)
		perm[i], perm[j] = perm[j], perm[i]
	}
	for i := 0; i < nh; i++ {
		placeHold(perm[i%len(perm)])
	}
	// pickSrc chooses the account/denom a route debits: mostly one that carries a hold
	pickSrc := func(allowed, ds []string) (string, string) {
		if rng.Chance(65) {
			var cands [][2]string
			for _, n := range allowed {
				for _, d := range ds {
					if g.held(n, d).IsPositive() {
						cands = append(cands, [2]string{n, d})
					}
				}
			}
			if len(cands) > 0 {
				c := Pick(rng, cands)
				return c[0], c[1]
			}
		}
		return Pick(rng, allowed), Pick(rng, ds)
	}
	plain := []string{bond, "apple"}
	coinOf := func(n, d string) string { return g.amount(n, d).String() + d }
	coinsOfD := func(n, d string) string {
		// one or two denoms, sorted
		ds := []string{d}
		if rng.Chance(25) {
			ds = []string{bond, "apple"}
		}
		sort.Strings(ds)
		var ps []string
		for _, d := range ds {
			ps = append(ps, coinOf(n, d))
		}
		return strings.Join(ps, ",")
	}
	// ---- the NUMBER OF DENOMS an account has on hold: in a "wide" history one account owns, and has
	// on hold, funds of about a hundred or more FURTHER denoms (a seller of many NFTs, each its own
	// denom; a large multi-denom commitment), so that the per-account listing the bank's locked-coins
	// getter reads has that many entries.  Their names sort before, between or after the usual three
	// denoms; the routes of the history then debit some of them (the first, the last, the ones
	// around the hundredth entry, random ones) next to the usual denoms.
	wideHist := rng.Chance(4)
	if wideHist {
		out.Count("history:wide")
		n := Pick(rng, []int{99, 100, 101, 101, 102, 105, 110, 120, 128, 150})
		out.Count(fmt.Sprintf("wide:n=%d", n))
		pfx := Pick(rng, []string{"aa", "asset", "nft/", "scope.", "sz", "zz"})
		w := Pick(rng, holders)
		out.Count("wide:acct:" + w)
		var wide []string
		var fundCs, holdCs sdk.Coins
		for i := 0; i < n; i++ {
			d := fmt.Sprintf("%s%03d", pfx, i)
			wide = append(wide, d)
			b := int64(1 + rng.Intn(4))
			h := b
			if rng.Chance(30) {
				h = 1 + int64(rng.Intn(int(b)))
			}
			fundCs = append(fundCs, sdk.NewInt64Coin(d, b))
			holdCs = append(holdCs, sdk.NewInt64Coin(d, h))
		}
		g.emit("fund " + w + " " + lockCoinsStr(sdk.NewCoins(fundCs...)))
		g.emit("dump")
		for _, d := range denoms { // some of the usual denoms go on hold with them
			sp := e.app.BankKeeper.SpendableCoins(e.ctx, e.addr[w]).AmountOf(d)
			if sp.IsPositive() && rng.Chance(50) {
				holdCs = append(holdCs, sdk.NewCoin(d, sdkmath.NewInt(1+int64(rng.U64()%uint64(minI64(sp.Int64(), 1<<40))))))
			}
		}
		g.emit("hold " + w + " " + lockCoinsStr(sdk.NewCoins(holdCs...)))
		g.emit("dump")
		g.emit("spendable " + w)
		g.emit(fmt.Sprintf("kspend %s vb=0 hb=0", w))
		g.emit("inv")
		picks := []string{wide[0], wide[n-1], wide[rng.Intn(n)], wide[rng.Intn(n)]}
		if n > 100 {
			picks = append(picks, wide[99], wide[100])
		}
		if lockIsUser(w) || w == "S" {
			for i := 0; i < 3; i++ {
				d := Pick(rng, picks)
				to := "B"
				if w == "B" {
					to = "A"
				}
				g.emit(fmt.Sprintf("send %s %s %s", w, to, coinOf(w, d)))
				g.emit("dump")
			}
		}
		plain = append(plain, picks...)
		denoms = append(denoms, picks...)
	}
	now := t0
	var qsenders []string
	noteQ := func(op, res, f string) {
		if res == "ok" && strings.Contains(op, " Q") || strings.Contains(op, "Q:") && res == "ok" {
			qsenders = append(qsenders, f)
		}
	}
	// ---- exchange messages: holds on both parties, amounts at the payer's bal-hold boundary ----
	exUsers := []string{"A", "B", "V", "C", "Q"}
	otherThan := func(n string) string {
		for {
			if x := Pick(rng, exUsers); x != n {
				return x
			}
		}
	}
	// spendAmt: an amount the account can put on hold itself (mostly within its spendable balance)
	spendAmt := func(n, d string) sdkmath.Int {
		sp := e.app.BankKeeper.SpendableCoins(e.ctx, e.addr[n]).AmountOf(d)
		switch k := rng.Intn(20); {
		case !sp.IsPositive():
			return sdkmath.OneInt()
		case k < 3:
			return sp
		case k < 5:
			return sp.AddRaw(1)
		default:
			return sdkmath.NewInt(1 + int64(rng.U64()%uint64(minI64(sp.Int64(), 1<<40))))
		}
	}
	split := func(tot sdkmath.Int, n int) []sdkmath.Int {
		if n < 2 || tot.LT(sdkmath.NewInt(2)) {
			return []sdkmath.Int{tot}
		}
		x := sdkmath.NewInt(1 + int64(rng.U64()%uint64(minI64(tot.Int64()-1, 1<<40))))
		return []sdkmath.Int{x, tot.Sub(x)}
	}
	committed := func(n string) sdk.Coins { return e.app.ExchangeKeeper.GetCommitmentAmount(e.ctx, 1, e.addr[n]) }
	var pend []lockPend
	var open []lockOrd
	payN := 0
	dropOpen := func(ids ...uint64) {
		var keep []lockOrd
		for _, o := range open {
			gone := false
			for _, id := range ids {
				gone = gone || o.id == id
			}
			if !gone {
				keep = append(keep, o)
			}
		}
		open = keep
	}
	mkOrder := func(ask bool, owner string, assets, price sdk.Coin) (lockOrd, bool) {
		kind := "bid"
		if ask {
			kind = "ask"
		}
		r := g.emit(fmt.Sprintf("%s %s %s %s", kind, owner, assets, price))
		g.emit("dump")
		id, ok := lockOrderID(r)
		o := lockOrd{id: id, ask: ask, owner: owner, assets: assets, price: price}
		if ok {
			open = append(open, o)
		}
		return o, ok
	}
	idsStr := func(os []lockOrd) string {
		var ps []string
		for _, o := range os {
			ps = append(ps, fmt.Sprint(o.id))
		}
		return strings.Join(ps, "|")
	}
	fill := func(by string, os []lockOrd) {
		var tot sdk.Coins
		var ids []uint64
		for _, o := range os {
			if o.ask {
				tot = tot.Add(o.price)
			} else {
				tot = tot.Add(o.assets)
			}
			ids = append(ids, o.id)
		}
		kind := "fillbids"
		if os[0].ask {
			kind = "fillasks"
		}
		if rng.Chance(4) { // malformed: the stated total is off by one
			tot = tot.Add(sdk.NewCoin(tot[0].Denom, sdkmath.OneInt()))
		}
		if g.emit(fmt.Sprintf("%s %s %s %s%s", kind, by, lockCoinsStr(tot), idsStr(os), g.restr(8, 3, []string{"A", "B", "MKT"}))) == "ok" {
			dropOpen(ids...)
		}
	}
	exchangeStep := func(s int) {
		switch k := rng.Intn(25); {
		case k < 7: // a payment whose target pays at its bal-hold boundary; mostly accepted at once
			t, d2 := pickSrc(exUsers, plain)
			src := otherThan(t)
			d1 := Pick(rng, plain)
			payN++
			id := fmt.Sprintf("x%d", payN)
			sa, ta := fmt.Sprintf("%s%s", spendAmt(src, d1), d1), fmt.Sprintf("%s%s", g.amount(t, d2), d2)
			switch v := rng.Intn(12); {
			case v == 0:
				sa = "-"
			case v == 1:
				ta = "-"
			case v == 2 && d1 != d2: // two denoms on the target's side
				ds := []string{d1, d2}
				sort.Strings(ds)
				ta = fmt.Sprintf("%s%s,%s%s", g.amount(t, ds[0]), ds[0], g.amount(t, ds[1]), ds[1])
			}
			op := fmt.Sprintf("pay %s %s %s tgt=%s", src, sa, id, t)
			if ta != "-" {
				op += " tamt=" + ta
			}
			r := g.emit(op)
			g.emit("dump")
			if r != "ok" {
				return
			}
			if rng.Chance(70) {
				if rng.Chance(25) { // the target gets (or loses) a hold in between
					if rng.Bool() {
						placeHold(t)
					} else {
						placeHold(src)
					}
				}
				g.emit(fmt.Sprintf("payaccept %s %s %s%s", t, src, id, g.restr(8, 2, []string{"A", "B", "MKT"})))
			} else {
				pend = append(pend, lockPend{src, id, t})
			}
		case k < 10: // accept / reject / cancel a pending payment
			if len(pend) == 0 {
				src := Pick(rng, exUsers)
				payN++
				d := Pick(rng, plain)
				id := fmt.Sprintf("x%d", payN)
				t := otherThan(src)
				if g.emit(fmt.Sprintf("pay %s %s%s %s tgt=%s tamt=%s%s", src, spendAmt(src, d), d, id, t, g.amount(t, d), d)) == "ok" {
					pend = append(pend, lockPend{src, id, t})
				}
				break
			}
			i := rng.Intn(len(pend))
			p := pend[i]
			who := p.t
			if rng.Chance(6) {
				who = otherThan(p.t)
			}
			var r string
			switch v := rng.Intn(10); {
			case v < 6:
				r = g.emit(fmt.Sprintf("payaccept %s %s %s%s", who, p.s, p.id, g.restr(8, 2, []string{"A", "B", "MKT"})))
			case v < 8:
				r = g.emit(fmt.Sprintf("payreject %s %s %s", who, p.s, p.id))
			default:
				r = g.emit(fmt.Sprintf("paycancel %s %s", p.s, p.id))
			}
			if r == "ok" {
				pend = append(pend[:i], pend[i+1:]...)
			}
		case k < 16: // orders that meet: the filling / settling side pays at its boundary
			d1, d2 := "apple", bond
			if rng.Chance(35) {
				d1, d2 = d2, d1
			}
			switch mode := rng.Intn(3); mode {
			case 0: // bids, then the seller y delivers the assets (FillBids)
				y, _ := pickSrc(exUsers, []string{d1})
				var os []lockOrd
				for _, x := range split(g.amount(y, d1), 1+rng.Intn(2)) {
					b := otherThan(y)
					if o, ok := mkOrder(false, b, sdk.NewCoin(d1, x), sdk.NewCoin(d2, spendAmt(b, d2))); ok {
						os = append(os, o)
					}
				}
				if len(os) > 0 && rng.Chance(80) {
					fill(y, os)
				}
			case 1: // asks, then the buyer y pays the price (FillAsks)
				y, _ := pickSrc(exUsers, []string{d2})
				var os []lockOrd
				for _, x := range split(g.amount(y, d2), 1+rng.Intn(2)) {
					sl := otherThan(y)
					if o, ok := mkOrder(true, sl, sdk.NewCoin(d1, spendAmt(sl, d1)), sdk.NewCoin(d2, x)); ok {
						os = append(os, o)
					}
				}
				if len(os) > 0 && rng.Chance(80) {
					fill(y, os)
				}
			default: // one ask, one bid of equal assets, settled by the market
				x := Pick(rng, exUsers)
				y := otherThan(x)
				assets := sdk.NewCoin(d1, spendAmt(x, d1))
				bp := spendAmt(y, d2)
				ap := bp.SubRaw(int64(rng.Intn(3)))
				if rng.Chance(8) {
					ap = bp.AddRaw(1)
				}
				if !ap.IsPositive() {
					ap = sdkmath.OneInt()
				}
				ao, ok1 := mkOrder(true, x, assets, sdk.NewCoin(d2, ap))
				bo, ok2 := mkOrder(false, y, assets, sdk.NewCoin(d2, bp))
				if ok1 && ok2 && rng.Chance(85) {
					if rng.Chance(30) {
						placeHold(Pick(rng, []string{x, y}))
					}
					if g.emit(fmt.Sprintf("settle %d %d%s", ao.id, bo.id, g.restr(8, 2, []string{"A", "B", "MKT"}))) == "ok" {
						dropOpen(ao.id, bo.id)
					}
				}
			}
		case k < 19: // an open order gets filled by someone else, or cancelled
			if len(open) == 0 {
				x := Pick(rng, exUsers)
				d1, d2 := "apple", bond
				if rng.Bool() {
					d1, d2 = d2, d1
				}
				mkOrder(rng.Bool(), x, sdk.NewCoin(d1, spendAmt(x, d1)), sdk.NewCoin(d2, spendAmt(x, d2)))
				break
			}
			o := Pick(rng, open)
			switch v := rng.Intn(10); {
			case v < 6:
				fill(otherThan(o.owner), []lockOrd{o})
			default:
				signer := o.owner
				if rng.Chance(30) {
					signer = Pick(rng, []string{"ADM", otherThan(o.owner)})
				}
				if g.emit(fmt.Sprintf("ordcancel %s %d", signer, o.id)) == "ok" {
					dropOpen(o.id)
				}
			}
		case k < 22: // commitments: commit, release
			var with []string
			for _, n := range exUsers {
				if !committed(n).IsZero() {
					with = append(with, n)
				}
			}
			if len(with) == 0 || rng.Chance(35) {
				f := Pick(rng, exUsers)
				d := Pick(rng, plain)
				g.emit(fmt.Sprintf("commit %s %s%s", f, spendAmt(f, d), d))
				break
			}
			n := Pick(rng, with)
			cm := committed(n)
			c := Pick(rng, cm)
			switch v := rng.Intn(10); {
			case v < 4:
				g.emit(fmt.Sprintf("crelease %s -", n))
			case v < 7:
				g.emit(fmt.Sprintf("crelease %s %s%s", n, sdkmath.NewInt(1+int64(rng.U64()%uint64(minI64(c.Amount.Int64(), 1<<40)))), c.Denom))
			case v < 8:
				g.emit(fmt.Sprintf("crelease %s %s", n, lockCoinsStr(cm)))
			default:
				g.emit(fmt.Sprintf("crelease %s %s%s", n, c.Amount.AddRaw(1), c.Denom))
			}
		default: // committed funds change hands (MarketCommitmentSettle) and are re-committed
			var with []string
			for _, n := range exUsers {
				if !committed(n).IsZero() {
					with = append(with, n)
				}
			}
			if len(with) == 0 {
				f := Pick(rng, exUsers)
				d := Pick(rng, plain)
				g.emit(fmt.Sprintf("commit %s %s%s", f, spendAmt(f, d), d))
				break
			}
			part := func(n string) sdk.Coin {
				c := Pick(rng, committed(n))
				switch v := rng.Intn(10); {
				case v < 4:
					return c
				case v < 9:
					return sdk.NewCoin(c.Denom, sdkmath.NewInt(1+int64(rng.U64()%uint64(minI64(c.Amount.Int64(), 1<<40)))))
				default:
					return sdk.NewCoin(c.Denom, c.Amount.AddRaw(1))
				}
			}
			in1 := Pick(rng, with)
			c1 := part(in1)
			ins := []string{fmt.Sprintf("%s:%s", in1, c1)}
			tot := sdk.NewCoins(c1)
			if len(with) > 1 && rng.Chance(35) {
				in2 := in1
				for in2 == in1 {
					in2 = Pick(rng, with)
				}
				c2 := part(in2)
				ins = append(ins, fmt.Sprintf("%s:%s", in2, c2))
				tot = tot.Add(c2)
			}
			var outs []string
			if len(ins) == 1 && rng.Chance(35) && c1.Amount.GT(sdkmath.OneInt()) {
				xs := split(c1.Amount, 2)
				o1 := otherThan(in1)
				outs = []string{fmt.Sprintf("%s:%s%s", o1, xs[0], c1.Denom), fmt.Sprintf("%s:%s%s", otherThan(o1), xs[1], c1.Denom)}
			} else {
				to := Pick(rng, exUsers)
				if rng.Chance(6) { // malformed: totals differ
					tot = tot.Add(sdk.NewCoin(tot[0].Denom, sdkmath.OneInt()))
				}
				outs = []string{fmt.Sprintf("%s:%s", to, lockCoinsStr(tot))}
			}
			g.emit(fmt.Sprintf("csettle %s %s%s", strings.Join(ins, "|"), strings.Join(outs, "|"), g.restr(8, 2, []string{"A", "B", "MKT"})))
		}
	}
	if rng.Chance(35) { // some funds are already committed to the market
		for i := 0; i < 1+rng.Intn(2); i++ {
			f := Pick(rng, exUsers)
			d := Pick(rng, plain)
			g.emit(fmt.Sprintf("commit %s %s%s", f, spendAmt(f, d), d))
			g.emit("dump")
		}
	}
	// ---- transactions: the fee-payment route (ante handler, fee grants, the sweep of the rest) ----
	// fee grants: a granter (user, vesting or marker account, often one that carries a hold)
	// lets a grantee pay its transaction fees from the granter's account
	type lockGrant struct{ granter, grantee string }
	var grants []lockGrant
	payers := []string{"A", "B", "V", "C", "Q", "S"}
	granters := []string{"A", "B", "V", "C", "S", "MK"}
	addGrant := func() {
		gr, _ := pickSrc(granters, []string{bond})
		ge := Pick(rng, payers)
		if rng.Chance(40) {
			ge = "S"
		}
		if ge == gr {
			return
		}
		if g.emit(fmt.Sprintf("grant %s %s", gr, ge)) == "ok" {
			grants = append(grants, lockGrant{gr, ge})
		}
	}
	for i := rng.Intn(4); i > 0; i-- {
		addGrant()
	}
	// lockTxGasSafe: enough gas for the complete ante handler, the message and the fee handler of a
	// fully signed transaction (measured: ~10^5 with 20-byte addresses, 10 more per byte of the tx)
	const lockTxGasSafe = 250_000
	const lockTxGasMax = 4_000_000 // antewrapper.TxGasLimitDecorator
	txStep := func() {
		p := Pick(rng, payers)
		if rng.Chance(35) {
			p = "S"
		}
		granter := ""
		if rng.Chance(60) {
			var mine []string
			for _, gt := range grants {
				if gt.grantee == p {
					mine = append(mine, gt.granter)
				}
			}
			switch {
			case len(mine) > 0:
				granter = Pick(rng, mine)
			case rng.Chance(60):
				addGrant()
				if n := len(grants); n > 0 && grants[n-1].grantee == p {
					granter = grants[n-1].granter
				}
			}
		}
		if granter == "" && rng.Chance(6) { // nobody granted this (or the signer names itself)
			granter = Pick(rng, append([]string{p}, granters...))
		}
		payer := p
		if granter != "" {
			payer = granter
			out.Count("tx:granter:" + g.e.kind[granter])
		} else {
			out.Count("tx:self:" + g.e.kind[p])
		}
		full := p == "S" && mul > 1 && rng.Chance(75)
		// the base fee (floor x gas, deducted by the ante handler) at the payer's boundary
		x := g.amount(payer, bond)
		gas := x
		if floor > 1 {
			gas = x.QuoRaw(floor)
			if rng.Bool() {
				gas = gas.AddRaw(1)
			}
		}
		if floor == 0 {
			gas = sdkmath.NewInt(int64(1 + rng.Intn(100000)))
		}
		if full {
			out.Count("tx:full")
			if gas.LT(sdkmath.NewInt(lockTxGasSafe)) {
				gas = sdkmath.NewInt(int64(lockTxGasSafe + rng.Intn(2000)))
				out.Count("tx:full:gas-raised")
			}
			if gas.GT(sdkmath.NewInt(lockTxGasMax)) {
				gas = sdkmath.NewInt(lockTxGasMax)
				out.Count("tx:full:gas-capped")
			}
		} else {
			out.Count("tx:feeonly")
		}
		if !gas.IsPositive() || !gas.IsUint64() {
			gas = sdkmath.OneInt()
		}
		if rng.Chance(2) {
			gas = sdkmath.ZeroInt()
		}
		base := gas.MulRaw(floor)
		// the rest of the fee (swept by the fee handler after the message): nothing, the bond denom at
		// what the base fee left of the payer's boundary, another denom at its boundary, or both
		fee := sdk.Coins{}
		if base.IsPositive() {
			fee = fee.Add(sdk.NewCoin(bond, base))
		}
		kx := rng.Intn(100)
		if kx >= 35 && kx < 60 || kx >= 85 {
			rem := g.bal(payer, bond).Sub(g.held(payer, bond)).Sub(g.unv(payer, bond)).Sub(base).AddRaw(int64(rng.Intn(3) - 1))
			if !rem.IsPositive() {
				rem = sdkmath.NewInt(int64(1 + rng.Intn(3)))
			}
			fee = fee.Add(sdk.NewCoin(bond, rem))
			out.Count("tx:rest:bond")
		}
		if kx >= 60 {
			fee = fee.Add(sdk.NewCoin("apple", g.amount(payer, "apple")))
			out.Count("tx:rest:apple")
		}
		if rng.Chance(4) && base.IsPositive() { // malformed: the stated fee does not cover the base fee
			fee = sdk.NewCoins(sdk.NewCoin("apple", sdkmath.NewInt(int64(1+rng.Intn(5)))))
			if rng.Bool() {
				fee = sdk.NewCoins(sdk.NewCoin(bond, base.SubRaw(1)))
			}
			out.Count("tx:fee-below-base")
		}
		// the message of the transaction: a bank send of the signer
		to := Pick(rng, []string{"A", "B", "C", "Q", "MKT", "S"})
		if to == p {
			to = "ADM"
		}
		d := Pick(rng, plain)
		amt := sdkmath.NewInt(int64(1 + rng.Intn(20)))
		if rng.Chance(35) {
			amt = g.amount(p, d)
		}
		op := fmt.Sprintf("tx %s gas=%s fee=%s", p, gas, lockCoinsStr(fee))
		if granter != "" {
			op += " granter=" + granter
		}
		op += fmt.Sprintf(" to=%s amt=%s%s", to, amt, d)
		if full {
			op += " mode=full"
		}
		if g.emit(op) == "ok done" && to == "Q" {
			qsenders = append(qsenders, p)
		}
	}
	// ---- the hold module's genesis import (InitGenesis): holds placed entry by entry, one account in
	// more than one entry (a second spelling of its address; the same spelling twice is refused by the
	// genesis validation), the entries of an account TOGETHER at its spendable boundary
	ginitStep := func() {
		type ent struct {
			n  string
			cs sdk.Coins
		}
		var ents []ent
		placed := map[string]sdk.Coins{}
		spelled := map[string]int{}
		first := map[string]string{}
		accts := 1 + rng.Intn(2)
		for ai := 0; ai < accts; ai++ {
			n := Pick(rng, holders)
			if rng.Chance(60) {
				n, _ = pickSrc(holders, denoms)
			}
			if spelled[n] > 0 {
				continue
			}
			k := Pick(rng, []int{1, 2, 2, 2, 2, 2, 2, 2, 2, 3})
			ds := []string{Pick(rng, denoms)}
			if rng.Chance(25) {
				ds = append(ds, Pick(rng, denoms))
			}
			for j := 0; j < k; j++ {
				var cs sdk.Coins
				for _, d := range ds {
					sp := e.app.BankKeeper.SpendableCoins(e.ctx, e.addr[n]).AmountOf(d)
					left := sp.Sub(placed[n].AmountOf(d))
					var x sdkmath.Int
					switch v := rng.Intn(12); {
					case v < 3 && j > 0: // what the earlier entries left, exactly / one more / one less
						x = left.AddRaw(int64(rng.Intn(3) - 1))
					case v < 4: // on its own within the spendable balance, together with the others maybe not
						x = sp
						if sp.GT(sdkmath.OneInt()) && rng.Bool() {
							x = sdkmath.NewInt(1 + int64(rng.U64()%uint64(minI64(sp.Int64(), 1<<40))))
						}
					case v < 5:
						x = sp.AddRaw(1)
					default:
						if left.IsPositive() {
							x = sdkmath.NewInt(1 + int64(rng.U64()%uint64(minI64(left.Int64(), 1<<40))))
						} else {
							x = sdkmath.OneInt()
						}
					}
					if x.IsPositive() && cs.AmountOf(d).IsZero() {
						cs = cs.Add(sdk.NewCoin(d, x))
					}
				}
				if len(cs) == 0 {
					continue
				}
				name := n
				if rng.Chance(30) {
					name = n + "^"
				}
				if spelled[n] == 1 && !rng.Chance(8) { // mostly the OTHER spelling (the same one again is refused by GenesisState.Validate)
					name = n + "^"
					if first[n] == name {
						name = n
					}
				}
				if spelled[n] == 0 {
					first[n] = name
				}
				spelled[n]++
				placed[n] = placed[n].Add(cs...)
				ents = append(ents, ent{name, cs})
			}
		}
		if len(ents) == 0 {
			return
		}
		if len(ents) > 1 && rng.Bool() { // the entries of one account need not be adjacent
			i, j := rng.Intn(len(ents)), rng.Intn(len(ents))
			ents[i], ents[j] = ents[j], ents[i]
		}
		var ps []string
		multi := false
		for _, en := range ents {
			ps = append(ps, en.n+":"+lockCoinsStr(en.cs))
			multi = multi || spelled[strings.TrimSuffix(en.n, "^")] > 1
		}
		if multi {
			out.Count("ginit:account-in-several-entries")
		}
		g.emit("ginit " + strings.Join(ps, "|"))
	}
	steps := 11 + rng.Intn(15)
	if wideHist { // every dump of such a history is long
		steps = 5 + rng.Intn(7)
	}
	for s := 0; s < steps; s++ {
		switch k := rng.Intn(147); {
		case k >= 141:
			ginitStep()
		case k >= 127:
			txStep()
		case k >= 100:
			exchangeStep(s)
		case k < 16: // bank MsgSend
			f, d := pickSrc(users, plain)
			to := Pick(rng, []string{"A", "B", "V", "C", "MKT", "Q", "Q", "Q", "POOL"})
			if to == f {
				to = "B"
			}
			op := fmt.Sprintf("send %s %s %s%s", f, to, coinsOfD(f, d), g.restr(15, 1, []string{"A", "B", "MKT"}))
			noteQ(op, g.emit(op), f)
		case k < 26: // MsgMultiSend 1→n
			f, d := pickSrc(users, plain)
			nOut := 1 + rng.Intn(3)
			tot := g.amount(f, d)
			var outs []string
			rest := tot
			for i := 0; i < nOut && rest.IsPositive(); i++ {
				x := rest
				if i < nOut-1 && rest.GT(sdkmath.OneInt()) {
					x = sdkmath.NewInt(1 + int64(rng.U64()%uint64(minI64(rest.Int64()-1, 1<<40))))
				}
				rest = rest.Sub(x)
				outs = append(outs, fmt.Sprintf("%s:%s%s", Pick(rng, []string{"A", "B", "Q", "MKT", "C"}), x, d))
			}
			extra := ""
			if rng.Chance(6) { // malformed: totals differ
				extra = fmt.Sprintf(" in=%s%s", tot.AddRaw(1), d)
			}
			op := fmt.Sprintf("msend %s %s%s%s", f, strings.Join(outs, "|"), extra, g.restr(15, len(outs), []string{"A", "B", "MKT"}))
			noteQ(op, g.emit(op), f)
		case k < 34: // InputOutputCoinsProv n→1
			n := 1 + rng.Intn(3)
			var ins []string
			for i := 0; i < n; i++ {
				f, d := pickSrc([]string{"A", "B", "V", "C", "MKT"}, plain)
				if i > 0 && rng.Chance(60) { // only one input at the boundary, the others small
					ins = append(ins, fmt.Sprintf("%s:%d%s", f, 1+rng.Intn(20), d))
					continue
				}
				ins = append(ins, fmt.Sprintf("%s:%s", f, coinOf(f, d)))
			}
			g.emit(fmt.Sprintf("ioprov %s %s%s", strings.Join(ins, "|"), Pick(rng, []string{"A", "B", "MKT"}), g.restr(15, n, []string{"A", "B"})))
		case k < 46: // staking MsgDelegate (vesting bypass)
			f, _ := pickSrc([]string{"A", "V", "V", "C", "C", "B"}, []string{bond})
			g.emit(fmt.Sprintf("delegate %s %s%s", f, coinOf(f, bond), g.restr(8, 1, []string{"A"})))
		case k < 51:
			f := Pick(rng, users)
			g.emit(fmt.Sprintf("undelegate %s %s", f, coinOf("POOL", bond)))
		case k < 54:
			_, d := pickSrc([]string{"POOL"}, plain)
			g.emit(fmt.Sprintf("burn POOL %s", coinsOfD("POOL", d)))
		case k < 61: // gov MsgDeposit
			f, _ := pickSrc(users, []string{bond})
			g.emit(fmt.Sprintf("deposit %s %s", f, coinOf(f, bond)))
		case k < 68: // marker withdraw from the marker account (escrow with a hold)
			_, d := pickSrc([]string{"MK"}, denoms)
			g.emit(fmt.Sprintf("mwithdraw %s %s", Pick(rng, []string{"A", "B", "ADM"}), coinOf("MK", d)))
		case k < 76: // marker forced transfer of the restricted denom out of a user / market account
			f, _ := pickSrc([]string{"A", "B", "V", "C", "MKT"}, []string{lockRDenom})
			to := Pick(rng, []string{"A", "B", "ADM"})
			if to == f {
				to = "ADM"
			}
			g.emit(fmt.Sprintf("mtransfer %s %s %s", f, to, coinOf(f, lockRDenom)))
		case k < 83: // exchange MarketWithdraw
			_, d := pickSrc([]string{"MKT"}, plain)
			g.emit(fmt.Sprintf("mktwithdraw %s %s", Pick(rng, []string{"A", "B", "ADM"}), coinsOfD("MKT", d)))
		case k < 88: // quarantine accept (funds leave the holder account, which may carry a hold)
			f := Pick(rng, users)
			if len(qsenders) > 0 && rng.Chance(85) {
				f = Pick(rng, qsenders)
				if rng.Chance(40) { // the funds holder itself carries a hold
					placeHold("QH")
				}
			}
			if r := g.emit(fmt.Sprintf("qaccept Q %s", f)); strings.HasPrefix(r, "ok ") && r != "ok -" {
				out.Count("qaccept:released")
			}
		case k < 90:
			placeHold(Pick(rng, holders))
			continue
		case k < 92: // a second hold through the exchange (commitment / payment)
			f := Pick(rng, users)
			d := Pick(rng, denoms)
			sp := e.app.BankKeeper.SpendableCoins(e.ctx, e.addr[f]).AmountOf(d)
			x := sp.AddRaw(int64(rng.Intn(3) - 1))
			if rng.Chance(40) && sp.IsPositive() {
				x = sdkmath.NewInt(1 + int64(rng.U64()%uint64(minI64(sp.Int64(), 1<<40))))
			}
			if !x.IsPositive() {
				x = sdkmath.OneInt()
			}
			if rng.Bool() {
				g.emit(fmt.Sprintf("commit %s %s%s", f, x, d))
			} else {
				g.emit(fmt.Sprintf("pay %s %s%s p%d", f, x, d, s))
			}
		case k < 95: // release part of a hold
			n := Pick(rng, holders)
			d := Pick(rng, denoms)
			if rng.Chance(85) { // prefer an (account, denom) that carries a hold
				var cands [][2]string
				for _, hn := range holders {
					for _, hd := range denoms {
						if g.held(hn, hd).IsPositive() {
							cands = append(cands, [2]string{hn, hd})
						}
					}
				}
				if len(cands) > 0 {
					c := Pick(rng, cands)
					n, d = c[0], c[1]
				}
			}
			h := g.held(n, d)
			x := sdkmath.NewInt(int64(1 + rng.Intn(20)))
			if h.IsPositive() && rng.Chance(70) {
				x = sdkmath.NewInt(1 + int64(rng.U64()%uint64(minI64(h.Int64(), 1<<40))))
			} else if rng.Chance(30) {
				x = h.AddRaw(1)
			}
			g.emit(fmt.Sprintf("release %s %s%s", n, x, d))
		case k < 97: // block time moves forward
			now += int64(rng.Intn(900))
			g.emit(fmt.Sprintf("time %d", now))
		default:
			n := Pick(rng, holders)
			g.emit("spendable " + n)
			g.emit(fmt.Sprintf("kspend %s vb=%d hb=%d", n, rng.Intn(2), rng.Intn(2)))
			g.emit("inv")
			continue
		}
		g.emit("dump")
	}
	g.emit("spendable " + Pick(rng, holders))
	g.emit("inv")
}

func minI64(a, b int64) int64 {
	if a < b {
		return a
	}
	return b
}

func driveLock(t *testing.T, rng *RNG, n int, out *Out) {
	e := lockSetup(t)
	for h := 0; h < n; h++ {
		lockHistory(e, rng, out, h)
	}
}

func replayLock(t *testing.T, ops []string, out *Out) {
	e := lockSetup(t)
	e.newHistory()
	for _, op := range ops {
		if strings.HasPrefix(op, "#") {
			if strings.HasPrefix(op, "# history") {
				e.newHistory()
			}
			out.Comment(strings.TrimPrefix(strings.TrimPrefix(op, "#"), " "))
			continue
		}
		out.Emit(op, e.exec(op))
	}
}
