package harness

// Model "lock" (C03): funds on hold cannot leave the account by any route; spendable =
// balance − hold − unvested.  Drives a REAL app with the real bank, hold, staking, gov, marker,
// exchange and quarantine keepers: bank MsgSend / MsgMultiSend / InputOutputCoinsProv, staking
// MsgDelegate, bank UndelegateCoinsFromModuleToAccount / BurnCoins, gov MsgDeposit, marker
// MsgWithdraw / MsgTransfer (forced), exchange MsgMarketWithdraw, quarantine accept,
// HoldKeeper.AddHold / ReleaseHold, the SpendableBalances queries and the hold invariant, on
// base / delayed- and continuous-vesting / module / marker / market accounts carrying holds,
// with amounts around balance−hold and balance−hold−unvested.

import (
	"context"
	"errors"
	"fmt"
	"sort"
	"strings"
	"sync"
	"testing"
	"time"

	sdkmath "cosmossdk.io/math"

	sdk "github.com/cosmos/cosmos-sdk/types"
	sdkerrors "github.com/cosmos/cosmos-sdk/types/errors"
	authtypes "github.com/cosmos/cosmos-sdk/x/auth/types"
	vestexported "github.com/cosmos/cosmos-sdk/x/auth/vesting/exported"
	vestingtypes "github.com/cosmos/cosmos-sdk/x/auth/vesting/types"
	bankkeeper "github.com/cosmos/cosmos-sdk/x/bank/keeper"
	banktypes "github.com/cosmos/cosmos-sdk/x/bank/types"
	govkeeper "github.com/cosmos/cosmos-sdk/x/gov/keeper"
	govtypes "github.com/cosmos/cosmos-sdk/x/gov/types"
	govv1 "github.com/cosmos/cosmos-sdk/x/gov/types/v1"
	stakingkeeper "github.com/cosmos/cosmos-sdk/x/staking/keeper"
	stakingtypes "github.com/cosmos/cosmos-sdk/x/staking/types"

	"github.com/provenance-io/provenance/app"
	"github.com/provenance-io/provenance/x/exchange"
	exchangekeeper "github.com/provenance-io/provenance/x/exchange/keeper"
	"github.com/provenance-io/provenance/x/hold"
	holdkeeper "github.com/provenance-io/provenance/x/hold/keeper"
	markerkeeper "github.com/provenance-io/provenance/x/marker/keeper"
	markertypes "github.com/provenance-io/provenance/x/marker/types"
	"github.com/provenance-io/provenance/x/quarantine"
)

func init() {
	drivers["lock"] = driveLock
	replayers["lock"] = replayLock
}

const lockRDenom = "rcoin" // restricted marker denom with forced transfer

type lockDirective struct {
	outcomes []string // per restriction call: "ok" | "deny" | <account name>
	i        int
}

type lockDirectiveKey struct{}

var errLockDenied = errors.New("verif: send restriction directive denies")

type lockEnv struct {
	t         *testing.T
	app       *app.App
	base      sdk.Context
	ctx       sdk.Context
	addr      map[string]sdk.AccAddress
	bond      string
	val       string
	propID    uint64
	bankSrv   banktypes.MsgServer
	stakeSrv  stakingtypes.MsgServer
	govSrv    govv1.MsgServer
	markerSrv markertypes.MsgServer
	exSrv     exchange.MsgServer
	accts     []string          // accounts declared in this history, in order
	kind      map[string]string // declared kind
}

var (
	lockOnce sync.Once
	lockE    *lockEnv
)

func lockAddr(n string) sdk.AccAddress {
	return sdk.AccAddress([]byte("verif_lock_account_" + n + "_"))
}

func lockSetup(t *testing.T) *lockEnv {
	lockOnce.Do(func() {
		a, ctx := NewApp(t)
		ctx = ctx.WithBlockTime(time.Unix(1000, 0))
		e := &lockEnv{t: t, app: a, addr: map[string]sdk.AccAddress{}}
		var err error
		e.bond, err = a.StakingKeeper.BondDenom(ctx)
		if err != nil {
			t.Fatal(err)
		}
		for _, n := range []string{"A", "B", "Q", "V", "C", "ADM"} {
			e.addr[n] = lockAddr(n)
		}
		e.addr["POOL"] = authtypes.NewModuleAddress(stakingtypes.BondedPoolName)
		e.addr["GOV"] = authtypes.NewModuleAddress(govtypes.ModuleName)
		e.addr["QH"] = a.QuarantineKeeper.GetFundsHolder()
		e.addr["MK"] = markertypes.MustGetMarkerAddress(lockRDenom)
		e.addr["MKT"] = exchange.GetMarketAddress(1)

		// the directive-driven restriction: lets a history dictate an arbitrary outcome of the
		// send-restriction chain (error or redirected recipient) for the real bank keeper.
		a.BankKeeper.AppendSendRestriction(func(ctx context.Context, from, to sdk.AccAddress, amt sdk.Coins) (sdk.AccAddress, error) {
			d, ok := sdk.UnwrapSDKContext(ctx).Value(lockDirectiveKey{}).(*lockDirective)
			if !ok || d == nil {
				return to, nil
			}
			o := "ok"
			if d.i < len(d.outcomes) {
				o = d.outcomes[d.i]
			}
			d.i++
			switch o {
			case "ok", "":
				return to, nil
			case "deny":
				return nil, errLockDenied
			default:
				return lockE.addr[o], nil
			}
		})

		// admin account
		adm := a.AccountKeeper.NewAccountWithAddress(ctx, e.addr["ADM"])
		_ = adm.SetSequence(7)
		a.AccountKeeper.SetAccount(ctx, adm)

		// restricted marker with forced transfer; ADM has every access
		mk := markertypes.NewMarkerAccount(authtypes.NewBaseAccountWithAddress(e.addr["MK"]), sdk.NewInt64Coin(lockRDenom, 1000), e.addr["ADM"],
			[]markertypes.AccessGrant{{Address: e.addr["ADM"].String(), Permissions: markertypes.AccessList{
				markertypes.Access_Mint, markertypes.Access_Burn, markertypes.Access_Deposit, markertypes.Access_Withdraw,
				markertypes.Access_Delete, markertypes.Access_Admin, markertypes.Access_Transfer, markertypes.Access_ForceTransfer}}},
			markertypes.StatusProposed, markertypes.MarkerType_RestrictedCoin, false, true, true, nil)
		if err := a.MarkerKeeper.AddFinalizeAndActivateMarker(ctx, mk); err != nil {
			t.Fatalf("marker: %v", err)
		}
		// market 1, ADM has every permission
		if _, err := a.ExchangeKeeper.CreateMarket(ctx, exchange.Market{
			MarketId: 1, MarketDetails: exchange.MarketDetails{Name: "lock market"},
			AcceptingOrders: true, AllowUserSettlement: true, AcceptingCommitments: true,
			AccessGrants: []exchange.AccessGrant{{Address: e.addr["ADM"].String(), Permissions: exchange.AllPermissions()}},
		}); err != nil {
			t.Fatalf("market: %v", err)
		}
		// a governance proposal in its deposit period; no ratio floor on deposits
		gp, err := a.GovKeeper.Params.Get(ctx)
		if err != nil {
			t.Fatal(err)
		}
		gp.MinDepositRatio = "0"
		gp.MinDeposit = sdk.NewCoins(sdk.NewCoin(e.bond, sdkmath.NewIntWithDecimal(1, 30)))
		gp.ExpeditedMinDeposit = sdk.NewCoins(sdk.NewCoin(e.bond, sdkmath.NewIntWithDecimal(2, 30)))
		if err := a.GovKeeper.Params.Set(ctx, gp); err != nil {
			t.Fatal(err)
		}
		prop, err := a.GovKeeper.SubmitProposal(ctx, nil, "", "verif", "verif lock proposal", e.addr["ADM"], false)
		if err != nil {
			t.Fatalf("proposal: %v", err)
		}
		e.propID = prop.Id
		vals, err := a.StakingKeeper.GetAllValidators(ctx)
		if err != nil || len(vals) == 0 {
			t.Fatalf("validators: %v", err)
		}
		e.val = vals[0].OperatorAddress

		e.base = ctx
		e.bankSrv = bankkeeper.NewMsgServerImpl(a.BankKeeper)
		e.stakeSrv = stakingkeeper.NewMsgServerImpl(a.StakingKeeper)
		e.govSrv = govkeeper.NewMsgServerImpl(&a.GovKeeper)
		e.markerSrv = markerkeeper.NewMsgServerImpl(a.MarkerKeeper)
		e.exSrv = exchangekeeper.NewMsgServer(a.ExchangeKeeper)
		lockE = e
	})
	lockE.t = t
	return lockE
}

func (e *lockEnv) newHistory() {
	e.ctx, _ = e.base.CacheContext()
	e.accts = nil
	e.kind = map[string]string{}
}

func lockClass(err error) string {
	if err == nil {
		return "ok"
	}
	m := err.Error()
	switch {
	case errors.Is(err, errLockDenied), strings.Contains(m, errLockDenied.Error()):
		return "err:restr"
	case errors.Is(err, sdkerrors.ErrInsufficientFunds), strings.Contains(m, "insufficient funds"),
		strings.Contains(m, "is less than hold amount"):
		return "err:funds"
	case strings.Contains(m, "is not allowed to receive funds"):
		return "err:blocked"
	case errors.Is(err, banktypes.ErrInputOutputMismatch):
		return "err:mismatch"
	case errors.Is(err, banktypes.ErrNoInputs):
		return "err:noinputs"
	case errors.Is(err, banktypes.ErrNoOutputs):
		return "err:nooutputs"
	case errors.Is(err, banktypes.ErrManyToMany):
		return "err:manytomany"
	case errors.Is(err, sdkerrors.ErrInvalidCoins), strings.Contains(m, "invalid coins"):
		return "err:invalid"
	case strings.Contains(m, "on hold"): // "account only has … on hold"
		return "err:overrelease"
	case strings.Contains(m, "cannot be negative"):
		return "err:negative"
	case errors.Is(err, sdkerrors.ErrUnknownAddress):
		return "err:unknownaddr"
	default:
		return "err:other"
	}
}

// lockParseCoins parses `12a,3b` WITHOUT normalising (AddHold must see exactly what the line says).
func lockParseCoins(s string) sdk.Coins {
	if s == "-" || s == "" {
		return nil
	}
	var res sdk.Coins
	for _, p := range strings.Split(s, ",") {
		i := 0
		if strings.HasPrefix(p, "-") {
			i = 1
		}
		for i < len(p) && p[i] >= '0' && p[i] <= '9' {
			i++
		}
		amt, ok := sdkmath.NewIntFromString(p[:i])
		if !ok {
			amt = sdkmath.ZeroInt()
		}
		res = append(res, sdk.Coin{Denom: p[i:], Amount: amt})
	}
	return res
}

func lockCoinsStr(cs sdk.Coins) string {
	var parts []string
	for _, c := range cs {
		if c.Amount.IsZero() {
			continue
		}
		parts = append(parts, c.Denom+"\x00"+c.Amount.String())
	}
	if len(parts) == 0 {
		return "-"
	}
	sort.Strings(parts)
	for i, p := range parts {
		q := strings.SplitN(p, "\x00", 2)
		parts[i] = q[1] + q[0]
	}
	return strings.Join(parts, ",")
}

// `A:5x,3y|B:7x`
func (e *lockEnv) parseParts(s string) (names []string, coins []sdk.Coins) {
	if s == "-" || s == "" {
		return
	}
	for _, ent := range strings.Split(s, "|") {
		p := strings.SplitN(ent, ":", 2)
		names = append(names, p[0])
		if len(p) > 1 {
			coins = append(coins, lockParseCoins(p[1]))
		} else {
			coins = append(coins, nil)
		}
	}
	return
}

func (e *lockEnv) withDirective(ctx sdk.Context, r string) sdk.Context {
	if r == "" || r == "-" {
		return ctx
	}
	return ctx.WithValue(lockDirectiveKey{}, &lockDirective{outcomes: strings.Split(r, ",")})
}

func (e *lockEnv) vacc(ctx sdk.Context, n string) vestexported.VestingAccount {
	acc := e.app.AccountKeeper.GetAccount(ctx, e.addr[n])
	if acc == nil {
		return nil
	}
	v, _ := acc.(vestexported.VestingAccount)
	return v
}

func (e *lockEnv) dump() string {
	var parts []string
	for _, n := range e.accts {
		ad := e.addr[n]
		bal := e.app.BankKeeper.GetAllBalances(e.ctx, ad)
		h, err := e.app.HoldKeeper.GetHoldCoins(e.ctx, ad)
		if err != nil {
			return "err:holdstore"
		}
		sp := e.app.BankKeeper.SpendableCoins(e.ctx, ad)
		s := fmt.Sprintf("%s:b=%s;h=%s;s=%s", n, lockCoinsStr(bal), lockCoinsStr(h), lockCoinsStr(sp))
		if v := e.vacc(e.ctx, n); v != nil {
			s += fmt.Sprintf(";u=%s;dv=%s;df=%s", lockCoinsStr(v.LockedCoins(e.ctx.BlockTime())), lockCoinsStr(v.GetDelegatedVesting()), lockCoinsStr(v.GetDelegatedFree()))
		}
		parts = append(parts, s)
	}
	return JoinOr(parts, "|")
}

func (e *lockEnv) run(f func(ctx sdk.Context) error) string {
	err, pan := Try(e.ctx, f)
	if pan != "" {
		return "panic:" + pan
	}
	return lockClass(err)
}

// exec runs one op line against the real code and returns the canonical impl output.
func (e *lockEnv) exec(op string) string {
	ws := strings.Fields(op)
	a := e.app
	switch ws[0] {
	case "dump":
		return e.dump()
	case "time":
		var t int64
		fmt.Sscan(ws[1], &t)
		e.ctx = e.ctx.WithBlockTime(time.Unix(t, 0))
		return "ok"
	case "acct":
		n, kind := ws[1], ws[2]
		ad, ok := e.addr[n]
		if !ok {
			return "bad-op"
		}
		res := e.run(func(ctx sdk.Context) error {
			switch kind {
			case "base":
				if n == "QH" || n == "ADM" {
					return nil
				}
				acc := a.AccountKeeper.NewAccountWithAddress(ctx, ad)
				_ = acc.SetSequence(7)
				a.AccountKeeper.SetAccount(ctx, acc)
				if kvArg(ws, "quarantine") == "1" {
					return a.QuarantineKeeper.SetOptIn(ctx, ad)
				}
			case "delayed", "cont":
				bacc := authtypes.NewBaseAccountWithAddress(ad)
				bacc.AccountNumber = a.AccountKeeper.NextAccountNumber(ctx)
				_ = bacc.SetSequence(7)
				ov := lockParseCoins(kvArg(ws, "ov"))
				var st, en int64
				fmt.Sscan(kvArg(ws, "start"), &st)
				fmt.Sscan(kvArg(ws, "end"), &en)
				var acc sdk.AccountI
				var err error
				if kind == "delayed" {
					acc, err = vestingtypes.NewDelayedVestingAccount(bacc, ov, en)
				} else {
					acc, err = vestingtypes.NewContinuousVestingAccount(bacc, ov, st, en)
				}
				if err != nil {
					return err
				}
				a.AccountKeeper.SetAccount(ctx, acc)
			case "module", "marker", "market":
				if a.AccountKeeper.GetAccount(ctx, ad) == nil {
					return fmt.Errorf("account %s should exist", n)
				}
			default:
				return fmt.Errorf("unknown kind")
			}
			return nil
		})
		if res == "ok" {
			e.accts = append(e.accts, n)
			e.kind[n] = kind
		}
		return res
	case "have": // the account already owns these coins in the base state
		want := lockParseCoins(ws[2])
		got := a.BankKeeper.GetAllBalances(e.ctx, e.addr[ws[1]])
		if lockCoinsStr(got) != lockCoinsStr(want) {
			return "err:have " + lockCoinsStr(got)
		}
		return "ok"
	case "fund":
		coins := sdk.NewCoins(lockParseCoins(ws[2])...)
		return e.run(func(ctx sdk.Context) error {
			if err := a.BankKeeper.MintCoins(ctx, "mint", coins); err != nil {
				return err
			}
			return a.BankKeeper.SendCoins(markertypes.WithBypass(quarantine.WithBypass(ctx)), authtypes.NewModuleAddress("mint"), e.addr[ws[1]], coins)
		})
	case "send":
		msg := &banktypes.MsgSend{FromAddress: e.addr[ws[1]].String(), ToAddress: e.addr[ws[2]].String(), Amount: lockParseCoins(ws[3])}
		return e.run(func(ctx sdk.Context) error {
			_, err := e.bankSrv.Send(e.withDirective(ctx, kvArg(ws, "r")), msg)
			return err
		})
	case "msend": // msend F T1:c|T2:c r=..
		names, coins := e.parseParts(ws[2])
		msg := &banktypes.MsgMultiSend{}
		total := sdk.Coins{}
		for i, n := range names {
			msg.Outputs = append(msg.Outputs, banktypes.Output{Address: e.addr[n].String(), Coins: coins[i]})
			total = total.Add(coins[i]...)
		}
		in := total
		if v := kvArg(ws, "in"); v != "" {
			in = lockParseCoins(v)
		}
		msg.Inputs = []banktypes.Input{{Address: e.addr[ws[1]].String(), Coins: in}}
		return e.run(func(ctx sdk.Context) error {
			_, err := e.bankSrv.MultiSend(e.withDirective(ctx, kvArg(ws, "r")), msg)
			return err
		})
	case "ioprov": // ioprov F1:c|F2:c T r=..   (n inputs, one output: the exchange's route)
		names, coins := e.parseParts(ws[1])
		var ins []banktypes.Input
		total := sdk.Coins{}
		for i, n := range names {
			ins = append(ins, banktypes.Input{Address: e.addr[n].String(), Coins: coins[i]})
			total = total.Add(coins[i]...)
		}
		outs := []banktypes.Output{{Address: e.addr[ws[2]].String(), Coins: total}}
		return e.run(func(ctx sdk.Context) error {
			return a.BankKeeper.InputOutputCoinsProv(e.withDirective(ctx, kvArg(ws, "r")), ins, outs)
		})
	case "delegate":
		cs := lockParseCoins(ws[2])
		msg := &stakingtypes.MsgDelegate{DelegatorAddress: e.addr[ws[1]].String(), ValidatorAddress: e.val, Amount: cs[0]}
		return e.run(func(ctx sdk.Context) error {
			_, err := e.stakeSrv.Delegate(e.withDirective(ctx, kvArg(ws, "r")), msg)
			return err
		})
	case "undelegate":
		return e.run(func(ctx sdk.Context) error {
			return a.BankKeeper.UndelegateCoinsFromModuleToAccount(ctx, stakingtypes.BondedPoolName, e.addr[ws[1]], lockParseCoins(ws[2]))
		})
	case "burn":
		return e.run(func(ctx sdk.Context) error {
			return a.BankKeeper.BurnCoins(ctx, stakingtypes.BondedPoolName, lockParseCoins(ws[2]))
		})
	case "deposit":
		msg := &govv1.MsgDeposit{ProposalId: e.propID, Depositor: e.addr[ws[1]].String(), Amount: lockParseCoins(ws[2])}
		return e.run(func(ctx sdk.Context) error {
			_, err := e.govSrv.Deposit(ctx, msg)
			return err
		})
	case "mwithdraw": // mwithdraw T coins
		msg := markertypes.NewMsgWithdrawRequest(e.addr["ADM"], e.addr[ws[1]], lockRDenom, lockParseCoins(ws[2]))
		return e.run(func(ctx sdk.Context) error {
			_, err := e.markerSrv.Withdraw(ctx, msg)
			return err
		})
	case "mtransfer": // mtransfer F T coin (forced transfer by ADM)
		cs := lockParseCoins(ws[3])
		msg := markertypes.NewMsgTransferRequest(e.addr["ADM"], e.addr[ws[1]], e.addr[ws[2]], cs[0])
		return e.run(func(ctx sdk.Context) error {
			_, err := e.markerSrv.Transfer(ctx, msg)
			return err
		})
	case "mktwithdraw": // mktwithdraw T coins
		msg := &exchange.MsgMarketWithdrawRequest{Admin: e.addr["ADM"].String(), MarketId: 1, ToAddress: e.addr[ws[1]].String(), Amount: lockParseCoins(ws[2])}
		return e.run(func(ctx sdk.Context) error {
			_, err := e.exSrv.MarketWithdraw(ctx, msg)
			return err
		})
	case "hold":
		return e.run(func(ctx sdk.Context) error {
			return a.HoldKeeper.AddHold(ctx, e.addr[ws[1]], lockParseCoins(ws[2]), "verif")
		})
	case "commit": // a further hold placed by the exchange: MsgCommitFunds -> AddCommitment -> AddHold
		msg := &exchange.MsgCommitFundsRequest{Account: e.addr[ws[1]].String(), MarketId: 1, Amount: lockParseCoins(ws[2])}
		return e.run(func(ctx sdk.Context) error {
			_, err := e.exSrv.CommitFunds(ctx, msg)
			return err
		})
	case "pay": // pay A coins id : MsgCreatePayment -> CreatePayment -> AddHold(source amount)
		msg := &exchange.MsgCreatePaymentRequest{Payment: exchange.Payment{Source: e.addr[ws[1]].String(), SourceAmount: lockParseCoins(ws[2]), ExternalId: ws[3]}}
		return e.run(func(ctx sdk.Context) error {
			_, err := e.exSrv.CreatePayment(ctx, msg)
			return err
		})
	case "release":
		return e.run(func(ctx sdk.Context) error {
			return a.HoldKeeper.ReleaseHold(ctx, e.addr[ws[1]], lockParseCoins(ws[2]))
		})
	case "qaccept": // qaccept T F
		var rel sdk.Coins
		r := e.run(func(ctx sdk.Context) error {
			var err error
			rel, err = a.QuarantineKeeper.AcceptQuarantinedFunds(ctx, e.addr[ws[1]], e.addr[ws[2]])
			return err
		})
		if r == "ok" {
			return "ok " + lockCoinsStr(rel)
		}
		return r
	case "spendable":
		ad := e.addr[ws[1]]
		return Guard(func() string {
			resp, err := a.BankKeeper.SpendableBalances(e.ctx, &banktypes.QuerySpendableBalancesRequest{Address: ad.String()})
			if err != nil {
				return "err:query"
			}
			var by sdk.Coins
			for _, c := range a.BankKeeper.GetAllBalances(e.ctx, ad) {
				r2, err := a.BankKeeper.SpendableBalanceByDenom(e.ctx, &banktypes.QuerySpendableBalanceByDenomRequest{Address: ad.String(), Denom: c.Denom})
				if err != nil || r2.Balance == nil {
					return "err:query"
				}
				by = append(by, *r2.Balance)
			}
			return "ok " + lockCoinsStr(resp.Balances) + " " + lockCoinsStr(by)
		})
	case "kspend": // kspend X vb=0|1 hb=0|1 : SpendableCoins under the context bypass flags
		ctx := e.ctx
		if kvArg(ws, "vb") == "1" {
			ctx = banktypes.WithVestingLockedBypass(ctx)
		}
		if kvArg(ws, "hb") == "1" {
			ctx = hold.WithBypass(ctx)
		}
		return Guard(func() string {
			return "ok " + lockCoinsStr(a.BankKeeper.SpendableCoins(ctx, e.addr[ws[1]])) + " " + lockCoinsStr(a.BankKeeper.LockedCoins(ctx, e.addr[ws[1]]))
		})
	case "inv":
		return Guard(func() string {
			_, broken := holdkeeper.HoldAccountBalancesInvariant(a.HoldKeeper)(e.ctx)
			if broken {
				return "broken"
			}
			return "ok"
		})
	}
	return "bad-op"
}

// ---------- generator ----------

type lockGen struct {
	e   *lockEnv
	rng *RNG
	out *Out
}

func (g *lockGen) emit(op string) string {
	r := g.e.exec(op)
	k := strings.Fields(op)[0]
	g.out.Count("op:" + k)
	if k != "dump" && k != "acct" && k != "fund" && k != "have" && k != "time" {
		rc := strings.Fields(r)[0]
		g.out.Count("res:" + k + ":" + rc)
	}
	g.out.Emit(op, r)
	return r
}

func (g *lockGen) bal(n, d string) sdkmath.Int {
	return g.e.app.BankKeeper.GetBalance(g.e.ctx, g.e.addr[n], d).Amount
}
func (g *lockGen) held(n, d string) sdkmath.Int {
	c, err := g.e.app.HoldKeeper.GetHoldCoin(g.e.ctx, g.e.addr[n], d)
	if err != nil {
		return sdkmath.ZeroInt()
	}
	return c.Amount
}
func (g *lockGen) unv(n, d string) sdkmath.Int {
	if v := g.e.vacc(g.e.ctx, n); v != nil {
		return v.LockedCoins(g.e.ctx.BlockTime()).AmountOf(d)
	}
	return sdkmath.ZeroInt()
}

// amount picks an amount for a debit of denom d from account n: mostly at the
// balance−hold(−unvested) boundaries.
func (g *lockGen) amount(n, d string) sdkmath.Int {
	b, h, u := g.bal(n, d), g.held(n, d), g.unv(n, d)
	if h.IsPositive() {
		g.out.Count("src:held")
	} else {
		g.out.Count("src:nohold")
	}
	if u.IsPositive() {
		g.out.Count("src:unvested")
	}
	g.out.Count("srckind:" + g.e.kind[n])
	var x sdkmath.Int
	k := g.rng.Intn(100)
	switch {
	case k < 12:
		x = b.Sub(h).SubRaw(1)
		g.out.Count("amt:bal-hold-1")
	case k < 26:
		x = b.Sub(h)
		g.out.Count("amt:bal-hold")
	case k < 40:
		x = b.Sub(h).AddRaw(1)
		g.out.Count("amt:bal-hold+1")
	case k < 48:
		x = b.Sub(h).Sub(u).SubRaw(1)
		g.out.Count("amt:bal-hold-unv-1")
	case k < 58:
		x = b.Sub(h).Sub(u)
		g.out.Count("amt:bal-hold-unv")
	case k < 68:
		x = b.Sub(h).Sub(u).AddRaw(1)
		g.out.Count("amt:bal-hold-unv+1")
	case k < 73:
		x = b
		g.out.Count("amt:bal")
	case k < 77:
		x = b.AddRaw(1)
		g.out.Count("amt:bal+1")
	case k < 80:
		x = h
		g.out.Count("amt:hold")
	default:
		x = sdkmath.NewInt(int64(1 + g.rng.Intn(60)))
		g.out.Count("amt:small")
	}
	if !x.IsPositive() {
		x = sdkmath.NewInt(int64(1 + g.rng.Intn(3)))
		g.out.Count("amt:clamped")
	}
	return x
}

func (g *lockGen) restr(pct int, calls int, targets []string) string {
	if !g.rng.Chance(pct) {
		return ""
	}
	var os []string
	for i := 0; i < calls; i++ {
		switch k := g.rng.Intn(10); {
		case k < 5:
			os = append(os, "ok")
		case k < 8:
			os = append(os, "deny")
		default:
			os = append(os, Pick(g.rng, targets))
		}
	}
	return " r=" + strings.Join(os, ",")
}

func lockHistory(e *lockEnv, rng *RNG, out *Out, h int) {
	g := &lockGen{e: e, rng: rng, out: out}
	e.newHistory()
	out.Comment(fmt.Sprintf("history %d", h))
	bond := e.bond
	denoms := []string{bond, "apple", lockRDenom}
	t0 := int64(1000)
	g.emit(fmt.Sprintf("time %d", t0))
	for _, n := range []string{"POOL", "GOV"} {
		g.emit("acct " + n + " module")
	}
	g.emit("acct MK marker")
	g.emit("acct MKT market")
	g.emit("acct QH base")
	g.emit("acct ADM base")
	g.emit("acct A base")
	g.emit("acct B base")
	g.emit("acct Q base quarantine=1")
	// vesting accounts: delayed V (bond denom) and continuous C (bond + apple), schedules around now
	vov := int64(100 + rng.Intn(900))
	vend := t0 + int64(rng.Intn(4)*500) // may already be over (end == now)
	g.emit(fmt.Sprintf("acct V delayed ov=%d%s end=%d", vov, bond, vend))
	cov1, cov2 := int64(100+rng.Intn(900)), int64(50+rng.Intn(300))
	cst := t0 - int64(rng.Intn(3)*400) + int64(rng.Intn(2)*300)
	cen := cst + int64(1+rng.Intn(2000))
	// "apple" < bond denom ("stake"/"nhash") alphabetically? keep ov sorted by building through sdk.NewCoins
	cov := sdk.NewCoins(sdk.NewInt64Coin(bond, cov1), sdk.NewInt64Coin("apple", cov2))
	g.emit(fmt.Sprintf("acct C cont ov=%s start=%d end=%d", lockCoinsStr(cov), cst, cen))
	for _, n := range []string{"POOL", "GOV", "MK", "MKT", "QH", "ADM"} {
		g.emit(fmt.Sprintf("have %s %s", n, lockCoinsStr(e.app.BankKeeper.GetAllBalances(e.ctx, e.addr[n]))))
	}
	fundCoins := func(lo int) string {
		return lockCoinsStr(sdk.NewCoins(sdk.NewInt64Coin(bond, int64(lo+rng.Intn(1500))), sdk.NewInt64Coin("apple", int64(lo/2+rng.Intn(700))), sdk.NewInt64Coin(lockRDenom, int64(10+rng.Intn(300)))))
	}
	for _, n := range []string{"A", "B", "MK", "MKT", "QH"} {
		g.emit("fund " + n + " " + fundCoins(100))
	}
	g.emit(fmt.Sprintf("fund V %s", lockCoinsStr(sdk.NewCoins(sdk.NewInt64Coin(bond, vov+int64(rng.Intn(400))), sdk.NewInt64Coin(lockRDenom, int64(10+rng.Intn(100)))))))
	g.emit(fmt.Sprintf("fund C %s", lockCoinsStr(sdk.NewCoins(sdk.NewInt64Coin(bond, cov1+int64(rng.Intn(400))), sdk.NewInt64Coin("apple", cov2+int64(rng.Intn(200))), sdk.NewInt64Coin(lockRDenom, int64(10+rng.Intn(100)))))))
	if rng.Chance(40) {
		g.emit(fmt.Sprintf("fund POOL %s", lockCoinsStr(sdk.NewCoins(sdk.NewInt64Coin("apple", int64(1+rng.Intn(300)))))))
	}
	g.emit("dump")

	holders := []string{"A", "B", "V", "C", "MK", "MKT", "QH", "POOL"}
	users := []string{"A", "B", "V", "C"}
	placeHold := func(n string) {
		var cs sdk.Coins
		for _, d := range denoms {
			if !rng.Chance(55) {
				continue
			}
			sp := e.app.BankKeeper.SpendableCoins(e.ctx, e.addr[n]).AmountOf(d)
			var x sdkmath.Int
			switch k := rng.Intn(10); {
			case k < 2:
				x = sp
			case k < 3:
				x = sp.AddRaw(1)
			case k < 4 && sp.IsPositive():
				x = sp.SubRaw(1)
			default:
				if sp.IsPositive() {
					x = sdkmath.NewInt(1 + int64(rng.U64()%uint64(minI64(sp.Int64(), 1<<40))))
				} else {
					x = sdkmath.NewInt(int64(rng.Intn(3)))
				}
			}
			if x.IsNegative() {
				x = sdkmath.ZeroInt()
			}
			if !x.IsPositive() { // AddHold only ever sees valid sdk.Coins: positive, sorted, distinct denoms
				continue
			}
			cs = append(cs, sdk.Coin{Denom: d, Amount: x})
		}
		sort.Slice(cs, func(i, j int) bool { return cs[i].Denom < cs[j].Denom })
		if len(cs) == 0 {
			cs = sdk.Coins{sdk.NewInt64Coin(bond, int64(1+rng.Intn(50)))}
		}
		parts := make([]string, len(cs))
		for i, c := range cs {
			parts[i] = c.Amount.String() + c.Denom
		}
		g.emit("hold " + n + " " + strings.Join(parts, ","))
		g.emit("dump")
	}
	// holds first: one on a random account of every history, often several
	nh := 2 + rng.Intn(4)
	perm := append([]string{}, holders...)
	for i := len(perm) - 1; i > 0; i-- {
		j := rng.Intn(i + 1)
		perm[i], perm[j] = perm[j], perm[i]
	}
	for i := 0; i < nh; i++ {
		placeHold(perm[i%len(perm)])
	}
	// pickSrc chooses the account/denom a route debits: mostly one that carries a hold
	pickSrc := func(allowed, ds []string) (string, string) {
		if rng.Chance(65) {
			var cands [][2]string
			for _, n := range allowed {
				for _, d := range ds {
					if g.held(n, d).IsPositive() {
						cands = append(cands, [2]string{n, d})
					}
				}
			}
			if len(cands) > 0 {
				c := Pick(rng, cands)
				return c[0], c[1]
			}
		}
		return Pick(rng, allowed), Pick(rng, ds)
	}
	plain := []string{bond, "apple"}
	coinOf := func(n, d string) string { return g.amount(n, d).String() + d }
	coinsOfD := func(n, d string) string {
		// one or two denoms, sorted
		ds := []string{d}
		if rng.Chance(25) {
			ds = []string{bond, "apple"}
		}
		sort.Strings(ds)
		var ps []string
		for _, d := range ds {
			ps = append(ps, coinOf(n, d))
		}
		return strings.Join(ps, ",")
	}
	now := t0
	var qsenders []string
	noteQ := func(op, res, f string) {
		if res == "ok" && strings.Contains(op, " Q") || strings.Contains(op, "Q:") && res == "ok" {
			qsenders = append(qsenders, f)
		}
	}
	steps := 10 + rng.Intn(14)
	for s := 0; s < steps; s++ {
		switch k := rng.Intn(100); {
		case k < 16: // bank MsgSend
			f, d := pickSrc(users, plain)
			to := Pick(rng, []string{"A", "B", "V", "C", "MKT", "Q", "Q", "Q", "POOL"})
			if to == f {
				to = "B"
			}
			op := fmt.Sprintf("send %s %s %s%s", f, to, coinsOfD(f, d), g.restr(15, 1, []string{"A", "B", "MKT"}))
			noteQ(op, g.emit(op), f)
		case k < 26: // MsgMultiSend 1→n
			f, d := pickSrc(users, plain)
			nOut := 1 + rng.Intn(3)
			tot := g.amount(f, d)
			var outs []string
			rest := tot
			for i := 0; i < nOut && rest.IsPositive(); i++ {
				x := rest
				if i < nOut-1 && rest.GT(sdkmath.OneInt()) {
					x = sdkmath.NewInt(1 + int64(rng.U64()%uint64(minI64(rest.Int64()-1, 1<<40))))
				}
				rest = rest.Sub(x)
				outs = append(outs, fmt.Sprintf("%s:%s%s", Pick(rng, []string{"A", "B", "Q", "MKT", "C"}), x, d))
			}
			extra := ""
			if rng.Chance(6) { // malformed: totals differ
				extra = fmt.Sprintf(" in=%s%s", tot.AddRaw(1), d)
			}
			op := fmt.Sprintf("msend %s %s%s%s", f, strings.Join(outs, "|"), extra, g.restr(15, len(outs), []string{"A", "B", "MKT"}))
			noteQ(op, g.emit(op), f)
		case k < 34: // InputOutputCoinsProv n→1
			n := 1 + rng.Intn(3)
			var ins []string
			for i := 0; i < n; i++ {
				f, d := pickSrc([]string{"A", "B", "V", "C", "MKT"}, plain)
				if i > 0 && rng.Chance(60) { // only one input at the boundary, the others small
					ins = append(ins, fmt.Sprintf("%s:%d%s", f, 1+rng.Intn(20), d))
					continue
				}
				ins = append(ins, fmt.Sprintf("%s:%s", f, coinOf(f, d)))
			}
			g.emit(fmt.Sprintf("ioprov %s %s%s", strings.Join(ins, "|"), Pick(rng, []string{"A", "B", "MKT"}), g.restr(15, n, []string{"A", "B"})))
		case k < 46: // staking MsgDelegate (vesting bypass)
			f, _ := pickSrc([]string{"A", "V", "V", "C", "C", "B"}, []string{bond})
			g.emit(fmt.Sprintf("delegate %s %s%s", f, coinOf(f, bond), g.restr(8, 1, []string{"A"})))
		case k < 51:
			f := Pick(rng, users)
			g.emit(fmt.Sprintf("undelegate %s %s", f, coinOf("POOL", bond)))
		case k < 54:
			_, d := pickSrc([]string{"POOL"}, plain)
			g.emit(fmt.Sprintf("burn POOL %s", coinsOfD("POOL", d)))
		case k < 61: // gov MsgDeposit
			f, _ := pickSrc(users, []string{bond})
			g.emit(fmt.Sprintf("deposit %s %s", f, coinOf(f, bond)))
		case k < 68: // marker withdraw from the marker account (escrow with a hold)
			_, d := pickSrc([]string{"MK"}, denoms)
			g.emit(fmt.Sprintf("mwithdraw %s %s", Pick(rng, []string{"A", "B", "ADM"}), coinOf("MK", d)))
		case k < 76: // marker forced transfer of the restricted denom out of a user / market account
			f, _ := pickSrc([]string{"A", "B", "V", "C", "MKT"}, []string{lockRDenom})
			to := Pick(rng, []string{"A", "B", "ADM"})
			if to == f {
				to = "ADM"
			}
			g.emit(fmt.Sprintf("mtransfer %s %s %s", f, to, coinOf(f, lockRDenom)))
		case k < 83: // exchange MarketWithdraw
			_, d := pickSrc([]string{"MKT"}, plain)
			g.emit(fmt.Sprintf("mktwithdraw %s %s", Pick(rng, []string{"A", "B", "ADM"}), coinsOfD("MKT", d)))
		case k < 88: // quarantine accept (funds leave the holder account, which may carry a hold)
			f := Pick(rng, users)
			if len(qsenders) > 0 && rng.Chance(85) {
				f = Pick(rng, qsenders)
				if rng.Chance(40) { // the funds holder itself carries a hold
					placeHold("QH")
				}
			}
			if r := g.emit(fmt.Sprintf("qaccept Q %s", f)); strings.HasPrefix(r, "ok ") && r != "ok -" {
				out.Count("qaccept:released")
			}
		case k < 90:
			placeHold(Pick(rng, holders))
			continue
		case k < 92: // a second hold through the exchange (commitment / payment)
			f := Pick(rng, users)
			d := Pick(rng, denoms)
			sp := e.app.BankKeeper.SpendableCoins(e.ctx, e.addr[f]).AmountOf(d)
			x := sp.AddRaw(int64(rng.Intn(3) - 1))
			if rng.Chance(40) && sp.IsPositive() {
				x = sdkmath.NewInt(1 + int64(rng.U64()%uint64(minI64(sp.Int64(), 1<<40))))
			}
			if !x.IsPositive() {
				x = sdkmath.OneInt()
			}
			if rng.Bool() {
				g.emit(fmt.Sprintf("commit %s %s%s", f, x, d))
			} else {
				g.emit(fmt.Sprintf("pay %s %s%s p%d", f, x, d, s))
			}
		case k < 95: // release part of a hold
			n := Pick(rng, holders)
			d := Pick(rng, denoms)
			if rng.Chance(85) { // prefer an (account, denom) that carries a hold
				var cands [][2]string
				for _, hn := range holders {
					for _, hd := range denoms {
						if g.held(hn, hd).IsPositive() {
							cands = append(cands, [2]string{hn, hd})
						}
					}
				}
				if len(cands) > 0 {
					c := Pick(rng, cands)
					n, d = c[0], c[1]
				}
			}
			h := g.held(n, d)
			x := sdkmath.NewInt(int64(1 + rng.Intn(20)))
			if h.IsPositive() && rng.Chance(70) {
				x = sdkmath.NewInt(1 + int64(rng.U64()%uint64(minI64(h.Int64(), 1<<40))))
			} else if rng.Chance(30) {
				x = h.AddRaw(1)
			}
			g.emit(fmt.Sprintf("release %s %s%s", n, x, d))
		case k < 97: // block time moves forward
			now += int64(rng.Intn(900))
			g.emit(fmt.Sprintf("time %d", now))
		default:
			n := Pick(rng, holders)
			g.emit("spendable " + n)
			g.emit(fmt.Sprintf("kspend %s vb=%d hb=%d", n, rng.Intn(2), rng.Intn(2)))
			g.emit("inv")
			continue
		}
		g.emit("dump")
	}
	g.emit("spendable " + Pick(rng, holders))
	g.emit("inv")
}

func minI64(a, b int64) int64 {
	if a < b {
		return a
	}
	return b
}

func driveLock(t *testing.T, rng *RNG, n int, out *Out) {
	e := lockSetup(t)
	for h := 0; h < n; h++ {
		lockHistory(e, rng, out, h)
	}
}

func replayLock(t *testing.T, ops []string, out *Out) {
	e := lockSetup(t)
	e.newHistory()
	for _, op := range ops {
		if strings.HasPrefix(op, "#") {
			if strings.HasPrefix(op, "# history") {
				e.newHistory()
			}
			out.Comment(strings.TrimPrefix(strings.TrimPrefix(op, "#"), " "))
			continue
		}
		out.Emit(op, e.exec(op))
	}
}
