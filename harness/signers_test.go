package harness

// Model "signers" (C10): metadata signer rules.  Drives the REAL metadata keeper
// (ValidateSignersWithParties / ValidateSignersWithoutParties and the whole
// ValidateWriteScope / ValidateDeleteScope / Validate{Add,Delete}ScopeDataAccess /
// ValidateUpdateScopeOwners / ValidateWriteSession / ValidateWriteRecord /
// ValidateDeleteRecord paths) on a real app with the REAL authz keeper and account keeper.
//
// A good share of the endpoint cases (`via=msg`, and every `mowners` op) goes END TO END through
// the real metadata MsgServer (WriteScope, DeleteScope, Add/DeleteScopeDataAccess,
// Add/DeleteScopeOwner, WriteSession, WriteRecord, DeleteRecord) on STORED scopes, sessions and
// records: the message server's own look-ups, copies and list edits (AddOwners / RemoveOwners /
// AddDataAccess / RemoveDataAccess) are then part of what is compared, and after an accepted
// message the stored entry is read back.
//
// Scope writes change any subset of the scope's fields at once (owners, data access,
// require_party_rollup, specification, value owner); scope writes / deletions also run on scopes
// that HAVE a value owner (`vo=`: the holder of the scope's coin in the real bank module; `pvo=`:
// the value_owner_address of the message).  Stored sessions may have the shape another rollup
// regime left behind.  Whole histories of messages: signershist_test.go.
//
// Address names (fixed convention shared with lean/PvModel/SignersDriver.lean):
// A B C D ordinary accounts (sequence 7), W V smart-contract accounts (base account,
// sequence 0, no pubkey: what isWasmAccount detects), N valid address without account,
// X a non-bech32 string, E the empty string.

import (
	"flag"
	"fmt"
	"reflect"
	"regexp"
	"sort"
	"strconv"
	"strings"
	"sync"
	"testing"
	"time"

	"github.com/google/uuid"

	sdk "github.com/cosmos/cosmos-sdk/types"
	"github.com/cosmos/cosmos-sdk/x/authz"

	"github.com/provenance-io/provenance/app"
	metadatakeeper "github.com/provenance-io/provenance/x/metadata/keeper"
	"github.com/provenance-io/provenance/x/metadata/types"
)

func init() {
	drivers["signers"] = driveSigners
	replayers["signers"] = replaySigners
}

var flagSignersShards = flag.Int("signers.shards", 16, "number of shards the exhaustive signers universe is split over")

const signersMsgPrefix = "/provenance.metadata.v1.Msg"

type signersEnv struct {
	app      *app.App
	base     sdk.Context
	bech     map[string]string
	name     map[string]string
	msgTypes map[string]reflect.Type // short name -> struct type
	msgNames []string
	exp      time.Time

	scopeUUID, sessUUID, oldSessUUID, scopeSpecUUID, scopeSpec2UUID, cSpecUUID uuid.UUID

	// exhaustive enumeration only: a context whose authz store already holds sharedGrants
	wantShared   bool
	shared       *sdk.Context
	sharedGrants string
}

var (
	signersOnce sync.Once
	signersE    *signersEnv
)

func signersSetup(t *testing.T) *signersEnv {
	signersOnce.Do(func() {
		a, ctx := NewApp(t)
		ctx = ctx.WithBlockTime(time.Unix(1_700_000_000, 0).UTC())
		e := &signersEnv{app: a, bech: map[string]string{}, name: map[string]string{}, msgTypes: map[string]reflect.Type{}}
		for _, n := range []string{"A", "B", "C", "D", "W", "V", "N"} {
			ad := sdk.AccAddress([]byte("verif_signers_acct_" + n))
			e.bech[n] = ad.String()
			e.name[ad.String()] = n
			switch n {
			case "A", "B", "C", "D":
				acc := a.AccountKeeper.NewAccountWithAddress(ctx, ad)
				if err := acc.SetSequence(7); err != nil {
					t.Fatal(err)
				}
				a.AccountKeeper.SetAccount(ctx, acc)
			case "W", "V":
				// a base account with sequence 0 and no public key: isWasmAccount says yes
				a.AccountKeeper.SetAccount(ctx, a.AccountKeeper.NewAccountWithAddress(ctx, ad))
			}
		}
		e.bech["X"] = "xinvalid"
		e.name["xinvalid"] = "X"
		e.bech["E"] = ""
		e.name[""] = "E"
		for _, m := range types.AllRequestMsgs {
			url := sdk.MsgTypeURL(m)
			short := strings.TrimSuffix(strings.TrimPrefix(url, signersMsgPrefix), "Request")
			if f, ok := reflect.TypeOf(m).Elem().FieldByName("Signers"); !ok || f.Type != reflect.TypeOf([]string(nil)) {
				// the object-store-locator messages are signed by the locator's owner and never
				// reach the party/signer validation
				continue
			}
			e.msgTypes[short] = reflect.TypeOf(m).Elem()
			e.msgNames = append(e.msgNames, short)
		}
		sort.Strings(e.msgNames)
		e.exp = ctx.BlockTime().Add(time.Hour)
		e.scopeUUID = uuid.MustParse("11111111-1111-4111-8111-111111111111")
		e.sessUUID = uuid.MustParse("22222222-2222-4222-8222-222222222222")
		e.oldSessUUID = uuid.MustParse("33333333-3333-4333-8333-333333333333")
		e.scopeSpecUUID = uuid.MustParse("44444444-4444-4444-8444-444444444444")
		e.cSpecUUID = uuid.MustParse("55555555-5555-4555-8555-555555555555")
		e.scopeSpec2UUID = uuid.MustParse("66666666-6666-4666-8666-666666666666")
		e.base = ctx
		signersE = e
	})
	return signersE
}

// ---- parsing the op line -------------------------------------------------------------

type signersOp struct {
	kind string
	kv   map[string]string
}

func signersParse(line string) (signersOp, error) {
	ws := strings.Fields(line)
	if len(ws) == 0 {
		return signersOp{}, fmt.Errorf("empty op")
	}
	op := signersOp{kind: ws[0], kv: map[string]string{}}
	for _, w := range ws[1:] {
		i := strings.Index(w, "=")
		if i < 0 {
			return op, fmt.Errorf("bad word %q", w)
		}
		op.kv[w[:i]] = w[i+1:]
	}
	return op, nil
}

func signersList(s string) []string {
	if s == "-" || s == "" {
		return nil
	}
	return strings.Split(s, "|")
}

func (e *signersEnv) addrs(s string) ([]string, error) {
	var rv []string
	for _, n := range signersList(s) {
		b, ok := e.bech[n]
		if !ok {
			return nil, fmt.Errorf("unknown address name %q", n)
		}
		rv = append(rv, b)
	}
	return rv, nil
}

func (e *signersEnv) parties(s string) ([]types.Party, error) {
	var rv []types.Party
	for _, p := range signersList(s) {
		f := strings.Split(p, ":")
		if len(f) != 3 {
			return nil, fmt.Errorf("bad party %q", p)
		}
		b, ok := e.bech[f[0]]
		if !ok {
			return nil, fmt.Errorf("unknown address name %q", f[0])
		}
		r, err := strconv.Atoi(f[1])
		if err != nil {
			return nil, err
		}
		rv = append(rv, types.Party{Address: b, Role: types.PartyType(r), Optional: f[2] == "o"})
	}
	return rv, nil
}

func signersRoles(s string) ([]types.PartyType, error) {
	var rv []types.PartyType
	for _, r := range signersList(s) {
		n, err := strconv.Atoi(r)
		if err != nil {
			return nil, err
		}
		rv = append(rv, types.PartyType(n))
	}
	return rv, nil
}

type signersScope struct {
	rollup bool
	other  int
	owners []types.Party
}

func (e *signersEnv) scope(s string) (*signersScope, error) {
	if s == "none" {
		return nil, nil
	}
	f := strings.Split(s, "/")
	if len(f) != 3 {
		return nil, fmt.Errorf("bad scope %q", s)
	}
	o, err := strconv.Atoi(f[1])
	if err != nil {
		return nil, err
	}
	ps, err := e.parties(f[2])
	if err != nil {
		return nil, err
	}
	return &signersScope{rollup: f[0] == "1", other: o, owners: ps}, nil
}

func (e *signersEnv) newMsg(short string, signers []string) (types.MetadataMsg, error) {
	ty, ok := e.msgTypes[short]
	if !ok {
		return nil, fmt.Errorf("unknown msg type %q", short)
	}
	v := reflect.New(ty)
	v.Elem().FieldByName("Signers").Set(reflect.ValueOf(signers))
	return v.Interface().(types.MetadataMsg), nil
}

// saveGrants stores the grants of the op line in the REAL authz keeper.  Flavours:
// `g>e:T` GenericAuthorization; `g>e:T#k` CountAuthorization with k uses left (k ≥ 1);
// `g>e:T!` a GenericAuthorization that expired an hour ago.  Returns whether a consumable
// (count) grant was stored.
func (e *signersEnv) saveGrants(ctx sdk.Context, s string) (bool, error) {
	consumable := false
	for _, g := range signersList(s) {
		f := strings.Split(g, ":")
		if len(f) != 2 {
			return false, fmt.Errorf("bad grant %q", g)
		}
		pair := strings.Split(f[0], ">")
		if len(pair) != 2 {
			return false, fmt.Errorf("bad grant %q", g)
		}
		granter, err := sdk.AccAddressFromBech32(e.bech[pair[0]])
		if err != nil {
			return false, fmt.Errorf("grant %q: granter: %w", g, err)
		}
		grantee, err := sdk.AccAddressFromBech32(e.bech[pair[1]])
		if err != nil {
			return false, fmt.Errorf("grant %q: grantee: %w", g, err)
		}
		ty, expired, count := f[1], false, 0
		if strings.HasSuffix(ty, "!") {
			ty, expired = strings.TrimSuffix(ty, "!"), true
		}
		if i := strings.Index(ty, "#"); i >= 0 {
			if count, err = strconv.Atoi(ty[i+1:]); err != nil || count < 1 {
				return false, fmt.Errorf("grant %q: bad count", g)
			}
			ty = ty[:i]
		}
		if _, ok := e.msgTypes[ty]; !ok {
			return false, fmt.Errorf("grant %q: unknown type", g)
		}
		url := signersMsgPrefix + ty + "Request"
		var a authz.Authorization = authz.NewGenericAuthorization(url)
		if count > 0 {
			a = authz.NewCountAuthorization(url, int32(count))
			consumable = true
		}
		exp, sctx := e.exp, ctx
		if expired {
			exp = ctx.BlockTime().Add(-time.Hour)
			sctx = ctx.WithBlockTime(ctx.BlockTime().Add(-2 * time.Hour))
		}
		if err = e.app.AuthzKeeper.SaveGrant(sctx, grantee, granter, a, &exp); err != nil {
			return false, err
		}
	}
	return consumable, nil
}

// ---- canonical output ----------------------------------------------------------------

var (
	signersReParty = regexp.MustCompile(`^(\S*) \(([A-Z_0-9]+)\)$`)
	signersReShort = regexp.MustCompile(`^([A-Z_0-9]+) need (\d+) have (\d+)$`)
)

func signersRoleNum(simple string) string {
	if v, ok := types.PartyType_value["PARTY_TYPE_"+simple]; ok {
		return strconv.Itoa(int(v))
	}
	return simple
}

func (e *signersEnv) sym(b string) string {
	if n, ok := e.name[b]; ok {
		return n
	}
	return "?"
}

func (e *signersEnv) partyList(s string, withRoles bool) string {
	var out []string
	for _, it := range strings.Split(s, ", ") {
		if withRoles {
			m := signersReParty.FindStringSubmatch(it)
			if m == nil {
				out = append(out, "?")
				continue
			}
			out = append(out, e.sym(m[1])+":"+signersRoleNum(m[2]))
		} else {
			out = append(out, e.sym(it)+":0")
		}
	}
	return JoinOr(out, ",")
}

func signersShortList(s string) string {
	var out []string
	for _, it := range strings.Split(s, ", ") {
		m := signersReShort.FindStringSubmatch(it)
		if m == nil {
			out = append(out, "?")
			continue
		}
		out = append(out, signersRoleNum(m[1])+":"+m[2]+":"+m[3])
	}
	return JoinOr(out, ",")
}

func signersAfter(m, marker string) string {
	i := strings.Index(m, marker)
	if i < 0 {
		return ""
	}
	rest := m[i+len(marker):]
	// skip the plural ending and ": "
	j := strings.Index(rest, ": ")
	if j < 0 {
		return ""
	}
	return rest[j+2:]
}

// class maps an error to `err:<class> [detail]` — a class per fmt.Errorf site, with the
// structured part of the message (which parties / roles) but never free text.
func (e *signersEnv) class(err error) string {
	if err == nil {
		return "ok"
	}
	// the message server wraps the keeper's error: "<text>: invalid request"
	m := strings.TrimSuffix(err.Error(), ": invalid request")
	switch {
	// message-server level rejections (before any signature is looked at)
	case strings.Contains(m, "at least one signer is required"), strings.HasPrefix(m, "invalid owners: "),
		strings.Contains(m, "at least one owner address is required"), strings.Contains(m, "owner address is invalid"):
		return "err:basic"
	case strings.Contains(m, "scope not found with id"):
		return "err:notfound"
	case strings.Contains(m, "party already exists with address"):
		return "err:owner_exists"
	case strings.Contains(m, "address does not exist in scope owners"):
		return "err:owner_absent"
	case strings.Contains(m, "invalid scope owners: at least one party is required"):
		return "err:no_owners"
	case strings.Contains(m, "address already exists for data access"):
		return "err:da_exists"
	case strings.Contains(m, "address does not exist in scope data access"):
		return "err:da_absent"
	case strings.Contains(m, "missing required signature"):
		return "err:missing_sig " + e.partyList(signersAfter(m, "missing required signature"), true)
	case strings.Contains(m, "missing signers for roles required by spec: "):
		return "err:missing_role_signers " + signersShortList(signersAfter(m, "missing signers for roles required by spec"))
	case strings.Contains(m, "missing roles required by spec: "):
		return "err:roles_absent " + signersShortList(signersAfter(m, "missing roles required by spec"))
	case strings.Contains(m, "missing signature from existing value owner"):
		return "err:value_owner"
	case strings.Contains(m, "missing signature"):
		return "err:missing_sig " + e.partyList(signersAfter(m, "missing signature"), false)
	case strings.Contains(m, "missing party: "), strings.Contains(m, "missing parties: "):
		return "err:parties_absent " + e.partyList(signersAfter(m, "missing part"), true)
	case strings.Contains(m, "is a smart contract but does not have the PROVENANCE role"):
		return "err:wasm_not_prov"
	case strings.Contains(m, "has role PROVENANCE but is not a smart contract"):
		return "err:prov_not_wasm"
	case strings.Contains(m, "invalid signer["), strings.Contains(m, "invalid signer address"):
		return "err:invalid_signer"
	case strings.Contains(m, "cannot follow non-smart-contract signer"):
		return "err:wasm_order"
	case strings.Contains(m, "cannot be the last signer"):
		return "err:wasm_last"
	case strings.Contains(m, "smart contract signer") && strings.Contains(m, "is not authorized"):
		return "err:wasm_unauth"
	case strings.Contains(m, "parties can only be optional when require_party_rollup"):
		return "err:optional_not_allowed"
	}
	return "err:other"
}

func signersFirst(s string) string {
	if i := strings.Index(s, " "); i >= 0 {
		return s[:i]
	}
	return s
}

func (e *signersEnv) details(ds []types.TestablePartyDetails) string {
	var out []string
	for _, d := range ds {
		signer := d.Signer
		if signer == "" && len(d.SignerAcc) > 0 {
			signer = d.SignerAcc.String()
		}
		ss := "-"
		if signer != "" {
			ss = e.sym(signer)
		}
		addr := d.Address
		if addr == "" && len(d.Acc) > 0 {
			addr = d.Acc.String()
		}
		o, c, u := "r", "n", "n"
		if d.Optional {
			o = "o"
		}
		if d.CanBeUsedBySpec {
			c = "c"
		}
		if d.UsedBySpec {
			u = "u"
		}
		out = append(out, fmt.Sprintf("%s:%d:%s:%s:%s:%s", e.sym(addr), int(d.Role), o, ss, c, u))
	}
	return JoinOr(out, "|")
}

// showParties renders a stored party list in the op-line syntax.
func (e *signersEnv) showParties(ps []types.Party) string {
	out := make([]string, len(ps))
	for i, p := range ps {
		o := "r"
		if p.Optional {
			o = "o"
		}
		out[i] = fmt.Sprintf("%s:%d:%s", e.sym(p.Address), int(p.Role), o)
	}
	return JoinOr(out, "|")
}

// voAddr: the bech32 of a value-owner name (`-` or absent: none).
func (e *signersEnv) voAddr(n string) (string, error) {
	if n == "" || n == "-" {
		return "", nil
	}
	b, ok := e.bech[n]
	if !ok || !signersGValidName(n) || n == "N" {
		return "", fmt.Errorf("bad value owner %q", n)
	}
	return b, nil
}

// showVO: the name of the holder of the scope's coin (`-`: nobody).
func (e *signersEnv) showVO(ctx sdk.Context) string {
	scopeID, _, _, _, _, _, _ := e.ids()
	vo, err := e.app.MetadataKeeper.GetScopeValueOwner(ctx, scopeID)
	if err != nil {
		return "?"
	}
	if len(vo) == 0 {
		return "-"
	}
	return e.sym(vo.String())
}

// showScope renders a stored scope in the op-line syntax (rollup/number of data access entries/owners).
func (e *signersEnv) showScope(sc types.Scope) string {
	r := "0"
	if sc.RequirePartyRollup {
		r = "1"
	}
	return fmt.Sprintf("%s/%d/%s", r, len(sc.DataAccess), e.showParties(sc.Owners))
}

// ---- executing one op on the real keeper ---------------------------------------------

func (e *signersEnv) ids() (scopeID, sessID, oldSessID, scopeSpecID, cSpecID, recSpecID, recordID types.MetadataAddress) {
	scopeID = types.ScopeMetadataAddress(e.scopeUUID)
	sessID = types.SessionMetadataAddress(e.scopeUUID, e.sessUUID)
	oldSessID = types.SessionMetadataAddress(e.scopeUUID, e.oldSessUUID)
	scopeSpecID = types.ScopeSpecMetadataAddress(e.scopeSpecUUID)
	cSpecID = types.ContractSpecMetadataAddress(e.cSpecUUID)
	recSpecID = types.RecordSpecMetadataAddress(e.cSpecUUID, "rec")
	recordID = types.RecordMetadataAddress(e.scopeUUID, "rec")
	return
}

func (e *signersEnv) mkScope(s *signersScope) types.Scope {
	scopeID, _, _, scopeSpecID, _, _, _ := e.ids()
	var da []string
	for i, n := range []string{"D", "C"} {
		if i < s.other {
			da = append(da, e.bech[n])
		}
	}
	return types.Scope{ScopeId: scopeID, SpecificationId: scopeSpecID, Owners: s.owners, DataAccess: da, RequirePartyRollup: s.rollup}
}

func (e *signersEnv) exec(line string) (res string) {
	defer func() {
		if r := recover(); r != nil {
			res = "panic:" + panicClass(fmt.Sprint(r))
		}
	}()
	op, err := signersParse(line)
	if err != nil {
		return "bad-op"
	}
	var ctx sdk.Context
	consumable := false
	// fresh: a second context with the same grants, for the second call of wp/wo when a
	// count authorization would otherwise be consumed twice
	fresh := func() sdk.Context {
		if !consumable {
			return types.AddAuthzCacheToContext(ctx) // clears the cache
		}
		c, _ := e.base.CacheContext()
		c = types.AddAuthzCacheToContext(c)
		if _, err := e.saveGrants(c, op.kv["grants"]); err != nil {
			panic(err)
		}
		return c
	}
	if e.shared != nil && e.sharedGrants == op.kv["grants"] && (op.kind == "wp" || op.kind == "wo") {
		// wp/wo write nothing (generic authorizations are not consumed): reuse the context,
		// with an emptied authz cache
		ctx = types.AddAuthzCacheToContext(*e.shared)
	} else {
		ctx, _ = e.base.CacheContext()
		ctx = types.AddAuthzCacheToContext(ctx)
		if consumable, err = e.saveGrants(ctx, op.kv["grants"]); err != nil {
			return "bad-op"
		}
		if e.wantShared && !consumable {
			c := ctx
			e.shared, e.sharedGrants = &c, op.kv["grants"]
		}
	}
	signers, err := e.addrs(op.kv["signers"])
	if err != nil {
		return "bad-op"
	}
	k := e.app.MetadataKeeper
	scopeID, sessID, oldSessID, scopeSpecID, cSpecID, recSpecID, recordID := e.ids()
	// via=msg: the same configuration, but END TO END through the real message server on the
	// stored state; after an accepted message the stored entry is read back
	via := op.kv["via"] == "msg"
	if v, ok := op.kv["via"]; ok && v != "msg" {
		return "bad-op"
	}
	ms := metadatakeeper.NewMsgServerImpl(k)
	// ids=<form> (message-server writes only): the message names its entry through the optional
	// id fields (signersids_test.go)
	idForm := op.kv["ids"]
	if idForm != "" && (!via || !signersIDFormOK(idForm) || (op.kind != "wscope" && op.kind != "wsession" && op.kind != "wrecord")) {
		return "bad-op"
	}
	// value owners (optional keys of wscope / dscope): `vo` the stored scope's, `pvo` the message's
	_, hasVO := op.kv["vo"]
	_, hasPVO := op.kv["pvo"]
	vo, err := e.voAddr(op.kv["vo"])
	if err != nil {
		return "bad-op"
	}
	pvo, err := e.voAddr(op.kv["pvo"])
	if err != nil {
		return "bad-op"
	}
	storedScope := func(err error) string {
		c := e.class(err)
		if err != nil {
			return c
		}
		sc, found := k.GetScope(ctx, scopeID)
		if !found {
			return c + " stored=none"
		}
		if hasVO || hasPVO {
			return c + " stored=" + e.showScope(sc) + "@" + e.showVO(ctx)
		}
		return c + " stored=" + e.showScope(sc)
	}

	roleStr := op.kv["roles"]
	var roles []types.PartyType
	if roleStr != "none" {
		if roles, err = signersRoles(roleStr); err != nil {
			return "bad-op"
		}
	}

	switch op.kind {
	case "wp":
		req, err1 := e.parties(op.kv["req"])
		avail, err2 := e.parties(op.kv["avail"])
		msg, err3 := e.newMsg(op.kv["mt"], signers)
		if err1 != nil || err2 != nil || err3 != nil {
			return "bad-op"
		}
		ds, herr := k.VerifValidateAllRequiredPartiesSigned(ctx, req, avail, roles, msg)
		ctx = fresh()
		verr := k.ValidateSignersWithParties(ctx, req, avail, roles, msg)
		if verr != nil {
			if herr != nil && signersFirst(e.class(herr)) != signersFirst(e.class(verr)) {
				return "hook-mismatch"
			}
			return e.class(verr)
		}
		if herr != nil {
			return "hook-mismatch"
		}
		return "ok " + e.details(ds)
	case "wo":
		required, err1 := e.addrs(op.kv["required"])
		msg, err3 := e.newMsg(op.kv["mt"], signers)
		if err1 != nil || err3 != nil {
			return "bad-op"
		}
		ds, herr := k.VerifValidateAllRequiredSigned(ctx, required, msg)
		ctx = fresh()
		verr := k.ValidateSignersWithoutParties(ctx, required, msg)
		if verr != nil {
			if herr != nil && signersFirst(e.class(herr)) != signersFirst(e.class(verr)) {
				return "hook-mismatch"
			}
			return e.class(verr)
		}
		if herr != nil {
			return "hook-mismatch"
		}
		return "ok " + e.details(ds)
	case "wscope":
		existing, err1 := e.scope(op.kv["existing"])
		proposed, err2 := e.scope(op.kv["proposed"])
		if err1 != nil || err2 != nil || proposed == nil {
			return "bad-op"
		}
		if roleStr != "none" {
			// roles=none: the stored scope's specification no longer exists
			k.SetScopeSpecification(ctx, types.ScopeSpecification{SpecificationId: scopeSpecID, PartiesInvolved: roles})
		}
		if existing != nil {
			// SetScope with a value owner mints the scope's coin to that address
			ex := e.mkScope(existing)
			ex.ValueOwnerAddress = vo
			if err = k.SetScope(ctx, ex); err != nil {
				return "bad-op"
			}
		} else if vo != "" {
			return "bad-op"
		}
		prop := e.mkScope(proposed)
		prop.ValueOwnerAddress = pvo
		if nr, ok := op.kv["newroles"]; ok {
			// the proposed scope names another scope specification
			newRoles, err4 := signersRoles(nr)
			if err4 != nil {
				return "bad-op"
			}
			prop.SpecificationId = types.ScopeSpecMetadataAddress(e.scopeSpec2UUID)
			k.SetScopeSpecification(ctx, types.ScopeSpecification{SpecificationId: prop.SpecificationId, PartiesInvolved: newRoles})
		}
		if via {
			wmsg, ok := signersScopeMsg(idForm, prop, signers)
			if !ok {
				return "bad-op"
			}
			_, merr := ms.WriteScope(ctx, wmsg)
			return storedScope(merr)
		}
		_, verr := k.ValidateWriteScope(ctx, &types.MsgWriteScopeRequest{Scope: prop, Signers: signers})
		return e.class(verr)
	case "dscope":
		scope, err1 := e.scope(op.kv["scope"])
		if err1 != nil || scope == nil {
			return "bad-op"
		}
		if roleStr != "none" {
			k.SetScopeSpecification(ctx, types.ScopeSpecification{SpecificationId: scopeSpecID, PartiesInvolved: roles})
		}
		dsc := e.mkScope(scope)
		dsc.ValueOwnerAddress = vo
		if err = k.SetScope(ctx, dsc); err != nil {
			return "bad-op"
		}
		if via {
			_, merr := ms.DeleteScope(ctx, &types.MsgDeleteScopeRequest{ScopeId: scopeID, Signers: signers})
			return storedScope(merr)
		}
		_, verr := k.ValidateDeleteScope(ctx, &types.MsgDeleteScopeRequest{ScopeId: scopeID, Signers: signers})
		return e.class(verr)
	case "upd":
		scope, err1 := e.scope(op.kv["scope"])
		if err1 != nil || scope == nil {
			return "bad-op"
		}
		k.SetScopeSpecification(ctx, types.ScopeSpecification{SpecificationId: scopeSpecID, PartiesInvolved: roles})
		ex := e.mkScope(scope)
		if via {
			if err = k.SetScope(ctx, ex); err != nil {
				return "bad-op"
			}
			switch op.kv["mt"] {
			case "AddScopeDataAccess":
				_, merr := ms.AddScopeDataAccess(ctx, &types.MsgAddScopeDataAccessRequest{ScopeId: scopeID, DataAccess: []string{e.bech["N"]}, Signers: signers})
				return storedScope(merr)
			case "DeleteScopeDataAccess":
				if len(ex.DataAccess) == 0 {
					return "bad-op"
				}
				_, merr := ms.DeleteScopeDataAccess(ctx, &types.MsgDeleteScopeDataAccessRequest{ScopeId: scopeID, DataAccess: ex.DataAccess[:1], Signers: signers})
				return storedScope(merr)
			}
			return "bad-op"
		}
		switch op.kv["mt"] {
		case "AddScopeDataAccess":
			return e.class(k.ValidateAddScopeDataAccess(ctx, ex, &types.MsgAddScopeDataAccessRequest{ScopeId: scopeID, DataAccess: []string{e.bech["N"]}, Signers: signers}))
		case "DeleteScopeDataAccess":
			if len(ex.DataAccess) == 0 {
				return "bad-op"
			}
			return e.class(k.ValidateDeleteScopeDataAccess(ctx, ex, &types.MsgDeleteScopeDataAccessRequest{ScopeId: scopeID, DataAccess: ex.DataAccess[:1], Signers: signers}))
		}
		return "bad-op"
	case "owners":
		scope, err1 := e.scope(op.kv["scope"])
		proposedOwners, err2 := e.parties(op.kv["proposed"])
		if err1 != nil || err2 != nil || scope == nil {
			return "bad-op"
		}
		k.SetScopeSpecification(ctx, types.ScopeSpecification{SpecificationId: scopeSpecID, PartiesInvolved: roles})
		ex := e.mkScope(scope)
		prop := ex
		prop.Owners = proposedOwners
		var msg types.MetadataMsg
		switch op.kv["mt"] {
		case "AddScopeOwner":
			msg = &types.MsgAddScopeOwnerRequest{ScopeId: scopeID, Owners: proposedOwners, Signers: signers}
		case "DeleteScopeOwner":
			msg = &types.MsgDeleteScopeOwnerRequest{ScopeId: scopeID, Owners: []string{e.bech["A"]}, Signers: signers}
		default:
			return "bad-op"
		}
		return e.class(k.ValidateUpdateScopeOwners(ctx, ex, prop, msg))
	case "mowners":
		// the real msgServer.AddScopeOwner / DeleteScopeOwner on a STORED scope (or none)
		scope, err1 := e.scope(op.kv["scope"])
		if err1 != nil {
			return "bad-op"
		}
		k.SetScopeSpecification(ctx, types.ScopeSpecification{SpecificationId: scopeSpecID, PartiesInvolved: roles})
		if scope != nil {
			if err = k.SetScope(ctx, e.mkScope(scope)); err != nil {
				return "bad-op"
			}
		}
		switch op.kv["mt"] {
		case "AddScopeOwner":
			add, err2 := e.parties(op.kv["add"])
			if err2 != nil {
				return "bad-op"
			}
			_, merr := ms.AddScopeOwner(ctx, &types.MsgAddScopeOwnerRequest{ScopeId: scopeID, Owners: add, Signers: signers})
			return storedScope(merr)
		case "DeleteScopeOwner":
			remove, err2 := e.addrs(op.kv["remove"])
			if err2 != nil {
				return "bad-op"
			}
			_, merr := ms.DeleteScopeOwner(ctx, &types.MsgDeleteScopeOwnerRequest{ScopeId: scopeID, Owners: remove, Signers: signers})
			return storedScope(merr)
		}
		return "bad-op"
	case "wsession":
		scope, err1 := e.scope(op.kv["scope"])
		proposed, err2 := e.parties(op.kv["proposed"])
		if err1 != nil || err2 != nil || scope == nil {
			return "bad-op"
		}
		k.SetScopeSpecification(ctx, types.ScopeSpecification{SpecificationId: scopeSpecID, ContractSpecIds: []types.MetadataAddress{cSpecID}})
		k.SetContractSpecification(ctx, types.ContractSpecification{SpecificationId: cSpecID, PartiesInvolved: roles, ClassName: "cls"})
		if err = k.SetScope(ctx, e.mkScope(scope)); err != nil {
			return "bad-op"
		}
		var existing *types.Session
		if op.kv["existing"] != "none" {
			exParties, err3 := e.parties(op.kv["existing"])
			if err3 != nil {
				return "bad-op"
			}
			existing = &types.Session{SessionId: sessID, SpecificationId: cSpecID, Parties: exParties, Name: "sess"}
			k.SetSession(ctx, *existing)
		}
		msg := &types.MsgWriteSessionRequest{Session: types.Session{SessionId: sessID, SpecificationId: cSpecID, Parties: proposed, Name: "sess"}, Signers: signers}
		if via {
			wmsg, ok := signersSessionMsg(idForm, msg.Session, signers)
			if !ok {
				return "bad-op"
			}
			_, merr := ms.WriteSession(ctx, wmsg)
			c := e.class(merr)
			if merr != nil {
				return c
			}
			st, found := k.GetSession(ctx, sessID)
			if !found {
				return c + " stored=none"
			}
			return c + " stored=" + e.showParties(st.Parties)
		}
		return e.class(k.ValidateWriteSession(ctx, existing, msg))
	case "wrecord":
		scope, err1 := e.scope(op.kv["scope"])
		session, err2 := e.parties(op.kv["session"])
		if err1 != nil || err2 != nil || scope == nil {
			return "bad-op"
		}
		k.SetScopeSpecification(ctx, types.ScopeSpecification{SpecificationId: scopeSpecID, ContractSpecIds: []types.MetadataAddress{cSpecID}})
		k.SetContractSpecification(ctx, types.ContractSpecification{SpecificationId: cSpecID, ClassName: "cls"})
		k.SetRecordSpecification(ctx, types.RecordSpecification{SpecificationId: recSpecID, Name: "rec", TypeName: "t",
			ResultType: types.DefinitionType_DEFINITION_TYPE_RECORD, ResponsibleParties: roles})
		if err = k.SetScope(ctx, e.mkScope(scope)); err != nil {
			return "bad-op"
		}
		k.SetSession(ctx, types.Session{SessionId: sessID, SpecificationId: cSpecID, Parties: session, Name: "sess"})
		rec := types.Record{Name: "rec", SessionId: sessID,
			Process: types.Process{ProcessId: &types.Process_Hash{Hash: "h"}, Name: "p", Method: "m"},
			Outputs: []types.RecordOutput{{Hash: "o", Status: types.ResultStatus_RESULT_STATUS_PASS}}}
		var existing *types.Record
		switch old := op.kv["old"]; old {
		case "none":
		case "same":
			ex := rec
			existing = &ex
		case "gone":
			ex := rec
			ex.SessionId = oldSessID
			existing = &ex
		default:
			oldParties, err3 := e.parties(old)
			if err3 != nil {
				return "bad-op"
			}
			k.SetSession(ctx, types.Session{SessionId: oldSessID, SpecificationId: cSpecID, Parties: oldParties, Name: "old"})
			ex := rec
			ex.SessionId = oldSessID
			existing = &ex
		}
		if existing != nil {
			k.SetRecord(ctx, *existing)
		}
		if via {
			wmsg, ok := signersRecordMsg(idForm, rec, cSpecID, signers)
			if !ok {
				return "bad-op"
			}
			_, merr := ms.WriteRecord(ctx, wmsg)
			c := e.class(merr)
			if merr != nil {
				return c
			}
			// read back: the record sits in the session the message named
			st, found := k.GetRecord(ctx, recordID)
			if !found || !st.SessionId.Equals(sessID) {
				return c + " stored=elsewhere"
			}
			return c + " stored=sess"
		}
		return e.class(k.ValidateWriteRecord(ctx, existing, &types.MsgWriteRecordRequest{Record: rec, Signers: signers}))
	case "drecord":
		scope, err1 := e.scope(op.kv["scope"])
		if err1 != nil {
			return "bad-op"
		}
		if scope != nil {
			if err = k.SetScope(ctx, e.mkScope(scope)); err != nil {
				return "bad-op"
			}
		}
		if roleStr != "none" {
			k.SetRecordSpecification(ctx, types.RecordSpecification{SpecificationId: recSpecID, Name: "rec", TypeName: "t",
				ResultType: types.DefinitionType_DEFINITION_TYPE_RECORD, ResponsibleParties: roles})
		}
		k.SetRecord(ctx, types.Record{Name: "rec", SessionId: sessID, SpecificationId: recSpecID,
			Process: types.Process{ProcessId: &types.Process_Hash{Hash: "h"}, Name: "p", Method: "m"}})
		if via {
			_, merr := ms.DeleteRecord(ctx, &types.MsgDeleteRecordRequest{RecordId: recordID, Signers: signers})
			c := e.class(merr)
			if merr != nil {
				return c
			}
			if _, found := k.GetRecord(ctx, recordID); found {
				return c + " stored=sess"
			}
			return c + " stored=none"
		}
		return e.class(k.ValidateDeleteRecord(ctx, recordID, &types.MsgDeleteRecordRequest{RecordId: recordID, Signers: signers}))
	}
	return "bad-op"
}

// ---- generators ----------------------------------------------------------------------

type signersGParty struct {
	addr string
	role int
	opt  bool
}

func (p signersGParty) String() string {
	o := "r"
	if p.opt {
		o = "o"
	}
	return fmt.Sprintf("%s:%d:%s", p.addr, p.role, o)
}

func signersGParties(ps []signersGParty) string {
	s := make([]string, len(ps))
	for i, p := range ps {
		s[i] = p.String()
	}
	return JoinOr(s, "|")
}

func signersGRoles(rs []int) string {
	s := make([]string, len(rs))
	for i, r := range rs {
		s[i] = strconv.Itoa(r)
	}
	return JoinOr(s, "|")
}

var (
	signersGNormal   = []string{"A", "B", "C", "D"}
	signersGWasm     = []string{"W", "V"}
	signersGRolePool = []int{5, 2, 1}
)

const signersGProv = 8

var signersGParent = map[string]string{
	"AddScopeDataAccess": "WriteScope", "DeleteScopeDataAccess": "WriteScope", "AddScopeOwner": "WriteScope",
	"DeleteScopeOwner": "WriteScope", "WriteRecord": "WriteSession", "AddContractSpecToScopeSpec": "WriteScopeSpecification",
	"DeleteContractSpecFromScopeSpec": "WriteScopeSpecification", "WriteRecordSpecification": "WriteContractSpecification",
	"DeleteRecordSpecification": "DeleteContractSpecification",
}

type signersGGen struct {
	r       *RNG
	e       *signersEnv
	signers []string
	grants  []string
	mt      string
	// addresses signersFor also covers (mostly): a value owner that must sign; reset by signersFor
	alsoCover []string
	// histories (stream signershist): the grants are those of the history — stored once, the
	// same on every line — and the stored state is given, not invented
	hist       bool
	histGrants []string
}

// applies: an authorization for message type t counts for message type mt
func signersGApplies(t, mt string) bool {
	t = strings.TrimSuffix(t, "!")
	return t == mt || signersGParent[mt] == t
}

func signersIsWasmName(a string) bool { return a == "W" || a == "V" }

// address: mostly ordinary accounts, some smart contracts, rarely the odd ones.
func (g *signersGGen) addr(special bool) string {
	x := g.r.Intn(100)
	switch {
	case x < 78:
		return Pick(g.r, signersGNormal)
	case x < 93:
		return Pick(g.r, signersGWasm)
	case x < 96 || !special:
		return "N"
	case x < 98:
		return "X"
	default:
		return "E"
	}
}

func (g *signersGGen) roleFor(a string) int {
	if signersIsWasmName(a) {
		if g.r.Chance(88) {
			return signersGProv
		}
		return Pick(g.r, signersGRolePool)
	}
	if g.r.Chance(4) {
		return signersGProv
	}
	return Pick(g.r, signersGRolePool)
}

func (g *signersGGen) party(special, optAllowed bool) signersGParty {
	a := g.addr(special)
	return signersGParty{addr: a, role: g.roleFor(a), opt: optAllowed && g.r.Bool()}
}

func signersGHas(ps []signersGParty, p signersGParty) bool {
	for _, q := range ps {
		if q.addr == p.addr && q.role == p.role {
			return true
		}
	}
	return false
}

// parties: n entries; unique by (address, role) when unique is set.
func (g *signersGGen) parties(n int, special, optAllowed, unique bool) []signersGParty {
	var ps []signersGParty
	for tries := 0; len(ps) < n && tries < 40; tries++ {
		p := g.party(special, optAllowed)
		if unique && signersGHas(ps, p) {
			continue
		}
		ps = append(ps, p)
	}
	return ps
}

func (g *signersGGen) roles(from []signersGParty, max int) []int {
	if g.hist && len(from) > 0 && g.r.Chance(80) {
		// histories must make progress: mostly role lists the parties can fill (one party per entry)
		var rs []int
		for _, p := range from {
			if len(rs) < max && g.r.Chance(55) {
				rs = append(rs, p.role)
			}
		}
		return rs
	}
	n := g.r.Intn(max + 1)
	var rs []int
	for i := 0; i < n; i++ {
		if len(from) > 0 && g.r.Chance(82) {
			rs = append(rs, Pick(g.r, from).role)
		} else if g.r.Chance(15) {
			rs = append(rs, signersGProv)
		} else {
			rs = append(rs, Pick(g.r, signersGRolePool))
		}
	}
	return rs
}

func signersGContains(xs []string, x string) bool {
	for _, y := range xs {
		if y == x {
			return true
		}
	}
	return false
}

func (g *signersGGen) grantType() string {
	x := g.r.Intn(100)
	t := Pick(g.r, g.e.msgNames)
	if p, ok := signersGParent[g.mt]; ok && x < 35 {
		t = p
	} else if x < 88 {
		t = g.mt
	}
	// flavour: mostly generic; some count authorizations; a few expired
	switch y := g.r.Intn(100); {
	case y < 10:
		t += "#" + strconv.Itoa(1+g.r.Intn(2))
	case y < 14:
		t += "!"
	}
	return t
}

func signersGValidName(a string) bool { return a != "X" && a != "E" }

// cover makes the address a signer (mostly) or gives one of the signers a grant from it.
func (g *signersGGen) cover(a string) {
	if signersGContains(g.signers, a) {
		return
	}
	if g.hist {
		// one of the history's grants may stand in for the signature
		if g.r.Chance(40) {
			for _, gr := range g.histGrants {
				f := strings.Split(gr, ":")
				pair := strings.Split(f[0], ">")
				if pair[0] == a && signersGApplies(f[1], g.mt) {
					if !signersGContains(g.signers, pair[1]) {
						g.signers = append(g.signers, pair[1])
					}
					return
				}
			}
		}
		g.signers = append(g.signers, a)
		return
	}
	if signersGValidName(a) && g.r.Chance(30) {
		var cands []string
		for _, s := range g.signers {
			if signersGValidName(s) && s != a {
				cands = append(cands, s)
			}
		}
		if len(cands) == 0 {
			n := Pick(g.r, signersGNormal)
			if n != a {
				g.signers = append(g.signers, n)
				cands = []string{n}
			}
		}
		if len(cands) > 0 {
			g.grants = append(g.grants, a+">"+Pick(g.r, cands)+":"+g.grantType())
			return
		}
	}
	g.signers = append(g.signers, a)
}

// signersFor builds signers+grants: random noise, then (mostly) covers the parties that must
// sign and one party per required role; smart contracts are moved to the front (mostly).
func (g *signersGGen) signersFor(must []signersGParty, avail []signersGParty, roles []int, mention []string) {
	g.signers, g.grants = nil, nil
	for i, n := 0, g.r.Intn(3); i < n; i++ {
		var a string
		if len(mention) > 0 && g.r.Chance(70) {
			a = Pick(g.r, mention)
		} else {
			a = g.addr(true)
		}
		if !signersGContains(g.signers, a) || g.r.Chance(5) {
			g.signers = append(g.signers, a)
		}
	}
	pCover := 93
	if g.r.Chance(25) {
		pCover = 55
	}
	for _, p := range must {
		if !p.opt && g.r.Chance(pCover) {
			g.cover(p.addr)
		}
	}
	for _, a := range g.alsoCover {
		if g.r.Chance(pCover) {
			g.cover(a)
		}
	}
	g.alsoCover = nil
	used := map[int]bool{}
	for _, role := range roles {
		if !g.r.Chance(pCover) {
			continue
		}
		var idx []int
		for i, p := range avail {
			if p.role == role && !used[i] {
				idx = append(idx, i)
			}
		}
		if len(idx) == 0 {
			continue
		}
		// prefer one that is already a signer
		pick := -1
		for _, i := range idx {
			if signersGContains(g.signers, avail[i].addr) {
				pick = i
				break
			}
		}
		if pick < 0 || g.r.Chance(20) {
			pick = idx[g.r.Intn(len(idx))]
		}
		used[pick] = true
		g.cover(avail[pick].addr)
	}
	// noise grants
	for i, n := 0, g.r.Intn(3); !g.hist && i < n && g.r.Chance(60); i++ {
		granter, grantee := g.addr(false), g.addr(false)
		if len(mention) > 0 && g.r.Chance(70) {
			granter = Pick(g.r, mention)
		}
		if len(g.signers) > 0 && g.r.Chance(80) {
			grantee = Pick(g.r, g.signers)
		}
		if granter != grantee && signersGValidName(granter) && signersGValidName(grantee) {
			g.grants = append(g.grants, granter+">"+grantee+":"+g.grantType())
		}
	}
	// order: shuffle, then smart contracts first (mostly)
	for i := len(g.signers) - 1; i > 0; i-- {
		j := g.r.Intn(i + 1)
		g.signers[i], g.signers[j] = g.signers[j], g.signers[i]
	}
	if g.r.Chance(85) {
		sort.SliceStable(g.signers, func(i, j int) bool { return signersIsWasmName(g.signers[i]) && !signersIsWasmName(g.signers[j]) })
	}
	// a smart contract that signs with others after it: those often authorize it
	if g.hist {
		g.grants = append([]string{}, g.histGrants...)
	}
	if !g.hist && len(g.signers) > 1 && signersIsWasmName(g.signers[0]) && g.r.Chance(50) {
		for _, s := range g.signers[1:] {
			if signersGValidName(s) && s != g.signers[0] && g.r.Chance(85) {
				g.grants = append(g.grants, s+">"+g.signers[0]+":"+g.grantType())
			}
		}
	}
	// one grant per (granter, grantee, type): authz stores one, whatever its flavour
	seen := map[string]bool{}
	var gs []string
	for _, x := range g.grants {
		k := strings.TrimSuffix(x, "!")
		if i := strings.Index(k, "#"); i >= 0 {
			k = k[:i]
		}
		if !seen[k] {
			seen[k] = true
			gs = append(gs, x)
		}
	}
	g.grants = gs
}

func (g *signersGGen) tail() string {
	return " signers=" + JoinOr(g.signers, "|") + " grants=" + JoinOr(g.grants, "|")
}

func signersGAddrsOf(ps ...[]signersGParty) []string {
	var out []string
	for _, l := range ps {
		for _, p := range l {
			if !signersGContains(out, p.addr) {
				out = append(out, p.addr)
			}
		}
	}
	return out
}

func signersGAllRequired(ps []signersGParty) []signersGParty {
	out := make([]signersGParty, len(ps))
	for i, p := range ps {
		p.opt = false
		out[i] = p
	}
	return out
}

func (g *signersGGen) genWP() string {
	g.mt = Pick(g.r, g.e.msgNames)
	if g.r.Chance(50) {
		g.mt = Pick(g.r, []string{"WriteScope", "WriteSession", "WriteRecord", "DeleteRecord", "AddScopeDataAccess", "DeleteScopeOwner"})
	}
	nA := g.r.Intn(4)
	if g.r.Chance(8) {
		nA = 4 + g.r.Intn(2)
	}
	avail := g.parties(nA, true, true, g.r.Chance(90))
	var req []signersGParty
	switch x := g.r.Intn(100); {
	case x < 45:
		req = append(req, avail...)
	case x < 70:
		for _, p := range avail {
			if g.r.Chance(75) {
				if g.r.Chance(30) {
					p.opt = !p.opt
				}
				req = append(req, p)
			}
		}
		req = append(req, g.parties(g.r.Intn(3), true, true, false)...)
	case x < 85:
		req = g.parties(g.r.Intn(4), true, true, false)
	case x < 95:
		req = append(req, g.parties(1+g.r.Intn(2), true, true, false)...)
		req = append(req, avail...)
	}
	roles := g.roles(avail, 3)
	g.signersFor(req, avail, roles, signersGAddrsOf(req, avail))
	return fmt.Sprintf("wp mt=%s req=%s avail=%s roles=%s", g.mt, signersGParties(req), signersGParties(avail), signersGRoles(roles)) + g.tail()
}

func (g *signersGGen) genWO() string {
	g.mt = Pick(g.r, g.e.msgNames)
	var required []string
	for i, n := 0, g.r.Intn(4); i < n; i++ {
		required = append(required, g.addr(true))
	}
	var must []signersGParty
	for _, a := range required {
		must = append(must, signersGParty{addr: a})
	}
	g.signersFor(must, nil, nil, required)
	return fmt.Sprintf("wo mt=%s required=%s", g.mt, JoinOr(required, "|")) + g.tail()
}

func (g *signersGGen) owners(rollup bool) []signersGParty {
	return g.parties(1+g.r.Intn(3), false, rollup, true)
}

func signersGScope(rollup bool, other int, owners []signersGParty) string {
	r := "0"
	if rollup {
		r = "1"
	}
	return fmt.Sprintf("%s/%d/%s", r, other, signersGParties(owners))
}

func (g *signersGGen) subset(ps []signersGParty, keepPct int) []signersGParty {
	var out []signersGParty
	for _, p := range ps {
		if g.r.Chance(keepPct) {
			out = append(out, p)
		}
	}
	return out
}

// genCaller: one endpoint configuration; nearly half of them go through the real message
// server (`via=msg`); the owner updates mostly do (`mowners`), since only the message server
// computes the proposed owner list from the stored one.
func (g *signersGGen) genCaller() string {
	line := g.genCallerBase()
	if strings.HasPrefix(line, "owners ") || strings.HasPrefix(line, "mowners ") {
		return line
	}
	if g.r.Chance(45) {
		line = g.withIDs(line + " via=msg")
	}
	return line
}

// removal picks the owner addresses a DeleteScopeOwner message names: a single owner at the
// first / a middle / the last position, or a random non-empty subset; rarely all of them or
// an address that is no owner.
func (g *signersGGen) removal(owners []signersGParty) []string {
	addrs := signersGAddrsOf(owners)
	var out []string
	switch x := g.r.Intn(100); {
	case x < 22:
		out = []string{owners[0].addr}
	case x < 40:
		out = []string{owners[len(owners)-1].addr}
	case x < 58:
		out = []string{owners[len(owners)/2].addr}
	case x < 88:
		for _, a := range addrs {
			if g.r.Bool() {
				out = append(out, a)
			}
		}
		if len(out) == 0 {
			out = []string{Pick(g.r, addrs)}
		}
		if len(out) == len(addrs) && len(out) > 1 && g.r.Chance(80) {
			out = out[:len(out)-1]
		}
		// the message's order need not be the owners' order
		if len(out) > 1 && g.r.Bool() {
			out[0], out[len(out)-1] = out[len(out)-1], out[0]
		}
	case x < 92:
		out = addrs
	case x < 97:
		out = []string{g.addr(false)}
		if g.r.Bool() {
			out = append(out, Pick(g.r, addrs))
		}
	case x < 99:
		out = []string{Pick(g.r, []string{"X", "E"})}
	default:
	}
	return out
}

// genMOwners: msgServer.AddScopeOwner / DeleteScopeOwner on a stored scope with 1-5 owners.
func (g *signersGGen) genMOwners(rollup bool, owners []signersGParty, other int) string {
	// longer owner lists, so that a changed party can sit before, between and after others
	for n := g.r.Intn(3); !g.hist && n > 0 && len(owners) < 5; n-- {
		p := g.party(false, rollup)
		if !signersGHas(owners, p) {
			owners = append(owners, p)
		}
	}
	for tries := 0; !g.hist && len(owners) < 2 && tries < 5 && g.r.Chance(85); tries++ {
		if p := g.party(false, rollup); !signersGHas(owners, p) {
			owners = append(owners, p)
		}
	}
	mustOwners := owners
	if !rollup {
		mustOwners = signersGAllRequired(owners)
	}
	sc := signersGScope(rollup, other, owners)
	if !g.hist && g.r.Chance(3) {
		sc = "none"
	}
	var body string
	var after, signing []signersGParty
	if g.r.Chance(40) {
		g.mt = "AddScopeOwner"
		n := 1 + g.r.Intn(2)
		var add []signersGParty
		for tries := 0; len(add) < n && tries < 20; tries++ {
			p := g.party(g.r.Chance(4), rollup || g.r.Chance(6))
			dup := signersGHas(owners, p) || signersGHas(add, p)
			if dup && !g.r.Chance(12) {
				continue
			}
			add = append(add, p)
		}
		if g.r.Chance(2) {
			add = nil
		}
		after = append(append([]signersGParty{}, owners...), add...)
		signing = mustOwners
		body = "add=" + signersGParties(add)
	} else {
		g.mt = "DeleteScopeOwner"
		remove := g.removal(owners)
		for _, p := range owners {
			if !signersGContains(remove, p.addr) {
				after = append(after, p)
			}
		}
		signing = mustOwners
		if g.r.Chance(40) {
			// the owners that stay sign, the ones being removed do not
			signing = nil
			for _, p := range mustOwners {
				if !signersGContains(remove, p.addr) {
					signing = append(signing, p)
				}
			}
		}
		body = "remove=" + JoinOr(remove, "|")
	}
	var roles []int
	if g.r.Chance(75) {
		roles = g.roles(after, 2)
	} else {
		roles = g.roles(owners, 2)
	}
	avail := owners
	if !rollup {
		avail = nil
	}
	if len(signing) != len(mustOwners) && rollup {
		// roles are then filled by the owners that stay (when they can)
		avail = after
	}
	g.signersFor(signing, avail, roles, signersGAddrsOf(owners, after))
	if len(g.signers) == 0 && g.r.Chance(85) {
		g.signers = append(g.signers, Pick(g.r, signersGAddrsOf(owners)))
	}
	return fmt.Sprintf("mowners mt=%s scope=%s %s roles=%s", g.mt, sc, body, signersGRoles(roles)) + g.tail()
}

// valueOwner: a value-owner address (never a marker): mostly an ordinary account, sometimes a
// smart contract.  Not `N`: an address without account gets a fresh base account (sequence 0, no
// public key) the moment it receives the scope's coin, which isWasmAccount takes for a contract.
func (g *signersGGen) valueOwner() string {
	if g.r.Chance(82) {
		return Pick(g.r, signersGNormal)
	}
	return Pick(g.r, signersGWasm)
}

// genWScope: a scope write.  On an existing scope the write changes any SUBSET of the fields
// (owners, data access, require_party_rollup, specification, value owner) at once — or nothing.
//
// histVO: in a history, the stored scope's value owner (`""`: the scope does not exist, the write
// creates it — then rollup/owners/other are what it proposes).
func (g *signersGGen) genWScope(rollup bool, owners []signersGParty, other int, mustOwners []signersGParty, histVO string) string {
	g.mt = "WriteScope"
	var roles []int
	existing := "none"
	propRollup, propOther, propOwners := rollup, other, owners
	var must, avail []signersGParty
	if (!g.hist && g.r.Chance(75)) || (g.hist && histVO != "") {
		existing = signersGScope(rollup, other, owners)
		must, avail = mustOwners, owners
		chOwners, chOther, chRollup := g.r.Chance(28), g.r.Chance(25), g.r.Chance(22)
		if g.hist {
			// the rollup flag changes often: sessions and records then outlive the regime they were written under
			chRollup = g.r.Chance(45)
		}
		if g.r.Chance(22) {
			chOwners, chOther, chRollup = false, false, false
		}
		if !chOwners && g.r.Bool() && len(owners) > 1 {
			// unchanged (Scope.Equals ignores the order of the owners)
			propOwners = append([]signersGParty{}, owners...)
			for i, j := 0, len(propOwners)-1; i < j; i, j = i+1, j-1 {
				propOwners[i], propOwners[j] = propOwners[j], propOwners[i]
			}
		}
		if chOther {
			propOther = (other + 1 + g.r.Intn(2)) % 3
		}
		if chRollup {
			propRollup = !rollup
		}
		if chOwners {
			fresh := g.parties(1+g.r.Intn(3), false, propRollup, true)
			switch y := g.r.Intn(100); {
			case y < 30: // other owners altogether
				propOwners = fresh
			case y < 58: // more owners
				propOwners = append(append([]signersGParty{}, owners...), fresh...)
				var uniq []signersGParty
				for _, p := range propOwners {
					if !signersGHas(uniq, p) {
						uniq = append(uniq, p)
					}
				}
				propOwners = uniq
			case y < 72 && len(owners) > 1: // one owner less
				i := g.r.Intn(len(owners))
				propOwners = append(append([]signersGParty{}, owners[:i]...), owners[i+1:]...)
			case y < 86: // the same owners, one with another role
				propOwners = append([]signersGParty{}, owners...)
				i := g.r.Intn(len(propOwners))
				q := propOwners[i]
				q.role = g.roleFor(q.addr)
				if !signersGHas(propOwners, q) {
					propOwners[i] = q
				} else {
					propOwners = append(propOwners, fresh...)
				}
			default: // the same owners, one with the other optional flag (needs rollup)
				propOwners = append([]signersGParty{}, owners...)
				i := g.r.Intn(len(propOwners))
				propOwners[i].opt = !propOwners[i].opt
			}
			var uniq []signersGParty
			for _, p := range propOwners {
				if !signersGHas(uniq, p) {
					uniq = append(uniq, p)
				}
			}
			propOwners = uniq
		}
		if !propRollup {
			// Scope.ValidateBasic: no optional owner without rollup
			propOwners = signersGAllRequired(propOwners)
		}
	}
	// the spec's roles: mostly such that the proposed owners have them
	if g.r.Chance(75) {
		roles = g.roles(propOwners, 2)
	} else {
		roles = g.roles(owners, 2)
	}
	if !rollup {
		avail = nil
	}
	newRoles, coverRoles := "", roles
	var newCover []int
	if !g.hist && existing != "none" && g.r.Chance(20) {
		// the proposed scope names another specification (its roles come from the proposed owners)
		nr := g.roles(propOwners, 2)
		if len(nr) == 0 { // a scope specification names at least one role
			nr = []int{propOwners[0].role}
		}
		// the stored scope fits its own specification
		roles = nil
		for _, p := range g.subset(owners, 60) {
			roles = append(roles, p.role)
		}
		if len(roles) == 0 {
			roles = []int{owners[0].role}
		}
		coverRoles = roles
		newRoles = " newroles=" + signersGRoles(nr)
		newCover = nr
		if g.r.Chance(30) {
			// signers that only satisfy the NAMED specification: rejected since 89425229f
			coverRoles = nr
		}
	}
	rolesStr := signersGRoles(roles)
	if newRoles != "" && g.r.Chance(15) {
		// the stored scope's specification was deleted: the named one governs
		rolesStr, coverRoles = "none", newCover
	}
	// value owners: the stored scope's (held in the bank module) and the one the message names
	voStr := ""
	mention := signersGAddrsOf(owners, propOwners)
	if g.hist || g.r.Chance(45) {
		vo, pvo := "-", "-"
		if g.hist {
			if existing != "none" {
				vo = histVO
			}
		} else if existing != "none" && g.r.Chance(80) {
			vo = g.valueOwner()
		}
		z := g.r.Intn(100)
		if g.hist && g.r.Chance(40) {
			z = 0 // in a history most writes leave the value owner alone
		}
		switch {
		case z < 22:
		case z < 36:
			pvo = vo
		default:
			pvo = g.valueOwner()
		}
		voStr = " vo=" + vo + " pvo=" + pvo
		for _, a := range []string{vo, pvo} {
			if a != "-" && !signersGContains(mention, a) {
				mention = append(mention, a)
			}
		}
		if vo != "-" && pvo != "-" && vo != pvo {
			// the value owner changes: the stored one must sign
			g.alsoCover = []string{vo}
			if g.r.Chance(35) {
				// ONLY the value owner signs: enough iff nothing else changes
				must, avail, coverRoles = nil, nil, nil
			}
		} else if vo != "-" && g.r.Chance(30) {
			g.alsoCover = []string{vo}
		}
	}
	g.signersFor(must, avail, coverRoles, mention)
	return fmt.Sprintf("wscope existing=%s proposed=%s roles=%s%s%s", existing, signersGScope(propRollup, propOther, propOwners), rolesStr, newRoles, voStr) + g.tail()
}

func (g *signersGGen) genCallerBase() string {
	rollup := g.r.Chance(60)
	owners := g.owners(rollup)
	other := g.r.Intn(3)
	mustOwners := owners
	if !rollup {
		mustOwners = signersGAllRequired(owners)
	}
	switch x := g.r.Intn(100); {
	case x < 14: // wscope
		return g.genWScope(rollup, owners, other, mustOwners, "")
	case x < 24: // dscope
		g.mt = "DeleteScope"
		roles := g.roles(owners, 2)
		rs := signersGRoles(roles)
		avail := owners
		if g.r.Chance(20) {
			rs, roles = "none", nil
		}
		if !rollup {
			avail = nil
		}
		// the scope may have a value owner: it must sign the deletion too
		voStr, mention := "", signersGAddrsOf(owners)
		if g.r.Chance(40) {
			vo := g.valueOwner()
			voStr = " vo=" + vo
			g.alsoCover = []string{vo}
			mention = append(mention, vo)
			if g.r.Chance(15) {
				// only the value owner signs
				mustOwners, avail, roles = nil, nil, nil
			}
		}
		g.signersFor(mustOwners, avail, roles, mention)
		return fmt.Sprintf("dscope scope=%s roles=%s%s", signersGScope(rollup, other, owners), rs, voStr) + g.tail()
	case x < 33: // upd
		g.mt = "AddScopeDataAccess"
		if g.r.Bool() {
			g.mt = "DeleteScopeDataAccess"
			if other == 0 {
				other = 1
			}
		}
		roles := g.roles(owners, 2)
		avail := owners
		if !rollup {
			avail = nil
		}
		g.signersFor(mustOwners, avail, roles, signersGAddrsOf(owners))
		return fmt.Sprintf("upd mt=%s scope=%s roles=%s", g.mt, signersGScope(rollup, other, owners), signersGRoles(roles)) + g.tail()
	case x < 46: // owners
		if g.r.Chance(65) {
			return g.genMOwners(rollup, owners, other)
		}
		g.mt = Pick(g.r, []string{"AddScopeOwner", "DeleteScopeOwner"})
		proposed := g.parties(1+g.r.Intn(3), false, rollup || g.r.Chance(6), true)
		if g.r.Chance(60) {
			for _, p := range owners {
				if !signersGHas(proposed, p) && g.r.Chance(80) {
					proposed = append(proposed, p)
				}
			}
		}
		roles := g.roles(proposed, 2)
		avail := owners
		if !rollup {
			avail = nil
		}
		g.signersFor(mustOwners, avail, roles, signersGAddrsOf(owners, proposed))
		return fmt.Sprintf("owners mt=%s scope=%s proposed=%s roles=%s", g.mt, signersGScope(rollup, other, owners), signersGParties(proposed), signersGRoles(roles)) + g.tail()
	case x < 66: // wsession
		g.mt = "WriteSession"
		var proposed []signersGParty
		if rollup {
			proposed = g.subset(owners, 70)
			for i := range proposed {
				if g.r.Chance(25) {
					proposed[i].opt = !proposed[i].opt
				}
			}
			if len(proposed) == 0 || g.r.Chance(8) {
				p := g.party(false, true)
				if !signersGHas(proposed, p) {
					proposed = append(proposed, p)
				}
			}
		} else {
			proposed = g.parties(1+g.r.Intn(3), false, g.r.Chance(6), true)
		}
		existing := "none"
		var ex []signersGParty
		if g.r.Chance(50) {
			if rollup {
				ex = g.subset(owners, 70)
				for i := range ex {
					if g.r.Chance(25) {
						ex[i].opt = !ex[i].opt
					}
				}
				if len(ex) == 0 {
					ex = append(ex, owners[0])
				}
			} else {
				// written while the scope had party rollup: optional flags stay behind
				ex = g.parties(1+g.r.Intn(2), false, g.r.Chance(25), true)
			}
			existing = signersGParties(ex)
		}
		var must, avail []signersGParty
		var roles []int
		switch {
		case !rollup:
			must = mustOwners
			roles = g.roles(proposed, 2)
			g.signersFor(must, nil, nil, signersGAddrsOf(owners, proposed))
		case existing != "none":
			must = append(append([]signersGParty{}, ex...), owners...)
			avail = ex
			roles = g.roles(ex, 3)
			g.signersFor(must, avail, roles, signersGAddrsOf(owners, proposed, ex))
		default:
			must, avail = owners, proposed
			roles = g.roles(proposed, 3)
			g.signersFor(must, avail, roles, signersGAddrsOf(owners, proposed))
		}
		return fmt.Sprintf("wsession scope=%s existing=%s proposed=%s roles=%s", signersGScope(rollup, other, owners), existing, signersGParties(proposed), signersGRoles(roles)) + g.tail()
	case x < 88: // wrecord
		g.mt = "WriteRecord"
		var session []signersGParty
		if rollup {
			session = g.subset(owners, 70)
			if len(session) == 0 {
				session = append(session, owners[g.r.Intn(len(owners))])
			}
			for i := range session {
				if g.r.Chance(25) {
					session[i].opt = !session[i].opt
				}
			}
			if g.r.Chance(8) {
				// written while the scope had no party rollup: a party that is no scope owner
				if p := g.party(false, true); !signersGHas(session, p) {
					session = append(session, p)
				}
			}
		} else {
			// a session written while the scope HAD party rollup keeps its optional flags when
			// the scope is rewritten with rollup off
			session = g.parties(1+g.r.Intn(3), false, g.r.Chance(30), true)
		}
		old := "none"
		var oldP []signersGParty
		switch y := g.r.Intn(100); {
		case y < 35:
		case y < 45:
			old = "same"
		case y < 50:
			old = "gone"
		default:
			if rollup {
				oldP = g.subset(owners, 60)
				if len(oldP) == 0 || g.r.Chance(30) {
					oldP = append(oldP, g.parties(1, false, true, true)...)
				}
			} else {
				oldP = g.parties(1+g.r.Intn(2), false, g.r.Chance(30), true)
			}
			if rollup && len(session) > 0 && g.r.Chance(35) {
				// the same (address, role) sits in both sessions with DIFFERENT optional flags: required in
				// the previous session, optional in the new one (a duplicate by address and role only)
				q := session[g.r.Intn(len(session))]
				for i := range oldP {
					if oldP[i].addr == q.addr && oldP[i].role == q.role {
						oldP = append(oldP[:i], oldP[i+1:]...)
						break
					}
				}
				q.opt = !q.opt
				oldP = append(oldP, q)
			}
			old = signersGParties(oldP)
		}
		roles := g.roles(session, 3)
		var must []signersGParty
		if rollup {
			must = append(append(append([]signersGParty{}, owners...), session...), oldP...)
			g.signersFor(must, session, roles, signersGAddrsOf(owners, session, oldP))
		} else {
			must = append(signersGAllRequired(session), signersGAllRequired(oldP)...)
			if g.r.Chance(35) {
				// the signers go by the optional flags (which mean nothing without rollup)
				must = append(append([]signersGParty{}, session...), oldP...)
			}
			g.signersFor(must, nil, nil, signersGAddrsOf(session, oldP))
		}
		return fmt.Sprintf("wrecord scope=%s session=%s old=%s roles=%s", signersGScope(rollup, other, owners), signersGParties(session), old, signersGRoles(roles)) + g.tail()
	default: // drecord
		g.mt = "DeleteRecord"
		roles := g.roles(owners, 3)
		rs := signersGRoles(roles)
		avail := owners
		if g.r.Chance(20) {
			rs, roles = "none", nil
		}
		if !rollup {
			avail = nil
		}
		sc := signersGScope(rollup, other, owners)
		if g.r.Chance(8) {
			sc = "none"
		}
		g.signersFor(mustOwners, avail, roles, signersGAddrsOf(owners))
		return fmt.Sprintf("drecord scope=%s roles=%s", sc, rs) + g.tail()
	}
}

// ---- the exhaustive small universe (ValidateSignersWithParties) --------------------------
//
// avail: lists of ≤ 2 parties over {A,B,C} × {OWNER,SERVICER} × {optional, required};
// req: = avail | avail + one more party | nothing;  required roles: lists of ≤ 3 over the two
// roles (repeats); signers: every subset of {A,B,C} in ascending order plus two permuted
// orders; grants (type = the message type): every subset of the 6 ordered pairs.

var signersGExP = func() []signersGParty {
	var ps []signersGParty
	for _, a := range []string{"A", "B", "C"} {
		for _, r := range []int{5, 2} {
			for _, o := range []bool{true, false} {
				ps = append(ps, signersGParty{a, r, o})
			}
		}
	}
	return ps
}()

var signersGExAvail = func() [][]signersGParty {
	out := [][]signersGParty{nil}
	for _, p := range signersGExP {
		out = append(out, []signersGParty{p})
	}
	for _, p := range signersGExP {
		for _, q := range signersGExP {
			out = append(out, []signersGParty{p, q})
		}
	}
	return out
}()

var signersGExRoles = func() [][]int {
	out := [][]int{nil}
	rs := []int{5, 2}
	for _, a := range rs {
		out = append(out, []int{a})
	}
	for _, a := range rs {
		for _, b := range rs {
			out = append(out, []int{a, b})
		}
	}
	for _, a := range rs {
		for _, b := range rs {
			for _, c := range rs {
				out = append(out, []int{a, b, c})
			}
		}
	}
	return out
}()

var signersGExSigners = [][]string{nil, {"A"}, {"B"}, {"C"}, {"A", "B"}, {"A", "C"}, {"B", "C"}, {"A", "B", "C"}, {"B", "A"}, {"C", "B", "A"}}

var signersGExGrants = func() [][]string {
	var pairs []string
	for _, a := range []string{"A", "B", "C"} {
		for _, b := range []string{"A", "B", "C"} {
			if a != b {
				pairs = append(pairs, a+">"+b)
			}
		}
	}
	var out [][]string
	for mask := 0; mask < 1<<len(pairs); mask++ {
		var gs []string
		for i, p := range pairs {
			if mask&(1<<i) != 0 {
				gs = append(gs, p)
			}
		}
		out = append(out, gs)
	}
	return out
}()

// req modes: 0 = avail, 1 = none, 2.. = avail + signersGExP[m-2]
func signersGExTotal() uint64 {
	return uint64(len(signersGExAvail)) * uint64(2+len(signersGExP)) * uint64(len(signersGExRoles)) * uint64(len(signersGExSigners)) * uint64(len(signersGExGrants))
}

func signersGExhaustive(idx uint64) string {
	take := func(n int) int {
		d := int(idx % uint64(n))
		idx /= uint64(n)
		return d
	}
	grants := signersGExGrants[take(len(signersGExGrants))]
	signers := signersGExSigners[take(len(signersGExSigners))]
	roles := signersGExRoles[take(len(signersGExRoles))]
	mode := take(2 + len(signersGExP))
	avail := signersGExAvail[take(len(signersGExAvail))]
	var req []signersGParty
	switch {
	case mode == 0:
		req = avail
	case mode == 1:
	default:
		req = append(append([]signersGParty{}, avail...), signersGExP[mode-2])
	}
	gs := make([]string, len(grants))
	for i, g := range grants {
		gs[i] = g + ":WriteScope"
	}
	return fmt.Sprintf("wp mt=WriteScope req=%s avail=%s roles=%s signers=%s grants=%s",
		signersGParties(req), signersGParties(avail), signersGRoles(roles), JoinOr(signers, "|"), JoinOr(gs, "|"))
}

// ---- the exhaustive small universe for the smart-contract rules ----------------------------
//
// signers: every list of ≤ 3 over {W,V,A,B} (repeats allowed); available = required parties:
// a few shapes around the smart contract W (with / without the PROVENANCE role, optional or
// not, next to an ordinary owner); required roles: none, PROVENANCE, OWNER; grants: every
// subset of the 6 pairs granter ∈ {A,B,V,W} → grantee ∈ {W,V}.

var signersGScSigners = func() [][]string {
	names := []string{"W", "V", "A", "B"}
	out := [][]string{nil}
	for _, a := range names {
		out = append(out, []string{a})
	}
	for _, a := range names {
		for _, b := range names {
			out = append(out, []string{a, b})
		}
	}
	for _, a := range names {
		for _, b := range names {
			for _, c := range names {
				out = append(out, []string{a, b, c})
			}
		}
	}
	return out
}()

var signersGScParties = [][]signersGParty{
	nil,
	{{"W", 8, false}}, {{"W", 8, true}}, {{"W", 5, false}}, {{"A", 8, false}}, {{"A", 5, false}}, {{"A", 5, true}},
	{{"W", 8, false}, {"A", 5, false}}, {{"W", 8, true}, {"A", 5, true}}, {{"A", 5, false}, {"V", 8, true}},
}

var signersGScRoles = [][]int{nil, {8}, {5}}

var signersGScPairs = []string{"A>W", "B>W", "V>W", "A>V", "B>V", "W>V"}

func signersGScTotal() uint64 {
	return uint64(len(signersGScSigners)) * uint64(len(signersGScParties)) * uint64(len(signersGScRoles)) * 64
}

func signersGScExhaustive(idx uint64) string {
	take := func(n int) int {
		d := int(idx % uint64(n))
		idx /= uint64(n)
		return d
	}
	gmask := take(64)
	signers := signersGScSigners[take(len(signersGScSigners))]
	roles := signersGScRoles[take(len(signersGScRoles))]
	ps := signersGScParties[take(len(signersGScParties))]
	var gs []string
	for i, p := range signersGScPairs {
		if gmask&(1<<i) != 0 {
			gs = append(gs, p+":WriteScope")
		}
	}
	return fmt.Sprintf("wp mt=WriteScope req=%s avail=%s roles=%s signers=%s grants=%s",
		signersGParties(ps), signersGParties(ps), signersGRoles(roles), JoinOr(signers, "|"), JoinOr(gs, "|"))
}

// ---- driver / replayer ---------------------------------------------------------------

func (e *signersEnv) run(line string, out *Out) {
	res := e.exec(line)
	out.Emit(line, res)
	kind := line
	if i := strings.Index(line, " "); i > 0 {
		kind = line[:i]
	}
	out.Count("op:" + kind)
	out.Count("res:" + signersFirst(res))
	out.Count(kind + ":" + signersFirst(res))
	if strings.Contains(line, "grants=-") {
		out.Count("grants:0")
	} else {
		out.Count("grants:>0")
		if strings.Contains(line, "#") {
			out.Count("grants:count-authorization")
		}
		if strings.Contains(line, "!") {
			out.Count("grants:expired")
		}
	}
	switch {
	case kind == "mowners" || strings.HasSuffix(line, " via=msg"):
		out.Count("path:message-server")
		out.Count("msgserver:" + kind + ":" + signersFirst(res))
		if i := strings.Index(line, " ids="); i >= 0 {
			form := signersFirst(line[i+5:])
			out.Count("ids:" + kind + ":" + form + ":" + signersFirst(res))
			if kind == "wsession" && !strings.Contains(line, " existing=none ") {
				out.Count("ids:wsession-existing-session:" + form + ":" + signersFirst(res))
			}
		}
	case kind != "wp" && kind != "wo":
		out.Count("path:validate-function")
	}
	if kind == "mowners" && strings.Contains(line, "mt=DeleteScopeOwner") {
		// where the removed owners sit in the stored owner list
		if op, err := signersParse(line); err == nil && op.kv["scope"] != "none" {
			f := strings.Split(op.kv["scope"], "/")
			owners := signersList(f[len(f)-1])
			rm := signersList(op.kv["remove"])
			first, last, mid, stay := false, false, false, 0
			for i, o := range owners {
				if signersGContains(rm, strings.SplitN(o, ":", 2)[0]) {
					switch {
					case i == 0:
						first = true
					case i == len(owners)-1:
						last = true
					default:
						mid = true
					}
				} else {
					stay++
				}
			}
			if first && stay > 0 {
				out.Count("remove:first-with-others-after")
			}
			if mid {
				out.Count("remove:middle")
			}
			if last && stay > 0 {
				out.Count("remove:last-with-others-before")
			}
			uncovered := false
			for _, a := range rm {
				if !signersGContains(signersList(op.kv["signers"]), a) && !strings.Contains(op.kv["grants"], a+">") {
					uncovered = true
				}
			}
			if uncovered {
				out.Count("remove:removed-owner-not-covered")
			}
		}
	}
	if kind == "wscope" || kind == "dscope" || kind == "wrecord" {
		e.countDims(kind, line, res, out)
	}
	if strings.Contains(line, "/1/") || kind == "wp" {
		out.Count("mode:rollup")
	} else {
		out.Count("mode:plain")
	}
}

// countDims: the input dimensions of the scope-write / record-write ops (for the evidence).
func (e *signersEnv) countDims(kind, line, res string, out *Out) {
	op, err := signersParse(line)
	if err != nil {
		return
	}
	first := signersFirst(res)
	switch kind {
	case "wscope":
		ex, pr := op.kv["existing"], op.kv["proposed"]
		vo, hasVO := op.kv["vo"]
		pvo := op.kv["pvo"]
		voChanges := hasVO && vo != "-" && pvo != "-" && vo != pvo
		if hasVO {
			out.Count("wscope:value-owner-fields")
		}
		if ex == "none" {
			return
		}
		fe, fp := strings.SplitN(ex, "/", 3), strings.SplitN(pr, "/", 3)
		if len(fe) != 3 || len(fp) != 3 {
			return
		}
		n := 0
		if fe[0] != fp[0] {
			n++
			out.Count("wscope:changes-rollup-flag")
		}
		if fe[1] != fp[1] {
			n++
		}
		if fe[2] != fp[2] {
			n++
		}
		if _, ok := op.kv["newroles"]; ok {
			n++
		}
		if voChanges {
			n++
			out.Count("wscope:changes-value-owner:" + first)
			if fe[0] != fp[0] {
				out.Count("wscope:changes-value-owner-and-rollup-flag:" + first)
			}
		}
		out.Count(fmt.Sprintf("wscope:fields-changed:%d", n))
	case "dscope":
		if vo, ok := op.kv["vo"]; ok && vo != "-" {
			out.Count("dscope:value-owner:" + first)
		}
	case "wrecord":
		if strings.HasPrefix(op.kv["scope"], "0/") && (strings.Contains(op.kv["session"], ":o") || strings.Contains(op.kv["old"], ":o")) {
			out.Count("wrecord:plain-scope-optional-session-party:" + first)
		}
	}
}

func (e *signersEnv) runShared(line string, out *Out) {
	e.wantShared = true
	defer func() { e.wantShared = false }()
	e.run(line, out)
}

func driveSigners(t *testing.T, rng *RNG, n int, out *Out) {
	e := signersSetup(t)
	g := &signersGGen{r: rng, e: e}
	shards := uint64(*flagSignersShards)
	shard := *flagSeed % 1000
	total := signersGExTotal()
	if *flagTier == "thorough" {
		// the whole small universe, split over the shards by residue class; the grant set is
		// the outer loop so that one context (with those grants stored in the real authz
		// keeper) serves all the other coordinates
		nG := uint64(len(signersGExGrants))
		rest := total / nG
		for gi := uint64(0); gi < nG; gi++ {
			e.shared = nil
			for r := shard; r < rest; r += shards {
				e.runShared(signersGExhaustive(r*nG+gi), out)
			}
		}
		e.shared = nil
		for gm := uint64(0); gm < 64; gm++ {
			for r := shard; r < signersGScTotal()/64; r += shards {
				e.runShared(signersGScExhaustive(r*64+gm), out)
			}
		}
		e.shared = nil
	} else {
		// quick: a sample of the small universes (uniform in every coordinate)
		for i := 0; i < n/3; i++ {
			e.run(signersGExhaustive(rng.U64()%total), out)
		}
		for i := 0; i < n/6; i++ {
			e.run(signersGScExhaustive(rng.U64()%signersGScTotal()), out)
		}
	}
	for i := 0; i < n; i++ {
		var line string
		switch x := rng.Intn(100); {
		case x < 38:
			line = g.genWP()
		case x < 46:
			line = g.genWO()
		default:
			line = g.genCaller()
		}
		e.run(line, out)
	}
}

func replaySigners(t *testing.T, ops []string, out *Out) {
	e := signersSetup(t)
	for _, l := range ops {
		if strings.HasPrefix(l, "#") {
			out.Comment(strings.TrimPrefix(l, "# "))
			continue
		}
		e.run(l, out)
	}
}
