package harness

// Model "sanc" (C06): sanction module driven by the REAL gov keeper (msg server, EndBlocker,
// MsgCancelProposal), the real sanction keeper (hooks, msg server, send restriction) and the
// real bank / staking msg servers, on one app.App per process and one cached context per
// history.  After every operation `q` dumps IsSanctionedAddr per address, the sanction store
// (permanent, temporary, index), the gov proposals and the balances.

import (
	"bytes"
	"encoding/hex"
	"errors"
	"fmt"
	"sort"
	"strings"
	"sync"
	"testing"
	"time"

	"cosmossdk.io/collections"
	sdkmath "cosmossdk.io/math"

	sdk "github.com/cosmos/cosmos-sdk/types"
	sdkerrors "github.com/cosmos/cosmos-sdk/types/errors"
	authtypes "github.com/cosmos/cosmos-sdk/x/auth/types"
	"github.com/cosmos/cosmos-sdk/x/authz"
	bankkeeper "github.com/cosmos/cosmos-sdk/x/bank/keeper"
	banktypes "github.com/cosmos/cosmos-sdk/x/bank/types"
	"github.com/cosmos/cosmos-sdk/x/gov"
	govkeeper "github.com/cosmos/cosmos-sdk/x/gov/keeper"
	govtypes "github.com/cosmos/cosmos-sdk/x/gov/types"
	govv1 "github.com/cosmos/cosmos-sdk/x/gov/types/v1"
	minttypes "github.com/cosmos/cosmos-sdk/x/mint/types"
	stakingkeeper "github.com/cosmos/cosmos-sdk/x/staking/keeper"
	stakingtypes "github.com/cosmos/cosmos-sdk/x/staking/types"

	"github.com/provenance-io/provenance/app"
	"github.com/provenance-io/provenance/x/quarantine"
	"github.com/provenance-io/provenance/x/sanction"
	sanctionkeeper "github.com/provenance-io/provenance/x/sanction/keeper"
	sanctionerrors "github.com/provenance-io/provenance/x/sanction/errors"
)

func init() {
	drivers["sanc"] = driveSanc
	replayers["sanc"] = replaySanc
}

var (
	sancAppOnce sync.Once
	sancApp     *app.App
	sancBase    sdk.Context
	sancAddrs   map[string]sdk.AccAddress
	sancNames   map[string]string // string(addr bytes) -> name
	sancValAddr string
	sancT0      = time.Unix(1_700_000_000, 0).UTC()
)

var sancOrder = []string{"A", "B", "C", "D", "V", "GOV", "BOND", "FEE", "QUAR"}
var sancUnsanc = []string{"GOV", "BOND", "FEE", "QUAR"}
var sancUsers = []string{"A", "B", "C", "D"}

const sancBond = "stake"

type sancCfg struct {
	cancel               string // n/d
	burnQ, burnV, burnP  bool
	minDep, expMinDep    int64
	depP, votP, expVotP  int64
	initRatio, depRatio  string
	initMin, initMinExp  int64
	depMin, depMinExp    int64
}

func sancDefaultCfg() sancCfg {
	return sancCfg{cancel: "1/2", burnV: true, minDep: 1000, expMinDep: 2000, depP: 100, votP: 100, expVotP: 50,
		initRatio: "0.1", depRatio: "0.01", initMin: 100, initMinExp: 200, depMin: 10, depMinExp: 20}
}

func sancCancelDec(r string) string {
	switch r {
	case "0/1":
		return "0"
	case "1/4":
		return "0.25"
	case "1/2":
		return "0.5"
	case "1/1":
		return "1"
	}
	return "0.5"
}

func sancSetup(t *testing.T) {
	sancAppOnce.Do(func() {
		a, ctx := NewApp(t)
		ctx = ctx.WithBlockTime(sancT0)
		sancAddrs = map[string]sdk.AccAddress{}
		sancNames = map[string]string{}
		for _, n := range sancUsers {
			addr := sdk.AccAddress([]byte("verif-sanc-user-" + n + "___"))
			acc := a.AccountKeeper.NewAccountWithAddress(ctx, addr)
			_ = acc.SetSequence(1)
			a.AccountKeeper.SetAccount(ctx, acc)
			sancAddrs[n] = addr
		}
		dels, err := a.StakingKeeper.GetAllDelegations(ctx)
		if err != nil || len(dels) == 0 {
			t.Fatalf("no genesis delegation: %v", err)
		}
		sancAddrs["V"] = sdk.MustAccAddressFromBech32(dels[0].DelegatorAddress)
		sancValAddr = dels[0].ValidatorAddress
		sancAddrs["GOV"] = authtypes.NewModuleAddress(govtypes.ModuleName)
		sancAddrs["BOND"] = authtypes.NewModuleAddress(stakingtypes.BondedPoolName)
		sancAddrs["FEE"] = authtypes.NewModuleAddress(authtypes.FeeCollectorName)
		sancAddrs["QUAR"] = authtypes.NewModuleAddress(quarantine.ModuleName)
		for n, ad := range sancAddrs {
			sancNames[string(ad)] = n
		}
		sancApp, sancBase = a, ctx
	})
}

// sancEnv is one history: a cached context on the shared app.
type sancEnv struct {
	t   *testing.T
	a   *app.App
	ctx sdk.Context
	now int64
	cfg sancCfg
}

func newSancEnv(t *testing.T) *sancEnv {
	sancSetup(t)
	ctx, _ := sancBase.CacheContext()
	return &sancEnv{t: t, a: sancApp, ctx: ctx.WithBlockTime(sancT0).WithBlockHeight(10)}
}

func (e *sancEnv) addr(name string) string {
	if name == "EMPTY" {
		return ""
	}
	if a, ok := sancAddrs[name]; ok {
		return a.String()
	}
	return name // unknown names are passed through (malformed address)
}

func (e *sancEnv) name(addr sdk.AccAddress) string {
	if n, ok := sancNames[string(addr)]; ok {
		return n
	}
	return "?" + addr.String()
}

// sancCoins parses `5stake,3xcoin` into raw sdk.Coins (kept as written, sorted by denom, so
// that invalid amounts such as zero reach the real validation).
func sancCoins(s string) (sdk.Coins, bool) {
	if s == "-" || s == "" {
		return sdk.Coins{}, true
	}
	var cs sdk.Coins
	for _, p := range strings.Split(s, ",") {
		i := 0
		for i < len(p) && (p[i] >= '0' && p[i] <= '9') {
			i++
		}
		if i == 0 || i == len(p) {
			return nil, false
		}
		amt, ok := sdkmath.NewIntFromString(p[:i])
		if !ok {
			return nil, false
		}
		cs = append(cs, sdk.Coin{Denom: p[i:], Amount: amt})
	}
	return cs, true
}

func sancErrClass(err error) string {
	switch {
	case err == nil:
		return "ok"
	case errors.Is(err, sanctionerrors.ErrSanctionedAccount):
		return "err:sanctioned"
	case errors.Is(err, sdkerrors.ErrInsufficientFunds):
		return "err:funds"
	case errors.Is(err, govtypes.ErrInactiveProposal), errors.Is(err, govtypes.ErrInvalidProposal):
		return "err:inactive"
	case errors.Is(err, govtypes.ErrMinDepositTooSmall):
		return "err:mindep"
	case errors.Is(err, govtypes.ErrInvalidDepositDenom):
		return "err:denom"
	case errors.Is(err, govtypes.ErrInvalidProposer):
		return "err:proposer"
	case errors.Is(err, govtypes.ErrVotingPeriodEnded):
		return "err:ended"
	case errors.Is(err, govtypes.ErrInvalidSigner):
		return "err:signer"
	case errors.Is(err, collections.ErrNotFound):
		return "err:notfound"
	case errors.Is(err, sanctionerrors.ErrUnsanctionableAddr):
		return "err:unsanctionable"
	case errors.Is(err, govtypes.ErrInvalidProposalMsg), errors.Is(err, sdkerrors.ErrInvalidAddress),
		errors.Is(err, sdkerrors.ErrInvalidCoins), errors.Is(err, sanctionerrors.ErrInvalidParams),
		errors.Is(err, sdkerrors.ErrInvalidRequest), errors.Is(err, banktypes.ErrNoOutputs),
		errors.Is(err, banktypes.ErrNoInputs):
		return "err:invalid"
	}
	return "err:other"
}

func sancKV(ws []string, k, d string) string {
	if v := kvArg(ws, k); v != "" {
		return v
	}
	return d
}

func sancList(s string, sep string) []string {
	if s == "-" || s == "" {
		return nil
	}
	return strings.Split(s, sep)
}

// try runs f atomically (cached context written on success) and renders the outcome.
func (e *sancEnv) try(f func(ctx sdk.Context) (string, error)) string {
	var okOut string
	err, pan := Try(e.ctx, func(ctx sdk.Context) error {
		o, err := f(ctx)
		okOut = o
		return err
	})
	if pan != "" {
		return "panic:" + pan
	}
	if err != nil {
		c := sancErrClass(err)
		if c == "err:other" {
			e.t.Logf("unclassified error: %v", err)
		}
		return c
	}
	if okOut == "" {
		return "ok"
	}
	return okOut
}

func (e *sancEnv) anyMsgs(spec string) ([]sdk.Msg, bool) {
	gov := sancAddrs["GOV"].String()
	var msgs []sdk.Msg
	for _, m := range sancList(spec, ";") {
		parts := strings.SplitN(m, ":", 2)
		if len(parts) != 2 {
			return nil, false
		}
		auth := gov
		kind := parts[0]
		if strings.HasSuffix(kind, "!") {
			auth = sancAddrs["A"].String()
			kind = strings.TrimSuffix(kind, "!")
		}
		var addrs []string
		for _, n := range sancList(parts[1], "|") {
			addrs = append(addrs, e.addr(n))
		}
		switch kind {
		case "s":
			msgs = append(msgs, &sanction.MsgSanction{Authority: auth, Addresses: addrs})
		case "u":
			msgs = append(msgs, &sanction.MsgUnsanction{Authority: auth, Addresses: addrs})
		default:
			return nil, false
		}
	}
	return msgs, true
}

func (e *sancEnv) applyCfg(ws []string) string {
	c := sancDefaultCfg()
	c.cancel = sancKV(ws, "cancel", "1/2")
	c.burnQ = sancKV(ws, "burnq", "0") == "1"
	c.burnV = sancKV(ws, "burnv", "0") == "1"
	c.burnP = sancKV(ws, "burnp", "0") == "1"
	e.cfg = c
	p, err := e.a.GovKeeper.Params.Get(e.ctx)
	if err != nil {
		return "err:setup"
	}
	d := func(s int64) *time.Duration { x := time.Duration(s) * time.Second; return &x }
	p.MinDeposit = sdk.NewCoins(sdk.NewInt64Coin(sancBond, c.minDep))
	p.ExpeditedMinDeposit = sdk.NewCoins(sdk.NewInt64Coin(sancBond, c.expMinDep))
	p.MaxDepositPeriod, p.VotingPeriod, p.ExpeditedVotingPeriod = d(c.depP), d(c.votP), d(c.expVotP)
	p.MinInitialDepositRatio, p.MinDepositRatio = c.initRatio, c.depRatio
	p.ProposalCancelRatio, p.ProposalCancelDest = sancCancelDec(c.cancel), ""
	p.BurnVoteQuorum, p.BurnVoteVeto, p.BurnProposalDepositPrevote = c.burnQ, c.burnV, c.burnP
	if err := p.ValidateBasic(); err != nil {
		e.t.Logf("gov params invalid: %v", err)
		return "err:setup"
	}
	if err := e.a.GovKeeper.Params.Set(e.ctx, p); err != nil {
		return "err:setup"
	}
	return "ok"
}

// cfgLine renders the cfg op for a history: the configuration the harness installs and the
// starting balances read from the real bank.
func (e *sancEnv) cfgLine(c sancCfg) string {
	var b0 []string
	for _, n := range sancOrder {
		bal := e.a.BankKeeper.GetAllBalances(e.ctx, sancAddrs[n])
		if !bal.IsZero() {
			b0 = append(b0, n+":"+CoinsStr(bal))
		}
	}
	b := func(x bool) string {
		if x {
			return "1"
		}
		return "0"
	}
	return fmt.Sprintf("cfg unsanc=%s names=%s bond=%s mindep=%d expmindep=%d initmin=%d initminexp=%d depmin=%d depminexp=%d depp=%d votp=%d expvotp=%d cancel=%s burnq=%s burnv=%s burnp=%s bal0=%s",
		strings.Join(sancUnsanc, "|"), strings.Join(sancOrder, "|"), sancBond, c.minDep, c.expMinDep, c.initMin, c.initMinExp,
		c.depMin, c.depMinExp, c.depP, c.votP, c.expVotP, c.cancel, b(c.burnQ), b(c.burnV), b(c.burnP), JoinOr(b0, "|"))
}

func (e *sancEnv) exec(op string) string {
	ws := strings.Fields(op)
	if len(ws) == 0 {
		return "bad-op"
	}
	gs := govkeeper.NewMsgServerImpl(&e.a.GovKeeper)
	govAddr := sancAddrs["GOV"].String()
	switch ws[0] {
	case "tkey", "ikey", "skey", "tcmp", "tpre":
		return Guard(func() string { return sancKeyOp(ws) })
	case "cfg":
		return e.applyCfg(ws)
	case "q":
		return e.dump()
	case "submit":
		msgs, ok := e.anyMsgs(sancKV(ws, "msgs", "-"))
		dep, ok2 := sancCoins(sancKV(ws, "dep", "-"))
		if !ok || !ok2 {
			return "bad-op"
		}
		return e.try(func(ctx sdk.Context) (string, error) {
			m, err := govv1.NewMsgSubmitProposal(msgs, dep, e.addr(sancKV(ws, "who", "A")), "verif", "t", "s", sancKV(ws, "exp", "0") == "1")
			if err != nil {
				return "", err
			}
			res, err := gs.SubmitProposal(ctx, m)
			if err != nil {
				return "", err
			}
			return fmt.Sprintf("ok %d", res.ProposalId), nil
		})
	case "deposit":
		amt, ok := sancCoins(sancKV(ws, "amt", "-"))
		var id uint64
		fmt.Sscan(sancKV(ws, "id", "0"), &id)
		if !ok {
			return "bad-op"
		}
		return e.try(func(ctx sdk.Context) (string, error) {
			_, err := gs.Deposit(ctx, &govv1.MsgDeposit{ProposalId: id, Depositor: e.addr(sancKV(ws, "who", "A")), Amount: amt})
			return "", err
		})
	case "vote":
		var id uint64
		fmt.Sscan(sancKV(ws, "id", "0"), &id)
		opt := map[string]govv1.VoteOption{"yes": govv1.OptionYes, "no": govv1.OptionNo, "veto": govv1.OptionNoWithVeto, "abstain": govv1.OptionAbstain}[sancKV(ws, "opt", "")]
		return e.try(func(ctx sdk.Context) (string, error) {
			_, err := gs.Vote(ctx, &govv1.MsgVote{ProposalId: id, Voter: sancAddrs["V"].String(), Option: opt})
			return "", err
		})
	case "cancel":
		var id uint64
		fmt.Sscan(sancKV(ws, "id", "0"), &id)
		return e.try(func(ctx sdk.Context) (string, error) {
			_, err := gs.CancelProposal(ctx, &govv1.MsgCancelProposal{ProposalId: id, Proposer: e.addr(sancKV(ws, "who", "A"))})
			return "", err
		})
	case "block":
		var dt int64
		fmt.Sscan(sancKV(ws, "dt", "0"), &dt)
		out := e.try(func(ctx sdk.Context) (string, error) {
			return "", gov.EndBlocker(ctx, &e.a.GovKeeper)
		})
		if out == "ok" {
			e.now += dt
			e.ctx = e.ctx.WithBlockTime(sancT0.Add(time.Duration(e.now) * time.Second)).WithBlockHeight(e.ctx.BlockHeight() + 1)
		}
		return out
	case "params":
		sc, ok := sancCoins(sancKV(ws, "sanc", "-"))
		uc, ok2 := sancCoins(sancKV(ws, "unsanc", "-"))
		if !ok || !ok2 {
			return "bad-op"
		}
		return e.try(func(ctx sdk.Context) (string, error) {
			_, err := e.a.SanctionKeeper.UpdateParams(ctx, &sanction.MsgUpdateParams{Authority: govAddr,
				Params: &sanction.Params{ImmediateSanctionMinDeposit: sc, ImmediateUnsanctionMinDeposit: uc}})
			return "", err
		})
	case "send":
		amt, ok := sancCoins(sancKV(ws, "amt", "-"))
		if !ok {
			return "bad-op"
		}
		bs := bankkeeper.NewMsgServerImpl(e.a.BankKeeper)
		return e.try(func(ctx sdk.Context) (string, error) {
			_, err := bs.Send(ctx, &banktypes.MsgSend{FromAddress: e.addr(sancKV(ws, "from", "A")), ToAddress: e.addr(sancKV(ws, "to", "B")), Amount: amt})
			return "", err
		})
	case "xsend":
		// MsgSend from `from`, executed on its behalf by `via` through an authz grant
		amt, ok := sancCoins(sancKV(ws, "amt", "-"))
		if !ok {
			return "bad-op"
		}
		granter, err1 := sdk.AccAddressFromBech32(e.addr(sancKV(ws, "from", "A")))
		grantee, err2 := sdk.AccAddressFromBech32(e.addr(sancKV(ws, "via", "B")))
		if err1 != nil || err2 != nil || granter.Equals(grantee) {
			return "bad-op"
		}
		return e.try(func(ctx sdk.Context) (string, error) {
			exp := ctx.BlockTime().Add(24 * time.Hour)
			if err := e.a.AuthzKeeper.SaveGrant(ctx, grantee, granter, &authz.GenericAuthorization{Msg: sdk.MsgTypeURL(&banktypes.MsgSend{})}, &exp); err != nil {
				return "", err
			}
			_, err := e.a.AuthzKeeper.DispatchActions(ctx, grantee, []sdk.Msg{&banktypes.MsgSend{FromAddress: granter.String(), ToAddress: e.addr(sancKV(ws, "to", "B")), Amount: amt}})
			return "", err
		})
	case "msend":
		amt, ok := sancCoins(sancKV(ws, "amt", "-"))
		if !ok {
			return "bad-op"
		}
		if !amt.IsValid() || !amt.IsAllPositive() {
			return "err:invalid"
		}
		tos := sancList(sancKV(ws, "to", "-"), "|")
		total := sdk.Coins{}
		var outs []banktypes.Output
		for _, to := range tos {
			outs = append(outs, banktypes.Output{Address: e.addr(to), Coins: amt})
			total = total.Add(amt...)
		}
		bs := bankkeeper.NewMsgServerImpl(e.a.BankKeeper)
		return e.try(func(ctx sdk.Context) (string, error) {
			_, err := bs.MultiSend(ctx, &banktypes.MsgMultiSend{Inputs: []banktypes.Input{{Address: e.addr(sancKV(ws, "from", "A")), Coins: total}}, Outputs: outs})
			return "", err
		})
	case "delegate":
		amt, ok := sancCoins(sancKV(ws, "amt", "-"))
		if !ok {
			return "bad-op"
		}
		if len(amt) != 1 {
			return "err:invalid"
		}
		ss := stakingkeeper.NewMsgServerImpl(e.a.StakingKeeper)
		return e.try(func(ctx sdk.Context) (string, error) {
			_, err := ss.Delegate(ctx, &stakingtypes.MsgDelegate{DelegatorAddress: e.addr(sancKV(ws, "who", "A")), ValidatorAddress: sancValAddr, Amount: amt[0]})
			return "", err
		})
	case "tomod":
		// the primitive the fee deduction uses: account -> fee collector
		amt, ok := sancCoins(sancKV(ws, "amt", "-"))
		if !ok {
			return "bad-op"
		}
		if !amt.IsValid() || !amt.IsAllPositive() {
			return "err:invalid"
		}
		who, err := sdk.AccAddressFromBech32(e.addr(sancKV(ws, "who", "A")))
		if err != nil {
			return "err:invalid"
		}
		return e.try(func(ctx sdk.Context) (string, error) {
			return "", e.a.BankKeeper.SendCoinsFromAccountToModule(ctx, who, authtypes.FeeCollectorName, amt)
		})
	case "msg":
		msgs, ok := e.anyMsgs(sancKV(ws, "m", "-"))
		if !ok || len(msgs) != 1 {
			return "bad-op"
		}
		return e.try(func(ctx sdk.Context) (string, error) {
			var err error
			switch m := msgs[0].(type) {
			case *sanction.MsgSanction:
				_, err = e.a.SanctionKeeper.Sanction(ctx, m)
			case *sanction.MsgUnsanction:
				_, err = e.a.SanctionKeeper.Unsanction(ctx, m)
			}
			return "", err
		})
	case "fund":
		amt, ok := sancCoins(sancKV(ws, "amt", "-"))
		if !ok {
			return "bad-op"
		}
		if !amt.IsValid() || !amt.IsAllPositive() {
			return "err:invalid"
		}
		who, err := sdk.AccAddressFromBech32(e.addr(sancKV(ws, "who", "A")))
		if err != nil {
			return "err:invalid"
		}
		return e.try(func(ctx sdk.Context) (string, error) {
			if err := e.a.BankKeeper.MintCoins(ctx, minttypes.ModuleName, amt); err != nil {
				return "", err
			}
			return "", e.a.BankKeeper.SendCoinsFromModuleToAccount(ctx, minttypes.ModuleName, who, amt)
		})
	}
	return "bad-op"
}

// sancKeyOp runs the exported key functions of x/sanction/keeper/keys.go.
func sancKeyOp(ws []string) string {
	addr, err := hex.DecodeString(sancKV(ws, "addr", ""))
	if err != nil {
		return "bad-op"
	}
	u := func(k string) uint64 {
		var x uint64
		fmt.Sscan(sancKV(ws, k, "0"), &x)
		return x
	}
	switch ws[0] {
	case "tkey":
		return hex.EncodeToString(sanctionkeeper.CreateTemporaryKey(addr, u("id")))
	case "ikey":
		return hex.EncodeToString(sanctionkeeper.CreateProposalTempIndexKey(u("id"), addr))
	case "skey":
		return hex.EncodeToString(sanctionkeeper.CreateSanctionedAddrKey(addr))
	case "tcmp":
		return fmt.Sprint(bytes.Compare(sanctionkeeper.CreateTemporaryKey(addr, u("a")), sanctionkeeper.CreateTemporaryKey(addr, u("b"))))
	case "tpre":
		other, err := hex.DecodeString(sancKV(ws, "other", ""))
		if err != nil {
			return "bad-op"
		}
		if bytes.HasPrefix(sanctionkeeper.CreateTemporaryKey(other, u("id")), sanctionkeeper.CreateTemporaryAddrPrefix(addr)) {
			return "1"
		}
		return "0"
	}
	return "bad-op"
}

// keyHistory emits one history of key-layout ops: boundary ids, addresses of many lengths,
// and pairs of addresses where one is a byte prefix of the other.
func (g *sancGen) keyHistory(n int) {
	r := g.r
	g.out.Comment("history keys")
	id := func() uint64 {
		switch r.Intn(8) {
		case 0:
			return uint64(r.Intn(3))
		case 1:
			return uint64(254 + r.Intn(4))
		case 2:
			return uint64(1)<<32 - 1 + uint64(r.Intn(3))
		case 3:
			return uint64(1)<<63 - 1 + uint64(r.Intn(3))
		case 4:
			return ^uint64(0) - uint64(r.Intn(2))
		case 5:
			return uint64(1) << uint(r.Intn(64))
		}
		return r.U64() >> uint(r.Intn(64))
	}
	addr := func() []byte {
		l := Pick(r, []int{1, 2, 8, 19, 20, 20, 20, 21, 32, 32, 33, 64, 255})
		b := make([]byte, l)
		for i := range b {
			b[i] = byte(r.U64())
			if r.Chance(20) {
				b[i] = Pick(r, []byte{0, 1, 2, 3, 20, 32, 255})
			}
		}
		return b
	}
	for i := 0; i < n; i++ {
		a := addr()
		ah := hex.EncodeToString(a)
		var op string
		switch r.Intn(6) {
		case 0:
			op = fmt.Sprintf("tkey addr=%s id=%d", ah, id())
		case 1:
			op = fmt.Sprintf("ikey addr=%s id=%d", ah, id())
		case 2:
			op = fmt.Sprintf("skey addr=%s", ah)
		case 3, 4:
			x := id()
			y := id()
			if r.Chance(30) {
				y = x + uint64(r.Intn(3)) - 1
			}
			op = fmt.Sprintf("tcmp addr=%s a=%d b=%d", ah, x, y)
		default:
			o := addr()
			switch r.Intn(4) {
			case 0:
				o = a
			case 1: // other extends addr
				if len(a) < 200 {
					extra := addr()
					k := 1 + r.Intn(len(extra))
					if k > 8 {
						k = 8
					}
					o = append(append([]byte{}, a...), extra[:k]...)
				}
			case 2: // other is a proper prefix of addr
				if len(a) > 1 {
					o = a[:1+r.Intn(len(a)-1)]
				}
			}
			if len(o) > 255 {
				o = o[:255]
			}
			op = fmt.Sprintf("tpre addr=%s other=%s id=%d", ah, hex.EncodeToString(o), id())
		}
		res := Guard(func() string { return sancKeyOp(strings.Fields(op)) })
		g.out.Emit(op, res)
		g.out.Count("op:" + strings.Fields(op)[0])
	}
}

func sancShowName(n string) string {
	if n == "" {
		return "EMPTY"
	}
	return n
}

// dump renders the canonical state line from the real keepers.
func (e *sancEnv) dump() string {
	return Guard(func() string {
		k := e.a.SanctionKeeper
		var san, perm, temp, idx, props, bal []string
		for _, n := range sancOrder {
			b := "0"
			if k.IsSanctionedAddr(e.ctx, sancAddrs[n]) {
				b = "1"
			}
			san = append(san, n+":"+b)
			bal = append(bal, n+":"+CoinsStr(e.a.BankKeeper.GetAllBalances(e.ctx, sancAddrs[n])))
		}
		k.IterateSanctionedAddresses(e.ctx, func(addr sdk.AccAddress) bool {
			perm = append(perm, e.name(addr))
			return false
		})
		sort.Strings(perm)
		type te struct {
			n  string
			id uint64
			s  bool
		}
		var tes []te
		k.IterateTemporaryEntries(e.ctx, nil, func(addr sdk.AccAddress, id uint64, isSanction bool) bool {
			tes = append(tes, te{e.name(addr), id, isSanction})
			return false
		})
		sort.Slice(tes, func(i, j int) bool {
			if tes[i].n != tes[j].n {
				return tes[i].n < tes[j].n
			}
			return tes[i].id < tes[j].id
		})
		for _, x := range tes {
			v := "U"
			if x.s {
				v = "S"
			}
			temp = append(temp, fmt.Sprintf("%s/%d/%s", x.n, x.id, v))
		}
		var ies []te
		k.IterateProposalIndexEntries(e.ctx, nil, func(id uint64, addr sdk.AccAddress) bool {
			ies = append(ies, te{e.name(addr), id, false})
			return false
		})
		sort.Slice(ies, func(i, j int) bool {
			if ies[i].id != ies[j].id {
				return ies[i].id < ies[j].id
			}
			return ies[i].n < ies[j].n
		})
		for _, x := range ies {
			idx = append(idx, fmt.Sprintf("%d/%s", x.id, x.n))
		}
		next, err := e.a.GovKeeper.ProposalID.Peek(e.ctx)
		if err != nil {
			return "err:dump"
		}
		for id := uint64(1); id < next; id++ {
			p, err := e.a.GovKeeper.Proposals.Get(e.ctx, id)
			if err != nil {
				continue
			}
			st := map[govv1.ProposalStatus]string{govv1.StatusDepositPeriod: "D", govv1.StatusVotingPeriod: "V", govv1.StatusPassed: "P",
				govv1.StatusRejected: "R", govv1.StatusFailed: "F"}[p.Status]
			props = append(props, fmt.Sprintf("%d:%s:%s", id, st, sdk.Coins(p.TotalDeposit).AmountOf(sancBond)))
		}
		return fmt.Sprintf("san=%s perm=%s temp=%s idx=%s props=%s next=%d bal=%s",
			JoinOr(san, ";"), JoinOr(perm, ";"), JoinOr(temp, ";"), JoinOr(idx, ";"), JoinOr(props, ";"), next, JoinOr(bal, ";"))
	})
}

// ---- generator -------------------------------------------------------------------------

type sancGen struct {
	e    *sancEnv
	r    *RNG
	out  *Out
	last string
	failProne bool // more protected addresses among the targets (passed proposals whose messages fail)
	mode int // 0 = mixed, 1 = voting-heavy (proposals reach the voting period and are resolved by votes)
	sanc int64 // immediate sanction min deposit (0 = none)
	uns  int64
}

func (g *sancGen) do(op string) string {
	res := g.e.exec(op)
	g.out.Emit(op, res)
	kind := strings.Fields(op)[0]
	g.last = kind
	g.out.Count("op:" + kind)
	cls := res
	if strings.HasPrefix(res, "ok") {
		cls = "ok"
	}
	if kind != "q" && kind != "cfg" {
		g.out.Count("res:" + kind + ":" + cls)
	}
	return res
}

func (g *sancGen) q() {
	d := g.e.exec("q")
	g.out.Emit("q", d)
	g.out.Count("op:q")
	if strings.Contains(d, "/S") {
		g.out.Count("state:temp-sanction")
	}
	if strings.Contains(d, "/U") {
		g.out.Count("state:temp-unsanction")
	}
	if !strings.Contains(d, "perm=- ") {
		g.out.Count("state:perm-nonempty")
	}
	// overlapping proposals on one address (the "latest entry" rule is exercised)
	if t := kvArg(strings.Fields(d), "temp"); t != "-" && t != "" {
		vals := map[string]map[string]bool{}
		for _, e := range strings.Split(t, ";") {
			f := strings.Split(e, "/")
			if len(f) != 3 {
				continue
			}
			if vals[f[0]] == nil {
				vals[f[0]] = map[string]bool{}
			}
			vals[f[0]][f[1]+f[2]] = true
		}
		overlap, conflict := false, false
		for _, m := range vals {
			if len(m) > 1 {
				overlap = true
				s, u := false, false
				for k := range m {
					if strings.HasSuffix(k, "S") {
						s = true
					} else {
						u = true
					}
				}
				if s && u {
					conflict = true
				}
			}
		}
		if overlap {
			g.out.Count("state:addr-with-entries-of-several-proposals")
		}
		if conflict {
			g.out.Count("state:addr-with-conflicting-entries")
		}
	}
	for _, x := range strings.Split(kvArg(strings.Fields(d), "san"), ";") {
		if strings.HasSuffix(x, ":1") {
			g.out.Count("state:some-account-sanctioned")
			break
		}
	}
}

func (g *sancGen) coin(n int64) string {
	if n < 0 {
		n = 0
	}
	return fmt.Sprintf("%d%s", n, sancBond)
}

func (g *sancGen) target() string {
	r := g.r
	switch {
	case r.Chance(7) || g.failProne && r.Chance(18):
		return Pick(r, sancUnsanc)
	case r.Chance(2):
		return "EMPTY"
	case r.Chance(10):
		return "V"
	}
	return Pick(r, sancUsers)
}

func (g *sancGen) msgs() string {
	r := g.r
	n := 1 + r.Intn(3)
	if r.Chance(3) {
		n = 0
	}
	var ms []string
	for i := 0; i < n; i++ {
		kind := "s"
		if r.Chance(35) {
			kind = "u"
		}
		if r.Chance(3) {
			kind += "!"
		}
		k := 1 + r.Intn(3)
		if r.Chance(4) {
			k = 0
		}
		var as []string
		for j := 0; j < k; j++ {
			as = append(as, g.target())
		}
		ms = append(ms, kind+":"+JoinOr(as, "|"))
	}
	return JoinOr(ms, ";")
}

// interesting deposit amounts: around the gov floors and the immediate thresholds
func (g *sancGen) amount(total int64) int64 {
	r := g.r
	c := g.e.cfg
	cands := []int64{c.depMin - 1, c.depMin, c.initMin - 1, c.initMin, c.initMinExp, c.minDep - total, c.minDep - total - 1, c.expMinDep - total,
		int64(1 + r.Intn(400)), int64(100 + r.Intn(1500))}
	for _, th := range []int64{g.sanc, g.uns} {
		if th > 0 {
			cands = append(cands, th-total, th-total-1, th-total+1, th, th-1)
		}
	}
	x := Pick(r, cands)
	if g.mode == 1 && r.Chance(55) {
		x = Pick(r, []int64{c.minDep - total, c.minDep - total, c.expMinDep - total, c.minDep - total + int64(r.Intn(600))})
	}
	if x <= 0 {
		x = int64(1 + r.Intn(300))
	}
	return x
}

func (g *sancGen) who() string {
	if g.r.Chance(25) {
		return "V"
	}
	return Pick(g.r, sancUsers)
}

func (g *sancGen) propTotals() (ids []uint64, totals map[uint64]int64, proposers map[uint64]string, next uint64) {
	totals = map[uint64]int64{}
	proposers = map[uint64]string{}
	next, _ = g.e.a.GovKeeper.ProposalID.Peek(g.e.ctx)
	for id := uint64(1); id < next; id++ {
		p, err := g.e.a.GovKeeper.Proposals.Get(g.e.ctx, id)
		if err != nil {
			continue
		}
		ids = append(ids, id)
		totals[id] = sdk.Coins(p.TotalDeposit).AmountOf(sancBond).Int64()
		if pa, err := sdk.AccAddressFromBech32(p.Proposer); err == nil {
			proposers[id] = g.e.name(pa)
		}
	}
	return
}

// propStates maps proposal id -> status letter (+"x" when expedited) read from the real gov store.
func (g *sancGen) propStates() map[uint64]string {
	m := map[uint64]string{}
	next, _ := g.e.a.GovKeeper.ProposalID.Peek(g.e.ctx)
	for id := uint64(1); id < next; id++ {
		p, err := g.e.a.GovKeeper.Proposals.Get(g.e.ctx, id)
		if err != nil {
			continue
		}
		st := map[govv1.ProposalStatus]string{govv1.StatusDepositPeriod: "D", govv1.StatusVotingPeriod: "V", govv1.StatusPassed: "P",
			govv1.StatusRejected: "R", govv1.StatusFailed: "F"}[p.Status]
		if p.Expedited {
			st += "x"
		}
		m[id] = st
	}
	return m
}

func (g *sancGen) hasTemp(id uint64) bool {
	found := false
	g.e.a.SanctionKeeper.IterateProposalIndexEntries(g.e.ctx, &id, func(uint64, sdk.AccAddress) bool {
		found = true
		return true
	})
	return found
}

// countTransitions records how proposals were resolved by the last operation.
func (g *sancGen) countTransitions(kind string, before map[uint64]string, hadTemp map[uint64]bool) {
	after := g.propStates()
	for id, b := range before {
		a, ok := after[id]
		tag := ""
		switch {
		case !ok && kind == "cancel":
			tag = "cancelled"
		case !ok:
			tag = "expired"
		case a == b:
			continue
		case strings.HasPrefix(a, "P"):
			tag = "passed"
		case strings.HasPrefix(a, "R"):
			tag = "rejected"
		case strings.HasPrefix(a, "F"):
			tag = "failed"
		case b == "Vx" && a == "V":
			tag = "expedited-converted"
		case strings.HasPrefix(b, "D") && strings.HasPrefix(a, "V"):
			tag = "voting-started"
		default:
			continue
		}
		g.out.Count("resolve:" + tag)
		if hadTemp[id] && tag != "voting-started" {
			g.out.Count("resolve-with-temp:" + tag)
		}
	}
}

func (g *sancGen) sanctionedNames() []string {
	var out []string
	for _, n := range []string{"A", "B", "C", "D", "V"} {
		if g.e.a.SanctionKeeper.IsSanctionedAddr(g.e.ctx, sancAddrs[n]) {
			out = append(out, n)
		}
	}
	return out
}

func (g *sancGen) history(k int, steps int) {
	r := g.r
	g.e = newSancEnv(g.e.t)
	g.out.Comment(fmt.Sprintf("history %d", k))
	c := sancDefaultCfg()
	c.cancel = Pick(r, []string{"1/2", "1/2", "1/4", "0/1", "1/1"})
	c.burnQ, c.burnV, c.burnP = r.Chance(30), r.Chance(70), r.Chance(25)
	g.e.cfg = c
	// install the gov params first so that the cfg line reports what is installed
	line := g.e.cfgLine(c)
	g.do(line)
	for _, n := range sancUsers {
		if r.Chance(90) {
			g.do(fmt.Sprintf("fund who=%s amt=%s", n, g.coin(int64(200+r.Intn(6000)))))
		}
	}
	g.mode = 0
	if r.Chance(45) {
		g.mode = 1
	}
	g.failProne = g.mode == 1 && r.Chance(30)
	g.sanc = Pick(r, []int64{0, 150, 150, 500, 500, 1000, 1500})
	if g.failProne {
		g.sanc = Pick(r, []int64{0, 1500, 2500})
	}
	g.uns = Pick(r, []int64{0, 0, 300, 300, 700, 1200})
	pc := func(x int64) string {
		if x == 0 {
			return "-"
		}
		return g.coin(x)
	}
	g.do(fmt.Sprintf("params sanc=%s unsanc=%s", pc(g.sanc), pc(g.uns)))
	g.q()
	for i := 0; i < steps; i++ {
		ids, totals, proposers, next := g.propTotals()
		before := g.propStates()
		hadTemp := map[uint64]bool{}
		for id := range before {
			hadTemp[id] = g.hasTemp(id)
		}
		pickID := func() uint64 {
			if len(ids) > 0 && r.Chance(90) {
				return Pick(r, ids)
			}
			return uint64(1 + r.Intn(int(next)+1))
		}
		x := r.Intn(100)
		var voting []uint64
		for id, st := range before {
			if strings.HasPrefix(st, "V") {
				voting = append(voting, id)
			}
		}
		sort.Slice(voting, func(i, j int) bool { return voting[i] < voting[j] })
		if g.mode == 1 && len(ids) > 0 {
			// voting-heavy: more votes and long blocks, fewer cancels
			switch y := r.Intn(100); {
			case y < 20:
				x = 45 // vote
			case y < 42:
				x = 60 // block
			case y < 45:
				x = 72 // cancel
			}
		}
		switch {
		case x < 22 || len(ids) == 0 && x < 50:
			exp := "0"
			if r.Chance(15) || g.mode == 1 && r.Chance(15) {
				exp = "1"
			}
			g.do(fmt.Sprintf("submit who=%s msgs=%s dep=%s exp=%s", g.who(), g.msgs(), g.coin(g.amount(0)), exp))
		case x < 42:
			id := pickID()
			amt := g.coin(g.amount(totals[id]))
			if r.Chance(3) {
				amt = "5xcoin"
			}
			if r.Chance(2) {
				amt = "0" + sancBond
			}
			g.do(fmt.Sprintf("deposit who=%s id=%d amt=%s", g.who(), id, amt))
		case x < 54:
			id := pickID()
			if len(voting) > 0 && r.Chance(85) {
				id = Pick(r, voting)
			}
			g.do(fmt.Sprintf("vote id=%d opt=%s", id, Pick(r, []string{"yes", "yes", "yes", "yes", "yes", "no", "no", "veto", "abstain"})))
		case x < 70:
			dts := []int64{0, 10, 30, 49, 50, 51, 60, 99, 100, 101, 150}
			if g.mode == 1 {
				dts = []int64{0, 30, 50, 50, 51, 100, 100, 101, 150}
			}
			g.do(fmt.Sprintf("block dt=%d", Pick(r, dts)))
		case x < 78:
			id := pickID()
			who := proposers[id]
			if who == "" || r.Chance(15) {
				who = g.who()
			}
			g.do(fmt.Sprintf("cancel who=%s id=%d", who, id))
		case x < 94:
			from := g.who()
			if s := g.sanctionedNames(); len(s) > 0 && r.Chance(60) {
				from = Pick(r, s)
			}
			to := Pick(r, sancUsers)
			if s := g.sanctionedNames(); len(s) > 0 && r.Chance(40) {
				to = Pick(r, s)
			}
			bal := g.e.a.BankKeeper.GetBalance(g.e.ctx, sancAddrs[from], sancBond).Amount
			amt := int64(1 + r.Intn(50))
			// (never V's whole balance: the model's tally assumes V keeps (almost) all bonded stake,
			// so what users can delegate must stay far below V's 1,000,000 bonded)
			if bal.IsInt64() && r.Chance(15) && from != "V" {
				amt = bal.Int64() + int64(r.Intn(2))
			}
			if amt <= 0 {
				amt = 1
			}
			a := g.coin(amt)
			if r.Chance(2) {
				a = "0" + sancBond
			}
			switch r.Intn(5) {
			case 4:
				via := Pick(r, sancUsers)
				if via == from {
					via = "V"
					if from == "V" {
						via = "A"
					}
				}
				g.do(fmt.Sprintf("xsend via=%s from=%s to=%s amt=%s", via, from, to, a))
			case 0:
				g.do(fmt.Sprintf("send from=%s to=%s amt=%s", from, to, a))
			case 1:
				tos := []string{to}
				if r.Chance(60) {
					tos = append(tos, Pick(r, sancUsers))
				}
				g.do(fmt.Sprintf("msend from=%s to=%s amt=%s", from, strings.Join(tos, "|"), a))
			case 2:
				g.do(fmt.Sprintf("delegate who=%s amt=%s", from, a))
			default:
				g.do(fmt.Sprintf("tomod who=%s amt=%s", from, a))
			}
		case x < 97:
			kind := Pick(r, []string{"s", "s", "u", "s!", "u!"})
			g.do(fmt.Sprintf("msg m=%s:%s", kind, JoinOr([]string{g.target(), g.target()}[:1+r.Intn(2)], "|")))
		default:
			g.sanc = Pick(r, []int64{0, 100, 150, 500, 1000})
			g.uns = Pick(r, []int64{0, 300, 700})
			s, u := pc(g.sanc), pc(g.uns)
			if r.Chance(15) {
				s = "5stake,3abc" // not sorted: invalid
			}
			g.do(fmt.Sprintf("params sanc=%s unsanc=%s", s, u))
		}
		g.countTransitions(g.last, before, hadTemp)
		g.q()
	}
}

func driveSanc(t *testing.T, rng *RNG, n int, out *Out) {
	g := &sancGen{e: &sancEnv{t: t}, r: rng, out: out}
	steps := 16
	if *flagTier == "thorough" {
		steps = 26
	}
	g.keyHistory(40 + n/2)
	for k := 0; k < n; k++ {
		g.history(k, steps+rng.Intn(8))
	}
}

func replaySanc(t *testing.T, ops []string, out *Out) {
	e := newSancEnv(t)
	for _, op := range ops {
		if strings.HasPrefix(op, "#") {
			if strings.HasPrefix(op, "# history") {
				e = newSancEnv(t)
			}
			out.Comment(strings.TrimPrefix(strings.TrimPrefix(op, "#"), " "))
			continue
		}
		out.Emit(op, e.exec(op))
	}
}
